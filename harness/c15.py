"""C15 - schema validation accepts exactly the messages the FIX dictionary allows.

Theorems (Props/C15.v) are about coq/theories/Fix/SchemaModel.v, for every well-formed schema.
This harness ties that model to asyncfix/protocol/schema.py on the two real dictionaries:

* for every message type of tests/FIX44.xml and tests/TT-FIX44.xml it generates valid instances
  from the parsed schema (required members, random optional ones, groups with 1-3 items in
  dictionary order starting with the first member, nested groups, optionally the framing header,
  values the REAL SchemaField.validate_value accepts) and every single-fault mutation class at
  applicable positions, at message level and inside group items down to the deepest nesting;
* runs the real FIXSchema.validate and the extracted model on each case (projection: returned /
  exception class name).  Single-value validation is C19's subject: the request carries, for every
  (tag, text) pair of the message, what the real validate_value did, and the model uses that;
* runs an independent statement of "conforms" (below, on the plain dump of the schema, no library
  code) as the property oracle: a conforming message must validate, a non-conforming one must
  raise FIXMessageError and nothing else;
* ties the parse model Fix/SchemaParse.v (theorem C15_component_order_independent) to the real
  parser: all rotations + random permutations of the <components> of the dictionaries, and synthetic
  dictionaries as generated / with components reversed / with one declaration defect (circular or
  undeclared reference, duplicate member, unknown field, refused group field, duplicate names,
  component reference in the header) go through FIXSchema and through the extracted parse model;
  projection: parsed schema structure or exception class.  Oracle: the schema parsed from a
  permuted declaration list equals the one of the original order."""
import copy
import json
import os
import random
import time
import warnings
import xml.etree.ElementTree as ET

from translator import gen_schema
from vlib import core
from vlib.core import sx

META = {
    "level": "proof",
    "tables": ["GenSchema"],
    "files": ["asyncfix/protocol/schema.py", "asyncfix/message.py", "tests/FIX44.xml", "tests/TT-FIX44.xml"],
    "rule": "per message type of both dictionaries: generated valid instances (random optional members, 1-3 group items, "
            "nesting forced down to a random deepest group path, optional framing header / CheckSum) and one mutant per "
            "single-fault class and nesting depth (thorough: several positions); a case is one message, non-trivial when its "
            "type is known and it has at least 3 entries; distinct by canonical (dictionary, type, entry tree); plus one case "
            "per permutation of the <components> declaration order (real parser and parse model) and one per synthetic "
            "dictionary variant (as generated, components reversed, one declaration defect) sent through real parser and parse model",
    "trusted_base": [
        "translator/gen_schema.py: dump of the parsed schema objects (checks on the objects that the list-of-members abstraction is faithful)",
        "single-value validation (SchemaField.validate_value) is not modelled: its verdict per (field, text) is an input of model and oracle (C19)",
        "the dictionary parse is modelled in Fix/SchemaParse.v over the raw declarations read with xml.etree (translator raw_of_root); the XML tokenisation by xml.etree and the attribute access are outside the model",
        "a group added to a set that already holds a same-named member (Python keeps both objects) is outside the parse model (answer 6, not compared); never met by the two dictionaries",
    ],
    "assumptions": [
        "asyncfix/protocol/schema.py carries fixes/C15-required-groups-header-members.patch (the model describes the repaired code)",
        "message values are strings or repeating groups (no exception-class markers), tags are unique per container (OrderedDict)",
    ],
}

DICTS = [(0, "FIX44", "tests/FIX44.xml"), (1, "TT", "tests/TT-FIX44.xml")]
OTHER = []          # exception class names other than FIXMessageError / AssertionError, code = 3 + index


def exc_code(e):
    n = type(e).__name__
    if n == "FIXMessageError":
        return 1
    if n == "AssertionError":
        return 2
    if n not in OTHER:
        OTHER.append(n)
    return 3 + OTHER.index(n)


def code_name(c):
    return {0: "ok", 1: "FIXMessageError", 2: "AssertionError"}.get(c) or (OTHER[c - 3] if 0 <= c - 3 < len(OTHER) else "class%d" % c)


# ------------------------------------------------------------------------------------------
# independent statement of the property on the dumped schema (no library code)
# ------------------------------------------------------------------------------------------

def conf_member(mem, val, ok):
    """mem = ("F", tag, req) | ("G", tag, req, members); val = text | list of items."""
    if mem[0] == "F":
        return isinstance(val, str) and ok(mem[1], val)
    if isinstance(val, str):
        return False
    return all(conf_item(mem[3], item, ok) for item in val)


def conf_item(members, item, ok):
    """An item is a selection of the group's members in dictionary order that starts with the first
    member and leaves out no required member; every selected member holds a conforming value."""
    if not item or not members or item[0][0] != members[0][1]:
        return False
    pos = 0
    for tag, val in item:
        while pos < len(members) and members[pos][1] != tag:
            if members[pos][2]:
                return False        # a required member was passed over
            pos += 1
        if pos == len(members):
            return False            # foreign tag, repeated tag or tag out of dictionary order
        if not conf_member(members[pos], val, ok):
            return False
        pos += 1
    return not any(m[2] for m in members[pos:])


def conforms(d, mt, entries, ok):
    msgs = {m[0]: m[2] for m in d["messages"]}
    if mt not in msgs:
        return False
    body, header = msgs[mt], d["header"]
    keys = [t for t, _ in entries]
    if any(m[2] and m[1] not in keys for m in body):
        return False
    if "8" in keys and any(m[2] and m[1] not in keys for m in header):
        return False
    allowed = {m[1]: m for m in body}
    allowed.update({m[1]: m for m in header})
    for tag, val in entries:
        if tag == "10":
            continue                # CheckSum is the codec's business
        if tag not in allowed or not conf_member(allowed[tag], val, ok):
            return False
    return True


# ------------------------------------------------------------------------------------------
# dictionaries, values
# ------------------------------------------------------------------------------------------

GOOD = {
    "INT": ["5", "-3", "0", "12345"], "SEQNUM": ["1", "7", "120"], "NUMINGROUP": ["1", "2"],
    "DAYOFMONTH": ["1", "17", "31"], "LENGTH": ["5", "100"], "DATA": ["abc", "0123"],
    "STRING": ["abc", "X Y", "ORD-1", "a.b"], "MULTIPLESTRINGVALUE": ["A B", "x"], "MULTIPLEVALUESTRING": ["A B", "x"],
    "CHAR": ["A", "1", "z"], "BOOLEAN": ["Y", "N"], "COUNTRY": ["US", "DE"], "CURRENCY": ["USD", "EUR"],
    "EXCHANGE": ["XNYS", "N"], "LOCALMKTDATE": ["20230115"], "UTCDATEONLY": ["20230115"],
    "UTCTIMESTAMP": ["20230115-12:30:45", "20230115-12:30:45.123"], "UTCTIMEONLY": ["12:30:45"],
    "MONTHYEAR": ["202301", "20230115", "202301w2"],
}
for _t in ("FLOAT", "QTY", "PRICE", "PRICEOFFSET", "AMT", "PERCENTAGE"):
    GOOD[_t] = ["1.5", "100", "-0.25", "0"]
BAD = {
    "INT": ["abc", "1.5x"], "SEQNUM": ["0", "-1", "abc"], "NUMINGROUP": ["0", "abc"], "DAYOFMONTH": ["32", "0", "abc"],
    "STRING": ["a=b", "a\x01b"], "MULTIPLESTRINGVALUE": ["a=b"], "CHAR": ["AB", "=="], "BOOLEAN": ["X", "YN"],
    "COUNTRY": ["USA", "U-"], "CURRENCY": ["USDX", "U-D"], "EXCHANGE": ["XNYSX", "X-"],
    "LOCALMKTDATE": ["2023-01-15", "20231315"], "UTCDATEONLY": ["2023-01-15", "20231315"],
    "UTCTIMESTAMP": ["20230115", "20230115-25:00:00"], "UTCTIMEONLY": ["25:00:00", "noon"],
    "MONTHYEAR": ["2023", "202313", "202301w9"],
}
for _t in ("FLOAT", "QTY", "PRICE", "PRICEOFFSET", "AMT", "PERCENTAGE"):
    BAD[_t] = ["abc", "nan", "1,5"]


# Independent audit table for the fault class "value outside the declared type" (added after seeded change C15-4, which
# loosened the lexical check and was seen by C19 only): texts that are inside / outside the FIX 4.4 value space of the
# type whatever the code says.  Entries that touch a listed C19 finding (LENGTH, '=' in strings, 6-digit fractions,
# leap second, year 0000) are deliberately absent.
AUDIT_BAD = {k: [x for x in v if x != "a=b" and x != "=="] for k, v in BAD.items()}
for _t in ("INT", "SEQNUM", "NUMINGROUP", "DAYOFMONTH"):
    AUDIT_BAD[_t] = AUDIT_BAD[_t] + ["1_0", "5\n", " 5", "5 ", "1e1", "1.0"]
for _t in ("FLOAT", "QTY", "PRICE", "PRICEOFFSET", "AMT", "PERCENTAGE"):
    AUDIT_BAD[_t] = AUDIT_BAD[_t] + ["1_0", "1e3", "10.5 ", "100\n", " 1.5", "inf", "0x10"]
AUDIT_BAD["UTCTIMESTAMP"] = AUDIT_BAD["UTCTIMESTAMP"] + ["20230115-12:30:45.1234", "20230115-12:30:45.12", "20230115-12:30:45 ", "20230115-12:30"]
AUDIT_BAD["UTCTIMEONLY"] = AUDIT_BAD["UTCTIMEONLY"] + ["12:30:45.1234", "12:30:45\n", "12:30"]
AUDIT_BAD["LOCALMKTDATE"] = AUDIT_BAD["LOCALMKTDATE"] + ["20230115 ", "2023011"]
AUDIT_BAD["BOOLEAN"] = AUDIT_BAD["BOOLEAN"] + ["y", "1"]


class Dict:
    def __init__(self, idx, name, rel, schema=None, xml=None):
        self.idx, self.name, self.rel, self.xml = idx, name, rel, xml
        if schema is None:
            self.schema, self.d = gen_schema.load_plain(rel, strict=False)
        else:
            self.schema, self.d = schema, gen_schema.dump(schema, strict=False)
        self.sx_schema = sx_schema(self.d) if idx == 2 else None
        self.fields = {f[0]: f for f in self.d["fields"]}
        self.msgs = {m[0]: m[2] for m in self.d["messages"]}
        self.header = self.d["header"]
        self.verdicts = {}
        self.good, self.bad = {}, {}

    def verdict(self, tag, text):
        """What the REAL validate_value does: 0 returns, 1 FIXMessageError, 2 AssertionError, n other."""
        k = (tag, text)
        if k not in self.verdicts:
            f = self.schema._tag2field[tag]
            try:
                with warnings.catch_warnings():
                    warnings.simplefilter("ignore")
                    f.validate_value(text)
                self.verdicts[k] = 0
            except Exception as e:  # noqa: BLE001 - the class is the observation
                self.verdicts[k] = exc_code(e)
        return self.verdicts[k]

    def ok(self, tag, text):
        return tag in self.fields and self.verdict(tag, text) == 0

    def good_values(self, tag):
        if tag not in self.good:
            f = self.schema._tag2field[tag]
            cands = list(f.values.keys()) if f.values else GOOD.get(f.ftype.upper(), ["1", "abc"])
            self.good[tag] = [c for c in cands if c != "" and self.verdict(tag, c) == 0] or \
                [c for c in ["1", "A", "abc", "20230115"] if self.verdict(tag, c) == 0]
        return self.good[tag]

    def bad_values(self, tag):
        """Texts the real validate_value refuses with FIXMessageError (none for DATA/LENGTH/unsupported types)."""
        if tag not in self.bad:
            f = self.schema._tag2field[tag]
            cands = ["~~", "#?"] if f.values else BAD.get(f.ftype.upper(), [])
            self.bad[tag] = [c for c in cands if self.verdict(tag, c) == 1]
        return self.bad[tag]


def sx_schema(d):
    ncode = {n: i for i, n in enumerate(d["names"])}
    tcode = {t: i for i, t in enumerate(d["types"])}

    def mem(m):
        if m[0] == "F":
            return "[0,%s,%d]" % (sx(m[1]), int(m[2]))
        return "[1,%s,%d,[%s]]" % (sx(m[1]), int(m[2]), ",".join(mem(x) for x in m[3]))
    fields = ",".join("[%s,%d,%d,%d]" % (sx(t), ncode[n], tcode[y], int(e)) for t, n, y, e in d["fields"])
    header = ",".join(mem(m) for m in d["header"])
    msgs = ",".join("[%s,[%s]]" % (sx(mt), ",".join(mem(m) for m in ms)) for mt, _, ms in d["messages"])
    return "[[%s],[%s],[%s]]" % (fields, header, msgs)


def synth_xml(rng):
    """A small random dictionary (XML text) with many required members and groups at every depth,
    a header group, and a component; member names are unique within every set and the header is
    disjoint from every message, so the parsed schema is well formed."""
    nf = rng.randrange(12, 24)
    nums = rng.sample([n for n in range(11, 300) if n != 35], nf)
    root = ET.Element("fix", {"type": "FIX", "major": "4", "minor": "4"})
    fields = ET.SubElement(root, "fields")
    plain, groups = [], []

    def field(num, name, ftype, enum=None):
        f = ET.SubElement(fields, "field", {"number": str(num), "name": name, "type": ftype})
        for v in enum or []:
            ET.SubElement(f, "value", {"enum": v, "description": "D" + v})
    field(8, "BeginString", "STRING")
    field(9, "BodyLength", "LENGTH")
    field(35, "MsgType", "STRING")
    field(10, "CheckSum", "STRING")
    for n in nums:
        if rng.random() < 0.35:
            groups.append("NoG%d" % n)
            field(n, "NoG%d" % n, rng.choice(("NUMINGROUP", "INT")))
        else:
            t = rng.choice(("STRING", "INT", "CHAR", "BOOLEAN", "PRICE", "UTCTIMESTAMP", "DATA", "CURRENCY"))
            plain.append("F%d" % n)
            field(n, "F%d" % n, t, ["A", "B", "C"] if (t == "CHAR" and rng.random() < 0.5) else None)
    if not groups:
        groups.append("NoG%d" % nums[0])
        plain = [p for p in plain if p != "F%d" % nums[0]]
        for f in list(fields):
            if f.attrib["number"] == str(nums[0]):
                f.attrib.update({"name": "NoG%d" % nums[0], "type": "NUMINGROUP"})
                for v in list(f):
                    f.remove(v)
    yn = lambda p: "Y" if rng.random() < p else "N"  # noqa: E731

    def fill(el, depth, taken, k):
        """k members for el: plain fields and (below depth 3) groups, names unique within el."""
        pool = [n for n in plain + groups if n not in taken]
        rng.shuffle(pool)
        mine = set()
        for name in pool[:k]:
            mine.add(name)
            if name in groups:
                if depth >= 3:
                    continue
                g = ET.SubElement(el, "group", {"name": name, "required": yn(0.4)})
                fill(g, depth + 1, {name}, rng.randrange(1, 5))
                if len(g) == 0:
                    ET.SubElement(g, "field", {"name": rng.choice(plain), "required": yn(0.4)})
            else:
                ET.SubElement(el, "field", {"name": name, "required": yn(0.4)})
        return mine

    header = ET.SubElement(root, "header")
    for n in ("BeginString", "BodyLength", "MsgType"):
        ET.SubElement(header, "field", {"name": n, "required": "Y"})
    htaken = fill(header, 1 if rng.random() < 0.5 else 3, set(), rng.randrange(0, 4))
    comps = ET.SubElement(root, "components")
    comp = ET.SubElement(comps, "component", {"name": "C1"})
    ctaken = fill(comp, 1, set(htaken), rng.randrange(1, 4))
    comp2 = ET.SubElement(comps, "component", {"name": "C0"})       # declared after its user on purpose
    c2taken = fill(comp2, 2, set(htaken) | ctaken, rng.randrange(1, 3))
    ET.SubElement(comp, "component", {"name": "C0", "required": "N"})
    comps.remove(comp2)
    comps.append(comp2)
    ctaken |= c2taken
    msgs = ET.SubElement(root, "messages")
    for i, mt in enumerate(rng.sample(["A", "B1", "7", "x", "AB", "0"], rng.randrange(2, 5))):
        m = ET.SubElement(msgs, "message", {"name": "M%d" % i, "msgtype": mt, "msgcat": "app"})
        use_c = rng.random() < 0.5
        taken = set(htaken) | (ctaken if use_c else set())
        fill(m, 0, taken, rng.randrange(1, 7))
        if use_c:
            m.insert(rng.randrange(len(m) + 1), ET.Element("component", {"name": "C1", "required": "Y"}))
    return ET.tostring(root, encoding="unicode")


def synth_dict(xml, k=0):
    schema = gen_schema.load(ET.ElementTree(ET.fromstring(xml)))
    return Dict(2, "SYN%d" % k, None, schema=schema, xml=xml)


_DICTS = {}


def dicts():
    if not _DICTS:
        for idx, name, rel in DICTS:
            _DICTS[idx] = Dict(idx, name, rel)
    return _DICTS


# ------------------------------------------------------------------------------------------
# valid instances
# ------------------------------------------------------------------------------------------

def group_paths(members, prefix=()):
    """All nesting paths (tuples of group tags) below a member list."""
    out = []
    for m in members:
        if m[0] == "G":
            p = prefix + (m[1],)
            out.append(p)
            out += group_paths(m[3], p)
    return out


def required_paths(members, prefix=()):
    """Nesting paths that end in a group with a required member besides its first one (so that
    'missing required member in a group item' is applicable at that depth)."""
    out = []
    for m in members:
        if m[0] == "G":
            p = prefix + (m[1],)
            if any(x[2] for x in m[3][1:]):
                out.append(p)
            out += required_paths(m[3], p)
    return out


def gen_value(D, rng, m, force, depth):
    if m[0] == "F":
        return rng.choice(D.good_values(m[1]))
    n = rng.choice((1, 1, 2, 3)) if depth < 2 else rng.choice((1, 1, 2))
    return [gen_entries(D, rng, m[3], force, depth + 1, item=True) for _ in range(n)]


def gen_entries(D, rng, members, force=(), depth=0, item=False):
    """Entries for a member list in dictionary order: required members, the first member of an item,
    the group on the forced path, and a random choice of the others."""
    n = max(1, len(members))
    pf = min(0.5, 5.0 / n)
    pg = (0.30, 0.25, 0.12, 0.05)[min(depth, 3)]
    out = []
    for i, m in enumerate(members):
        forced = bool(force) and m[1] == force[0]
        take = m[2] or forced or (item and i == 0) or rng.random() < (pg if m[0] == "G" else pf)
        if take:
            out.append((m[1], gen_value(D, rng, m, force[1:] if forced else (), depth)))
    return out


def gen_header(D, rng, mt):
    out = []
    for m in D.header:
        if m[2] or rng.random() < 0.15:
            if m[1] == "35" and D.ok("35", mt):
                out.append(("35", mt))
            elif m[1] == "8":
                out.append(("8", "FIX.4.4"))
            else:
                out.append((m[1], gen_value(D, rng, m, (), 0)))
    return out


def gen_message(D, rng, mt, force=(), framed=False, shuffle=False, checksum=False):
    body = gen_entries(D, rng, D.msgs[mt], force, 0)
    if shuffle:
        rng.shuffle(body)
    entries = (gen_header(D, rng, mt) if framed else []) + body
    if not framed and rng.random() < 0.15:
        opt = [m for m in D.header if not m[2]]
        if opt:
            m = rng.choice(opt)
            entries.insert(rng.randrange(len(entries) + 1), (m[1], gen_value(D, rng, m, (), 0)))
    if checksum:
        entries.append(("10", "123"))
    return entries


# ------------------------------------------------------------------------------------------
# single-fault mutations
# ------------------------------------------------------------------------------------------

def contexts(D, mt, entries):
    """Every container of the tree with its member table: (entries list, members, depth, allowed map).
    depth 0 = the message, 1 = items of a message-level group, 2.. = nested."""
    body = D.msgs.get(mt, [])
    allowed = {m[1]: m for m in body}
    allowed.update({m[1]: m for m in D.header})
    out = [(entries, None, 0, allowed)]

    def walk(ents, table, depth):
        for tag, val in ents:
            m = table.get(tag)
            if m is not None and m[0] == "G" and isinstance(val, list):
                sub = {x[1]: x for x in m[3]}
                for it in val:
                    out.append((it, m[3], depth + 1, sub))
                    walk(it, sub, depth + 1)
    walk(entries, allowed, 0)
    return out


def unknown_tag(D, rng):
    while True:
        t = str(rng.randrange(5000, 99999))
        if t not in D.fields:
            return t


def some_item(D, rng):
    t = rng.choice(sorted(D.fields))
    return [(t, rng.choice(D.good_values(t)))]


def _idx(ents, pred):
    return [i for i, (t, v) in enumerate(ents) if pred(t, v)]


def m_missing_required_field(D, rng, c):
    ents, members, depth, tab = c
    ii = _idx(ents, lambda t, v: t in tab and tab[t][0] == "F" and tab[t][2] and not (depth == 0 and t == "8"))
    if not ii:
        return None
    del ents[rng.choice(ii)]
    return True


def m_missing_required_group(D, rng, c):
    ents, members, depth, tab = c
    ii = _idx(ents, lambda t, v: t in tab and tab[t][0] == "G" and tab[t][2])
    if not ii:
        return None
    del ents[rng.choice(ii)]
    return True


def m_missing_first(D, rng, c):
    ents, members, depth, tab = c
    if depth == 0 or not ents:
        return None
    del ents[0]
    return True


def m_unknown_tag(D, rng, c):
    ents = c[0]
    ents.insert(rng.randrange(len(ents) + 1), (unknown_tag(D, rng), "x"))
    return True


def m_disallowed_tag(D, rng, c):
    ents, members, depth, tab = c
    for _ in range(50):
        t = rng.choice(sorted(D.fields))
        if t not in tab and t != "10":
            pos = rng.randrange(len(ents) + 1) if depth == 0 else rng.randrange(1, len(ents) + 1)
            ents.insert(pos, (t, rng.choice(D.good_values(t))))
            return True
    return None


def m_noncanonical_tag(D, rng, c):
    ents, members, depth, tab = c
    ii = _idx(ents, lambda t, v: t in tab and t != "10")
    if not ii:
        return None
    i = rng.choice(ii)
    ents[i] = (rng.choice(("0", " ", "+")) + ents[i][0], ents[i][1])
    return True


def m_bad_value(D, rng, c):
    ents, members, depth, tab = c
    ii = _idx(ents, lambda t, v: t in tab and tab[t][0] == "F" and isinstance(v, str) and D.bad_values(t))
    if not ii:
        return None
    i = rng.choice(ii)
    ents[i] = (ents[i][0], rng.choice(D.bad_values(ents[i][0])))
    return True


def m_empty_value(D, rng, c):
    ents, members, depth, tab = c
    ii = _idx(ents, lambda t, v: t in tab and tab[t][0] == "F" and isinstance(v, str))
    if not ii:
        return None
    i = rng.choice(ii)
    ents[i] = (ents[i][0], "")
    return True


def m_group_for_plain(D, rng, c):
    ents, members, depth, tab = c
    ii = _idx(ents, lambda t, v: t in tab and tab[t][0] == "F" and not (depth == 0 and t == "8"))
    if not ii:
        return None
    i = rng.choice(ii)
    ents[i] = (ents[i][0], [some_item(D, rng)])
    return True


def m_plain_for_group(D, rng, c):
    ents, members, depth, tab = c
    ii = _idx(ents, lambda t, v: t in tab and tab[t][0] == "G")
    if not ii:
        return None
    i = rng.choice(ii)
    ents[i] = (ents[i][0], rng.choice(("1", "2", "x")))
    return True


def m_out_of_order(D, rng, c):
    ents, members, depth, tab = c
    if depth == 0 or len(ents) < 2:
        return None
    i = rng.randrange(len(ents) - 1)
    j = i + 1 if rng.random() < 0.7 else rng.randrange(i + 1, len(ents))
    ents[i], ents[j] = ents[j], ents[i]
    return True


def m_empty_item(D, rng, c):
    ents, members, depth, tab = c
    ii = _idx(ents, lambda t, v: t in tab and tab[t][0] == "G" and isinstance(v, list))
    if not ii:
        return None
    v = ents[rng.choice(ii)][1]
    v.insert(rng.randrange(len(v) + 1), [])
    return True


def m_missing_required_header(D, rng, c):
    ents, members, depth, tab = c
    if depth != 0 or "8" not in [t for t, _ in ents]:
        return None
    hreq = {m[1] for m in D.header if m[2]} - {"8"}
    ii = _idx(ents, lambda t, v: t in hreq)
    if not ii:
        return None
    del ents[rng.choice(ii)]
    return True


MUTATIONS = [
    ("missing_required_field", m_missing_required_field), ("missing_required_group", m_missing_required_group),
    ("missing_first_member", m_missing_first), ("unknown_tag", m_unknown_tag), ("disallowed_tag", m_disallowed_tag),
    ("noncanonical_tag", m_noncanonical_tag), ("bad_value", m_bad_value), ("empty_value", m_empty_value),
    ("group_for_plain", m_group_for_plain), ("plain_for_group", m_plain_for_group), ("out_of_order", m_out_of_order),
    ("empty_item", m_empty_item), ("missing_required_header", m_missing_required_header),
]


def mutants(D, rng, mt, entries, per_class):
    """For every class: up to per_class mutants in each bucket - the message itself, items of a
    message-level group (depth 1), items of nested groups (depth >= 2) - at a random applicable place."""
    out = []
    for name, fn in MUTATIONS:
        for bucket in (0, 1, 2):
            for _ in range(per_class):
                tree = copy.deepcopy(entries)
                cands = [c for c in contexts(D, mt, tree) if min(c[2], 2) == bucket]
                rng.shuffle(cands)
                for c in cands[:12]:
                    if fn(D, rng, c):
                        out.append((name, c[2], tree))
                        break
    return out


# ------------------------------------------------------------------------------------------
# implementation driver, model request
# ------------------------------------------------------------------------------------------

def build(mt, entries):
    from asyncfix import FIXMessage
    from asyncfix.message import FIXContainer

    def fill(c, ents):
        for tag, val in ents:
            if isinstance(val, str):
                c.set(tag, val)
            else:
                items = []
                for it in val:
                    ic = FIXContainer()
                    fill(ic, it)
                    items.append(ic)
                c.set_group(tag, items)
        return c
    return fill(FIXMessage(mt), entries)


def run_impl(D, mt, entries):
    msg = build(mt, entries)
    try:
        with warnings.catch_warnings():
            warnings.simplefilter("ignore")
            r = D.schema.validate(msg)
        return 0 if r is True else [98, repr(r)]
    except Exception as e:  # noqa: BLE001
        return exc_code(e)


def texts(entries, out):
    for tag, val in entries:
        if isinstance(val, str):
            out.add((tag, val))
        else:
            for it in val:
                texts(it, out)
    return out


def sx_entries(entries):
    parts = []
    for tag, val in entries:
        if isinstance(val, str):
            parts.append("[%s,0,%s]" % (sx(tag), sx(val)))
        else:
            parts.append("[%s,1,[%s]]" % (sx(tag), ",".join(sx_entries(it) for it in val)))
    return "[" + ",".join(parts) + "]"


def request(D, mt, entries):
    vs = ["[%s,%s,%d]" % (sx(t), sx(v), D.verdict(t, v)) for (t, v) in sorted(texts(entries, set())) if t in D.fields]
    if D.idx == 2:
        return "[2,%s,%s,%s,[%s]]" % (D.sx_schema, sx(mt), sx_entries(entries), ",".join(vs))
    return "[%d,%s,%s,[%s]]" % (D.idx, sx(mt), sx_entries(entries), ",".join(vs))


def has_empty_plain(D, mt, entries):
    """Class predicate of D23: some plain member of the tree holds the empty string."""
    return any(isinstance(v, str) and v == "" and t in tab and tab[t][0] == "F"
               for ents, _, _, tab in contexts(D, mt, entries) for t, v in ents)


def only_fault_is_empty_value(D, mt, entries):
    """The message conforms once the single-value check is taken to accept the empty string."""
    return has_empty_plain(D, mt, entries) and conforms(D.d, mt, entries, lambda t, v: v == "" or D.ok(t, v))


def tolist(entries):
    return [[t, v if isinstance(v, str) else [tolist(it) for it in v]] for t, v in entries]


def fromlist(entries):
    return [(t, v if isinstance(v, str) else [fromlist(it) for it in v]) for t, v in entries]


def check_case(ctx, D, mt, entries, label, depth, model_res, expect_conform=None):
    case = {"dict": D.name, "msg_type": mt, "entries": tolist(entries), "label": label}
    if D.xml is not None:
        case["xml"] = D.xml
    if D.idx == 2 and model_res is not None:
        if not (isinstance(model_res, list) and len(model_res) == 2 and model_res[0] >= 0):
            raise RuntimeError("model refused a synthetic schema request: %r" % (model_res,))
        if model_res[0] != 1:
            raise RuntimeError("synthetic dictionary generator produced a schema that is not wf_schema: %s" % D.xml[:400])
        ctx.count("synthetic wf_schema confirmed by the model")
        model_res = model_res[1]
    impl = run_impl(D, mt, entries)
    conf = conforms(D.d, mt, entries, D.ok)
    nontrivial = mt in D.msgs and len(entries) >= 3
    ctx.case((D.name, mt, json.dumps(case["entries"])), nontrivial,
             sample={"case": case, "impl": code_name(impl) if isinstance(impl, int) else impl})
    ctx.traces += 1
    ctx.count("class:" + label)
    ctx.count("depth:%d" % depth)
    ctx.count("class-at:%s@%s" % (label, "message" if depth == 0 else ("item" if depth == 1 else "nested-item")))
    ctx.count("dict:" + ("synthetic" if D.idx == 2 else D.name))
    ctx.count("impl:" + (code_name(impl) if isinstance(impl, int) else "other"))
    if expect_conform is not None and conf != expect_conform:
        raise RuntimeError("generator/oracle mismatch on %s case %s: oracle says conforms=%s" % (label, json.dumps(case)[:600], conf))
    want = 0 if conf else 1
    if impl != want:
        cls = None
        if impl == 2 and not conf and only_fault_is_empty_value(D, mt, entries):
            cls = "D23-empty-value-assert"
        ctx.fail(case, "%s message (%s, nesting depth %d): validate %s, expected %s" % (
            "conforming" if conf else "non-conforming", label, depth,
            "returned" if impl == 0 else "raised " + str(code_name(impl) if isinstance(impl, int) else impl),
            "True" if conf else "FIXMessageError"), cls)
    if model_res is not None and model_res != impl:
        ctx.disagree(case, code_name(impl) if isinstance(impl, int) else impl,
                     code_name(model_res) if isinstance(model_res, int) else model_res, "validate-outcome-class")


def gen_cases(ctx, rng, bases, per_class, n_synth=0):
    """[(D, mt, entries, label, depth, expect_conform)]"""
    cases = []
    synth = []
    for k in range(n_synth):
        synth.append(synth_dict(synth_xml(rng), k))
    for D in list(dicts().values()) + synth:
        if D.idx == 2:
            bases, per_class = 2, 1
        for mt in D.msgs:
            paths = group_paths(D.msgs[mt])
            deep = [p for p in paths if len(p) == max(len(q) for q in paths)] if paths else [()]
            reqp = required_paths(D.msgs[mt])
            reqdeep = [p for p in reqp if len(p) >= 2] or reqp
            for b in range(bases):
                if b % 2 == 0:
                    force = rng.choice(deep)
                elif reqdeep:
                    force = rng.choice(reqdeep)
                else:
                    force = rng.choice(paths) if paths and rng.random() < 0.5 else ()
                entries = gen_message(D, rng, mt, force, framed=(b % 2 == 1), shuffle=(b % 3 == 2), checksum=(b % 4 == 1))
                depth = max(c[2] for c in contexts(D, mt, entries))
                cases.append((D, mt, entries, "valid", depth, True))
                for name, d, tree in mutants(D, rng, mt, entries, per_class):
                    cases.append((D, mt, tree, name, d, None if name == "empty_value" else False))
            # structure the dictionary allows although it looks odd: empty group list, CheckSum given as a group
            entries = gen_message(D, rng, mt, rng.choice(deep), framed=False)
            gi = [i for i, (t, v) in enumerate(entries) if not isinstance(v, str)]
            if gi:
                i = rng.choice(gi)
                entries[i] = (entries[i][0], [])
                cases.append((D, mt, entries, "valid_empty_group", 0, True))
            e2 = gen_message(D, rng, mt, ()) + [("10", [[("1", "x")]])]
            cases.append((D, mt, e2, "valid_checksum_any", 0, True))
        cases.append((D, "ZZ9", gen_message(D, rng, next(iter(D.msgs)), ()), "unknown_msg_type", 0, False))
        cases.append((D, "", [], "unknown_msg_type", 0, False))
    return cases


def dict_of_case(c):
    if c.get("xml"):
        return synth_dict(c["xml"])
    return {d.name: d for d in dicts().values()}[c["dict"]]


def corpus():
    import glob
    out = []
    for f in sorted(glob.glob(os.path.join(core.ROOT, "corpus", "C15", "*.json"))):
        rec = json.load(open(f))
        c = rec.get("case", rec)
        out.append((dict_of_case(c), c["msg_type"], fromlist(c["entries"]), c.get("label", "corpus"), 0, None))
    return out


# ------------------------------------------------------------------------------------------
# declaration order of <components>
# ------------------------------------------------------------------------------------------

PARSE_CODES = {"AssertionError": 1, "RuntimeError": 2, "KeyError": 3, "ValueError": 4}
PARSE_NAMES = {1: "AssertionError", 2: "RuntimeError", 3: "KeyError", 4: "ValueError", 5: "header is None",
               6: "outside the model"}


def codes(text):
    return [ord(c) for c in text]


def schema_struct(d):
    """The dump of the real parser's objects in the answer format of the parse model (request 4)."""
    ncode = {n: i for i, n in enumerate(d["names"])}
    tcode = {t: i for i, t in enumerate(d["types"])}

    def mem(m):
        if m[0] == "F":
            return [0, codes(m[1]), int(m[2])]
        return [1, codes(m[1]), int(m[2]), [mem(x) for x in m[3]]]
    return [[[codes(t), ncode[n], tcode[y], int(e)] for t, n, y, e in d["fields"]],
            [mem(m) for m in d["header"]],
            [[codes(mt), [mem(m) for m in ms]] for mt, _, ms in d["messages"]]]


def impl_parse(root):
    """Real parser on an element tree: [0, schema structure] | [1, exception class code]."""
    try:
        schema = gen_schema.load(ET.ElementTree(root))
    except Exception as e:  # noqa: BLE001
        n = type(e).__name__
        return [1, PARSE_CODES.get(n, n)]
    if schema._header is None:
        return [1, 5]
    try:
        return [0, schema_struct(gen_schema.dump(schema, strict=True))]
    except Exception as e:  # noqa: BLE001 - the objects are not what the list-of-members rendering assumes
        return [2, "dump refused: " + str(e)[:200]]


def sx_raw(raw):
    fcode, tcode, ccode, mcode = gen_schema.raw_codes(raw)

    def child(c):
        if c[0] == "F":
            return "[0,%d,%d]" % (fcode(c[1]), int(c[2]))
        if c[0] == "C":
            return "[1,%d]" % ccode[c[1]]
        return "[2,%d,%d,[%s]]" % (fcode(c[1]), int(c[2]), ",".join(child(x) for x in c[3]))

    def kids(cs):
        return "[" + ",".join(child(c) for c in cs) + "]"
    fields = ",".join("[%s,%d,%d,%d]" % (sx(t), fcode(n), tcode[y], int(e)) for t, n, y, e in raw["fields"])
    grp = ",".join(str(fcode(n)) for n in raw["groupable"])
    comps = ",".join("[%d,%s]" % (ccode[n], kids(ch)) for n, ch in raw["comps"])
    msgs = ",".join("[%d,%s,%s]" % (mcode[n], sx(mt), kids(ch)) for n, mt, ch in raw["msgs"])
    return "[4,[[%s],[%s],%s,[%s],[%s]]]" % (fields, grp, kids(raw["header"]), comps, msgs)


def show_parse(r):
    if isinstance(r, list) and len(r) == 2 and r[0] == 1:
        return "raised " + str(PARSE_NAMES.get(r[1], r[1]))
    if isinstance(r, list) and len(r) == 2 and r[0] == 0:
        return "parsed" if not isinstance(r[1], int) else ("parsed, %s the reference schema" % ("equal to" if r[1] else "DIFFERENT from"))
    return repr(r)[:200]


def permutation_check(ctx, rng, n_random):
    """Real parser and parse model on permuted <components> declaration orders of the dictionaries.
    Oracle: the parsed schema equals the one of the original order."""
    jobs = []
    for D in dicts().values():
        path = os.path.join(core.REPO, D.rel)
        root = ET.parse(path).getroot()
        comps = root.find("components")
        kids = list(comps) if comps is not None else []
        base = gen_schema.dump(gen_schema.load(ET.ElementTree(root)), strict=False)
        perms = [("identity", list(range(len(kids))))]
        if len(kids) < 2:
            ctx.notes.append("%s declares %d components: nothing to permute" % (D.rel, len(kids)))
        else:
            perms += [("rotation", list(range(r, len(kids))) + list(range(r))) for r in range(1, len(kids))]
            perms.append(("reversed", list(range(len(kids) - 1, -1, -1))))
            for _ in range(n_random):
                p = list(range(len(kids)))
                rng.shuffle(p)
                perms.append(("random", p))
        for kind, p in perms:
            for k in list(comps):
                comps.remove(k)
            for i in p:
                comps.append(kids[i])
            case = {"dict": D.name, "components_order": p}
            ctx.case(("perm", D.name, tuple(p)), True)
            ctx.count("permutation:" + kind)
            try:
                d2 = gen_schema.dump(gen_schema.load(ET.ElementTree(root)), strict=False)
                impl = [0, int(d2 == base)]
            except Exception as e:  # noqa: BLE001
                impl = [1, PARSE_CODES.get(type(e).__name__, type(e).__name__)]
                ctx.fail(case, "parsing with <components> in %s order raised %s: %s" % (kind, type(e).__name__, str(e)[:200]))
            if impl == [0, 0]:
                diff = [m2[1] for m1, m2 in zip(base["messages"], d2["messages"]) if m1 != m2][:5]
                ctx.fail(case, "the parsed schema depends on the declaration order of <components> (%s): messages %s differ%s" % (
                    kind, diff, "" if d2["header"] == base["header"] else ", header differs"))
            jobs.append((case, impl, "[3,%d,[%s]]" % (D.idx, ",".join(map(str, p)))))
    if ctx.model:
        outs = ctx.model.batch([j[2] for j in jobs])
        for (case, impl, _), out in zip(jobs, outs):
            ctx.traces += 1
            if out != impl:
                ctx.disagree(case, show_parse(impl), show_parse(out), "parse-of-permuted-components")


# ---- synthetic dictionaries: real parser vs parse model, also on defective declarations ----

def _first(root, path):
    el = root.find(path)
    return el


def d_cycle(root, rng):
    c0 = root.find("components/component[@name='C0']")
    ET.SubElement(c0, "component", {"name": "C1", "required": "N"})
    return True


def d_undeclared_in_component(root, rng):
    c = rng.choice(list(root.find("components")))
    c.insert(rng.randrange(len(c) + 1), ET.Element("component", {"name": "CX", "required": "N"}))
    return True


def d_undeclared_in_message(root, rng):
    m = rng.choice(list(root.find("messages")))
    groups = list(m.iter("group"))
    target = rng.choice(groups) if groups and rng.random() < 0.5 else m
    target.insert(rng.randrange(len(target) + 1), ET.Element("component", {"name": "CX", "required": "N"}))
    return True


def d_dup_field(root, rng):
    sets = [el for el in list(root.find("messages")) + [root.find("header")] + list(root.iter("group")) if el.find("field") is not None]
    if not sets:
        return None
    el = rng.choice(sets)
    f = rng.choice(el.findall("field"))
    el.append(ET.Element("field", {"name": f.attrib["name"], "required": "N"}))
    return True


def d_unknown_field(root, rng):
    m = rng.choice(list(root.find("messages")) + list(root.find("components")))
    m.insert(rng.randrange(len(m) + 1), ET.Element("field", {"name": "Nope", "required": "N"}))
    return True


def d_bad_group_field(root, rng):
    plain = [f.attrib["name"] for f in root.find("fields") if f.attrib["name"].startswith("F")]
    m = rng.choice(list(root.find("messages")))
    used = {c.attrib["name"] for c in m}
    cands = [p for p in plain if p not in used]
    if len(cands) < 2:
        return None
    g = ET.SubElement(m, "group", {"name": cands[0], "required": "N"})
    ET.SubElement(g, "field", {"name": cands[1], "required": "N"})
    return True


def d_dup_message_name(root, rng):
    msgs = root.find("messages")
    m = rng.choice(list(msgs))
    msgs.append(copy.deepcopy(m))
    return True


def d_dup_msgtype(root, rng):
    msgs = root.find("messages")
    if len(msgs) < 2:
        return None
    a, b = rng.sample(list(msgs), 2)
    b.attrib["msgtype"] = a.attrib["msgtype"]
    return True


def d_header_component(root, rng):
    root.find("header").append(ET.Element("component", {"name": "C0", "required": "N"}))
    return True


def d_dup_component(root, rng):
    comps = root.find("components")
    comps.insert(rng.randrange(len(comps) + 1), copy.deepcopy(rng.choice(list(comps))))
    return True


def d_dup_group(root, rng):
    sets = [el for el in list(root.find("messages")) + list(root.iter("group")) if el.find("group") is not None]
    if not sets:
        return None
    el = rng.choice(sets)
    el.append(copy.deepcopy(rng.choice(el.findall("group"))))
    return True


def d_permute(root, rng):
    comps = root.find("components")
    kids = list(comps)
    for k in kids:
        comps.remove(k)
    kids.reverse()
    for k in kids:
        comps.append(k)
    return True


DEFECTS = [("permuted", d_permute), ("cycle", d_cycle), ("undeclared_in_component", d_undeclared_in_component),
           ("undeclared_in_message", d_undeclared_in_message), ("dup_field", d_dup_field),
           ("unknown_field", d_unknown_field), ("bad_group_field", d_bad_group_field),
           ("dup_message_name", d_dup_message_name), ("dup_msgtype", d_dup_msgtype),
           ("header_component", d_header_component), ("dup_component", d_dup_component), ("dup_group", d_dup_group)]


def parse_check(ctx, rng, n):
    """Real parser vs parse model on synthetic dictionaries: as generated, with the component
    declarations reversed, and with one declaration defect each."""
    jobs = []
    for k in range(n):
        xml = synth_xml(rng)
        variants = [("as_generated", xml)]
        picks = [DEFECTS[0]] + rng.sample(DEFECTS[1:], 4)
        for name, fn in picks:
            root = ET.fromstring(xml)
            if fn(root, rng):
                variants.append((name, ET.tostring(root, encoding="unicode")))
        for name, text in variants:
            root = ET.fromstring(text)
            impl = impl_parse(root)
            raw = gen_schema.raw_of_root(root)
            jobs.append(({"parse_xml": text, "label": "parse:" + name}, name, impl, sx_raw(raw)))
    outs = ctx.model.batch([j[3] for j in jobs]) if ctx.model else [None] * len(jobs)
    for (case, name, impl, _), out in zip(jobs, outs):
        ctx.case(("parse", case["parse_xml"]), True)
        ctx.traces += 1
        ctx.count("parse:" + name)
        ctx.count("parse-impl:" + ("parsed" if impl[0] == 0 else str(PARSE_NAMES.get(impl[1], impl[1]))))
        if name in ("as_generated", "permuted", "dup_msgtype") and impl[0] != 0:
            raise RuntimeError("synthetic dictionary (%s) refused by the real parser: %s" % (name, show_parse(impl)))
        if out is None:
            continue
        if out == [1, 6]:
            ctx.count("parse: outside the model (same-named group added twice), not compared")
            continue
        if out != impl:
            ctx.disagree(case, show_parse(impl), show_parse(out), "parse-result-or-exception-class")


# ------------------------------------------------------------------------------------------
# entry points
# ------------------------------------------------------------------------------------------

def evaluate(ctx, cases, use_model=True):
    model_out = [None] * len(cases)
    if use_model and ctx.model:
        model_out = ctx.model.batch([request(D, mt, e) for (D, mt, e, _, _, _) in cases])
    for (D, mt, e, label, depth, exp), mr in zip(cases, model_out):
        check_case(ctx, D, mt, e, label, depth, mr, exp)


def xml_enum_check(ctx):
    """Enumerations and types read from the XML text itself (not through the library's parser): every
    enumerator must be accepted and a value outside the enumeration refused by the real field object."""
    import os
    import xml.etree.ElementTree as ET
    from vlib import core

    for D in dicts().values():
        if not D.rel or D.xml is not None:
            continue
        root = ET.parse(os.path.join(core.REPO, D.rel)).getroot()
        for el in root.find("fields"):
            tag, ftype = el.attrib["number"], el.attrib["type"]
            enum = [v.attrib["enum"] for v in el if v.tag == "value"]
            f = D.schema._tag2field.get(tag)
            if f is None or f.ftype != ftype or f.name != el.attrib["name"]:
                ctx.fail({"dictionary": D.rel, "tag": tag}, "field of the XML dictionary missing or different in the parsed schema")
                continue
            ctx.count("xml-fields")
            if not enum:
                continue
            ctx.count("xml-enumerated-fields")
            for e in enum:
                if e and D.verdict(tag, e) != 0:
                    ctx.fail({"dictionary": D.rel, "tag": tag, "value": e}, "enumerator of the XML dictionary refused")
            bads = ["~~", enum[0] + "~", "5" if "5" not in enum else "~5", "9" if "9" not in enum else "~9"]
            if ftype.upper() not in ("MULTIPLEVALUESTRING", "MULTIPLESTRINGVALUE", "MULTIPLECHARVALUE"):
                # a single-valued field takes ONE enumerator: several of them joined by blanks are outside the enumeration
                bads += [enum[0] + " " + enum[-1], enum[0] + " " + enum[0], enum[-1] + "  " + enum[0]]
            for bad in bads:
                if bad not in enum and D.verdict(tag, bad) == 0:
                    ctx.fail({"dictionary": D.rel, "tag": tag, "value": bad, "enumeration": enum[:12]},
                             "value outside the XML enumeration accepted")


def value_audit(ctx):
    """Fault class 'value outside / inside the declared type', decided by the independent table above."""
    n = 0
    for D in dicts().values():
        if D.xml is not None:
            continue
        for tag, f in D.fields.items():
            fld = D.schema._tag2field[tag]
            ftype = fld.ftype.upper()
            if fld.values:
                want = [(k, 0) for k in list(fld.values.keys())[:3]] + [("~~", 1), ("#?", 1)]
            else:
                want = [(t, 0) for t in GOOD.get(ftype, [])] + [(t, 1) for t in AUDIT_BAD.get(ftype, [])]
            for text, exp in want:
                if ftype == "SEQNUM" and text == "0" and tag == "16":
                    continue  # EndSeqNo=0 means "to infinity"
                n += 1
                got = D.verdict(tag, text)
                case = {"dict": D.name, "value_audit": [tag, text, exp], "type": ftype}
                ctx.case(("audit", D.name, tag, text), True)
                if got != exp:
                    ctx.fail(case, "value %r for field %s (type %s) must be %s, the real validate_value gave code %d"
                             % (text, tag, ftype, "accepted" if exp == 0 else "refused with FIXMessageError", got), None)
    ctx.extra["value_audit_checks"] = n


def run(ctx):
    t0 = time.time()
    rng = ctx.rng
    xml_enum_check(ctx)
    value_audit(ctx)
    cases = corpus() + gen_cases(ctx, rng, ctx.scale(2, 6), ctx.scale(1, 3), n_synth=ctx.scale(60, 400))
    ctx.extra["gen_s"] = round(time.time() - t0, 1)
    evaluate(ctx, cases)
    permutation_check(ctx, rng, ctx.scale(30, 200))
    parse_check(ctx, rng, ctx.scale(60, 400))
    ctx.extra["message_types"] = {d.name: len(d.msgs) for d in dicts().values()}
    ctx.extra["other_exception_classes"] = list(OTHER)


def search(ctx, cases):
    """A proof, the translator or the correspondence broke: look for an input on which the implementation breaks the property."""
    for c in cases:
        if c and "entries" in c:
            check_case(ctx, dict_of_case(c), c["msg_type"], fromlist(c["entries"]), c.get("label", "disagreement"), 0, None)
    if ctx.failures:
        return
    rng = random.Random(ctx.seed + 1)
    t0 = time.time()
    box = ctx.scale(30, 300)
    while time.time() - t0 < box and not ctx.failures:
        evaluate(ctx, gen_cases(ctx, rng, 1, 1, n_synth=20), use_model=False)
    if not ctx.failures:
        permutation_check(ctx, rng, 10)


def replay(path):
    rec = json.load(open(path))
    case = rec.get("input")
    if not case:
        print("replay: no concrete input; broken:", rec.get("broken"))
        return 1
    if "parse_xml" in case:
        root = ET.fromstring(case["parse_xml"])
        print("real parser on the recorded declarations:", show_parse(impl_parse(root)))
        print("model result recorded:", rec.get("model_result"))
        return 1
    D = dict_of_case(case)
    if "value_audit" in case:
        tag, text, exp = case["value_audit"]
        got = D.verdict(tag, text)
        print("validate_value(%r) on field %s (%s): code %d, expected %d" % (text, tag, case.get("type"), got, exp))
        return 0 if got == exp else 1
    if "components_order" in case:
        root = ET.parse(os.path.join(core.REPO, D.rel)).getroot()
        comps = root.find("components")
        kids = list(comps)
        for k in kids:
            comps.remove(k)
        for i in case["components_order"]:
            comps.append(kids[i])
        same = gen_schema.dump(gen_schema.load(ET.ElementTree(root)), strict=False) == D.d
        print("parsed schema with permuted <components> equals the original:", same)
        return 0 if same else 1
    entries = fromlist(case["entries"])
    impl = run_impl(D, case["msg_type"], entries)
    conf = conforms(D.d, case["msg_type"], entries, D.ok)
    print("dictionary %s, msg_type %r, %s" % (D.name, case["msg_type"], case.get("label")))
    print("entries:", json.dumps(case["entries"])[:2000])
    print("oracle: conforms = %s  -> expected %s" % (conf, "validate returns True" if conf else "FIXMessageError"))
    print("implementation:", code_name(impl) if isinstance(impl, int) else impl)
    return 0 if impl == (0 if conf else 1) else 1
