(* Executable message-level model of AsyncFIXConnection._process_resend (asyncfix/connection.py)
   together with what it calls: Journaler.recover_messages / persist_msg (set_seq_num is no longer called by the handler),
   send_msg (state gates, the codec's sequence-number selection, journal write BEFORE the transport
   write and drain - skipped for PossDupFlag=Y and for SequenceReset-GapFill: the replies to a ResendRequest), Codec.decode of the journaled frames, should_replay.  It follows the Python line by
   line, including its defects.  No proofs here: see AF.Lemmas.ResendL and AF.Props.C06.

   Level of abstraction.  A frame / journaled outbound row is
        (MsgSeqNum, MsgType, SendingTime, flat list of the body fields after tag 52 up to tag 10)
   i.e. what _process_resend and the codec's number selection observe of it.  BeginString,
   BodyLength, the CompIDs and the CheckSum are functions of the rest and of the session and are
   left out; Codec.decode (silent=False) of a frame this codec produced is the identity on that
   view (C01; re-validated on every case by harness/c06.py).  The journal is the outbound part of
   the `message` table (rows in rowid order, key = MsgSeqNum) plus the stored outbound counter. *)
From Coq Require Import ZArith NArith List Bool.
From AF Require Import Base.Sx Py.Str.
From AFGen Require Import GenEnums.
Import ListNotations.
Open Scope Z_scope.

(* ------------------------------------------------------------------ constants from the code *)

Definition state_num (name : str) : Z :=
  match find (fun p => str_eqb (fst p) name) conn_state with
  | Some p => Z.of_N (snd p)
  | None => -1
  end.
Definition msg_type_val (name : str) : str :=
  match find (fun p => str_eqb (fst p) name) fmsg with
  | Some p => snd p
  | None => []
  end.

(* ConnectionState numbers and FMsg values, computed from the regenerated enums *)
Definition ST_ACTIVE : Z := Eval vm_compute in state_num [65; 67; 84; 73; 86; 69]%N.
Definition ST_HANDLING : Z := Eval vm_compute in
  state_num [82; 69; 83; 69; 78; 68; 82; 69; 81; 95; 72; 65; 78; 68; 76; 73; 78; 71]%N.
Definition ST_AWAITING : Z := Eval vm_compute in
  state_num [82; 69; 83; 69; 78; 68; 82; 69; 81; 95; 65; 87; 65; 73; 84; 73; 78; 71]%N.
Definition ST_NET_ESTABLISHED : Z := Eval vm_compute in
  state_num [78; 69; 84; 87; 79; 82; 75; 95; 67; 79; 78; 78; 95; 69; 83; 84; 65; 66; 76; 73; 83; 72; 69; 68]%N.
Definition ST_LOGON_SENT : Z := Eval vm_compute in
  state_num [76; 79; 71; 79; 78; 95; 73; 78; 73; 84; 73; 65; 76; 95; 83; 69; 78; 84]%N.

Definition ST_LOGON_RECV : Z := Eval vm_compute in
  state_num [76; 79; 71; 79; 78; 95; 73; 78; 73; 84; 73; 65; 76; 95; 82; 69; 67; 86]%N.

Definition MT_LOGON : str := Eval vm_compute in msg_type_val [76; 79; 71; 79; 78]%N.
Definition MT_LOGOUT : str := Eval vm_compute in msg_type_val [76; 79; 71; 79; 85; 84]%N.
Definition MT_RESENDREQUEST : str := Eval vm_compute in
  msg_type_val [82; 69; 83; 69; 78; 68; 82; 69; 81; 85; 69; 83; 84]%N.
Definition MT_HEARTBEAT : str := Eval vm_compute in msg_type_val [72; 69; 65; 82; 84; 66; 69; 65; 84]%N.
Definition MT_TESTREQUEST : str := Eval vm_compute in msg_type_val [84; 69; 83; 84; 82; 69; 81; 85; 69; 83; 84]%N.
Definition MT_SEQUENCERESET : str := Eval vm_compute in
  msg_type_val [83; 69; 81; 85; 69; 78; 67; 69; 82; 69; 83; 69; 84]%N.

(* the literal `noreply_msgs` of _process_resend (hand-copied set of names; values from FMsg) *)
Definition noreply_msgs : list str :=
  [MT_LOGON; MT_LOGOUT; MT_RESENDREQUEST; MT_HEARTBEAT; MT_TESTREQUEST; MT_SEQUENCERESET].

(* tags, as the text keys the containers use *)
Definition T_NewSeqNo : str := [51; 54]%N.          (* "36" *)
Definition T_PossDupFlag : str := [52; 51]%N.       (* "43" *)
Definition T_OrigSendingTime : str := [49; 50; 50]%N.  (* "122" *)
Definition T_GapFillFlag : str := [49; 50; 51]%N.   (* "123" *)
Definition T_MsgSeqNum : str := [51; 52]%N.         (* "34" *)
Definition T_TestReqID : str := [49; 49; 50]%N.     (* "112" *)
Definition T_SendingTime : str := [53; 50]%N.       (* "52" *)
Definition T_SenderCompID : str := [52; 57]%N.      (* "49" *)
Definition T_TargetCompID : str := [53; 54]%N.      (* "56" *)
Definition V_Y : str := [89]%N.                     (* "Y" *)
Definition V_N : str := [78]%N.                     (* "N" *)

Definition INT64_MAX : Z := 9223372036854775807.
Definition INT64_MIN : Z := -9223372036854775808.

(* ------------------------------------------------------------------ data *)

Definition field := (str * str)%type.

Record row := mkRow { r_seq : Z; r_type : str; r_time : str; r_body : list field }.

(* a FIXMessage handed to send_msg: msg_type, tag 34 if present (kept as a number: every 34 that
   reaches the encoder here is an int or the canonical text of a decoded frame), other tags in
   insertion order *)
Record msg := mkMsg { m_type : str; m_seq : option Z; m_fields : list field }.

Inductive exc :=
| EAssertion | EDuplicatedTag | ETagNotFound | EValue | EDuplicateSeqNo | EConnection | EOverflow | EEncoding.

(* connection + session + journal + what the harness observes (frames written, should_replay
   calls, on_state_change calls) *)
Record st := mkSt {
  cstate : Z;                 (* _connection_state *)
  initiator : bool;           (* _connection_role == INITIATOR *)
  testreq_id : option str;    (* str(self._test_req_id); None when no probe is pending *)
  nout : Z;                   (* session.next_num_out *)
  sout : Z;                   (* session.outboundSeqNo in the journal *)
  clock : Z;                  (* number of frames encoded so far: SendingTime is T<clock> *)
  rows : list row;            (* outbound rows of the message table, rowid order *)
  wire : list row;            (* frames handed to the transport, oldest first *)
  calls : list Z;             (* MsgSeqNum of every message should_replay was asked about *)
  states : list Z             (* every _state_set *)
}.

Inductive res := Ok (s : st) | Exc (e : exc) (s : st).

Definition has_tag (t : str) (fs : list field) : bool := existsb (fun f => str_eqb (fst f) t) fs.
Definition get_tag (t : str) (fs : list field) : option str :=
  match find (fun f => str_eqb (fst f) t) fs with Some f => Some (snd f) | None => None end.
Definition mem_str (x : str) (l : list str) : bool := existsb (str_eqb x) l.

(* Codec.current_datetime as patched by the harness: "T<k>" *)
Definition time_str (k : Z) : str := 84%N :: z_to_dec k.

(* ------------------------------------------------------------------ journal *)

Definition has_key (n : Z) (rs : list row) : bool := existsb (fun r => r_seq r =? n) rs.

Fixpoint insert_by_seq (r : row) (l : list row) : list row :=
  match l with
  | [] => [r]
  | x :: l' => if r_seq r <=? r_seq x then r :: l else x :: insert_by_seq r l'
  end.
Definition sort_by_seq (l : list row) : list row := fold_right insert_by_seq [] l.

(* recover_messages(session, OUTBOUND, lo, hi): ... seqNo >= ? AND seqNo <= ? ORDER BY seqNo *)
Definition recover (lo hi : Z) (rs : list row) : list row :=
  sort_by_seq (filter (fun r => (lo <=? r_seq r) && (r_seq r <=? hi)) rs).

(* persist_msg(frame, session, OUTBOUND): INSERT fails on an existing key (DuplicateSeqNoError,
   nothing changed), otherwise the stored counter becomes the frame's own number; commit *)
Definition persist (fr : row) (s : st) : res :=
  if has_key (r_seq fr) (rows s) then Exc EDuplicateSeqNo s
  else Ok (mkSt (cstate s) (initiator s) (testreq_id s) (nout s) (r_seq fr) (clock s)
                (rows s ++ [fr]) (wire s) (calls s) (states s)).

(* ------------------------------------------------------------------ connection *)

Definition state_set (v : Z) (s : st) : st :=
  mkSt v (initiator s) (testreq_id s) (nout s) (sout s) (clock s) (rows s) (wire s) (calls s)
       (states s ++ [v]).

Definition set_initiator (s : st) : st :=
  mkSt (cstate s) true (testreq_id s) (nout s) (sout s) (clock s) (rows s) (wire s) (calls s) (states s).

(* the state gates of send_msg *)
Definition send_gates (m : msg) (s : st) : res :=
  if cstate s <? ST_NET_ESTABLISHED then Exc EConnection s
  else if cstate s =? ST_NET_ESTABLISHED then
    if negb (str_eqb (m_type m) MT_LOGON) && negb (str_eqb (m_type m) MT_LOGOUT) then Exc EConnection s
    else Ok (set_initiator (state_set ST_LOGON_SENT s))
  else if initiator s then
    (if (cstate s =? ST_LOGON_SENT) && negb (str_eqb (m_type m) MT_LOGOUT) then Exc EConnection s else Ok s)
  (* an acceptor that has not replied to the Logon yet may only send Logon / Logout *)
  else if (cstate s =? ST_LOGON_RECV) && negb (str_eqb (m_type m) MT_LOGON) && negb (str_eqb (m_type m) MT_LOGOUT)
       then Exc EConnection s
  else Ok s.

(* Codec.encode's choice of MsgSeqNum: SequenceReset and PossDupFlag=Y keep the message's own 34
   (EncodingError without one), everything else allocates session.next_num_out *)
Definition select_seq (m : msg) (s : st) : option (Z * Z) :=      (* (number used, next_num_out after) *)
  if str_eqb (m_type m) MT_SEQUENCERESET then
    match m_seq m with Some n => Some (n, nout s) | None => None end
  else if str_eqb (match get_tag T_PossDupFlag (m_fields m) with Some v => v | None => V_N end) V_Y then
    match m_seq m with Some n => Some (n, nout s) | None => None end
  else Some (nout s, nout s + 1).

Definition header_skipped (t : str) : bool :=
  str_eqb t T_MsgSeqNum || str_eqb t T_SendingTime || str_eqb t T_SenderCompID || str_eqb t T_TargetCompID.

(* msg.get(PossDupFlag, None) == "Y" or (msg_type == SEQUENCERESET and msg.get(GapFillFlag, None) == "Y") *)
Definition tag_is_Y (t : str) (fs : list field) : bool :=
  match get_tag t fs with Some v => str_eqb v V_Y | None => false end.
Definition is_resend_reply (m : msg) : bool :=
  tag_is_Y T_PossDupFlag (m_fields m)
  || (str_eqb (m_type m) MT_SEQUENCERESET && tag_is_Y T_GapFillFlag (m_fields m)).

(* the TestRequest gate: only the probe send_test_req() has just registered may go out -
   msg_type == TESTREQUEST and (_test_req_id is None or msg.get(TestReqID, None) != str(_test_req_id)).
   (Not reachable from the resend handler: a TestRequest is session level and never retransmitted.) *)
Definition testreq_refused (m : msg) (s : st) : bool :=
  str_eqb (m_type m) MT_TESTREQUEST
  && match testreq_id s with
     | None => true
     | Some t => match get_tag T_TestReqID (m_fields m) with Some v => negb (str_eqb v t) | None => true end
     end.

Definition send_msg (m : msg) (s : st) : res :=
  match send_gates m s with
  | Exc e s' => Exc e s'
  | Ok s =>
    if testreq_refused m s then Exc EConnection s
    else
      match select_seq m s with
      | None => Exc EEncoding s
      | Some (n, nout') =>
          let k := clock s + 1 in
          let fr := mkRow n (m_type m) (time_str k)
                          (filter (fun f => negb (header_skipped (fst f))) (m_fields m)) in
          let s1 := mkSt (cstate s) (initiator s) (testreq_id s) nout' (sout s) k (rows s)
                         (wire s) (calls s) (states s) in
          (* journal first (a journal error leaves nothing on the wire); replies to a ResendRequest
             are not journaled: the journal keeps the original messages *)
          match (if is_resend_reply m then Ok s1 else persist fr s1) with
          | Exc e s' => Exc e s'
          | Ok s2 =>
              (* writer.write(frame); await drain() *)
              Ok (mkSt (cstate s2) (initiator s2) (testreq_id s2) (nout s2) (sout s2) (clock s2) (rows s2)
                       (wire s2 ++ [fr]) (calls s2) (states s2))
          end
      end
  end.

(* ------------------------------------------------------------------ _process_resend *)

Definition is_sess_type (t : str) : bool := mem_str t noreply_msgs.

Definition gap_fill_msg (from to : Z) : msg :=
  mkMsg MT_SEQUENCERESET (Some from) [(T_GapFillFlag, V_Y); (T_NewSeqNo, z_to_dec to)].

(* FIXContainer.set(tag, value, replace=True) on the (ordered) tag dictionary: the value of an existing
   tag is overwritten in place, a new tag is appended *)
Fixpoint upsert (t v : str) (fs : list field) : list field :=
  match fs with
  | [] => [(t, v)]
  | fd :: rest => if str_eqb (fst fd) t then (t, v) :: rest else fd :: upsert t v rest
  end.

(* replay_msg.set(PossDupFlag, "Y", replace=True);
   replay_msg.set(OrigSendingTime, replay_msg[SendingTime], replace=True); then the header tags
   35, 8, 9, 52, 49, 56, 10 are deleted (they exist in every decoded frame) *)
Definition mk_replay (r : row) : msg :=
  mkMsg (r_type r) (Some (r_seq r))
        (upsert T_OrigSendingTime (r_time r) (upsert T_PossDupFlag V_Y (r_body r))).

Definition note_call (n : Z) (s : st) : st :=
  mkSt (cstate s) (initiator s) (testreq_id s) (nout s) (sout s) (clock s) (rows s) (wire s)
       (calls s ++ [n]) (states s).

Inductive loop_res := LOk (gfb gfe : Z) (s : st) | LExc (e : exc) (s : st).

(* for enc_msg in journal_replay_msgs: ... *)
Fixpoint replay_loop (f : row -> bool) (rs : list row) (gfb gfe : Z) (s : st) : loop_res :=
  match rs with
  | [] => LOk gfb gfe s
  | r :: rest =>
      let n := r_seq r in
      if is_sess_type (r_type r) then replay_loop f rest gfb (n + 1) s
      else
        let s := note_call n s in                       (* await self.should_replay(replay_msg) *)
        if negb (f r) then replay_loop f rest gfb (n + 1) s
        else
          (* numbers missing in the journal before this message are gap filled too *)
          let gfe := if gfb <? n then n else gfe in
          match (if gfb <? gfe then send_msg (gap_fill_msg gfb gfe) s else Ok s) with
          | Exc e s' => LExc e s'
          | Ok s1 =>
              match send_msg (mk_replay r) s1 with
              | Exc e s' => LExc e s'
              | Ok s2 => replay_loop f rest (n + 1) gfe s2
              end
          end
  end.

Definition fits_int64 (z : Z) : bool := (INT64_MIN <=? z) && (z <=? INT64_MAX).

(* the handler after BeginSeqNo / EndSeqNo were read: b = int(tag 7), e0 = int(tag 16).
   session.next_num_out and the journal are not touched (the two set_seq_num calls are gone). *)
Definition resend_body (f : row -> bool) (b e0 : Z) (s : st) : st * option exc :=
    (* if end_seq_no == 0 or end_seq_no > sys.maxsize: end_seq_no = sys.maxsize *)
    let e := if (e0 =? 0) || (sys_maxsize <? e0) then sys_maxsize else e0 in
    (* sqlite3 refuses to bind integers outside 64 bits (OverflowError) *)
    if negb (fits_int64 b && fits_int64 e) then (s, Some EOverflow) else
    let replay := recover b e (rows s) in
    let current := nout s in
    match replay_loop f replay b b s with
    | LExc x s' => (s', Some x)
    | LOk gfb gfe s2 =>
        if negb (gfe <=? current) then (s2, Some EAssertion) else
        (* the remainder, only up to the requested EndSeqNo *)
        let last := Z.min current (e + 1) in
        match (if gfb <? last then send_msg (gap_fill_msg gfb last) s2 else Ok s2) with
        | Exc x s' => (s', Some x)
        | Ok s3 => (if cstate s3 =? ST_AWAITING then s3 else state_set ST_ACTIVE s3, None)
        end
    end.

(* if begin_seq_no < 1: begin_seq_no = 1   (an invalid BeginSeqNo is answered from the first message) *)
Definition clamp1 (b : Z) : Z := if b <? 1 then 1 else b.

(* begin_s / end_s: the values of tags 7 and 16 of the request, None when the tag is absent.
   Returns the state afterwards and the exception that left _process_resend (the dispatcher's
   `except Exception` swallows it after logging). *)
Definition process_resend (f : row -> bool) (begin_s end_s : option str) (s : st) : st * option exc :=
  let s := if cstate s =? ST_AWAITING then s else state_set ST_HANDLING s in
  match begin_s with None => (s, Some ETagNotFound) | Some bs =>
  match py_int bs with None => (s, Some EValue) | Some b =>
  match end_s with None => (s, Some ETagNotFound) | Some es =>
  match py_int es with None => (s, Some EValue) | Some e0 => resend_body f (clamp1 b) e0 s
  end end end end.

(* the call site in _process_message:
       try:     await self._process_resend(msg)
       finally: if self._connection_state == RESENDREQ_HANDLING: await self._state_set(ACTIVE)
   (a request that could not be served does not leave the connection in RESENDREQ_HANDLING; the
   exception still reaches the dispatcher's `except Exception`, which logs and swallows it) *)
Definition serve_resend (f : row -> bool) (begin_s end_s : option str) (s : st) : st * option exc :=
  let (s', x) := process_resend f begin_s end_s s in
  (if cstate s' =? ST_HANDLING then state_set ST_ACTIVE s' else s', x).
