"""Shared by C01, C02, C03, C10: canonical message form, implementation drivers for
Codec.encode / Codec.decode / the reader task, message generators from the protocol's group
table, and an independent reference framer written from the FIX specification.

Canonical forms (mirrors of coq/theories/Fix/CodecRun.v):
  value     = [0, text] | [1, [item, ...]] | [2]        (text as list of code points)
  container = [[tag_text, value], ...]
  message   = [type_text, container]
"""
import asyncio
import os

from vlib.core import sx

TIME = "20230919-07:13:26.808"
EXC = {"EncodingError": 1, "TagNotFoundError": 2, "RepeatingTagError": 3, "FIXMessageError": 4,
       "ValueError": 5, "AttributeError": 6, "AssertionError": 7, "DuplicatedTagError": 8}


def cp(s):
    return [ord(c) for c in s]


def txt(l):
    return "".join(chr(c) for c in l)


# ------------------------------------------------------------------------- canonical <-> objects

def canon_container(c):
    from asyncfix.message import _FIXRepeatingGroupContainer

    out = []
    for t, v in c.tags.items():
        if isinstance(v, _FIXRepeatingGroupContainer):
            out.append([cp(t), [1, [canon_container(g) for g in v.groups]]])
        elif isinstance(v, type):
            out.append([cp(t), [2]])
        else:
            out.append([cp(t), [0, cp(v)]])
    return out


def canon_message(m):
    return [cp(str(m.msg_type)), canon_container(m)]


def build_container(canon, into=None):
    from asyncfix.errors import RepeatingTagError
    from asyncfix.message import FIXContainer

    c = FIXContainer() if into is None else into
    for t, v in canon:
        t = txt(t)
        if v[0] == 0:
            c.set(t, txt(v[1]))
        elif v[0] == 2:
            c.set(t, RepeatingTagError)
        else:
            c.set_group(t, [build_container(it) for it in v[1]])
    return c


def build_message(canon, enum_type=True):
    """enum_type: pass the message type as FMsg member when it is one (else as the plain string -
    both spellings must behave the same)"""
    from asyncfix import FIXMessage, FMsg

    mt = txt(canon[0])
    if enum_type:
        try:
            mt = FMsg(mt)
        except ValueError:
            pass
    m = FIXMessage(mt)
    build_container(canon[1], into=m)
    return m


def sx_canon_value(v):
    if v[0] == 0:
        return "[0,%s]" % sx(v[1])
    if v[0] == 2:
        return "[2]"
    return "[1,[%s]]" % ",".join(sx_canon_container(it) for it in v[1])


def sx_canon_container(c):
    return "[" + ",".join("[%s,%s]" % (sx(t), sx_canon_value(v)) for t, v in c) + "]"


def sx_canon_message(m):
    return "[%s,%s]" % (sx(m[0]), sx_canon_container(m[1]))


# ------------------------------------------------------------------------- implementation drivers

def exc_code(e):
    for k in type(e).__mro__:
        if k.__name__ in EXC:
            # most specific library class first (mro order)
            return EXC[k.__name__]
    return [99, type(e).__name__]


_codec = None


def codec():
    global _codec
    if _codec is None:
        from asyncfix.codec import Codec
        from asyncfix.protocol import FIXProtocol44

        Codec.current_datetime = staticmethod(lambda: TIME)
        _codec = Codec(FIXProtocol44())
    return _codec


def impl_encode(canon_msg, sender, target, next_out, raw_seq, enum_type=None):
    from asyncfix.session import FIXSession

    s = FIXSession(1, target, sender)
    s.next_num_out = next_out
    s.next_num_in = 1
    if enum_type is None:   # deterministic alternation: half of the cases use the plain string spelling
        enum_type = (sum(canon_msg[0]) + len(canon_msg[1]) + next_out) % 2 == 0
    try:
        m = build_message(canon_msg, enum_type)
    except Exception as e:
        return [2, exc_code(e)]
    try:
        r = codec().encode(m, s, raw_seq_num=raw_seq)
    except Exception as e:
        return [1, exc_code(e)]
    return [0, cp(r), s.next_num_out]


def impl_decode(raw, silent=True):
    try:
        m, n, r = codec().decode(bytes(raw), silent=silent)
    except Exception as e:
        return [1, exc_code(e)]
    return [0, [] if m is None else [canon_message(m)], n, [] if r is None else [list(r)]]


def req_encode(canon_msg, sender, target, next_out, raw_seq):
    return "[1,%s,%s,%s,%d,%s,%d]" % (sx_canon_message(canon_msg), sx(sender), sx(target), next_out, sx(TIME), 1 if raw_seq else 0)


def req_decode(raw, silent=True):
    return "[2,%s,%d]" % (sx(bytes(raw)), 1 if silent else 0)


def req_reader(chunks):
    return "[3,[%s]]" % ",".join(sx(bytes(c)) for c in chunks)


def req_reader_raising(chunks, raising):
    """Fix/ReaderHooks.v: the reader whose dispatcher raises at the given (1-based) delivery numbers."""
    return "[6,[%s],[%s]]" % (",".join(sx(bytes(c)) for c in chunks), ",".join(str(int(n)) for n in sorted(raising)))


class _ReaderConn:
    pass


def impl_reader(chunks, timeout=20.0, raising=()):
    """Feeds `chunks` one read at a time to the REAL socket_read_task of a connection object whose
    _process_message records what it is handed.  Returns [residual buffer, [[msg, raw]...], statuses]
    where status per chunk is 0 = waiting, 1 = an exception was logged while processing it."""
    from asyncfix.connection import AsyncFIXConnection, ConnectionState
    from asyncfix.journaler import Journaler
    from asyncfix.protocol import FIXProtocol44
    import logging

    class Rec(AsyncFIXConnection):
        def __init__(self):
            log = logging.getLogger("verif-reader")
            log.handlers[:] = [logging.NullHandler()]
            log.propagate = False
            self.errors = 0
            orig = log.exception

            def exc(*a, **k):
                self.errors += 1
            log.exception = exc
            super().__init__(FIXProtocol44(), "S", "T", Journaler(), "localhost", 0, logger=log)
            self.got = []
            self.calls = 0
            self.limit = 10 ** 9
            self.livelock = False

        async def _process_message(self, msg, raw):
            self.got.append([canon_message(msg), list(raw) if raw is not None else []])
            self.calls += 1
            if len(self.got) in raising:
                # the real dispatcher can raise outside its own try block (_validate_integrity on a repeated CompID tag,
                # a journal failure in _finalize_message): the reader logs it and must go on with what follows
                raise RuntimeError("dispatcher failed (harness)")
            if self.calls >= self.limit:
                # the decode loop returned a message without shortening the buffer more often than
                # the buffer is long: it would never terminate by itself (model: fuel exhausted, status 2)
                self.livelock = True
                self._connection_state = ConnectionState.DISCONNECTED_BROKEN_CONN

        async def on_connect(self):
            pass

    async def main():
        c = Rec()
        c._connection_state = ConnectionState.ACTIVE
        c._socket_reader = asyncio.StreamReader()
        c._socket_writer = object()
        task = asyncio.create_task(c.socket_read_task())
        statuses = []
        for ch in chunks:
            before = c.errors
            c.calls = 0
            c.limit = len(c._msg_buffer) + len(ch) + 1
            c._connection_state = ConnectionState.ACTIVE
            c.livelock = False
            c._socket_reader.feed_data(bytes(ch))
            # let the task run until it is parked in read() again
            for _ in range(2000):
                await asyncio.sleep(0)
                if not c._socket_reader._buffer and c._socket_reader._waiter is not None:
                    break
            else:
                statuses.append(2)
                break
            statuses.append(2 if c.livelock else 1 if c.errors > before else 0)
        task.cancel()
        try:
            await task
        except BaseException:
            pass
        return [list(c._msg_buffer), c.got, statuses]

    return asyncio.run(asyncio.wait_for(main(), timeout))


# ------------------------------------------------------------------------- reference framer (C02 oracle)

def well_framed(b):
    """Independent FIX frame check written from the FIX 4.x specification, not from the codec:
    8=<v> SOH 9=<n> SOH 35=<t> SOH (tag=value SOH)* 10=ddd SOH ; n = number of bytes after the SOH
    that ends field 9 up to and including the SOH before "10="; ddd = sum of all bytes before "10=" mod 256."""
    b = bytes(b)
    if not b.endswith(b"\x01"):
        return "no trailing SOH"
    fields = b[:-1].split(b"\x01")
    if len(fields) < 4:
        return "fewer than 4 fields"
    if not fields[0].startswith(b"8=") or len(fields[0]) < 3:
        return "first field is not BeginString"
    if not fields[1].startswith(b"9=") or not fields[1][2:].isdigit() or not fields[1][2:].isascii():
        return "second field is not a numeric BodyLength"
    if not fields[2].startswith(b"35=") or len(fields[2]) < 4:
        return "third field is not MsgType"
    last = fields[-1]
    if not (len(last) == 6 and last.startswith(b"10=") and last[3:].isdigit() and last[3:].isascii()):
        return "last field is not a three-digit CheckSum"
    for f in fields:
        if b"=" not in f or f.startswith(b"="):
            return "field without tag or '='"
    body_start = len(fields[0]) + 1 + len(fields[1]) + 1
    body_end = len(b) - 7
    if int(fields[1][2:]) != body_end - body_start:
        return "BodyLength %d != %d" % (int(fields[1][2:]), body_end - body_start)
    if int(last[3:]) != sum(b[:body_end]) % 256:
        return "CheckSum %s != %03d" % (last[3:].decode(), sum(b[:body_end]) % 256)
    return None


# ------------------------------------------------------------------------- generators

_table = None


def table():
    global _table
    if _table is None:
        from asyncfix.protocol import FIXProtocol44

        _table = {str(k): [str(m) for m in v] for k, v in FIXProtocol44.repeating_groups.items()}
    return _table


HEADER_TAGS = {"8", "9", "10", "35", "34", "49", "52", "56"}
SPICE = ["=", "10=", "9=", "8=FIX", "|", "8=FIX.4.4", "10=000", "A=B=C", " ", "\x7f", "\xe9\xff", "0", "-1", "1.5", "Y", "N"]
MSG_TYPES = ["D", "8", "0", "1", "2", "4", "5", "A", "AE", "XX", "j", "3"]


def gen_value(rng, marker_ok=False):
    r = rng.random()
    if r < 0.35:
        return str(rng.randrange(0, 100000))
    if r < 0.55:
        return "".join(chr(rng.randrange(32, 127)) for _ in range(rng.randrange(1, 12)))
    if r < 0.75:
        v = rng.choice(SPICE) + "".join(chr(rng.randrange(32, 256)) for _ in range(rng.randrange(0, 4)))
    else:
        v = "".join(chr(rng.choice([rng.randrange(32, 127), rng.randrange(128, 256)])) for _ in range(rng.randrange(1, 20)))
    if not marker_ok:
        v = v.replace("FIX.", "FIX_")
    return v or "x"


def plain_tags(rng):
    """tags that are neither framing/header tags nor group tags nor members of any group"""
    t = table()
    members = {m for ms in t.values() for m in ms}
    while True:
        k = str(rng.choice([1, 11, 15, 21, 38, 40, 44, 54, 55, 58, 59, 60, 100, 112, 7, 16, 36, 123, 5001, 9999, 20001]))
        if k not in HEADER_TAGS and k not in t and k not in members:
            return k


def gen_item(rng, gtag, depth, first_required=True, marker_ok=False):
    t = table()
    members = t[gtag]
    item = []
    for i, m in enumerate(members):
        if i == 0 and first_required or rng.random() < 0.6:
            if m in t:
                if depth > 0:
                    n = rng.randrange(1, 3)
                    item.append([cp(m), [1, [gen_item(rng, m, depth - 1, marker_ok=marker_ok) for _ in range(n)]]])
            else:
                item.append([cp(m), [0, cp(gen_value(rng, marker_ok))]])
    if not item:
        item.append([cp(members[0]), [0, cp(gen_value(rng, marker_ok))]])
    return item


def first_is_plain(gtag):
    t = table()
    return t[gtag][0] not in t


def gen_wf_message(rng, marker_ok=False, max_groups=2, possdup=False):
    """A message that is well formed w.r.t. the group table in the sense of Props/C01 (wf_msg)."""
    t = table()
    mt = rng.choice(MSG_TYPES)
    body, used = [], set()
    n_plain = rng.randrange(0, 6)
    groups = [g for g in t if first_is_plain(g)]
    n_groups = rng.randrange(0, max_groups + 1)
    plan = ["p"] * n_plain + ["g"] * n_groups
    rng.shuffle(plan)
    member_plain = sorted({m_ for ms in t.values() for m_ in ms if m_ not in t and m_ not in HEADER_TAGS})
    for what in plan:
        if what == "p":
            # sometimes a tag that is ALSO a member of some group (Commission(12) / ListID(66) / Currency(15) at message
            # level): well formed as long as it does not follow a group it is an open member of (checked below)
            k = rng.choice(member_plain) if (member_plain and rng.random() < 0.25) else plain_tags(rng)
            if k in used:
                continue
            used.add(k)
            body.append([cp(k), [0, cp(gen_value(rng, marker_ok))]])
        else:
            g = rng.choice(groups)
            if g in used:
                continue
            used.add(g)
            n = rng.randrange(1, 4)
            body.append([cp(g), [1, [gen_item(rng, g, 2, marker_ok=marker_ok) for _ in range(n)]]])
    if not wf_level(body, None, 0):
        # a member tag landed behind a group that leaves it open: keep the message without those tags
        body = [e for e in body if not (e[1][0] == 0 and txt(e[0]) in member_plain)]
    return [cp(mt), body]


def gen_any_message(rng):
    """Arbitrary (mostly not well-formed) messages: foreign members, empty groups, header tags in the
    body, odd tag spellings, error markers."""
    t = table()
    m = gen_wf_message(rng, marker_ok=rng.random() < 0.3)
    body = m[1]
    for _ in range(rng.randrange(1, 4)):
        r = rng.random()
        if r < 0.2:
            body.insert(rng.randrange(len(body) + 1), [cp(rng.choice(["8", "9", "10", "35", "34", "49", "52", "56", "43"])), [0, cp(gen_value(rng))]])
        elif r < 0.35:
            g = rng.choice(list(t))
            body.append([cp(g), [1, [[[cp(rng.choice(["1", "55", t[g][-1]])), [0, cp(gen_value(rng))]]] for _ in range(rng.randrange(0, 3))]]])
        elif r < 0.45:
            g = rng.choice(list(t))
            body.append([cp(g), [1, []]])
        elif r < 0.55:
            body.append([cp(rng.choice([" 5", "+7", "0055", "5_5", "1"])), [0, cp(gen_value(rng))]])
        elif r < 0.65:
            body.append([cp(plain_tags(rng)), [2]])
        elif r < 0.8:
            g = rng.choice(list(t))
            body.append([cp(t[g][0]), [0, cp(gen_value(rng))]])       # member tag at root level
        else:
            body.append([cp("34"), [0, cp(rng.choice(["7", "x", " 12", "1_0", ""]) or "0")]])
    seen, out = set(), []
    for k, v in body:
        if tuple(k) not in seen:
            seen.add(tuple(k))
            out.append([k, v])
    m[1] = out
    return m


def encode_frame(rng, msg=None, seq=None):
    """A valid frame produced by the real encoder (used as corpus for C03 / C10)."""
    m = msg or gen_wf_message(rng)
    seq = seq if seq is not None else rng.randrange(1, 5000)
    if txt(m[0]) == "4":
        body = [kv for kv in m[1] if txt(kv[0]) not in ("34", "36")]
        m = [m[0], body + [[cp("34"), [0, cp(str(seq))]], [cp("36"), [0, cp(str(seq + 3))]]]]
    r = impl_encode(m, "SND", "TGT", seq, False)
    assert r[0] == 0, r
    return bytes(r[1][i] for i in range(len(r[1]))) if all(c < 256 for c in r[1]) else None


# ------------------------------------------------------------------------- well-formedness (C01 hypothesis, Python twin)

def open_members(entry):
    """group members that are still 'open' right after this entry has been decoded"""
    t = table()
    k, v = txt(entry[0]), entry[1]
    if v[0] != 1:
        return set()
    om = set(t.get(k, []))
    if v[1] and v[1][-1]:
        om |= open_members(v[1][-1][-1])
    return om


def wf_level(entries, allowed, depth):
    """entries of one container level; allowed = member list of the enclosing group (None at root)"""
    t = table()
    seen = set()
    prev = None
    for e in entries:
        k, v = txt(e[0]), e[1]
        if k in seen or not k or not k.isdigit() or k != str(int(k)) or k in HEADER_TAGS:
            return False
        seen.add(k)
        if allowed is not None and k not in allowed:
            return False
        if prev is not None and k in open_members(prev):
            return False
        if v[0] == 2:
            return False
        if v[0] == 0:
            s = txt(v[1])
            if k in t or not s or "\x01" in s or any(ord(c) > 255 for c in s):
                return False
        else:
            if k not in t or not v[1]:
                return False
            items = v[1]
            for i, it in enumerate(items):
                if not it or not wf_level(it, t[k], depth + 1):
                    return False
                if i > 0:
                    first = txt(it[0][0])
                    if first in t or first not in {txt(x[0]) for x in items[i - 1]}:
                        return False
                    if first in open_members(items[i - 1][-1]):
                        return False
        prev = e
    return True


def wf_msg(m):
    mt = txt(m[0])
    if not mt or "\x01" in mt or any(ord(c) > 255 for c in mt):
        return False
    return wf_level(m[1], None, 0)


def marker_beyond_start(frame):
    return bytes(frame).find(b"8=FIX.", 1) != -1


def split_cuts(stream, cuts):
    cuts = sorted(set(c for c in cuts if 0 < c < len(stream)))
    return [stream[a:b] for a, b in zip([0] + cuts, cuts + [len(stream)])]
