(* C14 / C06 under concurrency: the gap fills of a ResendRequest reply never reach beyond the outbound counter of the
   moment the request arrived.  The code of the reply (Fix/Sched.v: resend_code) is fixed when the reader starts the
   service; whatever other tasks send while it is suspended in should_replay / drain gets numbers FROM that counter on
   (C14_senders_safe), so no gap fill can tell the peer to skip a message that was sent during the service. *)
From Coq Require Import ZArith List Bool Lia.
From AF Require Import Fix.Sched Lemmas.SchedL.
Import ListNotations.
Open Scope Z_scope.

Definition is_gapfill (m : msg) : bool := (m_ty m =? T_SEQRESET) && m_gf m.

(* a gap fill instruction b -> NewSeqNo has NewSeqNo <= saved *)
Definition gf_le (saved : Z) (i : instr) : Prop :=
  match i with
  | ISend m => is_gapfill m = true -> m_id m <= saved
  | _ => True
  end.

Lemma gf_le_gapfill : forall saved b n, n <= saved -> gf_le saved (ISend (gapfill_msg b n)).
Proof. intros saved b n H. cbn. intros _. exact H. Qed.

Lemma gf_le_replay : forall saved f, is_sess (f_ty f) = false -> gf_le saved (ISend (replay_msg f)).
Proof. intros saved f _. cbn. unfold is_gapfill. cbn. rewrite andb_false_r. discriminate. Qed.

Lemma replay_gapfill_bound : forall rs d gfb gfe saved e',
  Forall (fun r => f_seq (snd r) < saved) rs ->
  (rs = [] \/ gfe <= saved) ->
  Forall (gf_le saved) (replay_code rs d gfb gfe saved e').
Proof.
  induction rs as [|[k f] rs IH]; intros d gfb gfe saved e' Hrows Hgfe.
  - cbn [replay_code]. destruct (saved <? gfe); [repeat constructor|].
    apply Forall_app. split.
    + destruct (gfb <? Z.min saved (e' + 1)); [|constructor].
      constructor; [|constructor]. apply gf_le_gapfill. lia.
    + repeat constructor.
  - inversion Hrows as [|x l Hf Hrest]; subst. cbn [snd] in Hf.
    assert (Hg : gfe <= saved) by (destruct Hgfe as [E|E]; [discriminate|exact E]).
    cbn [replay_code].
    destruct (is_sess (f_ty f)) eqn:Es.
    + apply IH; [exact Hrest|right; lia].
    + constructor; [exact I|].
      destruct (mem_z (f_seq f) d).
      * apply IH; [exact Hrest|right; lia].
      * apply Forall_app. split.
        { destruct (gfb <? f_seq f) eqn:El.
          - destruct (gfb <? f_seq f) eqn:E2; [|constructor].
            constructor; [|constructor]. apply gf_le_gapfill. lia.
          - destruct (gfb <? gfe); [|constructor].
            constructor; [|constructor]. apply gf_le_gapfill. lia. }
        cbn [app]. constructor; [apply gf_le_replay; exact Es|].
        apply IH; [exact Hrest|right]. destruct (gfb <? f_seq f); lia.
Qed.

Theorem resend_gapfill_bound : forall b0 e d w,
  ent_ok w -> Forall (gf_le (nout w)) (resend_code b0 e d w).
Proof.
  intros b0 e d w Hent. unfold resend_code.
  set (b := Z.max b0 1). set (e' := if (e =? 0) || (MAXSIZE <? e) then MAXSIZE else e).
  assert (Hrows : Forall (fun r => f_seq (snd r) < nout w) (recover b e' (rows w))).
  { apply Forall_forall. intros [k f] Hin. unfold recover in Hin. apply filter_In in Hin.
    destruct Hin as [Hin _]. destruct (Hent k f Hin) as [E L]. cbn [snd]. lia. }
  apply replay_gapfill_bound; [exact Hrows|].
  destruct (recover b e' (rows w)) as [|[k f] l] eqn:E; [left; reflexivity|right].
  assert (Hin : In (k, f) (recover b e' (rows w))) by (rewrite E; left; reflexivity).
  unfold recover in Hin. apply filter_In in Hin. destruct Hin as [Hin Hc].
  destruct (Hent k f Hin) as [_ L]. cbn [fst] in Hc.
  apply andb_true_iff in Hc. destruct Hc as [Hb _]. apply Z.leb_le in Hb. lia.
Qed.

(* example: journal 1, 2 (application), 3 (Heartbeat); ResendRequest(1, 0) is serviced while another task sends message
   id 9, which gets number 4 in the middle of the reply: the tail gap fill is 3 -> 4 (the counter when the request
   arrived), not 3 -> 5 - message 4 is not skipped *)
Definition hbm : msg := mkMsg T_HEARTBEAT 0 None false false.
Definition gp_cfg : config := mkC (after [app 1; app 2; hbm]) [reader_resend 1 0 []; sender_task [app 9]].
Definition gp_sched : list nat := [0; 0; 0; 1; 0; 1; 0; 0; 0; 0]%nat.

Lemma gp_ent_ok : ent_ok (c_w gp_cfg).
Proof.
  intros k f H. vm_compute in H.
  repeat (destruct H as [H|H]; [inversion H; subst; split; reflexivity|]). contradiction.
Qed.

Lemma gapfill_window_example :
  let c := run_sched gp_cfg gp_sched in
  init_ok (c_w gp_cfg) /\ fifo_sched gp_cfg gp_sched = true /\ valid_sched gp_cfg gp_sched = true /\ all_done c = true
  /\ map (fun f => (f_seq f, f_ty f, f_pd f, f_id f, f_gf f)) (wire_of (c_w c))
     = [(1, 68, true, 1, false); (4, 68, false, 9, false); (2, 68, true, 2, false); (3, T_SEQRESET, false, 4, true)]
  /\ nout (c_w c) = 5 /\ map fst (rows (c_w c)) = [1; 2; 3; 4]
  /\ Forall (gf_le (nout (c_w gp_cfg))) (resend_code 1 0 [] (c_w gp_cfg)).
Proof.
  cbv zeta. split; [|split; [|split; [|split; [|split; [|split; [|split]]]]]]; try (vm_compute; reflexivity).
  - split; [vm_compute; reflexivity|split; [exact gp_ent_ok|vm_compute; reflexivity]].
  - apply resend_gapfill_bound. exact gp_ent_ok.
Qed.
