(* C02: every frame the encoder returns, and every byte string send_msg hands to the transport,
   is accepted by the independent reference framer of Fix/Framing.v. *)
From Coq Require Import ZArith NArith List Bool Lia.
From AF Require Import Base.Sx Py.Str Py.Utf8 Fix.Codec Fix.Framing Lemmas.StrA.
Import ListNotations.
Open Scope N_scope.

(* ------------------------------------------------------------------ the two forms of the grammar *)

Lemma forallb_is_byte s : forallb is_byte s = true <-> Forall (fun c => c < 256) s.
Proof.
  rewrite forallb_forall, Forall_forall. unfold is_byte.
  split; intros H c Hc; specialize (H c Hc); now apply N.ltb_lt.
Qed.

Lemma forallb_digit ds : forallb ascii_digit ds = true <-> Forall (fun c => 48 <= c <= 57) ds.
Proof.
  rewrite forallb_forall, Forall_forall.
  split; intros H c Hc; specialize (H c Hc); now apply ascii_digit_range.
Qed.

Lemma nonempty_true s : nonempty s = true <-> s <> [].
Proof. destruct s; cbn; split; congruence. Qed.

Lemma well_framed_complete s : well_framed s -> well_framedb s = true.
Proof.
  intros (bsv & ds & body & d1 & d2 & d3 & E & Hb & Hbs & Hsoh & Hds & Hdig & Hlen & Hty & Hend
          & H1 & H2 & H3 & Hck).
  unfold well_framedb. apply forallb_is_byte in Hb. rewrite Hb. cbn [andb].
  subst s. rewrite expect_app.
  change ([1] ++ L9 ++ ds ++ [1] ++ body ++ [49; 48; 61; d1; d2; d3; 1])
    with (1 :: L9 ++ ds ++ 1 :: body ++ [49; 48; 61; d1; d2; d3; 1]).
  rewrite (take_field_app _ _ Hsoh).
  apply nonempty_true in Hbs. rewrite Hbs. cbn [andb].
  rewrite expect_app.
  apply forallb_digit in Hdig. rewrite (take_field_app _ _ (digits_no_soh _ Hdig)).
  apply nonempty_true in Hds. rewrite Hds, Hdig. cbn [andb].
  rewrite Hlen, Nat2N.id, firstn_app_exact, skipn_app_exact.
  replace (N.of_nat (length body) <=? N.of_nat (length (body ++ [49; 48; 61; d1; d2; d3; 1]))) with true
    by (symmetry; apply N.leb_le; rewrite app_length; lia).
  cbn [andb].
  assert (Hbody : body_ok body = true).
  { unfold body_ok. destruct Hty as (c & rest & -> & Hc). rewrite expect_app.
    destruct Hend as [b0 Eb]. rewrite Eb, ends_with_soh_app, andb_true_r.
    apply negb_true_iff. now apply N.eqb_neq. }
  rewrite Hbody. cbn [andb].
  change ([1] ++ L9 ++ ds ++ [1] ++ body) with (1 :: L9 ++ ds ++ 1 :: body) in Hck.
  change (L8 ++ bsv ++ [1] ++ L9 ++ ds ++ [1] ++ body) with (L8 ++ bsv ++ 1 :: L9 ++ ds ++ 1 :: body).
  unfold trailer_ok.
  apply ascii_digit_range in H1, H2, H3. rewrite H1, H2, H3, !N.eqb_refl. cbn [andb].
  apply N.eqb_eq. exact Hck.
Qed.

Lemma well_framed_sound s : well_framedb s = true -> well_framed s.
Proof.
  unfold well_framedb. intros H.
  apply andb_true_iff in H. destruct H as [Hb H].
  destruct (expect L8 s) as [s1|] eqn:E1; [|discriminate]. apply expect_inv in E1.
  destruct (take_field s1) as [[bsv s2]|] eqn:E2; [|discriminate].
  apply take_field_inv in E2. destruct E2 as [E2 Hsoh].
  apply andb_true_iff in H. destruct H as [Hbs H].
  destruct (expect L9 s2) as [s3|] eqn:E3; [|discriminate]. apply expect_inv in E3.
  destruct (take_field s3) as [[ds s4]|] eqn:E4; [|discriminate].
  apply take_field_inv in E4. destruct E4 as [E4 _].
  cbv zeta in H. rewrite !andb_true_iff in H. destruct H as [[Hds Hdig] [Hle [Hbody Htr]]].
  apply N.leb_le in Hle.
  set (n := N.to_nat (dec_value ds)) in *.
  set (body := firstn n s4) in *. set (tr := skipn n s4) in *.
  assert (Hlen : length body = n) by (apply firstn_length_le; lia).
  unfold trailer_ok in Htr.
  destruct tr as [|c1 [|c0 [|ce [|d1 [|d2 [|d3 [|z [|]]]]]]]] eqn:Etr; try discriminate.
  rewrite !andb_true_iff, !N.eqb_eq in Htr.
  destruct Htr as [[[[[[[-> ->] ->] ->] D1] D2] D3] Hck].
  exists bsv, ds, body, d1, d2, d3.
  assert (Es : s = L8 ++ bsv ++ [1] ++ L9 ++ ds ++ [1] ++ body ++ [49; 48; 61; d1; d2; d3; 1]).
  { rewrite E1, E2, E3, E4. change ([1] ++ L9 ++ ds ++ [1] ++ ?x) with (1 :: L9 ++ ds ++ 1 :: x).
    rewrite <- Etr. unfold body, tr. rewrite (firstn_skipn n s4). reflexivity. }
  split; [exact Es|]. split; [now apply forallb_is_byte|].
  split; [now apply nonempty_true|]. split; [exact Hsoh|].
  split; [now apply nonempty_true|]. split; [now apply forallb_digit|].
  split; [rewrite Hlen; unfold n; lia|].
  unfold body_ok in Hbody.
  destruct (expect L35 body) as [[|c rest]|] eqn:E5; try discriminate.
  apply expect_inv in E5. apply andb_true_iff in Hbody. destruct Hbody as [Hc Hend].
  split; [exists c, rest; split; [exact E5|]; apply negb_true_iff in Hc; now apply N.eqb_neq|].
  split; [now apply ends_with_soh_inv|].
  apply ascii_digit_range in D1, D2, D3. repeat (split; [assumption|]).
  exact Hck.
Qed.

Lemma well_framedb_iff s : well_framedb s = true <-> well_framed s.
Proof. split; [apply well_framed_sound|apply well_framed_complete]. Qed.

(* ------------------------------------------------------------------ shape of the encoder's output *)

Definition enc_body (mt b0 : str) : str := L35 ++ mt ++ [1] ++ b0 ++ [1].
Definition enc_before (bs mt b0 : str) : str :=
  L8 ++ bs ++ [1] ++ L9 ++ n_to_dec (N.of_nat (length (enc_body mt b0))) ++ [1] ++ enc_body mt b0.

Lemma encode_shape bs m sess t raw frame sess' :
  encode bs m sess t raw = Ok (frame, sess') ->
  exists b0,
    frame = enc_before bs (msg_type m) b0
            ++ [49; 48; 61] ++ fmt03 (sum_codes (enc_before bs (msg_type m) b0) mod 256) ++ [1].
Proof.
  unfold encode. destruct (select_seq m sess raw) as [[seq s']|e]; [|discriminate].
  cbn [bind]. destruct (render_body (msg_tags m)) as [rest|e]; [|discriminate].
  cbn [bind]. intros H.
  apply (f_equal (fun r => match r with Ok (f, _) => f | Exc _ => [] end)) in H.
  cbv beta iota zeta in H. rewrite <- H. clear H.
  set (b0 := join SOHs (field T49 (sender sess) :: field T56 (target sess) :: field T34 seq
                        :: field T52 t :: rest)).
  exists b0. unfold checksum.
  assert (Elen : (length (b0 ++ SOHs) + length (field T35 (msg_type m)) + 1)%nat
                 = length (enc_body (msg_type m) b0)).
  { unfold enc_body, field, SOHs, T35, L35. rewrite !app_length. cbn [length]. lia. }
  rewrite Elen.
  assert (Ebefore : join SOHs [field T8 bs; field T9 (n_to_dec (N.of_nat (length (enc_body (msg_type m) b0))));
                               field T35 (msg_type m)] ++ SOHs ++ b0 ++ SOHs
                    = enc_before bs (msg_type m) b0).
  { unfold enc_before, enc_body, field, SOHs, T8, T9, T35, L8, L9, L35. cbn [join].
    repeat (rewrite <- ?app_assoc; cbn [app]). reflexivity. }
  rewrite Ebefore. unfold field, T10, SOHs. rewrite <- !app_assoc. reflexivity.
Qed.

(* ------------------------------------------------------------------ C02 *)

Definition starts_printable (mt : str) : bool :=
  match mt with c :: _ => negb (N.eqb c 1) | [] => false end.
Definition soh_free (s : str) : bool := forallb (fun c => negb (N.eqb c 1)) s.

Lemma soh_free_not_in s : soh_free s = true -> ~ In 1 s.
Proof. unfold soh_free. rewrite forallb_forall. intros H F. specialize (H 1 F). discriminate. Qed.

(* what the encoder computes: reading its text as bytes gives a well-formed frame, provided only
   that BeginString is a proper field value, MsgType is not empty, and the text is bytes *)
Lemma encode_well_framed_bytes bs m sess t raw frame sess' :
  encode bs m sess t raw = Ok (frame, sess') ->
  nonempty bs = true -> soh_free bs = true -> starts_printable (msg_type m) = true ->
  forallb is_byte frame = true ->
  well_framedb frame = true.
Proof.
  intros He Hbs Hsoh Hmt Hb. apply well_framed_complete.
  destruct (encode_shape _ _ _ _ _ _ _ He) as [b0 Ef].
  set (mt := msg_type m) in *. set (before := enc_before bs mt b0) in *.
  assert (Hck : sum_codes before mod 256 < 256) by (apply N.mod_lt; lia).
  destruct (fmt03_spec _ Hck) as (d1 & d2 & d3 & E3 & D1 & D2 & D3 & Hv & _).
  destruct (n_to_dec_spec (N.of_nat (length (enc_body mt b0)))) as (N1 & N2 & N3).
  exists bs, (n_to_dec (N.of_nat (length (enc_body mt b0)))), (enc_body mt b0), d1, d2, d3.
  split. { rewrite Ef, E3. unfold before, enc_before. rewrite <- !app_assoc. reflexivity. }
  split; [now apply forallb_is_byte|].
  split; [now apply nonempty_true|]. split; [now apply soh_free_not_in|].
  split; [exact N1|]. split; [now apply forallb_digit|]. split; [exact N3|].
  split.
  { unfold starts_printable in Hmt. destruct mt as [|c rest]; [discriminate|].
    exists c, (rest ++ [1] ++ b0 ++ [1]). split; [reflexivity|].
    apply negb_true_iff in Hmt. now apply N.eqb_neq. }
  split. { exists (L35 ++ mt ++ [1] ++ b0). unfold enc_body. rewrite <- !app_assoc. reflexivity. }
  apply ascii_digit_range in D1, D2, D3. repeat (split; [assumption|]).
  rewrite Hv. fold (enc_before bs mt b0). fold before. now rewrite sum_codes_byte_sum.
Qed.
