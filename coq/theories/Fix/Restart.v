(* C09 - the COUNTER LEDGER of an asyncfix endpoint across restarts: executable model.

   What is modelled (asyncfix/connection.py, journaler.py, session.py), line by line including the
   defects D11 / D20 of DESIGN.md section 7:
     live counters next_num_in / next_num_out, connection state class, role, _max_seq_num_resend;
     the journal of ONE session as a projection of Fix/Journal.v (stored counters, inbound keys,
     outbound rows; committed / current tables; implicit transaction, commit; the SQL statements of
     persist_msg and set_seq_num in the order the code issues them; a failing INSERT leaves the
     tables unchanged);
     send_msg (state gates, number selection of the codec, journal write, THEN write and drain),
     _process_message (_validate_integrity, first-message rule, _process_logon / _seqreset / _logout,
     _check_seqnum_gaps, dispatch, except-swallow, finally _finalize_message), _process_resend
     (replay / gap-fill loop; since the repair of D12 it writes neither journal nor counters, and send_msg does
     not journal PossDup copies / gap fills), disconnect.
   Frames are symbolic: (type, MsgSeqNum, PossDupFlag, two parameters).  CompIDs / BeginString are
   always right, TestReqID handling is out of scope (_test_req_id is None throughout).

   Crash semantics.  A world keeps the chronological LOG of the externally visible effects of this
   incarnation: transport write, transport drain, every SQL statement / commit.  The journal file is
   by definition the replay of the logged statements over the tables the incarnation started from
   (`db`).  A process death after k effects leaves: the COMMITTED tables of the replay of the first k
   effects, and the frames written among them (`crash_at`).  A restart builds a NEW world whose live
   counters are what Journaler.create_or_load reads (stored + 1).
   No proofs here: see AF.Lemmas.RestartL and AF.Props.C09. *)
From Coq Require Import ZArith List Bool.
Import ListNotations.
Open Scope Z_scope.

(* ------------------------------------------------------------------ frames *)

Inductive mtype := TApp | THb | TTest | TResend | TSeqReset | TLogon | TLogout.

(* f_a / f_b:  TApp: body id / -;  TResend: BeginSeqNo / EndSeqNo;  TSeqReset: NewSeqNo / GapFillFlag(1 = Y) *)
Record frame := mkF { f_type : mtype; f_seq : Z; f_pd : bool; f_a : Z; f_b : Z }.

Definition mtype_eqb (a b : mtype) : bool :=
  match a, b with
  | TApp, TApp | THb, THb | TTest, TTest | TResend, TResend | TSeqReset, TSeqReset
  | TLogon, TLogon | TLogout, TLogout => true
  | _, _ => false
  end.

(* a frame that must carry a fresh number: not a PossDup copy, not a SequenceReset *)
Definition original (f : frame) : bool := negb (f_pd f) && negb (mtype_eqb (f_type f) TSeqReset).

(* the literal noreply_msgs of _process_resend *)
Definition is_session_type (t : mtype) : bool :=
  match t with TApp => false | _ => true end.

(* ------------------------------------------------------------------ journal of one session *)

Record jtab := mkJ { sin : Z; sout : Z; rin : list Z; rout : list frame }.
Definition J0 := mkJ 0 0 [] [].      (* right after create_or_load created the session row *)

Record jdb := mkDb { committed : jtab; cur : jtab }.

Inductive jprim :=
| PInsIn (n : Z)            (* INSERT INTO message VALUES(n, sid, INBOUND, raw) *)
| PInsOut (f : frame)       (* INSERT INTO message VALUES(f_seq f, sid, OUTBOUND, bytes) *)
| PUpdIn (n : Z)            (* UPDATE session SET inboundSeqNo = n *)
| PUpdOut (n : Z)           (* UPDATE session SET outboundSeqNo = n *)
| PUpdBoth (i o : Z)        (* UPDATE session SET inboundSeqNo = i, outboundSeqNo = o *)
| PDelIn (from : Z)         (* DELETE FROM message WHERE seqNo >= from AND direction = INBOUND *)
| PDelOut (from : Z)
| PCommit.

Definition has_in (t : jtab) (n : Z) : bool := existsb (Z.eqb n) (rin t).
Definition has_out (t : jtab) (n : Z) : bool := existsb (fun f => f_seq f =? n) (rout t).

(* a data statement: Some new tables, or None for sqlite3.IntegrityError (tables unchanged) *)
Definition apply_stmt (p : jprim) (t : jtab) : option jtab :=
  match p with
  | PInsIn n => if has_in t n then None else Some (mkJ (sin t) (sout t) (rin t ++ [n]) (rout t))
  | PInsOut f => if has_out t (f_seq f) then None else Some (mkJ (sin t) (sout t) (rin t) (rout t ++ [f]))
  | PUpdIn n => Some (mkJ n (sout t) (rin t) (rout t))
  | PUpdOut n => Some (mkJ (sin t) n (rin t) (rout t))
  | PUpdBoth i o => Some (mkJ i o (rin t) (rout t))
  | PDelIn from => Some (mkJ (sin t) (sout t) (filter (fun n => negb (from <=? n)) (rin t)) (rout t))
  | PDelOut from => Some (mkJ (sin t) (sout t) (rin t) (filter (fun f => negb (from <=? f_seq f)) (rout t)))
  | PCommit => Some t
  end.

Definition exec_prim (p : jprim) (d : jdb) : jdb * bool :=
  match p with
  | PCommit => (mkDb (cur d) (cur d), true)
  | _ => match apply_stmt p (cur d) with
         | Some t' => (mkDb (committed d) t', true)
         | None => (d, false)
         end
  end.

(* the statements of one Journaler method actually executed (it stops at the first failure;
   the failing statement has been executed), and whether all succeeded *)
Fixpoint run_prims (ps : list jprim) (d : jdb) : list jprim * bool :=
  match ps with
  | [] => ([], true)
  | p :: ps' =>
      let (d', ok) := exec_prim p d in
      if ok then let (l, b) := run_prims ps' d' in (p :: l, b) else ([p], false)
  end.

(* ------------------------------------------------------------------ effects, log, replay *)

Inductive effect := EWrite (f : frame) | EDrain | EStmt (p : jprim).

Definition estep (d : jdb) (e : effect) : jdb :=
  match e with EStmt p => fst (exec_prim p d) | _ => d end.

Definition replay (base : jtab) (l : list effect) : jdb := fold_left estep l (mkDb base base).

Fixpoint writes (l : list effect) : list frame :=
  match l with
  | [] => []
  | EWrite f :: l' => f :: writes l'
  | _ :: l' => writes l'
  end.

(* ------------------------------------------------------------------ world *)

(* Disc stands for the three disconnected states (the code only tests `<= DISCONNECTED_BROKEN_CONN`) *)
Inductive cstate := Disc | NCE | LogonSent | LogonRecv | Handling | TooHigh | Awaiting | Active.
Inductive role := Initiator | Acceptor.

Definition cstate_eqb (a b : cstate) : bool :=
  match a, b with
  | Disc, Disc | NCE, NCE | LogonSent, LogonSent | LogonRecv, LogonRecv | Handling, Handling
  | TooHigh, TooHigh | Awaiting, Awaiting | Active, Active => true
  | _, _ => false
  end.
Definition role_eqb (a b : role) : bool :=
  match a, b with Initiator, Initiator | Acceptor, Acceptor => true | _, _ => false end.

Record world := mkW {
  nin : Z; nout : Z;            (* FIXSession.next_num_in / next_num_out of this incarnation *)
  st : cstate; rl : role;
  maxres : Z;                   (* _max_seq_num_resend *)
  dlv : list Z;                 (* numbers handed to on_message *)
  ctor : role;                  (* AsyncFIXClient or AsyncFIXDummyServer: fixed per endpoint *)
  base : jtab;                  (* the journal file when this incarnation opened it *)
  log : list effect;            (* effects of this incarnation, chronological *)
  past : list frame             (* frames earlier incarnations handed to the transport (ghost) *)
}.

Definition db (w : world) : jdb := replay (base w) (log w).
Definition jt (w : world) : jtab := cur (db w).
Definition allwire (w : world) : list frame := past w ++ writes (log w).

Definition fresh (r : role) : world := mkW 1 1 Disc r 0 [] r J0 [] [].

(* a new connection object over journal tables t: __init__ -> create_or_load (existing session) *)
Definition boot (r : role) (t : jtab) (sent : list frame) : world :=
  mkW (sin t + 1) (sout t + 1) Disc r 0 [] r t [] sent.

(* stop at a quiescent point (or die between two operations) and start again *)
Definition restart (w : world) : world := boot (ctor w) (committed (db w)) (allwire w).

(* die after the first k effects of this incarnation and start again *)
Definition crash_at (k : nat) (w : world) : world :=
  let l := firstn k (log w) in
  boot (ctor w) (committed (replay (base w) l)) (past w ++ writes l).

(* ------------------------------------------------------------------ state + exception monad *)

Inductive exc := XConn | XDup | XAssert | XDupTag | XIO.     (* XIO: the transport raised (ConnectionResetError ...) *)

Definition M (A : Type) := world -> (A + exc) * world.
Definition ret {A} (a : A) : M A := fun w => (inl a, w).
Definition raise {A} (e : exc) : M A := fun w => (inr e, w).
Definition bind {A B} (m : M A) (k : A -> M B) : M B :=
  fun w => match m w with
           | (inl a, w') => k a w'
           | (inr e, w') => (inr e, w')
           end.
Definition get : M world := fun w => (inl w, w).
Definition upd (f : world -> world) : M unit := fun w => (inl tt, f w).
(* try: ... except Exception: (the outcome becomes a value, the state is kept) *)
Definition catch {A} (m : M A) : M (A + exc) := fun w => let (r, w') := m w in (inl r, w').
Definition assert_ (b : bool) : M unit := if b then ret tt else raise XAssert.

Notation "x <- m ;; k" := (bind m (fun x => k)) (at level 61, m at next level, right associativity).
Notation "m ;;; k" := (bind m (fun _ => k)) (at level 61, right associativity).

Definition set_st (s : cstate) : M unit :=
  upd (fun w => mkW (nin w) (nout w) s (rl w) (maxres w) (dlv w) (ctor w) (base w) (log w) (past w)).
Definition set_rl (r : role) : M unit :=
  upd (fun w => mkW (nin w) (nout w) (st w) r (maxres w) (dlv w) (ctor w) (base w) (log w) (past w)).
Definition set_maxres (v : Z) : M unit :=
  upd (fun w => mkW (nin w) (nout w) (st w) (rl w) v (dlv w) (ctor w) (base w) (log w) (past w)).
Definition set_nin (v : Z) : M unit :=
  upd (fun w => mkW v (nout w) (st w) (rl w) (maxres w) (dlv w) (ctor w) (base w) (log w) (past w)).
Definition set_nout (v : Z) : M unit :=
  upd (fun w => mkW (nin w) v (st w) (rl w) (maxres w) (dlv w) (ctor w) (base w) (log w) (past w)).
Definition deliver (n : Z) : M unit :=
  upd (fun w => mkW (nin w) (nout w) (st w) (rl w) (maxres w) (dlv w ++ [n]) (ctor w) (base w) (log w) (past w)).
Definition emit (l : list effect) : M unit :=
  upd (fun w => mkW (nin w) (nout w) (st w) (rl w) (maxres w) (dlv w) (ctor w) (base w) (log w ++ l) (past w)).

(* one Journaler method body: run its statements on the file, log the executed ones *)
Definition jexec (ps : list jprim) : M bool :=
  w <- get ;;
  let (done, ok) := run_prims ps (db w) in
  emit (map EStmt done) ;;; ret ok.

(* ------------------------------------------------------------------ Journaler *)

Definition persist_in (n : Z) : M unit :=
  ok <- jexec [PInsIn n; PUpdIn n; PCommit] ;; if ok then ret tt else raise XDup.

Definition persist_out (f : frame) : M unit :=
  ok <- jexec [PInsOut f; PUpdOut (f_seq f); PCommit] ;; if ok then ret tt else raise XDup.

(* set_seq_num(session, next_num_out=o, next_num_in=i) *)
Definition set_seq_num (o i : option Z) : M unit :=
  match o with Some v => assert_ (0 <? v) ;;; set_nout v | None => ret tt end ;;;
  match i with Some v => assert_ (0 <? v) ;;; set_nin v | None => ret tt end ;;;
  w <- get ;;
  jexec [PUpdBoth (nin w - 1) (nout w - 1); PDelIn (nin w); PDelOut (nout w); PCommit] ;;; ret tt.

(* ------------------------------------------------------------------ send_msg *)

Definition is_disc (s : cstate) : bool := cstate_eqb s Disc.

(* PossDupFlag = Y, or SequenceReset with GapFillFlag = Y *)
Definition unjournaled (m : frame) : bool :=
  f_pd m || (mtype_eqb (f_type m) TSeqReset && negb (f_b m =? 0)).

(* m: the FIXMessage handed over; f_seq m is its tag 34 when it has one (SequenceReset, PossDup) *)
(* send_msg up to and including the journal write; returns the encoded frame *)
Definition send_pre (m : frame) : M frame :=
  w <- get ;;
  (if is_disc (st w) then raise XConn
   else if cstate_eqb (st w) NCE then
     if mtype_eqb (f_type m) TLogon || mtype_eqb (f_type m) TLogout
     then set_st LogonSent ;;; set_rl Initiator
     else raise XConn
   else if role_eqb (rl w) Initiator then
     (if cstate_eqb (st w) LogonSent && negb (mtype_eqb (f_type m) TLogout) then raise XConn else ret tt)
   else if cstate_eqb (st w) LogonRecv && negb (mtype_eqb (f_type m) TLogon) && negb (mtype_eqb (f_type m) TLogout)
     then raise XConn           (* the acceptor has not replied to the Logon yet *)
   else ret tt) ;;;
  (* TestRequest gate: _test_req_id is None *)
  (if mtype_eqb (f_type m) TTest then raise XConn else ret tt) ;;;
  (* Codec.encode: number selection *)
  w <- get ;;
  n <- (if mtype_eqb (f_type m) TSeqReset || f_pd m then ret (f_seq m)
        else set_nout (nout w + 1) ;;; ret (nout w)) ;;
  let f := mkF (f_type m) n (f_pd m) (f_a m) (f_b m) in
  (* journal first: a number that reached the wire is never allocated again; replies to a ResendRequest
     (PossDup copies, gap fills) are not journaled: the journal keeps the originals *)
  (if unjournaled m then ret tt else persist_out f) ;;;
  ret f.

Definition send_msg (m : frame) : M unit :=
  f <- send_pre m ;;
  emit [EWrite f] ;;;
  emit [EDrain].

(* send_msg over a transport that raises: in write() (nothing reaches the wire) or in drain() after write() accepted the
   bytes.  The exception goes to the caller, the object lives on; nothing is undone: the journal row stays *)
Definition send_fault (after_write : bool) (m : frame) : M unit :=
  f <- send_pre m ;;
  if after_write then emit [EWrite f] ;;; raise XIO else raise XIO.

(* disconnect(state <= BROKEN, logout_message = None | text) *)
Definition disconnect (with_logout : bool) : M unit :=
  w <- get ;;
  if is_disc (st w) then ret tt
  else
    set_maxres 0 ;;;
    (if with_logout then send_msg (mkF TLogout 0 false 0 0) else ret tt) ;;;
    set_st Disc.

(* ------------------------------------------------------------------ inbound handlers *)

Definition process_logon (f : frame) : M unit :=
  w <- get ;;
  (if role_eqb (rl w) Acceptor then
     assert_ (cstate_eqb (st w) LogonRecv) ;;;
     (if nin w <=? f_seq f then send_msg (mkF TLogon 0 false 0 0) else ret tt)
   else ret tt) ;;;
  w <- get ;;
  if f_seq f =? nin w then set_st Active else set_st TooHigh.

Definition process_seqreset (f : frame) : M unit :=
  set_seq_num None (Some (f_seq f)) ;;;
  set_seq_num None (Some (f_a f)).

Definition process_logout : M unit := disconnect false.

(* an in-sequence Logout of the peer is counted and journaled before the session is torn down (repair of D22) *)
Definition count_logout (f : frame) : M unit :=
  w <- get ;;
  if f_seq f =? nin w then set_nin (f_seq f + 1) ;;; persist_in (f_seq f) else ret tt.

Definition check_gaps (n : Z) : M bool :=
  w <- get ;;
  if nin w <? n then
    (if cstate_eqb (st w) Awaiting then ret tt
     else set_maxres n ;;; send_msg (mkF TResend 0 false (nin w) 0) ;;; set_st Awaiting) ;;;
    ret false
  else ret true.

Definition MAXSIZE : Z := 9223372036854775807.

Fixpoint insert_by_seq (f : frame) (l : list frame) : list frame :=
  match l with
  | [] => [f]
  | x :: l' => if f_seq f <=? f_seq x then f :: l else x :: insert_by_seq f l'
  end.
Definition sort_by_seq (l : list frame) : list frame := fold_right insert_by_seq [] l.

(* recover_messages(session, OUTBOUND, lo, hi) *)
Definition recover_out (t : jtab) (lo hi : Z) : list frame :=
  sort_by_seq (filter (fun f => (lo <=? f_seq f) && (f_seq f <=? hi)) (rout t)).

(* the replay / gap-fill loop; should_replay is the default hook (True) *)
Fixpoint replay_loop (rows : list frame) (gfb gfe : Z) : M (Z * Z) :=
  match rows with
  | [] => ret (gfb, gfe)
  | r :: rows' =>
      if is_session_type (f_type r) then replay_loop rows' gfb (f_seq r + 1)
      else
        (* numbers missing in the journal before this message are gap filled too (repair of D21) *)
        let gfe' := if gfb <? f_seq r then f_seq r else gfe in
        (if gfb <? gfe' then send_msg (mkF TSeqReset gfb false gfe' 1) else ret tt) ;;;
        (* replay_msg.set(PossDupFlag, "Y", replace=True): a row that already carries tag 43 is replayed all the same *)
        send_msg (mkF (f_type r) (f_seq r) true (f_a r) (f_b r)) ;;;
        replay_loop rows' (f_seq r + 1) gfe'
  end.

(* _process_resend: the journal and the counters are not touched (repair of D12) *)
Definition process_resend (f : frame) : M unit :=
  w <- get ;;
  (if cstate_eqb (st w) Awaiting then ret tt else set_st Handling) ;;;
  (* invalid request (BeginSeqNo < 1): answer from the first message *)
  let b := if f_a f <? 1 then 1 else f_a f in
  let e := if (f_b f =? 0) || (MAXSIZE <? f_b f) then MAXSIZE else f_b f in
  w <- get ;;
  let rows := recover_out (jt w) b e in
  let current := nout w in
  g <- replay_loop rows b b ;;
  assert_ (snd g <=? current) ;;;
  (* the tail gap fill runs only up to the requested range *)
  let last := Z.min current (e + 1) in
  (if fst g <? last then send_msg (mkF TSeqReset (fst g) false last 1) else ret tt) ;;;
  w <- get ;;
  if cstate_eqb (st w) Awaiting then ret tt else set_st Active.

(* FIXSession.set_next_num_in + _finalize_message *)
Definition finalize (f : frame) : M unit :=
  w <- get ;;
  r <- (if mtype_eqb (f_type f) TSeqReset then set_nin (f_a f) ;;; ret (f_a f - 1)
        else if f_seq f =? nin w then set_nin (f_seq f + 1) ;;; ret (f_seq f)
        else ret (-1)) ;;
  if r <=? 0 then ret tt
  else
    w <- get ;;
    (if cstate_eqb (st w) Awaiting then
       assert_ (0 <? maxres w) ;;;
       (if maxres w <=? r then set_maxres 0 ;;; set_st Active else ret tt)
     else ret tt) ;;;
    persist_in (f_seq f).

(* _validate_integrity: only the MsgSeqNum-too-low rule can fire on the frames of this model *)
Definition too_low (f : frame) (w : world) : bool :=
  (f_seq f <? nin w) && negb (mtype_eqb (f_type f) TSeqReset) && negb (cstate_eqb (st w) Awaiting).

(* the try body up to and including is_valid_msg_num = ...; None = `return` *)
Definition pm_head (f : frame) : M (option bool) :=
  w <- get ;;
  assert_ (negb (is_disc (st w))) ;;;
  first_ok <- (if cstate_eqb (st w) NCE then
                 if mtype_eqb (f_type f) TLogon then set_st LogonRecv ;;; set_rl Acceptor ;;; ret true
                 else disconnect false ;;; ret false
               else if (cstate_eqb (st w) LogonSent || cstate_eqb (st w) LogonRecv)
                       && negb (mtype_eqb (f_type f) TLogon) && negb (mtype_eqb (f_type f) TLogout)
               then disconnect false ;;; ret false     (* the Logon exchange has not completed *)
               else ret true) ;;
  if negb first_ok then ret None
  else
    (match f_type f with
     | TLogon => process_logon f
     | TSeqReset => process_seqreset f
     | TLogout => catch (count_logout f) ;;; process_logout     (* a journal failure is logged, the session still ends *)
     | _ => ret tt
     end) ;;;
    w <- get ;;
    if is_disc (st w) then ret None
    else v <- check_gaps (f_seq f) ;; ret (Some v).

Definition pm_dispatch (f : frame) (valid : bool) : M unit :=
  match f_type f with
  | TResend =>
      (* try: ... finally: a request that could not be served does not leave the state in RESENDREQ_HANDLING *)
      r <- catch (process_resend f) ;;
      w <- get ;;
      (if cstate_eqb (st w) Handling then set_st Active else ret tt) ;;;
      match r with inl _ => ret tt | inr e => raise e end
  | TSeqReset | TLogon | THb => ret tt
  | TTest => send_msg (mkF THb 0 false (f_a f) 0)
  | TApp | TLogout =>
      (* a frame numbered below the expected number (tolerated while a resend is awaited) is not delivered again *)
      w <- get ;; if valid && (f_seq f =? nin w) then deliver (f_seq f) else ret tt
  end.

Definition process_message (f : frame) : M unit :=
  w <- get ;;
  if too_low f w then disconnect true
  else
    h <- catch (pm_head f) ;;
    match h with
    | inl (Some v) =>
        catch (pm_dispatch f v) ;;;
        (if v then finalize f else ret tt)
    | inl None => ret tt
    | inr _ => ret tt
    end.

(* ------------------------------------------------------------------ histories *)

Inductive op :=
| OConnect                       (* a transport is attached: NETWORK_CONN_ESTABLISHED *)
| OIn (f : frame)                (* a frame from the peer reaches _process_message *)
| OSend (m : frame)              (* the application calls send_msg *)
| OSendFault (after_write : bool) (m : frame)   (* send_msg while the transport raises in write() / in drain() *)
| ODisc (with_logout : bool)     (* the application / reader task calls disconnect *)
| ORestart.                      (* stop at this quiescent point, new object over the journal *)

Definition step (o : op) : M unit :=
  match o with
  | OConnect => set_st NCE
  | OIn f => process_message f
  | OSend m => send_msg m
  | OSendFault d m => send_fault d m
  | ODisc b => disconnect b
  | ORestart => upd restart
  end.

Definition run_op (w : world) (o : op) : world := snd (step o w).
Definition run (w : world) (h : list op) : world := fold_left run_op h w.
