(* Proofs for C17 (order object || reference exchange).  Statements are collected in Props/C17.v. *)
From Coq Require Import ZArith NArith List Bool Lia ZifyBool FinFun.
From AF Require Import Base.Sx Py.Str Fix.OrderStatus Fix.Order Fix.Exchange.
Import ListNotations.
Open Scope N_scope.

(* ================================================================== 1. decimal printing *)

Definition dval (s : str) : N := fold_left (fun a c => 10 * a + (c - 48)) s 0.

Lemma dval_app s t : fold_left (fun a c => 10 * a + (c - 48)) (s ++ t) 0
                     = fold_left (fun a c => 10 * a + (c - 48)) t (dval s).
Proof. unfold dval. apply fold_left_app. Qed.

Lemma dec_fuel_app f : forall n acc, n_to_dec_fuel f n acc = n_to_dec_fuel f n [] ++ acc.
Proof.
  induction f as [|f IH]; intros n acc; cbn [n_to_dec_fuel]; [reflexivity|].
  destruct (N.div_eucl n 10) as [q r].
  destruct (N.eqb q 0); [reflexivity|].
  rewrite (IH q (digit_char r :: acc)), (IH q [digit_char r]), <- app_assoc. reflexivity.
Qed.

Lemma dec_fuel_val f : forall n, n < 2 ^ N.of_nat f -> dval (n_to_dec_fuel f n []) = n.
Proof.
  induction f as [|f IH]; intros n Hn.
  - cbn in Hn. assert (n = 0) by lia. subst. reflexivity.
  - cbn [n_to_dec_fuel].
    pose proof (N.div_eucl_spec n 10) as Hs.
    pose proof (N.mod_lt n 10 ltac:(lia)) as Hr. unfold N.modulo in Hr.
    destruct (N.div_eucl n 10) as [q r]. cbn [fst snd] in *.
    destruct (N.eqb q 0) eqn:Hq.
    + apply N.eqb_eq in Hq. subst q. unfold dval, digit_char. cbn [fold_left]. lia.
    + apply N.eqb_neq in Hq. rewrite dec_fuel_app. unfold dval at 1. rewrite dval_app.
      rewrite IH.
      * unfold digit_char. cbn [fold_left]. lia.
      * rewrite Nat2N.inj_succ, N.pow_succ_r' in Hn. lia.
Qed.

Lemma size_nat_bound n : n < 2 ^ N.of_nat (N.size_nat n).
Proof.
  destruct n as [|p]; [cbn; lia|]. cbn [N.size_nat].
  induction p as [p IH|p IH|]; cbn [Pos.size_nat].
  - rewrite Nat2N.inj_succ, N.pow_succ_r'. lia.
  - rewrite Nat2N.inj_succ, N.pow_succ_r'. lia.
  - cbn. lia.
Qed.

Lemma dec_val n : dval (n_to_dec n) = n.
Proof.
  unfold n_to_dec. apply dec_fuel_val.
  pose proof (size_nat_bound n) as H.
  rewrite Nat2N.inj_succ, N.pow_succ_r'. lia.
Qed.

Lemma dec_inj a b : n_to_dec a = n_to_dec b -> a = b.
Proof. intro H. rewrite <- (dec_val a), <- (dec_val b), H. reflexivity. Qed.

Definition all_digits (s : str) : Prop := Forall (fun c => is_digit c = true) s.

Lemma dec_fuel_digits f : forall n acc, all_digits acc -> all_digits (n_to_dec_fuel f n acc).
Proof.
  induction f as [|f IH]; intros n acc Ha; cbn [n_to_dec_fuel]; [exact Ha|].
  pose proof (N.mod_lt n 10 ltac:(lia)) as Hr. unfold N.modulo in Hr.
  destruct (N.div_eucl n 10) as [q r]. cbn [snd] in Hr.
  assert (Hd : all_digits (digit_char r :: acc)).
  { constructor; [|exact Ha]. unfold is_digit, digit_char. lia. }
  destruct (N.eqb q 0); [exact Hd|]. apply IH, Hd.
Qed.

Lemma dec_digits n : all_digits (n_to_dec n).
Proof. apply dec_fuel_digits. constructor. Qed.

Lemma dec_nonempty n : n_to_dec n <> [].
Proof.
  unfold n_to_dec. cbn [n_to_dec_fuel]. destruct (N.div_eucl n 10) as [q r].
  destruct (N.eqb q 0); [discriminate|]. rewrite dec_fuel_app. destruct (n_to_dec_fuel _ q []); discriminate.
Qed.

(* ================================================================== 2. ClOrdID chain *)

Lemma take_digits_app d c r :
  all_digits d -> is_digit c = false -> take_digits (d ++ c :: r) = d.
Proof.
  induction 1 as [|x d Hx _ IH]; intro Hc; cbn.
  - rewrite Hc. reflexivity.
  - rewrite Hx, IH by exact Hc. reflexivity.
Qed.
Lemma drop_digits_app d c r :
  all_digits d -> is_digit c = false -> drop_digits (d ++ c :: r) = c :: r.
Proof.
  induction 1 as [|x d Hx _ IH]; intro Hc; cbn.
  - rewrite Hc. reflexivity.
  - rewrite Hx, IH by exact Hc. reflexivity.
Qed.

Lemma all_digits_rev d : all_digits d -> all_digits (rev d).
Proof. unfold all_digits. intro H. apply Forall_rev, H. Qed.

(* the root of root--k is root: the chain of ids stays under one root *)
Lemma clord_root_next root k : root <> [] -> clord_root (clord_id_of root k) = root.
Proof.
  intro Hr. unfold clord_root, clord_id_of.
  rewrite !rev_app_distr. cbn [rev app]. rewrite <- !app_assoc. cbn [app].
  pose proof (all_digits_rev _ (dec_digits k)) as Hd.
  rewrite take_digits_app, drop_digits_app by (auto; reflexivity).
  destruct (rev (n_to_dec k)) eqn:Hk.
  { exfalso. apply (dec_nonempty k). rewrite <- (rev_involutive (n_to_dec k)), Hk. reflexivity. }
  destruct (rev root) as [|c p] eqn:Hrr.
  { exfalso. apply Hr. rewrite <- (rev_involutive root), Hrr. reflexivity. }
  cbn [app]. change (DASH =? DASH) with true. cbn [andb rev].
  change (rev p ++ [c]) with (rev (c :: p)). rewrite <- Hrr, rev_involutive. reflexivity.
Qed.

Lemma clord_root_nonempty s : s <> [] -> clord_root s <> [].
Proof.
  intro Hs. unfold clord_root.
  destruct (take_digits (rev s)); [exact Hs|].
  destruct (drop_digits (rev s)) as [|a [|b [|c p]]]; try exact Hs.
  destruct ((a =? DASH) && (b =? DASH)); [|exact Hs].
  cbn. destruct (rev p ++ [c]) eqn:E; [|discriminate].
  destruct (rev p); discriminate.
Qed.

Lemma clord_id_inj root a b : clord_id_of root a = clord_id_of root b -> a = b.
Proof.
  unfold clord_id_of. intro H. apply app_inv_head in H. apply app_inv_head in H. apply dec_inj, H.
Qed.

Lemma clord_id_nonempty root k : clord_id_of root k <> [].
Proof. unfold clord_id_of. destruct root; discriminate. Qed.

(* ================================================================== 3. one method at a time *)

Lemma str_eqb_refl a : str_eqb a a = true.
Proof. induction a as [|x a IH]; cbn; [reflexivity|]. rewrite N.eqb_refl. exact IH. Qed.

Lemma str_eqb_true a b : str_eqb a b = true -> a = b.
Proof.
  revert b. induction a as [|x a IH]; destruct b as [|y b]; cbn; intro H; try discriminate; [reflexivity|].
  apply andb_prop in H. destruct H as [H1 H2]. apply N.eqb_eq in H1. subst. f_equal. apply IH, H2.
Qed.

Definition accepts (o : order) (clid : str) : bool :=
  str_eqb clid (o_clord o) || opt_str_eqb clid (o_orig o).

Definition dflt (a : option Z) (d : Z) : Z := match a with Some v => v | None => d end.

Definition exec_changes (o : order) (e : erep) : bool :=
  (change_status (o_status o) K_EXECUTIONREPORT (e_ex e) (e_st e) false =? T) && mem (e_st e) all_statuses.

Lemma per_refused o e : accepts o (e_clid e) = false -> process_execution_report o (RExec e) = (o, Exc EFIXError).
Proof.
  unfold accepts, process_execution_report. intro H. apply orb_false_elim in H. destruct H as [H1 H2].
  rewrite H1, H2. reflexivity.
Qed.

Record exec_post (o : order) (e : erep) (o' : order) : Prop := mkEP {
  ep_clord : o_clord o' = o_clord o;
  ep_orig : o_orig o' = if e_ex e =? X_REPLACED then None else o_orig o;
  ep_oid : o_order_id o' = Some (e_oid e);
  ep_cum : o_cum o' = e_cum e;
  ep_leaves : o_leaves o' = e_leaves e;
  ep_avg : o_avg o' = Some (e_avg e);
  ep_price : o_price o' = if e_ex e =? X_REPLACED then dflt (e_px e) (o_price o) else o_price o;
  ep_qty : o_qty o' = if e_ex e =? X_REPLACED then dflt (e_qty e) (o_qty o) else o_qty o;
  ep_cnt : o_cnt o' = o_cnt o;
  ep_status : o_status o' = if exec_changes o e then e_st e else o_status o;
  ep_senum : o_senum o' = if exec_changes o e then true else o_senum o;
  ep_const : o_ticker o' = o_ticker o /\ o_side o' = o_side o /\ o_ordtype o' = o_ordtype o
             /\ o_account o' = o_account o /\ o_target o' = o_target o
}.

Lemma per_accepted o e :
  accepts o (e_clid e) = true -> exec_post o e (fst (process_execution_report o (RExec e))).
Proof.
  unfold accepts, process_execution_report. intro H.
  replace (negb (str_eqb (e_clid e) (o_clord o)) && negb (opt_str_eqb (e_clid e) (o_orig o))) with false
    by (destruct (str_eqb _ _), (opt_str_eqb _ _); try reflexivity; discriminate).
  destruct (change_status (o_status o) K_EXECUTIONREPORT (e_ex e) (e_st e) false =? T) eqn:Hc;
  destruct (mem (e_st e) all_statuses) eqn:Hm; destruct (e_ex e =? X_REPLACED) eqn:Hx;
    constructor; unfold exec_changes; rewrite ?Hc, ?Hm, ?Hx; cbn; auto;
    destruct (e_px e), (e_qty e); reflexivity.
Qed.

Definition rej_changes (legacy : bool) (o : order) (st : N) : bool :=
  (change_status (o_status o) K_ORDERCANCELREJECT 0 st false =? T) && (legacy || mem st all_statuses).

Record rej_post (legacy : bool) (o : order) (st : N) (o' : order) : Prop := mkRP {
  rp_cum : o_cum o' = o_cum o;
  rp_leaves : o_leaves o' = if st =? REJECTED then 0%Z else o_leaves o;
  rp_price : o_price o' = o_price o;
  rp_qty : o_qty o' = o_qty o;
  rp_avg : o_avg o' = o_avg o;
  rp_oid : o_order_id o' = o_order_id o;
  rp_cnt : o_cnt o' = o_cnt o;
  rp_status : o_status o' = if rej_changes legacy o st then st else o_status o;
  rp_senum : o_senum o' = if rej_changes legacy o st then negb legacy else o_senum o;
  rp_ids : if rej_changes legacy o st && negb legacy && truthy (o_orig o)
           then o_orig o = Some (o_clord o') /\ o_orig o' = None
           else o_clord o' = o_clord o /\ o_orig o' = o_orig o;
  rp_const : o_ticker o' = o_ticker o /\ o_side o' = o_side o /\ o_ordtype o' = o_ordtype o
             /\ o_account o' = o_account o /\ o_target o' = o_target o
}.

Lemma pcr_post legacy o clid orig st :
  rej_post legacy o st (fst (process_cancel_rej_report legacy o (RRej clid orig st))).
Proof.
  unfold process_cancel_rej_report.
  destruct (change_status (o_status o) K_ORDERCANCELREJECT 0 st false =? T) eqn:Hc;
  destruct legacy; destruct (st =? REJECTED) eqn:Hr; destruct (mem st all_statuses) eqn:Hm;
  destruct (o_orig o) as [[|c x]|] eqn:Ho;
  constructor; unfold rej_changes; rewrite ?Hc, ?Hm, ?Hr, ?Ho; cbn; rewrite ?Ho; cbn; auto.
Qed.

(* ---------- builders *)
Lemma new_req_ok o :
  o_status o = CREATED ->
  new_req o = (set_status (set_ids o (snd (clord_next o)) (o_orig o) (fst (clord_next o))) PENDING_NEW true,
               Ok (RNew (snd (clord_next o)) (o_price o) (o_qty o))).
Proof. intro H. unfold new_req. rewrite H. reflexivity. Qed.

Lemma cancel_req_ok o :
  can_cancel o = true -> truthy (o_orig o) = false ->
  cancel_req o = (set_status (set_ids o (snd (clord_next o)) (Some (o_clord o)) (fst (clord_next o))) PENDING_CANCEL true,
                  Ok (RCancel (snd (clord_next o)) (o_clord o) (o_qty o))).
Proof. intros H1 H2. unfold cancel_req. rewrite H1, H2. reflexivity. Qed.

Definition rpl_px (o : order) (p : option Z) : Z := dflt p (o_price o).
Definition rpl_qty (o : order) (q : option Z) : Z :=
  match q with Some v => if (v =? 0)%Z then o_qty o else v | None => o_qty o end.

Lemma replace_req_ok o p q :
  can_replace o = true -> truthy (o_orig o) = false ->
  ((rpl_px o p =? o_price o)%Z && (rpl_qty o q =? o_qty o)%Z) = false ->
  replace_req o p q =
  (set_status (set_ids o (snd (clord_next o)) (Some (o_clord o)) (fst (clord_next o))) PENDING_REPLACE true,
   Ok (RReplace (snd (clord_next o)) (o_clord o) (rpl_px o p) (rpl_qty o q))).
Proof.
  intros H1 H2 H3. unfold replace_req. rewrite H1. cbn [negb].
  unfold rpl_px, rpl_qty, dflt in H3. rewrite H3, H2. reflexivity.
Qed.

(* a builder that raises leaves the object untouched; one that succeeds needs its gate *)
Lemma new_req_cases o :
  (exists e, new_req o = (o, Exc e)) \/
  (o_status o = CREATED /\ exists r, snd (new_req o) = Ok r).
Proof.
  unfold new_req. destruct (o_status o =? CREATED) eqn:H; cbn [negb].
  - right. apply N.eqb_eq in H. split; [exact H|]. eexists. reflexivity.
  - left. eexists. reflexivity.
Qed.
Lemma cancel_req_cases o :
  (exists e, cancel_req o = (o, Exc e)) \/
  (can_cancel o = true /\ truthy (o_orig o) = false).
Proof.
  unfold cancel_req. destruct (can_cancel o); cbn [negb]; [|left; eexists; reflexivity].
  destruct (truthy (o_orig o)); [left; eexists; reflexivity| right; auto].
Qed.
Lemma replace_req_cases o p q :
  (exists e, replace_req o p q = (o, Exc e)) \/
  (can_replace o = true /\ truthy (o_orig o) = false /\
   ((rpl_px o p =? o_price o)%Z && (rpl_qty o q =? o_qty o)%Z) = false).
Proof.
  unfold replace_req. destruct (can_replace o); cbn [negb]; [|left; eexists; reflexivity].
  fold (dflt p (o_price o)). fold (rpl_px o p). fold (rpl_qty o q).
  destruct ((rpl_px o p =? o_price o)%Z && (rpl_qty o q =? o_qty o)%Z); [left; eexists; reflexivity|].
  destruct (truthy (o_orig o)); [left; eexists; reflexivity| right; auto].
Qed.

(* what the gates mean *)
Lemma can_cancel_iff st : OrderStatus.can_cancel st = true <-> (st = NEW \/ st = PARTIALLY_FILLED \/ st = SUSPENDED).
Proof.
  unfold OrderStatus.can_cancel, change_status, request, mem.
  cbn [existsb K_ORDERCANCELREQUEST K_EXECUTIONREPORT K_ORDERCANCELREJECT].
  change (70 =? 56) with false. change (70 =? 57) with false. change (70 =? 70) with true. cbn [orb negb andb].
  split.
  - destruct (st =? PENDING_CANCEL) eqn:E1; [cbn; discriminate|].
    destruct (st =? PENDING_REPLACE) eqn:E2; [cbn; discriminate|]. cbn [orb].
    destruct (st =? NEW) eqn:E3; [apply N.eqb_eq in E3; auto|].
    destruct (st =? SUSPENDED) eqn:E4; [apply N.eqb_eq in E4; auto|].
    destruct (st =? PARTIALLY_FILLED) eqn:E5; [apply N.eqb_eq in E5; auto|]. cbn. discriminate.
  - intros [H|[H|H]]; subst; reflexivity.
Qed.
Lemma can_replace_eq st : OrderStatus.can_replace st = OrderStatus.can_cancel st.
Proof.
  unfold OrderStatus.can_replace, OrderStatus.can_cancel, change_status. reflexivity.
Qed.

Lemma is_finished_iff st : OrderStatus.is_finished st = true <-> (st = FILLED \/ st = CANCELED \/ st = REJECTED \/ st = EXPIRED).
Proof.
  unfold OrderStatus.is_finished, mem. cbn [existsb]. rewrite !orb_true_iff, !N.eqb_eq. intuition discriminate.
Qed.

(* ================================================================== 4. the object under any operation sequence *)

Inductive cop := CNew | CCancel | CReplace (p q : option Z) | CRep (r : rep).

Definition obuild (o : order) (c : cop) : option (order * res req) :=
  match c with
  | CNew => Some (new_req o)
  | CCancel => Some (cancel_req o)
  | CReplace p q => Some (replace_req o p q)
  | CRep _ => None
  end.

Definition ostep (legacy : bool) (o : order) (c : cop) : order :=
  match c with
  | CRep r => fst (process_report legacy o r)
  | _ => match obuild o c with Some ob => fst ob | None => o end
  end.
Definition orun (legacy : bool) (o : order) (cs : list cop) : order := fold_left (ostep legacy) cs o.

(* the request built by one operation, if any *)
Definition built (o : order) (c : cop) : option req :=
  match obuild o c with Some (_, Ok r) => Some r | _ => None end.
Definition req_id (r : req) : str :=
  match r with RNew id _ _ => id | RCancel id _ _ => id | RReplace id _ _ _ => id end.

Lemma build_cases o c ob :
  obuild o c = Some ob ->
  (exists e, ob = (o, Exc e)) \/
  (exists r, snd ob = Ok r /\ req_id r = snd (clord_next o) /\
     fst ob = set_status (set_ids o (snd (clord_next o))
                                  (match c with CNew => o_orig o | _ => Some (o_clord o) end) (fst (clord_next o)))
                         (match c with CNew => PENDING_NEW | CCancel => PENDING_CANCEL | _ => PENDING_REPLACE end) true /\
     match c with
     | CNew => o_status o = CREATED
     | _ => OrderStatus.can_cancel (o_status o) = true /\ truthy (o_orig o) = false
     end /\
     match r with
     | RNew _ px qty => c = CNew /\ px = o_price o /\ qty = o_qty o
     | RCancel _ orig qty => c = CCancel /\ orig = o_clord o /\ qty = o_qty o
     | RReplace _ orig px qty => (exists p q, c = CReplace p q /\ px = rpl_px o p /\ qty = rpl_qty o q
                                              /\ (px <> o_price o \/ qty <> o_qty o)) /\ orig = o_clord o
     end).
Proof.
  destruct c as [| |p q|r]; cbn [obuild]; intro H; inversion H; subst; clear H.
  - destruct (new_req_cases o) as [[e He]|[Hs _]]; [left; eauto|]. right.
    rewrite (new_req_ok o Hs). eexists. cbn. repeat split; auto.
  - destruct (cancel_req_cases o) as [[e He]|[Hc Ht]]; [left; eauto|]. right.
    rewrite (cancel_req_ok o Hc Ht). eexists. cbn. repeat split; auto.
  - destruct (replace_req_cases o p q) as [[e He]|[Hc [Ht Hn]]]; [left; eauto|]. right.
    rewrite (replace_req_ok o p q Hc Ht Hn). eexists. cbn [fst snd req_id].
    unfold can_replace in Hc. rewrite can_replace_eq in Hc.
    split; [reflexivity|]. split; [reflexivity|]. split; [reflexivity|]. split; [auto|].
    split; [|reflexivity].
    exists p, q. split; [reflexivity|]. split; [reflexivity|]. split; [reflexivity|].
    apply andb_false_iff in Hn. destruct Hn as [Hn|Hn]; apply Z.eqb_neq in Hn; auto.
Qed.

(* ---------- 4a. the status is an enum member (repaired code) *)
Definition senum_ok (o : order) : Prop := o_senum o = true /\ mem (o_status o) all_statuses = true.

Lemma ostep_build legacy o c ob : obuild o c = Some ob -> ostep legacy o c = fst ob.
Proof. destruct c; cbn [obuild ostep]; intro H; inversion H; reflexivity. Qed.

Lemma senum_build o c ob : obuild o c = Some ob -> senum_ok o -> senum_ok (fst ob).
Proof.
  intros Hb [H1 H2]. destruct (build_cases o c ob Hb) as [[e He]|[r [_ [_ [Hf _]]]]].
  - subst ob. split; assumption.
  - rewrite Hf. destruct c; split; reflexivity.
Qed.

Lemma senum_step o c : senum_ok o -> senum_ok (ostep false o c).
Proof.
  intros H. destruct (obuild o c) as [ob|] eqn:Hb.
  { rewrite (ostep_build false o c ob Hb). eapply senum_build; eauto. }
  destruct c as [| |p q|r]; try discriminate. destruct H as [H1 H2].
  cbn [ostep]. destruct r as [e|clid orig st]; cbn [process_report].
  - destruct (accepts o (e_clid e)) eqn:Ha.
    + destruct (per_accepted o e Ha) as [_ _ _ _ _ _ _ _ _ Hst Hen _]. unfold senum_ok. rewrite Hst, Hen.
      unfold exec_changes. destruct (_ =? T); cbn [andb]; [|auto].
      destruct (mem (e_st e) all_statuses) eqn:Hm; auto.
    + rewrite (per_refused o e Ha). split; assumption.
  - destruct (pcr_post false o clid orig st) as [_ _ _ _ _ _ _ Hst Hen _ _]. unfold senum_ok. rewrite Hst, Hen.
    unfold rej_changes. destruct (_ =? T); cbn [andb orb negb]; [|auto].
    destruct (mem st all_statuses) eqn:Hm; auto.
Qed.

Lemma senum_run cs : forall o, senum_ok o -> senum_ok (orun false o cs).
Proof. induction cs as [|c cs IH]; intros o H; [exact H|]. apply IH, senum_step, H. Qed.

(* ---------- 4b. the status is the fold of change_status over what happened *)
Inductive ev := EvNew | EvCancel | EvReplace | EvExec (ex st : N) | EvRej (st : N).

Definition ev_status (st : N) (e : ev) : N :=
  match e with
  | EvNew => PENDING_NEW
  | EvCancel => PENDING_CANCEL
  | EvReplace => PENDING_REPLACE
  | EvExec ex ms => if change_status st K_EXECUTIONREPORT ex ms false =? T then ms else st
  | EvRej ms => if change_status st K_ORDERCANCELREJECT 0 ms false =? T then ms else st
  end.

(* the event of one operation: a request that was built, an execution report that passed the
   ClOrdID check, a cancel reject (reports whose status is no enum member raise ValueError in
   FOrdStatus(..) and change nothing; the legacy reject handler stores any text) *)
Definition ev_of (legacy : bool) (o : order) (c : cop) : option ev :=
  match c with
  | CRep (RExec e) => if accepts o (e_clid e) && mem (e_st e) all_statuses then Some (EvExec (e_ex e) (e_st e)) else None
  | CRep (RRej _ _ st) => if legacy || mem st all_statuses then Some (EvRej st) else None
  | _ => match built o c with
         | Some (RNew _ _ _) => Some EvNew
         | Some (RCancel _ _ _) => Some EvCancel
         | Some (RReplace _ _ _ _) => Some EvReplace
         | None => None
         end
  end.

Fixpoint events (legacy : bool) (o : order) (cs : list cop) : list ev :=
  match cs with
  | [] => []
  | c :: cs' =>
      match ev_of legacy o c with
      | Some e => e :: events legacy (ostep legacy o c) cs'
      | None => events legacy (ostep legacy o c) cs'
      end
  end.

Lemma status_step legacy o c :
  o_status (ostep legacy o c) = match ev_of legacy o c with Some e => ev_status (o_status o) e | None => o_status o end.
Proof.
  destruct (obuild o c) as [ob|] eqn:Hb.
  { rewrite (ostep_build legacy o c ob Hb).
    assert (Hev : ev_of legacy o c = match built o c with
         | Some (RNew _ _ _) => Some EvNew | Some (RCancel _ _ _) => Some EvCancel
         | Some (RReplace _ _ _ _) => Some EvReplace | None => None end)
      by (destruct c; try discriminate; reflexivity).
    rewrite Hev. unfold built. rewrite Hb.
    destruct (build_cases o c ob Hb) as [[e He]|[r [Hr [_ [Hf [_ Hk]]]]]].
    - subst ob. reflexivity.
    - destruct ob as [o' rr]. cbn [fst snd] in *. subst rr. rewrite Hf.
      destruct r.
      + destruct Hk as [Hk _]. subst c. reflexivity.
      + destruct Hk as [Hk _]. subst c. reflexivity.
      + destruct Hk as [[p [q [Hk _]]] _]. subst c. reflexivity. }
  destruct c as [| |p q|r]; try discriminate.
  cbn [ostep ev_of]. destruct r as [e|clid orig st]; cbn [process_report].
  + destruct (accepts o (e_clid e)) eqn:Ha; cbn [andb].
    * destruct (per_accepted o e Ha) as [_ _ _ _ _ _ _ _ _ Hst _ _]. rewrite Hst. unfold exec_changes.
      destruct (mem (e_st e) all_statuses); cbn [ev_status]; destruct (_ =? T); reflexivity.
    * rewrite (per_refused o e Ha). reflexivity.
  + destruct (pcr_post legacy o clid orig st) as [_ _ _ _ _ _ _ Hst _ _ _]. rewrite Hst. unfold rej_changes.
    destruct (legacy || mem st all_statuses); cbn [ev_status]; destruct (_ =? T); reflexivity.
Qed.

Lemma status_fold legacy cs : forall o,
  o_status (orun legacy o cs) = fold_left ev_status (events legacy o cs) (o_status o).
Proof.
  induction cs as [|c cs IH]; intro o; [reflexivity|].
  cbn [orun fold_left events]. fold (orun legacy (ostep legacy o c) cs). rewrite IH, status_step.
  destruct (ev_of legacy o c); reflexivity.
Qed.

(* ---------- 4c. quantities follow the last report, price / qty change exactly on REPLACED *)
Record ghost := mkG { g_last : option erep; g_px : Z; g_qty : Z; g_zeroed : bool }.

Definition gstep (o : order) (g : ghost) (c : cop) : ghost :=
  match c with
  | CRep (RExec e) =>
      if accepts o (e_clid e) then
        mkG (Some e)
            (if e_ex e =? X_REPLACED then dflt (e_px e) (g_px g) else g_px g)
            (if e_ex e =? X_REPLACED then dflt (e_qty e) (g_qty g) else g_qty g) false
      else g
  | CRep (RRej _ _ st) => if st =? REJECTED then mkG (g_last g) (g_px g) (g_qty g) true else g
  | _ => g
  end.

Fixpoint grun (legacy : bool) (o : order) (g : ghost) (cs : list cop) : ghost :=
  match cs with
  | [] => g
  | c :: cs' => grun legacy (ostep legacy o c) (gstep o g c) cs'
  end.

Definition follows (o : order) (g : ghost) : Prop :=
  o_price o = g_px g /\ o_qty o = g_qty g /\
  match g_last g with
  | Some e => o_cum o = e_cum e /\ o_avg o = Some (e_avg e) /\ o_order_id o = Some (e_oid e)
              /\ o_leaves o = (if g_zeroed g then 0%Z else e_leaves e)
  | None => (g_zeroed g = true -> o_leaves o = 0%Z)
  end.

Lemma follows_step legacy o g c : follows o g -> follows (ostep legacy o c) (gstep o g c).
Proof.
  intros (Hp & Hq & Hl).
  destruct (obuild o c) as [ob|] eqn:Hb.
  { rewrite (ostep_build legacy o c ob Hb).
    replace (gstep o g c) with g by (destruct c; try discriminate; reflexivity).
    destruct (build_cases o c ob Hb) as [[e He]|[r [_ [_ [Hf _]]]]].
    - subst ob. repeat split; assumption.
    - rewrite Hf. unfold follows. cbn. repeat split; assumption. }
  destruct c as [| |p q|r]; try discriminate.
  cbn [ostep gstep]. destruct r as [e|clid orig st]; cbn [process_report].
  - destruct (accepts o (e_clid e)) eqn:Ha.
    + destruct (per_accepted o e Ha) as [_ _ Hoid Hcum Hlv Havg Hpx Hqty _ _ _ _].
      unfold follows. cbn [g_px g_qty g_last g_zeroed]. rewrite Hpx, Hqty, Hp, Hq.
      repeat split; try assumption; reflexivity.
    + rewrite (per_refused o e Ha). repeat split; assumption.
  - destruct (pcr_post legacy o clid orig st) as [Hcum Hlv Hpx Hqty Havg Hoid _ _ _ _ _].
    unfold follows. rewrite Hpx, Hqty, Hcum, Havg, Hoid, Hlv.
    destruct (st =? REJECTED); cbn [g_px g_qty g_last g_zeroed].
    + split; [assumption|]. split; [assumption|]. destruct (g_last g); [|auto]. tauto.
    + split; [assumption|]. split; [assumption|]. exact Hl.
Qed.

Lemma follows_run legacy cs : forall o g, follows o g -> follows (orun legacy o cs) (grun legacy o g cs).
Proof.
  induction cs as [|c cs IH]; intros o g H; [exact H|]. cbn [orun fold_left grun].
  apply IH, follows_step, H.
Qed.

(* ---------- 4d. a finished order refuses every request and ignores every execution report *)
Lemma finished_refuses o :
  is_finished o = true ->
  (exists e, new_req o = (o, Exc e)) /\ (exists e, cancel_req o = (o, Exc e))
  /\ (forall p q, exists e, replace_req o p q = (o, Exc e)).
Proof.
  unfold is_finished. intro H. apply is_finished_iff in H.
  assert (Hc : OrderStatus.can_cancel (o_status o) = false).
  { destruct (OrderStatus.can_cancel (o_status o)) eqn:E; [|reflexivity].
    apply can_cancel_iff in E. destruct H as [H|[H|[H|H]]], E as [E|[E|E]]; rewrite H in E; discriminate. }
  split; [|split].
  - destruct (new_req_cases o) as [He|[Hs _]]; [exact He|].
    destruct H as [H|[H|[H|H]]]; rewrite H in Hs; discriminate.
  - destruct (cancel_req_cases o) as [He|[Hs _]]; [exact He|]. unfold can_cancel in Hs. congruence.
  - intros p q. destruct (replace_req_cases o p q) as [He|[Hs _]]; [exact He|].
    unfold can_replace in Hs. rewrite can_replace_eq in Hs. congruence.
Qed.

Lemma finished_absorbs o e :
  is_finished o = true ->
  o_status (fst (process_execution_report o (RExec e))) = o_status o.
Proof.
  unfold is_finished. intro H.
  destruct (accepts o (e_clid e)) eqn:Ha; [|rewrite (per_refused o e Ha); reflexivity].
  destruct (per_accepted o e Ha) as [_ _ _ _ _ _ _ _ _ Hst _ _]. rewrite Hst.
  unfold exec_changes, change_status. change (K_EXECUTIONREPORT =? K_EXECUTIONREPORT) with true. cbv iota.
  assert (Hx : exec_report (o_status o) (e_ex e) (e_st e) = IGN).
  { apply is_finished_iff in H. destruct H as [H|[H|[H|H]]]; rewrite H; reflexivity. }
  rewrite Hx. reflexivity.
Qed.

(* round 7 table: a cancel reject never revives a finished order, nor touches its ids *)
Lemma finished_ignores_reject legacy o clid orig st :
  is_finished o = true ->
  let ob := process_cancel_rej_report legacy o (RRej clid orig st) in
  snd ob = Ok false /\ o_status (fst ob) = o_status o /\ o_senum (fst ob) = o_senum o
  /\ o_clord (fst ob) = o_clord o /\ o_orig (fst ob) = o_orig o.
Proof.
  unfold is_finished. intro H. cbv zeta.
  assert (Hc : (change_status (o_status o) K_ORDERCANCELREJECT 0 st false =? T) = false).
  { apply is_finished_iff in H. destruct H as [H|[H|[H|H]]]; rewrite H; reflexivity. }
  unfold process_cancel_rej_report. rewrite Hc. destruct (st =? REJECTED); cbn; auto.
Qed.

(* ---------- 4e. the ClOrdID chain: one root, strictly increasing counter, fresh ids *)
Definition owf (R : str) (o : order) : Prop :=
  R <> [] /\ clord_root (o_clord o) = R /\ o_clord o <> [] /\
  (forall x, o_orig o = Some x -> truthy (Some x) = true -> clord_root x = R /\ x <> []).

Lemma owf_step legacy R o c : owf R o -> owf R (ostep legacy o c).
Proof.
  intros (HR & Hroot & Hne & Horig).
  destruct (obuild o c) as [ob|] eqn:Hb.
  { rewrite (ostep_build legacy o c ob Hb).
    destruct (build_cases o c ob Hb) as [[e He]|[r [_ [_ [Hf _]]]]].
    - subst ob. exact (conj HR (conj Hroot (conj Hne Horig))).
    - rewrite Hf. unfold clord_next. cbn [fst snd]. rewrite Hroot.
      split; [exact HR|]. cbn [set_status set_ids o_clord o_orig].
      split; [apply clord_root_next, HR|]. split; [apply clord_id_nonempty|].
      destruct c; try discriminate; cbn; intros x Hx Ht; inversion Hx; subst; auto. }
  destruct c as [| |p q|r]; try discriminate.
  cbn [ostep]. destruct r as [e|clid orig st]; cbn [process_report].
  - destruct (accepts o (e_clid e)) eqn:Ha.
    + destruct (per_accepted o e Ha) as [Hcl Hor _ _ _ _ _ _ _ _ _ _].
      unfold owf. rewrite Hcl, Hor. split; [exact HR|]. split; [exact Hroot|]. split; [exact Hne|].
      destruct (e_ex e =? X_REPLACED); [discriminate|]. exact Horig.
    + rewrite (per_refused o e Ha). exact (conj HR (conj Hroot (conj Hne Horig))).
  - destruct (pcr_post legacy o clid orig st) as [_ _ _ _ _ _ _ _ _ Hids _].
    destruct (rej_changes legacy o st && negb legacy && truthy (o_orig o)) eqn:Hc.
    + destruct Hids as [H1 H2]. apply andb_prop in Hc. destruct Hc as [_ Ht].
      rewrite H1 in Ht. destruct (Horig _ H1 Ht) as [Hr Hn].
      unfold owf. rewrite H2. split; [exact HR|]. split; [exact Hr|]. split; [exact Hn|]. discriminate.
    + destruct Hids as [H1 H2]. unfold owf. rewrite H1, H2. exact (conj HR (conj Hroot (conj Hne Horig))).
Qed.

Lemma owf_run legacy R cs : forall o, owf R o -> owf R (orun legacy o cs).
Proof. induction cs as [|c cs IH]; intros o H; [exact H|]. apply IH, owf_step, H. Qed.

Fixpoint nseq (a : N) (n : nat) : list N :=
  match n with O => [] | S n' => a :: nseq (a + 1) n' end.

Fixpoint ids_run (legacy : bool) (o : order) (cs : list cop) : list str :=
  match cs with
  | [] => []
  | c :: cs' =>
      match built o c with
      | Some r => req_id r :: ids_run legacy (ostep legacy o c) cs'
      | None => ids_run legacy (ostep legacy o c) cs'
      end
  end.

Lemma cnt_step legacy o c :
  o_cnt (ostep legacy o c) = match built o c with Some _ => o_cnt o + 1 | None => o_cnt o end.
Proof.
  unfold built. destruct (obuild o c) as [ob|] eqn:Hb.
  { rewrite (ostep_build legacy o c ob Hb).
    destruct (build_cases o c ob Hb) as [[e He]|[r [Hr [_ [Hf _]]]]].
    - subst ob. reflexivity.
    - destruct ob as [o' rr]. cbn [fst snd] in *. subst rr. rewrite Hf. reflexivity. }
  destruct c as [| |p q|r]; try discriminate. cbn [ostep].
  destruct r as [e|clid orig st]; cbn [process_report].
  - destruct (accepts o (e_clid e)) eqn:Ha.
    + destruct (per_accepted o e Ha). assumption.
    + rewrite (per_refused o e Ha). reflexivity.
  - destruct (pcr_post legacy o clid orig st). assumption.
Qed.

Lemma ids_chain legacy R cs : forall o,
  owf R o ->
  ids_run legacy o cs = map (clord_id_of R) (nseq (o_cnt o + 1) (length (ids_run legacy o cs))).
Proof.
  induction cs as [|c cs IH]; intros o Hw; [reflexivity|].
  cbn [ids_run]. pose proof (owf_step legacy R o c Hw) as Hw'. pose proof (cnt_step legacy o c) as Hc.
  destruct (built o c) as [r|] eqn:Hb.
  - cbn [length nseq map]. f_equal.
    + unfold built in Hb. destruct (obuild o c) as [ob|] eqn:Hob; [|discriminate].
      destruct (build_cases o c ob Hob) as [[e He]|[r' [Hr [Hid _]]]].
      * subst ob. discriminate.
      * destruct ob as [o' rr]. cbn [snd] in Hr. subst rr. inversion Hb; subst r'. rewrite Hid.
        unfold clord_next. cbn [snd]. destruct Hw as (_ & Hroot & _). rewrite Hroot. reflexivity.
    + rewrite <- Hc. apply IH, Hw'.
  - rewrite <- Hc. apply IH, Hw'.
Qed.

Lemma nseq_lt a n k : In k (nseq a n) -> a <= k.
Proof. revert a. induction n as [|n IH]; intros a; cbn; [tauto|]. intros [H|H]; [lia|]. apply IH in H. lia. Qed.

Lemma nseq_nodup a n : NoDup (nseq a n).
Proof.
  revert a. induction n as [|n IH]; intro a; cbn; constructor; [|apply IH].
  intro H. apply nseq_lt in H. lia.
Qed.

Lemma ids_fresh legacy R cs o : owf R o -> NoDup (ids_run legacy o cs).
Proof.
  intro Hw. rewrite (ids_chain legacy R cs o Hw).
  apply FinFun.Injective_map_NoDup; [|apply nseq_nodup].
  intros a b H. eapply clord_id_inj, H.
Qed.

Lemma init_owf clord ticker side price qty ordtype account target o :
  init_order clord ticker side price qty ordtype account target = Ok o ->
  owf (clord_root clord) o /\ senum_ok o /\ o_status o = CREATED /\ o_cnt o = 0 /\ o_orig o = None
  /\ o_cum o = 0%Z /\ o_leaves o = 0%Z /\ o_price o = price /\ o_qty o = qty /\ o_clord o = clord.
Proof.
  unfold init_order. destruct clord as [|c s]; [discriminate|]. intro H. inversion H; subst; clear H.
  cbn. repeat split; try discriminate; try reflexivity.
  - apply clord_root_nonempty. discriminate.
Qed.
