(* Proofs for C17 (order object || reference exchange).  Statements are collected in Props/C17.v. *)
From Coq Require Import ZArith NArith List Bool Lia ZifyBool.
From AF Require Import Base.Sx Py.Str Fix.OrderStatus Fix.Order Fix.Exchange.
Import ListNotations.
Open Scope N_scope.

(* ================================================================== 1. decimal printing *)

Definition dval (s : str) : N := fold_left (fun a c => 10 * a + (c - 48)) s 0.

Lemma dval_app s t : fold_left (fun a c => 10 * a + (c - 48)) (s ++ t) 0
                     = fold_left (fun a c => 10 * a + (c - 48)) t (dval s).
Proof. unfold dval. apply fold_left_app. Qed.

Lemma dec_fuel_app f : forall n acc, n_to_dec_fuel f n acc = n_to_dec_fuel f n [] ++ acc.
Proof.
  induction f as [|f IH]; intros n acc; cbn [n_to_dec_fuel]; [reflexivity|].
  destruct (N.div_eucl n 10) as [q r].
  destruct (N.eqb q 0); [reflexivity|].
  rewrite (IH q (digit_char r :: acc)), (IH q [digit_char r]), <- app_assoc. reflexivity.
Qed.

Lemma dec_fuel_val f : forall n, n < 2 ^ N.of_nat f -> dval (n_to_dec_fuel f n []) = n.
Proof.
  induction f as [|f IH]; intros n Hn.
  - cbn in Hn. assert (n = 0) by lia. subst. reflexivity.
  - cbn [n_to_dec_fuel].
    pose proof (N.div_eucl_spec n 10) as Hs.
    pose proof (N.mod_lt n 10 ltac:(lia)) as Hr. unfold N.modulo in Hr.
    destruct (N.div_eucl n 10) as [q r]. cbn [fst snd] in *.
    destruct (N.eqb q 0) eqn:Hq.
    + apply N.eqb_eq in Hq. subst q. unfold dval, digit_char. cbn [fold_left]. lia.
    + apply N.eqb_neq in Hq. rewrite dec_fuel_app. unfold dval at 1. rewrite dval_app.
      rewrite IH.
      * unfold digit_char. cbn [fold_left]. lia.
      * rewrite Nat2N.inj_succ, N.pow_succ_r' in Hn. lia.
Qed.

Lemma size_nat_bound n : n < 2 ^ N.of_nat (N.size_nat n).
Proof.
  destruct n as [|p]; [cbn; lia|]. cbn [N.size_nat].
  induction p as [p IH|p IH|]; cbn [Pos.size_nat].
  - rewrite Nat2N.inj_succ, N.pow_succ_r'. lia.
  - rewrite Nat2N.inj_succ, N.pow_succ_r'. lia.
  - cbn. lia.
Qed.

Lemma dec_val n : dval (n_to_dec n) = n.
Proof.
  unfold n_to_dec. apply dec_fuel_val.
  pose proof (size_nat_bound n) as H.
  rewrite Nat2N.inj_succ, N.pow_succ_r'. lia.
Qed.

Lemma dec_inj a b : n_to_dec a = n_to_dec b -> a = b.
Proof. intro H. rewrite <- (dec_val a), <- (dec_val b), H. reflexivity. Qed.

Definition all_digits (s : str) : Prop := Forall (fun c => is_digit c = true) s.

Lemma dec_fuel_digits f : forall n acc, all_digits acc -> all_digits (n_to_dec_fuel f n acc).
Proof.
  induction f as [|f IH]; intros n acc Ha; cbn [n_to_dec_fuel]; [exact Ha|].
  pose proof (N.mod_lt n 10 ltac:(lia)) as Hr. unfold N.modulo in Hr.
  destruct (N.div_eucl n 10) as [q r]. cbn [snd] in Hr.
  assert (Hd : all_digits (digit_char r :: acc)).
  { constructor; [|exact Ha]. unfold is_digit, digit_char. lia. }
  destruct (N.eqb q 0); [exact Hd|]. apply IH, Hd.
Qed.

Lemma dec_digits n : all_digits (n_to_dec n).
Proof. apply dec_fuel_digits. constructor. Qed.

Lemma dec_nonempty n : n_to_dec n <> [].
Proof.
  unfold n_to_dec. cbn [n_to_dec_fuel]. destruct (N.div_eucl n 10) as [q r].
  destruct (N.eqb q 0); [discriminate|]. rewrite dec_fuel_app. destruct (n_to_dec_fuel _ q []); discriminate.
Qed.

(* ================================================================== 2. ClOrdID chain *)

Lemma take_digits_app d c r :
  all_digits d -> is_digit c = false -> take_digits (d ++ c :: r) = d.
Proof.
  induction 1 as [|x d Hx _ IH]; intro Hc; cbn.
  - rewrite Hc. reflexivity.
  - rewrite Hx, IH by exact Hc. reflexivity.
Qed.
Lemma drop_digits_app d c r :
  all_digits d -> is_digit c = false -> drop_digits (d ++ c :: r) = c :: r.
Proof.
  induction 1 as [|x d Hx _ IH]; intro Hc; cbn.
  - rewrite Hc. reflexivity.
  - rewrite Hx, IH by exact Hc. reflexivity.
Qed.

Lemma all_digits_rev d : all_digits d -> all_digits (rev d).
Proof. unfold all_digits. intro H. apply Forall_rev, H. Qed.

(* the root of root--k is root: the chain of ids stays under one root *)
Lemma clord_root_next root k : root <> [] -> clord_root (clord_id_of root k) = root.
Proof.
  intro Hr. unfold clord_root, clord_id_of.
  rewrite !rev_app_distr. cbn [rev app]. rewrite <- !app_assoc. cbn [app].
  pose proof (all_digits_rev _ (dec_digits k)) as Hd.
  rewrite take_digits_app, drop_digits_app by (auto; reflexivity).
  destruct (rev (n_to_dec k)) eqn:Hk.
  { exfalso. apply (dec_nonempty k). rewrite <- (rev_involutive (n_to_dec k)), Hk. reflexivity. }
  destruct (rev root) as [|c p] eqn:Hrr.
  { exfalso. apply Hr. rewrite <- (rev_involutive root), Hrr. reflexivity. }
  cbn [app]. change (DASH =? DASH) with true. cbn [andb rev].
  change (rev p ++ [c]) with (rev (c :: p)). rewrite <- Hrr, rev_involutive. reflexivity.
Qed.

Lemma clord_root_nonempty s : s <> [] -> clord_root s <> [].
Proof.
  intro Hs. unfold clord_root.
  destruct (take_digits (rev s)); [exact Hs|].
  destruct (drop_digits (rev s)) as [|a [|b [|c p]]]; try exact Hs.
  destruct ((a =? DASH) && (b =? DASH)); [|exact Hs].
  cbn. destruct (rev p ++ [c]) eqn:E; [|discriminate].
  destruct (rev p); discriminate.
Qed.

Lemma clord_id_inj root a b : clord_id_of root a = clord_id_of root b -> a = b.
Proof.
  unfold clord_id_of. intro H. apply app_inv_head in H. apply app_inv_head in H. apply dec_inj, H.
Qed.

Lemma clord_id_nonempty root k : clord_id_of root k <> [].
Proof. unfold clord_id_of. destruct root; discriminate. Qed.
