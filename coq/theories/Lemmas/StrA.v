(* String lemmas used by C02 / C10: decimal printing, "%0.3i", sums, joins, utf-8 on ASCII,
   the literal/field readers of the reference framer, find_sub. *)
From Coq Require Import ZArith NArith List Bool Lia.
From AF Require Import Base.Sx Py.Str Py.Utf8 Fix.Framing.
Import ListNotations.
Open Scope N_scope.

(* ------------------------------------------------------------------ equality *)

Lemma streqb_eq a b : str_eqb a b = true <-> a = b.
Proof.
  revert b. induction a as [|x a IH]; destruct b as [|y b]; cbn; split; try congruence; auto.
  - rewrite andb_true_iff, N.eqb_eq. intros [-> H]. apply IH in H. now subst.
  - intros H. inversion H. subst. rewrite andb_true_iff, N.eqb_eq. split; auto. now apply IH.
Qed.

Lemma streqb_refl a : str_eqb a a = true.
Proof. now apply streqb_eq. Qed.

Lemma streqb_neq a b : str_eqb a b = false <-> a <> b.
Proof. rewrite <- streqb_eq. destruct (str_eqb a b); split; congruence. Qed.

(* ------------------------------------------------------------------ decimal printing *)

Lemma dec_value_from_app acc ds d :
  dec_value_from acc (ds ++ [d]) = 10 * dec_value_from acc ds + (d - 48).
Proof. revert acc. induction ds as [|x ds IH]; intros acc; cbn; [reflexivity|]. apply IH. Qed.

Lemma div_eucl_10 n q r : N.div_eucl n 10 = (q, r) -> q = n / 10 /\ r = n mod 10.
Proof. intros E. unfold N.div, N.modulo. rewrite E. auto. Qed.

Lemma n_to_dec_fuel_S f n acc :
  n_to_dec_fuel (S f) n acc =
  let (q, r) := N.div_eucl n 10 in
  let acc' := digit_char r :: acc in
  if N.eqb q 0 then acc' else n_to_dec_fuel f q acc'.
Proof. reflexivity. Qed.

Lemma n_to_dec_fuel_spec f : forall n acc, n < 2 ^ N.of_nat (S f) ->
  exists ds, n_to_dec_fuel (S f) n acc = ds ++ acc /\ ds <> [] /\
             forallb ascii_digit ds = true /\ dec_value ds = n.
Proof.
  induction f as [|f IH]; intros n acc Hn.
  - (* n < 2: one digit *)
    change (2 ^ N.of_nat 1) with 2 in Hn.
    rewrite n_to_dec_fuel_S. destruct (N.div_eucl n 10) as [q r] eqn:E. cbv zeta.
    apply div_eucl_10 in E. destruct E as [-> ->].
    assert (Hq : n / 10 = 0) by (apply N.div_small; lia).
    rewrite Hq. cbn [N.eqb]. exists [digit_char (n mod 10)]. split; [reflexivity|].
    split; [discriminate|].
    rewrite N.mod_small by lia. unfold digit_char, dec_value. cbn [forallb dec_value_from].
    unfold ascii_digit. split; [|lia].
    rewrite andb_true_r, andb_true_iff, !N.leb_le. lia.
  - rewrite n_to_dec_fuel_S. destruct (N.div_eucl n 10) as [q r] eqn:E. cbv zeta.
    apply div_eucl_10 in E. destruct E as [-> ->].
    assert (Hr : n mod 10 < 10) by (apply N.mod_lt; lia).
    assert (Hdm : n = 10 * (n / 10) + n mod 10) by (apply N.div_mod; lia).
    destruct (N.eqb (n / 10) 0) eqn:Eq.
    + apply N.eqb_eq in Eq. exists [digit_char (n mod 10)]. split; [reflexivity|].
      split; [discriminate|]. unfold digit_char, dec_value. cbn [forallb dec_value_from].
      unfold ascii_digit. split; [|lia].
      rewrite andb_true_r, andb_true_iff, !N.leb_le. lia.
    + apply N.eqb_neq in Eq.
      assert (Hq : n / 10 < 2 ^ N.of_nat (S f)).
      { replace (N.of_nat (S (S f))) with (N.succ (N.of_nat (S f))) in Hn by lia.
        rewrite N.pow_succ_r' in Hn.
        remember (n / 10) as q. remember (2 ^ N.of_nat (S f)) as P. remember (n mod 10) as r. lia. }
      destruct (IH (n / 10) (digit_char (n mod 10) :: acc) Hq) as (ds & E1 & E2 & E3 & E4).
      exists (ds ++ [digit_char (n mod 10)]). split; [rewrite E1, <- app_assoc; reflexivity|].
      split; [destruct ds; discriminate|]. split.
      * rewrite forallb_app, E3. cbn [forallb andb]. unfold ascii_digit, digit_char.
        rewrite andb_true_r, andb_true_iff, !N.leb_le. clear - Hr. remember (n mod 10) as r. lia.
      * unfold dec_value in *. rewrite dec_value_from_app, E4. unfold digit_char.
        clear - Hdm Hr. remember (n mod 10) as r. remember (n / 10) as q. lia.
Qed.

Lemma pos_size_nat_gt p : N.pos p < 2 ^ N.of_nat (Pos.size_nat p).
Proof.
  induction p as [p IH|p IH|]; cbn [Pos.size_nat].
  - replace (N.of_nat (S (Pos.size_nat p))) with (N.succ (N.of_nat (Pos.size_nat p))) by lia.
    rewrite N.pow_succ_r'. lia.
  - replace (N.of_nat (S (Pos.size_nat p))) with (N.succ (N.of_nat (Pos.size_nat p))) by lia.
    rewrite N.pow_succ_r'. lia.
  - cbn. lia.
Qed.

Lemma n_to_dec_spec n :
  n_to_dec n <> [] /\ forallb ascii_digit (n_to_dec n) = true /\ dec_value (n_to_dec n) = n.
Proof.
  unfold n_to_dec.
  assert (Hn : n < 2 ^ N.of_nat (S (N.size_nat n))).
  { replace (N.of_nat (S (N.size_nat n))) with (N.succ (N.of_nat (N.size_nat n))) by lia.
    rewrite N.pow_succ_r'. destruct n as [|p]; [cbn; lia|].
    pose proof (pos_size_nat_gt p) as H. cbn [N.size_nat]. lia. }
  destruct (n_to_dec_fuel_spec (N.size_nat n) n [] Hn) as (ds & E1 & E2 & E3 & E4).
  rewrite E1, app_nil_r. auto.
Qed.

(* ------------------------------------------------------------------ "%0.3i" *)

Definition fmt03_check (c : N) : bool :=
  match fmt03 c with
  | [d1; d2; d3] =>
      ascii_digit d1 && ascii_digit d2 && ascii_digit d3
      && N.eqb (100 * (d1 - 48) + 10 * (d2 - 48) + (d3 - 48)) c
      && match py_int (fmt03 c) with Some z => Z.eqb z (Z.of_N c) | None => false end
  | _ => false
  end.

Definition bytes_all : list N := map N.of_nat (seq 0 256).

Lemma in_bytes_all c : c < 256 -> In c bytes_all.
Proof.
  intros H. unfold bytes_all. apply in_map_iff. exists (N.to_nat c). split; [lia|].
  apply in_seq. lia.
Qed.

Lemma fmt03_sweep : forallb fmt03_check bytes_all = true.
Proof. vm_compute. reflexivity. Qed.

Lemma fmt03_spec c : c < 256 ->
  exists d1 d2 d3, fmt03 c = [d1; d2; d3]
    /\ ascii_digit d1 = true /\ ascii_digit d2 = true /\ ascii_digit d3 = true
    /\ 100 * (d1 - 48) + 10 * (d2 - 48) + (d3 - 48) = c
    /\ py_int (fmt03 c) = Some (Z.of_N c).
Proof.
  intros H. pose proof fmt03_sweep as S. rewrite forallb_forall in S.
  specialize (S c (in_bytes_all c H)). unfold fmt03_check in S.
  destruct (fmt03 c) as [|d1 [|d2 [|d3 [|]]]] eqn:E; try discriminate.
  destruct (py_int [d1; d2; d3]) as [z|]; [|rewrite andb_false_r in S; discriminate].
  rewrite !andb_true_iff in S. destruct S as [[[[A B] C] D] F].
  apply N.eqb_eq in D. apply Z.eqb_eq in F. subst z.
  exists d1, d2, d3. auto 10.
Qed.

(* ------------------------------------------------------------------ sums *)

Lemma fold_add_byte_sum s a : fold_left N.add s a = a + byte_sum s.
Proof. revert a. induction s as [|c s IH]; intros a; cbn [fold_left byte_sum]; [lia|]. rewrite IH. lia. Qed.

Lemma sum_codes_byte_sum s : sum_codes s = byte_sum s.
Proof. unfold sum_codes. rewrite fold_add_byte_sum. lia. Qed.

Lemma byte_sum_app a b : byte_sum (a ++ b) = byte_sum a + byte_sum b.
Proof. induction a as [|c a IH]; cbn [app byte_sum]; [lia|]. rewrite IH. lia. Qed.

Lemma sum_codes_app a b : sum_codes (a ++ b) = sum_codes a + sum_codes b.
Proof. rewrite !sum_codes_byte_sum. apply byte_sum_app. Qed.

Lemma sum_codes_cons c s : sum_codes (c :: s) = c + sum_codes s.
Proof. rewrite !sum_codes_byte_sum. reflexivity. Qed.

(* ------------------------------------------------------------------ join *)

Lemma join_cons sep p ps : ps <> [] -> join sep (p :: ps) = p ++ sep ++ join sep ps.
Proof. destruct ps; [congruence|reflexivity]. Qed.

Lemma length_join sep ps :
  length (join sep ps) = (list_sum (map (@length N) ps) + length sep * (length ps - 1))%nat.
Proof.
  induction ps as [|p ps IH]; [cbn; lia|].
  destruct ps as [|p' ps].
  - cbn. lia.
  - rewrite join_cons by discriminate. rewrite !app_length, IH. cbn [map list_sum length].
    replace (S (length ps) - 1)%nat with (length ps) by lia.
    replace (S (S (length ps)) - 1)%nat with (S (length ps)) by lia.
    rewrite Nat.mul_succ_r. unfold list_sum. cbn [fold_right]. lia.
Qed.

(* ------------------------------------------------------------------ utf-8 on ASCII *)

Lemma utf8_ascii s : forallb (fun c => c <? 128) s = true -> utf8 s = Some s.
Proof.
  induction s as [|c s IH]; [reflexivity|]. cbn [forallb utf8]. rewrite andb_true_iff.
  intros [A B]. unfold utf8_cp. rewrite A, (IH B). reflexivity.
Qed.

Lemma ascii_is_byte s : forallb (fun c => c <? 128) s = true -> forallb is_byte s = true.
Proof.
  rewrite !forallb_forall. intros H c Hc. specialize (H c Hc). unfold is_byte.
  apply N.ltb_lt in H. apply N.ltb_lt. lia.
Qed.

(* ------------------------------------------------------------------ reference framer readers *)

Lemma expect_app p s : expect p (p ++ s) = Some s.
Proof. induction p as [|x p IH]; [destruct s; reflexivity|]. cbn. rewrite N.eqb_refl. exact IH. Qed.

Lemma expect_inv p : forall s r, expect p s = Some r -> s = p ++ r.
Proof.
  induction p as [|x p IH]; intros s r H.
  - destruct s; cbn in H; inversion H; reflexivity.
  - destruct s as [|y s]; cbn in H; [discriminate|].
    destruct (N.eqb x y) eqn:E; [|discriminate]. apply N.eqb_eq in E. subst y.
    cbn. f_equal. now apply IH.
Qed.

Lemma take_field_app a r : ~ In 1 a -> take_field (a ++ 1 :: r) = Some (a, r).
Proof.
  induction a as [|c a IH]; intros H; [reflexivity|]. cbn [app take_field].
  destruct (N.eqb c 1) eqn:E.
  - apply N.eqb_eq in E. subst c. exfalso. apply H. now left.
  - rewrite IH; [reflexivity|]. intros F. apply H. now right.
Qed.

Lemma take_field_inv : forall s v r, take_field s = Some (v, r) -> s = v ++ 1 :: r /\ ~ In 1 v.
Proof.
  induction s as [|c s IH]; intros v r H; [discriminate|]. cbn [take_field] in H.
  destruct (N.eqb c 1) eqn:E.
  - apply N.eqb_eq in E. subst c. inversion H. subst. split; [reflexivity|]. intros [].
  - destruct (take_field s) as [[v' r']|] eqn:T; [|discriminate]. inversion H. subst.
    destruct (IH _ _ eq_refl) as [-> N1]. split; [reflexivity|].
    intros [F|F]; [subst c; discriminate|auto].
Qed.

Lemma digits_no_soh ds : forallb ascii_digit ds = true -> ~ In 1 ds.
Proof.
  rewrite forallb_forall. intros H F. specialize (H 1 F). discriminate.
Qed.

Lemma ascii_digit_range c : ascii_digit c = true <-> 48 <= c <= 57.
Proof. unfold ascii_digit. rewrite andb_true_iff, !N.leb_le. tauto. Qed.

Lemma ends_with_soh_app a : ends_with_soh (a ++ [1]) = true.
Proof.
  induction a as [|c a IH]; [reflexivity|]. cbn [app ends_with_soh].
  destruct (a ++ [1]) eqn:E; [destruct a; discriminate|]. exact IH.
Qed.

Lemma ends_with_soh_inv s : ends_with_soh s = true -> exists b0, s = b0 ++ [1].
Proof.
  induction s as [|c s IH]; [discriminate|]. cbn [ends_with_soh].
  destruct s as [|c' s].
  - intros H. apply N.eqb_eq in H. subst. now exists [].
  - intros H. destruct (IH H) as [b0 E]. exists (c :: b0). rewrite E. reflexivity.
Qed.

Lemma firstn_app_exact {A} (a b : list A) : firstn (length a) (a ++ b) = a.
Proof. rewrite firstn_app, Nat.sub_diag, firstn_all. cbn. apply app_nil_r. Qed.

Lemma skipn_app_exact {A} (a b : list A) : skipn (length a) (a ++ b) = b.
Proof. rewrite skipn_app, Nat.sub_diag, skipn_all. reflexivity. Qed.

(* ------------------------------------------------------------------ find_sub, split1, split_on *)

Lemma prefixb_length p : forall s, prefixb p s = true -> (length p <= length s)%nat.
Proof.
  induction p as [|x p IH]; intros s H; [cbn; lia|].
  destruct s as [|y s]; [discriminate|]. cbn in H. apply andb_true_iff in H.
  destruct H as [_ H]. apply IH in H. cbn. lia.
Qed.

Lemma prefixb_app p : forall s, prefixb p s = true -> exists r, s = p ++ r.
Proof.
  induction p as [|x p IH]; intros s H; [now exists s|].
  destruct s as [|y s]; [discriminate|]. cbn in H. apply andb_true_iff in H.
  destruct H as [E H]. apply N.eqb_eq in E. subst y. destruct (IH _ H) as [r ->]. now exists r.
Qed.

Lemma find_sub_from_spec p : forall s i j, find_sub_from p s i = Some j ->
  exists k, j = (i + k)%nat /\ (k <= length s)%nat /\ prefixb p (skipn k s) = true.
Proof.
  induction s as [|c s IH]; intros i j H.
  - cbn in H. destruct (prefixb p []) eqn:E; [|discriminate]. inversion H. subst.
    exists 0%nat. repeat split; [lia|cbn; lia|exact E].
  - cbn [find_sub_from] in H. destruct (prefixb p (c :: s)) eqn:E.
    + inversion H. subst. exists 0%nat. repeat split; [lia|cbn; lia|exact E].
    + destruct (IH _ _ H) as (k & -> & Hk & Hp). exists (S k). repeat split; [lia|cbn; lia|exact Hp].
Qed.

Lemma find_sub_spec p s i : find_sub p s = Some i ->
  (i + length p <= length s)%nat /\ exists r, skipn i s = p ++ r.
Proof.
  unfold find_sub. intros H. destruct (find_sub_from_spec _ _ _ _ H) as (k & -> & Hk & Hp).
  cbn [Nat.add]. split.
  - apply prefixb_length in Hp. rewrite skipn_length in Hp. lia.
  - now apply prefixb_app.
Qed.

Lemma split1_some c : forall s a b, split1 c s = (a, Some b) -> s = a ++ c :: b.
Proof.
  induction s as [|x s IH]; intros a b H; [discriminate|]. cbn [split1] in H.
  destruct (N.eqb x c) eqn:E.
  - apply N.eqb_eq in E. subst x. inversion H. reflexivity.
  - destruct (split1 c s) as [a' b'] eqn:S. inversion H. subst. rewrite (IH _ _ eq_refl). reflexivity.
Qed.

Lemma split_on_nonempty c s : split_on c s <> [].
Proof.
  destruct s as [|x s]; cbn; [discriminate|]. destruct (N.eqb x c); [discriminate|].
  destruct (split_on c s); discriminate.
Qed.

Lemma join_split_on c : forall s, join [c] (split_on c s) = s.
Proof.
  induction s as [|x s IH]; [reflexivity|]. cbn [split_on].
  destruct (N.eqb x c) eqn:E.
  - apply N.eqb_eq in E. subst x. rewrite join_cons by apply split_on_nonempty.
    rewrite IH. reflexivity.
  - destruct (split_on c s) as [|p ps] eqn:S; [exfalso; eapply split_on_nonempty; eauto|].
    destruct ps as [|p' ps].
    + cbn in *. now rewrite IH.
    + rewrite join_cons by discriminate. rewrite join_cons in IH by discriminate.
      rewrite <- IH. reflexivity.
Qed.

Lemma join_removelast sep ps : (2 <= length ps)%nat ->
  join sep ps = join sep (removelast ps) ++ sep ++ last ps [].
Proof.
  induction ps as [|p ps IH]; [cbn; lia|]. intros H.
  destruct ps as [|p' ps]; [cbn in H; lia|].
  destruct ps as [|p'' ps].
  - cbn. reflexivity.
  - rewrite join_cons by discriminate.
    change (removelast (p :: p' :: p'' :: ps)) with (p :: removelast (p' :: p'' :: ps)).
    change (last (p :: p' :: p'' :: ps) []) with (last (p' :: p'' :: ps) []).
    change (removelast (p' :: p'' :: ps)) with (p' :: removelast (p'' :: ps)).
    rewrite (join_cons sep p (p' :: removelast (p'' :: ps))) by discriminate.
    change (p' :: removelast (p'' :: ps)) with (removelast (p' :: p'' :: ps)).
    rewrite IH by (cbn; lia). rewrite <- !app_assoc. reflexivity.
Qed.

Lemma skipn_skipn' {A} (x y : nat) (l : list A) : skipn x (skipn y l) = skipn (y + x) l.
Proof.
  revert l. induction y as [|y IH]; intros l; [reflexivity|].
  destruct l as [|a l]; [now rewrite !skipn_nil|]. cbn [skipn Nat.add]. apply IH.
Qed.

(* ------------------------------------------------------------------ first occurrence, splitting at a separator *)

Lemma prefixb_self_app p : forall b, prefixb p (p ++ b) = true.
Proof. induction p as [|x p IH]; intros b; [destruct b; reflexivity|]. cbn. now rewrite N.eqb_refl, IH. Qed.

Lemma prefixb_app_r p : forall s x, prefixb p s = true -> prefixb p (s ++ x) = true.
Proof.
  induction p as [|c p IH]; intros s x H; [destruct (s ++ x); reflexivity|].
  destruct s as [|y s]; [discriminate|]. cbn in *. apply andb_true_iff in H. destruct H as [A B].
  now rewrite A, (IH _ _ B).
Qed.

Lemma find_sub_from_min p : forall s i j, find_sub_from p s i = Some j ->
  forall k, (i + k < j)%nat -> prefixb p (skipn k s) = false.
Proof.
  induction s as [|c s IH]; intros i j H k Hk.
  - cbn in H. destruct (prefixb p []); [inversion H; lia|discriminate].
  - cbn [find_sub_from] in H. destruct (prefixb p (c :: s)) eqn:E; [inversion H; lia|].
    destruct k as [|k]; [exact E|]. cbn [skipn]. apply (IH _ _ H). lia.
Qed.

Lemma find_sub_min p s i : find_sub p s = Some i ->
  forall k, (k < i)%nat -> prefixb p (skipn k s) = false.
Proof. unfold find_sub. intros H k Hk. apply (find_sub_from_min _ _ _ _ H). lia. Qed.

Lemma find_sub_from_none p : forall s i, find_sub_from p s i = None ->
  forall k, prefixb p (skipn k s) = false.
Proof.
  induction s as [|c s IH]; intros i H k.
  - cbn in H. rewrite skipn_nil. destruct (prefixb p []); [discriminate|reflexivity].
  - cbn [find_sub_from] in H. destruct (prefixb p (c :: s)) eqn:E; [discriminate|].
    destruct k as [|k]; [exact E|]. cbn [skipn]. now apply (IH _ H).
Qed.

Lemma find_sub_none p s : find_sub p s = None -> forall k, prefixb p (skipn k s) = false.
Proof. unfold find_sub. apply find_sub_from_none. Qed.

(* no occurrence of the one-character pattern below position j: the character is not there *)
Lemma no_char_firstn c : forall j (s : str),
  (forall k, (k < j)%nat -> prefixb [c] (skipn k s) = false) -> ~ In c (firstn j s).
Proof.
  induction j as [|j IH]; intros s H; [intros []|].
  destruct s as [|x s]; [intros []|]. cbn [firstn]. intros [E|F].
  - subst x. specialize (H 0%nat ltac:(lia)). cbn in H. now rewrite N.eqb_refl in H.
  - apply (IH s); [|exact F]. intros k Hk. apply (H (S k)). lia.
Qed.

Lemma split_on_nosep c (s : str) : ~ In c s -> split_on c s = [s].
Proof.
  induction s as [|x s IH]; intros H; [reflexivity|]. cbn [split_on].
  destruct (N.eqb x c) eqn:E.
  - apply N.eqb_eq in E. subst x. exfalso. apply H. now left.
  - rewrite IH; [reflexivity|]. intros F. apply H. now right.
Qed.

Lemma split_on_app c : forall a b : str, split_on c (a ++ c :: b) = split_on c a ++ split_on c b.
Proof.
  induction a as [|x a IH]; intros b.
  - cbn [app split_on]. now rewrite N.eqb_refl.
  - cbn [app split_on]. destruct (N.eqb x c); [now rewrite IH|].
    rewrite IH. destruct (split_on c a) as [|p ps] eqn:E; [exfalso; eapply split_on_nonempty; eauto|].
    reflexivity.
Qed.

Lemma split_on_hd c : forall (s f : str) l, split_on c s = f :: l -> exists rest, s = f ++ rest.
Proof.
  induction s as [|x s IH]; intros f l H.
  - cbn in H. inversion H. now exists [].
  - cbn [split_on] in H. destruct (N.eqb x c).
    + inversion H. now exists (x :: s).
    + destruct (split_on c s) as [|p ps] eqn:E; [exfalso; eapply split_on_nonempty; eauto|].
      inversion H. subst. destruct (IH _ _ eq_refl) as [rest ->]. now exists rest.
Qed.

Lemma firstn_firstn_le {A} (a b : nat) (l : list A) : (a <= b)%nat -> firstn a (firstn b l) = firstn a l.
Proof. intros H. rewrite firstn_firstn. f_equal. lia. Qed.
