#!/usr/bin/env python3
"""Development tool: record for every seeded patch the newest /repo commit it applies to (meta.json: applies_to),
and whether it applies to the current HEAD."""
import glob, json, os, subprocess, tempfile
ROOT = os.path.dirname(os.path.dirname(os.path.abspath(__file__)))
commits = subprocess.check_output(["git", "-C", "/repo", "log", "--format=%h"]).decode().split()
wt = tempfile.mkdtemp(prefix="seedbase_", dir="/tmp"); os.rmdir(wt)
subprocess.check_call(["git", "-C", "/repo", "worktree", "add", "--detach", wt, "HEAD"], stdout=subprocess.DEVNULL, stderr=subprocess.DEVNULL)
try:
    for d in sorted(glob.glob(os.path.join(ROOT, "seeded", "*"))):
        patch = os.path.join(d, "patch.diff")
        meta = json.load(open(os.path.join(d, "meta.json")))
        found = None
        for c in commits:
            subprocess.check_call(["git", "-C", wt, "checkout", "-q", c])
            if subprocess.call(["git", "-C", wt, "apply", "--check", patch], stderr=subprocess.DEVNULL) == 0:
                found = c; break
        meta["applies_to"] = found
        meta["applies_to_head"] = (found == commits[0])
        json.dump(meta, open(os.path.join(d, "meta.json"), "w"), indent=1)
        if found != commits[0]:
            print(os.path.basename(d), "applies to", found, "(HEAD is %s)" % commits[0])
finally:
    subprocess.call(["git", "-C", "/repo", "worktree", "remove", "--force", wt])
