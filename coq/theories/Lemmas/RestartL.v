(* Proofs about the counter-ledger / restart model Fix/Restart.v (C09). *)
From Coq Require Import ZArith List Bool Lia ZifyBool.
From AF Require Import Fix.Restart.
Import ListNotations.
Open Scope Z_scope.

(* ------------------------------------------------------------------ replay / db basics *)

Lemma replay_app : forall b l1 l2, replay b (l1 ++ l2) = fold_left estep l2 (replay b l1).
Proof. intros. unfold replay. apply fold_left_app. Qed.

Definition with_log (w : world) (l : list effect) : world :=
  mkW (nin w) (nout w) (st w) (rl w) (maxres w) (dlv w) (ctor w) (base w) l (past w).

Lemma db_with_log_app : forall w l, db (with_log w (log w ++ l)) = fold_left estep l (db w).
Proof. intros. unfold db. cbn [base log with_log]. apply replay_app. Qed.

Lemma writes_app : forall l1 l2, writes (l1 ++ l2) = writes l1 ++ writes l2.
Proof.
  induction l1 as [|e l1 IH]; intros; cbn [app writes]; [reflexivity|].
  destruct e; cbn [writes app]; rewrite ?IH; reflexivity.
Qed.

Lemma writes_stmts : forall ps, writes (map EStmt ps) = [].
Proof. induction ps; cbn; auto. Qed.

Lemma fold_estep_nonstmt : forall f d, fold_left estep [EWrite f; EDrain] d = d.
Proof. reflexivity. Qed.

(* ------------------------------------------------------------------ the statement lists of the Journaler methods *)

Definition ins_out_tab (t : jtab) (f : frame) : jtab := mkJ (sin t) (f_seq f) (rin t) (rout t ++ [f]).
Definition ins_in_tab (t : jtab) (n : Z) : jtab := mkJ n (sout t) (rin t ++ [n]) (rout t).
Definition set_tab (t : jtab) (i o : Z) : jtab :=
  mkJ (i - 1) (o - 1) (filter (fun n => negb (i <=? n)) (rin t)) (filter (fun f => negb (o <=? f_seq f)) (rout t)).

Definition persist_out_prims (f : frame) := [PInsOut f; PUpdOut (f_seq f); PCommit].
Definition persist_in_prims (n : Z) := [PInsIn n; PUpdIn n; PCommit].
Definition set_prims (i o : Z) := [PUpdBoth (i - 1) (o - 1); PDelIn i; PDelOut o; PCommit].

Lemma persist_out_run_ok : forall d f, has_out (cur d) (f_seq f) = false ->
  run_prims (persist_out_prims f) d = (persist_out_prims f, true)
  /\ fold_left estep (map EStmt (persist_out_prims f)) d = mkDb (ins_out_tab (cur d) f) (ins_out_tab (cur d) f).
Proof.
  intros d f H. unfold persist_out_prims.
  cbn [run_prims exec_prim apply_stmt map fold_left estep fst]. rewrite H.
  cbn [cur committed sin sout rin rout fst]. split; reflexivity.
Qed.

Lemma persist_out_run_dup : forall d f, has_out (cur d) (f_seq f) = true ->
  run_prims (persist_out_prims f) d = ([PInsOut f], false)
  /\ fold_left estep (map EStmt [PInsOut f]) d = d.
Proof.
  intros d f H. unfold persist_out_prims.
  cbn [run_prims exec_prim apply_stmt map fold_left estep fst]. rewrite H. split; reflexivity.
Qed.

Lemma persist_in_run_ok : forall d n, has_in (cur d) n = false ->
  run_prims (persist_in_prims n) d = (persist_in_prims n, true)
  /\ fold_left estep (map EStmt (persist_in_prims n)) d = mkDb (ins_in_tab (cur d) n) (ins_in_tab (cur d) n).
Proof.
  intros d n H. unfold persist_in_prims.
  cbn [run_prims exec_prim apply_stmt map fold_left estep fst]. rewrite H.
  cbn [cur committed sin sout rin rout fst]. split; reflexivity.
Qed.

Lemma persist_in_run_dup : forall d n, has_in (cur d) n = true ->
  run_prims (persist_in_prims n) d = ([PInsIn n], false)
  /\ fold_left estep (map EStmt [PInsIn n]) d = d.
Proof.
  intros d n H. unfold persist_in_prims.
  cbn [run_prims exec_prim apply_stmt map fold_left estep fst]. rewrite H. split; reflexivity.
Qed.

Lemma set_run : forall d i o,
  run_prims (set_prims i o) d = (set_prims i o, true)
  /\ fold_left estep (map EStmt (set_prims i o)) d = mkDb (set_tab (cur d) i o) (set_tab (cur d) i o).
Proof.
  intros. unfold set_prims, set_tab.
  cbn [run_prims exec_prim apply_stmt map fold_left estep fst cur committed sin sout rin rout].
  split; reflexivity.
Qed.

(* ------------------------------------------------------------------ exact results of the Journaler methods *)

Ltac munfold :=
  cbv beta iota delta [bind ret raise get upd catch assert_ set_st set_rl set_maxres set_nin set_nout deliver emit].
Ltac munfold_in H :=
  cbv beta iota delta [bind ret raise get upd catch assert_ set_st set_rl set_maxres set_nin set_nout deliver emit] in H.

Lemma jexec_eq : forall ps w,
  jexec ps w = (inl (snd (run_prims ps (db w))), with_log w (log w ++ map EStmt (fst (run_prims ps (db w))))).
Proof.
  intros. unfold jexec, bind, get, emit, upd, ret. destruct (run_prims ps (db w)) as [done ok]. reflexivity.
Qed.

Lemma persist_out_ok : forall f w, has_out (jt w) (f_seq f) = false ->
  persist_out f w = (inl tt, with_log w (log w ++ map EStmt (persist_out_prims f)))
  /\ db (with_log w (log w ++ map EStmt (persist_out_prims f))) = mkDb (ins_out_tab (jt w) f) (ins_out_tab (jt w) f).
Proof.
  intros f w H. destruct (persist_out_run_ok (db w) f H) as [Hr Hf].
  split.
  - unfold persist_out, bind. fold (persist_out_prims f). rewrite jexec_eq, Hr. reflexivity.
  - rewrite db_with_log_app. exact Hf.
Qed.

Lemma persist_out_dup : forall f w, has_out (jt w) (f_seq f) = true ->
  persist_out f w = (inr XDup, with_log w (log w ++ [EStmt (PInsOut f)]))
  /\ db (with_log w (log w ++ [EStmt (PInsOut f)])) = db w.
Proof.
  intros f w H. destruct (persist_out_run_dup (db w) f H) as [Hr Hf].
  split.
  - unfold persist_out, bind. fold (persist_out_prims f). rewrite jexec_eq, Hr. reflexivity.
  - rewrite db_with_log_app. exact Hf.
Qed.

Lemma persist_in_ok : forall n w, has_in (jt w) n = false ->
  persist_in n w = (inl tt, with_log w (log w ++ map EStmt (persist_in_prims n)))
  /\ db (with_log w (log w ++ map EStmt (persist_in_prims n))) = mkDb (ins_in_tab (jt w) n) (ins_in_tab (jt w) n).
Proof.
  intros n w H. destruct (persist_in_run_ok (db w) n H) as [Hr Hf].
  split.
  - unfold persist_in, bind. fold (persist_in_prims n). rewrite jexec_eq, Hr. reflexivity.
  - rewrite db_with_log_app. exact Hf.
Qed.

Lemma persist_in_dup : forall n w, has_in (jt w) n = true ->
  persist_in n w = (inr XDup, with_log w (log w ++ [EStmt (PInsIn n)]))
  /\ db (with_log w (log w ++ [EStmt (PInsIn n)])) = db w.
Proof.
  intros n w H. destruct (persist_in_run_dup (db w) n H) as [Hr Hf].
  split.
  - unfold persist_in, bind. fold (persist_in_prims n). rewrite jexec_eq, Hr. reflexivity.
  - rewrite db_with_log_app. exact Hf.
Qed.

(* the world after set_seq_num wrote counters i (in) and o (out) *)
Definition set_world (w : world) (i o : Z) : world :=
  mkW i o (st w) (rl w) (maxres w) (dlv w) (ctor w) (base w) (log w ++ map EStmt (set_prims i o)) (past w).

Lemma db_set_world : forall w i o, db (set_world w i o) = mkDb (set_tab (jt w) i o) (set_tab (jt w) i o).
Proof.
  intros. unfold db, set_world. cbn [base log]. rewrite replay_app. apply set_run.
Qed.

Lemma set_seq_num_in : forall v w,
  set_seq_num None (Some v) w = if 0 <? v then (inl tt, set_world w v (nout w)) else (inr XAssert, w).
Proof.
  intros. unfold set_seq_num. munfold.
  destruct (0 <? v); [|reflexivity].
  cbn [nin nout]. fold (set_prims v (nout w)). rewrite jexec_eq.
  destruct (set_run (db (mkW v (nout w) (st w) (rl w) (maxres w) (dlv w) (ctor w) (base w) (log w) (past w))) v (nout w)) as [Hr _].
  rewrite Hr. reflexivity.
Qed.

Lemma set_seq_num_out : forall v w,
  set_seq_num (Some v) None w = if 0 <? v then (inl tt, set_world w (nin w) v) else (inr XAssert, w).
Proof.
  intros. unfold set_seq_num. munfold.
  destruct (0 <? v); [|reflexivity].
  cbn [nin nout]. fold (set_prims (nin w) v). rewrite jexec_eq.
  destruct (set_run (db (mkW (nin w) v (st w) (rl w) (maxres w) (dlv w) (ctor w) (base w) (log w) (past w))) (nin w) v) as [Hr _].
  rewrite Hr. reflexivity.
Qed.

(* ------------------------------------------------------------------ send_msg *)

Definition send_gate (w : world) (m : frame) : option (cstate * role) :=
  if is_disc (st w) then None
  else if cstate_eqb (st w) NCE then
    if mtype_eqb (f_type m) TLogon || mtype_eqb (f_type m) TLogout then Some (LogonSent, Initiator) else None
  else if role_eqb (rl w) Initiator && cstate_eqb (st w) LogonSent && negb (mtype_eqb (f_type m) TLogout) then None
  else Some (st w, rl w).

Definition own_number (m : frame) : bool := mtype_eqb (f_type m) TSeqReset || f_pd m.

(* the world when the frame has been written and drained, before the journal write *)
Definition written (w : world) (s : cstate) (r : role) (no : Z) (f : frame) : world :=
  mkW (nin w) no s r (maxres w) (dlv w) (ctor w) (base w) ((log w ++ [EWrite f]) ++ [EDrain]) (past w).

Definition out_frame (m : frame) (n : Z) : frame := mkF (f_type m) n (f_pd m) (f_a m) (f_b m).

Lemma world_eta : forall w, mkW (nin w) (nout w) (st w) (rl w) (maxres w) (dlv w) (ctor w) (base w) (log w) (past w) = w.
Proof. destruct w; reflexivity. Qed.

Lemma send_refused : forall w m, send_gate w m = None \/ mtype_eqb (f_type m) TTest = true ->
  send_msg m w = (inr XConn, w).
Proof.
  intros w m H. unfold send_msg. munfold. unfold send_gate in H.
  destruct (is_disc (st w)) eqn:Hd; [reflexivity|].
  destruct (cstate_eqb (st w) NCE) eqn:Hn.
  - destruct (mtype_eqb (f_type m) TLogon || mtype_eqb (f_type m) TLogout) eqn:Hl; [|reflexivity].
    destruct H as [H|H]; [discriminate|].
    destruct (f_type m); discriminate.
  - destruct (role_eqb (rl w) Initiator && cstate_eqb (st w) LogonSent && negb (mtype_eqb (f_type m) TLogout)) eqn:Hi;
      [reflexivity|].
    destruct H as [H|H]; [discriminate|]. rewrite H. reflexivity.
Qed.

Lemma send_alloc : forall w m s r, send_gate w m = Some (s, r) -> mtype_eqb (f_type m) TTest = false ->
  own_number m = false ->
  send_msg m w = persist_out (out_frame m (nout w)) (written w s r (nout w + 1) (out_frame m (nout w))).
Proof.
  intros w m s r Hg Ht Ho. unfold send_msg. munfold. unfold send_gate in Hg. unfold own_number in Ho.
  destruct (is_disc (st w)) eqn:Hd; [discriminate|].
  destruct (cstate_eqb (st w) NCE) eqn:Hn.
  - destruct (mtype_eqb (f_type m) TLogon || mtype_eqb (f_type m) TLogout) eqn:Hl; [|discriminate].
    inversion Hg; subst s r. rewrite Ht. cbn [nout nin st rl maxres dlv ctor base log past]. rewrite Ho.
    reflexivity.
  - destruct (role_eqb (rl w) Initiator && cstate_eqb (st w) LogonSent && negb (mtype_eqb (f_type m) TLogout)) eqn:Hi;
      [discriminate|].
    inversion Hg; subst s r. rewrite Ht. rewrite Ho. reflexivity.
Qed.

Lemma send_own : forall w m s r, send_gate w m = Some (s, r) -> mtype_eqb (f_type m) TTest = false ->
  own_number m = true ->
  send_msg m w = persist_out (out_frame m (f_seq m)) (written w s r (nout w) (out_frame m (f_seq m))).
Proof.
  intros w m s r Hg Ht Ho. unfold send_msg. munfold. unfold send_gate in Hg. unfold own_number in Ho.
  destruct (is_disc (st w)) eqn:Hd; [discriminate|].
  destruct (cstate_eqb (st w) NCE) eqn:Hn.
  - destruct (mtype_eqb (f_type m) TLogon || mtype_eqb (f_type m) TLogout) eqn:Hl; [|discriminate].
    inversion Hg; subst s r. rewrite Ht. cbn [nout nin st rl maxres dlv ctor base log past]. rewrite Ho.
    reflexivity.
  - destruct (role_eqb (rl w) Initiator && cstate_eqb (st w) LogonSent && negb (mtype_eqb (f_type m) TLogout)) eqn:Hi;
      [discriminate|].
    inversion Hg; subst s r. rewrite Ht. rewrite Ho. reflexivity.
Qed.

(* ------------------------------------------------------------------ invariants *)

Definition clean (w : world) : Prop := committed (db w) = cur (db w).
Definition Stored_eq (w : world) : Prop := sin (jt w) + 1 = nin w /\ sout (jt w) + 1 = nout w.
Definition Out_ok (w : world) : Prop :=
  clean w /\ sout (jt w) + 1 = nout w /\ (forall f, In f (rout (jt w)) -> f_seq f < nout w) /\ 0 < nout w.
Definition In_ok (w : world) : Prop :=
  sin (jt w) + 1 = nin w /\ (forall n, In n (rin (jt w)) -> n < nin w) /\ 0 < nin w.
Definition AwOk (w : world) : Prop := st w = Awaiting -> 0 < maxres w.
Definition Inv (w : world) : Prop := Out_ok w /\ In_ok w /\ AwOk w.

Fixpoint count_both (l : list effect) : nat :=
  match l with
  | [] => O
  | EStmt (PUpdBoth _ _) :: l' => S (count_both l')
  | _ :: l' => count_both l'
  end.

Lemma count_both_app : forall l1 l2, count_both (l1 ++ l2) = (count_both l1 + count_both l2)%nat.
Proof.
  induction l1 as [|e l1 IH]; intros; cbn [app count_both]; [reflexivity|].
  destruct e as [f| |p]; try apply IH. destruct p; cbn; rewrite ?IH; reflexivity.
Qed.

Lemma has_out_false : forall t n, (forall f, In f (rout t) -> f_seq f < n) -> has_out t n = false.
Proof.
  intros t n H. unfold has_out. apply not_true_is_false. intro E.
  apply existsb_exists in E. destruct E as [f [Hf He]]. apply H in Hf. lia.
Qed.

Lemma has_in_false : forall t n, (forall k, In k (rin t) -> k < n) -> has_in t n = false.
Proof.
  intros t n H. unfold has_in. apply not_true_is_false. intro E.
  apply existsb_exists in E. destruct E as [k [Hk He]]. apply H in Hk. lia.
Qed.

(* w' is w after original sends and live-state changes only: inbound side frozen, outbound side consistent *)
Record Rel (w w' : world) : Prop := mkRel {
  r_nin : nin w' = nin w;
  r_sin : sin (jt w') = sin (jt w);
  r_rin : rin (jt w') = rin (jt w);
  r_out : Out_ok w';
  r_mono : nout w <= nout w';
  r_log : exists l, log w' = log w ++ l /\ count_both l = O
                    /\ (forall f, In f (writes l) -> original f = true -> nout w <= f_seq f < nout w');
  r_base : base w' = base w;
  r_past : past w' = past w;
  r_ctor : ctor w' = ctor w;
  r_aw : AwOk w -> AwOk w'
}.

Lemma Rel_refl : forall w, Out_ok w -> Rel w w.
Proof.
  intros w Ho. constructor; auto; try lia.
  exists []. rewrite app_nil_r. repeat split; auto; cbn in *; contradiction.
Qed.

Lemma Rel_trans : forall a b c, Rel a b -> Rel b c -> Rel a c.
Proof.
  intros a b c [n1 s1 i1 o1 m1 [l1 [L1 [C1 W1]]] b1 p1 c1 a1] [n2 s2 i2 o2 m2 [l2 [L2 [C2 W2]]] b2 p2 c2 a2].
  constructor; try congruence; try lia; try assumption; auto.
  exists (l1 ++ l2). rewrite L2, L1, app_assoc. split; [reflexivity|]. split.
  - rewrite count_both_app, C1, C2. reflexivity.
  - intros f Hf Ho. rewrite writes_app in Hf. apply in_app_or in Hf. destruct Hf as [Hf|Hf].
    + specialize (W1 f Hf Ho). lia.
    + specialize (W2 f Hf Ho). lia.
Qed.

(* worlds that differ in live fields other than the counters *)
Definition live_eq (a b : world) : Prop :=
  nin a = nin b /\ nout a = nout b /\ base a = base b /\ log a = log b /\ past a = past b /\ ctor a = ctor b.

Lemma live_eq_db : forall a b, live_eq a b -> db a = db b.
Proof. intros a b (_ & _ & Hb & Hl & _). unfold db. rewrite Hb, Hl. reflexivity. Qed.

Lemma live_eq_refl : forall a, live_eq a a.
Proof. intros. repeat split. Qed.

Lemma Rel_frame : forall a b c d, Rel b c -> live_eq a b -> live_eq c d -> (AwOk a -> AwOk d) -> Rel a d.
Proof.
  intros a b c d [n1 s1 i1 o1 m1 L1 b1 p1 c1 a1] Hab Hcd Ha.
  assert (Hdb1 : db a = db b) by (apply live_eq_db; auto).
  assert (Hdb2 : db c = db d) by (apply live_eq_db; auto).
  assert (Hj1 : jt a = jt b) by (unfold jt; rewrite Hdb1; reflexivity).
  assert (Hj2 : jt c = jt d) by (unfold jt; rewrite Hdb2; reflexivity).
  destruct Hab as (An & Ao & Ab & Al & Ap & Ac). destruct Hcd as (Cn & Co & Cb & Cl & Cp & Cc).
  constructor; try congruence; try lia; auto.
  - destruct o1 as [oc [os [orow op]]]. unfold Out_ok, clean. rewrite <- Hj2, <- Hdb2, <- Co. auto.
  - rewrite Ao, <- Co. destruct L1 as [l [L [C W]]]. exists l. rewrite <- Cl, Al. auto.
Qed.

Lemma Rel_live : forall w w1 w2, Rel w w1 -> live_eq w1 w2 -> (AwOk w -> AwOk w2) -> Rel w w2.
Proof. intros w w1 w2 H Hl Ha. eapply Rel_frame; eauto using live_eq_refl. Qed.

Lemma jt_written : forall w s r no f, jt (written w s r no f) = jt w.
Proof.
  intros. unfold jt, db, written. cbn [base log]. rewrite !replay_app. reflexivity.
Qed.

Lemma db_written : forall w s r no f, db (written w s r no f) = db w.
Proof.
  intros. unfold db, written. cbn [base log]. rewrite !replay_app. reflexivity.
Qed.

Lemma gate_awaiting : forall w m s r, send_gate w m = Some (s, r) -> s = Awaiting -> st w = Awaiting.
Proof.
  intros w m s r Hg Hs. unfold send_gate in Hg. destruct (is_disc (st w)); [discriminate|].
  destruct (cstate_eqb (st w) NCE).
  - destruct (mtype_eqb (f_type m) TLogon || mtype_eqb (f_type m) TLogout); inversion Hg; subst; discriminate.
  - destruct (role_eqb (rl w) Initiator && cstate_eqb (st w) LogonSent && negb (mtype_eqb (f_type m) TLogout));
      inversion Hg; subst; assumption.
Qed.

(* an original send under Out_ok: refused (nothing changes) or completed *)
Lemma send_orig_cases : forall m w, own_number m = false -> Out_ok w ->
  (send_msg m w = (inr XConn, w) /\ (send_gate w m = None \/ mtype_eqb (f_type m) TTest = true))
  \/ (exists s r w', send_gate w m = Some (s, r) /\ send_msg m w = (inl tt, w') /\ Rel w w'
                     /\ st w' = s /\ rl w' = r /\ maxres w' = maxres w /\ dlv w' = dlv w /\ nout w' = nout w + 1
                     /\ writes (log w') = writes (log w) ++ [out_frame m (nout w)]).
Proof.
  intros m w Ho Hout.
  destruct (mtype_eqb (f_type m) TTest) eqn:Ht.
  { left. split; auto. apply send_refused; auto. }
  destruct (send_gate w m) as [[s ro]|] eqn:Hg.
  2:{ left. split; auto. apply send_refused; auto. }
  right. exists s, ro.
  rewrite (send_alloc w m s ro Hg Ht Ho).
  destruct Hout as [Hc [Hso [Hrow Hpos]]].
  set (f := out_frame m (nout w)) in *.
  set (W := written w s ro (nout w + 1) f) in *.
  assert (Hjt : jt W = jt w) by apply jt_written.
  assert (Hh : has_out (jt W) (f_seq f) = false).
  { rewrite Hjt. apply has_out_false. exact Hrow. }
  destruct (persist_out_ok f W Hh) as [Hp Hd].
  set (W' := with_log W (log W ++ map EStmt (persist_out_prims f))) in *.
  exists W'. split; [reflexivity|]. split; [exact Hp|].
  assert (HjW' : jt W' = ins_out_tab (jt W) f) by (unfold jt at 1; rewrite Hd; reflexivity).
  rewrite Hjt in HjW'.
  split; [|repeat split; try reflexivity].
  2:{ cbn [W' with_log W written log]. rewrite !writes_app, writes_stmts, app_nil_r. cbn [writes].
      rewrite app_nil_r. reflexivity. }
  constructor.
  - reflexivity.
  - rewrite HjW'. reflexivity.
  - rewrite HjW'. reflexivity.
  - unfold Out_ok, clean. rewrite Hd, HjW'. cbn [committed cur sout rout ins_out_tab nout W' with_log W written f out_frame f_seq].
    repeat split; try lia.
    intros g Hg'. apply in_app_or in Hg'. destruct Hg' as [Hg'|[Hg'|[]]].
    + apply Hrow in Hg'. lia.
    + subst g. cbn. lia.
  - cbn. lia.
  - exists ([EWrite f; EDrain] ++ map EStmt (persist_out_prims f)).
    split; [cbn [W' with_log W written log]; rewrite <- !app_assoc; reflexivity|].
    split; [reflexivity|].
    intros g Hg' Hor. cbn in Hg'. destruct Hg' as [Hg'|[]]. subst g. cbn. lia.
  - reflexivity.
  - reflexivity.
  - reflexivity.
  - unfold AwOk. cbn [st maxres W' with_log W written]. intros Haw Hst. apply Haw.
    eapply gate_awaiting; eauto.
Qed.

Lemma send_orig_rel : forall m w r w', own_number m = false -> Out_ok w ->
  send_msg m w = (r, w') -> Rel w w'.
Proof.
  intros m w r w' Ho Hout Hs.
  destruct (send_orig_cases m w Ho Hout) as [[He _]|(s & ro & W' & _ & He & HR & _)]; rewrite He in Hs; inversion Hs; subst.
  - apply Rel_refl; auto.
  - exact HR.
Qed.

(* ------------------------------------------------------------------ handlers that only send originals *)

Ltac live_tac := repeat split; reflexivity.

Lemma gate_logout : forall w m, is_disc (st w) = false -> f_type m = TLogout -> send_gate w m <> None.
Proof.
  intros w m Hd Ht. unfold send_gate. rewrite Hd, Ht. cbn [mtype_eqb orb negb andb].
  destruct (cstate_eqb (st w) NCE); [discriminate|]. rewrite andb_false_r. discriminate.
Qed.

Lemma Out_ok_live : forall a b, live_eq a b -> Out_ok a -> Out_ok b.
Proof.
  intros a b Hl [Hc [Hs [Hr Hp]]].
  assert (Hdb : db a = db b) by (apply live_eq_db; auto).
  assert (Hj : jt a = jt b) by (unfold jt; rewrite Hdb; reflexivity).
  destruct Hl as (_ & Ho & _). unfold Out_ok, clean. rewrite <- Hj, <- Hdb, <- Ho. auto.
Qed.

Lemma disconnect_rel : forall b w r w', Out_ok w -> disconnect b w = (r, w') -> Rel w w'.
Proof.
  intros b w r w' Hout H. unfold disconnect in H. munfold_in H.
  destruct (is_disc (st w)) eqn:Hd.
  { inversion H; subst. apply Rel_refl; auto. }
  set (w1 := mkW (nin w) (nout w) (st w) (rl w) 0 (dlv w) (ctor w) (base w) (log w) (past w)) in *.
  assert (Hl1 : live_eq w w1) by live_tac.
  assert (Hout1 : Out_ok w1) by (eapply Out_ok_live; eauto).
  destruct b.
  - destruct (send_orig_cases (mkF TLogout 0 false 0 0) w1 eq_refl Hout1)
      as [[He [Hg|Hg]]|(s & ro & W' & Hg & He & HR & Hst & _)].
    + exfalso. revert Hg. apply gate_logout; auto.
    + discriminate.
    + rewrite He in H. inversion H; subst r w'. clear H.
      eapply Rel_frame; [exact HR|exact Hl1|live_tac|].
      intros _ Hs. cbn in Hs. discriminate.
  - inversion H; subst r w'. clear H.
    eapply Rel_frame; [apply (Rel_refl w Hout)|apply live_eq_refl|live_tac|].
    intros _ Hs. cbn in Hs. discriminate.
Qed.

Lemma disconnect_disc : forall b w r w', Out_ok w -> disconnect b w = (r, w') -> r = inl tt /\ is_disc (st w') = true.
Proof.
  intros b w r w' Hout H. unfold disconnect in H. munfold_in H.
  destruct (is_disc (st w)) eqn:Hd.
  { inversion H; subst. auto. }
  set (w1 := mkW (nin w) (nout w) (st w) (rl w) 0 (dlv w) (ctor w) (base w) (log w) (past w)) in *.
  assert (Hl1 : live_eq w w1) by live_tac.
  assert (Hout1 : Out_ok w1) by (eapply Out_ok_live; eauto).
  destruct b.
  - destruct (send_orig_cases (mkF TLogout 0 false 0 0) w1 eq_refl Hout1)
      as [[He [Hg|Hg]]|(s & ro & W' & Hg & He & HR & Hst & _)].
    + exfalso. revert Hg. apply gate_logout; auto.
    + discriminate.
    + rewrite He in H. inversion H; subst r w'. auto.
  - inversion H; subst r w'. auto.
Qed.

Lemma process_logon_rel : forall f w r w', Out_ok w -> process_logon f w = (r, w') -> Rel w w'.
Proof.
  intros f w r w' Hout H. unfold process_logon in H. munfold_in H.
  destruct (role_eqb (rl w) Acceptor).
  - destruct (cstate_eqb (st w) LogonRecv) eqn:Hs.
    2:{ inversion H; subst. apply Rel_refl; auto. }
    destruct (nin w <=? f_seq f).
    + destruct (send_msg (mkF TLogon 0 false 0 0) w) as [[[]|e] w1] eqn:Hsend;
        apply send_orig_rel in Hsend; auto.
      * destruct (f_seq f =? nin w1); inversion H; subst r w'; clear H;
          (eapply Rel_live; [exact Hsend|live_tac|intros _ Hst; cbn in Hst; discriminate]).
      * inversion H; subst. exact Hsend.
    + destruct (f_seq f =? nin w); inversion H; subst r w'; clear H;
        (eapply Rel_live; [apply Rel_refl; auto|live_tac|intros _ Hst; cbn in Hst; discriminate]).
  - destruct (f_seq f =? nin w); inversion H; subst r w'; clear H;
      (eapply Rel_live; [apply Rel_refl; auto|live_tac|intros _ Hst; cbn in Hst; discriminate]).
Qed.

Lemma check_gaps_rel : forall n w r w', Out_ok w -> 0 < nin w -> check_gaps n w = (r, w') -> Rel w w'.
Proof.
  intros n w r w' Hout Hpos H. unfold check_gaps in H. munfold_in H.
  destruct (nin w <? n) eqn:Hlt.
  2:{ inversion H; subst. apply Rel_refl; auto. }
  destruct (cstate_eqb (st w) Awaiting) eqn:Hs.
  { inversion H; subst. apply Rel_refl; auto. }
  set (w1 := mkW (nin w) (nout w) (st w) (rl w) n (dlv w) (ctor w) (base w) (log w) (past w)) in *.
  assert (Hl1 : live_eq w w1) by live_tac.
  assert (Hout1 : Out_ok w1) by (eapply Out_ok_live; eauto).
  assert (Hst1 : st w1 <> Awaiting).
  { cbn. intro E. rewrite E in Hs. discriminate. }
  destruct (send_orig_cases (mkF TResend 0 false (nin w) 0) w1 eq_refl Hout1)
    as [[He _]|(s & ro & W' & Hg & He & HR & Hst & _ & Hmax & _)]; rewrite He in H; inversion H; subst r w'; clear H.
  - eapply Rel_frame; [apply (Rel_refl w Hout)|apply live_eq_refl|exact Hl1|].
    intros _ E. contradiction.
  - eapply Rel_frame; [exact HR|exact Hl1|live_tac|].
    intros _ _. cbn [maxres]. rewrite Hmax. cbn. lia.
Qed.

(* combinators: a computation that only makes Rel-steps *)
Definition RelM {A} (m : M A) : Prop :=
  forall w r w', Out_ok w -> 0 < nin w -> m w = (r, w') -> Rel w w'.

Lemma RelM_ret : forall A (a : A), RelM (ret a).
Proof. intros A a w r w' Ho Hp H. inversion H; subst. apply Rel_refl; auto. Qed.

Lemma RelM_raise : forall A e, RelM (@raise A e).
Proof. intros A e w r w' Ho Hp H. inversion H; subst. apply Rel_refl; auto. Qed.

Lemma RelM_get : RelM get.
Proof. intros w r w' Ho Hp H. inversion H; subst. apply Rel_refl; auto. Qed.

Lemma RelM_bind : forall A B (m : M A) (k : A -> M B), RelM m -> (forall a, RelM (k a)) -> RelM (bind m k).
Proof.
  intros A B m k Hm Hk w r w' Ho Hp H. unfold bind in H.
  destruct (m w) as [[a|e] w1] eqn:E.
  - specialize (Hm _ _ _ Ho Hp E).
    eapply Rel_trans; [exact Hm|]. eapply Hk; [apply Hm|rewrite (r_nin _ _ Hm); auto|exact H].
  - inversion H; subst. eapply Hm; eauto.
Qed.

Lemma RelM_catch : forall A (m : M A), RelM m -> RelM (catch m).
Proof.
  intros A m Hm w r w' Ho Hp H. unfold catch in H. destruct (m w) as [x w1] eqn:E.
  inversion H; subst. eapply Hm; eauto.
Qed.

Lemma RelM_assert : forall b, RelM (assert_ b).
Proof. intros []; [apply RelM_ret|apply RelM_raise]. Qed.

Lemma RelM_set_st : forall s, s <> Awaiting -> RelM (set_st s).
Proof.
  intros s Hs w r w' Ho Hp H. unfold set_st, upd in H. inversion H; subst.
  eapply Rel_live; [apply Rel_refl; auto|live_tac|]. intros _ E. cbn in E. contradiction.
Qed.

Lemma RelM_set_rl : forall x, RelM (set_rl x).
Proof.
  intros x w r w' Ho Hp H. unfold set_rl, upd in H. inversion H; subst.
  eapply Rel_live; [apply Rel_refl; auto|live_tac|]. intros E. exact E.
Qed.

Lemma RelM_deliver : forall n, RelM (deliver n).
Proof.
  intros n w r w' Ho Hp H. unfold deliver, upd in H. inversion H; subst.
  eapply Rel_live; [apply Rel_refl; auto|live_tac|]. intros E. exact E.
Qed.

Lemma RelM_send : forall m, own_number m = false -> RelM (send_msg m).
Proof. intros m Hm w r w' Ho Hp H. eapply send_orig_rel; eauto. Qed.

Lemma RelM_disconnect : forall b, RelM (disconnect b).
Proof. intros b w r w' Ho Hp H. eapply disconnect_rel; eauto. Qed.

Lemma RelM_check_gaps : forall n, RelM (check_gaps n).
Proof. intros n w r w' Ho Hp H. eapply check_gaps_rel; eauto. Qed.

Ltac relm :=
  repeat first
    [ apply RelM_ret | apply RelM_raise | apply RelM_get | apply RelM_assert | apply RelM_set_rl
    | apply RelM_deliver | apply RelM_disconnect | apply RelM_check_gaps
    | apply RelM_set_st; discriminate
    | apply RelM_send; reflexivity
    | apply RelM_catch
    | apply RelM_bind; [|intro]
    | match goal with
      | |- RelM (if ?c then _ else _) => destruct c
      | |- RelM (match ?x with _ => _ end) => destruct x
      end ].

Lemma RelM_process_logon : forall f, RelM (process_logon f).
Proof. intros f. unfold process_logon. relm. Qed.

Lemma RelM_pm_head : forall f, mtype_eqb (f_type f) TSeqReset = false -> RelM (pm_head f).
Proof.
  intros f Hf. unfold pm_head, process_logout. destruct (f_type f) eqn:Ht; try discriminate;
    relm; try apply RelM_process_logon; relm.
Qed.

Lemma RelM_pm_dispatch : forall f v, mtype_eqb (f_type f) TResend = false -> RelM (pm_dispatch f v).
Proof.
  intros f v Hf. unfold pm_dispatch. destruct (f_type f) eqn:Ht; try discriminate; relm.
Qed.

(* ------------------------------------------------------------------ operation-level step relation *)

Record Step (w w' : world) : Prop := mkStep {
  s_inv : Inv w';
  s_mono : nout w <= nout w';
  s_log : exists l, log w' = log w ++ l
                    /\ (forall f, In f (writes l) -> original f = true -> nout w <= f_seq f < nout w');
  s_base : base w' = base w;
  s_past : past w' = past w;
  s_ctor : ctor w' = ctor w
}.

Lemma Step_refl : forall w, Inv w -> Step w w.
Proof.
  intros w H. constructor; auto; try lia. exists []. rewrite app_nil_r. split; auto.
  intros f Hf. cbn in Hf. contradiction.
Qed.

Lemma Step_trans : forall a b c, Step a b -> Step b c -> Step a c.
Proof.
  intros a b c [i1 m1 [l1 [L1 W1]] b1 p1 c1] [i2 m2 [l2 [L2 W2]] b2 p2 c2].
  constructor; try congruence; try lia; auto.
  exists (l1 ++ l2). rewrite L2, L1, app_assoc. split; [reflexivity|].
  intros f Hf Ho. rewrite writes_app in Hf. apply in_app_or in Hf. destruct Hf as [Hf|Hf].
  - specialize (W1 f Hf Ho). lia.
  - specialize (W2 f Hf Ho). lia.
Qed.

Lemma Rel_Step : forall w w', Inv w -> Rel w w' -> Step w w'.
Proof.
  intros w w' (Ho & (Hs & Hr & Hp) & Ha) [n1 s1 i1 o1 m1 [l [L [C W]]] b1 p1 c1 a1].
  constructor; auto.
  - split; [exact o1|]. split; [|auto].
    unfold In_ok. rewrite s1, i1, n1. auto.
  - exists l. auto.
Qed.

Lemma Out_ok_ext : forall a b, nout a = nout b -> base a = base b -> log a = log b -> Out_ok a -> Out_ok b.
Proof.
  intros a b Hn Hb Hl [Hc [Hs [Hr Hp]]].
  assert (Hdb : db a = db b) by (unfold db; rewrite Hb, Hl; reflexivity).
  assert (Hj : jt a = jt b) by (unfold jt; rewrite Hdb; reflexivity).
  unfold Out_ok, clean. rewrite <- Hj, <- Hdb, <- Hn. auto.
Qed.

(* the journal write of an accepted inbound frame numbered n, live counter already n + 1 *)
Lemma persist_in_inv : forall W n r W', Out_ok W -> sin (jt W) + 1 = n -> (forall k, In k (rin (jt W)) -> k < n) ->
  0 < n -> nin W = n + 1 -> AwOk W -> persist_in n W = (r, W') ->
  Inv W' /\ r = inl tt /\ nout W' = nout W /\ log W' = log W ++ map EStmt (persist_in_prims n)
  /\ base W' = base W /\ past W' = past W /\ ctor W' = ctor W /\ nin W' = n + 1 /\ st W' = st W.
Proof.
  intros W n r W' [Hc [Hs [Hr Hp]]] Hsin Hrin Hn Hnin Ha H.
  assert (Hh : has_in (jt W) n = false) by (apply has_in_false; auto).
  destruct (persist_in_ok n W Hh) as [He Hd].
  set (W2 := with_log W (log W ++ map EStmt (persist_in_prims n))) in *.
  rewrite He in H. inversion H; subst r W'. clear H. rename W2 into W'.
  assert (Hj : jt W' = ins_in_tab (jt W) n) by (unfold jt at 1; rewrite Hd; reflexivity).
  repeat split; try reflexivity; auto.
  - unfold clean. rewrite Hd. reflexivity.
  - rewrite Hj. exact Hs.
  - rewrite Hj. exact Hr.
  - rewrite Hj. cbn [sin ins_in_tab nin W' with_log]. lia.
  - rewrite Hj. cbn [rin ins_in_tab nin W' with_log]. intros k Hk. apply in_app_or in Hk.
    destruct Hk as [Hk|[Hk|[]]]; [apply Hrin in Hk; lia|lia].
  - cbn [nin W' with_log]. lia.
Qed.

Lemma finalize_step : forall f w r w', mtype_eqb (f_type f) TSeqReset = false -> Inv w ->
  finalize f w = (r, w') ->
  Step w w' /\ nout w' = nout w /\ (exists l, log w' = log w ++ l /\ writes l = [] /\ count_both l = O).
Proof.
  intros f w r w' Hty HI H. pose proof HI as (Ho & (Hs & Hr & Hp) & Ha).
  unfold finalize in H. rewrite Hty in H. munfold_in H.
  destruct (f_seq f =? nin w) eqn:Heq.
  2:{ cbn in H. inversion H; subst. split; [apply Step_refl; auto|]. split; auto.
      exists []. rewrite app_nil_r. auto. }
  assert (Hfn : f_seq f = nin w) by lia.
  destruct (f_seq f <=? 0) eqn:Hle; [lia|].
  cbn [st maxres nin nout rl dlv ctor base log past] in H.
  assert (Hgen : forall W, nout W = nout w -> base W = base w -> log W = log w -> past W = past w -> ctor W = ctor w ->
                 nin W = f_seq f + 1 -> AwOk W -> persist_in (f_seq f) W = (r, w') ->
                 Step w w' /\ nout w' = nout w /\ (exists l, log w' = log w ++ l /\ writes l = [] /\ count_both l = O)).
  { intros W Hn Hb Hl Hpa Hc Hni HaW HP.
    assert (HoW : Out_ok W) by (eapply Out_ok_ext; [| | |exact Ho]; auto).
    assert (HjW : jt W = jt w) by (unfold jt, db; rewrite Hb, Hl; reflexivity).
    destruct (persist_in_inv W (f_seq f) r w' HoW) as (I' & _ & N' & L' & B' & P' & C' & _); auto.
    - rewrite HjW. lia.
    - rewrite HjW. intros k Hk. apply Hr in Hk. lia.
    - lia.
    - split; [|split].
      + constructor; try congruence; try lia.
        exists (map EStmt (persist_in_prims (f_seq f))). rewrite L', Hl. split; [reflexivity|].
        rewrite writes_stmts. intros g Hg. contradiction.
      + congruence.
      + exists (map EStmt (persist_in_prims (f_seq f))). rewrite L', Hl. rewrite writes_stmts. auto. }
  destruct (cstate_eqb (st w) Awaiting) eqn:Hst.
  - assert (Hmx : 0 < maxres w). { apply Ha. destruct (st w); try discriminate; reflexivity. }
    assert (Hmb : (0 <? maxres w) = true) by lia. rewrite Hmb in H.
    destruct (maxres w <=? f_seq f).
    + eapply Hgen; [| | | | | | |exact H]; try reflexivity. unfold AwOk. cbn. discriminate.
    + eapply Hgen; [| | | | | | |exact H]; try reflexivity. unfold AwOk. cbn. auto.
  - eapply Hgen; [| | | | | | |exact H]; try reflexivity. unfold AwOk. cbn. intro E. rewrite E in Hst. discriminate.
Qed.

Lemma Inv_Out : forall w, Inv w -> Out_ok w. Proof. intros w H; apply H. Qed.
Lemma Inv_nin : forall w, Inv w -> 0 < nin w. Proof. intros w (_ & (_ & _ & H) & _); exact H. Qed.

Lemma pm_plain_step : forall f w r w',
  mtype_eqb (f_type f) TSeqReset = false -> mtype_eqb (f_type f) TResend = false -> Inv w ->
  process_message f w = (r, w') -> Step w w'.
Proof.
  intros f w r w' Hs Hr HI H. unfold process_message in H.
  cbv beta iota delta [bind get] in H.
  destruct (too_low f w).
  { apply Rel_Step; auto. eapply disconnect_rel; eauto using Inv_Out. }
  unfold catch at 1 in H.
  destruct (pm_head f w) as [h w1] eqn:Eh.
  assert (R1 : Rel w w1) by (eapply RelM_pm_head; eauto using Inv_Out, Inv_nin).
  destruct h as [[v|]|e]; try (inversion H; subst; apply Rel_Step; auto; fail).
  unfold catch in H.
  destruct (pm_dispatch f v w1) as [d w2] eqn:Ed.
  assert (R2 : Rel w1 w2).
  { eapply RelM_pm_dispatch; eauto; [apply R1|rewrite (r_nin _ _ R1); eauto using Inv_nin]. }
  assert (S2 : Step w w2) by (apply Rel_Step; auto; eapply Rel_trans; eauto).
  destruct v.
  - destruct (finalize_step f w2 r w' Hs (s_inv _ _ S2) H) as [S3 _].
    eapply Step_trans; eauto.
  - unfold ret in H. inversion H; subst. exact S2.
Qed.

(* ------------------------------------------------------------------ inbound SequenceReset *)

Lemma jt_set_world : forall w i o, jt (set_world w i o) = set_tab (jt w) i o.
Proof. intros. unfold jt at 1. rewrite db_set_world. reflexivity. Qed.

Lemma set_world_in_inv : forall w i, Out_ok w -> AwOk w -> 0 < i ->
  Inv (set_world w i (nout w)) /\ (forall k, In k (rin (jt (set_world w i (nout w)))) -> k < i).
Proof.
  intros w i (Hc & Hs & Hr & Hp) Ha Hi.
  assert (Hk : forall k, In k (rin (jt (set_world w i (nout w)))) -> k < i).
  { rewrite jt_set_world. cbn [rin set_tab]. intros k Hk. apply filter_In in Hk. destruct Hk as [_ Hk]. lia. }
  split; [|exact Hk].
  split; [|split].
  - unfold Out_ok, clean. rewrite db_set_world, jt_set_world. cbn [committed cur sout rout set_tab nout set_world].
    repeat split; try lia. intros g Hg. apply filter_In in Hg. destruct Hg as [_ Hg]. lia.
  - unfold In_ok. rewrite jt_set_world in *. cbn [sin set_tab nin set_world]. repeat split; try lia. exact Hk.
  - exact Ha.
Qed.

Lemma set_world_out_inv : forall w o, clean w -> In_ok w -> AwOk w -> 0 < o ->
  Inv (set_world w (nin w) o).
Proof.
  intros w o Hc (Hs & Hr & Hp) Ha Ho.
  split; [|split].
  - unfold Out_ok, clean. rewrite db_set_world, jt_set_world. cbn [committed cur sout rout set_tab nout set_world].
    repeat split; try lia. intros g Hg. apply filter_In in Hg. destruct Hg as [_ Hg]. lia.
  - unfold In_ok. rewrite jt_set_world. cbn [sin rin set_tab nin set_world]. repeat split; try lia.
    intros k Hk. apply filter_In in Hk. destruct Hk as [Hk _]. auto.
  - exact Ha.
Qed.

Lemma check_gaps_val : forall n w v w', check_gaps n w = (inl v, w') -> v = negb (nin w <? n).
Proof.
  intros n w v w' H. unfold check_gaps in H. munfold_in H.
  destruct (nin w <? n); [|inversion H; reflexivity].
  destruct (cstate_eqb (st w) Awaiting); [inversion H; reflexivity|].
  match type of H with (let (_, _) := ?X in _) = _ => destruct X as [[[]|e] w1] end; inversion H; reflexivity.
Qed.

Definition seqreset_lag (f : frame) : bool :=
  (0 <? f_seq f) && (f_seq f <=? f_a f) && (1 <? f_a f) && negb (f_seq f + 1 =? f_a f).

(* a world that differs from w only by effects without transport writes and with the same outbound counter *)
Lemma Step_quiet : forall w w' l, Inv w' -> nout w' = nout w -> log w' = log w ++ l -> writes l = [] ->
  base w' = base w -> past w' = past w -> ctor w' = ctor w -> Step w w'.
Proof.
  intros w w' l HI Hn Hl Hw Hb Hp Hc. constructor; auto; try lia.
  exists l. split; auto. rewrite Hw. intros f Hf. contradiction.
Qed.

Lemma process_seqreset_cases : forall f w, Inv w ->
  let s := f_seq f in let n := f_a f in
  process_seqreset f w =
    if 0 <? s then
      if 0 <? n then (inl tt, set_world (set_world w s (nout w)) n (nout w))
      else (inr XAssert, set_world w s (nout w))
    else (inr XAssert, w).
Proof.
  intros f w HI s n. unfold process_seqreset, bind. rewrite set_seq_num_in. fold s.
  destruct (0 <? s); [|reflexivity].
  rewrite set_seq_num_in. fold n. destruct (0 <? n); reflexivity.
Qed.
