"""C02 - every frame put on the wire is a well-formed FIX frame.

Correspondence: encoder output (code points) vs the extracted model; the bytes a connection
hands to its transport (real send_msg through a recording writer) vs latin-1 of the encoder
output (text without a single-byte form must be refused, nothing written).  Oracle: the independent reference framer codec_common.well_framed (written from the FIX
specification, shares nothing with the codec) must accept every transmitted byte string."""
import asyncio
import json
import logging

from harness import codec_common as cc

META = {
    "level": "proof",
    "tables": ["GenGroups", "GenEnums"],
    "files": ["asyncfix/codec.py", "asyncfix/connection.py"],
    "rule": "messages as in C01 plus values with non-ASCII code points (latin-1 high bytes, BMP and astral characters); every 8th case is sent through the real "
            "send_msg of an ACTIVE connection with a recording writer; non-trivial = frame with a repeating group or a non-ASCII value; distinct by canonical message",
    "trusted_base": ["reference framer harness/codec_common.py:well_framed (Python twin of Fix/Framing.v)"],
    "assumptions": ["frames emitted during session histories are also checked by the C04/C05/C06/C11 harnesses through the same well_framed oracle"],
}


def spice_nonascii(rng, m):
    body = []
    for k, v in m[1]:
        if v[0] == 0 and rng.random() < 0.4:
            s = cc.txt(v[1]) + rng.choice(["\xe9", "\xff", "€", "Жx", "\U0001f600", "\x80"])
            v = [0, cc.cp(s)]
        body.append([k, v])
    return [m[0], body]


def ascii_only(m):
    def val(v):
        if v[0] == 0:
            return [0, [c if c < 128 else 63 for c in v[1]]]
        if v[0] == 1:
            return [1, [[[k, val(x)] for k, x in it] for it in v[1]]]
        return v
    return [m[0], [[k, val(v)] for k, v in m[1]]]


class Writer:
    def __init__(self):
        self.out = []

    def write(self, b):
        self.out.append(bytes(b))

    async def drain(self):
        pass

    def close(self):
        pass

    async def wait_closed(self):
        pass


def send_through_connection(msgs):
    """real send_msg on an ACTIVE connection; returns list of (exception class | None, bytes written)"""
    from asyncfix.connection import AsyncFIXConnection, ConnectionState
    from asyncfix.journaler import Journaler
    from asyncfix.protocol import FIXProtocol44

    cc.codec()  # patches current_datetime

    async def main():
        log = logging.getLogger("verif-c02")
        log.handlers[:] = [logging.NullHandler()]
        log.propagate = False
        c = AsyncFIXConnection(FIXProtocol44(), "SND", "TGT", Journaler(), "localhost", 0, logger=log)
        c._connection_state = ConnectionState.ACTIVE
        w = Writer()
        c._socket_writer = w
        c._socket_reader = object()
        res = []
        for m in msgs:
            w.out.clear()
            nout = c._session.next_num_out
            try:
                await c.send_msg(cc.build_message(m))
                res.append((None, list(w.out), nout))
            except Exception as e:
                res.append((type(e).__name__, list(w.out), nout))
        return res

    return asyncio.run(asyncio.wait_for(main(), 60))


def check_frame(ctx, case, wire, frame_cp):
    why = cc.well_framed(wire)
    if why:
        ctx.fail(case, "transmitted bytes are not a well-formed frame: %s" % why, None)


def run(ctx):
    logging.disable(logging.CRITICAL)
    rng = ctx.rng
    n = ctx.scale(2500, 50000)
    cases = []
    for i in range(n):
        m = cc.gen_wf_message(rng, marker_ok=rng.random() < 0.1) if rng.random() < 0.85 else cc.gen_any_message(rng)
        if rng.random() < 0.25:
            m = spice_nonascii(rng, m)
        elif rng.random() < 0.8:
            m = ascii_only(m)
        if cc.txt(m[0]) == "4":
            m = [cc.cp("D"), m[1]]
        cases.append(m)
    encs = []
    for m in cases:
        nout = rng.choice([1, 9, 100, 99999])
        enc = cc.impl_encode(m, "SND", "TGT", nout, False)
        encs.append((nout, enc))
        if enc[0] == 2:
            continue
        nonascii = enc[0] == 0 and any(c >= 128 for c in enc[1])
        ctx.case(m, enc[0] == 0 and (nonascii or any(kv[1][0] == 1 for kv in m[1])),
                 sample={"frame": cc.txt(enc[1])} if (enc[0] == 0 and len(ctx.samples) < 3) else None)
        ctx.count("nonascii" if nonascii else "ascii")
        ctx.count("enc-ok" if enc[0] == 0 else "enc-exc-%s" % enc[1])
        if enc[0] == 0:
            try:
                wire = cc.txt(enc[1]).encode("latin-1")     # what send_msg hands to the transport
            except UnicodeEncodeError:
                ctx.count("refused-not-single-byte")
                continue
            check_frame(ctx, {"message": m, "next_out": nout}, wire, enc[1])
    # through the real send_msg
    big = []
    for k in range(4):      # frames well above any transport chunk size must still be handed over as one frame
        m = ascii_only(cc.gen_wf_message(rng))
        if cc.txt(m[0]) in ("4", "1"):
            m = [cc.cp("D"), m[1]]
        m = [m[0], [kv for kv in m[1] if cc.txt(kv[0]) != "58"] + [[cc.cp("58"), [0, cc.cp("x" * rng.choice([4090, 5000, 9000, 70000]))]]]]
        big.append(m)
    sub = big + [m for m in cases[::8] if cc.impl_encode(m, "S", "T", 1, False)[0] != 2 and not any(cc.txt(k) in ("34", "43") for k, _ in m[1])
           and cc.txt(m[0]) not in ("1",)]
    for m, (exc, written, nout) in zip(sub, send_through_connection(sub)):
        ctx.traces += 1
        ctx.count("send_msg-" + (exc or "ok"))
        want = cc.impl_encode(m, "SND", "TGT", nout, False)
        if exc is None:
            if len(written) != 1 or want[0] != 0 or any(c > 255 for c in want[1]) or written[0] != cc.txt(want[1]).encode("latin-1"):
                ctx.disagree({"message": m}, [w.hex() for w in written], want[:1], "send_msg-bytes-vs-encoder")
            for w in written:
                check_frame(ctx, {"message": m, "via": "send_msg"}, w, want[1] if want[0] == 0 else [])
        else:
            if written:
                ctx.fail({"message": m, "via": "send_msg"}, "send_msg raised %s after writing bytes" % exc)
            if exc == "UnicodeEncodeError" and not (want[0] == 0 and any(c > 255 for c in want[1])):
                ctx.disagree({"message": m}, exc, "representable frame", "send_msg-refusal")
    if ctx.model:
        live = [(m, e) for m, e in zip(cases, encs) if e[1][0] != 2]
        out = ctx.model.batch([cc.req_encode(m, "SND", "TGT", e[0], False) for m, e in live])
        for (m, e), mo in zip(live, out):
            if e[1] != mo:
                ctx.disagree({"message": m, "next_out": e[0]}, str(e[1])[:300], str(mo)[:300], "encode")


def search(ctx, cases):
    import random
    logging.disable(logging.CRITICAL)
    rng = random.Random(ctx.seed + 3)
    for _ in range(ctx.scale(5000, 50000)):
        m = cc.gen_wf_message(rng)
        if cc.txt(m[0]) == "4":
            continue
        enc = cc.impl_encode(m, "SND", "TGT", rng.randrange(1, 10 ** 6), False)
        if enc[0] == 0:
            check_frame(ctx, {"message": m}, cc.txt(enc[1]).encode("latin-1", "replace"), enc[1])
        if ctx.failures:
            return


def replay(path):
    rec = json.load(open(path))
    c = rec.get("input")
    if not c or "message" not in c:
        print("replay: no concrete message; broken:", rec.get("broken"))
        return 1
    enc = cc.impl_encode(c["message"], "SND", "TGT", c.get("next_out", 1), False)
    if enc[0] != 0:
        print("encoder refused:", enc)
        return 0
    try:
        wire = cc.txt(enc[1]).encode("latin-1")
    except UnicodeEncodeError:
        print("refused: not representable in single bytes")
        return 0
    why = cc.well_framed(wire)
    print("wire:", wire, "\nreference framer:", why or "accepts")
    return 1 if why else 0
