(* ValidateValue: executable MODEL of asyncfix/protocol/schema.py : SchemaField.validate_value and its helpers
   _validate_value_number / _str / _datetime / _monthyear / _validate_special_cases, as patched by
   fixes/C19-strict-lexical.patch (strict ASCII layout checks, empty value -> FIXMessageError,
   MULTIPLEVALUESTRING dispatched, ASCII-only alphanumeric codes).  It follows the Python top to bottom; it does
   not use Fix/Lex.v.  No proofs here.

   How CPython's parsers are modelled (the trusted part, exercised by harness/c19.py):
   * int(value) is Py/Str.py_int (white space, sign, underscores, 4300 digit limit).  py_int is exact for
     code points < 256; for other strings it may answer None where int() converts (non-ASCII digits), but
     every such string fails the layout check that follows, and both outcomes produce an error text.
   * float(value), datetime.strptime(value, format) are modelled only on the strings of the strict layout
     (re.fullmatch(_FIX_LAYOUT[..], value)); outside it the model answers "error" at once: in the Python
     the parser either raises (ValueError -> error text) or returns and the layout check gives the error text.
     On layout strings float() cannot raise, and its result is infinite exactly when the decimal value is
     >= 2^1024 - 2^970 (round-half-even); strptime's directive regexes reduce to range checks on the
     fixed-width fields and the datetime constructor adds year >= 1, the day of month and second <= 59.
   * an error is a non-empty text (None otherwise): modelled as bool (true = error). *)
From Coq Require Import ZArith NArith List Bool.
From AF Require Import Base.Sx Py.Str.
Import ListNotations.
Open Scope N_scope.

Inductive exc := EFIXMessageError | EAssertionError | EValueError.
(* Accept w: returns True; w = the "Unsupported datatype" warning was issued *)
Inductive result := Accept (warned : bool) | Raise (e : exc).

Record field := mkField { f_tag : str; f_type : str; f_values : list str }.   (* values: keys of the dict, in order *)

Definition is_nil {A} (l : list A) : bool := match l with [] => true | _ => false end.
Definition in_str (c : N) (s : str) : bool := existsb (N.eqb c) s.              (* "c" in s *)
Definition mem_str (s : str) (l : list str) : bool := existsb (str_eqb s) l.     (* s in l *)

(* str.upper() on ASCII *)
Definition upper (s : str) : str := map (fun c => if (97 <=? c) && (c <=? 122) then c - 32 else c) s.

(* ------------------------------------------------------------------ _FIX_LAYOUT and re.fullmatch *)
Definition re_digit (c : N) : bool := (48 <=? c) && (c <=? 57).                  (* [0-9] *)
Definition opt_minus (s : str) : str := match s with 45 :: r => r | _ => s end.  (* -? *)
Fixpoint span_digits (s : str) : str * str :=                                    (* greedy [0-9]* *)
  match s with
  | c :: r => if re_digit c then let (a, b) := span_digits r in (c :: a, b) else ([], s)
  | [] => ([], [])
  end.

(* int:  -?[0-9]+ *)
Definition layout_int (s : str) : bool :=
  let b := opt_minus s in negb (is_nil b) && forallb re_digit b.

(* float:  -?([0-9]+\.?[0-9]*|\.[0-9]+)   and the digits it matched: (integer part, fraction part) *)
Definition layout_float_parts (s : str) : option (str * str) :=
  let (ip, rest) := span_digits (opt_minus s) in
  match ip, rest with
  | _ :: _, [] => Some (ip, [])
  | _ :: _, c :: fp => if (c =? 46) && forallb re_digit fp then Some (ip, fp) else None
  | [], c :: fp => if (c =? 46) && negb (is_nil fp) && forallb re_digit fp then Some ([], fp) else None
  | [], [] => None
  end.

(* the date / time layouts are fixed-width: a sequence of character classes, [0-9] or one literal character *)
Inductive pc := PD | PC (c : N).
Definition pc_ok (p : pc) (x : N) : bool := match p with PD => re_digit x | PC c => x =? c end.
Fixpoint matches (p : list pc) (s : str) : bool :=                               (* re.fullmatch of such a sequence *)
  match p, s with
  | [], [] => true
  | q :: p', x :: s' => pc_ok q x && matches p' s'
  | _, _ => false
  end.
Definition P_Ym : list pc := [PD; PD; PD; PD; PD; PD].                           (* [0-9]{6} *)
Definition P_Ymd : list pc := P_Ym ++ [PD; PD].                                  (* [0-9]{8} *)
Definition P_HMS : list pc := [PD; PD; PC 58; PD; PD; PC 58; PD; PD].            (* _HMS = [0-9]{2}:[0-9]{2}:[0-9]{2} *)
Definition P_F3 : list pc := [PC 46; PD; PD; PD].                                (* \.[0-9]{3} *)
Definition P_F6 : list pc := P_F3 ++ [PD; PD; PD].                               (* \.[0-9]{3}([0-9]{3})?  second alternative *)

Inductive dfmt := F_Ym | F_Ymd | F_HMS | F_YmdHMS.         (* "%Y%m"  "%Y%m%d"  "%H:%M:%S"  "%Y%m%d-%H:%M:%S" *)
Definition has_S (f : dfmt) : bool := match f with F_HMS | F_YmdHMS => true | _ => false end.   (* "%S" in format *)

(* re.fullmatch(_FIX_LAYOUT[format (+ ".%f" when frac)], value) *)
Definition layout (f : dfmt) (frac : bool) (s : str) : bool :=
  let base := match f with
              | F_Ym => P_Ym | F_Ymd => P_Ymd | F_HMS => P_HMS
              | F_YmdHMS => P_Ymd ++ [PC 45] ++ P_HMS
              end in
  if frac then matches (base ++ P_F3) s || matches (base ++ P_F6) s else matches base s.

Definition dec_digits (s : str) : N := fold_left (fun a c => 10 * a + (c - 48)) s 0.   (* int() of ASCII digits *)

(* what strptime extracts from a layout string: fields absent from the format keep the defaults 1900-01-01 00:00:00
   (the microsecond value of %f is never out of range) *)
Record parts := mkParts { pY : N; pm : N; pd : N; pH : N; pM : N; pS : N }.
Definition field_at (i n : nat) (s : str) : N := dec_digits (firstn n (skipn i s)).
Definition fields (f : dfmt) (s : str) : parts :=
  match f with
  | F_Ym => mkParts (field_at 0 4 s) (field_at 4 2 s) 1 0 0 0
  | F_Ymd => mkParts (field_at 0 4 s) (field_at 4 2 s) (field_at 6 2 s) 0 0 0
  | F_HMS => mkParts 1900 1 1 (field_at 0 2 s) (field_at 3 2 s) (field_at 6 2 s)
  | F_YmdHMS => mkParts (field_at 0 4 s) (field_at 4 2 s) (field_at 6 2 s)
                        (field_at 9 2 s) (field_at 12 2 s) (field_at 15 2 s)
  end.

(* the directive regexes of _strptime on two-digit fields: %m 1[0-2]|0[1-9], %d 3[01]|[12]\d|0[1-9],
   %H 2[0-3]|[0-1]\d, %M [0-5]\d, %S 6[0-1]|[0-5]\d (the one-digit alternatives cannot complete a match of a
   layout string) *)
Definition regex_date (p : parts) : bool := (1 <=? pm p) && (pm p <=? 12) && (1 <=? pd p) && (pd p <=? 31).
Definition regex_time (p : parts) : bool := (pH p <=? 23) && (pM p <=? 59) && (pS p <=? 61).
Definition strptime_regex_ok (p : parts) : bool := regex_date p && regex_time p.

(* datetime.datetime(Y, m, d, H, M, S, us): _check_date_fields, _check_time_fields *)
Definition py_is_leap (y : N) : bool := (y mod 4 =? 0) && (negb (y mod 100 =? 0) || (y mod 400 =? 0)).
Definition DAYS_IN_MONTH : list N := [0; 31; 28; 31; 30; 31; 30; 31; 31; 30; 31; 30; 31].
Definition py_days_in_month (y m : N) : N :=
  if (m =? 2) && py_is_leap y then 29 else nth (N.to_nat m) DAYS_IN_MONTH 0.
Definition check_date_fields (p : parts) : bool :=
  (1 <=? pY p) && (pY p <=? 9999) && (1 <=? pm p) && (pm p <=? 12)
  && (1 <=? pd p) && (pd p <=? py_days_in_month (pY p) (pm p)).
Definition check_time_fields (p : parts) : bool := (pH p <=? 23) && (pM p <=? 59) && (pS p <=? 59).
Definition datetime_ok (p : parts) : bool := check_date_fields p && check_time_fields p.

(* ------------------------------------------------------------------ _validate_value_datetime(value, format) *)
Definition validate_datetime (f : dfmt) (s : str) : bool :=
  let frac := in_str 46 s && has_S f in        (* "." in value and "%S" in format and "%f" not in format *)
  if layout f frac s then
    let p := fields f s in negb (strptime_regex_ok p && datetime_ok p)      (* ValueError of strptime / datetime *)
  else true                                    (* strptime raised, or the layout check refused its result *)
.

(* ------------------------------------------------------------------ _validate_value_monthyear(value) *)
Definition WEEKS : list str := [[119; 49]; [119; 50]; [119; 51]; [119; 52]; [119; 53]].   (* w1 .. w5 *)
Definition validate_monthyear (s : str) : bool :=
  if in_str 119 s then
    let week := skipn (length s - 2) s in                       (* value[-2:] *)
    if negb (mem_str week WEEKS) then true
    else
      let v := firstn (length s - 2) s in                       (* value[:-2] *)
      if negb (length v =? 6)%nat then true else validate_datetime F_Ym v
  else if (length s =? 6)%nat then validate_datetime F_Ym s
  else validate_datetime F_Ymd s.

(* ------------------------------------------------------------------ _validate_value_str(value, max_len, subset, alpha_num) *)
Definition re_alnum (c : N) : bool :=                                           (* complement of [^0-9A-Za-z] *)
  re_digit c || ((65 <=? c) && (c <=? 90)) || ((97 <=? c) && (c <=? 122)).
Definition validate_str (max_len : option nat) (subset : option (list str)) (alpha_num : bool) (s : str) : bool :=
  if in_str 1 s then true
  else if in_str 61 s then true
  else if match max_len with Some n => (n <? length s)%nat | None => false end then true
  else if match subset with Some l => negb (mem_str s l) | None => false end then true
  else if alpha_num && existsb (fun c => negb (re_alnum c)) s then true
  else false.

(* ------------------------------------------------------------------ _validate_value_number(value, int, ...) *)
Definition validate_int (no_zero no_negative : bool) (num_range : option (Z * Z)) (s : str) : bool :=
  match py_int s with
  | None => true                                                (* ValueError *)
  | Some v =>
      if no_zero && (v =? 0)%Z then true
      else if no_negative && (v <? 0)%Z then true
      else if match num_range with Some (lo, hi) => negb ((lo <=? v)%Z && (v <=? hi)%Z) | None => false end then true
      else negb (layout_int s)
  end.

(* _validate_value_number(value, float, no_nonfinite=True) *)
Definition FLOAT_OVERFLOW : N := 2 ^ 1024 - 2 ^ 970.
Definition float_is_finite (ip fp : str) : bool :=
  dec_digits (ip ++ fp) <? FLOAT_OVERFLOW * 10 ^ N.of_nat (length fp).
Definition validate_float (s : str) : bool :=
  match layout_float_parts s with
  | None => true                                  (* float() raised, or the layout check refused its result *)
  | Some (ip, fp) => negb (float_is_finite ip fp) (* "not isfinite number" *)
  end.

(* ------------------------------------------------------------------ the type dispatch of validate_value *)
Definition T (l : list N) : str := l.
Definition n_INT := T [73;78;84].
Definition n_SEQNUM := T [83;69;81;78;85;77].
Definition n_NUMINGROUP := T [78;85;77;73;78;71;82;79;85;80].
Definition n_DAYOFMONTH := T [68;65;89;79;70;77;79;78;84;72].
Definition n_FLOAT := T [70;76;79;65;84].
Definition n_QTY := T [81;84;89].
Definition n_PRICE := T [80;82;73;67;69].
Definition n_PRICEOFFSET := T [80;82;73;67;69;79;70;70;83;69;84].
Definition n_AMT := T [65;77;84].
Definition n_PERCENTAGE := T [80;69;82;67;69;78;84;65;71;69].
Definition n_STRING := T [83;84;82;73;78;71].
Definition n_MULTIPLESTRINGVALUE := T [77;85;76;84;73;80;76;69;83;84;82;73;78;71;86;65;76;85;69].
Definition n_MULTIPLEVALUESTRING := T [77;85;76;84;73;80;76;69;86;65;76;85;69;83;84;82;73;78;71].
Definition n_CHAR := T [67;72;65;82].
Definition n_BOOLEAN := T [66;79;79;76;69;65;78].
Definition n_COUNTRY := T [67;79;85;78;84;82;89].
Definition n_CURRENCY := T [67;85;82;82;69;78;67;89].
Definition n_EXCHANGE := T [69;88;67;72;65;78;71;69].
Definition n_LOCALMKTDATE := T [76;79;67;65;76;77;75;84;68;65;84;69].
Definition n_UTCDATEONLY := T [85;84;67;68;65;84;69;79;78;76;89].
Definition n_UTCTIMESTAMP := T [85;84;67;84;73;77;69;83;84;65;77;80].
Definition n_UTCTIMEONLY := T [85;84;67;84;73;77;69;79;78;76;89].
Definition n_MONTHYEAR := T [77;79;78;84;72;89;69;65;82].
Definition n_DATA := T [68;65;84;65].
Definition n_LENGTH := T [76;69;78;71;84;72].

Inductive kind :=
| KInt | KPositive | KDayOfMonth | KFloat | KString | KMulti | KChar | KBoolean
| KCountry | KCurrency | KExchange | KDate | KTimestamp | KTimeOnly | KMonthYear | KUnchecked | KUnsupported.

(* the if / elif chain over t = self.ftype.upper() *)
Definition classify (t : str) : kind :=
  if str_eqb t n_INT then KInt
  else if mem_str t [n_SEQNUM; n_NUMINGROUP] then KPositive
  else if str_eqb t n_DAYOFMONTH then KDayOfMonth
  else if mem_str t [n_FLOAT; n_QTY; n_PRICE; n_PRICEOFFSET; n_AMT; n_PERCENTAGE] then KFloat
  else if mem_str t [n_STRING] then KString
  else if mem_str t [n_MULTIPLESTRINGVALUE; n_MULTIPLEVALUESTRING] then KMulti
  else if mem_str t [n_CHAR] then KChar
  else if mem_str t [n_BOOLEAN] then KBoolean
  else if mem_str t [n_COUNTRY] then KCountry
  else if mem_str t [n_CURRENCY] then KCurrency
  else if mem_str t [n_EXCHANGE] then KExchange
  else if mem_str t [n_LOCALMKTDATE; n_UTCDATEONLY] then KDate
  else if mem_str t [n_UTCTIMESTAMP] then KTimestamp
  else if mem_str t [n_UTCTIMEONLY] then KTimeOnly
  else if str_eqb t n_MONTHYEAR then KMonthYear
  else if mem_str t [n_DATA; n_LENGTH] then KUnchecked
  else KUnsupported.

(* err of the selected branch *)
Definition validate_kind (k : kind) (s : str) : bool :=
  match k with
  | KInt => validate_int false false None s
  | KPositive => validate_int true true None s
  | KDayOfMonth => validate_int false false (Some (1, 31)%Z) s
  | KFloat => validate_float s
  | KString => validate_str None None false s
  | KMulti =>
      let err := validate_str None None false s in
      if negb err && existsb is_nil (split_on 32 s) then true else err      (* "" in value.split(" ") *)
  | KChar => validate_str (Some 1%nat) None false s
  | KBoolean => validate_str (Some 1%nat) (Some [[89]; [78]]) false s
  | KCountry => validate_str (Some 2%nat) None true s
  | KCurrency => validate_str (Some 3%nat) None true s
  | KExchange => validate_str (Some 4%nat) None true s
  | KDate => validate_datetime F_Ymd s
  | KTimestamp => validate_datetime F_YmdHMS s
  | KTimeOnly => validate_datetime F_HMS s
  | KMonthYear => validate_monthyear s
  | KUnchecked => false                                  (* "just hoping the data is ok" *)
  | KUnsupported => false                                (* warnings.warn(...) *)
  end.

(* _validate_special_cases: EndSeqNo = 0 *)
Definition TAG_16 : str := [49; 54].
Definition special_cases (f : field) (s : str) (prev_err : bool) : bool :=
  if str_eqb (f_tag f) TAG_16 then (if str_eqb s [48] then false else prev_err) else prev_err.

Definition validate_value (f : field) (s : str) : result :=
  if is_nil s then Raise EFIXMessageError                       (* if not value: raise FIXMessageError *)
  else if negb (is_nil (f_values f)) then
    (if mem_str s (f_values f) then Accept false else Raise EFIXMessageError)
  else
    let k := classify (upper (f_type f)) in
    let err := validate_kind k s in
    let warned := match k with KUnsupported => true | _ => false end in
    let err := special_cases f s err in
    if err then Raise EFIXMessageError else Accept warned.
