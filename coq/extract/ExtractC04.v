(* Extraction of the session model (C04).  ExtrOcamlBasic only; Z/N/positive/nat stay Coq datatypes.
   The path is relative to coq/, where make and coqc are run. *)
From Coq Require Extraction.
From Coq Require Import ExtrOcamlBasic.
From AF Require Import Fix.SessionRun.
Extraction Language OCaml.
Extraction "../ocaml/build/C04/model.ml" entry.
