#!/usr/bin/env python3
"""Development tool: copy an independently written breaking change into /verif/seeded/<id>/ and record
what was run against it.  usage: seed.py <Cxx> <n> <src_dir> <caught:yes|no|partial> "<what the check reported>" """
import json, os, shutil, sys
pid, n, src, caught, report = sys.argv[1:6]
dst = os.path.join(os.path.dirname(os.path.abspath(__file__)), "..", "seeded", "%s-%s" % (pid, n))
os.makedirs(dst, exist_ok=True)
for f in ("patch.diff", "demo.py"):
    shutil.copy(os.path.join(src, f), os.path.join(dst, f))
meta = json.load(open(os.path.join(src, "meta.json")))
meta.update({"property": pid, "verified": "patch applies to /repo HEAD in a scratch worktree; 192 tests pass with it; demo.py exits 0 without and non-zero with the patch (re-run by selftest/mutant.sh)",
             "check_run": "selftest/mutant.sh %s seeded/%s-%s/patch.diff seeded/%s-%s/demo.py" % (pid, pid, n, pid, n),
             "caught_by_check": caught, "check_report": report})
json.dump(meta, open(os.path.join(dst, "meta.json"), "w"), indent=1)
print(dst)
