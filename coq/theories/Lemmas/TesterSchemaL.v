(* Proofs that the messages of the tester model validate against the regenerated FIX 4.4 dictionary
   (C15's SchemaModel.validate with C19's validate_value as the value check) - C20.
   Only imports from C15 / C19; the bridge definitions are in Fix/TesterSchema.v. *)
From Coq Require Import ZArith NArith List Bool Lia ZifyBool.
From AF Require Import Base.Sx Py.Str Fix.OrderStatus Fix.Tester Fix.TesterSchema Lemmas.TesterL.
From AF Require Fix.SchemaModel Fix.ValidateValue Fix.Lex Lemmas.LexL.
From AFGen Require GenSchema GenLex.
Import ListNotations.
Open Scope N_scope.

Module F44 := GenSchema.FIX44.

(* ================================================================ the two regenerated tables agree *)

(* every field of C15's table has an entry in C19's table with the same type name and the same has-enum flag *)
Definition field_agrees (f : SM.field) : bool :=
  match find (fun e => str_eqb (fst (fst e)) (SM.f_tag f)) GenLex.fields_fix44 with
  | Some (t, ty, vals) =>
      str_eqb ty (nth (N.to_nat (SM.f_type f)) F44.type_names []) &&
      Bool.eqb (SM.f_enum f) (match vals with [] => false | _ => true end)
  | None => false
  end.

Lemma tables_agree : forallb field_agrees F44.fields = true.
Proof. vm_compute. reflexivity. Qed.

(* ================================================================ structural part: plan_sound *)

Lemma existsb_map {A B} (f : B -> bool) (g : A -> B) l : existsb f (map g l) = existsb (fun x => f (g x)) l.
Proof. induction l as [|x l IH]; cbn; [reflexivity|]. now rewrite IH. Qed.

Lemma has_tag_lift t es : SM.has_tag t (lift es) = existsb (fun k => str_eqb k t) (map fst es).
Proof. unfold SM.has_tag, lift. rewrite !existsb_map. reflexivity. Qed.

Lemma check_required_keys M es :
  SM.check_required M (lift es) = if req_keys M (map fst es) then SM.Ok else SM.Exc SM.EFIXMessage.
Proof.
  induction M as [|m M IH]; cbn [SM.check_required req_keys]; [reflexivity|].
  rewrite has_tag_lift. destruct (negb _ && SM.mreq m); [reflexivity|exact IH].
Qed.

Lemma body_plan vc Sc M es : forall fs,
  plan_tags Sc M (map fst es) = Some fs ->
  Forall2 (fun f s => vc f s = None) fs (map snd es) ->
  SM.body_loop vc Sc M (lift es) = SM.Ok.
Proof.
  induction es as [|[t s] es IH]; intros fs P F; cbn [lift map SM.body_loop]; [reflexivity|].
  cbn [map fst snd plan_tags] in P, F.
  unfold plan_tag in P. cbn [fst snd].
  destruct (str_eqb t SM.TAG10); [discriminate|].
  destruct (SM.member_for Sc M t) as [[f r|f r ms]|]; try discriminate.
  destruct (plan_tags Sc M (map fst es)) as [fs'|] eqn:P'; [|discriminate].
  inversion P; subst fs. inversion F as [|? ? ? ? V F']; subst.
  cbn [SM.validate_member]. unfold SM.check_value. rewrite V. now apply (IH fs').
Qed.

Lemma plan_sound vc Sc mt es fs :
  plan Sc mt (map fst es) = Some fs ->
  Forall2 (fun f s => vc f s = None) fs (map snd es) ->
  SM.validate vc Sc (SM.mkMsg mt (lift es)) = SM.Ok.
Proof.
  unfold plan, SM.validate. cbn [SM.msg_type SM.tags]. intros P F.
  destruct (SM.find_message Sc mt) as [M|]; [|discriminate].
  rewrite check_required_keys, has_tag_lift.
  destruct (req_keys M (map fst es)); cbn [andb] in P; [|discriminate].
  destruct (existsb (fun k => str_eqb k SM.TAG8) (map fst es)); cbn [negb] in P; [discriminate|].
  now apply (body_plan vc Sc M es fs).
Qed.

(* ================================================================ value checks *)

Lemma vc_accept f s w : VV.validate_value (vv_field f) s = VV.Accept w -> value_check44 f s = None.
Proof. unfold value_check44. now intros ->. Qed.

(* --- text --- *)

Lemma valid_string_lex s : valid_string s = true -> Lex.lex_string s = true /\ Lex.has_equals s = false.
Proof.
  unfold valid_string, Lex.lex_string, Lex.has_equals, Lex.nonempty. intros H.
  apply andb_true_iff in H as (H & H3). apply andb_true_iff in H as (H1 & H2).
  rewrite H1, H2. apply negb_true_iff in H3. now split.
Qed.

Lemma vc_string f t s :
  vv_field f = LexL.plain t VV.n_STRING -> t <> VV.TAG_16 -> valid_string s = true -> value_check44 f s = None.
Proof.
  intros E T V. apply valid_string_lex in V as (L & Q). apply (vc_accept f s false). rewrite E.
  now apply (proj1 (LexL.string_partial t s T Q)).
Qed.

(* --- enumerations --- *)

Definition enum_ok (f : SM.field) (l : list N) : bool :=
  match VV.f_values (vv_field f) with
  | [] => false
  | vals => forallb (fun c => VV.mem_str [c] vals) l
  end.

Lemma vc_enum f l c : enum_ok f l = true -> In c l -> value_check44 f [c] = None.
Proof.
  unfold enum_ok. intros E I. apply (vc_accept f [c] false).
  destruct (VV.f_values (vv_field f)) as [|v vs] eqn:V; [discriminate|].
  apply LexL.validate_enum; [rewrite V; discriminate|]. split; [discriminate|].
  rewrite forallb_forall in E. specialize (E c I). rewrite V. now apply LexL.mem_str_In.
Qed.

(* --- decimal text of integers --- *)

Lemma dig_range c : (48 <= c <= 57) -> Lex.dig c = true.
Proof. unfold Lex.dig. lia. Qed.

Lemma n_to_dec_dig n : forallb Lex.dig (n_to_dec n) = true.
Proof.
  apply forallb_forall. intros c I. pose proof (n_to_dec_digits n) as D. rewrite Forall_forall in D.
  apply dig_range. now apply D.
Qed.

Definition gstep (a c : N) : N := 10 * a + (c - 48).

Lemma num_rev_lval l : fold_left gstep (rev l) 0 = lval l.
Proof.
  induction l as [|c l IH]; [reflexivity|].
  cbn [rev lval]. rewrite fold_left_app. cbn [fold_left]. rewrite IH. unfold gstep. lia.
Qed.

Lemma num_n_to_dec n : Lex.num (n_to_dec n) = n.
Proof.
  unfold Lex.num. change (fun a c : N => 10 * a + (c - 48)) with gstep.
  rewrite n_to_dec_lsd, num_rev_lval. apply lval_lsd.
  eapply N.lt_le_trans; [apply size_nat_bound|cbn [p2]; lia].
Qed.

Lemma lsd_length f : forall n k, n < 10 ^ N.of_nat (S k) -> (length (lsd f n) <= S k)%nat.
Proof.
  induction f as [|f IH]; intros n k H; cbn [lsd length]; [lia|].
  destruct (n / 10 =? 0) eqn:E; cbn [length]; [lia|].
  destruct k as [|k].
  - change (10 ^ N.of_nat 1) with 10 in H. apply N.eqb_neq in E.
    exfalso. apply E. apply N.div_small. exact H.
  - assert (n / 10 < 10 ^ N.of_nat (S k)).
    { apply N.div_lt_upper_bound; [lia|]. rewrite <- N.pow_succ_r'. now rewrite <- Nnat.Nat2N.inj_succ. }
    specialize (IH _ _ H0). lia.
Qed.

Lemma n_to_dec_length n k : n < 10 ^ N.of_nat (S k) -> (length (n_to_dec n) <= S k)%nat.
Proof. intros H. rewrite n_to_dec_lsd, rev_length. now apply lsd_length. Qed.

Lemma filter_dig_id s : forallb Lex.dig s = true -> filter Lex.dig s = s.
Proof.
  induction s as [|c s IH]; cbn; [reflexivity|]. intros H. apply andb_true_iff in H as (H1 & H2).
  rewrite H1, IH; auto.
Qed.

Lemma n_to_dec_not_too_many n : n < INT_LIMIT -> Lex.too_many_digits (n_to_dec n) = false.
Proof.
  intros H. unfold Lex.too_many_digits. rewrite filter_dig_id by apply n_to_dec_dig.
  assert (L : (length (n_to_dec n) <= 4300)%nat).
  { apply (n_to_dec_length n 4299). exact H. }
  apply N.ltb_ge. lia.
Qed.

Lemma n_to_dec_unsigned n : Lex.unsigned (n_to_dec n) = n_to_dec n /\ Lex.is_neg (n_to_dec n) = false.
Proof.
  destruct (n_to_dec_head n) as (c & s & E & R). rewrite E. unfold Lex.unsigned, Lex.is_neg.
  destruct c as [|p]; [lia|]. repeat (destruct p as [p|p|]; try lia; try (split; reflexivity)).
Qed.

Lemma n_to_dec_lex_positive n : 0 < n -> Lex.lex_positive (n_to_dec n) = true.
Proof.
  intros H. unfold Lex.lex_positive, Lex.lex_int, Lex.int_value, Lex.digs, Lex.nonempty.
  destruct (n_to_dec_unsigned n) as (-> & ->). rewrite num_n_to_dec, n_to_dec_dig.
  pose proof (n_to_dec_nonempty n). destruct (n_to_dec n); [congruence|]. cbn [andb]. lia.
Qed.

Definition seq_ok (z : Z) : Prop := (0 < z < Z.of_N INT_LIMIT)%Z.

Lemma z_to_dec_pos z : (0 < z)%Z -> z_to_dec z = n_to_dec (Z.to_N z).
Proof. destruct z as [|p|p]; try lia. reflexivity. Qed.

Lemma vc_seqnum f t z :
  vv_field f = LexL.plain t VV.n_SEQNUM -> t <> VV.TAG_16 -> seq_ok z -> value_check44 f (z_to_dec z) = None.
Proof.
  intros E T (Z0 & ZL). apply (vc_accept f _ false). rewrite E, z_to_dec_pos by exact Z0.
  apply (LexL.positive_partial t VV.n_SEQNUM); [now left|exact T| |].
  - apply n_to_dec_not_too_many. lia.
  - apply n_to_dec_lex_positive. lia.
Qed.

(* EndSeqNo: 0 ("all messages") or a positive number *)
Lemma vc_endseqno f z :
  vv_field f = LexL.plain VV.TAG_16 VV.n_SEQNUM -> (0 <= z < Z.of_N INT_LIMIT)%Z ->
  value_check44 f (z_to_dec z) = None.
Proof.
  intros E (Z0 & ZL). apply (vc_accept f _ false). rewrite E.
  apply (LexL.validate_endseqno VV.n_SEQNUM Lex.DSeqNum); [reflexivity|].
  destruct (Z.eq_dec z 0) as [->|NZ]; [now right|left].
  rewrite z_to_dec_pos by lia. cbn [Lex.lex Lex.kf].
  rewrite n_to_dec_lex_positive by lia. rewrite n_to_dec_not_too_many by lia. reflexivity.
Qed.

(* any str(int) is a valid String value *)
Lemma n_to_dec_valid n : valid_string (n_to_dec n) = true.
Proof.
  unfold valid_string. pose proof (n_to_dec_nonempty n) as NE. pose proof (n_to_dec_digits n) as D.
  destruct (n_to_dec n) as [|c s] eqn:E; [congruence|]. rewrite <- E in *. clear E.
  assert (X : forall x, (x < 48 \/ 57 < x) -> existsb (N.eqb x) (n_to_dec n) = false).
  { intros x Hx. apply not_true_is_false. intros H. apply existsb_exists in H as (y & I & Q).
    apply N.eqb_eq in Q. subst y. rewrite Forall_forall in D. specialize (D _ I). lia. }
  rewrite (X 1), (X 61) by lia. reflexivity.
Qed.

Lemma z_to_dec_valid z : valid_string (z_to_dec z) = true.
Proof.
  destruct z as [|p|p]; cbn [z_to_dec]; [reflexivity|apply n_to_dec_valid|].
  pose proof (n_to_dec_valid (Npos p)) as V. unfold valid_string in *.
  apply andb_true_iff in V as (V & V3). apply andb_true_iff in V as (V1 & V2).
  apply negb_true_iff in V2, V3. cbn [existsb]. rewrite V2, V3. reflexivity.
Qed.

(* --- floats --- *)

Definition float_ok (s : str) : Prop := Lex.lex_float s = true /\ Lex.float_overflows s = false.

Definition float_types : list str := [VV.n_FLOAT; VV.n_QTY; VV.n_PRICE; VV.n_PRICEOFFSET; VV.n_AMT; VV.n_PERCENTAGE].

Lemma vc_float f t ty s :
  vv_field f = LexL.plain t ty -> In ty float_types -> t <> VV.TAG_16 -> float_ok s -> value_check44 f s = None.
Proof.
  intros E I T (L & O). apply (vc_accept f s false). rewrite E. now apply (LexL.float_partial t ty s I T O).
Qed.

(* ================================================================ the decimal printer is a finite FIX float *)

Lemma fold_gstep b : forall x, fold_left gstep b x = x * 10 ^ N.of_nat (length b) + fold_left gstep b 0.
Proof.
  induction b as [|c b IH]; intros x; cbn [fold_left length].
  - change (10 ^ N.of_nat 0) with 1. lia.
  - rewrite (IH (gstep x c)), (IH (gstep 0 c)). unfold gstep.
    rewrite Nnat.Nat2N.inj_succ, N.pow_succ_r'. lia.
Qed.

Lemma num_app a b : Lex.num (a ++ b) = Lex.num a * 10 ^ N.of_nat (length b) + Lex.num b.
Proof.
  unfold Lex.num. change (fun a c : N => 10 * a + (c - 48)) with gstep.
  rewrite fold_left_app. apply fold_gstep.
Qed.

Lemma num_bound b : forallb Lex.dig b = true -> Lex.num b < 10 ^ N.of_nat (length b).
Proof.
  induction b as [|c b IH]; intros H.
  - cbn. lia.
  - cbn [forallb] in H. apply andb_true_iff in H as (H1 & H2). specialize (IH H2).
    change (c :: b) with ([c] ++ b). rewrite num_app. cbn [app length].
    rewrite Nnat.Nat2N.inj_succ, N.pow_succ_r'. unfold Lex.num at 1. cbn [fold_left].
    unfold Lex.dig in H1. set (P := 10 ^ N.of_nat (length b)) in *.
    assert ((c - 48) * P <= 9 * P) by (apply N.mul_le_mono_r; lia). lia.
Qed.

Lemma drop_zeros_forall (P : N -> Prop) s : Forall P s -> Forall P (drop_zeros s).
Proof.
  induction 1 as [|c s Hc Hs IH]; cbn [drop_zeros]; [constructor|].
  destruct (c =? 48); [exact IH|now constructor].
Qed.

Lemma strip_trailing_dig s : forallb Lex.dig s = true ->
  forallb Lex.dig (strip_trailing s) = true /\ strip_trailing s <> [].
Proof.
  intros H. unfold strip_trailing.
  assert (F : Forall (fun c => Lex.dig c = true) (rev (drop_zeros (rev s)))).
  { apply Forall_rev, drop_zeros_forall, Forall_rev. apply Forall_forall. now apply forallb_forall. }
  destruct (rev (drop_zeros (rev s))) as [|x r]; [split; [reflexivity|discriminate]|].
  split; [|discriminate]. apply forallb_forall. rewrite Forall_forall in F. exact F.
Qed.

Lemma frac_digits_dig k r : forallb Lex.dig (frac_digits k r) = true /\ frac_digits k r <> [].
Proof.
  unfold frac_digits, pad_left. apply strip_trailing_dig. rewrite forallb_app, n_to_dec_dig, andb_true_r.
  apply forallb_forall. intros c I. apply repeat_spec in I. now subst.
Qed.

Lemma after_dot_digits ip r : forallb Lex.dig ip = true -> Lex.after_dot (ip ++ 46 :: r) = r.
Proof.
  induction ip as [|c ip IH]; cbn [app Lex.after_dot forallb]; [reflexivity|].
  intros H. apply andb_true_iff in H as (H1 & H2). unfold Lex.dig in H1.
  destruct (c =? 46) eqn:E; [lia|]. now apply IH.
Qed.

Lemma filter_dig_dot ip fp : forallb Lex.dig ip = true -> forallb Lex.dig fp = true ->
  filter Lex.dig (ip ++ 46 :: fp) = ip ++ fp.
Proof. intros H1 H2. rewrite filter_app. cbn [filter]. change (Lex.dig 46) with false. now rewrite !filter_dig_id. Qed.

Lemma dots_digits s : forallb Lex.dig s = true -> filter (N.eqb 46) s = [].
Proof.
  induction s as [|c s IH]; cbn [filter forallb]; [reflexivity|]. intros H. apply andb_true_iff in H as (H1 & H2).
  unfold Lex.dig in H1. destruct (46 =? c) eqn:E; [lia|]. now apply IH.
Qed.

Lemma float_body_ok ip fp :
  forallb Lex.dig ip = true -> ip <> [] -> forallb Lex.dig fp = true -> Lex.num ip + 1 <= Lex.FLOAT_INF ->
  let u := ip ++ 46 :: fp in
  forallb (fun c => Lex.dig c || (c =? 46)) u && existsb Lex.dig u && (Lex.count_dots u <=? 1)%nat = true
  /\ Lex.FLOAT_INF * 10 ^ N.of_nat (length (Lex.after_dot u)) <=? Lex.num (filter Lex.dig u) = false.
Proof.
  intros Hi Ni Hf B u. subst u. split.
  - apply andb_true_iff. split; [apply andb_true_iff; split|].
    + rewrite forallb_app. cbn [forallb]. rewrite N.eqb_refl, orb_true_r. cbn [andb].
      apply andb_true_iff. split; apply forallb_forall; intros c I;
        [rewrite forallb_forall in Hi; now rewrite (Hi c I)|rewrite forallb_forall in Hf; now rewrite (Hf c I)].
    + destruct ip as [|c ip]; [congruence|]. cbn [app existsb forallb] in *.
      apply andb_true_iff in Hi as (-> & _). reflexivity.
    + unfold Lex.count_dots. rewrite filter_app. cbn [filter]. rewrite N.eqb_refl.
      rewrite (dots_digits ip Hi), (dots_digits fp Hf). reflexivity.
  - rewrite after_dot_digits, filter_dig_dot by assumption. rewrite num_app.
    pose proof (num_bound fp Hf) as BF. set (P := 10 ^ N.of_nat (length fp)) in *.
    apply N.leb_gt.
    assert ((Lex.num ip + 1) * P <= Lex.FLOAT_INF * P) by (apply N.mul_le_mono_r; exact B). lia.
Qed.

(* printable: the integer part is below the magnitude at which float() overflows *)
Definition printable (k : nat) (z : Z) : Prop := Z.abs_N z / 2 ^ N.of_nat k + 1 <= Lex.FLOAT_INF.

Lemma print_q_float_ok k z : printable k z -> float_ok (print_q k z).
Proof.
  unfold printable, float_ok, print_q. intros B.
  set (ipn := Z.abs_N z / 2 ^ N.of_nat k) in *. set (fp := frac_digits k (Z.abs_N z mod 2 ^ N.of_nat k)).
  destruct (frac_digits_dig k (Z.abs_N z mod 2 ^ N.of_nat k)) as (Hf & _). fold fp in Hf.
  pose proof (n_to_dec_dig ipn) as Hi. pose proof (n_to_dec_nonempty ipn) as Ni.
  assert (Bn : Lex.num (n_to_dec ipn) + 1 <= Lex.FLOAT_INF) by now rewrite num_n_to_dec.
  destruct (float_body_ok _ _ Hi Ni Hf Bn) as (L & O). cbn zeta in L, O.
  change (n_to_dec ipn ++ [46] ++ fp) with (n_to_dec ipn ++ 46 :: fp).
  destruct (z <? 0)%Z.
  - unfold Lex.lex_float, Lex.float_overflows. cbn [app Lex.unsigned Lex.after_dot filter].
    change (45 =? 46) with false. change (Lex.dig 45) with false. cbn iota. split; assumption.
  - cbn [app]. unfold Lex.lex_float, Lex.float_overflows.
    assert (U : Lex.unsigned (n_to_dec ipn ++ 46 :: fp) = n_to_dec ipn ++ 46 :: fp).
    { destruct (n_to_dec_head ipn) as (c & s & E & R). rewrite E. cbn [app Lex.unsigned].
      destruct c as [|p]; [lia|]. repeat (destruct p as [p|p|]; try lia; try reflexivity). }
    rewrite U. split; assumption.
Qed.

(* ================================================================ the dictionary entries used *)

Ltac vvf := vm_compute; reflexivity.

Lemma vvf_1 : vv_field F44.f1 = LexL.plain [49] VV.n_STRING. Proof. vvf. Qed.
Lemma vvf_6 : vv_field F44.f6 = LexL.plain [54] VV.n_PRICE. Proof. vvf. Qed.
Lemma vvf_7 : vv_field F44.f7 = LexL.plain [55] VV.n_SEQNUM. Proof. vvf. Qed.
Lemma vvf_11 : vv_field F44.f11 = LexL.plain [49;49] VV.n_STRING. Proof. vvf. Qed.
Lemma vvf_14 : vv_field F44.f14 = LexL.plain [49;52] VV.n_QTY. Proof. vvf. Qed.
Lemma vvf_16 : vv_field F44.f16 = LexL.plain VV.TAG_16 VV.n_SEQNUM. Proof. vvf. Qed.
Lemma vvf_17 : vv_field F44.f17 = LexL.plain [49;55] VV.n_STRING. Proof. vvf. Qed.
Lemma vvf_32 : vv_field F44.f32 = LexL.plain [51;50] VV.n_QTY. Proof. vvf. Qed.
Lemma vvf_34 : vv_field F44.f34 = LexL.plain [51;52] VV.n_SEQNUM. Proof. vvf. Qed.
Lemma vvf_36 : vv_field F44.f36 = LexL.plain [51;54] VV.n_SEQNUM. Proof. vvf. Qed.
Lemma vvf_37 : vv_field F44.f37 = LexL.plain [51;55] VV.n_STRING. Proof. vvf. Qed.
Lemma vvf_38 : vv_field F44.f38 = LexL.plain [51;56] VV.n_QTY. Proof. vvf. Qed.
Lemma vvf_41 : vv_field F44.f41 = LexL.plain [52;49] VV.n_STRING. Proof. vvf. Qed.
Lemma vvf_44 : vv_field F44.f44 = LexL.plain [52;52] VV.n_PRICE. Proof. vvf. Qed.
Lemma vvf_55 : vv_field F44.f55 = LexL.plain [53;53] VV.n_STRING. Proof. vvf. Qed.
Lemma vvf_112 : vv_field F44.f112 = LexL.plain [49;49;50] VV.n_STRING. Proof. vvf. Qed.
Lemma vvf_151 : vv_field F44.f151 = LexL.plain [49;53;49] VV.n_QTY. Proof. vvf. Qed.

Definition fix_statuses : list N := filter (fun st => negb (st =? CREATED)) all_statuses.

Lemma enum_39 : enum_ok F44.f39 fix_statuses = true. Proof. vvf. Qed.
Lemma enum_150 : enum_ok F44.f150 exec_types = true. Proof. vvf. Qed.
Lemma enum_54 : enum_ok F44.f54 sides = true. Proof. vvf. Qed.
Lemma enum_434 : enum_ok F44.f434 [49; 50] = true. Proof. vvf. Qed.
Lemma enum_123 : enum_ok F44.f123 [89; 78] = true. Proof. vvf. Qed.

Lemma member_not_created st : In st all_statuses -> st <> CREATED -> fix_status st = true.
Proof.
  intros I NE. unfold fix_status, mem. apply andb_true_iff. split.
  - apply existsb_exists. exists st. split; [exact I|apply N.eqb_refl].
  - apply negb_true_iff. now apply N.eqb_neq.
Qed.

Lemma fix_status_in st : fix_status st = true -> In st fix_statuses.
Proof.
  unfold fix_status, fix_statuses, mem. intros H. apply andb_true_iff in H as (H1 & H2).
  apply filter_In. split; [|exact H2]. apply existsb_exists in H1 as (x & I & E). apply N.eqb_eq in E. now subst.
Qed.

Ltac tag_ne := unfold VV.TAG_16; discriminate.
Ltac each_value := repeat (apply Forall2_cons); try apply Forall2_nil.

(* ================================================================ (1) session message factories *)

Definition render0 (r : str * msg) : SM.message := render no_numbers (fst r) (snd r).

Lemma logon_validates : validate44 (render0 (msg_logon [])) = SM.Ok.
Proof. vm_compute. reflexivity. Qed.

Lemma logout_validates : validate44 (render0 msg_logout) = SM.Ok.
Proof. vm_compute. reflexivity. Qed.

Lemma heartbeat_plain_validates : validate44 (render0 (msg_heartbeat None)) = SM.Ok.
Proof. vm_compute. reflexivity. Qed.

Lemma heartbeat_validates s : valid_string s = true -> validate44 (render0 (msg_heartbeat (Some s))) = SM.Ok.
Proof.
  intros V. unfold validate44, render0, render. cbn [msg_heartbeat fst snd].
  apply (plan_sound value_check44 F44.schema [48] (flat no_numbers [(112, VS s)]) [F44.f112]); [vvf|].
  cbn. each_value. exact (vc_string _ _ _ vvf_112 ltac:(tag_ne) V).
Qed.

Lemma heartbeat_numeric_validates z : validate44 (render0 (msg_heartbeat (Some (z_to_dec z)))) = SM.Ok.
Proof. apply heartbeat_validates, z_to_dec_valid. Qed.

Lemma test_request_validates s : valid_string s = true -> validate44 (render0 (msg_test_request s)) = SM.Ok.
Proof.
  intros V. unfold validate44, render0, render. cbn [msg_test_request fst snd].
  apply (plan_sound value_check44 F44.schema [49] (flat no_numbers [(112, VS s)]) [F44.f112]); [vvf|].
  cbn. each_value. exact (vc_string _ _ _ vvf_112 ltac:(tag_ne) V).
Qed.

Lemma sequence_reset_validates n new g : seq_ok n -> seq_ok new ->
  validate44 (render0 (msg_sequence_reset n new g)) = SM.Ok.
Proof.
  intros Hn Hw. unfold validate44, render0, render. cbn [msg_sequence_reset fst snd].
  apply (plan_sound value_check44 F44.schema [52]
           (flat no_numbers [(34, VS (z_to_dec n)); (123, VS [if g then 89 else 78]); (36, VS (z_to_dec new))])
           [F44.f34; F44.f123; F44.f36]); [vvf|].
  cbn. each_value.
  - exact (vc_seqnum _ _ _ vvf_34 ltac:(tag_ne) Hn).
  - apply (vc_enum _ _ _ enum_123). destruct g; cbn; auto.
  - exact (vc_seqnum _ _ _ vvf_36 ltac:(tag_ne) Hw).
Qed.

Lemma resend_request_validates b e : seq_ok b -> (0 <= e < Z.of_N INT_LIMIT)%Z ->
  validate44 (render0 (msg_resend_request b e)) = SM.Ok.
Proof.
  intros Hb He. unfold validate44, render0, render. cbn [msg_resend_request fst snd].
  apply (plan_sound value_check44 F44.schema [50]
           (flat no_numbers [(7, VS (z_to_dec b)); (16, VS (z_to_dec e))]) [F44.f7; F44.f16]); [vvf|].
  cbn. each_value.
  - exact (vc_seqnum _ _ _ vvf_7 ltac:(tag_ne) Hb).
  - exact (vc_endseqno _ _ vvf_16 He).
Qed.

Lemma session_factories_validate :
  validate44 (render0 (msg_logon [])) = SM.Ok /\
  validate44 (render0 msg_logout) = SM.Ok /\
  validate44 (render0 (msg_heartbeat None)) = SM.Ok /\
  (forall s, valid_string s = true -> validate44 (render0 (msg_heartbeat (Some s))) = SM.Ok) /\
  (forall z, validate44 (render0 (msg_heartbeat (Some (z_to_dec z)))) = SM.Ok) /\
  (forall s, valid_string s = true -> validate44 (render0 (msg_test_request s)) = SM.Ok) /\
  (forall n new g, seq_ok n -> seq_ok new -> validate44 (render0 (msg_sequence_reset n new g)) = SM.Ok) /\
  (forall b e, seq_ok b -> (0 <= e < Z.of_N INT_LIMIT)%Z -> validate44 (render0 (msg_resend_request b e)) = SM.Ok).
Proof.
  split; [exact logon_validates|]. split; [exact logout_validates|]. split; [exact heartbeat_plain_validates|].
  split; [exact heartbeat_validates|]. split; [exact heartbeat_numeric_validates|].
  split; [exact test_request_validates|]. split; [exact sequence_reset_validates|exact resend_request_validates].
Qed.

(* ================================================================ (2) cancel reject *)

Lemma cancel_reject_validates mt c og st m :
  fix_cxlrep_reject_msg mt (Some c) (Some og) st = ROk m ->
  valid_string c = true -> valid_string og = true -> In st all_statuses ->
  validate44 (render no_numbers [57] m) = SM.Ok.
Proof.
  intros H Vc Vo Is. apply reject_spec in H as (c' & og' & r & E1 & E2 & NC & -> & R).
  pose proof (member_not_created _ Is NC) as Vs.
  inversion E1; inversion E2; subst c' og'.
  assert (Ir : In r [49; 50]) by (destruct R as [(_ & ->)|(_ & ->)]; cbn; auto).
  unfold validate44, render.
  apply (plan_sound value_check44 F44.schema [57] _ [F44.f37; F44.f11; F44.f41; F44.f39; F44.f434]); [vvf|].
  cbn. each_value.
  - exact (vc_string _ _ [48] vvf_37 ltac:(tag_ne) eq_refl).
  - exact (vc_string _ _ _ vvf_11 ltac:(tag_ne) Vc).
  - exact (vc_string _ _ _ vvf_41 ltac:(tag_ne) Vo).
  - exact (vc_enum _ _ _ enum_39 (fix_status_in _ Vs)).
  - exact (vc_enum _ _ _ enum_434 Ir).
Qed.

(* ================================================================ (3) execution report *)

(* what the dictionary needs from the order object and the arguments *)
Record exec_valid (o : order) (a : eargs) : Prop := mkEV {
  ev_clord : forall c, a_clord a = Some c -> valid_string c = true;
  ev_oid : forall s, o_oid o = Some s -> valid_string s = true;
  ev_orig : forall s, a_orig a = Some s -> truthy (a_orig a) = true -> valid_string s = true;
  ev_exec : In (a_exec a) exec_types;
  ev_status : In (a_status a) all_statuses;
  ev_side : exists sd, o_side o = [sd] /\ In sd sides;
  ev_ticker : valid_string (o_ticker o) = true;
  ev_account : valid_string (o_account o) = true }.

Definition numbers_ok (pr : Z -> str) (m : msg) : Prop :=
  Forall (fun f => match snd f with VQ z => float_ok (pr z) | VS _ => True end) m.

Lemma exec_report_validates pr u t o a m t' :
  fix_exec_report_msg u t o a = Ok m t' -> exec_valid o a -> numbers_ok pr m ->
  validate44 (render pr [56] m) = SM.Ok.
Proof.
  intros H EV NO. destruct EV as [Vc Vi Vg Ve Is (sd & Esd & Isd) Vt Va].
  pose proof (member_not_created _ Is (exec_status_not_created _ _ _ _ _ _ H)) as Vs.
  apply exec_ok_inv in H as (clord & oq & cum & leaves & price & last & _ & C & _ & _ & TF & _ & _ & _ & _ & ->).
  specialize (Vc _ C).
  assert (Void : valid_string (order_id_text t o) = true).
  { unfold order_id_text. destruct (o_oid o) as [s|] eqn:E; [now apply Vi|apply z_to_dec_valid]. }
  pose proof (z_to_dec_valid (t_eid t + 1)) as Veid.
  unfold numbers_ok in NO. rewrite Forall_forall in NO.
  assert (NQ : forall tag z, In (tag, VQ z) (report t o a clord oq cum leaves price last) -> float_ok (pr z)).
  { intros tag z I. exact (NO _ I). }
  unfold validate44, render.
  destruct (opt_field_shape T_OrigClOrdID (a_orig a)) as [[OF _]|(og & OF & EO & TR)];
  destruct (trade_fields_shape _ _ _ _ _ TF) as [(-> & _ & _)|(l & -> & _ & _ & _ & _)];
  unfold report in *; rewrite OF in *; rewrite Esd.
  - apply (plan_sound value_check44 F44.schema [56] _
             [F44.f11; F44.f37; F44.f17; F44.f150; F44.f39; F44.f54; F44.f14; F44.f151;
              F44.f55; F44.f44; F44.f38; F44.f6; F44.f1]); [vvf|].
    cbn. each_value.
    + exact (vc_string _ _ _ vvf_11 ltac:(tag_ne) Vc).
    + exact (vc_string _ _ _ vvf_37 ltac:(tag_ne) Void).
    + exact (vc_string _ _ _ vvf_17 ltac:(tag_ne) Veid).
    + exact (vc_enum _ _ _ enum_150 Ve).
    + exact (vc_enum _ _ _ enum_39 (fix_status_in _ Vs)).
    + exact (vc_enum _ _ _ enum_54 Isd).
    + apply (vc_float _ _ _ _ vvf_14); [cbn; auto|tag_ne|]. apply (NQ T_CumQty). cbn. auto 20.
    + apply (vc_float _ _ _ _ vvf_151); [cbn; auto|tag_ne|]. apply (NQ T_LeavesQty). cbn. auto 20.
    + exact (vc_string _ _ _ vvf_55 ltac:(tag_ne) Vt).
    + apply (vc_float _ _ _ _ vvf_44); [cbn; auto|tag_ne|]. apply (NQ T_Price). cbn. auto 20.
    + apply (vc_float _ _ _ _ vvf_38); [cbn; auto|tag_ne|]. apply (NQ T_OrderQty). cbn. auto 20.
    + apply (vc_float _ _ _ _ vvf_6); [cbn; auto|tag_ne|]. apply (NQ T_AvgPx). cbn. auto 20.
    + exact (vc_string _ _ _ vvf_1 ltac:(tag_ne) Va).
  - apply (plan_sound value_check44 F44.schema [56] _
             [F44.f11; F44.f37; F44.f17; F44.f150; F44.f39; F44.f54; F44.f14; F44.f151; F44.f32;
              F44.f55; F44.f44; F44.f38; F44.f6; F44.f1]); [vvf|].
    cbn. each_value.
    + exact (vc_string _ _ _ vvf_11 ltac:(tag_ne) Vc).
    + exact (vc_string _ _ _ vvf_37 ltac:(tag_ne) Void).
    + exact (vc_string _ _ _ vvf_17 ltac:(tag_ne) Veid).
    + exact (vc_enum _ _ _ enum_150 Ve).
    + exact (vc_enum _ _ _ enum_39 (fix_status_in _ Vs)).
    + exact (vc_enum _ _ _ enum_54 Isd).
    + apply (vc_float _ _ _ _ vvf_14); [cbn; auto|tag_ne|]. apply (NQ T_CumQty). cbn. auto 20.
    + apply (vc_float _ _ _ _ vvf_151); [cbn; auto|tag_ne|]. apply (NQ T_LeavesQty). cbn. auto 20.
    + apply (vc_float _ _ _ _ vvf_32); [cbn; auto|tag_ne|]. apply (NQ T_LastQty). cbn. auto 20.
    + exact (vc_string _ _ _ vvf_55 ltac:(tag_ne) Vt).
    + apply (vc_float _ _ _ _ vvf_44); [cbn; auto|tag_ne|]. apply (NQ T_Price). cbn. auto 20.
    + apply (vc_float _ _ _ _ vvf_38); [cbn; auto|tag_ne|]. apply (NQ T_OrderQty). cbn. auto 20.
    + apply (vc_float _ _ _ _ vvf_6); [cbn; auto|tag_ne|]. apply (NQ T_AvgPx). cbn. auto 20.
    + exact (vc_string _ _ _ vvf_1 ltac:(tag_ne) Va).
  - specialize (Vg _ EO TR).
    apply (plan_sound value_check44 F44.schema [56] _
             [F44.f11; F44.f37; F44.f17; F44.f41; F44.f150; F44.f39; F44.f54; F44.f14; F44.f151;
              F44.f55; F44.f44; F44.f38; F44.f6; F44.f1]); [vvf|].
    cbn. each_value.
    + exact (vc_string _ _ _ vvf_11 ltac:(tag_ne) Vc).
    + exact (vc_string _ _ _ vvf_37 ltac:(tag_ne) Void).
    + exact (vc_string _ _ _ vvf_17 ltac:(tag_ne) Veid).
    + exact (vc_string _ _ _ vvf_41 ltac:(tag_ne) Vg).
    + exact (vc_enum _ _ _ enum_150 Ve).
    + exact (vc_enum _ _ _ enum_39 (fix_status_in _ Vs)).
    + exact (vc_enum _ _ _ enum_54 Isd).
    + apply (vc_float _ _ _ _ vvf_14); [cbn; auto|tag_ne|]. apply (NQ T_CumQty). cbn. auto 20.
    + apply (vc_float _ _ _ _ vvf_151); [cbn; auto|tag_ne|]. apply (NQ T_LeavesQty). cbn. auto 20.
    + exact (vc_string _ _ _ vvf_55 ltac:(tag_ne) Vt).
    + apply (vc_float _ _ _ _ vvf_44); [cbn; auto|tag_ne|]. apply (NQ T_Price). cbn. auto 20.
    + apply (vc_float _ _ _ _ vvf_38); [cbn; auto|tag_ne|]. apply (NQ T_OrderQty). cbn. auto 20.
    + apply (vc_float _ _ _ _ vvf_6); [cbn; auto|tag_ne|]. apply (NQ T_AvgPx). cbn. auto 20.
    + exact (vc_string _ _ _ vvf_1 ltac:(tag_ne) Va).
  - specialize (Vg _ EO TR).
    apply (plan_sound value_check44 F44.schema [56] _
             [F44.f11; F44.f37; F44.f17; F44.f41; F44.f150; F44.f39; F44.f54; F44.f14; F44.f151; F44.f32;
              F44.f55; F44.f44; F44.f38; F44.f6; F44.f1]); [vvf|].
    cbn. each_value.
    + exact (vc_string _ _ _ vvf_11 ltac:(tag_ne) Vc).
    + exact (vc_string _ _ _ vvf_37 ltac:(tag_ne) Void).
    + exact (vc_string _ _ _ vvf_17 ltac:(tag_ne) Veid).
    + exact (vc_string _ _ _ vvf_41 ltac:(tag_ne) Vg).
    + exact (vc_enum _ _ _ enum_150 Ve).
    + exact (vc_enum _ _ _ enum_39 (fix_status_in _ Vs)).
    + exact (vc_enum _ _ _ enum_54 Isd).
    + apply (vc_float _ _ _ _ vvf_14); [cbn; auto|tag_ne|]. apply (NQ T_CumQty). cbn. auto 20.
    + apply (vc_float _ _ _ _ vvf_151); [cbn; auto|tag_ne|]. apply (NQ T_LeavesQty). cbn. auto 20.
    + apply (vc_float _ _ _ _ vvf_32); [cbn; auto|tag_ne|]. apply (NQ T_LastQty). cbn. auto 20.
    + exact (vc_string _ _ _ vvf_55 ltac:(tag_ne) Vt).
    + apply (vc_float _ _ _ _ vvf_44); [cbn; auto|tag_ne|]. apply (NQ T_Price). cbn. auto 20.
    + apply (vc_float _ _ _ _ vvf_38); [cbn; auto|tag_ne|]. apply (NQ T_OrderQty). cbn. auto 20.
    + apply (vc_float _ _ _ _ vvf_6); [cbn; auto|tag_ne|]. apply (NQ T_AvgPx). cbn. auto 20.
    + exact (vc_string _ _ _ vvf_1 ltac:(tag_ne) Va).
Qed.

(* the instance with the exact binary-fraction printer: every number of the message printable *)
Definition numbers_printable (k : nat) (m : msg) : Prop :=
  Forall (fun f => match snd f with VQ z => printable k z | VS _ => True end) m.

Lemma exec_report_validates_printed k u t o a m t' :
  fix_exec_report_msg u t o a = Ok m t' -> exec_valid o a -> numbers_printable k m ->
  validate44 (render (print_q k) [56] m) = SM.Ok.
Proof.
  intros H EV NP. apply (exec_report_validates _ _ _ _ _ _ _ H EV).
  unfold numbers_ok, numbers_printable in *. eapply Forall_impl; [|exact NP].
  intros [tag [s|z]]; cbn; [auto|apply print_q_float_ok].
Qed.

Definition msg_of (r : res msg) : msg := match r with Ok m _ => m | AssertionFailed _ => [] end.
Definition state_of (r : res msg) : tstate := match r with Ok _ t => t | AssertionFailed t => t end.

Definition get_tag_text (m : SM.message) (t : str) : option str :=
  match SM.get_tag t (SM.tags m) with Some (SM.VStr s) => Some s | _ => None end.

(* non-vacuity: the partial fill of TesterL.fill_witness validates, printed with 12 fraction bits *)
Lemma exec_report_validates_witness :
  exists m t', fix_exec_report_msg 4096 w_state w_live w_fill = Ok m t' /\
    validate44 (render (print_q 12) [56] m) = SM.Ok /\
    get_tag_text (render (print_q 12) [56] m) [51;50] = Some [50;46;48;48;48;52;56;56;50;56;49;50;53].
Proof.
  exists (msg_of (fix_exec_report_msg 4096 w_state w_live w_fill)), (state_of (fix_exec_report_msg 4096 w_state w_live w_fill)).
  split; [vm_compute; reflexivity|]. split; vm_compute; reflexivity.
Qed.

(* the hypothesis numbers_ok cannot be dropped: a renderer that leaves the FIX float layout (what str(float) printed
   below 1e-4 before fixes/R12c+R12d: "1e-05") is refused by the dictionary *)
Definition exponent_text (z : Z) : str := [49; 101; 45; 48; 53].

Lemma exponent_text_refused :
  exists m t', fix_exec_report_msg 4096 w_state w_live w_fill = Ok m t' /\
    validate44 (render exponent_text [56] m) = SM.Exc SM.EFIXMessage.
Proof.
  exists (msg_of (fix_exec_report_msg 4096 w_state w_live w_fill)), (state_of (fix_exec_report_msg 4096 w_state w_live w_fill)).
  split; vm_compute; reflexivity.
Qed.
