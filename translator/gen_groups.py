"""FIXProtocol44 tables by reflection.  Tags are the decimal *strings* the codec compares."""
from .coqfmt import HEADER, clist, cstr

NAME = "GenGroups"
SOURCES = ["asyncfix/protocol/protocol_fix44.py", "asyncfix/protocol/protocol_base.py", "asyncfix/fixtags.py"]


def generate():
    from asyncfix.protocol import FIXProtocol44

    p = FIXProtocol44()
    rows = []
    for k, members in p.repeating_groups.items():
        rows.append("(%s, %s)" % (cstr(str(k)), clist([cstr(str(m)) for m in members], per_line=8)))
    t = HEADER
    t += "Definition beginstring : list N := %s.\n\n" % cstr(p.beginstring)
    t += "Definition table : list (list N * list (list N)) :=\n  %s.\n\n" % clist(rows, per_line=1)
    sess = sorted(str(m.value if hasattr(m, "value") else m) for m in p.session_message_types)
    t += "Definition session_message_types : list (list N) := %s.\n" % clist([cstr(s) for s in sess])
    return t
