(* C08 - the journal survives a process crash at any point.
   Theorems only (proofs in AF.Lemmas.JournalCrashL).  Model: Fix/Journal.v (SQLite tables +
   Python sqlite3 transaction control: `committed` is what a fresh connection sees, `cur` what
   the live connection sees, `crash` = process death or close(), `reopen` = a new Journaler on
   the file) and Fix/JournalRun.v (`step` = one Journaler call; `run_crash st ops k done` = run
   ops, die after exactly k primitives - data-modifying statements incl. a failing INSERT, and
   commits - and report the db at death, the number of operations that had returned, and whether
   death was strictly inside an operation).  The extracted runner's request [1, ops, k] prints
   `observe (reopen d)`, `done`, `died` of exactly this `run_crash init ops k 0`, and
   harness/c08.py compares it with real child processes killed at every such boundary.

   All statements quantify over ALL operation lists (any length, any arguments, incl. reopen,
   duplicate / malformed persists, refused set_seq_num, out-of-range handles) and ALL budgets k. *)
From Coq Require Import ZArith NArith List Bool.
From AF Require Import Base.Sx Py.Str Fix.Journal Fix.JournalRun
  Lemmas.JournalL Lemmas.JournalRunL Lemmas.JournalCrashL.
Import ListNotations.
Open Scope Z_scope.

(* run_crash counts the primitives of `prims_of`; this is the statement that those primitives
   are what `step` (the model of the Journaler methods, C13) does to the database *)
Theorem C08_step_is_its_primitives : forall st o,
  r_db (stepf st o) = match o with
                      | OReopen => reopen (r_db st)
                      | _ => fst (exec_prims (prims_of (r_hs st) o) (r_db st))
                      end.
Proof. exact step_db. Qed.
Print Assumptions C08_step_is_its_primitives.

(* (1) atomicity.  After death at any primitive boundary of any operation sequence the fresh
   connection sees EXACTLY the state after the `done` operations that had completed: the
   operation in flight is not applied at all, no completed operation is missing. *)
Theorem C08_atomic : forall ops k,
  let '(d, done, died) := run_crash init ops k 0 in
  (done <= length ops)%nat
  /\ cur (reopen d) = cur (r_db (run_state (firstn done ops)))
  /\ observe (reopen d) = observe (r_db (run_state (firstn done ops)))
  /\ (died = false -> done = length ops)
  /\ (died = true -> (done < length ops)%nat).
Proof. exact crash_atomic. Qed.
Print Assumptions C08_atomic.

(* ... where `done` is determined by the crash point alone: the completed operations are those
   whose primitives fit into the budget (prefix_cost = primitives executed by the first j
   operations; an operation is complete once its last primitive - the commit, or the INSERT
   that failed - has run). *)
Theorem C08_crash_point : forall ops k,
  let '(d, done, died) := run_crash init ops k 0 in
  (prefix_cost init ops done <= k)%nat
  /\ (died = true -> (k < prefix_cost init ops (S done))%nat)
  /\ (died = false -> (prefix_cost init ops (length ops) <= k)%nat).
Proof. exact crash_point. Qed.
Print Assumptions C08_crash_point.

(* the same per operation, in the two-alternative form of the property text: the operation in
   flight (started at an operation boundary of any history, killed after b of its primitives) is
   applied not at all (b < its cost) or entirely (all its primitives ran, only the return to the
   caller is missing) - there is no third recovered state *)
Theorem C08_in_flight_all_or_nothing : forall ops o b,
  let st := run_state ops in
  let d' := fst (exec_budget (prims_of (r_hs st) o) (r_db st) b) in
  (cur (reopen d') = cur (r_db st) /\ (b < cost st o)%nat)
  \/ (cur (reopen d') = cur (r_db (run_state (ops ++ [o]))) /\ (cost st o <= b)%nat).
Proof. exact crash_in_flight. Qed.
Print Assumptions C08_in_flight_all_or_nothing.

(* (2) durability.  A persist_msg that returned (number n, session s, direction dir) stays
   retrievable byte-for-byte after a crash at any later point, unless a set_seq_num that had
   completed by then removed it (`removes`: same session, new next number of that direction <= n). *)
Theorem C08_durable : forall pre h dir msg post k n,
  let st := run_state pre in
  let s := handle (r_hs st) h in
  let p := OPersist h dir msg in
  find_seq_no msg = Some n ->
  snd (persist_msg msg s dir (r_db st)) = None ->
  let '(d, done, died) := run_crash init (pre ++ p :: post) k 0 in
  (length pre < done)%nat ->
  never_removed (stepf st p) (firstn (done - S (length pre)) post) (key s) dir n = true ->
  lookup (cur (reopen d)) (key s) dir n = Some msg.
Proof. exact persist_durable. Qed.
Print Assumptions C08_durable.

(* (3) a message row never exists without its counter update.
   Primitive level: kill persist_msg (started with nothing pending) after any number b of its
   primitives; if the fresh connection sees the new row at all, it sees it with the message
   bytes and with the counter of that direction = n. *)
Theorem C08_persist_row_with_counter : forall d s dir msg n b,
  clean d ->
  lookup (committed d) (key s) dir n = None ->
  let t' := committed (fst (exec_budget (persist_prims n s dir msg) d b)) in
  lookup t' (key s) dir n <> None ->
  lookup t' (key s) dir n = Some msg
  /\ counter t' (key s) =
     option_map (fun c => if dir =? OUTBOUND then (n, snd c) else (fst c, n)) (counter (committed d) (key s)).
Proof. exact persist_row_with_counter. Qed.
Print Assumptions C08_persist_row_with_counter.

(* History level: every row of every recovered state was written by a persist_msg among the
   completed operations, and the single commit that made it durable (from the state after `pre`
   to the state after `pre ++ [that call]`) also set the stored counter of its direction to the
   row's number. *)
Theorem C08_row_written_with_counter : forall ops k,
  let '(d, done, died) := run_crash init ops k 0 in
  forall r, In r (t_messages (cur (reopen d))) ->
  exists pre h post,
    firstn done ops = pre ++ OPersist h (m_dir r) (m_msg r) :: post
    /\ let st := run_state pre in
       let t' := cur (r_db (run_state (pre ++ [OPersist h (m_dir r) (m_msg r)]))) in
       key (handle (r_hs st) h) = m_sid r
       /\ find_seq_no (m_msg r) = Some (m_seq r)
       /\ lookup t' (m_sid r) (m_dir r) (m_seq r) = Some (m_msg r)
       /\ counter t' (m_sid r) =
          option_map (fun c => if m_dir r =? OUTBOUND then (m_seq r, snd c) else (fst c, m_seq r))
                     (counter (cur (r_db st)) (m_sid r)).
Proof. exact recovered_row_has_counter. Qed.
Print Assumptions C08_row_written_with_counter.

(* (4) a completed set / reset of the sequence numbers is never lost: after a crash at any later
   point the stored counters of that session are the new values minus one, nothing at or above
   them is stored and everything below is untouched - until a later completed operation writes
   that session again (`all_quiet`). *)
Theorem C08_set_seq_num_never_lost : forall pre h o i post k no ni c,
  let st := run_state pre in
  let s := handle (r_hs st) h in
  let p := OSetSeq h o i in
  set_args s o i = Some (no, ni) ->
  counter (cur (r_db st)) (key s) = Some c ->
  let '(d, done, died) := run_crash init (pre ++ p :: post) k 0 in
  (length pre < done)%nat ->
  all_quiet (stepf st p) (firstn (done - S (length pre)) post) (key s) = true ->
  counter (cur (reopen d)) (key s) = Some (no - 1, ni - 1)
  /\ (forall n, ni <= n -> lookup (cur (reopen d)) (key s) INBOUND n = None)
  /\ (forall n, no <= n -> lookup (cur (reopen d)) (key s) OUTBOUND n = None)
  /\ (forall n, n < ni -> lookup (cur (reopen d)) (key s) INBOUND n = lookup (cur (r_db st)) (key s) INBOUND n)
  /\ (forall n, n < no -> lookup (cur (reopen d)) (key s) OUTBOUND n = lookup (cur (r_db st)) (key s) OUTBOUND n).
Proof. exact set_seq_durable. Qed.
Print Assumptions C08_set_seq_num_never_lost.

(* `set_args = Some` is "the call returned without AssertionError" *)
Theorem C08_set_seq_num_returned : forall s o i d,
  snd (set_seq_num s o i d) = match set_args s o i with None => Some EAssertion | Some _ => None end.
Proof. exact set_seq_num_err. Qed.
Print Assumptions C08_set_seq_num_returned.

(* (5) normal close.  At every operation boundary of every history nothing is pending on the
   connection (an implicit transaction may be open - after loading an existing session or after a
   duplicate persist - but it holds no change) ... *)
Theorem C08_nothing_pending_between_operations : forall ops, clean (r_db (run_state ops)).
Proof. exact reachable_clean. Qed.
Print Assumptions C08_nothing_pending_between_operations.

(* ... hence close() - which discards the open transaction exactly like process death - followed
   by reopening loses nothing, whether or not a transaction was open. *)
Theorem C08_close_loses_nothing : forall ops,
  let d := r_db (run_state ops) in
  cur (reopen (crash d)) = cur d /\ observe (reopen (crash d)) = observe d.
Proof. exact close_loses_nothing. Qed.
Print Assumptions C08_close_loses_nothing.

(* ---------------------------------------------------------------- non-vacuity / witnesses *)

Definition m5 : str := [1; 51; 52; 61; 53; 1]%N.     (* \x01 34=5 \x01 *)
Definition m7 : str := [1; 51; 52; 61; 55; 1]%N.     (* \x01 34=7 \x01 *)
Definition demo : list op :=
  [OCreate [65%N] [66%N]; OPersist 0 1 m5; OCreate [65%N] [66%N]; OPersist 0 0 m7; OSetSeq 0 (Some 3) None].

Definition recovered (ops : list op) (k : nat) :=
  let '(d, done, died) := run_crash init ops k 0 in
  (done, died, counter (cur (reopen d)) 1, lookup (cur (reopen d)) 1 1 5, lookup (cur (reopen d)) 1 0 7).

(* 2 + 3 + 1 (the INSERT that fails: session exists) + 3 + 4 = 13 primitives.  Death after the
   INSERT and UPDATE of the first persist_msg: nothing of it is visible; after its commit: row and
   counter; the second persist_msg runs inside the transaction left open by loading the existing
   session and is still all-or-nothing; the completed set_seq_num(next_num_out=3) - the session
   object still says next_num_in = 1 - removed outbound 5 and inbound 7 for good. *)
Example C08_demo_crash_points :
  recovered demo 4 = (1%nat, true, Some (0, 0), None, None)
  /\ recovered demo 5 = (2%nat, true, Some (5, 0), Some m5, None)
  /\ recovered demo 6 = (3%nat, true, Some (5, 0), Some m5, None)
  /\ recovered demo 8 = (3%nat, true, Some (5, 0), Some m5, None)
  /\ recovered demo 9 = (4%nat, true, Some (5, 7), Some m5, Some m7)
  /\ recovered demo 12 = (4%nat, true, Some (5, 7), Some m5, Some m7)
  /\ recovered demo 13 = (5%nat, false, Some (2, 0), None, None)
  /\ recovered demo 99 = (5%nat, false, Some (2, 0), None, None).
Proof. vm_compute. repeat split. Qed.
Print Assumptions C08_demo_crash_points.

(* an implicit transaction really is open at some operation boundaries (so (5) is not vacuous) *)
Example C08_open_transaction_reachable :
  in_tx (r_db (run_state (firstn 3 demo))) = true /\ in_tx (r_db (run_state (firstn 2 demo))) = false.
Proof. vm_compute. split; reflexivity. Qed.
Print Assumptions C08_open_transaction_reachable.

(* the hypotheses of C08_durable / C08_set_seq_num_never_lost are met by the demo history *)
Example C08_durable_nonvacuous :
  snd (persist_msg m5 (handle (r_hs (run_state (firstn 1 demo))) 0) 1 (r_db (run_state (firstn 1 demo)))) = None
  /\ never_removed (stepf (run_state (firstn 1 demo)) (OPersist 0 1 m5)) (firstn 2 (skipn 2 demo)) 1 1 5 = true
  /\ never_removed (stepf (run_state (firstn 1 demo)) (OPersist 0 1 m5)) (skipn 2 demo) 1 1 5 = false
  /\ set_args (handle (r_hs (run_state (firstn 4 demo))) 0) (Some 3) None = Some (3, 1)
  /\ counter (cur (r_db (run_state (firstn 4 demo)))) 1 = Some (5, 7).
Proof. vm_compute. repeat split. Qed.
Print Assumptions C08_durable_nonvacuous.

(* (3) in the form of DESIGN.md: "a row (n, dir) implies stored counter(dir) >= n".  This is an
   invariant exactly of histories that store numbers in ascending order per session and direction
   (`ascending`: every persist_msg carries a number >= the stored counter it overwrites - what the
   session engine does); for those it holds in every recovered state: *)
Theorem C08_row_le_counter_partial : forall ops k,
  ascending init ops = true ->
  let '(d, done, died) := run_crash init ops k 0 in below (cur (reopen d)).
Proof. exact row_le_counter_partial. Qed.
Print Assumptions C08_row_le_counter_partial.

(* ... and not in general: the journal accepts numbers in descending order (C13), after which
   the counter is the last number written, below an older row.  No crash is involved and the
   property text does not ask for it; what always holds is C08_row_written_with_counter. *)
Theorem C08_row_le_counter_refuted :
  exists ops, ascending init ops = false /\ ~ below (cur (r_db (run_state ops))).
Proof. exact row_le_counter_refuted. Qed.
Print Assumptions C08_row_le_counter_refuted.

Example C08_ascending_nonvacuous : ascending init demo = true.
Proof. vm_compute. reflexivity. Qed.
Print Assumptions C08_ascending_nonvacuous.
