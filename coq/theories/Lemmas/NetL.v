(* Proofs about the two-endpoint model Fix/Net.v (C07): the single-break family, for all n and k,
   by symbolic execution of the session model Fix/Session.v, and the refutation witnesses. *)
From Coq Require Import ZArith NArith List Bool Lia.
From AF Require Import Base.Sx Py.Str Fix.Session Fix.Net Lemmas.StrB.
From AFGen Require Import GenEnums GenGroups.
Import ListNotations.
Open Scope Z_scope.

(* ------------------------------------------------------------------ int(str(n)) *)

Lemma lstrip_digits_gen : forall ws s, (forall c, is_digit c = true -> ws c = false) ->
  Forall (fun c => is_digit c = true) s -> lstrip ws s = s.
Proof. 
  intros ws s Hws H. destruct s as [|c s]; [reflexivity|]. inversion H; subst. cbn.
  rewrite (Hws c) by assumption. reflexivity.
Qed.

Lemma py_int_gen_digits : forall ws s, (forall c, is_digit c = true -> ws c = false) ->
  s <> [] -> Forall (fun c => is_digit c = true) s -> (length s <= 4300)%nat ->
  py_int_gen ws s = Some (Z.of_N (dval s 0)).
Proof. 
  intros ws s Hws Hne Hd Hl. unfold py_int_gen, strip.
  rewrite (lstrip_digits_gen ws s Hws Hd).
  rewrite (lstrip_digits_gen ws (rev s) Hws) by (apply Forall_rev; assumption).
  rewrite rev_involutive.
  destruct s as [|d r]; [contradiction|]. inversion Hd; subst.
  rewrite sign_match_digit by assumption.
  rewrite filter_digits by assumption.
  assert (E : (4300 <? N.of_nat (length (d :: r)))%N = false) by lia. rewrite E, H1.
  rewrite digits_us_digits by assumption. reflexivity.
Qed.

Lemma ws_str_digit : forall c, is_digit c = true -> ws_str c = false.
Proof.  intros c H. unfold is_digit, ws_str in *. lia. Qed.
Lemma ws_bytes_digit : forall c, is_digit c = true -> ws_bytes c = false.
Proof.  intros c H. unfold is_digit, ws_bytes in *. lia. Qed.

Lemma n_to_dec_len : forall n, (n < 10 ^ 4300)%N -> (length (n_to_dec n) <= 4300)%nat.
Proof. 
  intros n Hn. destruct (n_to_dec_spec n) as [Hne [Hd [Hv Hge]]].
  destruct Hge as [Hge|Hge]; [|lia].
  destruct (Nat.le_gt_cases (length (n_to_dec n)) 4300) as [L|L]; [assumption|exfalso].
  assert (M : (10 ^ 4300 <= 10 ^ N.of_nat (length (n_to_dec n) - 1))%N) by (apply N.pow_le_mono_r; [discriminate | lia]).
  revert Hn Hge M. generalize (10 ^ 4300)%N (10 ^ N.of_nat (length (n_to_dec n) - 1))%N. intros; lia.
Qed.

Lemma i64_small : forall p, Zpos p <= I64MAX -> (Npos p < 10 ^ 4300)%N.
Proof. 
  intros p H.
  assert (A : (Npos p < 10 ^ 63)%N) by (unfold I64MAX in H; lia).
  assert (C : (10 ^ 63 <= 10 ^ 4300)%N) by (apply N.pow_le_mono_r; [discriminate | apply N.leb_le; reflexivity]).
  eapply N.lt_le_trans; eassumption.
Qed.

Lemma py_int_gen_dec : forall ws z, (forall c, is_digit c = true -> ws c = false) ->
  0 <= z <= I64MAX -> py_int_gen ws (z_to_dec z) = Some z.
Proof. 
  intros ws z Hws [H0 H1]. destruct z as [|p|p]; [| |lia].
  - unfold z_to_dec. rewrite py_int_gen_digits; try assumption; try reflexivity; try discriminate.
    + repeat constructor.
    + cbn. apply Nat.leb_le. reflexivity.
  - cbn [z_to_dec]. destruct (n_to_dec_spec (Npos p)) as [Hne [Hd [Hv _]]].
    rewrite py_int_gen_digits; try assumption.
    + rewrite Hv. reflexivity.
    + apply n_to_dec_len. apply i64_small. assumption.
Qed.

Lemma py_int_dec : forall z, 0 <= z <= I64MAX -> py_int (z_to_dec z) = Some z.
Proof.  intros. apply py_int_gen_dec; [exact ws_str_digit|assumption]. Qed.
Lemma py_int_bytes_dec : forall z, 0 <= z <= I64MAX -> py_int_bytes (z_to_dec z) = Some z.
Proof.  intros. apply py_int_gen_dec; [exact ws_bytes_digit|assumption]. Qed.

(* ------------------------------------------------------------------ runs of consecutive messages *)

Fixpoint gen {A} (f : Z -> Z -> A) (s i : Z) (k : nat) : list A :=
  match k with
  | O => []
  | S k' => f s i :: gen f (s + 1) (i + 1) k'
  end.

Lemma gen_S : forall A (f : Z -> Z -> A) k s i, gen f s i (S k) = f s i :: gen f (s + 1) (i + 1) k.
Proof. reflexivity. Qed.

Lemma gen_snoc : forall A (f : Z -> Z -> A) k s i,
  gen f s i (S k) = gen f s i k ++ [f (s + Z.of_nat k) (i + Z.of_nat k)].
Proof.
  induction k as [|k IH]; intros s i.
  - cbn. replace (s + 0) with s by lia. replace (i + 0) with i by lia. reflexivity.
  - change (gen f s i (S (S k))) with (f s i :: gen f (s + 1) (i + 1) (S k)).
    rewrite IH. cbn [gen app].
    replace (s + 1 + Z.of_nat k) with (s + Z.of_nat (S k)) by lia.
    replace (i + 1 + Z.of_nat k) with (i + Z.of_nat (S k)) by lia. reflexivity.
Qed.

Lemma gen_app : forall A (f : Z -> Z -> A) a b s i,
  gen f s i (a + b) = gen f s i a ++ gen f (s + Z.of_nat a) (i + Z.of_nat a) b.
Proof.
  induction a as [|a IH]; intros b s i.
  - cbn. replace (s + 0) with s by lia. replace (i + 0) with i by lia. reflexivity.
  - cbn [Nat.add gen app]. rewrite IH.
    replace (s + 1 + Z.of_nat a) with (s + Z.of_nat (S a)) by lia.
    replace (i + 1 + Z.of_nat a) with (i + Z.of_nat (S a)) by lia. reflexivity.
Qed.

Lemma gen_map : forall A B (g : A -> B) (f : Z -> Z -> A) k s i,
  map g (gen f s i k) = gen (fun s i => g (f s i)) s i k.
Proof. induction k as [|k IH]; intros; [reflexivity|]. cbn. rewrite IH. reflexivity. Qed.

Lemma gen_Forall : forall A (P : A -> Prop) (f : Z -> Z -> A) k s i,
  (forall j, (j < k)%nat -> P (f (s + Z.of_nat j) (i + Z.of_nat j))) -> Forall P (gen f s i k).
Proof.
  induction k as [|k IH]; intros s i H; [constructor|]. cbn. constructor.
  - specialize (H 0%nat). cbn in H. replace (s + 0) with s in H by lia. replace (i + 0) with i in H by lia. apply H. lia.
  - apply IH. intros j Hj. specialize (H (S j)).
    replace (s + 1 + Z.of_nat j) with (s + Z.of_nat (S j)) by lia.
    replace (i + 1 + Z.of_nat j) with (i + Z.of_nat (S j)) by lia. apply H. lia.
Qed.


(* ------------------------------------------------------------------ symbolic execution *)

Lemma in_i64_ok : forall z, 0 <= z <= I64MAX -> in_i64 z = true.
Proof. intros. unfold in_i64, I64MIN, I64MAX in *. lia. Qed.

(* decide one stuck integer comparison of the goal by lia *)
Ltac zb1 :=
  match goal with
  | |- context [?a <? ?b] =>
      first [ replace (a <? b) with true by (symmetry; apply Z.ltb_lt; lia)
            | replace (a <? b) with false by (symmetry; apply Z.ltb_ge; lia) ]
  | |- context [?a <=? ?b] =>
      first [ replace (a <=? b) with true by (symmetry; apply Z.leb_le; lia)
            | replace (a <=? b) with false by (symmetry; apply Z.leb_gt; lia) ]
  | |- context [?a =? ?b] =>
      first [ replace (a =? b) with true by (symmetry; apply Z.eqb_eq; lia)
            | replace (a =? b) with false by (symmetry; apply Z.eqb_neq; lia) ]
  end.

(* strict forms of the two monad combinators: one copy of the pending computation, forced by a match *)
Definition prepend {A} (e1 : list event) (r2 : res A) : res A :=
  match r2 with mkR v w e => mkR v w (e1 ++ e) end.

Lemma try_unfold : forall A (c : M A) w,
  try_ c w = match c w with
             | mkR (inl a) w1 e => mkR (inl (Some a)) w1 e
             | mkR (inr _) w1 e => mkR (inl None) w1 e
             end.
Proof. intros. unfold try_. destruct (c w) as [[a|x] w1 e]; reflexivity. Qed.

Lemma bind_unfold : forall A B (c : M A) (k : A -> M B) w,
  bind c k w = match c w with
               | mkR (inl a) w1 e1 => prepend e1 (k a w1)
               | mkR (inr x) w1 e1 => mkR (inr x) w1 e1
               end.
Proof.
  intros. unfold bind, prepend. destruct (c w) as [[a|x] w1 e]; [|reflexivity].
  cbn. destruct (k a w1); reflexivity.
Qed.

Lemma finally_unfold : forall A (c : M A) (f : M unit) w,
  finally_ c f w = match c w with
                   | mkR v w1 e1 =>
                       match f w1 with
                       | mkR (inl _) w2 e2 => mkR v w2 (e1 ++ e2)
                       | mkR (inr x) w2 e2 => mkR (inr x) w2 (e1 ++ e2)
                       end
                   end.
Proof.
  intros. unfold finally_. destruct (c w) as [v w1 e1]. cbn. destruct (f w1) as [[u|x] w2 e2]; reflexivity.
Qed.

Lemma prepend_prepend : forall A e1 e2 (r : res A), prepend e1 (prepend e2 r) = prepend (e1 ++ e2) r.
Proof. intros. destruct r. cbn. rewrite app_assoc. reflexivity. Qed.

(* One round of evaluation of a library call applied to a world:
   - the applied binds / trys in evaluation position are put in strict form,
   - everything except them, integer arithmetic and the operations on symbolic data is computed (cbv:
     no heuristics; continuations stay folded behind `bind`, so nothing is computed ahead of time),
   - the conditions that block the computation are decided: int(str(n)), 64-bit range checks, integer
     comparisons (lia), plus whatever facts the caller supplies (tac). *)
(* int() of a literal *)
Ltac py_lit :=
  match goal with
  | |- context [py_int ?s] =>
      let v := eval vm_compute in (py_int s) in
      match v with Some _ => idtac | None => idtac end;
      change (py_int s) with v
  end.

(* min / max of two numbers whose order lia knows *)
Ltac zmin1 :=
  match goal with
  | |- context [Z.min ?a ?b] =>
      first [ replace (Z.min a b) with a by (symmetry; apply Z.min_l; lia)
            | replace (Z.min a b) with b by (symmetry; apply Z.min_r; lia) ]
  | |- context [Z.max ?a ?b] =>
      first [ replace (Z.max a b) with a by (symmetry; apply Z.max_l; lia)
            | replace (Z.max a b) with b by (symmetry; apply Z.max_r; lia) ]
  end.

Ltac ev_step tac :=
  rewrite ?bind_unfold, ?try_unfold, ?finally_unfold;
  cbv beta iota zeta delta -[bind try_ finally_ Z.add Z.sub Z.mul Z.opp Z.ltb Z.leb Z.eqb Z.min Z.max Z.of_nat
                             py_int py_int_bytes z_to_dec in_i64 has_key existsb filter app sort_rows replay_loop gen
                             I64MAX I64MIN];
  cbn [filter app replay_loop];
  tac;
  try rewrite !py_int_dec by (unfold I64MAX; lia); try rewrite !py_int_bytes_dec by (unfold I64MAX; lia);
  try rewrite !in_i64_ok by (unfold I64MAX; lia); repeat py_lit; repeat zmin1; repeat zb1.
Ltac ev_with tac :=
  match goal with
  | |- _ = ?r =>
      let R := fresh "R" in let ER := fresh "ER" in
      unfold I64MAX, I64MIN in *; remember r as R eqn:ER; repeat (progress (ev_step tac)); subst R
  end.
Ltac ev := ev_with idtac.

(* close `computed result = stated result`: equal up to list re-association and linear arithmetic in the numbers *)
Ltac fin :=
  first [ reflexivity
        | rewrite <- ?app_assoc; cbn [app];
          repeat (first [ reflexivity | lia | f_equal ]) ].

(* debugging aid: print the computation that blocks *)
Ltac show_stuck :=
  match goal with
  | |- context [match ?t with mkR _ _ _ => _ end] =>
      lazymatch t with
      | match _ with mkR _ _ _ => _ end => fail
      | _ => idtac "STUCK:" t
      end
  end.

(* ------------------------------------------------------------------ the frames of the family *)

Definition wapp (c : cfg) (seq id : Z) : msg := mkMsg MT_D (wire_tags c seq (app_msg id)).
Definition wlogon (c : cfg) (seq : Z) : msg := mkMsg MT_LOGON (wire_tags c seq logon_msg).
Definition wrr (c : cfg) (seq b : Z) : msg :=
  mkMsg MT_RESENDREQUEST (wire_tags c seq (mkMsg MT_RESENDREQUEST [(T7, z_to_dec b); (T16, S_0)])).
(* the retransmission of wapp: same number, PossDupFlag, OrigSendingTime *)
Definition wpd (c : cfg) (seq id : Z) : msg :=
  mkMsg MT_D (wire_tags c seq (app_msg id) ++ [(T43, S_Y); (T122, c_time c)]).
Definition wgf (c : cfg) (b e : Z) : msg :=
  mkMsg MT_SEQUENCERESET (wire_tags c b (gap_fill b (z_to_dec e))).

(* worlds of the family: ACTIVE etc. with symbolic counters *)
Definition W (s r ni no mr lt : Z) (wrt : bool) (so si : Z) (rows : list (Z * msg)) (ins : list Z) : world :=
  mkW s r ni no mr None true lt wrt (mkJ so si rows ins).

Definition keys_lt (b : Z) (rows : list (Z * msg)) : Prop := Forall (fun r => fst r < b) rows.
Definition all_lt (b : Z) (l : list Z) : Prop := Forall (fun x => x < b) l.

Lemma has_key_lt : forall b rows, keys_lt b rows -> has_key b rows = false.
Proof.
  unfold has_key. induction rows as [|r rows IH]; intros H; [reflexivity|].
  inversion H; subst. cbn. rewrite IH by assumption.
  replace (fst r =? b) with false by (symmetry; apply Z.eqb_neq; lia). fin.
Qed.

Lemma existsb_lt : forall b l, all_lt b l -> existsb (Z.eqb b) l = false.
Proof.
  induction l as [|x l IH]; intros H; [reflexivity|].
  inversion H; subst. cbn. rewrite IH by assumption.
  replace (b =? x) with false by (symmetry; apply Z.eqb_neq; lia). fin.
Qed.

Lemma filter_true : forall A (f : A -> bool) l, Forall (fun x => f x = true) l -> filter f l = l.
Proof. induction l as [|x l IH]; intros H; [reflexivity|]. inversion H; subst. cbn. rewrite H2, IH by assumption. reflexivity. Qed.
Lemma filter_false : forall A (f : A -> bool) l, Forall (fun x => f x = false) l -> filter f l = [].
Proof. induction l as [|x l IH]; intros H; [reflexivity|]. inversion H; subst. cbn. rewrite H2, IH by assumption. reflexivity. Qed.

(* --- A: application send while ACTIVE *)
Lemma send_app_step : forall ni no lt si rows ins id,
  keys_lt no rows -> 0 < no <= I64MAX ->
  send_msg cfgA (app_msg id) (W 17 1 ni no 0 lt true (no - 1) si rows ins)
  = mkR (inl tt) (W 17 1 ni (no + 1) 0 lt true no si (rows ++ [(no, wapp cfgA no id)]) ins)
        [Wire (wapp cfgA no id)].
Proof.
  intros * K B. unfold W. pose proof (has_key_lt _ _ K) as HK.
  timeout 60 (ev_with ltac:(rewrite ?HK)). fin.
Qed.

(* --- B: application message with the expected number while ACTIVE *)
Lemma recv_app_active : forall ni no lt so si rows ins id,
  all_lt ni ins -> 0 < ni < I64MAX -> si = ni - 1 ->
  process_message cfgB (recv_of cfgB (wapp cfgA ni id)) NOW0 (W 17 2 ni no 0 lt true so si rows ins)
  = mkR (inl tt) (W 17 2 (ni + 1) no 0 NOW0 true so ni rows (ins ++ [ni]))
        [App (recv_of cfgB (wapp cfgA ni id))].
Proof.
  intros * K B ->. unfold W, process_message, validate_integrity.
  pose proof (existsb_lt _ _ K) as HK. timeout 60 (ev_with ltac:(rewrite ?HK)). fin.
Qed.

(* --- either side: the transport is lost while ACTIVE *)
Lemma disconnect_active : forall c r ni no mr lt so si rows ins,
  disconnect c ST_DISC_BROKEN None (W 17 r ni no mr lt true so si rows ins)
  = mkR (inl tt) (W 3 r ni no 0 0 false so si rows ins) [State 3; OnDisconnect].
Proof. intros. unfold W. ev. reflexivity. Qed.

(* --- A: Logon on the new transport *)
Lemma send_logon_step : forall ni no si rows ins,
  keys_lt no rows -> 0 < no <= I64MAX ->
  send_msg cfgA logon_msg (W 6 1 ni no 0 0 true (no - 1) si rows ins)
  = mkR (inl tt) (W 7 1 ni (no + 1) 0 0 true no si (rows ++ [(no, wlogon cfgA no)]) ins)
        [State 7; Wire (wlogon cfgA no)].
Proof.
  intros * K B. unfold W. pose proof (has_key_lt _ _ K) as HK.
  timeout 60 (ev_with ltac:(rewrite ?HK)). fin.
Qed.

Lemma filter_ins_lt : forall b l, all_lt b l -> forall c, b <= c -> filter (fun k : Z => k <? c) l = l.
Proof.
  intros b l H c Hc. apply filter_true. eapply Forall_impl; [|exact H]. cbn. intros a Ha. apply Z.ltb_lt. lia.
Qed.
Lemma filter_rows_lt : forall b rows, keys_lt b rows -> forall c, b <= c ->
  filter (fun r : Z * msg => (let (x, _) := r in x) <? c) rows = rows.
Proof.
  intros b l H c Hc. apply filter_true. eapply Forall_impl; [|exact H]. cbn. intros [a m] Ha. apply Z.ltb_lt. cbn in Ha. lia.
Qed.

(* --- B: the initiator's Logon on the new transport, numbered as expected (nothing was lost) *)
Lemma recv_logon_exact : forall ni no so si rows ins,
  all_lt ni ins -> keys_lt no rows -> 0 < ni < I64MAX -> 0 < no <= I64MAX -> so = no - 1 -> si = ni - 1 ->
  process_message cfgB (recv_of cfgB (wlogon cfgA ni)) NOW0
                  (W 6 2 ni no 0 0 true so si rows ins)
  = mkR (inl tt) (W 17 2 (ni + 1) (no + 1) 0 NOW0 true no ni (rows ++ [(no, wlogon cfgB no)]) (ins ++ [ni]))
        [State 8; Wire (wlogon cfgB no); State 17; OnLogon true].
Proof.
  intros * K1 K2 B1 B2 -> ->. unfold W, process_message, validate_integrity.
  pose proof (existsb_lt _ _ K1) as HK1. pose proof (has_key_lt _ _ K2) as HK2.
  timeout 60 (ev_with ltac:(rewrite ?HK1, ?HK2)). fin.
Qed.

(* --- B: the initiator's Logon is numbered above the expected number: Logon reply, one ResendRequest, wait *)
Lemma recv_logon_high : forall ni no so si rows ins s,
  keys_lt no rows -> 0 < ni < s -> s <= I64MAX -> 0 < no < I64MAX -> so = no - 1 ->
  process_message cfgB (recv_of cfgB (wlogon cfgA s)) NOW0
                  (W 6 2 ni no 0 0 true so si rows ins)
  = mkR (inl tt) (W 12 2 ni (no + 2) s 0 true (no + 1) si
                    (rows ++ [(no, wlogon cfgB no); (no + 1, wrr cfgB (no + 1) ni)]) ins)
        [State 8; Wire (wlogon cfgB no); State 11; OnLogon false; Wire (wrr cfgB (no + 1) ni); State 12].
Proof.
  intros * K2 B1 B2 B3 ->. unfold W, process_message, validate_integrity.
  assert (K3 : forall x, has_key (no + 1) (rows ++ [(no, x)]) = false).
  { intros x. apply has_key_lt. apply Forall_app. split; [eapply Forall_impl; [|exact K2]; cbn; intros; lia|].
    repeat constructor. cbn. lia. }
  pose proof (has_key_lt _ _ K2) as HK2.
  timeout 60 (ev_with ltac:(rewrite ?HK2, ?K3)). fin.
Qed.

(* --- A: the acceptor's Logon reply, numbered as expected *)
Lemma recv_logon_reply : forall ni no so si rows ins,
  all_lt ni ins -> 0 < ni < I64MAX -> si = ni - 1 ->
  process_message cfgA (recv_of cfgA (wlogon cfgB ni)) NOW0 (W 7 1 ni no 0 0 true so si rows ins)
  = mkR (inl tt) (W 17 1 (ni + 1) no 0 NOW0 true so ni rows (ins ++ [ni])) [State 17; OnLogon true].
Proof.
  intros * K1 B1 ->. unfold W, process_message, validate_integrity.
  pose proof (existsb_lt _ _ K1) as HK1. timeout 60 (ev_with ltac:(rewrite ?HK1)). fin.
Qed.

(* --- B, waiting for the resend: a retransmitted application message with the expected number below the watermark *)
Lemma recv_pd_awaiting : forall ni no mr lt so si rows ins id,
  all_lt ni ins -> 0 < ni < mr -> mr <= I64MAX -> si = ni - 1 ->
  process_message cfgB (recv_of cfgB (wpd cfgA ni id)) NOW0 (W 12 2 ni no mr lt true so si rows ins)
  = mkR (inl tt) (W 12 2 (ni + 1) no mr NOW0 true so ni rows (ins ++ [ni]))
        [App (recv_of cfgB (wpd cfgA ni id))].
Proof.
  intros * K1 B1 B2 ->. unfold W, process_message, validate_integrity.
  pose proof (existsb_lt _ _ K1) as HK1. timeout 60 (ev_with ltac:(rewrite ?HK1)). fin.
Qed.

(* --- B, waiting for the resend: the gap fill that reaches the watermark returns it to ACTIVE *)
Lemma recv_gf_awaiting : forall ni no so si rows ins,
  all_lt ni ins -> keys_lt no rows -> 0 < ni < I64MAX -> 0 < no <= I64MAX -> so = no - 1 -> si = ni - 1 ->
  process_message cfgB (recv_of cfgB (wgf cfgA ni (ni + 1))) NOW0 (W 12 2 ni no ni NOW0 true so si rows ins)
  = mkR (inl tt) (W 17 2 (ni + 1) no 0 NOW0 true so ni rows (ins ++ [ni])) [State 17].
Proof.
  intros * K1 K2 B1 B2 -> ->. unfold W, process_message, validate_integrity.
  pose proof (existsb_lt _ _ K1) as HK1.
  timeout 100 (ev_with ltac:(rewrite ?(filter_ins_lt _ _ K1) by lia; rewrite ?(filter_rows_lt _ _ K2) by lia; rewrite ?HK1)).
  fin.
Qed.

Definition rows_app (s i : Z) (k : nat) : list (Z * msg) := gen (fun s i => (s, wapp cfgA s i)) s i k.
Definition frames_app (s i : Z) (k : nat) : list msg := gen (fun s i => wapp cfgA s i) s i k.
Definition frames_pd (s i : Z) (k : nat) : list msg := gen (fun s i => wpd cfgA s i) s i k.
Definition texts (i : Z) (k : nat) : list str := gen (fun _ i => payload i) i i k.
Definition nums (s : Z) (k : nat) : list Z := gen (fun s _ => s) s s k.

Lemma keys_lt_app : forall b l1 l2, keys_lt b l1 -> keys_lt b l2 -> keys_lt b (l1 ++ l2).
Proof. intros. apply Forall_app. split; assumption. Qed.
Lemma keys_lt_weaken : forall b c l, keys_lt b l -> b <= c -> keys_lt c l.
Proof. intros b c l H Hc. eapply Forall_impl; [|exact H]. cbn. intros. lia. Qed.
Lemma all_lt_weaken : forall b c l, all_lt b l -> b <= c -> all_lt c l.
Proof. intros b c l H Hc. eapply Forall_impl; [|exact H]. cbn. intros. lia. Qed.
Lemma keys_lt_gen : forall (g : Z -> Z -> msg) k s i b, s + Z.of_nat k <= b -> keys_lt b (gen (fun s i => (s, g s i)) s i k).
Proof. intros. apply gen_Forall. intros j Hj. cbn. lia. Qed.
Lemma all_lt_nums : forall k s b, s + Z.of_nat k <= b -> all_lt b (nums s k).
Proof. intros. apply gen_Forall. intros j Hj. cbn. lia. Qed.

Lemma prepend_nil : forall A (r : res A), prepend [] r = r.
Proof. intros. destruct r. reflexivity. Qed.

(* --- A, servicing a ResendRequest: the loop over journaled application messages (the journal, the
       counters and the state are not touched: retransmissions are written, not journaled) *)
Lemma replay_apps : forall k s i gfe ni no lt so si rows ins rest,
  gfe <= s -> 0 < s -> s + Z.of_nat k <= I64MAX ->
  replay_loop cfgA (rows_app s i k ++ rest) s gfe (W 10 1 ni no 0 lt true so si rows ins)
  = prepend (map Wire (frames_pd s i k))
      (replay_loop cfgA rest (s + Z.of_nat k) gfe (W 10 1 ni no 0 lt true so si rows ins)).
Proof.
  induction k as [|k IH]; intros * G B1 B2.
  - cbn. rewrite prepend_nil. replace (s + 0) with s by lia. reflexivity.
  - unfold rows_app, frames_pd. cbn [gen app map].
    fold (rows_app (s + 1) (i + 1) k). fold (frames_pd (s + 1) (i + 1) k).
    remember (rows_app (s + 1) (i + 1) k ++ rest) as tl eqn:Etl.
    unfold W.
    timeout 100 (ev_with idtac).
    subst tl.
    specialize (IH (s + 1) (i + 1) gfe ni no lt so si rows ins rest ltac:(lia) ltac:(lia) ltac:(lia)).
    replace (s + 1 + Z.of_nat k) with (s + Z.of_nat (S k)) in IH by lia.
    lazymatch type of IH with
    | _ = ?rhs =>
        match goal with
        | |- context [replay_loop ?c ?l ?a ?g ?w] =>
            replace (replay_loop c l a g w) with rhs by (symmetry; exact IH)
        end
    end.
    destruct (replay_loop cfgA rest (s + Z.of_nat (S k)) gfe _) as [v w e]. reflexivity.
Qed.

(* --- lists of journal rows *)

Fixpoint incr (l : list (Z * msg)) : Prop :=
  match l with
  | [] => True
  | r :: l' => match l' with [] => True | r' :: _ => fst r <= fst r' end /\ incr l'
  end.

Lemma sort_rows_incr : forall l, incr l -> sort_rows l = l.
Proof.
  induction l as [|r l IH]; intros H; [reflexivity|].
  cbn [sort_rows fold_right]. fold (sort_rows l). destruct H as [H1 H2]. rewrite IH by assumption.
  destruct l as [|r' l']; [reflexivity|]. cbn [insert_row].
  replace (fst r <=? fst r') with true by (symmetry; apply Z.leb_le; lia). reflexivity.
Qed.

Lemma incr_gen_snoc : forall (g : Z -> Z -> msg) k s i L x,
  s + Z.of_nat k <= L -> incr (gen (fun s i => (s, g s i)) s i k ++ [(L, x)]).
Proof.
  induction k as [|k IH]; intros s i L x H; [cbn; auto|].
  cbn [gen app]. cbn [incr]. split.
  - destruct k; cbn; lia.
  - apply IH. lia.
Qed.

Lemma filter_app : forall A (f : A -> bool) l1 l2, filter f (l1 ++ l2) = filter f l1 ++ filter f l2.
Proof. induction l1 as [|x l1 IH]; intros; [reflexivity|]. cbn. destruct (f x); cbn; rewrite IH; reflexivity. Qed.

(* recover_messages(OUTBOUND, b, maxsize) on  pre ++ (k rows from b) ++ [row L] *)
Lemma recover_range : forall (g : Z -> Z -> msg) pre b i k L x M,
  keys_lt b pre -> b + Z.of_nat k <= L -> L <= M ->
  sort_rows (filter (fun r : Z * msg => (b <=? fst r) && (fst r <=? M))
                    (pre ++ gen (fun s i => (s, g s i)) b i k ++ [(L, x)]))
  = gen (fun s i => (s, g s i)) b i k ++ [(L, x)].
Proof.
  intros * K H1 H2. rewrite !filter_app.
  rewrite (filter_false _ _ pre).
  2:{ eapply Forall_impl; [|exact K]. cbn. intros [a m] Ha. cbn in *.
      replace (b <=? a) with false by (symmetry; apply Z.leb_gt; lia). reflexivity. }
  rewrite (filter_true _ _ (gen _ b i k)).
  2:{ apply gen_Forall. intros j Hj. cbn.
      replace (b <=? b + Z.of_nat j) with true by (symmetry; apply Z.leb_le; lia).
      replace (b + Z.of_nat j <=? M) with true by (symmetry; apply Z.leb_le; lia). reflexivity. }
  cbn [filter fst app].
  replace (b <=? L) with true by (symmetry; apply Z.leb_le; lia).
  replace (L <=? M) with true by (symmetry; apply Z.leb_le; lia). cbn [andb].
  apply sort_rows_incr. apply incr_gen_snoc. assumption.
Qed.

(* set_seq_num(next_num_out = b): rows at or above b go *)
Lemma truncate_at : forall pre post b,
  keys_lt b pre -> Forall (fun r : Z * msg => b <= fst r) post ->
  filter (fun r : Z * msg => fst r <? b) (pre ++ post) = pre.
Proof.
  intros * K P. rewrite filter_app, (filter_true _ _ pre), (filter_false _ _ post), app_nil_r; [reflexivity| |].
  - eapply Forall_impl; [|exact P]. cbn. intros [a m] Ha. apply Z.ltb_ge. assumption.
  - eapply Forall_impl; [|exact K]. cbn. intros [a m] Ha. apply Z.ltb_lt. assumption.
Qed.

Lemma keep_all : forall l c, keys_lt c l -> filter (fun r : Z * msg => fst r <? c) l = l.
Proof.
  intros l c K. apply filter_true. eapply Forall_impl; [|exact K]. cbn. intros [a m] Ha. apply Z.ltb_lt. assumption.
Qed.

Lemma ge_gen : forall (g : Z -> Z -> msg) k s i b, b <= s -> Forall (fun r : Z * msg => b <= fst r) (gen (fun s i => (s, g s i)) s i k).
Proof. intros. apply gen_Forall. intros j Hj. cbn. lia. Qed.

(* --- A, ACTIVE: the ResendRequest(b, 0) numbered as expected, over k journaled application messages
       b .. L-1 and the Logon L sent on the new transport: k retransmissions and one gap fill are written,
       the journal and next_num_out stay as they are *)
Lemma recv_resend_request : forall ni lt si pre ins b i k L,
  all_lt ni ins -> keys_lt b pre -> 0 < ni < I64MAX -> 0 < b -> L = b + Z.of_nat k -> L < I64MAX -> si = ni - 1 ->
  process_message cfgA (recv_of cfgA (wrr cfgB ni b)) NOW0
    (W 17 1 ni (L + 1) 0 lt true L si (pre ++ rows_app b i k ++ [(L, wlogon cfgA L)]) ins)
  = mkR (inl tt)
        (W 17 1 (ni + 1) (L + 1) 0 NOW0 true L ni (pre ++ rows_app b i k ++ [(L, wlogon cfgA L)]) (ins ++ [ni]))
        ([State 10] ++ map Wire (frames_pd b i k) ++ [Wire (wgf cfgA L (L + 1)); State 17]).
Proof.
  intros * K1 K2 B1 B2 EL B3 ->. unfold W, process_message, validate_integrity.
  pose proof (existsb_lt _ _ K1) as HK1.
  timeout 100 (ev_with ltac:(rewrite ?HK1)).
  match goal with |- context [sort_rows (filter ?f ?l)] =>
    replace (sort_rows (filter f l)) with (rows_app b i k ++ [(L, wlogon cfgA L)])
      by (symmetry; apply recover_range; [exact K2 | lia | lia]) end.
  match goal with |- context [replay_loop ?c ?l ?a ?g ?w] =>
    replace (replay_loop c l a g w)
      with (prepend (map Wire (frames_pd b i k))
              (replay_loop cfgA [(L, wlogon cfgA L)] (b + Z.of_nat k) b w))
      by (symmetry; apply replay_apps; [lia | lia | unfold I64MAX; lia]) end.
  timeout 100 (ev_with ltac:(rewrite ?HK1)).
  subst L. fin.
Qed.

(* ------------------------------------------------------------------ the network level *)

Lemma text_of_app : forall c c' s i, get T58 (mtags (recv_of c (wapp c' s i))) = Some (payload i).
Proof. reflexivity. Qed.
Lemma text_of_pd : forall c c' s i, get T58 (mtags (recv_of c (wpd c' s i))) = Some (payload i).
Proof. reflexivity. Qed.

(* Net.v operations are opened; the library calls on a world stay folded for the step lemmas *)
Ltac nopen :=
  cbn -[Nat.ltb length drain run process_message send_msg disconnect recv_of wapp wlogon wrr wpd wgf
        rows_app frames_app frames_pd texts nums Z.add Z.sub Z.of_nat gen payload app_msg logon_msg].

Definition net_up : net :=
  mkNet (W 17 1 2 2 0 NOW0 true 1 1 [(1, wlogon cfgA 1)] [1])
        (W 17 2 2 2 0 NOW0 true 1 1 [(1, wlogon cfgB 1)] [1]) [] [] [] [] [] [] 1.

Lemma first_logon : run net0 [AReconnect; ADeliver SB; ADeliver SA] = net_up.
Proof. vm_compute. reflexivity. Qed.

(* n application sends of A while ACTIVE *)
Lemma sends_A : forall k ni no lt so si rows ins wbv abv bav gav gbv sav sbv id,
  keys_lt no rows -> 0 < no -> no + Z.of_nat k <= I64MAX -> so = no - 1 ->
  run (mkNet (W 17 1 ni no 0 lt true so si rows ins) wbv abv bav gav gbv sav sbv id) (repeat (ASend SA) k)
  = mkNet (W 17 1 ni (no + Z.of_nat k) 0 lt true (so + Z.of_nat k) si (rows ++ rows_app no id k) ins) wbv
          (abv ++ frames_app no id k) bav gav gbv (sav ++ texts id k) sbv (id + Z.of_nat k).
Proof.
  induction k as [|k IH]; intros * K B1 B2 E.
  - cbn. rewrite !app_nil_r. replace (no + 0) with no by lia. replace (so + 0) with so by lia.
    replace (id + 0) with id by lia. reflexivity.
  - subst so. cbn [repeat run fold_left]. fold (run (step (ASend SA) (mkNet (W 17 1 ni no 0 lt true (no - 1) si rows ins) wbv abv bav gav gbv sav sbv id)) (repeat (ASend SA) k)).
    unfold step, do_send. nopen.
    rewrite (send_app_step ni no lt si rows ins id K) by (unfold I64MAX in *; lia).
    nopen. rewrite app_nil_r.
    rewrite IH; [ | | lia | unfold I64MAX in *; lia | lia ].
    + unfold rows_app, frames_app, texts. cbn [gen]. rewrite <- !app_assoc. cbn [app].
      repeat (first [ reflexivity | lia | f_equal ]).
    + apply keys_lt_app; [eapply keys_lt_weaken; [exact K|lia]|]. repeat constructor. cbn. lia.
Qed.

(* k deliveries of consecutive application messages to B while ACTIVE *)
Lemma delivers_B : forall k s i nob sob si rowsb insb wav rest bav gav gbv sav sbv id,
  all_lt s insb -> 0 < s -> s + Z.of_nat k < I64MAX -> si = s - 1 ->
  run (mkNet wav (W 17 2 s nob 0 NOW0 true sob si rowsb insb) (frames_app s i k ++ rest) bav gav gbv sav sbv id)
      (repeat (ADeliver SB) k)
  = mkNet wav (W 17 2 (s + Z.of_nat k) nob 0 NOW0 true sob (si + Z.of_nat k) rowsb (insb ++ nums s k))
          rest bav gav (gbv ++ map Some (texts i k)) sav sbv id.
Proof.
  induction k as [|k IH]; intros * K B1 B2 E.
  - cbn. rewrite !app_nil_r. replace (s + 0) with s by lia. replace (si + 0) with si by lia. reflexivity.
  - subst si. unfold frames_app. cbn [gen app repeat run fold_left]. fold (frames_app (s + 1) (i + 1) k).
    match goal with |- fold_left ?f ?l ?x = _ => change (fold_left f l x) with (run x l) end.
    unfold step, do_deliver. nopen.
    rewrite (recv_app_active s nob NOW0 sob (s - 1) rowsb insb i K) by (unfold I64MAX in *; lia).
    nopen. rewrite text_of_app, app_nil_r.
    rewrite IH; [ | | lia | unfold I64MAX in *; lia | lia ].
    + unfold nums, texts. cbn [gen map]. rewrite <- !app_assoc. cbn [app].
      repeat (first [ reflexivity | lia | f_equal ]).
    + apply Forall_app. split; [eapply all_lt_weaken; [exact K|lia]|]. repeat constructor. lia.
Qed.

Lemma run_app : forall l1 l2 n, run n (l1 ++ l2) = run (run n l1) l2.
Proof. intros. unfold run. apply fold_left_app. Qed.

Lemma wires_app : forall a b, wires (a ++ b) = wires a ++ wires b.
Proof. intros. unfold wires. apply flat_map_app. Qed.
Lemma apps_app : forall a b, apps (a ++ b) = apps a ++ apps b.
Proof. intros. unfold apps. apply flat_map_app. Qed.
Lemma wires_map_wire : forall l, wires (map Wire l) = l.
Proof. induction l as [|m l IH]; [reflexivity|]. cbn. f_equal. exact IH. Qed.
Lemma apps_map_wire : forall l, apps (map Wire l) = [].
Proof. induction l as [|m l IH]; [reflexivity|]. cbn. exact IH. Qed.

Ltac refold :=
  repeat match goal with
         | |- context [flat_map ?f ?x] =>
             first [ progress change (flat_map f x) with (wires x)
                   | progress change (flat_map f x) with (apps x) ]
         end.

Lemma drain_S : forall f n,
  drain (S f) n = if pending SB n then drain f (do_deliver SB n)
                  else if pending SA n then drain f (do_deliver SA n) else n.
Proof. reflexivity. Qed.

(* the retransmitted application messages reach B while it waits for the resend *)
Lemma drain_pd : forall k f s i mr lt nob sob si rowsb insb wav rest bav gav gbv sav sbv id,
  all_lt s insb -> 0 < s -> s + Z.of_nat (S k) <= mr -> mr <= I64MAX -> si = s - 1 ->
  drain (S k + f) (mkNet wav (W 12 2 s nob mr lt true sob si rowsb insb) (frames_pd s i (S k) ++ rest) bav gav gbv sav sbv id)
  = drain f (mkNet wav (W 12 2 (s + Z.of_nat (S k)) nob mr NOW0 true sob (si + Z.of_nat (S k)) rowsb (insb ++ nums s (S k)))
                   rest bav gav (gbv ++ map Some (texts i (S k))) sav sbv id).
Proof.
  induction k as [|k IH]; intros * K B1 B2 B3 E; subst si.
  - cbn [Nat.add]. rewrite drain_S. unfold frames_pd. cbn [gen app].
    unfold pending at 1. nopen. unfold do_deliver. nopen.
    rewrite (recv_pd_awaiting s nob mr lt sob (s - 1) rowsb insb i K) by (unfold I64MAX in *; lia).
    nopen. rewrite text_of_pd, app_nil_r.
    unfold nums, texts. cbn [gen map].
    repeat (first [ reflexivity | lia | f_equal ]).
  - change (S (S k) + f)%nat with (S (S k + f)). rewrite drain_S. unfold frames_pd. rewrite (gen_S _ _ (S k)). cbn [app].
    fold (frames_pd (s + 1) (i + 1) (S k)).
    unfold pending at 1. nopen. unfold do_deliver. nopen.
    rewrite (recv_pd_awaiting s nob mr lt sob (s - 1) rowsb insb i K) by (unfold I64MAX in *; lia).
    nopen. rewrite text_of_pd, app_nil_r.
    change (S (k + f)) with (S k + f)%nat. rewrite IH; [ | | lia | lia | lia | lia ].
    + unfold nums, texts. cbn [gen map]. rewrite <- !app_assoc. cbn [app].
      repeat (first [ reflexivity | lia | f_equal ]).
    + apply Forall_app. split; [eapply all_lt_weaken; [exact K|lia]|]. repeat constructor. lia.
Qed.

(* ------------------------------------------------------------------ the single-break family *)

(* first Logon exchange; A sends d + k application messages; the first d reach B; the link breaks *)
Definition sched_before (d k : nat) : list action :=
  [AReconnect; ADeliver SB; ADeliver SA] ++ repeat (ASend SA) (d + k) ++ repeat (ADeliver SB) d.
Definition sched_prefix (d k : nat) : list action := sched_before d k ++ [ABreak].

Definition LA1 : Z * msg := (1, wlogon cfgA 1).
Definition LB1 : Z * msg := (1, wlogon cfgB 1).

Definition net_broken (d k : nat) : net :=
  let n := Z.of_nat (d + k) in
  mkNet (W 3 1 2 (2 + n) 0 0 false (1 + n) 1 ([LA1] ++ rows_app 2 1 (d + k)) [1])
        (W 3 2 (2 + Z.of_nat d) 2 0 0 false 1 (1 + Z.of_nat d) [LB1] ([1] ++ nums 2 d))
        [] [] [] ([] ++ map Some (texts 1 d)) ([] ++ texts 1 (d + k)) [] (1 + n).

(* the moment before the break: the last k application frames are in flight, nothing else *)
Definition net_before (d k : nat) : net :=
  let n := Z.of_nat (d + k) in
  mkNet (W 17 1 2 (2 + n) 0 NOW0 true (1 + n) 1 ([LA1] ++ rows_app 2 1 (d + k)) [1])
        (W 17 2 (2 + Z.of_nat d) 2 0 NOW0 true 1 (1 + Z.of_nat d) [LB1] ([1] ++ nums 2 d))
        (frames_app (2 + Z.of_nat d) (1 + Z.of_nat d) k) [] [] ([] ++ map Some (texts 1 d)) ([] ++ texts 1 (d + k)) [] (1 + n).

Lemma at_before : forall d k, Z.of_nat (d + k) + 3 <= I64MAX -> run net0 (sched_before d k) = net_before d k.
Proof.
  intros d k B. unfold sched_before. rewrite run_app, first_logon. unfold net_up.
  rewrite run_app.
  rewrite (sends_A (d + k) 2 2 NOW0 1 1 [LA1] [1]); [ | repeat constructor; cbn; lia | lia | lia | lia ].
  unfold frames_app at 1. rewrite gen_app. fold (frames_app 2 1 d).
  cbn [app].
  rewrite (delivers_B d 2 1 2 1 1 [LB1] [1]); [ | repeat constructor; lia | lia | unfold I64MAX in *; lia | lia ].
  reflexivity.
Qed.

Lemma at_break : forall d k, Z.of_nat (d + k) + 3 <= I64MAX -> run net0 (sched_prefix d k) = net_broken d k.
Proof.
  intros d k B. unfold sched_prefix. rewrite run_app, at_before by assumption. unfold net_before.
  cbn [run fold_left]. unfold step, do_break. nopen.
  rewrite !disconnect_active. nopen. rewrite ?app_nil_r. reflexivity.
Qed.

(* ... the same two objects get a new transport and the initiator sends Logon *)
Definition net_reconnected (d k : nat) : net :=
  let n := Z.of_nat (d + k) in
  mkNet (W 7 1 2 (3 + n) 0 0 true (2 + n) 1 (([LA1] ++ rows_app 2 1 (d + k)) ++ [(2 + n, wlogon cfgA (2 + n))]) [1])
        (W 6 2 (2 + Z.of_nat d) 2 0 0 true 1 (1 + Z.of_nat d) [LB1] ([1] ++ nums 2 d))
        [wlogon cfgA (2 + n)] [] [] ([] ++ map Some (texts 1 d)) ([] ++ texts 1 (d + k)) [] (1 + n).

Lemma at_reconnect : forall d k, Z.of_nat (d + k) + 3 <= I64MAX ->
  do_reconnect (net_broken d k) = net_reconnected d k.
Proof.
  intros d k B. unfold net_broken, do_reconnect. nopen.
  change (set_wr true (set_st ST_NCE (W 3 1 2 (2 + Z.of_nat (d + k)) 0 0 false (1 + Z.of_nat (d + k)) 1 (LA1 :: rows_app 2 1 (d + k)) [1])))
    with (W 6 1 2 (2 + Z.of_nat (d + k)) 0 0 true (1 + Z.of_nat (d + k)) 1 (LA1 :: rows_app 2 1 (d + k)) [1]).
  replace (1 + Z.of_nat (d + k)) with (2 + Z.of_nat (d + k) - 1) by lia.
  rewrite send_logon_step; [ | | unfold I64MAX in *; lia ].
  - nopen. unfold net_reconnected. cbn [app].
    change (set_wr true (set_st ST_NCE (W 3 2 (2 + Z.of_nat d) 2 0 0 false 1 (1 + Z.of_nat d) [LB1] (1 :: nums 2 d))))
      with (W 6 2 (2 + Z.of_nat d) 2 0 0 true 1 (1 + Z.of_nat d) [LB1] (1 :: nums 2 d)).
    repeat (first [ reflexivity | lia | f_equal ]).
  - constructor; [unfold LA1; cbn [fst]; lia|]. apply keys_lt_gen. lia.
Qed.

Lemma drain_quiet : forall f n, pending SB n = false -> pending SA n = false -> drain f n = n.
Proof. intros f n H1 H2. destruct f; [reflexivity|]. rewrite drain_S, H1, H2. reflexivity. Qed.

(* --- nothing was in flight (k = 0): Logon, Logon reply, both ACTIVE *)
Definition net_final0 (d : nat) : net :=
  let n := Z.of_nat d in
  mkNet (W 17 1 3 (3 + n) 0 NOW0 true (2 + n) 2 (([LA1] ++ rows_app 2 1 d) ++ [(2 + n, wlogon cfgA (2 + n))]) [1; 2])
        (W 17 2 (3 + n) 3 0 NOW0 true 2 (2 + n) [LB1; (2, wlogon cfgB 2)] (([1] ++ nums 2 d) ++ [2 + n]))
        [] [] [] (map Some (texts 1 d)) (texts 1 d) [] (1 + n).

Lemma recovery_none : forall d f, Z.of_nat d + 3 <= I64MAX ->
  drain (S (S f)) (net_reconnected d 0) = net_final0 d.
Proof.
  intros d f B. unfold net_reconnected. rewrite Nat.add_0_r.
  rewrite drain_S. unfold pending at 1. nopen. unfold do_deliver. nopen.
  rewrite (recv_logon_exact (2 + Z.of_nat d) 2 1 (1 + Z.of_nat d) [LB1] (1 :: nums 2 d));
    [ | constructor; [lia|apply all_lt_nums; lia] | repeat constructor; cbn [fst LB1]; unfold LB1; cbn [fst]; lia
      | unfold I64MAX in *; lia | unfold I64MAX in *; lia | lia | lia ].
  nopen.
  rewrite drain_S. nopen. unfold do_deliver. nopen.
  rewrite (recv_logon_reply 2 (3 + Z.of_nat d) (2 + Z.of_nat d) 1 _ [1]);
    [ | repeat constructor; lia | unfold I64MAX in *; lia | lia ].
  nopen. rewrite drain_quiet; [ | reflexivity | reflexivity ].
  unfold net_final0. rewrite !app_nil_r. cbn [app].
  repeat (first [ reflexivity | lia | f_equal ]).
Qed.


(* --- the last k + 1 messages were in flight: Logon, Logon reply + ResendRequest, replay + gap fill *)
Definition net_final (d k : nat) : net :=
  let n := Z.of_nat (d + S k) in
  let b := 2 + Z.of_nat d in
  mkNet (W 17 1 4 (3 + n) 0 NOW0 true (2 + n) 3
           ((LA1 :: rows_app 2 1 d) ++ rows_app b (1 + Z.of_nat d) (S k) ++ [(2 + n, wlogon cfgA (2 + n))]) [1; 2; 3])
        (W 17 2 (3 + n) 4 0 NOW0 true 3 (2 + n) [LB1; (2, wlogon cfgB 2); (3, wrr cfgB 3 b)]
           (((1 :: nums 2 d) ++ nums b (S k)) ++ [2 + n]))
        [] [] [] (map Some (texts 1 d) ++ map Some (texts (1 + Z.of_nat d) (S k))) (texts 1 (d + S k)) [] (1 + n).

Lemma recovery_some : forall d k f, Z.of_nat (d + S k) + 3 <= I64MAX ->
  drain (3 + (S k + S f)) (net_reconnected d (S k)) = net_final d k.
Proof.
  intros d k f B. unfold net_reconnected.
  set (n := Z.of_nat (d + S k)) in *. set (b := 2 + Z.of_nat d).
  assert (Hn : n = Z.of_nat d + Z.of_nat (S k)) by (unfold n; lia).
  cbn [Nat.add].
  (* B: Logon numbered above the expected number *)
  rewrite drain_S. unfold pending at 1. nopen. unfold do_deliver. nopen.
  rewrite (recv_logon_high b 2 1 (1 + Z.of_nat d) [LB1] (1 :: nums 2 d) (2 + n));
    [ | repeat constructor; unfold LB1; cbn [fst]; lia | unfold b; lia | unfold I64MAX in *; lia | unfold I64MAX; lia | lia ].
  nopen.
  (* A: Logon reply *)
  rewrite drain_S. nopen. unfold do_deliver. nopen.
  rewrite (recv_logon_reply 2 (3 + n) (2 + n) 1 _ [1]);
    [ | repeat constructor; lia | unfold I64MAX in *; lia | lia ].
  nopen.
  (* A: ResendRequest *)
  rewrite drain_S. nopen. unfold do_deliver. nopen.
  replace (rows_app 2 1 (d + S k)) with (rows_app 2 1 d ++ rows_app b (1 + Z.of_nat d) (S k))
    by (unfold rows_app; rewrite gen_app; reflexivity).
  rewrite <- app_assoc.
  change (LA1 :: rows_app 2 1 d ++ rows_app b (1 + Z.of_nat d) (S k) ++ [(2 + n, wlogon cfgA (2 + n))])
    with ((LA1 :: rows_app 2 1 d) ++ rows_app b (1 + Z.of_nat d) (S k) ++ [(2 + n, wlogon cfgA (2 + n))]).
  replace (3 + n) with (2 + n + 1) by lia.
  rewrite (recv_resend_request (2 + 1) NOW0 2 (LA1 :: rows_app 2 1 d) [1; 2] b (1 + Z.of_nat d) (S k) (2 + n));
    [ | repeat constructor; lia
      | constructor; [unfold LA1; cbn [fst]; unfold b; lia | apply keys_lt_gen; unfold b; lia]
      | unfold I64MAX; lia | unfold b; lia | unfold b; lia | unfold I64MAX in *; lia | lia ].
  nopen. refold. rewrite wires_app, apps_app, wires_map_wire, apps_map_wire. nopen.
  (* B: the k + 1 retransmissions *)
  change (S (k + S f)) with (S k + S f)%nat.
  rewrite (drain_pd k (S f) b (1 + Z.of_nat d) (2 + n) 0 (2 + 2) (2 + 1) (1 + Z.of_nat d));
    [ | constructor; [unfold b; lia | apply all_lt_nums; unfold b; lia] | unfold b; lia | unfold b; lia
      | unfold I64MAX in *; lia | unfold b; lia ].
  (* B: the gap fill over the Logon *)
  rewrite drain_S. unfold pending at 1. nopen. unfold do_deliver. nopen.
  replace (b + Z.of_nat (S k)) with (2 + n) by (unfold b; lia).
  rewrite (recv_gf_awaiting (2 + n) (2 + 2) (2 + 1) (1 + Z.of_nat d + Z.of_nat (S k)));
    [ | constructor; [lia | apply Forall_app; split; apply all_lt_nums; unfold b; lia]
      | repeat constructor; unfold LB1; cbn [fst]; lia
      | unfold I64MAX in *; lia | unfold I64MAX; lia | lia | lia ].
  nopen. rewrite drain_quiet; [ | reflexivity | reflexivity ].
  unfold net_final. fold n. fold b. rewrite !app_nil_r. cbn [app].
  repeat (first [ reflexivity | lia | f_equal ]).
Qed.




(* ------------------------------------------------------------------ the theorem of the family *)

Lemma ostr_list_eqb_refl : forall l, ostr_list_eqb (map Some l) (map Some l) = true.
Proof.
  induction l as [|x l IH]; [reflexivity|]. cbn. rewrite IH.
  assert (E : str_eqb x x = true) by (apply str_eqb_eq; reflexivity). rewrite E. reflexivity.
Qed.

Lemma texts_split : forall d k, texts 1 (d + k) = texts 1 d ++ texts (1 + Z.of_nat d) k.
Proof. intros. unfold texts. rewrite gen_app. reflexivity. Qed.

(* what the property asks of a settled state, spelled out *)
Definition recovered (s : net) (n : nat) : Prop :=
  quiescent s = true
  /\ st (wa s) = ST_ACTIVE /\ st (wb s) = ST_ACTIVE
  /\ nin (wa s) = nout (wb s) /\ nin (wb s) = nout (wa s)
  /\ sa s = texts 1 n                    (* A's n sends were all accepted: m1 .. mn *)
  /\ gb s = map Some (texts 1 n)         (* B's application got exactly those, once, in order *)
  /\ sb s = [] /\ ga s = []
  /\ holds s = true.

Lemma settle_broken : forall d k fuel, Z.of_nat (d + k) + 3 <= I64MAX ->
  settle fuel (net_broken d k) = drain fuel (net_reconnected d k).
Proof.
  intros d k fuel B. unfold settle.
  rewrite (drain_quiet fuel (net_broken d k)) by reflexivity.
  replace (link_down (net_broken d k)) with true by reflexivity.
  rewrite at_reconnect by assumption. reflexivity.
Qed.

Lemma holds_intro : forall s,
  quiescent s = true -> st (wa s) = ST_ACTIVE -> st (wb s) = ST_ACTIVE ->
  nin (wa s) = nout (wb s) -> nin (wb s) = nout (wa s) ->
  gb s = map Some (sa s) -> ga s = map Some (sb s) -> holds s = true.
Proof.
  intros s Q A B1 N1 N2 G1 G2. unfold holds, some_all.
  rewrite Q, A, B1, N1, N2, G1, G2, !Z.eqb_refl, !ostr_list_eqb_refl. reflexivity.
Qed.

Lemma final0_recovered : forall d, recovered (net_final0 d) (d + 0).
Proof.
  intros d. rewrite Nat.add_0_r.
  assert (H : holds (net_final0 d) = true) by (apply holds_intro; reflexivity).
  unfold recovered. rewrite H. unfold net_final0. cbn [wa wb ab ba ga gb sa sb nid].
  repeat split; reflexivity.
Qed.

Lemma final_recovered : forall d k, recovered (net_final d k) (d + S k).
Proof.
  intros d k.
  assert (G : gb (net_final d k) = map Some (texts 1 (d + S k))).
  { unfold net_final. cbn [gb]. rewrite <- map_app, <- texts_split. reflexivity. }
  assert (H : holds (net_final d k) = true).
  { apply holds_intro; try reflexivity. rewrite G. reflexivity. }
  unfold recovered. rewrite H, G. unfold net_final. cbn [wa wb ab ba ga gb sa sb nid].
  repeat split; reflexivity.
Qed.

Theorem single_break : forall d k fuel,
  Z.of_nat (d + k) + 3 <= I64MAX -> (k + 4 <= fuel)%nat ->
  recovered (settle fuel (run net0 (sched_prefix d k))) (d + k).
Proof.
  intros d k fuel B F. rewrite at_break, settle_broken by assumption.
  destruct k as [|k].
  - destruct fuel as [|[|f]]; [lia|lia|]. rewrite recovery_none by (rewrite Nat.add_0_r in B; exact B).
    apply final0_recovered.
  - replace fuel with (3 + (S k + S (fuel - (S k + 4))))%nat by lia.
    rewrite recovery_some by assumption. apply final_recovered.
Qed.

(* ------------------------------------------------------------------ resend replies in flight, and the former witnesses *)

(* a reply to a ResendRequest: a retransmission (PossDupFlag = Y) or a SequenceReset-GapFill *)
Definition is_reply (m : msg) : bool :=
  match get T43 (mtags m) with
  | Some v => str_eqb v S_Y
  | None => match mkind m, get T123 (mtags m) with
            | KSeqReset, Some v => str_eqb v S_Y
            | _, _ => false
            end
  end.

(* the former known-finding class C07-break-loses-resend-reply (before the D12 repair), on the state in which the link breaks *)
Definition reply_in_flight (n : net) : bool := existsb is_reply (ab n ++ ba n).

(* the schedules of the proved family are outside the class *)
Lemma family_outside_class : forall d k, reply_in_flight (net_before d k) = false.
Proof.
  intros d k. unfold reply_in_flight, net_before. cbn [ab ba]. rewrite app_nil_r.
  apply not_true_is_false. intros H. apply existsb_exists in H. destruct H as [m [Hin Hm]].
  assert (F : Forall (fun m => is_reply m = false) (frames_app (2 + Z.of_nat d) (1 + Z.of_nat d) k)).
  { apply gen_Forall. intros j Hj. reflexivity. }
  rewrite Forall_forall in F. rewrite (F m Hin) in Hm. discriminate.
Qed.

Theorem single_break_nk : forall n k fuel,
  (k <= n)%nat -> Z.of_nat n + 3 <= I64MAX -> (k + 4 <= fuel)%nat ->
  reply_in_flight (run net0 (sched_before (n - k) k)) = false
  /\ recovered (settle fuel (run net0 (sched_before (n - k) k ++ [ABreak]))) n.
Proof.
  intros n k fuel K B F.
  assert (E : (n - k + k)%nat = n) by lia.
  split.
  - rewrite at_before by (rewrite E; exact B). apply family_outside_class.
  - pose proof (single_break (n - k) k fuel) as H. rewrite E in H. apply H; assumption.
Qed.

(* D13, repaired: the replay of the lost message is lost too (a reply is in flight at the second break); the
   second ResendRequest is served from the untouched journal *)
Definition sched_double_break : list action :=
  [AReconnect; ADeliver SB; ADeliver SA; ASend SA; ABreak;
   AReconnect; ADeliver SB; ADeliver SA; ADeliver SA; ABreak].

Lemma double_break_recovers :
  let before := run net0 (firstn 9 sched_double_break) in
  let n := settle 80 (run net0 sched_double_break) in
  reply_in_flight before = true
  /\ sa n = [payload 1] /\ gb n = [Some (payload 1)] /\ quiescent n = true /\ holds n = true
  /\ st (wa n) = ST_ACTIVE /\ st (wb n) = ST_ACTIVE /\ nout (wa n) = 5 /\ nin (wb n) = 5.
Proof. vm_compute. repeat split. Qed.

(* formerly the silent loss: a gap fill is lost, then an application message is lost behind it *)
Definition sched_gap_fill_lost : list action :=
  [AReconnect; ABreak; AReconnect; ADeliver SB; ADeliver SA; ADeliver SA; ASend SA; ABreak].

Lemma gap_fill_lost_recovers :
  let before := run net0 (firstn 7 sched_gap_fill_lost) in
  let n := settle 80 (run net0 sched_gap_fill_lost) in
  reply_in_flight before = true
  /\ sa n = [payload 1] /\ gb n = [Some (payload 1)] /\ quiescent n = true /\ holds n = true
  /\ st (wa n) = ST_ACTIVE /\ st (wb n) = ST_ACTIVE
  /\ nin (wa n) = nout (wb n) /\ nin (wb n) = nout (wa n).
Proof. vm_compute. repeat split. Qed.

(* non-vacuity / cross-check by computation: n = 3, the last k = 2 in flight *)
Lemma family_instance :
  let n := settle 10 (run net0 (sched_before 1 2 ++ [ABreak])) in
  holds n = true /\ gb n = [Some (payload 1); Some (payload 2); Some (payload 3)]
  /\ nin (wb n) = 6 /\ nout (wa n) = 6 /\ nin (wa n) = 4 /\ nout (wb n) = 4.
Proof. vm_compute. repeat split. Qed.

(* computed instances in the other direction and in both directions at once (exploration, not the theorem) *)
Lemma instance_B_to_A :
  holds (settle 20 (run net0 [AReconnect; ADeliver SB; ADeliver SA; ASend SB; ASend SB; ADeliver SA; ABreak])) = true.
Proof. vm_compute. reflexivity. Qed.
Lemma instance_both_directions :
  holds (settle 20 (run net0 [AReconnect; ADeliver SB; ADeliver SA; ASend SA; ASend SB; ASend SA; ABreak])) = true.
Proof. vm_compute. reflexivity. Qed.

(* ------------------------------------------------------------------ the mirror image: B sends, A misses *)
(* The step lemmas below are the ones above with the two ends exchanged (cfgA <-> cfgB, role 1 <-> 2);
   the proof scripts are identical. *)

Definition rows_app_m (s i : Z) (k : nat) : list (Z * msg) := gen (fun s i => (s, wapp cfgB s i)) s i k.
Definition frames_app_m (s i : Z) (k : nat) : list msg := gen (fun s i => wapp cfgB s i) s i k.
Definition frames_pd_m (s i : Z) (k : nat) : list msg := gen (fun s i => wpd cfgB s i) s i k.

Lemma send_app_step_m : forall ni no lt si rows ins id,
  keys_lt no rows -> 0 < no <= I64MAX ->
  send_msg cfgB (app_msg id) (W 17 2 ni no 0 lt true (no - 1) si rows ins)
  = mkR (inl tt) (W 17 2 ni (no + 1) 0 lt true no si (rows ++ [(no, wapp cfgB no id)]) ins)
        [Wire (wapp cfgB no id)].
Proof.
  intros * K B. unfold W. pose proof (has_key_lt _ _ K) as HK.
  timeout 60 (ev_with ltac:(rewrite ?HK)). fin.
Qed.

Lemma recv_app_active_m : forall ni no lt so si rows ins id,
  all_lt ni ins -> 0 < ni < I64MAX -> si = ni - 1 ->
  process_message cfgA (recv_of cfgA (wapp cfgB ni id)) NOW0 (W 17 1 ni no 0 lt true so si rows ins)
  = mkR (inl tt) (W 17 1 (ni + 1) no 0 NOW0 true so ni rows (ins ++ [ni]))
        [App (recv_of cfgA (wapp cfgB ni id))].
Proof.
  intros * K B ->. unfold W, process_message, validate_integrity.
  pose proof (existsb_lt _ _ K) as HK. timeout 60 (ev_with ltac:(rewrite ?HK)). fin.
Qed.

Lemma recv_pd_awaiting_m : forall ni no mr lt so si rows ins id,
  all_lt ni ins -> 0 < ni < mr -> mr <= I64MAX -> si = ni - 1 ->
  process_message cfgA (recv_of cfgA (wpd cfgB ni id)) NOW0 (W 12 1 ni no mr lt true so si rows ins)
  = mkR (inl tt) (W 12 1 (ni + 1) no mr NOW0 true so ni rows (ins ++ [ni]))
        [App (recv_of cfgA (wpd cfgB ni id))].
Proof.
  intros * K1 B1 B2 ->. unfold W, process_message, validate_integrity.
  pose proof (existsb_lt _ _ K1) as HK1. timeout 60 (ev_with ltac:(rewrite ?HK1)). fin.
Qed.

Lemma recv_gf_awaiting_m : forall ni no so si rows ins,
  all_lt ni ins -> keys_lt no rows -> 0 < ni < I64MAX -> 0 < no <= I64MAX -> so = no - 1 -> si = ni - 1 ->
  process_message cfgA (recv_of cfgA (wgf cfgB ni (ni + 1))) NOW0 (W 12 1 ni no ni NOW0 true so si rows ins)
  = mkR (inl tt) (W 17 1 (ni + 1) no 0 NOW0 true so ni rows (ins ++ [ni])) [State 17].
Proof.
  intros * K1 K2 B1 B2 -> ->. unfold W, process_message, validate_integrity.
  pose proof (existsb_lt _ _ K1) as HK1.
  timeout 100 (ev_with ltac:(rewrite ?(filter_ins_lt _ _ K1) by lia; rewrite ?(filter_rows_lt _ _ K2) by lia; rewrite ?HK1)).
  fin.
Qed.

Lemma replay_apps_m : forall k s i gfe ni no lt so si rows ins rest,
  gfe <= s -> 0 < s -> s + Z.of_nat k <= I64MAX ->
  replay_loop cfgB (rows_app_m s i k ++ rest) s gfe (W 10 2 ni no 0 lt true so si rows ins)
  = prepend (map Wire (frames_pd_m s i k))
      (replay_loop cfgB rest (s + Z.of_nat k) gfe (W 10 2 ni no 0 lt true so si rows ins)).
Proof.
  induction k as [|k IH]; intros * G B1 B2.
  - cbn. rewrite prepend_nil. replace (s + 0) with s by lia. reflexivity.
  - unfold rows_app_m, frames_pd_m. cbn [gen app map].
    fold (rows_app_m (s + 1) (i + 1) k). fold (frames_pd_m (s + 1) (i + 1) k).
    remember (rows_app_m (s + 1) (i + 1) k ++ rest) as tl eqn:Etl.
    unfold W.
    timeout 100 (ev_with idtac).
    subst tl.
    specialize (IH (s + 1) (i + 1) gfe ni no lt so si rows ins rest ltac:(lia) ltac:(lia) ltac:(lia)).
    replace (s + 1 + Z.of_nat k) with (s + Z.of_nat (S k)) in IH by lia.
    lazymatch type of IH with
    | _ = ?rhs =>
        match goal with
        | |- context [replay_loop ?c ?l ?a ?g ?w] =>
            replace (replay_loop c l a g w) with rhs by (symmetry; exact IH)
        end
    end.
    destruct (replay_loop cfgB rest (s + Z.of_nat (S k)) gfe _) as [v w e]. reflexivity.
Qed.

Lemma recv_resend_request_m : forall ni lt si pre ins b i k L,
  all_lt ni ins -> keys_lt b pre -> 0 < ni < I64MAX -> 0 < b -> L = b + Z.of_nat k -> L < I64MAX -> si = ni - 1 ->
  process_message cfgB (recv_of cfgB (wrr cfgA ni b)) NOW0
    (W 17 2 ni (L + 1) 0 lt true L si (pre ++ rows_app_m b i k ++ [(L, wlogon cfgB L)]) ins)
  = mkR (inl tt)
        (W 17 2 (ni + 1) (L + 1) 0 NOW0 true L ni (pre ++ rows_app_m b i k ++ [(L, wlogon cfgB L)]) (ins ++ [ni]))
        ([State 10] ++ map Wire (frames_pd_m b i k) ++ [Wire (wgf cfgB L (L + 1)); State 17]).
Proof.
  intros * K1 K2 B1 B2 EL B3 ->. unfold W, process_message, validate_integrity.
  pose proof (existsb_lt _ _ K1) as HK1.
  timeout 100 (ev_with ltac:(rewrite ?HK1)).
  match goal with |- context [sort_rows (filter ?f ?l)] =>
    replace (sort_rows (filter f l)) with (rows_app_m b i k ++ [(L, wlogon cfgB L)])
      by (symmetry; apply recover_range; [exact K2 | lia | lia]) end.
  match goal with |- context [replay_loop ?c ?l ?a ?g ?w] =>
    replace (replay_loop c l a g w)
      with (prepend (map Wire (frames_pd_m b i k))
              (replay_loop cfgB [(L, wlogon cfgB L)] (b + Z.of_nat k) b w))
      by (symmetry; apply replay_apps_m; [lia | lia | unfold I64MAX; lia]) end.
  timeout 100 (ev_with ltac:(rewrite ?HK1)).
  subst L. fin.
Qed.

(* --- A, waiting for the Logon reply: it is numbered above the expected number: one ResendRequest, wait *)
Lemma recv_logon_reply_high : forall ni no so si rows ins s,
  keys_lt no rows -> 0 < ni < s -> s <= I64MAX -> 0 < no < I64MAX -> so = no - 1 ->
  process_message cfgA (recv_of cfgA (wlogon cfgB s)) NOW0 (W 7 1 ni no 0 0 true so si rows ins)
  = mkR (inl tt) (W 12 1 ni (no + 1) s 0 true no si (rows ++ [(no, wrr cfgA no ni)]) ins)
        [State 11; OnLogon false; Wire (wrr cfgA no ni); State 12].
Proof.
  intros * K2 B1 B2 B3 ->. unfold W, process_message, validate_integrity.
  pose proof (has_key_lt _ _ K2) as HK2.
  timeout 60 (ev_with ltac:(rewrite ?HK2)). fin.
Qed.

(* n application sends of B while ACTIVE *)
Lemma sends_B : forall k ni no lt so si rows ins wav abv bav gav gbv sav sbv id,
  keys_lt no rows -> 0 < no -> no + Z.of_nat k <= I64MAX -> so = no - 1 ->
  run (mkNet wav (W 17 2 ni no 0 lt true so si rows ins) abv bav gav gbv sav sbv id) (repeat (ASend SB) k)
  = mkNet wav (W 17 2 ni (no + Z.of_nat k) 0 lt true (so + Z.of_nat k) si (rows ++ rows_app_m no id k) ins)
          abv (bav ++ frames_app_m no id k) gav gbv sav (sbv ++ texts id k) (id + Z.of_nat k).
Proof.
  induction k as [|k IH]; intros * K B1 B2 E.
  - cbn. rewrite !app_nil_r. replace (no + 0) with no by lia. replace (so + 0) with so by lia.
    replace (id + 0) with id by lia. reflexivity.
  - subst so. cbn [repeat run fold_left].
    match goal with |- fold_left ?f ?l ?x = _ => change (fold_left f l x) with (run x l) end.
    unfold step, do_send. nopen.
    rewrite (send_app_step_m ni no lt si rows ins id K) by (unfold I64MAX in *; lia).
    nopen. rewrite app_nil_r.
    rewrite IH; [ | | lia | unfold I64MAX in *; lia | lia ].
    + unfold rows_app_m, frames_app_m, texts. cbn [gen]. rewrite <- !app_assoc. cbn [app].
      repeat (first [ reflexivity | lia | f_equal ]).
    + apply keys_lt_app; [eapply keys_lt_weaken; [exact K|lia]|]. repeat constructor. cbn. lia.
Qed.

(* k deliveries of consecutive application messages to A while ACTIVE (nothing is in flight towards B) *)
Lemma delivers_A : forall k s i noa soa si rowsa insa wbv rest gav gbv sav sbv id,
  all_lt s insa -> 0 < s -> s + Z.of_nat k < I64MAX -> si = s - 1 ->
  run (mkNet (W 17 1 s noa 0 NOW0 true soa si rowsa insa) wbv [] (frames_app_m s i k ++ rest) gav gbv sav sbv id)
      (repeat (ADeliver SA) k)
  = mkNet (W 17 1 (s + Z.of_nat k) noa 0 NOW0 true soa (si + Z.of_nat k) rowsa (insa ++ nums s k)) wbv
          [] rest (gav ++ map Some (texts i k)) gbv sav sbv id.
Proof.
  induction k as [|k IH]; intros * K B1 B2 E.
  - cbn. rewrite !app_nil_r. replace (s + 0) with s by lia. replace (si + 0) with si by lia. reflexivity.
  - subst si. unfold frames_app_m. cbn [gen app repeat run fold_left]. fold (frames_app_m (s + 1) (i + 1) k).
    match goal with |- fold_left ?f ?l ?x = _ => change (fold_left f l x) with (run x l) end.
    unfold step, do_deliver. nopen.
    rewrite (recv_app_active_m s noa NOW0 soa (s - 1) rowsa insa i K) by (unfold I64MAX in *; lia).
    nopen. rewrite text_of_app, ?app_nil_r.
    rewrite IH; [ | | lia | unfold I64MAX in *; lia | lia ].
    + unfold nums, texts. cbn [gen map]. rewrite <- !app_assoc. cbn [app].
      repeat (first [ reflexivity | lia | f_equal ]).
    + apply Forall_app. split; [eapply all_lt_weaken; [exact K|lia]|]. repeat constructor. lia.
Qed.

(* the retransmitted application messages reach A while it waits for the resend *)
Lemma drain_pd_m : forall k f s i mr lt noa soa si rowsa insa wbv rest gav gbv sav sbv id,
  all_lt s insa -> 0 < s -> s + Z.of_nat (S k) <= mr -> mr <= I64MAX -> si = s - 1 ->
  drain (S k + f) (mkNet (W 12 1 s noa mr lt true soa si rowsa insa) wbv [] (frames_pd_m s i (S k) ++ rest) gav gbv sav sbv id)
  = drain f (mkNet (W 12 1 (s + Z.of_nat (S k)) noa mr NOW0 true soa (si + Z.of_nat (S k)) rowsa (insa ++ nums s (S k))) wbv
                   [] rest (gav ++ map Some (texts i (S k))) gbv sav sbv id).
Proof.
  induction k as [|k IH]; intros * K B1 B2 B3 E; subst si.
  - cbn [Nat.add]. rewrite drain_S. unfold frames_pd_m. cbn [gen app].
    nopen. unfold do_deliver. nopen.
    rewrite (recv_pd_awaiting_m s noa mr lt soa (s - 1) rowsa insa i K) by (unfold I64MAX in *; lia).
    nopen. rewrite text_of_pd, ?app_nil_r.
    unfold nums, texts. cbn [gen map].
    repeat (first [ reflexivity | lia | f_equal ]).
  - change (S (S k) + f)%nat with (S (S k + f)). rewrite drain_S. unfold frames_pd_m. rewrite (gen_S _ _ (S k)). cbn [app].
    fold (frames_pd_m (s + 1) (i + 1) (S k)).
    nopen. unfold do_deliver. nopen.
    rewrite (recv_pd_awaiting_m s noa mr lt soa (s - 1) rowsa insa i K) by (unfold I64MAX in *; lia).
    nopen. rewrite text_of_pd, ?app_nil_r.
    change (S (k + f)) with (S k + f)%nat. rewrite IH; [ | | lia | lia | lia | lia ].
    + unfold nums, texts. cbn [gen map]. rewrite <- !app_assoc. cbn [app].
      repeat (first [ reflexivity | lia | f_equal ]).
    + apply Forall_app. split; [eapply all_lt_weaken; [exact K|lia]|]. repeat constructor. lia.
Qed.

(* first Logon exchange; B sends d + k application messages; the first d reach A; the link breaks *)
Definition sched_before_m (d k : nat) : list action :=
  [AReconnect; ADeliver SB; ADeliver SA] ++ repeat (ASend SB) (d + k) ++ repeat (ADeliver SA) d.

Definition net_before_m (d k : nat) : net :=
  let n := Z.of_nat (d + k) in
  mkNet (W 17 1 (2 + Z.of_nat d) 2 0 NOW0 true 1 (1 + Z.of_nat d) [LA1] ([1] ++ nums 2 d))
        (W 17 2 2 (2 + n) 0 NOW0 true (1 + n) 1 ([LB1] ++ rows_app_m 2 1 (d + k)) [1])
        [] (frames_app_m (2 + Z.of_nat d) (1 + Z.of_nat d) k) ([] ++ map Some (texts 1 d)) [] [] ([] ++ texts 1 (d + k)) (1 + n).

Lemma at_before_m : forall d k, Z.of_nat (d + k) + 3 <= I64MAX -> run net0 (sched_before_m d k) = net_before_m d k.
Proof.
  intros d k B. unfold sched_before_m. rewrite run_app, first_logon. unfold net_up.
  rewrite run_app.
  rewrite (sends_B (d + k) 2 2 NOW0 1 1 [LB1] [1]); [ | repeat constructor; cbn; lia | lia | lia | lia ].
  unfold frames_app_m at 1. rewrite gen_app. fold (frames_app_m 2 1 d).
  cbn [app].
  rewrite (delivers_A d 2 1 2 1 1 [LA1] [1]); [ | repeat constructor; lia | lia | unfold I64MAX in *; lia | lia ].
  reflexivity.
Qed.

Definition net_broken_m (d k : nat) : net :=
  let n := Z.of_nat (d + k) in
  mkNet (W 3 1 (2 + Z.of_nat d) 2 0 0 false 1 (1 + Z.of_nat d) [LA1] ([1] ++ nums 2 d))
        (W 3 2 2 (2 + n) 0 0 false (1 + n) 1 ([LB1] ++ rows_app_m 2 1 (d + k)) [1])
        [] [] ([] ++ map Some (texts 1 d)) [] [] ([] ++ texts 1 (d + k)) (1 + n).

Lemma at_break_m : forall d k, Z.of_nat (d + k) + 3 <= I64MAX ->
  run net0 (sched_before_m d k ++ [ABreak]) = net_broken_m d k.
Proof.
  intros d k B. rewrite run_app, at_before_m by assumption. unfold net_before_m.
  cbn [run fold_left]. unfold step, do_break. nopen.
  rewrite !disconnect_active. nopen. rewrite ?app_nil_r. reflexivity.
Qed.

Definition net_reconnected_m (d k : nat) : net :=
  let n := Z.of_nat (d + k) in
  mkNet (W 7 1 (2 + Z.of_nat d) 3 0 0 true 2 (1 + Z.of_nat d) ([LA1] ++ [(2, wlogon cfgA 2)]) ([1] ++ nums 2 d))
        (W 6 2 2 (2 + n) 0 0 true (1 + n) 1 ([LB1] ++ rows_app_m 2 1 (d + k)) [1])
        [wlogon cfgA 2] [] ([] ++ map Some (texts 1 d)) [] [] ([] ++ texts 1 (d + k)) (1 + n).

Lemma at_reconnect_m : forall d k, Z.of_nat (d + k) + 3 <= I64MAX ->
  do_reconnect (net_broken_m d k) = net_reconnected_m d k.
Proof.
  intros d k B. unfold net_broken_m, do_reconnect. nopen.
  change (set_wr true (set_st ST_NCE (W 3 1 (2 + Z.of_nat d) 2 0 0 false 1 (1 + Z.of_nat d) [LA1] (1 :: nums 2 d))))
    with (W 6 1 (2 + Z.of_nat d) 2 0 0 true (2 - 1) (1 + Z.of_nat d) [LA1] (1 :: nums 2 d)).
  rewrite send_logon_step; [ | repeat constructor; unfold LA1; cbn [fst]; lia | unfold I64MAX; lia ].
  nopen. unfold net_reconnected_m. cbn [app].
  change (set_wr true (set_st ST_NCE (W 3 2 2 (2 + Z.of_nat (d + k)) 0 0 false (1 + Z.of_nat (d + k)) 1 (LB1 :: rows_app_m 2 1 (d + k)) [1])))
    with (W 6 2 2 (2 + Z.of_nat (d + k)) 0 0 true (1 + Z.of_nat (d + k)) 1 (LB1 :: rows_app_m 2 1 (d + k)) [1]).
  rewrite ?app_nil_r. repeat (first [ reflexivity | lia | f_equal ]).
Qed.

Lemma settle_broken_m : forall d k fuel, Z.of_nat (d + k) + 3 <= I64MAX ->
  settle fuel (net_broken_m d k) = drain fuel (net_reconnected_m d k).
Proof.
  intros d k fuel B. unfold settle.
  rewrite (drain_quiet fuel (net_broken_m d k)) by reflexivity.
  replace (link_down (net_broken_m d k)) with true by reflexivity.
  rewrite at_reconnect_m by assumption. reflexivity.
Qed.

(* --- nothing was in flight *)
Definition net_final0_m (d : nat) : net :=
  let n := Z.of_nat d in
  mkNet (W 17 1 (3 + n) 3 0 NOW0 true 2 (2 + n) [LA1; (2, wlogon cfgA 2)] (([1] ++ nums 2 d) ++ [2 + n]))
        (W 17 2 3 (3 + n) 0 NOW0 true (2 + n) 2 (([LB1] ++ rows_app_m 2 1 d) ++ [(2 + n, wlogon cfgB (2 + n))]) [1; 2])
        [] [] (map Some (texts 1 d)) [] [] (texts 1 d) (1 + n).

Lemma recovery_none_m : forall d f, Z.of_nat d + 3 <= I64MAX ->
  drain (S (S f)) (net_reconnected_m d 0) = net_final0_m d.
Proof.
  intros d f B. unfold net_reconnected_m. rewrite Nat.add_0_r.
  rewrite drain_S. unfold pending at 1. nopen. unfold do_deliver. nopen.
  rewrite (recv_logon_exact 2 (2 + Z.of_nat d) (1 + Z.of_nat d) 1 (LB1 :: rows_app_m 2 1 d) [1]);
    [ | repeat constructor; lia | constructor; [unfold LB1; cbn [fst]; lia | apply keys_lt_gen; lia]
      | unfold I64MAX; lia | unfold I64MAX in *; lia | lia | lia ].
  nopen.
  rewrite drain_S. nopen. unfold do_deliver. nopen.
  rewrite (recv_logon_reply (2 + Z.of_nat d) 3 2 (1 + Z.of_nat d) _ (1 :: nums 2 d));
    [ | constructor; [lia | apply all_lt_nums; lia] | unfold I64MAX in *; lia | lia ].
  nopen. rewrite drain_quiet; [ | reflexivity | reflexivity ].
  unfold net_final0_m. rewrite ?app_nil_r. cbn [app].
  repeat (first [ reflexivity | lia | f_equal ]).
Qed.

(* --- the last k + 1 messages of B were in flight: Logon, Logon reply, ResendRequest from A, replay + gap fill from B *)
Definition net_final_m (d k : nat) : net :=
  let n := Z.of_nat (d + S k) in
  let b := 2 + Z.of_nat d in
  mkNet (W 17 1 (3 + n) 4 0 NOW0 true 3 (2 + n) [LA1; (2, wlogon cfgA 2); (3, wrr cfgA 3 b)]
           (((1 :: nums 2 d) ++ nums b (S k)) ++ [2 + n]))
        (W 17 2 4 (3 + n) 0 NOW0 true (2 + n) 3
           ((LB1 :: rows_app_m 2 1 d) ++ rows_app_m b (1 + Z.of_nat d) (S k) ++ [(2 + n, wlogon cfgB (2 + n))]) [1; 2; 3])
        [] [] (map Some (texts 1 d) ++ map Some (texts (1 + Z.of_nat d) (S k))) [] [] (texts 1 (d + S k)) (1 + n).

Lemma recovery_some_m : forall d k f, Z.of_nat (d + S k) + 3 <= I64MAX ->
  drain (3 + (S k + S f)) (net_reconnected_m d (S k)) = net_final_m d k.
Proof.
  intros d k f B. unfold net_reconnected_m.
  set (n := Z.of_nat (d + S k)) in *. set (b := 2 + Z.of_nat d).
  assert (Hn : n = Z.of_nat d + Z.of_nat (S k)) by (unfold n; lia).
  cbn [Nat.add].
  (* B: Logon numbered as expected; its reply carries B's next number 2 + n *)
  rewrite drain_S. unfold pending at 1. nopen. unfold do_deliver. nopen.
  rewrite (recv_logon_exact 2 (2 + n) (1 + n) 1 (LB1 :: rows_app_m 2 1 (d + S k)) [1]);
    [ | repeat constructor; lia | constructor; [unfold LB1; cbn [fst]; lia | apply keys_lt_gen; unfold n; lia]
      | unfold I64MAX; lia | unfold I64MAX in *; lia | lia | lia ].
  nopen.
  (* A: Logon reply numbered above the expected number: ResendRequest *)
  rewrite drain_S. nopen. unfold do_deliver. nopen.
  rewrite (recv_logon_reply_high b 3 2 (1 + Z.of_nat d) [LA1; (2, wlogon cfgA 2)] (1 :: nums 2 d) (2 + n));
    [ | repeat constructor; unfold LA1; cbn [fst]; lia | unfold b; lia | unfold I64MAX in *; lia | unfold I64MAX; lia | lia ].
  nopen.
  (* B: ResendRequest *)
  rewrite drain_S. unfold pending at 1. nopen. unfold do_deliver. nopen.
  replace (rows_app_m 2 1 (d + S k)) with (rows_app_m 2 1 d ++ rows_app_m b (1 + Z.of_nat d) (S k))
    by (unfold rows_app_m; rewrite gen_app; reflexivity).
  rewrite <- app_assoc.
  change (LB1 :: rows_app_m 2 1 d ++ rows_app_m b (1 + Z.of_nat d) (S k) ++ [(2 + n, wlogon cfgB (2 + n))])
    with ((LB1 :: rows_app_m 2 1 d) ++ rows_app_m b (1 + Z.of_nat d) (S k) ++ [(2 + n, wlogon cfgB (2 + n))]).
  change (wrr cfgA 3 b) with (wrr cfgA (2 + 1) b).
  rewrite (recv_resend_request_m (2 + 1) NOW0 2 (LB1 :: rows_app_m 2 1 d) [1; 2] b (1 + Z.of_nat d) (S k) (2 + n));
    [ | repeat constructor; lia
      | constructor; [unfold LB1; cbn [fst]; unfold b; lia | apply keys_lt_gen; unfold b; lia]
      | unfold I64MAX; lia | unfold b; lia | unfold b; lia | unfold I64MAX in *; lia | lia ].
  nopen. refold. rewrite wires_app, apps_app, wires_map_wire, apps_map_wire. nopen.
  (* A: the k + 1 retransmissions *)
  change (S (k + S f)) with (S k + S f)%nat.
  rewrite (drain_pd_m k (S f) b (1 + Z.of_nat d) (2 + n) 0 (3 + 1) 3 (1 + Z.of_nat d));
    [ | constructor; [unfold b; lia | apply all_lt_nums; unfold b; lia] | unfold b; lia | unfold b; lia
      | unfold I64MAX in *; lia | unfold b; lia ].
  (* A: the gap fill over B's Logon reply *)
  rewrite drain_S. nopen. unfold do_deliver. nopen.
  replace (b + Z.of_nat (S k)) with (2 + n) by (unfold b; lia).
  rewrite (recv_gf_awaiting_m (2 + n) (3 + 1) 3 (1 + Z.of_nat d + Z.of_nat (S k)));
    [ | constructor; [lia | apply Forall_app; split; apply all_lt_nums; unfold b; lia]
      | repeat constructor; unfold LA1; cbn [fst]; lia
      | unfold I64MAX in *; lia | unfold I64MAX; lia | lia | lia ].
  nopen. rewrite drain_quiet; [ | reflexivity | reflexivity ].
  unfold net_final_m. fold n. fold b. rewrite ?app_nil_r. cbn [app].
  repeat (first [ reflexivity | lia | f_equal ]).
Qed.

(* what the property asks of a settled state after B's n sends *)
Definition recovered_m (s : net) (n : nat) : Prop :=
  quiescent s = true
  /\ st (wa s) = ST_ACTIVE /\ st (wb s) = ST_ACTIVE
  /\ nin (wa s) = nout (wb s) /\ nin (wb s) = nout (wa s)
  /\ sb s = texts 1 n
  /\ ga s = map Some (texts 1 n)
  /\ sa s = [] /\ gb s = []
  /\ holds s = true.

Lemma final0_recovered_m : forall d, recovered_m (net_final0_m d) (d + 0).
Proof.
  intros d. rewrite Nat.add_0_r.
  assert (H : holds (net_final0_m d) = true) by (apply holds_intro; reflexivity).
  unfold recovered_m. rewrite H. unfold net_final0_m. cbn [wa wb ab ba ga gb sa sb nid].
  repeat split; reflexivity.
Qed.

Lemma final_recovered_m : forall d k, recovered_m (net_final_m d k) (d + S k).
Proof.
  intros d k.
  assert (G : ga (net_final_m d k) = map Some (texts 1 (d + S k))).
  { unfold net_final_m. cbn [ga]. rewrite <- map_app, <- texts_split. reflexivity. }
  assert (H : holds (net_final_m d k) = true).
  { apply holds_intro; try reflexivity. rewrite G. reflexivity. }
  unfold recovered_m. rewrite H, G. unfold net_final_m. cbn [wa wb ab ba ga gb sa sb nid].
  repeat split; reflexivity.
Qed.

Lemma family_outside_class_m : forall d k, reply_in_flight (net_before_m d k) = false.
Proof.
  intros d k. unfold reply_in_flight, net_before_m. cbn [ab ba app].
  apply not_true_is_false. intros H. apply existsb_exists in H. destruct H as [m [Hin Hm]].
  assert (F : Forall (fun m => is_reply m = false) (frames_app_m (2 + Z.of_nat d) (1 + Z.of_nat d) k)).
  { apply gen_Forall. intros j Hj. reflexivity. }
  rewrite Forall_forall in F. rewrite (F m Hin) in Hm. discriminate.
Qed.

Theorem single_break_m_nk : forall n k fuel,
  (k <= n)%nat -> Z.of_nat n + 3 <= I64MAX -> (k + 4 <= fuel)%nat ->
  reply_in_flight (run net0 (sched_before_m (n - k) k)) = false
  /\ recovered_m (settle fuel (run net0 (sched_before_m (n - k) k ++ [ABreak]))) n.
Proof.
  intros n k fuel K B F.
  assert (E : (n - k + k)%nat = n) by lia.
  assert (B' : Z.of_nat (n - k + k) + 3 <= I64MAX) by (rewrite E; exact B).
  split.
  - rewrite at_before_m by exact B'. apply family_outside_class_m.
  - rewrite at_break_m, settle_broken_m by exact B'. rewrite <- E at 2.
    destruct k as [|k].
    + destruct fuel as [|[|f]]; [lia|lia|]. rewrite recovery_none_m by (rewrite Nat.add_0_r in B'; exact B').
      apply final0_recovered_m.
    + replace fuel with (3 + (S k + S (fuel - (S k + 4))))%nat by lia.
      rewrite recovery_some_m by exact B'. apply final_recovered_m.
Qed.

(* ------------------------------------------------------------------ recovery in general position (A -> B):
   k application messages b .. b+k-1 and then m + 1 Logons b+k .. L of A have not reached B *)

Definition logons (s : Z) (m : nat) : list (Z * msg) := gen (fun s _ => (s, wlogon cfgA s)) s s m.

Lemma incr_gen_app : forall (g : Z -> Z -> msg) k s i l2,
  incr l2 -> (forall r, hd_error l2 = Some r -> s + Z.of_nat k <= fst r) ->
  incr (gen (fun s i => (s, g s i)) s i k ++ l2).
Proof.
  induction k as [|k IH]; intros s i l2 H1 H2; [exact H1|].
  cbn [gen app]. cbn [incr]. split.
  - destruct k.
    + cbn [gen app]. destruct l2 as [|r l2]; [exact I|]. specialize (H2 r eq_refl). cbn [fst]. lia.
    + cbn [gen app fst]. lia.
  - apply IH; [exact H1|]. intros r Hr. specialize (H2 r Hr). lia.
Qed.

Lemma recover_range_gen : forall (g1 g2 : Z -> Z -> msg) pre b i k j m M,
  keys_lt b pre -> b + Z.of_nat k + Z.of_nat m <= M ->
  sort_rows (filter (fun r : Z * msg => (b <=? fst r) && (fst r <=? M))
                    (pre ++ gen (fun s i => (s, g1 s i)) b i k ++ gen (fun s i => (s, g2 s i)) (b + Z.of_nat k) j m))
  = gen (fun s i => (s, g1 s i)) b i k ++ gen (fun s i => (s, g2 s i)) (b + Z.of_nat k) j m.
Proof.
  intros * K H. rewrite !filter_app.
  rewrite (filter_false _ _ pre).
  2:{ eapply Forall_impl; [|exact K]. cbn. intros [a x] Ha. cbn in *.
      replace (b <=? a) with false by (symmetry; apply Z.leb_gt; lia). reflexivity. }
  rewrite (filter_true _ _ (gen _ b i k)).
  2:{ apply gen_Forall. intros q Hq. cbn.
      replace (b <=? b + Z.of_nat q) with true by (symmetry; apply Z.leb_le; lia).
      replace (b + Z.of_nat q <=? M) with true by (symmetry; apply Z.leb_le; lia). reflexivity. }
  rewrite (filter_true _ _ (gen _ (b + Z.of_nat k) j m)).
  2:{ apply gen_Forall. intros q Hq. cbn.
      replace (b <=? b + Z.of_nat k + Z.of_nat q) with true by (symmetry; apply Z.leb_le; lia).
      replace (b + Z.of_nat k + Z.of_nat q <=? M) with true by (symmetry; apply Z.leb_le; lia). reflexivity. }
  cbn [app]. apply sort_rows_incr. apply incr_gen_app.
  - rewrite <- (app_nil_r (gen _ (b + Z.of_nat k) j m)). apply incr_gen_app; [exact I|]. intros r Hr. discriminate.
  - intros r Hr. destruct m; [discriminate|]. cbn in Hr. injection Hr as <-. cbn [fst]. lia.
Qed.

(* the loop over journaled Logons: nothing is written, the gap to fill grows *)
Lemma replay_logons : forall m s gfb gfe w rest,
  0 < s -> s + Z.of_nat (S m) <= I64MAX ->
  replay_loop cfgA (logons s (S m) ++ rest) gfb gfe w
  = replay_loop cfgA rest gfb (s + Z.of_nat (S m)) w.
Proof.
  induction m as [|m IH]; intros * B1 B2.
  - unfold logons. cbn [gen app]. timeout 100 (ev_with idtac).
    replace (s + Z.of_nat 1) with (s + 1) by lia.
    destruct (replay_loop _ rest gfb (s + 1) w) as [v w' e]. reflexivity.
  - unfold logons. rewrite (gen_S _ _ (S m)). cbn [app]. fold (logons (s + 1) (S m)).
    remember (logons (s + 1) (S m) ++ rest) as tl eqn:Etl.
    timeout 100 (ev_with idtac). subst tl.
    replace (s + Z.of_nat (S (S m))) with (s + 1 + Z.of_nat (S m)) by lia.
    rewrite <- (IH (s + 1) gfb (s + 1) w rest) by lia.
    destruct (replay_loop _ (logons (s + 1) (S m) ++ rest) gfb (s + 1) w) as [v w' e]. reflexivity.
Qed.

(* --- A, ACTIVE: ResendRequest(b, 0) over k journaled application messages and m + 1 journaled Logons *)
Lemma recv_resend_request_gen : forall ni lt si pre ins b i k m L,
  all_lt ni ins -> keys_lt b pre -> 0 < ni < I64MAX -> 0 < b ->
  L = b + Z.of_nat k + Z.of_nat m -> L < I64MAX -> si = ni - 1 ->
  process_message cfgA (recv_of cfgA (wrr cfgB ni b)) NOW0
    (W 17 1 ni (L + 1) 0 lt true L si (pre ++ rows_app b i k ++ logons (b + Z.of_nat k) (S m)) ins)
  = mkR (inl tt)
        (W 17 1 (ni + 1) (L + 1) 0 NOW0 true L ni (pre ++ rows_app b i k ++ logons (b + Z.of_nat k) (S m)) (ins ++ [ni]))
        ([State 10] ++ map Wire (frames_pd b i k) ++ [Wire (wgf cfgA (b + Z.of_nat k) (L + 1)); State 17]).
Proof.
  intros * K1 K2 B1 B2 EL B3 ->. unfold W, process_message, validate_integrity.
  pose proof (existsb_lt _ _ K1) as HK1.
  timeout 100 (ev_with ltac:(rewrite ?HK1)).
  match goal with |- context [sort_rows (filter ?f ?l)] =>
    replace (sort_rows (filter f l)) with (rows_app b i k ++ logons (b + Z.of_nat k) (S m))
      by (symmetry; apply recover_range_gen; [exact K2 | lia]) end.
  match goal with |- context [replay_loop ?c ?l ?a ?g ?w] =>
    replace (replay_loop c l a g w)
      with (prepend (map Wire (frames_pd b i k))
              (replay_loop cfgA (logons (b + Z.of_nat k) (S m) ++ []) (b + Z.of_nat k) b w))
      by (rewrite app_nil_r; symmetry; apply replay_apps; [lia | lia | unfold I64MAX; lia]) end.
  rewrite replay_logons by (unfold I64MAX; lia).
  timeout 100 (ev_with ltac:(rewrite ?HK1)).
  subst L. fin.
Qed.

(* --- B, waiting for the resend: the gap fill  ni -> e  that reaches the watermark returns it to ACTIVE *)
Lemma recv_gf_awaiting_gen : forall ni e mr lt no so si rows ins,
  all_lt ni ins -> keys_lt no rows -> 0 < ni < e -> 0 < mr <= e - 1 -> e <= I64MAX -> 0 < no <= I64MAX ->
  so = no - 1 -> si = ni - 1 ->
  process_message cfgB (recv_of cfgB (wgf cfgA ni e)) NOW0 (W 12 2 ni no mr lt true so si rows ins)
  = mkR (inl tt) (W 17 2 e no 0 NOW0 true so ni rows (ins ++ [ni])) [State 17].
Proof.
  intros * K1 K2 B1 B2 B3 B4 -> ->. unfold W, process_message, validate_integrity.
  pose proof (existsb_lt _ _ K1) as HK1.
  timeout 100 (ev_with ltac:(rewrite ?(filter_ins_lt _ _ K1) by lia; rewrite ?(filter_rows_lt _ _ K2) by lia; rewrite ?HK1)).
  fin.
Qed.

(* the network just after a reconnect + Logon of A, in general position *)
Definition net_rec (na nb b i : Z) (k m : nat) (pre rowsB : list (Z * msg)) (insA insB : list Z)
                   (G : list (option str)) (SA : list str) (id : Z) : net :=
  let L := b + Z.of_nat k + Z.of_nat m in
  mkNet (W 7 1 na (L + 1) 0 0 true L (na - 1) (pre ++ rows_app b i k ++ logons (b + Z.of_nat k) (S m)) insA)
        (W 6 2 b nb 0 0 true (nb - 1) (b - 1) rowsB insB)
        [wlogon cfgA L] [] [] G SA [] id.

Definition net_rec_done (na nb b i : Z) (k m : nat) (pre rowsB : list (Z * msg)) (insA insB : list Z)
                        (G : list (option str)) (SA : list str) (id : Z) : net :=
  let L := b + Z.of_nat k + Z.of_nat m in
  mkNet (W 17 1 (na + 2) (L + 1) 0 NOW0 true L (na + 1) (pre ++ rows_app b i k ++ logons (b + Z.of_nat k) (S m))
           (insA ++ [na; na + 1]))
        (W 17 2 (L + 1) (nb + 2) 0 NOW0 true (nb + 1) (b + Z.of_nat k)
           (rowsB ++ [(nb, wlogon cfgB nb); (nb + 1, wrr cfgB (nb + 1) b)])
           (insB ++ nums b k ++ [b + Z.of_nat k]))
        [] [] [] (G ++ map Some (texts i k)) SA [] id.

Lemma recovery_gen : forall na nb b i k m pre rowsB insA insB G SA id f,
  na = nb -> (0 < k + m)%nat ->
  keys_lt b pre -> keys_lt nb rowsB -> all_lt na insA -> all_lt b insB ->
  0 < na -> 0 < b -> b + Z.of_nat k + Z.of_nat m + 2 <= I64MAX -> nb + 3 <= I64MAX ->
  drain (3 + (k + S f)) (net_rec na nb b i k m pre rowsB insA insB G SA id)
  = net_rec_done na nb b i k m pre rowsB insA insB G SA id.
Proof.
  intros * -> KM K1 K2 K3 K4 B1 B2 B3 B4. unfold net_rec.
  set (L := b + Z.of_nat k + Z.of_nat m) in *.
  cbn [Nat.add].
  (* B: Logon numbered above the expected number *)
  rewrite drain_S. unfold pending at 1. nopen. unfold do_deliver. nopen.
  rewrite (recv_logon_high b nb (nb - 1) (b - 1) rowsB insB L);
    [ | exact K2 | unfold L; lia | unfold I64MAX in *; lia | unfold I64MAX in *; lia | lia ].
  nopen.
  (* A: Logon reply *)
  rewrite drain_S. nopen. unfold do_deliver. nopen.
  rewrite (recv_logon_reply nb (L + 1) L (nb - 1) _ insA);
    [ | exact K3 | unfold I64MAX in *; lia | lia ].
  nopen.
  (* A: ResendRequest *)
  rewrite drain_S. nopen. unfold do_deliver. nopen.
  rewrite (recv_resend_request_gen (nb + 1) NOW0 nb pre (insA ++ [nb]) b i k m L);
    [ | apply Forall_app; split; [eapply all_lt_weaken; [exact K3|lia] | repeat constructor; lia]
      | exact K1 | unfold I64MAX in *; lia | lia | reflexivity | unfold I64MAX in *; lia | lia ].
  nopen. refold. rewrite wires_app, apps_app, wires_map_wire, apps_map_wire. nopen.
  assert (KB : keys_lt (nb + 2) (rowsB ++ [(nb, wlogon cfgB nb); (nb + 1, wrr cfgB (nb + 1) b)])).
  { apply keys_lt_app; [eapply keys_lt_weaken; [exact K2|lia]|]. repeat constructor; cbn [fst]; lia. }
  destruct k as [|k].
  - (* no application message missing: the gap fill over the Logons only *)
    unfold frames_pd. cbn [gen app Nat.add]. change (Z.of_nat 0) with 0 in *. replace (b + 0) with b in * by lia.
    rewrite drain_S. unfold pending at 1. nopen. unfold do_deliver. nopen.
    rewrite (recv_gf_awaiting_gen b (L + 1) L 0 (nb + 2) (nb + 1) (b - 1));
      [ | exact K4 | exact KB | unfold L; lia | unfold L; lia | unfold I64MAX in *; lia
        | unfold I64MAX in *; lia | lia | lia ].
    nopen. rewrite drain_quiet; [ | reflexivity | reflexivity ].
    unfold net_rec_done. fold L. unfold nums, texts. cbn [gen map]. rewrite ?app_nil_r, <- ?app_assoc. cbn [app].
    repeat (first [ reflexivity | lia | f_equal ]).
  - (* the k + 1 retransmissions, then the gap fill *)
    rewrite (drain_pd k (S f) b i L 0 (nb + 2) (nb + 1) (b - 1));
      [ | exact K4 | lia | unfold L; lia | unfold I64MAX in *; lia | lia ].
    rewrite drain_S. unfold pending at 1. nopen. unfold do_deliver. nopen.
    rewrite (recv_gf_awaiting_gen (b + Z.of_nat (S k)) (L + 1) L NOW0 (nb + 2) (nb + 1) (b - 1 + Z.of_nat (S k)));
      [ | apply Forall_app; split; [eapply all_lt_weaken; [exact K4|lia] | apply all_lt_nums; lia]
        | exact KB | unfold L; lia | unfold L; lia | unfold I64MAX in *; lia
        | unfold I64MAX in *; lia | lia | lia ].
    nopen. rewrite drain_quiet; [ | reflexivity | reflexivity ].
    unfold net_rec_done. fold L. rewrite ?app_nil_r, <- ?app_assoc. cbn [app].
    repeat (first [ reflexivity | lia | f_equal ]).
Qed.


(* --- the transport is lost in any connected state *)
Lemma disconnect_conn : forall c s r ni no mr lt so si rows ins,
  3 < s ->
  disconnect c ST_DISC_BROKEN None (W s r ni no mr lt true so si rows ins)
  = mkR (inl tt) (W 3 r ni no 0 0 false so si rows ins) [State 3; OnDisconnect].
Proof. intros * S. unfold W. ev. reflexivity. Qed.

Definition lt_after (lt : Z) (j : nat) : Z := match j with O => lt | S _ => NOW0 end.

(* j retransmitted application messages reach B while it waits for the resend (explicit deliveries) *)
Lemma delivers_pd : forall j s i mr lt nob sob si rowsb insb wav rest bav gav gbv sav sbv id,
  all_lt s insb -> 0 < s -> s + Z.of_nat j <= mr -> mr <= I64MAX -> si = s - 1 ->
  run (mkNet wav (W 12 2 s nob mr lt true sob si rowsb insb) (frames_pd s i j ++ rest) bav gav gbv sav sbv id)
      (repeat (ADeliver SB) j)
  = mkNet wav (W 12 2 (s + Z.of_nat j) nob mr (lt_after lt j) true sob (si + Z.of_nat j) rowsb (insb ++ nums s j))
          rest bav gav (gbv ++ map Some (texts i j)) sav sbv id.
Proof.
  induction j as [|j IH]; intros * K B1 B2 B3 E.
  - cbn. rewrite !app_nil_r. replace (s + 0) with s by lia. replace (si + 0) with si by lia. reflexivity.
  - subst si. unfold frames_pd. cbn [gen app repeat run fold_left]. fold (frames_pd (s + 1) (i + 1) j).
    match goal with |- fold_left ?f ?l ?x = _ => change (fold_left f l x) with (run x l) end.
    unfold step, do_deliver. nopen.
    rewrite (recv_pd_awaiting s nob mr lt sob (s - 1) rowsb insb i K) by (unfold I64MAX in *; lia).
    nopen. rewrite text_of_pd, ?app_nil_r.
    rewrite IH; [ | | lia | lia | lia | lia ].
    + unfold nums, texts, lt_after. cbn [gen map]. rewrite <- !app_assoc. cbn [app].
      destruct j; repeat (first [ reflexivity | lia | f_equal ]).
    + apply Forall_app. split; [eapply all_lt_weaken; [exact K|lia]|]. repeat constructor. lia.
Qed.

(* one more break: after the reconnect B answers the Logon (reply + ResendRequest), A services the request,
   j of the k retransmissions reach B, and the link breaks again with the rest and the gap fill in flight;
   the next reconnect leads to the same situation with other numbers *)
Definition round (j : nat) : list action :=
  [ADeliver SB; ADeliver SA; ADeliver SA] ++ repeat (ADeliver SB) j ++ [ABreak; AReconnect].

Lemma rec_step : forall na nb b i k m pre rowsB insA insB G SA id j,
  na = nb -> (0 < k + m)%nat -> (j <= k)%nat ->
  keys_lt b pre -> keys_lt nb rowsB -> all_lt na insA -> all_lt b insB ->
  0 < na -> 0 < b -> b + Z.of_nat k + Z.of_nat m + 3 <= I64MAX -> nb + 3 <= I64MAX ->
  run (net_rec na nb b i k m pre rowsB insA insB G SA id) (round j)
  = net_rec (na + 2) (nb + 2) (b + Z.of_nat j) (i + Z.of_nat j) (k - j) (S m)
            (pre ++ rows_app b i j) (rowsB ++ [(nb, wlogon cfgB nb); (nb + 1, wrr cfgB (nb + 1) b)])
            (insA ++ [na; na + 1]) (insB ++ nums b j) (G ++ map Some (texts i j)) SA id.
Proof.
  intros * -> KM J K1 K2 K3 K4 B1 B2 B3 B4. unfold net_rec, round.
  set (L := b + Z.of_nat k + Z.of_nat m) in *.
  rewrite run_app. cbn [run fold_left]. unfold step.
  (* B: Logon numbered above the expected number *)
  unfold do_deliver at 3. nopen.
  rewrite (recv_logon_high b nb (nb - 1) (b - 1) rowsB insB L);
    [ | exact K2 | unfold L; lia | unfold I64MAX in *; lia | unfold I64MAX in *; lia | lia ].
  nopen.
  (* A: Logon reply *)
  nopen.
  rewrite (recv_logon_reply nb (L + 1) L (nb - 1) _ insA);
    [ | exact K3 | unfold I64MAX in *; lia | lia ].
  nopen.
  (* A: ResendRequest *)
  nopen.
  rewrite (recv_resend_request_gen (nb + 1) NOW0 nb pre (insA ++ [nb]) b i k m L);
    [ | apply Forall_app; split; [eapply all_lt_weaken; [exact K3|lia] | repeat constructor; lia]
      | exact K1 | unfold I64MAX in *; lia | lia | reflexivity | unfold I64MAX in *; lia | lia ].
  nopen. refold. rewrite wires_app, apps_app, wires_map_wire, apps_map_wire. nopen.
  (* B: j of the k retransmissions *)
  replace k with (j + (k - j))%nat at 3 by lia.
  unfold frames_pd at 1. rewrite gen_app. fold (frames_pd b i j). rewrite <- (app_assoc (frames_pd b i j)).
  rewrite run_app.
  rewrite (delivers_pd j b i L 0 (nb + 2) (nb + 1) (b - 1));
    [ | exact K4 | lia | unfold L; lia | unfold I64MAX in *; lia | lia ].
  (* the link breaks, both ends disconnect, new transport, Logon L + 1 *)
  cbn [run fold_left]. unfold step, do_break. nopen.
  rewrite disconnect_active, disconnect_conn by lia. nopen.
  unfold do_reconnect. nopen.
  change (set_wr true (set_st ST_NCE (W 3 1 (nb + 1 + 1) (L + 1) 0 0 false L (nb + 1)
            (pre ++ rows_app b i k ++ logons (b + Z.of_nat k) (S m)) ((insA ++ [nb]) ++ [nb + 1]))))
    with (W 6 1 (nb + 1 + 1) (L + 1) 0 0 true L (nb + 1)
            (pre ++ rows_app b i k ++ logons (b + Z.of_nat k) (S m)) ((insA ++ [nb]) ++ [nb + 1])).
  change (set_wr true (set_st ST_NCE (W 3 2 (b + Z.of_nat j) (nb + 2) 0 0 false (nb + 1) (b - 1 + Z.of_nat j)
            (rowsB ++ [(nb, wlogon cfgB nb); (nb + 1, wrr cfgB (nb + 1) b)]) (insB ++ nums b j))))
    with (W 6 2 (b + Z.of_nat j) (nb + 2) 0 0 true (nb + 1) (b - 1 + Z.of_nat j)
            (rowsB ++ [(nb, wlogon cfgB nb); (nb + 1, wrr cfgB (nb + 1) b)]) (insB ++ nums b j)).
  replace L with (L + 1 - 1) at 2 4 6 by lia.
  rewrite send_logon_step; [ | | unfold I64MAX in *; lia ].
  2:{ repeat apply keys_lt_app; [eapply keys_lt_weaken; [exact K1|unfold L; lia] | apply keys_lt_gen; unfold L; lia
                                | apply keys_lt_gen; unfold L; lia ]. }
  nopen.
  assert (ER : (pre ++ rows_app b i k ++ logons (b + Z.of_nat k) (S m)) ++ [(L + 1, wlogon cfgA (L + 1))]
               = (pre ++ rows_app b i j) ++ rows_app (b + Z.of_nat j) (i + Z.of_nat j) (k - j)
                 ++ logons (b + Z.of_nat j + Z.of_nat (k - j)) (S (S m))).
  { replace (b + Z.of_nat j + Z.of_nat (k - j)) with (b + Z.of_nat k) by lia.
    replace (rows_app b i k) with (rows_app b i j ++ rows_app (b + Z.of_nat j) (i + Z.of_nat j) (k - j)).
    2:{ unfold rows_app. rewrite <- gen_app. replace (j + (k - j))%nat with k by lia. reflexivity. }
    unfold logons at 2. rewrite (gen_snoc _ _ (S m)). fold (logons (b + Z.of_nat k) (S m)).
    replace (b + Z.of_nat k + Z.of_nat (S m)) with (L + 1) by (unfold L; lia).
    rewrite <- !app_assoc. reflexivity. }
  rewrite ER. rewrite ?app_nil_r, <- ?app_assoc. cbn [app].
  replace (b + Z.of_nat j + Z.of_nat (k - j) + Z.of_nat (S m)) with (L + 1) by (unfold L; lia).
  repeat (first [ reflexivity | lia | f_equal ]).
Qed.



(* any number of further breaks of that kind: round j1, round j2, ... *)
Fixpoint fits (k : nat) (js : list nat) : Prop :=
  match js with
  | [] => True
  | j :: r => (j <= k)%nat /\ fits (k - j) r
  end.

Definition rounds (js : list nat) : list action := flat_map round js.

Definition settled_ok (s : net) (G : list (option str)) (SA : list str) : Prop :=
  quiescent s = true
  /\ st (wa s) = ST_ACTIVE /\ st (wb s) = ST_ACTIVE
  /\ nin (wa s) = nout (wb s) /\ nin (wb s) = nout (wa s)
  /\ gb s = G /\ sa s = SA /\ ga s = [] /\ sb s = [].

Lemma breaks_gen : forall js na nb b i k m pre rowsB insA insB G SA id f,
  na = nb -> (0 < k + m)%nat -> fits k js ->
  keys_lt b pre -> keys_lt nb rowsB -> all_lt na insA -> all_lt b insB ->
  0 < na -> 0 < b ->
  b + Z.of_nat k + Z.of_nat m + 2 + Z.of_nat (length js) <= I64MAX ->
  nb + 3 + 2 * Z.of_nat (length js) <= I64MAX ->
  settled_ok (drain (3 + (k + S f)) (run (net_rec na nb b i k m pre rowsB insA insB G SA id) (rounds js)))
             (G ++ map Some (texts i k)) SA.
Proof.
  induction js as [|j r IH]; intros * E KM F K1 K2 K3 K4 B1 B2 B3 B4.
  - cbn [rounds flat_map run fold_left length] in *.
    rewrite recovery_gen; try assumption; [ | lia | lia ].
    unfold settled_ok, net_rec_done. cbn [wa wb ab ba ga gb sa sb nid].
    subst na. repeat split; try reflexivity; try (unfold W; cbn [nin nout]; lia).
  - destruct F as [J F]. cbn [rounds flat_map]. fold (rounds r). rewrite run_app.
    cbn [length] in B3, B4.
    rewrite rec_step; try assumption; [ | lia | lia ].
    replace (3 + (k + S f))%nat with (3 + ((k - j) + S (f + j)))%nat by lia.
    replace (G ++ map Some (texts i k)) with ((G ++ map Some (texts i j)) ++ map Some (texts (i + Z.of_nat j) (k - j))).
    2:{ rewrite <- app_assoc, <- map_app. f_equal. f_equal. unfold texts. rewrite <- gen_app.
        replace (j + (k - j))%nat with k by lia. reflexivity. }
    apply IH; try lia; try assumption.
    + apply keys_lt_app; [eapply keys_lt_weaken; [exact K1|lia] | apply keys_lt_gen; lia].
    + apply keys_lt_app; [eapply keys_lt_weaken; [exact K2|lia] | repeat constructor; cbn [fst]; lia].
    + apply Forall_app; split; [eapply all_lt_weaken; [exact K3|lia] | repeat constructor; lia].
    + apply Forall_app; split; [eapply all_lt_weaken; [exact K4|lia] | apply all_lt_nums; lia].
Qed.

Lemma reconnected_is_rec : forall d k,
  net_reconnected d (S k)
  = net_rec 2 2 (2 + Z.of_nat d) (1 + Z.of_nat d) (S k) 0 (LA1 :: rows_app 2 1 d) [LB1] [1] (1 :: nums 2 d)
            (map Some (texts 1 d)) (texts 1 (d + S k)) (1 + Z.of_nat (d + S k)).
Proof.
  intros d k. unfold net_reconnected, net_rec.
  replace (rows_app 2 1 (d + S k)) with (rows_app 2 1 d ++ rows_app (2 + Z.of_nat d) (1 + Z.of_nat d) (S k))
    by (unfold rows_app; rewrite gen_app; reflexivity).
  unfold logons. cbn [gen]. rewrite <- ?app_assoc. cbn [app].
  replace (2 + Z.of_nat d + Z.of_nat (S k) + Z.of_nat 0) with (2 + Z.of_nat (d + S k)) by lia.
  replace (2 + Z.of_nat d + Z.of_nat (S k)) with (2 + Z.of_nat (d + S k)) by lia.
  repeat (first [ reflexivity | lia | f_equal ]).
Qed.

(* A sends n = d + k + 1 messages, the last k + 1 are in flight at the first break; then any number of
   further breaks, each after the ResendRequest has been serviced and j_t more retransmissions got through *)
Theorem repeated_breaks : forall d k js fuel,
  fits (S k) js ->
  Z.of_nat (d + S k) + 5 + 2 * Z.of_nat (length js) <= I64MAX -> (S k + 4 <= fuel)%nat ->
  recovered (drain fuel (run net0 (sched_before d (S k) ++ [ABreak; AReconnect] ++ rounds js))) (d + S k).
Proof.
  intros d k js fuel F B Fu.
  assert (B' : Z.of_nat (d + S k) + 3 <= I64MAX) by lia.
  rewrite app_assoc, run_app.
  replace (sched_before d (S k) ++ [ABreak; AReconnect]) with (sched_prefix d (S k) ++ [AReconnect])
    by (unfold sched_prefix; rewrite <- app_assoc; reflexivity).
  rewrite run_app, at_break by exact B'. cbn [run fold_left]. unfold step.
  rewrite at_reconnect by exact B'. rewrite reconnected_is_rec.
  replace fuel with (3 + (S k + S (fuel - (S k + 4))))%nat by lia.
  assert (P1 : keys_lt (2 + Z.of_nat d) (LA1 :: rows_app 2 1 d))
    by (constructor; [unfold LA1; cbn [fst]; lia | apply keys_lt_gen; lia]).
  assert (P2 : keys_lt 2 [LB1]) by (repeat constructor; unfold LB1; cbn [fst]; lia).
  assert (P3 : all_lt 2 [1]) by (repeat constructor; lia).
  assert (P4 : all_lt (2 + Z.of_nat d) (1 :: nums 2 d)) by (constructor; [lia | apply all_lt_nums; lia]).
  pose proof (breaks_gen js 2 2 (2 + Z.of_nat d) (1 + Z.of_nat d) (S k) 0 (LA1 :: rows_app 2 1 d) [LB1] [1]
                (1 :: nums 2 d) (map Some (texts 1 d)) (texts 1 (d + S k)) (1 + Z.of_nat (d + S k))
                (fuel - (S k + 4)) eq_refl ltac:(lia) F P1 P2 P3 P4 ltac:(lia) ltac:(lia) ltac:(lia) ltac:(lia)) as H.
  destruct H as [Q [A1 [A2 [N1 [N2 [G1 [S1 [G2 S2]]]]]]]].
  rewrite <- map_app, <- texts_split in G1.
  unfold recovered. repeat split; try assumption.
  apply holds_intro; try assumption; [rewrite G1, S1; reflexivity | rewrite G2, S2; reflexivity].
Qed.

(* cross-check by computation: n = 5 with the last 4 in flight, then three more breaks after 1, 0 and 2 further
   retransmissions got through *)
Lemma repeated_breaks_instance :
  let s := drain 20 (run net0 (sched_before 1 4 ++ [ABreak; AReconnect] ++ rounds [1; 0; 2]%nat)) in
  holds s = true /\ gb s = map Some (texts 1 5) /\ nin (wb s) = 11 /\ nout (wa s) = 11 /\ nin (wa s) = 10 /\ nout (wb s) = 10.
Proof. vm_compute. repeat split. Qed.

(* ------------------------------------------------------------------ a break point inside a send:
   A's last send meets the dead transport: journaled (send_msg journals first), write() raises, the break follows *)

Lemma send_app_fail_step : forall ni no lt si rows ins id,
  keys_lt no rows -> 0 < no <= I64MAX ->
  send_msg cfgA (app_msg id) (set_wr false (W 17 1 ni no 0 lt true (no - 1) si rows ins))
  = mkR (inr XAttribute) (W 17 1 ni (no + 1) 0 lt false no si (rows ++ [(no, wapp cfgA no id)]) ins) [].
Proof.
  intros * K B. unfold W. pose proof (has_key_lt _ _ K) as HK.
  timeout 60 (ev_with ltac:(rewrite ?HK)). fin.
Qed.

Lemma disconnect_conn_w : forall c s r ni no mr lt wrt so si rows ins,
  3 < s ->
  disconnect c ST_DISC_BROKEN None (W s r ni no mr lt wrt so si rows ins)
  = mkR (inl tt) (W 3 r ni no 0 0 false so si rows ins) [State 3; OnDisconnect].
Proof. intros * S. unfold W. ev. reflexivity. Qed.

Lemma at_failed_write : forall d k, Z.of_nat (d + S k) + 3 <= I64MAX ->
  run net0 (sched_before d k ++ [ASendFail SA]) = net_broken d (S k).
Proof.
  intros d k B.
  assert (B' : Z.of_nat (d + k) + 3 <= I64MAX) by lia.
  rewrite run_app, at_before by exact B'. unfold net_before.
  cbn [run fold_left]. unfold step, do_send. nopen.
  replace (W 17 1 2 (2 + Z.of_nat (d + k)) 0 NOW0 true (1 + Z.of_nat (d + k)) 1 (LA1 :: rows_app 2 1 (d + k)) [1])
    with (W 17 1 2 (2 + Z.of_nat (d + k)) 0 NOW0 true (2 + Z.of_nat (d + k) - 1) 1 (LA1 :: rows_app 2 1 (d + k)) [1])
    by (f_equal; lia).
  rewrite send_app_fail_step; [ | | unfold I64MAX in *; lia ].
  2:{ constructor; [unfold LA1; cbn [fst]; lia | apply keys_lt_gen; lia]. }
  nopen.
  match goal with |- context [(?a <? ?b)%nat] =>
    replace (a <? b)%nat with true by (symmetry; apply Nat.ltb_lt; cbn [length]; rewrite app_length; cbn [length]; lia) end.
  unfold do_break. nopen.
  rewrite disconnect_conn_w, disconnect_active by lia. nopen.
  unfold net_broken. rewrite ?app_nil_r.
  replace (d + S k)%nat with (S (d + k)) by lia.
  unfold rows_app, texts. rewrite !gen_snoc. cbn [app].
  replace (2 + Z.of_nat (d + k) - 1 + 1 - 1) with (2 + Z.of_nat (d + k) - 1) by lia.
  unfold clear_chans. cbn [wa wb ab ba ga gb sa sb nid app].
  repeat (first [ reflexivity | lia | f_equal ]).
Qed.

Theorem failed_write : forall d k fuel,
  Z.of_nat (d + S k) + 3 <= I64MAX -> (S k + 4 <= fuel)%nat ->
  recovered (settle fuel (run net0 (sched_before d k ++ [ASendFail SA]))) (d + S k).
Proof.
  intros d k fuel B F. rewrite at_failed_write, settle_broken by assumption.
  replace fuel with (3 + (S k + S (fuel - (S k + 4))))%nat by lia.
  rewrite recovery_some by assumption. apply final_recovered.
Qed.

(* cross-check by computation: two sends, the first still in flight, the third send meets the dead transport *)
Lemma failed_write_instance :
  let s := settle 20 (run net0 ([AReconnect; ADeliver SB; ADeliver SA; ASend SA; ASend SA; ADeliver SB; ASend SA; ASendFail SA])) in
  holds s = true /\ sa s = texts 1 4 /\ gb s = map Some (texts 1 4) /\ nin (wb s) = 7 /\ nout (wa s) = 7.
Proof. vm_compute. repeat split. Qed.

(* ------------------------------------------------------------------ both directions at once *)

(* the replay loop, also while the servicing end is itself waiting for a resend (state 12, any watermark) *)
Lemma replay_apps_g : forall s0, (s0 = 10 \/ s0 = 12) -> forall k s i gfe ni no mr lt so si rows ins rest,
  gfe <= s -> 0 < s -> s + Z.of_nat k <= I64MAX ->
  replay_loop cfgA (rows_app s i k ++ rest) s gfe (W s0 1 ni no mr lt true so si rows ins)
  = prepend (map Wire (frames_pd s i k))
      (replay_loop cfgA rest (s + Z.of_nat k) gfe (W s0 1 ni no mr lt true so si rows ins)).
Proof.
  intros s0 Hs. induction k as [|k IH]; intros * G B1 B2.
  - cbn. rewrite prepend_nil. replace (s + 0) with s by lia. reflexivity.
  - unfold rows_app, frames_pd. cbn [gen app map].
    fold (rows_app (s + 1) (i + 1) k). fold (frames_pd (s + 1) (i + 1) k).
    remember (rows_app (s + 1) (i + 1) k ++ rest) as tl eqn:Etl.
    specialize (IH (s + 1) (i + 1) gfe ni no mr lt so si rows ins rest ltac:(lia) ltac:(lia) ltac:(lia)).
    replace (s + 1 + Z.of_nat k) with (s + Z.of_nat (S k)) in IH by lia.
    unfold W in *.
    destruct Hs; subst s0.
    + timeout 100 (ev_with idtac). subst tl.
      lazymatch type of IH with
      | _ = ?rhs =>
          match goal with
          | |- context [replay_loop ?c ?l ?a ?g ?w] =>
              replace (replay_loop c l a g w) with rhs by (symmetry; exact IH)
          end
      end.
      destruct (replay_loop cfgA rest (s + Z.of_nat (S k)) gfe _) as [v w e]. reflexivity.
    + timeout 100 (ev_with idtac). subst tl.
      lazymatch type of IH with
      | _ = ?rhs =>
          match goal with
          | |- context [replay_loop ?c ?l ?a ?g ?w] =>
              replace (replay_loop c l a g w) with rhs by (symmetry; exact IH)
          end
      end.
      destruct (replay_loop cfgA rest (s + Z.of_nat (S k)) gfe _) as [v w e]. reflexivity.
Qed.

(* recover_messages(OUTBOUND, b, maxsize) on  pre ++ (k rows from b) ++ (a sorted suffix above them) *)
Lemma recover_range_suf : forall (g : Z -> Z -> msg) pre b i k suf M,
  keys_lt b pre -> incr suf -> b + Z.of_nat k <= M ->
  Forall (fun r : Z * msg => b + Z.of_nat k <= fst r <= M) suf ->
  sort_rows (filter (fun r : Z * msg => (b <=? fst r) && (fst r <=? M))
                    (pre ++ gen (fun s i => (s, g s i)) b i k ++ suf))
  = gen (fun s i => (s, g s i)) b i k ++ suf.
Proof.
  intros * K I KM F. rewrite !filter_app.
  rewrite (filter_false _ _ pre).
  2:{ eapply Forall_impl; [|exact K]. cbn. intros [a x] Ha. cbn in *.
      replace (b <=? a) with false by (symmetry; apply Z.leb_gt; lia). reflexivity. }
  rewrite (filter_true _ _ (gen _ b i k)).
  2:{ apply gen_Forall. intros q Hq. cbn.
      replace (b <=? b + Z.of_nat q) with true by (symmetry; apply Z.leb_le; lia).
      replace (b + Z.of_nat q <=? M) with true by (symmetry; apply Z.leb_le; lia). reflexivity. }
  rewrite (filter_true _ _ suf).
  2:{ eapply Forall_impl; [|exact F]. cbn. intros [a x] Ha. cbn in *.
      replace (b <=? a) with true by (symmetry; apply Z.leb_le; lia).
      replace (a <=? M) with true by (symmetry; apply Z.leb_le; lia). reflexivity. }
  cbn [app]. apply sort_rows_incr. apply incr_gen_app; [exact I|].
  intros r Hr. destruct suf as [|r0 suf]; [discriminate|]. cbn in Hr. injection Hr as <-.
  inversion F; subst. lia.
Qed.

(* --- A, itself waiting for a resend (state 12), is asked to resend: ResendRequest(b, 0) numbered above its
       expected number; k journaled application messages b .. L-1, then its Logon L and its own ResendRequest L+1.
       Nothing is counted (the request is above the expected number), nothing changes in A; the replies are written *)
Lemma recv_rr_awaiting : forall ni s mr lt si so pre ins b b2 i k L,
  keys_lt b pre -> 0 < ni < s -> s <= I64MAX -> 0 < mr -> 0 < b -> L = b + Z.of_nat k -> L + 2 < I64MAX ->
  process_message cfgA (recv_of cfgA (wrr cfgB s b)) NOW0
    (W 12 1 ni (L + 2) mr lt true so si
       (pre ++ rows_app b i k ++ [(L, wlogon cfgA L); (L + 1, wrr cfgA (L + 1) b2)]) ins)
  = mkR (inl tt)
        (W 12 1 ni (L + 2) mr lt true so si
           (pre ++ rows_app b i k ++ [(L, wlogon cfgA L); (L + 1, wrr cfgA (L + 1) b2)]) ins)
        (map Wire (frames_pd b i k) ++ [Wire (wgf cfgA L (L + 2))]).
Proof.
  intros * K2 B1 B2 B3 B4 EL B5. unfold W, process_message, validate_integrity.
  timeout 100 (ev_with idtac).
  match goal with |- context [sort_rows (filter ?f ?l)] =>
    replace (sort_rows (filter f l)) with (rows_app b i k ++ [(L, wlogon cfgA L); (L + 1, wrr cfgA (L + 1) b2)])
      by (symmetry; apply recover_range_suf;
          [exact K2 | cbn; lia | lia | repeat constructor; cbn [fst]; lia]) end.
  match goal with |- context [replay_loop ?c ?l ?a ?g ?w] =>
    replace (replay_loop c l a g w)
      with (prepend (map Wire (frames_pd b i k))
              (replay_loop cfgA [(L, wlogon cfgA L); (L + 1, wrr cfgA (L + 1) b2)] (b + Z.of_nat k) b w))
      by (symmetry; apply (replay_apps_g 12); [right; reflexivity | lia | lia | unfold I64MAX; lia]) end.
  timeout 100 (ev_with idtac).
  subst L. fin.
Qed.

(* mirror images (cfgA <-> cfgB, role 1 <-> 2), same scripts *)

Lemma replay_apps_g_m : forall s0, (s0 = 10 \/ s0 = 12) -> forall k s i gfe ni no mr lt so si rows ins rest,
  gfe <= s -> 0 < s -> s + Z.of_nat k <= I64MAX ->
  replay_loop cfgB (rows_app_m s i k ++ rest) s gfe (W s0 2 ni no mr lt true so si rows ins)
  = prepend (map Wire (frames_pd_m s i k))
      (replay_loop cfgB rest (s + Z.of_nat k) gfe (W s0 2 ni no mr lt true so si rows ins)).
Proof.
  intros s0 Hs. induction k as [|k IH]; intros * G B1 B2.
  - cbn. rewrite prepend_nil. replace (s + 0) with s by lia. reflexivity.
  - unfold rows_app_m, frames_pd_m. cbn [gen app map].
    fold (rows_app_m (s + 1) (i + 1) k). fold (frames_pd_m (s + 1) (i + 1) k).
    remember (rows_app_m (s + 1) (i + 1) k ++ rest) as tl eqn:Etl.
    specialize (IH (s + 1) (i + 1) gfe ni no mr lt so si rows ins rest ltac:(lia) ltac:(lia) ltac:(lia)).
    replace (s + 1 + Z.of_nat k) with (s + Z.of_nat (S k)) in IH by lia.
    unfold W in *.
    destruct Hs; subst s0.
    + timeout 100 (ev_with idtac). subst tl.
      lazymatch type of IH with
      | _ = ?rhs =>
          match goal with
          | |- context [replay_loop ?c ?l ?a ?g ?w] =>
              replace (replay_loop c l a g w) with rhs by (symmetry; exact IH)
          end
      end.
      destruct (replay_loop cfgB rest (s + Z.of_nat (S k)) gfe _) as [v w e]. reflexivity.
    + timeout 100 (ev_with idtac). subst tl.
      lazymatch type of IH with
      | _ = ?rhs =>
          match goal with
          | |- context [replay_loop ?c ?l ?a ?g ?w] =>
              replace (replay_loop c l a g w) with rhs by (symmetry; exact IH)
          end
      end.
      destruct (replay_loop cfgB rest (s + Z.of_nat (S k)) gfe _) as [v w e]. reflexivity.
Qed.

Lemma recv_rr_awaiting_m : forall ni s mr lt si so pre ins b b2 i k L,
  keys_lt b pre -> 0 < ni < s -> s <= I64MAX -> 0 < mr -> 0 < b -> L = b + Z.of_nat k -> L + 2 < I64MAX ->
  process_message cfgB (recv_of cfgB (wrr cfgA s b)) NOW0
    (W 12 2 ni (L + 2) mr lt true so si
       (pre ++ rows_app_m b i k ++ [(L, wlogon cfgB L); (L + 1, wrr cfgB (L + 1) b2)]) ins)
  = mkR (inl tt)
        (W 12 2 ni (L + 2) mr lt true so si
           (pre ++ rows_app_m b i k ++ [(L, wlogon cfgB L); (L + 1, wrr cfgB (L + 1) b2)]) ins)
        (map Wire (frames_pd_m b i k) ++ [Wire (wgf cfgB L (L + 2))]).
Proof.
  intros * K2 B1 B2 B3 B4 EL B5. unfold W, process_message, validate_integrity.
  timeout 100 (ev_with idtac).
  match goal with |- context [sort_rows (filter ?f ?l)] =>
    replace (sort_rows (filter f l)) with (rows_app_m b i k ++ [(L, wlogon cfgB L); (L + 1, wrr cfgB (L + 1) b2)])
      by (symmetry; apply recover_range_suf;
          [exact K2 | cbn; lia | lia | repeat constructor; cbn [fst]; lia]) end.
  match goal with |- context [replay_loop ?c ?l ?a ?g ?w] =>
    replace (replay_loop c l a g w)
      with (prepend (map Wire (frames_pd_m b i k))
              (replay_loop cfgB [(L, wlogon cfgB L); (L + 1, wrr cfgB (L + 1) b2)] (b + Z.of_nat k) b w))
      by (symmetry; apply (replay_apps_g_m 12); [right; reflexivity | lia | lia | unfold I64MAX; lia]) end.
  timeout 100 (ev_with idtac).
  subst L. fin.
Qed.

Lemma recv_gf_awaiting_gen_m : forall ni e mr lt no so si rows ins,
  all_lt ni ins -> keys_lt no rows -> 0 < ni < e -> 0 < mr <= e - 1 -> e <= I64MAX -> 0 < no <= I64MAX ->
  so = no - 1 -> si = ni - 1 ->
  process_message cfgA (recv_of cfgA (wgf cfgB ni e)) NOW0 (W 12 1 ni no mr lt true so si rows ins)
  = mkR (inl tt) (W 17 1 e no 0 NOW0 true so ni rows (ins ++ [ni])) [State 17].
Proof.
  intros * K1 K2 B1 B2 B3 B4 -> ->. unfold W, process_message, validate_integrity.
  pose proof (existsb_lt _ _ K1) as HK1.
  timeout 100 (ev_with ltac:(rewrite ?(filter_ins_lt _ _ K1) by lia; rewrite ?(filter_rows_lt _ _ K2) by lia; rewrite ?HK1)).
  fin.
Qed.

(* the network just after a reconnect + Logon of A, both directions in general position: B has not seen A's
   application messages xb .. xb+ka-1 nor A's Logon LA; A has not seen B's xa .. xa+kb-1 *)
Definition net_rb (xa xb ia ib : Z) (ka kb : nat) (preA preB : list (Z * msg)) (insA insB : list Z)
                  (GA GB : list (option str)) (SA SB : list str) (id : Z) : net :=
  let LA := xb + Z.of_nat ka in
  let LB := xa + Z.of_nat kb in
  mkNet (W 7 1 xa (LA + 1) 0 0 true LA (xa - 1) (preA ++ rows_app xb ia ka ++ [(LA, wlogon cfgA LA)]) insA)
        (W 6 2 xb LB 0 0 true (LB - 1) (xb - 1) (preB ++ rows_app_m xa ib kb) insB)
        [wlogon cfgA LA] [] GA GB SA SB id.

Definition settled_both (s : net) (GA GB : list (option str)) (SA SB : list str) : Prop :=
  quiescent s = true
  /\ st (wa s) = ST_ACTIVE /\ st (wb s) = ST_ACTIVE
  /\ nin (wa s) = nout (wb s) /\ nin (wb s) = nout (wa s)
  /\ ga s = GA /\ gb s = GB /\ sa s = SA /\ sb s = SB.

(* both ends miss something: two ResendRequests cross *)
Lemma recovery_both_SS : forall xa xb ia ib ka kb preA preB insA insB GA GB SA SB id f,
  keys_lt xb preA -> keys_lt xa preB -> all_lt xa insA -> all_lt xb insB ->
  0 < xa -> 0 < xb ->
  xb + Z.of_nat (S ka) + 3 <= I64MAX -> xa + Z.of_nat (S kb) + 3 <= I64MAX ->
  settled_both (drain (4 + (S ka + (1 + (S kb + S f))))
                      (net_rb xa xb ia ib (S ka) (S kb) preA preB insA insB GA GB SA SB id))
               (GA ++ map Some (texts ib (S kb))) (GB ++ map Some (texts ia (S ka))) SA SB.
Proof.
  intros * K1 K2 K3 K4 B1 B2 B3 B4. unfold net_rb.
  set (LA := xb + Z.of_nat (S ka)) in *. set (LB := xa + Z.of_nat (S kb)) in *.
  assert (KB : keys_lt LB (preB ++ rows_app_m xa ib (S kb))).
  { apply keys_lt_app; [eapply keys_lt_weaken; [exact K2|unfold LB; lia] | apply keys_lt_gen; unfold LB; lia]. }
  assert (KA : keys_lt (LA + 1) (preA ++ rows_app xb ia (S ka) ++ [(LA, wlogon cfgA LA)])).
  { repeat apply keys_lt_app; [eapply keys_lt_weaken; [exact K1|unfold LA; lia] | apply keys_lt_gen; unfold LA; lia
                               | repeat constructor; cbn [fst]; lia]. }
  cbn [Nat.add].
  (* 1. B: Logon numbered above the expected number *)
  rewrite drain_S. unfold pending at 1. nopen. unfold do_deliver. nopen.
  rewrite (recv_logon_high xb LB (LB - 1) (xb - 1) _ insB LA);
    [ | exact KB | unfold LA; lia | unfold I64MAX in *; unfold LA; lia | unfold I64MAX in *; unfold LB; lia | lia ].
  nopen.
  (* 2. A: Logon reply numbered above the expected number *)
  rewrite drain_S. nopen. unfold do_deliver. nopen.
  rewrite (recv_logon_reply_high xa (LA + 1) LA (xa - 1) _ insA LB);
    [ | exact KA | unfold LB; lia | unfold I64MAX in *; unfold LB; lia | unfold I64MAX in *; unfold LA; lia | lia ].
  nopen.
  replace (LA + 1 + 1) with (LA + 2) by lia.
  rewrite <- (app_assoc preB), <- (app_assoc preA), <- (app_assoc (rows_app xb ia (S ka))). cbn [app].
  (* 3. B, waiting, is asked to resend: writes its retransmissions and the gap fill over its Logon + ResendRequest *)
  rewrite drain_S. unfold pending at 1. nopen. unfold do_deliver. nopen.
  rewrite (recv_rr_awaiting_m xb (LA + 1) LA 0 (xb - 1) (LB + 1) preB insB xa xb ib (S kb) LB);
    [ | exact K2 | unfold LA; lia | unfold I64MAX in *; unfold LA; lia | unfold LA; lia | lia | reflexivity
      | unfold I64MAX in *; unfold LB; lia ].
  nopen. refold. rewrite wires_app, apps_app, wires_map_wire, apps_map_wire. nopen.
  (* 4. A, waiting, is asked to resend *)
  rewrite drain_S. nopen. unfold do_deliver. nopen.
  rewrite (recv_rr_awaiting xa (LB + 1) LB 0 (xa - 1) (LA + 1) preA insA xb xa ia (S ka) LA);
    [ | exact K1 | unfold LB; lia | unfold I64MAX in *; unfold LB; lia | unfold LB; lia | lia | reflexivity
      | unfold I64MAX in *; unfold LA; lia ].
  nopen. refold. rewrite wires_app, apps_app, wires_map_wire, apps_map_wire. nopen.
  (* 5. B: A's retransmissions, then the gap fill LA -> LA + 2 *)
  change (S (ka + S (S (kb + S f)))) with (S ka + S (S (kb + S f)))%nat.
  rewrite (drain_pd ka (S (S (kb + S f))) xb ia LA 0 (LB + 2) (LB + 1) (xb - 1));
    [ | exact K4 | lia | unfold LA; lia | unfold I64MAX in *; unfold LA; lia | lia ].
  rewrite drain_S. unfold pending at 1. nopen. unfold do_deliver. nopen.
  replace (xb + Z.of_nat (S ka)) with LA by reflexivity.
  rewrite (recv_gf_awaiting_gen LA (LA + 2) LA NOW0 (LB + 2) (LB + 1) (xb - 1 + Z.of_nat (S ka)));
    [ | apply Forall_app; split; [eapply all_lt_weaken; [exact K4|unfold LA; lia] | apply all_lt_nums; unfold LA; lia]
      | repeat apply keys_lt_app; [eapply keys_lt_weaken; [exact K2|unfold LB; lia] | apply keys_lt_gen; unfold LB; lia
                                   | repeat constructor; cbn [fst]; lia]
      | unfold LA; lia | unfold LA; lia | unfold I64MAX in *; unfold LA; lia | unfold I64MAX in *; unfold LB; lia
      | lia | unfold LA; lia ].
  nopen.
  (* 6. A: B's retransmissions, then the gap fill LB -> LB + 2 *)
  change (S (kb + S f)) with (S kb + S f)%nat.
  rewrite ?app_nil_r.
  rewrite (drain_pd_m kb (S f) xa ib LB 0 (LA + 2) (LA + 1) (xa - 1));
    [ | exact K3 | lia | unfold LB; lia | unfold I64MAX in *; unfold LB; lia | lia ].
  rewrite drain_S. nopen. unfold do_deliver. nopen.
  replace (xa + Z.of_nat (S kb)) with LB by reflexivity.
  rewrite (recv_gf_awaiting_gen_m LB (LB + 2) LB NOW0 (LA + 2) (LA + 1) (xa - 1 + Z.of_nat (S kb)));
    [ | apply Forall_app; split; [eapply all_lt_weaken; [exact K3|unfold LB; lia] | apply all_lt_nums; unfold LB; lia]
      | repeat apply keys_lt_app; [eapply keys_lt_weaken; [exact K1|unfold LA; lia] | apply keys_lt_gen; unfold LA; lia
                                   | repeat constructor; cbn [fst]; lia]
      | unfold LB; lia | unfold LB; lia | unfold I64MAX in *; unfold LB; lia | unfold I64MAX in *; unfold LA; lia
      | lia | unfold LB; lia ].
  nopen. rewrite drain_quiet; [ | reflexivity | reflexivity ].
  unfold settled_both. cbn [wa wb ab ba ga gb sa sb nid]. rewrite ?app_nil_r.
  repeat split; reflexivity.
Qed.

(* nothing is missing on either side *)
Lemma recovery_both_00 : forall xa xb ia ib preA preB insA insB GA GB SA SB id f,
  keys_lt xb preA -> keys_lt xa preB -> all_lt xa insA -> all_lt xb insB ->
  0 < xa -> 0 < xb -> xb + 3 <= I64MAX -> xa + 3 <= I64MAX ->
  settled_both (drain (S (S f)) (net_rb xa xb ia ib 0 0 preA preB insA insB GA GB SA SB id))
               (GA ++ map Some (texts ib 0)) (GB ++ map Some (texts ia 0)) SA SB.
Proof.
  intros * K1 K2 K3 K4 B1 B2 B3 B4. unfold net_rb. change (Z.of_nat 0) with 0.
  replace (xb + 0) with xb by lia. replace (xa + 0) with xa by lia.
  unfold rows_app, rows_app_m. cbn [gen app]. rewrite !app_nil_r.
  rewrite drain_S. unfold pending at 1. nopen. unfold do_deliver. nopen.
  rewrite (recv_logon_exact xb xa (xa - 1) (xb - 1) preB insB);
    [ | exact K4 | exact K2 | unfold I64MAX in *; lia | unfold I64MAX in *; lia | lia | lia ].
  nopen.
  rewrite drain_S. nopen. unfold do_deliver. nopen.
  rewrite (recv_logon_reply xa (xb + 1) xb (xa - 1) _ insA);
    [ | exact K3 | unfold I64MAX in *; lia | lia ].
  nopen. rewrite drain_quiet; [ | reflexivity | reflexivity ].
  unfold settled_both, texts. cbn [wa wb ab ba ga gb sa sb nid gen map]. rewrite ?app_nil_r.
  repeat split; reflexivity.
Qed.

(* only B misses something *)
Lemma recovery_both_S0 : forall xa xb ia ib ka preA preB insA insB GA GB SA SB id f,
  keys_lt xb preA -> keys_lt xa preB -> all_lt xa insA -> all_lt xb insB ->
  0 < xa -> 0 < xb -> xb + Z.of_nat (S ka) + 3 <= I64MAX -> xa + 3 <= I64MAX ->
  settled_both (drain (3 + (S ka + S f)) (net_rb xa xb ia ib (S ka) 0 preA preB insA insB GA GB SA SB id))
               (GA ++ map Some (texts ib 0)) (GB ++ map Some (texts ia (S ka))) SA SB.
Proof.
  intros * K1 K2 K3 K4 B1 B2 B3 B4. unfold net_rb. change (Z.of_nat 0) with 0.
  replace (xa + 0) with xa by lia.
  set (LA := xb + Z.of_nat (S ka)) in *.
  unfold rows_app_m. cbn [gen]. rewrite (app_nil_r preB).
  cbn [Nat.add].
  rewrite drain_S. unfold pending at 1. nopen. unfold do_deliver. nopen.
  rewrite (recv_logon_high xb xa (xa - 1) (xb - 1) preB insB LA);
    [ | exact K2 | unfold LA; lia | unfold I64MAX in *; unfold LA; lia | unfold I64MAX in *; lia | lia ].
  nopen.
  rewrite drain_S. nopen. unfold do_deliver. nopen.
  rewrite (recv_logon_reply xa (LA + 1) LA (xa - 1) _ insA);
    [ | exact K3 | unfold I64MAX in *; lia | lia ].
  nopen.
  rewrite drain_S. nopen. unfold do_deliver. nopen.
  rewrite (recv_resend_request (xa + 1) NOW0 xa preA (insA ++ [xa]) xb ia (S ka) LA);
    [ | apply Forall_app; split; [eapply all_lt_weaken; [exact K3|lia] | repeat constructor; lia]
      | exact K1 | unfold I64MAX in *; lia | lia | reflexivity | unfold I64MAX in *; unfold LA; lia | lia ].
  nopen. refold. rewrite wires_app, apps_app, wires_map_wire, apps_map_wire. nopen.
  change (S (ka + S f)) with (S ka + S f)%nat.
  rewrite (drain_pd ka (S f) xb ia LA 0 (xa + 2) (xa + 1) (xb - 1));
    [ | exact K4 | lia | unfold LA; lia | unfold I64MAX in *; unfold LA; lia | lia ].
  rewrite drain_S. unfold pending at 1. nopen. unfold do_deliver. nopen.
  replace (xb + Z.of_nat (S ka)) with LA by reflexivity.
  rewrite (recv_gf_awaiting_gen LA (LA + 1) LA NOW0 (xa + 2) (xa + 1) (xb - 1 + Z.of_nat (S ka)));
    [ | apply Forall_app; split; [eapply all_lt_weaken; [exact K4|unfold LA; lia] | apply all_lt_nums; unfold LA; lia]
      | apply keys_lt_app; [eapply keys_lt_weaken; [exact K2|lia] | repeat constructor; cbn [fst]; lia]
      | unfold LA; lia | unfold LA; lia | unfold I64MAX in *; unfold LA; lia | unfold I64MAX in *; lia
      | lia | unfold LA; lia ].
  nopen. rewrite drain_quiet; [ | reflexivity | reflexivity ].
  unfold settled_both, texts. cbn [wa wb ab ba ga gb sa sb nid gen map]. rewrite ?app_nil_r.
  repeat split; try reflexivity; unfold W; cbn [nin nout]; lia.
Qed.

(* only A misses something *)
Lemma recovery_both_0S : forall xa xb ia ib kb preA preB insA insB GA GB SA SB id f,
  keys_lt xb preA -> keys_lt xa preB -> all_lt xa insA -> all_lt xb insB ->
  0 < xa -> 0 < xb -> xb + 3 <= I64MAX -> xa + Z.of_nat (S kb) + 3 <= I64MAX ->
  settled_both (drain (3 + (S kb + S f)) (net_rb xa xb ia ib 0 (S kb) preA preB insA insB GA GB SA SB id))
               (GA ++ map Some (texts ib (S kb))) (GB ++ map Some (texts ia 0)) SA SB.
Proof.
  intros * K1 K2 K3 K4 B1 B2 B3 B4. unfold net_rb. change (Z.of_nat 0) with 0.
  replace (xb + 0) with xb by lia.
  set (LB := xa + Z.of_nat (S kb)) in *.
  unfold rows_app. cbn [gen app].
  assert (KB : keys_lt LB (preB ++ rows_app_m xa ib (S kb))).
  { apply keys_lt_app; [eapply keys_lt_weaken; [exact K2|unfold LB; lia] | apply keys_lt_gen; unfold LB; lia]. }
  cbn [Nat.add].
  rewrite drain_S. unfold pending at 1. nopen. unfold do_deliver. nopen.
  rewrite (recv_logon_exact xb LB (LB - 1) (xb - 1) _ insB);
    [ | exact K4 | exact KB | unfold I64MAX in *; lia | unfold I64MAX in *; unfold LB; lia | lia | lia ].
  nopen.
  rewrite drain_S. nopen. unfold do_deliver. nopen.
  rewrite (recv_logon_reply_high xa (xb + 1) xb (xa - 1) _ insA LB);
    [ | apply keys_lt_app; [eapply keys_lt_weaken; [exact K1|lia] | repeat constructor; cbn [fst]; lia]
      | unfold LB; lia | unfold I64MAX in *; unfold LB; lia | unfold I64MAX in *; lia | lia ].
  nopen.
  rewrite drain_S. unfold pending at 1. nopen. unfold do_deliver. nopen.
  rewrite <- (app_assoc preB).
  rewrite (recv_resend_request_m (xb + 1) NOW0 xb preB (insB ++ [xb]) xa ib (S kb) LB);
    [ | apply Forall_app; split; [eapply all_lt_weaken; [exact K4|lia] | repeat constructor; lia]
      | exact K2 | unfold I64MAX in *; lia | lia | reflexivity | unfold I64MAX in *; unfold LB; lia | lia ].
  nopen. refold. rewrite wires_app, apps_app, wires_map_wire, apps_map_wire. nopen.
  change (S (kb + S f)) with (S kb + S f)%nat.
  rewrite (drain_pd_m kb (S f) xa ib LB 0 (xb + 1 + 1) (xb + 1) (xa - 1));
    [ | exact K3 | lia | unfold LB; lia | unfold I64MAX in *; unfold LB; lia | lia ].
  rewrite drain_S. nopen. unfold do_deliver. nopen.
  replace (xa + Z.of_nat (S kb)) with LB by reflexivity.
  rewrite (recv_gf_awaiting_gen_m LB (LB + 1) LB NOW0 (xb + 1 + 1) (xb + 1) (xa - 1 + Z.of_nat (S kb)));
    [ | apply Forall_app; split; [eapply all_lt_weaken; [exact K3|unfold LB; lia] | apply all_lt_nums; unfold LB; lia]
      | repeat apply keys_lt_app; [eapply keys_lt_weaken; [exact K1|lia] | repeat constructor; cbn [fst]; lia
                                   | repeat constructor; cbn [fst]; lia]
      | unfold LB; lia | unfold LB; lia | unfold I64MAX in *; unfold LB; lia | unfold I64MAX in *; lia
      | lia | unfold LB; lia ].
  nopen. rewrite drain_quiet; [ | reflexivity | reflexivity ].
  unfold settled_both, texts. cbn [wa wb ab ba ga gb sa sb nid gen map]. rewrite ?app_nil_r.
  repeat split; try reflexivity; unfold W; cbn [nin nout]; lia.
Qed.

(* deliveries to A while ACTIVE, whatever is in flight towards B *)
Lemma delivers_A2 : forall k s i noa soa si rowsa insa wbv abv rest gav gbv sav sbv id,
  all_lt s insa -> 0 < s -> s + Z.of_nat k < I64MAX -> si = s - 1 ->
  run (mkNet (W 17 1 s noa 0 NOW0 true soa si rowsa insa) wbv abv (frames_app_m s i k ++ rest) gav gbv sav sbv id)
      (repeat (ADeliver SA) k)
  = mkNet (W 17 1 (s + Z.of_nat k) noa 0 NOW0 true soa (si + Z.of_nat k) rowsa (insa ++ nums s k)) wbv
          abv rest (gav ++ map Some (texts i k)) gbv sav sbv id.
Proof.
  induction k as [|k IH]; intros * K B1 B2 E.
  - cbn. rewrite !app_nil_r. replace (s + 0) with s by lia. replace (si + 0) with si by lia. reflexivity.
  - subst si. unfold frames_app_m. cbn [gen app repeat run fold_left]. fold (frames_app_m (s + 1) (i + 1) k).
    match goal with |- fold_left ?f ?l ?x = _ => change (fold_left f l x) with (run x l) end.
    unfold step, do_deliver. nopen.
    rewrite (recv_app_active_m s noa NOW0 soa (s - 1) rowsa insa i K) by (unfold I64MAX in *; lia).
    nopen. rewrite text_of_app, ?app_nil_r.
    rewrite IH; [ | | lia | unfold I64MAX in *; lia | lia ].
    + unfold nums, texts. cbn [gen map]. rewrite <- !app_assoc. cbn [app].
      repeat (first [ reflexivity | lia | f_equal ]).
    + apply Forall_app. split; [eapply all_lt_weaken; [exact K|lia]|]. repeat constructor. lia.
Qed.

(* first Logon exchange; A sends da + ka messages, then B sends db + kb; the first da of A's reach B, the first
   db of B's reach A; then the link breaks *)
Definition sched_before_both (da ka db kb : nat) : list action :=
  [AReconnect; ADeliver SB; ADeliver SA] ++ repeat (ASend SA) (da + ka) ++ repeat (ASend SB) (db + kb)
  ++ repeat (ADeliver SB) da ++ repeat (ADeliver SA) db.

Definition net_before_both (da ka db kb : nat) : net :=
  let N := Z.of_nat (da + ka) in
  let M := Z.of_nat (db + kb) in
  mkNet (W 17 1 (2 + Z.of_nat db) (2 + N) 0 NOW0 true (1 + N) (1 + Z.of_nat db) ([LA1] ++ rows_app 2 1 (da + ka)) ([1] ++ nums 2 db))
        (W 17 2 (2 + Z.of_nat da) (2 + M) 0 NOW0 true (1 + M) (1 + Z.of_nat da) ([LB1] ++ rows_app_m 2 (1 + N) (db + kb)) ([1] ++ nums 2 da))
        (frames_app (2 + Z.of_nat da) (1 + Z.of_nat da) ka)
        (frames_app_m (2 + Z.of_nat db) (1 + N + Z.of_nat db) kb)
        ([] ++ map Some (texts (1 + N) db)) ([] ++ map Some (texts 1 da))
        ([] ++ texts 1 (da + ka)) ([] ++ texts (1 + N) (db + kb)) (1 + N + M).

Lemma at_before_both : forall da ka db kb,
  Z.of_nat (da + ka) + 3 <= I64MAX -> Z.of_nat (db + kb) + 3 <= I64MAX ->
  run net0 (sched_before_both da ka db kb) = net_before_both da ka db kb.
Proof.
  intros * B1 B2. unfold sched_before_both. rewrite run_app, first_logon. unfold net_up.
  rewrite run_app.
  rewrite (sends_A (da + ka) 2 2 NOW0 1 1 [LA1] [1]); [ | repeat constructor; cbn; lia | lia | lia | lia ].
  rewrite run_app.
  rewrite (sends_B (db + kb) 2 2 NOW0 1 1 [LB1] [1]); [ | repeat constructor; cbn; lia | lia | lia | lia ].
  rewrite run_app.
  unfold frames_app at 1. rewrite gen_app. fold (frames_app 2 1 da). cbn [app].
  rewrite (delivers_B da 2 1); [ | repeat constructor; lia | lia | unfold I64MAX in *; lia | lia ].
  unfold frames_app_m at 1. rewrite gen_app. fold (frames_app_m 2 (1 + Z.of_nat (da + ka)) db). cbn [app].
  rewrite (delivers_A2 db 2 (1 + Z.of_nat (da + ka))); [ | repeat constructor; lia | lia | unfold I64MAX in *; lia | lia ].
  unfold net_before_both. cbn [app].
  repeat (first [ reflexivity | lia | f_equal ]).
Qed.

Definition net_broken_both (da ka db kb : nat) : net :=
  let N := Z.of_nat (da + ka) in
  let M := Z.of_nat (db + kb) in
  mkNet (W 3 1 (2 + Z.of_nat db) (2 + N) 0 0 false (1 + N) (1 + Z.of_nat db) ([LA1] ++ rows_app 2 1 (da + ka)) ([1] ++ nums 2 db))
        (W 3 2 (2 + Z.of_nat da) (2 + M) 0 0 false (1 + M) (1 + Z.of_nat da) ([LB1] ++ rows_app_m 2 (1 + N) (db + kb)) ([1] ++ nums 2 da))
        [] []
        ([] ++ map Some (texts (1 + N) db)) ([] ++ map Some (texts 1 da))
        ([] ++ texts 1 (da + ka)) ([] ++ texts (1 + N) (db + kb)) (1 + N + M).

Lemma at_break_both : forall da ka db kb,
  Z.of_nat (da + ka) + 3 <= I64MAX -> Z.of_nat (db + kb) + 3 <= I64MAX ->
  run net0 (sched_before_both da ka db kb ++ [ABreak]) = net_broken_both da ka db kb.
Proof.
  intros * B1 B2. rewrite run_app, at_before_both by assumption. unfold net_before_both.
  cbn [run fold_left]. unfold step, do_break. nopen.
  rewrite !disconnect_active. nopen. rewrite ?app_nil_r. reflexivity.
Qed.

Lemma at_reconnect_both : forall da ka db kb,
  Z.of_nat (da + ka) + 3 <= I64MAX -> Z.of_nat (db + kb) + 3 <= I64MAX ->
  do_reconnect (net_broken_both da ka db kb)
  = net_rb (2 + Z.of_nat db) (2 + Z.of_nat da) (1 + Z.of_nat da) (1 + Z.of_nat (da + ka) + Z.of_nat db) ka kb
           (LA1 :: rows_app 2 1 da) (LB1 :: rows_app_m 2 (1 + Z.of_nat (da + ka)) db)
           (1 :: nums 2 db) (1 :: nums 2 da)
           (map Some (texts (1 + Z.of_nat (da + ka)) db)) (map Some (texts 1 da))
           (texts 1 (da + ka)) (texts (1 + Z.of_nat (da + ka)) (db + kb))
           (1 + Z.of_nat (da + ka) + Z.of_nat (db + kb)).
Proof.
  intros * B1 B2. unfold net_broken_both, do_reconnect. nopen.
  set (N := Z.of_nat (da + ka)) in *. set (M := Z.of_nat (db + kb)) in *.
  change (set_wr true (set_st ST_NCE (W 3 1 (2 + Z.of_nat db) (2 + N) 0 0 false (1 + N) (1 + Z.of_nat db) (LA1 :: rows_app 2 1 (da + ka)) (1 :: nums 2 db))))
    with (W 6 1 (2 + Z.of_nat db) (2 + N) 0 0 true (1 + N) (1 + Z.of_nat db) (LA1 :: rows_app 2 1 (da + ka)) (1 :: nums 2 db)).
  change (set_wr true (set_st ST_NCE (W 3 2 (2 + Z.of_nat da) (2 + M) 0 0 false (1 + M) (1 + Z.of_nat da) (LB1 :: rows_app_m 2 (1 + N) (db + kb)) (1 :: nums 2 da))))
    with (W 6 2 (2 + Z.of_nat da) (2 + M) 0 0 true (1 + M) (1 + Z.of_nat da) (LB1 :: rows_app_m 2 (1 + N) (db + kb)) (1 :: nums 2 da)).
  replace (W 6 1 (2 + Z.of_nat db) (2 + N) 0 0 true (1 + N) (1 + Z.of_nat db) (LA1 :: rows_app 2 1 (da + ka)) (1 :: nums 2 db))
    with (W 6 1 (2 + Z.of_nat db) (2 + N) 0 0 true (2 + N - 1) (1 + Z.of_nat db) (LA1 :: rows_app 2 1 (da + ka)) (1 :: nums 2 db))
    by (f_equal; lia).
  rewrite send_logon_step; [ | | unfold I64MAX in *; lia ].
  2:{ constructor; [unfold LA1; cbn [fst]; lia | apply keys_lt_gen; unfold N; lia]. }
  nopen. unfold net_rb.
  replace (rows_app 2 1 (da + ka)) with (rows_app 2 1 da ++ rows_app (2 + Z.of_nat da) (1 + Z.of_nat da) ka)
    by (unfold rows_app; rewrite gen_app; reflexivity).
  replace (rows_app_m 2 (1 + N) (db + kb)) with (rows_app_m 2 (1 + N) db ++ rows_app_m (2 + Z.of_nat db) (1 + N + Z.of_nat db) kb)
    by (unfold rows_app_m; rewrite gen_app; reflexivity).
  rewrite <- ?app_assoc. cbn [app].
  replace (2 + Z.of_nat da + Z.of_nat ka) with (2 + N) by (unfold N; lia).
  replace (2 + Z.of_nat db + Z.of_nat kb) with (2 + M) by (unfold M; lia).
  rewrite ?app_nil_r. repeat (first [ reflexivity | lia | f_equal ]).
Qed.

(* what the property asks when both applications have sent *)
Definition recovered_both (s : net) (n m : nat) : Prop :=
  quiescent s = true
  /\ st (wa s) = ST_ACTIVE /\ st (wb s) = ST_ACTIVE
  /\ nin (wa s) = nout (wb s) /\ nin (wb s) = nout (wa s)
  /\ sa s = texts 1 n /\ gb s = map Some (texts 1 n)
  /\ sb s = texts (1 + Z.of_nat n) m /\ ga s = map Some (texts (1 + Z.of_nat n) m)
  /\ holds s = true.

Lemma texts_split_at : forall i a b, texts i (a + b) = texts i a ++ texts (i + Z.of_nat a) b.
Proof. intros. unfold texts. rewrite gen_app. reflexivity. Qed.

Theorem single_break_both : forall da ka db kb fuel,
  Z.of_nat (da + ka) + 5 <= I64MAX -> Z.of_nat (db + kb) + 5 <= I64MAX -> (ka + kb + 6 <= fuel)%nat ->
  recovered_both (settle fuel (run net0 (sched_before_both da ka db kb ++ [ABreak]))) (da + ka) (db + kb).
Proof.
  intros * B1 B2 F.
  rewrite at_break_both by lia. unfold settle.
  rewrite (drain_quiet fuel (net_broken_both da ka db kb)) by reflexivity.
  replace (link_down (net_broken_both da ka db kb)) with true by reflexivity.
  rewrite at_reconnect_both by lia.
  set (N := Z.of_nat (da + ka)) in *. set (M := Z.of_nat (db + kb)) in *.
  assert (P1 : keys_lt (2 + Z.of_nat da) (LA1 :: rows_app 2 1 da))
    by (constructor; [unfold LA1; cbn [fst]; lia | apply keys_lt_gen; lia]).
  assert (P2 : keys_lt (2 + Z.of_nat db) (LB1 :: rows_app_m 2 (1 + N) db))
    by (constructor; [unfold LB1; cbn [fst]; lia | apply keys_lt_gen; lia]).
  assert (P3 : all_lt (2 + Z.of_nat db) (1 :: nums 2 db)) by (constructor; [lia | apply all_lt_nums; lia]).
  assert (P4 : all_lt (2 + Z.of_nat da) (1 :: nums 2 da)) by (constructor; [lia | apply all_lt_nums; lia]).
  assert (H : settled_both
                (drain fuel (net_rb (2 + Z.of_nat db) (2 + Z.of_nat da) (1 + Z.of_nat da) (1 + N + Z.of_nat db) ka kb
                               (LA1 :: rows_app 2 1 da) (LB1 :: rows_app_m 2 (1 + N) db) (1 :: nums 2 db) (1 :: nums 2 da)
                               (map Some (texts (1 + N) db)) (map Some (texts 1 da))
                               (texts 1 (da + ka)) (texts (1 + N) (db + kb)) (1 + N + M)))
                (map Some (texts (1 + N) db) ++ map Some (texts (1 + N + Z.of_nat db) kb))
                (map Some (texts 1 da) ++ map Some (texts (1 + Z.of_nat da) ka))
                (texts 1 (da + ka)) (texts (1 + N) (db + kb))).
  { destruct ka as [|ka], kb as [|kb].
    - destruct fuel as [|[|f]]; [lia|lia|].
      apply recovery_both_00; try assumption; unfold I64MAX in *; unfold N, M in *; lia.
    - replace fuel with (3 + (S kb + S (fuel - (S kb + 4))))%nat by lia.
      apply recovery_both_0S; try assumption; unfold I64MAX in *; unfold N, M in *; lia.
    - replace fuel with (3 + (S ka + S (fuel - (S ka + 4))))%nat by lia.
      apply recovery_both_S0; try assumption; unfold I64MAX in *; unfold N, M in *; lia.
    - replace fuel with (4 + (S ka + (1 + (S kb + S (fuel - (S ka + S kb + 6))))))%nat by lia.
      apply recovery_both_SS; try assumption; unfold I64MAX in *; unfold N, M in *; lia. }
  destruct H as [Q [A1 [A2 [N1 [N2 [G1 [G2 [S1 S2]]]]]]]].
  rewrite <- map_app, <- texts_split_at in G1, G2.
  unfold recovered_both. fold N. repeat split; try assumption.
  apply holds_intro; try assumption; [rewrite G2, S1; reflexivity | rewrite G1, S2; reflexivity].
Qed.

(* cross-check by computation: A sends 3, B sends 2; two of A's and one of B's in flight at the break *)
Lemma both_instance :
  let s := settle 20 (run net0 (sched_before_both 1 2 1 1 ++ [ABreak])) in
  holds s = true /\ gb s = map Some (texts 1 3) /\ ga s = map Some (texts 4 2)
  /\ nin (wa s) = nout (wb s) /\ nin (wb s) = nout (wa s).
Proof. vm_compute. repeat split. Qed.

(* ------------------------------------------------------------------ a break during the FIRST Logon exchange *)

Lemma drain_add : forall a f n, drain (a + f) n = drain f (drain a n).
Proof.
  induction a as [|a IH]; intros f n; [reflexivity|].
  cbn [Nat.add]. rewrite !drain_S.
  destruct (pending SB n) eqn:P1; [apply IH|].
  destruct (pending SA n) eqn:P2; [apply IH|].
  symmetry. apply drain_quiet; assumption.
Qed.

(* the two moments at which the first exchange can be cut: the initiator's Logon is in flight (i = 0), or the
   acceptor has answered and its reply is in flight (i = 1); then the explicit repair after the reconnect *)
Definition sched_logon_cut (i : nat) : list action :=
  match i with
  | O => [AReconnect; ABreak; AReconnect; ADeliver SB; ADeliver SA; ADeliver SA; ADeliver SB]
  | _ => [AReconnect; ADeliver SB; ABreak; AReconnect; ADeliver SB; ADeliver SA; ADeliver SB; ADeliver SA]
  end.

Definition net_up_cut (i : nat) : net :=
  match i with
  | O => mkNet (W 17 1 3 3 0 NOW0 true 2 2 [(1, wlogon cfgA 1); (2, wlogon cfgA 2)] [1; 2])
               (W 17 2 3 3 0 NOW0 true 2 1 [(1, wlogon cfgB 1); (2, wrr cfgB 2 1)] [1]) [] [] [] [] [] [] 1
  | _ => mkNet (W 17 1 3 4 0 NOW0 true 3 1 [(1, wlogon cfgA 1); (2, wlogon cfgA 2); (3, wrr cfgA 3 1)] [1])
               (W 17 2 4 3 0 NOW0 true 2 3 [(1, wlogon cfgB 1); (2, wlogon cfgB 2)] [1; 2; 3]) [] [] [] [] [] [] 1
  end.

Lemma logon_cut_repaired : forall i, run net0 (sched_logon_cut i) = net_up_cut i.
Proof. intros [|i]; vm_compute; reflexivity. Qed.

(* the stored inbound counter plays no role in accepting a message (after a gap fill it lags behind: D11) *)
Lemma recv_app_active_any : forall ni no lt so si rows ins id,
  all_lt ni ins -> 0 < ni < I64MAX ->
  process_message cfgB (recv_of cfgB (wapp cfgA ni id)) NOW0 (W 17 2 ni no 0 lt true so si rows ins)
  = mkR (inl tt) (W 17 2 (ni + 1) no 0 NOW0 true so ni rows (ins ++ [ni]))
        [App (recv_of cfgB (wapp cfgA ni id))].
Proof.
  intros * K B. unfold W, process_message, validate_integrity.
  pose proof (existsb_lt _ _ K) as HK. timeout 60 (ev_with ltac:(rewrite ?HK)). fin.
Qed.

Lemma delivers_B_any : forall k s i nob sob si rowsb insb wav rest bav gav gbv sav sbv id,
  all_lt s insb -> 0 < s -> s + Z.of_nat (S k) < I64MAX ->
  run (mkNet wav (W 17 2 s nob 0 NOW0 true sob si rowsb insb) (frames_app s i (S k) ++ rest) bav gav gbv sav sbv id)
      (repeat (ADeliver SB) (S k))
  = mkNet wav (W 17 2 (s + Z.of_nat (S k)) nob 0 NOW0 true sob (s + Z.of_nat k) rowsb (insb ++ nums s (S k)))
          rest bav gav (gbv ++ map Some (texts i (S k))) sav sbv id.
Proof.
  intros * K B1 B2. unfold frames_app. cbn [gen app repeat run fold_left]. fold (frames_app (s + 1) (i + 1) k).
  match goal with |- fold_left ?f ?l ?x = _ => change (fold_left f l x) with (run x l) end.
  unfold step, do_deliver. nopen.
  rewrite (recv_app_active_any s nob NOW0 sob si rowsb insb i K) by (unfold I64MAX in *; lia).
  nopen. rewrite text_of_app, ?app_nil_r.
  rewrite (delivers_B k (s + 1) (i + 1) nob sob s); [ | | lia | unfold I64MAX in *; lia | lia ].
  - unfold nums, texts. cbn [gen map]. rewrite <- !app_assoc. cbn [app].
    repeat (first [ reflexivity | lia | f_equal ]).
  - apply Forall_app. split; [eapply all_lt_weaken; [exact K|lia]|]. repeat constructor. lia.
Qed.

(* After a first Logon exchange that was cut at either moment and repaired, the session works: A's application sends
   n messages, all are delivered *)
Theorem logon_cut : forall i n,
  Z.of_nat n + 6 <= I64MAX ->
  let s := run net0 (sched_logon_cut i ++ repeat (ASend SA) n ++ repeat (ADeliver SB) n) in
  recovered s n.
Proof.
  intros i n B. cbv zeta. rewrite run_app, logon_cut_repaired, run_app.
  destruct i as [|i]; unfold net_up_cut.
  - rewrite (sends_A n 3 3 NOW0 2 2); [ | repeat constructor; cbn [fst]; lia | lia | unfold I64MAX in *; lia | lia ].
    destruct n as [|n].
    + cbn [repeat run fold_left]. unfold recovered. cbn [wa wb ab ba ga gb sa sb nid app].
      repeat split; try reflexivity.
    + cbn [app]. rewrite <- (app_nil_r (frames_app 3 1 (S n))).
      rewrite (delivers_B_any n 3 1); [ | repeat constructor; lia | lia | unfold I64MAX in *; lia ].
      unfold recovered. cbn [wa wb ab ba ga gb sa sb nid app].
      repeat split; try reflexivity; try (unfold W; cbn [nin nout]; lia).
      apply holds_intro; try reflexivity; try (unfold W; cbn [nin nout wa wb]; lia).
  - rewrite (sends_A n 3 4 NOW0 3 1); [ | repeat constructor; cbn [fst]; lia | lia | unfold I64MAX in *; lia | lia ].
    destruct n as [|n].
    + cbn [repeat run fold_left]. unfold recovered. cbn [wa wb ab ba ga gb sa sb nid app].
      repeat split; try reflexivity.
    + cbn [app]. rewrite <- (app_nil_r (frames_app 4 1 (S n))).
      rewrite (delivers_B_any n 4 1); [ | repeat constructor; lia | lia | unfold I64MAX in *; lia ].
      unfold recovered. cbn [wa wb ab ba ga gb sa sb nid app].
      repeat split; try reflexivity; try (unfold W; cbn [nin nout]; lia).
      apply holds_intro; try reflexivity; try (unfold W; cbn [nin nout wa wb]; lia).
Qed.

(* the same repair through `settle` (drain; reconnect + Logon; drain) instead of explicit deliveries *)
Definition cut_prefix (i : nat) : list action :=
  match i with O => [AReconnect; ABreak] | _ => [AReconnect; ADeliver SB; ABreak] end.

Lemma settle_cut : forall i f, settle (8 + f) (run net0 (cut_prefix i)) = net_up_cut i.
Proof.
  intros i f.
  assert (E0 : forall x, pending SB x = false -> pending SA x = false -> drain (8 + f) x = x)
    by (intros; apply drain_quiet; assumption).
  assert (P : pending SB (run net0 (cut_prefix i)) = false /\ pending SA (run net0 (cut_prefix i)) = false
              /\ link_down (run net0 (cut_prefix i)) = true
              /\ drain 8 (do_reconnect (run net0 (cut_prefix i))) = net_up_cut i
              /\ pending SB (net_up_cut i) = false /\ pending SA (net_up_cut i) = false).
  { destruct i as [|i]; vm_compute; repeat split. }
  destruct P as [P1 [P2 [P3 [P4 [P5 P6]]]]].
  unfold settle. rewrite (E0 _ P1 P2), P3, drain_add, P4. apply drain_quiet; assumption.
Qed.

Lemma logon_cut_instance :
  let s := run net0 (sched_logon_cut 1 ++ repeat (ASend SA) 2 ++ repeat (ADeliver SB) 2) in
  holds s = true /\ gb s = map Some (texts 1 2) /\ nin (wb s) = 6 /\ nout (wa s) = 6 /\ nin (wa s) = 3 /\ nout (wb s) = 3.
Proof. vm_compute. repeat split. Qed.

(* ------------------------------------------------------------------ the same general position, with traffic of B
   already delivered to A (ga, sb not empty): same scripts *)

Definition net_recx (na nb b i : Z) (k m : nat) (pre rowsB : list (Z * msg)) (insA insB : list Z)
                   (G : list (option str)) (SA : list str) (id : Z) (GA : list (option str)) (SB : list str) : net :=
  let L := b + Z.of_nat k + Z.of_nat m in
  mkNet (W 7 1 na (L + 1) 0 0 true L (na - 1) (pre ++ rows_app b i k ++ logons (b + Z.of_nat k) (S m)) insA)
        (W 6 2 b nb 0 0 true (nb - 1) (b - 1) rowsB insB)
        [wlogon cfgA L] [] GA G SA SB id.

Definition net_recx_done (na nb b i : Z) (k m : nat) (pre rowsB : list (Z * msg)) (insA insB : list Z)
                        (G : list (option str)) (SA : list str) (id : Z) (GA : list (option str)) (SB : list str) : net :=
  let L := b + Z.of_nat k + Z.of_nat m in
  mkNet (W 17 1 (na + 2) (L + 1) 0 NOW0 true L (na + 1) (pre ++ rows_app b i k ++ logons (b + Z.of_nat k) (S m))
           (insA ++ [na; na + 1]))
        (W 17 2 (L + 1) (nb + 2) 0 NOW0 true (nb + 1) (b + Z.of_nat k)
           (rowsB ++ [(nb, wlogon cfgB nb); (nb + 1, wrr cfgB (nb + 1) b)])
           (insB ++ nums b k ++ [b + Z.of_nat k]))
        [] [] GA (G ++ map Some (texts i k)) SA SB id.

Lemma recovery_genx : forall na nb b i k m pre rowsB insA insB G SA id GA SB f,
  na = nb -> (0 < k + m)%nat ->
  keys_lt b pre -> keys_lt nb rowsB -> all_lt na insA -> all_lt b insB ->
  0 < na -> 0 < b -> b + Z.of_nat k + Z.of_nat m + 2 <= I64MAX -> nb + 3 <= I64MAX ->
  drain (3 + (k + S f)) (net_recx na nb b i k m pre rowsB insA insB G SA id GA SB)
  = net_recx_done na nb b i k m pre rowsB insA insB G SA id GA SB.
Proof.
  intros * -> KM K1 K2 K3 K4 B1 B2 B3 B4. unfold net_recx.
  set (L := b + Z.of_nat k + Z.of_nat m) in *.
  cbn [Nat.add].
  (* B: Logon numbered above the expected number *)
  rewrite drain_S. unfold pending at 1. nopen. unfold do_deliver. nopen.
  rewrite (recv_logon_high b nb (nb - 1) (b - 1) rowsB insB L);
    [ | exact K2 | unfold L; lia | unfold I64MAX in *; lia | unfold I64MAX in *; lia | lia ].
  nopen.
  (* A: Logon reply *)
  rewrite drain_S. nopen. unfold do_deliver. nopen.
  rewrite (recv_logon_reply nb (L + 1) L (nb - 1) _ insA);
    [ | exact K3 | unfold I64MAX in *; lia | lia ].
  nopen.
  (* A: ResendRequest *)
  rewrite drain_S. nopen. unfold do_deliver. nopen.
  rewrite (recv_resend_request_gen (nb + 1) NOW0 nb pre (insA ++ [nb]) b i k m L);
    [ | apply Forall_app; split; [eapply all_lt_weaken; [exact K3|lia] | repeat constructor; lia]
      | exact K1 | unfold I64MAX in *; lia | lia | reflexivity | unfold I64MAX in *; lia | lia ].
  nopen. refold. rewrite wires_app, apps_app, wires_map_wire, apps_map_wire. nopen.
  assert (KB : keys_lt (nb + 2) (rowsB ++ [(nb, wlogon cfgB nb); (nb + 1, wrr cfgB (nb + 1) b)])).
  { apply keys_lt_app; [eapply keys_lt_weaken; [exact K2|lia]|]. repeat constructor; cbn [fst]; lia. }
  destruct k as [|k].
  - (* no application message missing: the gap fill over the Logons only *)
    unfold frames_pd. cbn [gen app Nat.add]. change (Z.of_nat 0) with 0 in *. replace (b + 0) with b in * by lia.
    rewrite drain_S. unfold pending at 1. nopen. unfold do_deliver. nopen.
    rewrite (recv_gf_awaiting_gen b (L + 1) L 0 (nb + 2) (nb + 1) (b - 1));
      [ | exact K4 | exact KB | unfold L; lia | unfold L; lia | unfold I64MAX in *; lia
        | unfold I64MAX in *; lia | lia | lia ].
    nopen. rewrite drain_quiet; [ | reflexivity | reflexivity ].
    unfold net_recx_done. fold L. unfold nums, texts. cbn [gen map]. rewrite ?app_nil_r, <- ?app_assoc. cbn [app].
    repeat (first [ reflexivity | lia | f_equal ]).
  - (* the k + 1 retransmissions, then the gap fill *)
    rewrite (drain_pd k (S f) b i L 0 (nb + 2) (nb + 1) (b - 1));
      [ | exact K4 | lia | unfold L; lia | unfold I64MAX in *; lia | lia ].
    rewrite drain_S. unfold pending at 1. nopen. unfold do_deliver. nopen.
    rewrite (recv_gf_awaiting_gen (b + Z.of_nat (S k)) (L + 1) L NOW0 (nb + 2) (nb + 1) (b - 1 + Z.of_nat (S k)));
      [ | apply Forall_app; split; [eapply all_lt_weaken; [exact K4|lia] | apply all_lt_nums; lia]
        | exact KB | unfold L; lia | unfold L; lia | unfold I64MAX in *; lia
        | unfold I64MAX in *; lia | lia | lia ].
    nopen. rewrite drain_quiet; [ | reflexivity | reflexivity ].
    unfold net_recx_done. fold L. rewrite ?app_nil_r, <- ?app_assoc. cbn [app].
    repeat (first [ reflexivity | lia | f_equal ]).
Qed.

Lemma rec_stepx : forall na nb b i k m pre rowsB insA insB G SA id GA SB j,
  na = nb -> (0 < k + m)%nat -> (j <= k)%nat ->
  keys_lt b pre -> keys_lt nb rowsB -> all_lt na insA -> all_lt b insB ->
  0 < na -> 0 < b -> b + Z.of_nat k + Z.of_nat m + 3 <= I64MAX -> nb + 3 <= I64MAX ->
  run (net_recx na nb b i k m pre rowsB insA insB G SA id GA SB) (round j)
  = net_recx (na + 2) (nb + 2) (b + Z.of_nat j) (i + Z.of_nat j) (k - j) (S m)
            (pre ++ rows_app b i j) (rowsB ++ [(nb, wlogon cfgB nb); (nb + 1, wrr cfgB (nb + 1) b)])
            (insA ++ [na; na + 1]) (insB ++ nums b j) (G ++ map Some (texts i j)) SA id GA SB.
Proof.
  intros * -> KM J K1 K2 K3 K4 B1 B2 B3 B4. unfold net_recx, round.
  set (L := b + Z.of_nat k + Z.of_nat m) in *.
  rewrite run_app. cbn [run fold_left]. unfold step.
  (* B: Logon numbered above the expected number *)
  unfold do_deliver at 3. nopen.
  rewrite (recv_logon_high b nb (nb - 1) (b - 1) rowsB insB L);
    [ | exact K2 | unfold L; lia | unfold I64MAX in *; lia | unfold I64MAX in *; lia | lia ].
  nopen.
  (* A: Logon reply *)
  nopen.
  rewrite (recv_logon_reply nb (L + 1) L (nb - 1) _ insA);
    [ | exact K3 | unfold I64MAX in *; lia | lia ].
  nopen.
  (* A: ResendRequest *)
  nopen.
  rewrite (recv_resend_request_gen (nb + 1) NOW0 nb pre (insA ++ [nb]) b i k m L);
    [ | apply Forall_app; split; [eapply all_lt_weaken; [exact K3|lia] | repeat constructor; lia]
      | exact K1 | unfold I64MAX in *; lia | lia | reflexivity | unfold I64MAX in *; lia | lia ].
  nopen. refold. rewrite wires_app, apps_app, wires_map_wire, apps_map_wire. nopen.
  (* B: j of the k retransmissions *)
  replace k with (j + (k - j))%nat at 3 by lia.
  unfold frames_pd at 1. rewrite gen_app. fold (frames_pd b i j). rewrite <- (app_assoc (frames_pd b i j)).
  rewrite run_app.
  rewrite (delivers_pd j b i L 0 (nb + 2) (nb + 1) (b - 1));
    [ | exact K4 | lia | unfold L; lia | unfold I64MAX in *; lia | lia ].
  (* the link breaks, both ends disconnect, new transport, Logon L + 1 *)
  cbn [run fold_left]. unfold step, do_break. nopen.
  rewrite disconnect_active, disconnect_conn by lia. nopen.
  unfold do_reconnect. nopen.
  change (set_wr true (set_st ST_NCE (W 3 1 (nb + 1 + 1) (L + 1) 0 0 false L (nb + 1)
            (pre ++ rows_app b i k ++ logons (b + Z.of_nat k) (S m)) ((insA ++ [nb]) ++ [nb + 1]))))
    with (W 6 1 (nb + 1 + 1) (L + 1) 0 0 true L (nb + 1)
            (pre ++ rows_app b i k ++ logons (b + Z.of_nat k) (S m)) ((insA ++ [nb]) ++ [nb + 1])).
  change (set_wr true (set_st ST_NCE (W 3 2 (b + Z.of_nat j) (nb + 2) 0 0 false (nb + 1) (b - 1 + Z.of_nat j)
            (rowsB ++ [(nb, wlogon cfgB nb); (nb + 1, wrr cfgB (nb + 1) b)]) (insB ++ nums b j))))
    with (W 6 2 (b + Z.of_nat j) (nb + 2) 0 0 true (nb + 1) (b - 1 + Z.of_nat j)
            (rowsB ++ [(nb, wlogon cfgB nb); (nb + 1, wrr cfgB (nb + 1) b)]) (insB ++ nums b j)).
  replace L with (L + 1 - 1) at 2 4 6 by lia.
  rewrite send_logon_step; [ | | unfold I64MAX in *; lia ].
  2:{ repeat apply keys_lt_app; [eapply keys_lt_weaken; [exact K1|unfold L; lia] | apply keys_lt_gen; unfold L; lia
                                | apply keys_lt_gen; unfold L; lia ]. }
  nopen.
  assert (ER : (pre ++ rows_app b i k ++ logons (b + Z.of_nat k) (S m)) ++ [(L + 1, wlogon cfgA (L + 1))]
               = (pre ++ rows_app b i j) ++ rows_app (b + Z.of_nat j) (i + Z.of_nat j) (k - j)
                 ++ logons (b + Z.of_nat j + Z.of_nat (k - j)) (S (S m))).
  { replace (b + Z.of_nat j + Z.of_nat (k - j)) with (b + Z.of_nat k) by lia.
    replace (rows_app b i k) with (rows_app b i j ++ rows_app (b + Z.of_nat j) (i + Z.of_nat j) (k - j)).
    2:{ unfold rows_app. rewrite <- gen_app. replace (j + (k - j))%nat with k by lia. reflexivity. }
    unfold logons at 2. rewrite (gen_snoc _ _ (S m)). fold (logons (b + Z.of_nat k) (S m)).
    replace (b + Z.of_nat k + Z.of_nat (S m)) with (L + 1) by (unfold L; lia).
    rewrite <- !app_assoc. reflexivity. }
  rewrite ER. rewrite ?app_nil_r, <- ?app_assoc. cbn [app].
  replace (b + Z.of_nat j + Z.of_nat (k - j) + Z.of_nat (S m)) with (L + 1) by (unfold L; lia).
  repeat (first [ reflexivity | lia | f_equal ]).
Qed.

Definition settled_okx (s : net) (G : list (option str)) (SA : list str) (GA : list (option str)) (SB : list str) : Prop :=
  quiescent s = true
  /\ st (wa s) = ST_ACTIVE /\ st (wb s) = ST_ACTIVE
  /\ nin (wa s) = nout (wb s) /\ nin (wb s) = nout (wa s)
  /\ gb s = G /\ sa s = SA /\ ga s = GA /\ sb s = SB.

Lemma breaks_genx : forall js na nb b i k m pre rowsB insA insB G SA id GA SB f,
  na = nb -> (0 < k + m)%nat -> fits k js ->
  keys_lt b pre -> keys_lt nb rowsB -> all_lt na insA -> all_lt b insB ->
  0 < na -> 0 < b ->
  b + Z.of_nat k + Z.of_nat m + 2 + Z.of_nat (length js) <= I64MAX ->
  nb + 3 + 2 * Z.of_nat (length js) <= I64MAX ->
  settled_okx (drain (3 + (k + S f)) (run (net_recx na nb b i k m pre rowsB insA insB G SA id GA SB) (rounds js)))
             (G ++ map Some (texts i k)) SA GA SB.
Proof.
  induction js as [|j r IH]; intros * E KM F K1 K2 K3 K4 B1 B2 B3 B4.
  - cbn [rounds flat_map run fold_left length] in *.
    rewrite recovery_genx; try assumption; [ | lia | lia ].
    unfold settled_okx, net_recx_done. cbn [wa wb ab ba ga gb sa sb nid].
    subst na. repeat split; try reflexivity; try (unfold W; cbn [nin nout]; lia).
  - destruct F as [J F]. cbn [rounds flat_map]. fold (rounds r). rewrite run_app.
    cbn [length] in B3, B4.
    rewrite rec_stepx; try assumption; [ | lia | lia ].
    replace (3 + (k + S f))%nat with (3 + ((k - j) + S (f + j)))%nat by lia.
    replace (G ++ map Some (texts i k)) with ((G ++ map Some (texts i j)) ++ map Some (texts (i + Z.of_nat j) (k - j))).
    2:{ rewrite <- app_assoc, <- map_app. f_equal. f_equal. unfold texts. rewrite <- gen_app.
        replace (j + (k - j))%nat with k by lia. reflexivity. }
    apply IH; try lia; try assumption.
    + apply keys_lt_app; [eapply keys_lt_weaken; [exact K1|lia] | apply keys_lt_gen; lia].
    + apply keys_lt_app; [eapply keys_lt_weaken; [exact K2|lia] | repeat constructor; cbn [fst]; lia].
    + apply Forall_app; split; [eapply all_lt_weaken; [exact K3|lia] | repeat constructor; lia].
    + apply Forall_app; split; [eapply all_lt_weaken; [exact K4|lia] | apply all_lt_nums; lia].
Qed.

Lemma rb_is_recx : forall xa xb ia ib k preA preB insA insB GA GB SA SB id,
  net_rb xa xb ia ib k 0 preA preB insA insB GA GB SA SB id
  = net_recx xa xa xb ia k 0 preA preB insA insB GB SA id GA SB.
Proof.
  intros. unfold net_rb, net_recx, rows_app_m, logons. cbn [gen]. change (Z.of_nat 0) with 0.
  rewrite (app_nil_r preB).
  replace (xa + 0) with xa by lia. replace (xb + Z.of_nat k + 0) with (xb + Z.of_nat k) by lia.
  reflexivity.
Qed.

(* Both applications have sent; all of B's m = db messages have reached A, the last k + 1 of A's n = da + k + 1 are in
   flight at the first break; then any number of further breaks during the retransmission, as in repeated_breaks *)
Theorem repeated_breaks_B_traffic : forall da k db js fuel,
  fits (S k) js ->
  Z.of_nat (da + S k) + 5 + 2 * Z.of_nat (length js) <= I64MAX ->
  Z.of_nat db + 5 + 2 * Z.of_nat (length js) <= I64MAX ->
  (S k + 4 <= fuel)%nat ->
  recovered_both (drain fuel (run net0 (sched_before_both da (S k) db 0 ++ [ABreak; AReconnect] ++ rounds js)))
                 (da + S k) (db + 0).
Proof.
  intros * F B1 B2 Fu.
  assert (B1' : Z.of_nat (da + S k) + 3 <= I64MAX) by lia.
  assert (B2' : Z.of_nat (db + 0) + 3 <= I64MAX) by lia.
  rewrite app_assoc, run_app.
  replace (sched_before_both da (S k) db 0 ++ [ABreak; AReconnect])
    with ((sched_before_both da (S k) db 0 ++ [ABreak]) ++ [AReconnect]) by (rewrite <- app_assoc; reflexivity).
  rewrite run_app, at_break_both by assumption. cbn [run fold_left]. unfold step.
  rewrite at_reconnect_both by assumption. rewrite rb_is_recx.
  set (N := Z.of_nat (da + S k)) in *.
  replace fuel with (3 + (S k + S (fuel - (S k + 4))))%nat by lia.
  assert (P1 : keys_lt (2 + Z.of_nat da) (LA1 :: rows_app 2 1 da))
    by (constructor; [unfold LA1; cbn [fst]; lia | apply keys_lt_gen; lia]).
  assert (P2 : keys_lt (2 + Z.of_nat db) (LB1 :: rows_app_m 2 (1 + N) db))
    by (constructor; [unfold LB1; cbn [fst]; lia | apply keys_lt_gen; lia]).
  assert (P3 : all_lt (2 + Z.of_nat db) (1 :: nums 2 db)) by (constructor; [lia | apply all_lt_nums; lia]).
  assert (P4 : all_lt (2 + Z.of_nat da) (1 :: nums 2 da)) by (constructor; [lia | apply all_lt_nums; lia]).
  pose proof (breaks_genx js (2 + Z.of_nat db) (2 + Z.of_nat db) (2 + Z.of_nat da) (1 + Z.of_nat da) (S k) 0
                (LA1 :: rows_app 2 1 da) (LB1 :: rows_app_m 2 (1 + N) db) (1 :: nums 2 db) (1 :: nums 2 da)
                (map Some (texts 1 da)) (texts 1 (da + S k)) (1 + N + Z.of_nat (db + 0))
                (map Some (texts (1 + N) db)) (texts (1 + N) (db + 0))
                (fuel - (S k + 4)) eq_refl ltac:(lia) F P1 P2 P3 P4 ltac:(lia) ltac:(lia)
                ltac:(unfold N in *; lia) ltac:(lia)) as H.
  destruct H as [Q [A1 [A2 [N1 [N2 [G1 [S1 [G2 S2]]]]]]]].
  rewrite <- map_app, <- texts_split in G1.
  rewrite Nat.add_0_r in *.
  unfold recovered_both. fold N. repeat split; try assumption.
  apply holds_intro; try assumption; [rewrite G1, S1; reflexivity | rewrite G2, S2; reflexivity].
Qed.

Lemma repeated_breaks_B_traffic_instance :
  let s := drain 20 (run net0 (sched_before_both 1 3 2 0 ++ [ABreak; AReconnect] ++ rounds [1; 0; 1]%nat)) in
  holds s = true /\ gb s = map Some (texts 1 4) /\ ga s = map Some (texts 5 2)
  /\ nin (wa s) = nout (wb s) /\ nin (wb s) = nout (wa s).
Proof. vm_compute. repeat split. Qed.

(* ------------------------------------------------------------------ constants of Net.v = the code's (regenerated every run) *)

Fixpoint assoc_num (k : str) (l : list (str * N)) : option N :=
  match l with [] => None | (a, b) :: r => if str_eqb a k then Some b else assoc_num k r end.
Fixpoint assoc_str (k : str) (l : list (str * str)) : option str :=
  match l with [] => None | (a, b) :: r => if str_eqb a k then Some b else assoc_str k r end.
Definition state_is (name : str) (z : Z) : bool :=
  match assoc_num name conn_state with Some n => Z.of_N n =? z | None => false end.
Definition role_is (name : str) (z : Z) : bool :=
  match assoc_num name conn_role with Some n => Z.of_N n =? z | None => false end.

Definition net_constants_ok : bool :=
  (* "DISCONNECTED_NOCONN_TODAY", "DISCONNECTED_BROKEN_CONN", "NETWORK_CONN_ESTABLISHED", "LOGON_INITIAL_SENT",
     "RESENDREQ_HANDLING", "RESENDREQ_AWAITING", "ACTIVE", "INITIATOR", "ACCEPTOR", NEWORDERSINGLE = "D" *)
  state_is [68;73;83;67;79;78;78;69;67;84;69;68;95;78;79;67;79;78;78;95;84;79;68;65;89]%N ST_NOCONN
  && state_is [68;73;83;67;79;78;78;69;67;84;69;68;95;66;82;79;75;69;78;95;67;79;78;78]%N ST_DISC_BROKEN
  && state_is [78;69;84;87;79;82;75;95;67;79;78;78;95;69;83;84;65;66;76;73;83;72;69;68]%N ST_NCE
  && state_is [76;79;71;79;78;95;73;78;73;84;73;65;76;95;83;69;78;84]%N ST_LOGON_SENT
  && state_is [82;69;83;69;78;68;82;69;81;95;72;65;78;68;76;73;78;71]%N ST_HANDLING
  && state_is [82;69;83;69;78;68;82;69;81;95;65;87;65;73;84;73;78;71]%N ST_AWAITING
  && state_is [65;67;84;73;86;69]%N ST_ACTIVE
  && role_is [73;78;73;84;73;65;84;79;82]%N ROLE_INITIATOR
  && role_is [65;67;67;69;80;84;79;82]%N ROLE_ACCEPTOR
  && match assoc_str [78;69;87;79;82;68;69;82;83;73;78;71;76;69]%N fmsg with Some v => str_eqb v MT_D | None => false end
  && (sys_maxsize =? I64MAX).

Lemma net_constants_tied : net_constants_ok = true.
Proof. vm_compute. reflexivity. Qed.
