(* Executable model of asyncfix/journaler.py over a model of SQLite + Python's sqlite3
   transaction control (legacy isolation level: implicit BEGIN before INSERT/UPDATE/DELETE,
   explicit commit, everything uncommitted is lost on close / process death).
   No proofs here: see AF.Lemmas.JournalL and AF.Props.C13 / C08. *)
From Coq Require Import ZArith NArith List Bool.
From AF Require Import Base.Sx Py.Str.
Import ListNotations.
Open Scope Z_scope.

(* ------------------------------------------------------------------ tables *)

Record srow := mkS { s_id : Z; s_target : str; s_sender : str; s_out : Z; s_in : Z }.
Record mrow := mkM { m_seq : Z; m_sid : Z; m_dir : Z; m_msg : str }.

(* rows in rowid order *)
Record tables := mkT { t_sessions : list srow; t_messages : list mrow }.
Definition empty_tables := mkT [] [].

(* committed = what a fresh connection sees; cur = what this connection sees;
   in_tx = an implicit BEGIN is open *)
Record db := mkDb { committed : tables; cur : tables; in_tx : bool }.
Definition empty_db := mkDb empty_tables empty_tables false.

Definition INBOUND := 0.
Definition OUTBOUND := 1.

(* ------------------------------------------------------------------ statements *)

Inductive prim :=
| PInsertSession (target sender : str)
| PInsertMsg (seq sid dir : Z) (msg : str)
| PUpdOut (seq sid : Z)
| PUpdIn (seq sid : Z)
| PUpdBoth (inb outb sid : Z)
| PDelMsgs (sid from dir : Z)
| PCommit.

Definition key_eqb (r : mrow) (seq sid dir : Z) : bool :=
  (m_seq r =? seq) && (m_sid r =? sid) && (m_dir r =? dir).

Definition has_msg (t : tables) (seq sid dir : Z) : bool :=
  existsb (fun r => key_eqb r seq sid dir) (t_messages t).

Definition has_session (t : tables) (target sender : str) : bool :=
  existsb (fun r => str_eqb (s_target r) target && str_eqb (s_sender r) sender) (t_sessions t).

Definition upd_sessions (f : srow -> srow) (sid : Z) (t : tables) : tables :=
  mkT (map (fun r => if s_id r =? sid then f r else r) (t_sessions t)) (t_messages t).

(* AUTOINCREMENT with no row ever deleted: the next id is the number of rows + 1 *)
Definition next_sid (t : tables) : Z := Z.of_nat (length (t_sessions t)) + 1.

(* a data-modifying statement: Some new tables, or None for sqlite3.IntegrityError *)
Definition apply_stmt (p : prim) (t : tables) : option tables :=
  match p with
  | PInsertSession target sender =>
      if has_session t target sender then None
      else Some (mkT (t_sessions t ++ [mkS (next_sid t) target sender 0 0]) (t_messages t))
  | PInsertMsg seq sid dir msg =>
      if has_msg t seq sid dir then None
      else Some (mkT (t_sessions t) (t_messages t ++ [mkM seq sid dir msg]))
  | PUpdOut seq sid => Some (upd_sessions (fun r => mkS (s_id r) (s_target r) (s_sender r) seq (s_in r)) sid t)
  | PUpdIn seq sid => Some (upd_sessions (fun r => mkS (s_id r) (s_target r) (s_sender r) (s_out r) seq) sid t)
  | PUpdBoth inb outb sid => Some (upd_sessions (fun r => mkS (s_id r) (s_target r) (s_sender r) outb inb) sid t)
  | PDelMsgs sid from dir =>
      Some (mkT (t_sessions t)
                (filter (fun r => negb ((m_sid r =? sid) && (from <=? m_seq r) && (m_dir r =? dir))) (t_messages t)))
  | PCommit => Some t
  end.

(* one primitive on the connection: (db after, succeeded).  A failing statement leaves the
   tables unchanged but the implicit transaction open. *)
Definition exec_prim (p : prim) (d : db) : db * bool :=
  match p with
  | PCommit => (mkDb (cur d) (cur d) false, true)
  | _ =>
      match apply_stmt p (cur d) with
      | Some t' => (mkDb (committed d) t' true, true)
      | None => (mkDb (committed d) (cur d) true, false)
      end
  end.

(* run primitives until one fails; returns db and the number that succeeded / overall success *)
Fixpoint exec_prims (ps : list prim) (d : db) : db * bool :=
  match ps with
  | [] => (d, true)
  | p :: ps' => let (d', ok) := exec_prim p d in if ok then exec_prims ps' d' else (d', false)
  end.

(* process death or close(): the open transaction is rolled back *)
Definition crash (d : db) : db := mkDb (committed d) (committed d) false.

(* ------------------------------------------------------------------ FIXSession objects *)

Record session := mkSess { key : Z; target : str; sender : str; next_out : Z; next_in : Z }.

Inductive err := EDuplicateSeqNo | EFIXMessage | EAssertion | EStopIteration | EOverflow.

(* ------------------------------------------------------------------ Journaler methods *)

(* find_seq_no(msg): b"\x0134=" ... next b"\x01"; int() of the bytes between *)
Definition SOH34 : str := [1; 51; 52; 61]%N.
Definition find_seq_no (msg : str) : option Z :=
  match find_sub SOH34 msg with
  | None => None
  | Some i =>
      let rest := skipn (i + 1) msg in            (* from the '3' of "34=" *)
      match find_sub [1%N] rest with
      | None => None
      | Some j => py_int_bytes (firstn (j - 3) (skipn 3 rest))
      end
  end.

Definition lookup_session (t : tables) (tg sd : str) : option srow :=
  find (fun r => str_eqb (s_target r) tg && str_eqb (s_sender r) sd) (t_sessions t).

Definition create_or_load_prims (tg sd : str) : list prim := [PInsertSession tg sd; PCommit].

Definition create_or_load (tg sd : str) (d : db) : db * option session :=
  let (d', ok) := exec_prims (create_or_load_prims tg sd) d in
  if ok then (d', Some (mkSess (Z.of_nat (length (t_sessions (cur d')))) tg sd 1 1))
  else match lookup_session (cur d') tg sd with
       | Some r => (d', Some (mkSess (s_id r) (s_target r) (s_sender r) (s_out r + 1) (s_in r + 1)))
       | None => (d', None)     (* unreachable: the INSERT failed because the row exists *)
       end.

Definition sessions (d : db) : list session :=
  map (fun r => mkSess (s_id r) (s_target r) (s_sender r) (s_out r + 1) (s_in r + 1)) (t_sessions (cur d)).

Definition persist_prims (seq : Z) (s : session) (dir : Z) (msg : str) : list prim :=
  [PInsertMsg seq (key s) dir msg;
   (if dir =? OUTBOUND then PUpdOut seq (key s) else PUpdIn seq (key s));
   PCommit].

Definition persist_msg (msg : str) (s : session) (dir : Z) (d : db) : db * option err :=
  match find_seq_no msg with
  | None => (d, Some EFIXMessage)
  | Some seq =>
      let (d', ok) := exec_prims (persist_prims seq s dir msg) d in
      (d', if ok then None else Some EDuplicateSeqNo)
  end.

Definition set_seq_num_prims (s : session) (no ni : Z) : list prim :=
  [PUpdBoth (ni - 1) (no - 1) (key s); PDelMsgs (key s) ni INBOUND; PDelMsgs (key s) no OUTBOUND; PCommit].

(* set_seq_num(session, next_num_out=o, next_num_in=i); None = argument omitted *)
Definition set_seq_num (s : session) (o i : option Z) (d : db) : db * session * option err :=
  match o with
  | Some v => if v <=? 0 then (d, s, Some EAssertion) else
      let s1 := mkSess (key s) (target s) (sender s) v (next_in s) in
      match i with
      | Some w => if w <=? 0 then (d, s1, Some EAssertion) else
          let s2 := mkSess (key s) (target s) (sender s) v w in
          (fst (exec_prims (set_seq_num_prims s2 v w) d), s2, None)
      | None => (fst (exec_prims (set_seq_num_prims s1 v (next_in s1)) d), s1, None)
      end
  | None =>
      match i with
      | Some w => if w <=? 0 then (d, s, Some EAssertion) else
          let s2 := mkSess (key s) (target s) (sender s) (next_out s) w in
          (fst (exec_prims (set_seq_num_prims s2 (next_out s) w) d), s2, None)
      | None => (fst (exec_prims (set_seq_num_prims s (next_out s) (next_in s)) d), s, None)
      end
  end.

(* insertion sort by sequence number (ORDER BY seqNo; keys are unique per session/direction) *)
Fixpoint insert_by_seq (r : mrow) (l : list mrow) : list mrow :=
  match l with
  | [] => [r]
  | x :: l' => if m_seq r <=? m_seq x then r :: l else x :: insert_by_seq r l'
  end.
Definition sort_by_seq (l : list mrow) : list mrow := fold_right insert_by_seq [] l.

Definition select_range (t : tables) (sid dir lo hi : Z) : list mrow :=
  sort_by_seq (filter (fun r => (m_sid r =? sid) && (m_dir r =? dir) && (lo <=? m_seq r) && (m_seq r <=? hi))
                      (t_messages t)).

Definition recover_messages (s : session) (dir lo hi : Z) (d : db) : list str :=
  map m_msg (select_range (cur d) (key s) dir lo hi).

Definition recover_msg (s : session) (dir n : Z) (d : db) : option str :=
  match recover_messages s dir n n d with
  | m :: _ => Some m
  | [] => None
  end.

(* get_all_msgs(sessions filter or none, direction filter or none): rowid order *)
Definition get_all_msgs (sids : option (list Z)) (dir : option Z) (d : db) : list mrow :=
  filter (fun r =>
            (match sids with
             | None => true
             | Some [] => true
             | Some l => existsb (Z.eqb (m_sid r)) l
             end)
            && (match dir with None => true | Some x => m_dir r =? x end))
         (t_messages (cur d)).

(* a new Journaler on the same file after close / crash *)
Definition reopen (d : db) : db := crash d.
