"""Shared by C04, C11, C05: implementation driver for the session layer, operation language of
coq/theories/Fix/SessionRun.v, frame builders, session-aware symbolic messages, parallel runner.

A real connection object (AsyncFIXClient = initiator, AsyncFIXDummyServer = acceptor) is built
through the public constructors over FIXProtocol44 and a real in-memory Journaler; no socket is
opened: the stream writer is a fake object that records what is written, inbound traffic is fed
the way the library's own FIXTester does it (real frames -> Codec.decode -> _process_message).
ALL private-name access of the three checks is in class Adapter below.

Operation (JSON / Sx):   [0, msg, now] inbound   [1, msg] send_msg   [2, now] send_test_req
                          [3, ds, [lm]?] disconnect          msg = [type, [[tag, value], ..]]
Step projection:          [outcome, events, wproj]  (see SessionRun.v)
"""
import asyncio
import faulthandler
import logging
import multiprocessing as mp
import os
import sys
import time as _time

from vlib import core
from vlib.core import sx

SENDER = "CLI"       # our side's SenderCompID
TARGET = "SRV"       # our side's TargetCompID (the peer's SenderCompID)
BEGIN = "FIX.4.4"
TIME = "20230101-10:00:00.000"
NOW0 = 1000000
I64 = 2 ** 63 - 1
SOH = "\x01"

ST = {"NOCONN": 1, "WCONN": 2, "BROKEN": 3, "AWAITCONN": 4, "INITCONN": 5, "NCE": 6, "LOGON_SENT": 7,
      "LOGON_RECV": 8, "LOGON_RESPONSE": 9, "HANDLING": 10, "TOO_HIGH": 11, "AWAITING": 12, "ACTIVE": 17}
SESSION_TYPES = {"0", "1", "2", "4", "5", "A"}

_quiet = logging.getLogger("verif.session.quiet")
_quiet.addHandler(logging.NullHandler())
_quiet.propagate = False
_quiet.setLevel(logging.CRITICAL + 10)


# ------------------------------------------------------------------------------------------
# canonical forms
# ------------------------------------------------------------------------------------------

def codes(s):
    return [ord(c) for c in s]


def uncodes(l):
    return "".join(chr(c) for c in l)


def msg_codes(m):
    """[type, [[tag, value]..]] (strings) -> the nested code-point lists the model prints."""
    return [codes(m[0]), [[codes(t), codes(v)] for t, v in m[1]]]


def msg_uncodes(m):
    return [uncodes(m[0]), [[uncodes(t), uncodes(v)] for t, v in m[1]]]


def sx_msg(m):
    return "[%s,[%s]]" % (sx(m[0]), ",".join("[%s,%s]" % (sx(t), sx(v)) for t, v in m[1]))


def sx_op(op):
    k = op[0]
    if k == 0:
        return "[0,%s,%d]" % (sx_msg(op[1]), op[2])
    if k == 1:
        return "[1,%s]" % sx_msg(op[1])
    if k == 2:
        return "[2,%d]" % op[1]
    if k == 3:
        return "[3,%d,%s]" % (op[1], "[]" if op[2] is None else "[%s]" % sx(op[2]))
    raise ValueError(op)


def sx_world(w):
    treq = "[]" if w["treq"] is None else "[%d]" % w["treq"]
    rows = ",".join("[%d,%s]" % (n, sx_msg(m)) for n, m in w["out_rows"])
    ins = ",".join(str(n) for n in w["in_rows"])
    return "[%d,%d,%d,%d,%d,%s,%d,%d,%d,[%d,%d,[%s],[%s]]]" % (
        w["st"], w["role"], w["nin"], w["nout"], w["maxres"], treq, 1 if w["wasact"] else 0, w["lastt"],
        1 if w["wr"] else 0, w["sout"], w["sin"], rows, ins)


def sx_request(world, ops, declined=()):
    cfg = "[%s,%s,%s,%s,[%s]]" % (sx(BEGIN), sx(SENDER), sx(TARGET), sx(TIME), ",".join(str(d) for d in declined))
    return "[%s,%s,[%s]]" % (cfg, sx_world(world), ",".join(sx_op(o) for o in ops))


def wproj_of(w):
    """world dict -> the list the model prints per step."""
    return [w["st"], w["role"], w["nin"], w["nout"], w["maxres"], [] if w["treq"] is None else [w["treq"]],
            1 if w["wasact"] else 0, w["lastt"], 1 if w["wr"] else 0, w["sout"], w["sin"],
            [n for n, _ in w["out_rows"]], list(w["in_rows"])]


def norm_events(evs):
    """Text(58) of a Logout on the wire is compared as present/absent only (reason texts are not behaviour)."""
    out = []
    for e in evs:
        if e[0] == 0 and e[1][0] == [53]:
            e = [0, [e[1][0], [[t, ([120] if (t == [53, 56] and v) else v)] for t, v in e[1][1]]]]
        out.append(e)
    return out


def norm_rows(rows):
    out = []
    for n, m in rows:
        if m[0] == [53]:
            m = [m[0], [[t, ([120] if (t == [53, 56] and v) else v)] for t, v in m[1]]]
        out.append([n, m])
    return out


# ------------------------------------------------------------------------------------------
# frames
# ------------------------------------------------------------------------------------------

def build_frame(mtype, fields, begin=BEGIN):
    """A FIX frame from an ordered field list (after 8/9/35); independent of the library's encoder.
    mtype None: no MsgType field."""
    body = "".join("%s=%s%s" % (t, v, SOH) for t, v in fields)
    head35 = "" if mtype is None else "35=%s%s" % (mtype, SOH)
    blen = len(head35) + len(body)
    txt = "8=%s%s9=%d%s%s%s" % (begin, SOH, blen, SOH, head35, body)
    ck = sum(ord(c) for c in txt) % 256
    return (txt + "10=%03d%s" % (ck, SOH)).encode("latin-1")


def header(seq, s49=TARGET, s56=SENDER):
    """Peer-side header fields in the encoder's order; None drops the field."""
    h = []
    if s49 is not None:
        h.append(("49", s49))
    if s56 is not None:
        h.append(("56", s56))
    if seq is not None:
        h.append(("34", str(seq)))
    h.append(("52", TIME))
    return h


EXC_CODES = None


def exc_code(e):
    from asyncfix import errors
    if isinstance(e, errors.TagNotFoundError):
        return 2
    if isinstance(e, errors.DuplicatedTagError):
        return 10
    if isinstance(e, errors.FIXConnectionError):
        return 4
    if isinstance(e, errors.DuplicateSeqNoError):
        return 5
    if isinstance(e, errors.EncodingError):
        return 6
    if isinstance(e, errors.FIXMessageError):
        return 9
    if isinstance(e, ValueError):
        return 1
    if isinstance(e, AssertionError):
        return 3
    if isinstance(e, AttributeError):
        return 7
    if isinstance(e, OverflowError):
        return 8
    if isinstance(e, KeyError):
        return 11
    return [99, type(e).__name__]


# ------------------------------------------------------------------------------------------
# the adapter: every private name of asyncfix used by C04 / C11 / C05 is here
# ------------------------------------------------------------------------------------------

class FakeWriter:
    def __init__(self, sink):
        self.sink = sink
        self.closed = False

    def write(self, data):
        self.sink(data)

    async def drain(self):
        return None

    def close(self):
        self.closed = True

    async def wait_closed(self):
        return None

    def get_extra_info(self, *a, **k):
        return None


class _Clock:
    """stands in for the `time` module inside asyncfix.connection"""

    def __init__(self):
        self.now = float(NOW0)

    def time(self):
        return self.now


class _Hooks:
    """Application hooks: record an event, never raise, never send."""

    async def on_message(self, msg):
        ad = self._verif_ad
        ad.events.append([1, ad.msg_proj(msg)])
        if ad.raising:
            # an application callback that fails (Fix/SessionHooks.v; C04_raising_callback_is_invisible proves that the
            # model's result does not depend on it): after the message was handed over
            try:
                n = int(msg[34])
            except Exception:  # noqa: BLE001
                n = None
            if "all" in ad.raising or n in ad.raising:
                raise RuntimeError("application callback failed (harness)")

    async def on_connect(self):
        pass

    async def on_disconnect(self):
        self._verif_ad.events.append([4])

    async def on_logon(self, is_healthy):
        self._verif_ad.events.append([2, 1 if is_healthy else 0])

    async def on_logout(self, msg):
        self._verif_ad.events.append([3])

    async def on_state_change(self, connection_state):
        self._verif_ad.events.append([5, int(connection_state)])

    async def should_replay(self, historical_replay_msg):
        return int(historical_replay_msg[34]) not in self._verif_ad.declined


_REC = {}


def _rec_class(role):
    if role not in _REC:
        from asyncfix import AsyncFIXClient, AsyncFIXDummyServer
        base = AsyncFIXClient if role == 1 else AsyncFIXDummyServer
        _REC[role] = type("Rec" + base.__name__, (_Hooks, base), {})
    return _REC[role]


class Adapter:
    """One connection under test."""

    _patched = False
    clock = _Clock()

    @classmethod
    def patch(cls):
        if cls._patched:
            return
        import asyncfix.connection as cm
        from asyncfix.codec import Codec
        cm.time = cls.clock
        Codec.current_datetime = staticmethod(lambda: TIME)
        cls._patched = True

    def __init__(self, role, declined=()):
        from asyncfix import AsyncFIXClient, AsyncFIXDummyServer, Journaler
        from asyncfix.codec import Codec
        from asyncfix.protocol import FIXProtocol44
        Adapter.patch()
        self.recording = True
        self.events = []
        self.declined = set(declined)
        self.raising = set()
        cls = _rec_class(role)
        self.proto = FIXProtocol44()
        self.codec = Codec(self.proto)
        self.journal = Journaler()
        self.conn = cls(self.proto, SENDER, TARGET, self.journal, "localhost", 0, heartbeat_period=30, logger=_quiet)
        self.conn._verif_ad = self
        self.attach_writer()
        self.conn._socket_reader = object()
        self.conn._connection_state = self.state_enum(ST["NCE"])

    # --- private attribute access ---------------------------------------------------------
    @staticmethod
    def state_enum(n):
        from asyncfix.connection import ConnectionState
        return ConnectionState(n)

    @staticmethod
    def role_enum(n):
        from asyncfix.connection import ConnectionRole
        return ConnectionRole(n)

    def attach_writer(self):
        self.conn._socket_writer = FakeWriter(self._on_write)

    def _on_write(self, data):
        if self.recording:
            self.events.append([0, self.wire_proj(data)])

    def set_world(self, st=None, role=None, nin=None, nout=None, maxres=None, treq="keep", wasact=None,
                  lastt=None, wr=None):
        c = self.conn
        if nin is not None or nout is not None:
            self.journal.set_seq_num(c._session, next_num_out=nout, next_num_in=nin)
        if st is not None:
            c._connection_state = self.state_enum(st)
        if role is not None:
            c._connection_role = self.role_enum(role)
        if maxres is not None:
            c._max_seq_num_resend = maxres
        if treq != "keep":
            c._test_req_id = treq
        if wasact is not None:
            c._connection_was_active = wasact
        if lastt is not None:
            c._message_last_time = float(lastt)
        if wr is not None:
            if wr:
                self.attach_writer()
            else:
                c._socket_writer = None

    def world(self, rows=True):
        c = self.conn
        s = c._session
        stored = self.journal.sessions()[(s.target_comp_id, s.sender_comp_id)]
        w = {"st": int(c._connection_state), "role": int(c._connection_role.value), "nin": s.next_num_in,
             "nout": s.next_num_out, "maxres": c._max_seq_num_resend, "treq": c._test_req_id,
             "wasact": bool(c._connection_was_active), "lastt": int(c._message_last_time),
             "wr": c._socket_writer is not None,
             "sout": stored.next_num_out - 1, "sin": stored.next_num_in - 1}
        allm = self.journal.get_all_msgs()
        w["in_rows"] = [r[0] for r in allm if r[2] == 0]
        if rows:
            w["out_rows"] = [(r[0], self.wire_proj(r[1], coded=False)) for r in allm if r[2] == 1]
        else:
            w["out_rows"] = [(r[0], None) for r in allm if r[2] == 1]
        return w

    @property
    def nin(self):
        return self.conn._session.next_num_in

    @property
    def nout(self):
        return self.conn._session.next_num_out

    @property
    def treq(self):
        return self.conn._test_req_id

    @property
    def state(self):
        return int(self.conn._connection_state)

    # --- projections ----------------------------------------------------------------------
    @staticmethod
    def plain(msg):
        """decoded FIXMessage -> [type, [[tag, value]..]] or None when a value is not text
        (repeating group / repeated-tag marker: outside the message-level model)."""
        tags = []
        for t, v in msg.tags.items():
            if not isinstance(v, str):
                return None
            tags.append([t, v])
        return [str(msg.msg_type), tags]

    def msg_proj(self, msg):
        p = self.plain(msg)
        return msg_codes(p) if p is not None else [[63], []]

    _wire_cache = {}

    def wire_proj(self, data, coded=True):
        """written / journaled frame -> [type, fields without 8, 9, 35, 10] via the real decoder (memoised per frame)"""
        hit = Adapter._wire_cache.get(data)
        if hit is None:
            m, _, _ = self.codec.decode(data, silent=False)
            p = self.plain(m)
            p = [p[0], [tv for tv in p[1] if tv[0] not in ("8", "9", "35", "10")]]
            hit = (p, msg_codes(p))
            if len(Adapter._wire_cache) < 20000:
                Adapter._wire_cache[data] = hit
        return hit[1] if coded else hit[0]

    # --- operations -----------------------------------------------------------------------
    def decode(self, frame):
        m, n, raw = self.codec.decode(frame)
        return m, raw

    async def _op(self, op, frame=None):
        from asyncfix import FIXMessage
        c = self.conn
        k = op[0]
        if k == 0:
            Adapter.clock.now = float(op[2])
            m, raw = self.decode(frame)
            await c._process_message(m, raw)
        elif k == 1:
            fm = FIXMessage(op[1][0])
            for t, v in op[1][1]:
                fm.set(t, v)
            await c.send_msg(fm)
        elif k == 2:
            Adapter.clock.now = float(op[1])
            await c.send_test_req()
        elif k == 3:
            await c.disconnect(self.state_enum(op[1]), logout_message=op[2])

    async def run_op(self, op, frame=None, project=True):
        """Execute one operation; returns the step projection [outcome, events, wproj]."""
        self.events = []
        self.recording = project
        outcome = 0
        try:
            await self._op(op, frame)
        except Exception as e:  # noqa: BLE001 - the class of whatever escapes is the observation
            outcome = exc_code(e)
        self.recording = True
        if not project:
            return None, None
        w = self.world(rows=False)
        return [outcome, self.events, wproj_of(w)], w

    def close(self):
        try:
            self.journal.cursor.close()
            self.journal.conn.close()
        except Exception:
            pass

        class _D:
            def close(self):
                pass
        self.journal.cursor = _D()
        self.journal.conn = _D()


def frame_to_op(ad, frame, now=NOW0):
    """Decode a frame with the real codec; None when the decoder returns no message or a value is not text."""
    m, raw = ad.decode(frame)
    if m is None:
        return None
    p = Adapter.plain(m)
    if p is None:
        return None
    return [0, p, now]


def frame_of_op(op):
    """Rebuild the frame of an inbound operation (replay): fields between 9 and 10 as decoded."""
    tags = op[1][1]
    begin = next((v for t, v in tags if t == "8"), BEGIN)
    mtype = next((v for t, v in tags if t == "35"), None)
    fields = [(t, v) for t, v in tags if t not in ("8", "9", "35", "10")]
    return build_frame(mtype, fields, begin=begin)


# ------------------------------------------------------------------------------------------
# session-aware symbolic messages
# ------------------------------------------------------------------------------------------
# A symbol is a dict: cls (app hb tr rr gf rs logon logout), rel (below at plus1 far huge or an int offset),
# pd (PossDupFlag), and optional variant keys.  It is resolved against the live counters of the
# connection when it is about to be fed, so histories stay meaningful whatever happened before.

REL = {"below": -1, "at": 0, "plus1": 1, "far": 5}


def resolve(sym, ad, k=0):
    """symbol -> frame bytes"""
    nin, nout = ad.nin, ad.nout
    rel = sym.get("rel", "at")
    if rel == "huge":
        seq = 2 ** 63 + 7
    elif isinstance(rel, int):
        seq = nin + rel
    else:
        seq = nin + REL[rel]
    seqfield = str(seq)
    if sym.get("seqtext") is not None:
        seqfield = sym["seqtext"]
    s49, s56 = TARGET, SENDER
    d = sym.get("defect")
    if d == "no49":
        s49 = None
    elif d == "no56":
        s56 = None
    elif d == "bad49":
        s49 = "XXX"
    elif d == "bad56":
        s56 = "YYY"
    elif d == "swap":
        s49, s56 = SENDER, TARGET
    elif d == "no34":
        seqfield = None
    elif d == "g34":
        seqfield = sym.get("g34", "abc")
    h = header(seqfield, s49, s56)
    body = []
    cls = sym["cls"]
    mtype = {"app": "D", "hb": "0", "tr": "1", "rr": "2", "gf": "4", "rs": "4", "logon": "A", "logout": "5"}[cls]
    if sym.get("pd"):
        body += [("43", "Y"), ("122", TIME)]
    if cls == "app":
        mtype = sym.get("mtype", "D")
        body += [("11", "ID%d" % k), ("55", "SYM"), ("54", "1")]
    elif cls == "hb":
        v = sym.get("id", "none")
        if v == "match":
            body.append(("112", str(ad.treq if ad.treq is not None else 7)))
        elif v == "wrong":
            body.append(("112", "999"))
        elif v == "garbled":
            body.append(("112", "zz"))
    elif cls == "tr":
        if sym.get("id", "x") != "none":
            body.append(("112", "TR%d" % k))
    elif cls == "rr":
        b = sym.get("b", "first")
        bv = {"first": 1, "mid": max(1, nout - 2), "last": nout - 1, "next": nout, "beyond": nout + 2, "zero": 0,
              "neg": -1, "huge": 2 ** 63 + 1}.get(b, b)
        if b != "missing":
            body.append(("7", "xx" if b == "garbled" else str(bv)))
        e = sym.get("e", "inf")
        if e != "missing":
            base = bv if isinstance(bv, int) else 1
            ev = {"inf": 0, "same": base, "next": base + 1, "beyond": nout + 5, "garbled": "yy", "huge": 2 ** 63 + 1}.get(e, e)
            body.append(("16", str(ev)))
    elif cls in ("gf", "rs"):
        if cls == "gf":
            body.append(("123", sym.get("flag", "Y")))
        n = sym.get("new", "fwd")
        base = seq if isinstance(seq, int) else nin
        nv = {"fwd": base + 1, "fwd3": base + 3, "cur": nin, "back": nin - 1, "back2": max(nin - 2, -3), "zero": 0, "one": 1,
              "garbled": "q1", "huge": 2 ** 63 + 3}.get(n, n)
        if n != "missing":
            body.append(("36", str(nv)))
    elif cls == "logon":
        if sym.get("d98") != "missing":
            body.append(("98", "0"))
        if sym.get("d108") != "missing":
            body.append(("108", "30"))
    elif cls == "logout":
        if sym.get("text"):
            body.append(("58", "bye"))
    if d == "no35":
        mtype = None
    begin = "FIX.4.2" if d == "bad8" else BEGIN
    return build_frame(mtype, h + body, begin=begin)


def send_sym(sym, ad, k=0):
    """symbolic send attempt -> operation [1, msg]"""
    t = sym["t"]
    tags = []
    if t in ("D", "8"):
        tags = [["11", "OID%d" % k], ["55", "SYM"]]
    elif t == "A":
        tags = [["98", "0"], ["108", "30"]]
    elif t == "0":
        tags = [] if sym.get("id") is None else [["112", str(sym["id"])]]
    elif t == "1":
        # an application-built TestRequest: TestReqID "TRQ" (never the pending probe's id), the id of the pending
        # probe ("match": str(_test_req_id), the only one R13c lets out), a near miss of it, or none at all
        i = sym.get("id")
        if i == "match":
            tags = [["112", str(ad.treq)]]
        elif i == "near":
            tags = [["112", str(ad.treq) + "0" if ad.treq is not None else "0"]]
        elif i == "none":
            tags = []
        else:
            tags = [["112", "TRQ"]]
    elif t == "2":
        tags = [["7", "1"], ["16", "0"]]
    elif t == "4":
        s = sym.get("seq", "nout")
        sv = {"nout": ad.nout, "below": ad.nout - 1, "above": ad.nout + 3, "garbled": "xx"}.get(s, s)
        tags = [] if sym.get("plain") else [["123", "Y"]]     # plain: SequenceReset-Reset (no GapFillFlag)
        if s != "missing":
            tags.append(["34", str(sv)])
        tags.append(["36", str(ad.nout + 2)])
    elif t == "5":
        tags = [["58", "bye"]] if sym.get("text") else []
    if sym.get("pdn"):
        # an application message that itself carries PossDupFlag=N / OrigSendingTime (journaled as a new message)
        tags = tags + [["43", "N"], ["122", "20221231-23:59:59.000"]]
    if sym.get("pd"):
        s = sym.get("seq", "below")
        sv = {"nout": ad.nout, "below": ad.nout - 1, "above": ad.nout + 3, "garbled": "xx"}.get(s, s)
        tags = tags + [["43", "Y"]]
        if s != "missing" and t != "4":
            tags.append(["34", str(sv)])
    if sym.get("stale"):
        # a NEW message that carries a MsgSeqNum of its own (a decoded message re-submitted), optionally with
        # PossDupFlag=N: it is not a retransmission and must get a freshly allocated number
        sv = {"nout": ad.nout, "below": ad.nout - 1, "above": ad.nout + 3}.get(sym.get("seq", "below"), ad.nout - 1)
        tags = tags + ([["43", "N"]] if sym["stale"] == "N" else []) + [["34", str(sv)]]
    if sym.get("extra"):
        # further fields set by the application (header flags such as PossResend(97), PossDupFlag=N, a GapFillFlag
        # on a message that is not a SequenceReset, ...): none of them makes the message a retransmission
        tags = tags + [[str(k_), str(v_)] for k_, v_ in sym["extra"]]
    return [1, [t, tags]]


# ------------------------------------------------------------------------------------------
# running histories
# ------------------------------------------------------------------------------------------

class Hist:
    """Result of one history on the implementation."""
    __slots__ = ("start", "ops", "frames", "steps", "worlds", "world0", "final_rows", "declined", "skipped", "syms")


def run_history(loop, start, items, declined=(), timeout=60):
    """start: dict(role, st, nin, nout, maxres, treq, wasact, wr, prelude=[items]) ; items: list of
    ("in", sym) | ("send", sym) | ("treq",) | ("disc", ds, lm) | ("raw", frame) | ("op", op[, frame]) | ("set", {..}).
    Returns Hist (concrete ops, per-step projections from the implementation).  The whole history runs as one
    coroutine under asyncio.wait_for."""
    return loop.run_until_complete(asyncio.wait_for(_run_history(start, items, declined), timeout))


async def _run_history(start, items, declined):
    ad = Adapter(start.get("role", 2), declined)
    try:
        for it in start.get("prelude", []):
            await _exec_item(ad, it, 0, project=False)
        ad.raising = set(start.get("raising", ()))          # numbers whose on_message callback raises ("all": every one)
        ad.set_world(st=start.get("st"), role=start.get("role"), nin=start.get("nin"), nout=start.get("nout"),
                     maxres=start.get("maxres"), treq=start.get("treq", "keep"), wasact=start.get("wasact"),
                     lastt=start.get("lastt"), wr=start.get("wr"))
        h = Hist()
        h.start, h.declined, h.syms = start, list(declined), items
        h.world0 = ad.world(rows=True)
        h.ops, h.frames, h.steps, h.worlds, h.skipped = [], [], [], [h.world0], 0
        for k, it in enumerate(items):
            r = await _exec_item(ad, it, k)
            if r is None:
                h.skipped += 1
                continue
            op, frame, step, w = r
            h.ops.append(op)
            h.frames.append(frame)
            h.steps.append(step)
            h.worlds.append(w)
        h.final_rows = [[n, msg_codes(m)] for n, m in ad.world(rows=True)["out_rows"]]
        return h
    finally:
        ad.close()


async def _exec_item(ad, it, k, project=True):
    kind = it[0]
    frame = None
    if kind == "set":
        ad.set_world(**it[1])
        return None
    if kind == "in":
        frame = resolve(it[1], ad, k)
        op = frame_to_op(ad, frame, NOW0 + k)
        if op is None:
            return None
    elif kind == "raw":
        frame = it[1]
        op = frame_to_op(ad, frame, NOW0 + k)
        if op is None:
            return None
    elif kind == "send":
        op = send_sym(it[1], ad, k)
    elif kind == "treq":
        op = [2, NOW0 + k]
    elif kind == "disc":
        op = [3, it[1], it[2]]
    elif kind == "op":
        op = it[1]
        frame = it[2] if len(it) > 2 else (frame_of_op(op) if op[0] == 0 else None)
    else:
        raise ValueError(it)
    step, w = await ad.run_op(op, frame, project=project)
    return op, frame, step, w


def model_lines(hists):
    return [sx_request(h.world0, h.ops, h.declined) for h in hists]


def model_batch(model, hists):
    """Evaluate the model on many histories; histories with the same configuration and start world share one
    request (form [1, cfg, world, [ops, ...]] of SessionRun.v).  Returns one result per history."""
    groups, order = {}, []
    for idx, h in enumerate(hists):
        cfg = "[%s,%s,%s,%s,[%s]]" % (sx(BEGIN), sx(SENDER), sx(TARGET), sx(TIME), ",".join(str(d) for d in h.declined))
        key = (cfg, sx_world(h.world0))
        if key not in groups:
            groups[key] = []
            order.append(key)
        groups[key].append(idx)
    lines, chunks = [], []
    for key in order:
        idxs = groups[key]
        for lo in range(0, len(idxs), 200):
            part = idxs[lo:lo + 200]
            lines.append("[1,%s,%s,[%s]]" % (key[0], key[1], ",".join("[%s]" % ",".join(sx_op(o) for o in hists[i].ops) for i in part)))
            chunks.append(part)
    res = model.batch(lines)
    out = [None] * len(hists)
    for part, r in zip(chunks, res):
        if not isinstance(r, list) or len(r) != len(part):
            for i in part:
                out[i] = r
        else:
            for i, x in zip(part, r):
                out[i] = x
    return out


def compare(h, mres):
    """Compare the implementation's step projections with the model's.  Returns None or
    (index, projection-name, impl, model)."""
    if not isinstance(mres, list) or len(mres) != len(h.steps) + 1:
        return (0, "model-result-shape", len(h.steps), mres if not isinstance(mres, list) else len(mres))
    for i, (a, b) in enumerate(zip(h.steps, mres)):
        if a[0] != b[0] and not (b[0] == 12 and a[0] in (5, 8)):
            # model code 12 = persist_msg's INSERT given a number outside SQLite's INTEGER range: CPython reports
            # OverflowError, or the stale IntegrityError of a preceding failed INSERT (-> DuplicateSeqNoError)
            return (i, "exception-class", a[0], b[0])
        ea, eb = norm_events(a[1]), norm_events(b[1])
        if ea != eb:
            return (i, "events", ea, eb)
        if a[2] != b[2]:
            names = ["state", "role", "next_num_in", "next_num_out", "max_seq_num_resend", "test_req_id", "was_active",
                     "message_last_time", "writer", "stored_out", "stored_in", "journal_out_keys", "journal_in_keys"]
            j = next(j for j in range(len(a[2])) if a[2][j] != b[2][j])
            return (i, "world." + names[j], a[2], b[2])
    if norm_rows(h.final_rows) != norm_rows(mres[-1]):
        return (len(h.steps), "journal_out_rows", h.final_rows, mres[-1])
    return None


def case_of(h, upto=None):
    """Serialisable description of a history (for replay files and evidence samples)."""
    n = len(h.ops) if upto is None else upto + 1
    return {"start": {k: v for k, v in h.start.items() if k != "prelude"},
            "prelude": h.start.get("prelude", []), "declined": h.declined,
            "world0": dict(h.world0, out_rows=[[n_, m] for n_, m in h.world0["out_rows"]]),
            "ops": h.ops[:n], "frames": [f.hex() if f else None for f in h.frames[:n]]}


def replay_case(case, loop=None):
    """Re-execute a recorded case on the implementation: the concrete ops (frames) from the recorded start."""
    loop = loop or new_loop()
    start = dict(case["start"])
    start["prelude"] = [tuple(x) if isinstance(x, list) else x for x in case.get("prelude", [])]
    items = []
    for op, fr in zip(case["ops"], case["frames"]):
        items.append(("op", op, bytes.fromhex(fr) if fr else None))
    return run_history(loop, start, items, case.get("declined", ()))


def new_loop():
    loop = asyncio.new_event_loop()
    asyncio.set_event_loop(loop)
    return loop


# ------------------------------------------------------------------------------------------
# parallel map with process-level timeouts
# ------------------------------------------------------------------------------------------

def _worker(fn_mod, fn_name, arg, q):
    faulthandler.dump_traceback_later(280, exit=True)
    try:
        sys.path.insert(0, core.ROOT)
        if core.REPO not in sys.path:
            sys.path.insert(0, core.REPO)
        mod = __import__(fn_mod, fromlist=[fn_name])
        q.put(("ok", getattr(mod, fn_name)(arg)))
    except BaseException as e:  # noqa: BLE001
        import traceback
        q.put(("err", "%s: %s\n%s" % (type(e).__name__, e, traceback.format_exc()[-1500:])))


def pmap(fn_mod, fn_name, args, procs=None, timeout=300):
    """Run module.function(arg) for every arg in its own process (fork), at most `procs` at a time.
    Returns the list of results; a crashed / timed-out worker yields ("err", text)."""
    procs = procs or min(core.NPROC, max(1, len(args)))
    ctx = mp.get_context("fork")
    pending = list(enumerate(args))
    running = {}
    results = [None] * len(args)
    t_end = _time.time() + timeout
    while pending or running:
        while pending and len(running) < procs:
            i, a = pending.pop(0)
            q = ctx.Queue()
            p = ctx.Process(target=_worker, args=(fn_mod, fn_name, a, q), daemon=True)
            p.start()
            running[i] = (p, q)
        done = []
        for i, (p, q) in running.items():
            try:
                results[i] = q.get(timeout=0.02)
                done.append(i)
            except Exception:
                if not p.is_alive():
                    try:
                        results[i] = q.get(timeout=0.5)
                    except Exception:
                        results[i] = ("err", "worker died rc=%s" % p.exitcode)
                    done.append(i)
        for i in done:
            p, q = running.pop(i)
            p.join(timeout=5)
        if _time.time() > t_end:
            for i, (p, q) in running.items():
                p.kill()
                results[i] = ("err", "timeout")
            running = {}
            for i, a in pending:
                results[i] = ("err", "timeout (not started)")
            pending = []
    return results


# ------------------------------------------------------------------------------------------
# batch worker shared by c04 / c11 / c05
# ------------------------------------------------------------------------------------------

def worker_batch(arg):
    """arg: dict(exe, mod, spec).  Runs mod.make_jobs(spec) on the implementation and the model, compares
    the projections, runs mod.oracle(h) on every history.  Returns a summary dict."""
    import hashlib
    import importlib
    logging.disable(logging.CRITICAL)
    mod = importlib.import_module(arg["mod"])
    jobs = mod.make_jobs(arg["spec"])
    loop = new_loop()
    out = {"n": 0, "steps": 0, "digests": [], "dist": {}, "disagree": [], "fails": [], "samples": [], "skipped": 0,
           "impl_s": 0.0, "model_s": 0.0, "nfails": 0, "ndisagree": 0}
    t0 = _time.time()
    hists = []
    for job in jobs:
        start, items = job[0], job[1]
        declined = job[2] if len(job) > 2 else ()
        hists.append(run_history(loop, start, items, declined))
    out["impl_s"] = _time.time() - t0
    t0 = _time.time()
    mres = [None] * len(hists)
    if arg.get("exe"):
        mres = core.Model(arg["exe"]).batch(model_lines(hists))
    out["model_s"] = _time.time() - t0
    for h, r in zip(hists, mres):
        out["n"] += 1
        out["steps"] += len(h.steps)
        out["skipped"] += h.skipped
        canon = repr((sorted((k, v) for k, v in h.start.items() if k != "prelude"), h.ops, h.declined))
        nontriv = mod.nontrivial(h)
        out["digests"].append((hashlib.md5(canon.encode()).digest()[:8], nontriv))
        for k in mod.distribution(h):
            out["dist"][k] = out["dist"].get(k, 0) + 1
        if r is not None:
            d = compare(h, r)
            if d is not None:
                out["ndisagree"] += 1
                if len(out["disagree"]) < 5:
                    out["disagree"].append({"case": case_of(h, d[0]), "projection": d[1], "impl": d[2], "model": d[3]})
        for (i, what, cls) in mod.oracle(h):
            out["nfails"] += 1
            key = cls or "__unclassified__"
            cnt = out.setdefault("fail_counts", {})
            cnt[key] = cnt.get(key, 0) + 1
            if cnt[key] <= (2 if cls else 20):
                out["fails"].append((case_of(h, i), what, cls))
        if len(out["samples"]) < 1 and nontriv:
            out["samples"].append({"start": {k: v for k, v in h.start.items() if k != "prelude"},
                                   "ops": [o if o[0] != 0 else [0, o[1][0], [tv for tv in o[1][1] if tv[0] in ("34", "36", "7", "16", "43", "123", "112")]]
                                           for o in h.ops[:6]],
                                   "impl_steps": [[s[0], [e if e[0] not in (0, 1) else [e[0], uncodes(e[1][0])] for e in s[1]], s[2][:5]]
                                                  for s in h.steps[:6]]})
    return out


def run_specs(ctx, modname, specs, timeout=600):
    """Distribute specs over worker processes; merge the summaries into ctx.  Returns merged totals."""
    exe = ctx.model.exe if ctx.model else None
    args = [{"exe": exe, "mod": modname, "spec": s} for s in specs]
    res = pmap("harness.session_common", "worker_batch", args, timeout=timeout)
    tot = {"n": 0, "steps": 0, "impl_s": 0.0, "model_s": 0.0, "skipped": 0}
    for spec, r in zip(specs, res):
        if r is None or r[0] != "ok":
            raise RuntimeError("session worker failed on spec %r: %s" % (spec, r and r[1]))
        o = r[1]
        for k in tot:
            tot[k] += o[k]
        for dg, nt in o["digests"]:
            ctx.evaluations += 1
            if nt:
                ctx.nontrivial.add(dg)
        ctx.traces += o["n"]
        for k, v in o["dist"].items():
            ctx.count(k, v)
        for d in o["disagree"]:
            ctx.disagree(d["case"], d["impl"], d["model"], d["projection"])
        if o["ndisagree"] > len(o["disagree"]):
            ctx.notes.append("%d further disagreements in one batch not listed" % (o["ndisagree"] - len(o["disagree"])))
        kept = {}
        for case, what, cls in o["fails"]:
            kept[cls] = kept.get(cls, 0) + 1
            ctx.fail(case, what, cls)
        for key, n in o.get("fail_counts", {}).items():
            cls = None if key == "__unclassified__" else key
            extra = n - kept.get(cls, 0)
            if extra > 0:
                if cls is not None and any(k.get("class") == cls for k in ctx.known):
                    ctx.known_hits[cls] = ctx.known_hits.get(cls, 0) + extra
                else:
                    ctx.notes.append("%d further failures (class %s) not listed individually" % (extra, cls))
        for smp in o["samples"]:
            if len(ctx.samples) < 6:
                ctx.samples.append(smp)
    return tot
