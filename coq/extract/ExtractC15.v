(* Extraction of the schema-validation model (C15) together with the regenerated dictionaries.
   ExtrOcamlBasic only; Z/N/positive/nat stay Coq datatypes.  Path relative to coq/. *)
From Coq Require Extraction.
From Coq Require Import ExtrOcamlBasic.
From AF Require Import Fix.SchemaRun.
Extraction Language OCaml.
Extraction "../ocaml/build/C15/model.ml" entry.
