(* Extraction of the scheduling model (C14).  ExtrOcamlBasic only; Z/N/positive/nat stay Coq datatypes.
   The path is relative to coq/, where make and coqc are run. *)
From Coq Require Extraction.
From Coq Require Import ExtrOcamlBasic.
From AF Require Import Fix.SchedRun.
Extraction Language OCaml.
Extraction "../ocaml/build/C14/model.ml" entry.
