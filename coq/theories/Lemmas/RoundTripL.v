(* C01: the encoder's frame decodes to the message it was made from (printer / parser inversion).
   Part A: decode behind characterising lemmas; Part B: the shape of an encoder frame;
   Part C: the decoder's field loop on header / plain fields; Part D: repeating groups. *)
From Coq Require Import ZArith NArith List Bool Lia ZifyBool.
From AF Require Import Base.Sx Py.Str Fix.Codec Fix.WfMsg Lemmas.StrB.
Import ListNotations.
Open Scope N_scope.

Definition bad_res (silent : bool) (n : Z) : result dres := if silent then Ok (None, n, None) else Exc EAssertion.

Definition decode_fields (G : group_table) (beginstring : str) (silent : bool) (rawlen : Z) (valid_idx : nat)
  (encoded : str) (fields : list str) : result dres :=
  match fields with
  | f0 :: f1 :: _ :: _ =>
      match split1 61 f0 with
      | (_, None) => Exc EValue
      | (_, Some v0) =>
          if negb (str_eqb v0 beginstring) then bad_res silent rawlen
          else
            match split1 61 f1 with
            | (_, None) => bad_res silent rawlen
            | (tag1, Some v1) =>
                if negb (str_eqb tag1 T9) then bad_res silent rawlen
                else
                  match py_int v1 with
                  | None => Exc EValue
                  | Some bl =>
                      let msg_length := (zlen f0 + zlen f1 + 9 + bl)%Z in
                      if (rawlen <? msg_length)%Z then bad_res silent (Z.of_nat valid_idx)
                      else
                        let parsed := (Z.of_nat valid_idx + msg_length)%Z in
                        let ck_expect := ((sum_codes (join SOHs (removelast fields)) + 1) mod 256) in
                        match fields_loop G ck_expect (mkD [] [] UNKNOWN false) fields with
                        | FExc e => Exc e
                        | FReturnBad => bad_res silent rawlen
                        | FCont st =>
                            if d_ck st then Ok (Some (mkMsg (d_type st) (d_root st)), parsed, Some encoded)
                            else bad_res silent parsed
                        end
                  end
            end
      end
  | _ => bad_res silent (Z.of_nat valid_idx)
  end.

Definition fields_of (encoded : str) : list str :=
  match rev (split_on 1 encoded) with
  | [] :: r => rev r
  | _ => split_on 1 encoded
  end.

Lemma decode_eq : forall G bs raw silent,
  decode G bs raw silent =
  match find_sub MARK raw with
  | None => bad_res silent (zlen raw)
  | Some i =>
      let msg := skipn i raw in
      let next_msg := match find_sub MARK (skipn 5 msg) with Some k => (k + 5)%nat | None => length msg end in
      let encoded := firstn next_msg msg in
      decode_fields G bs silent (zlen raw) i encoded (fields_of encoded)
  end.
Proof. reflexivity. Qed.

(* ------------------------------------------------------------------ Part A: framing *)

Lemma firstn_exact : forall {A} (a b : list A), firstn (length a) (a ++ b) = a.
Proof. induction a; intros; cbn; [reflexivity | rewrite IHa; reflexivity]. Qed.

Lemma skipn_app_le : forall {A} n (a b : list A), (n <= length a)%nat -> skipn n (a ++ b) = skipn n a ++ b.
Proof.
  induction n; intros a b H; [reflexivity|].
  destruct a; cbn in *; [lia | apply IHn; lia].
Qed.

Lemma MARK_soh_free : cfree 1 MARK.
Proof. apply cfreeb_spec. reflexivity. Qed.

Lemma MARK_nonempty : MARK <> [].
Proof. discriminate. Qed.

(* nothing after the frame start looks like a frame start: the whole buffer is one candidate frame *)
Lemma decode_nocut : forall G bs raw silent,
  prefixb MARK raw = true -> find_sub MARK (skipn 5 raw) = None ->
  decode G bs raw silent = decode_fields G bs silent (zlen raw) 0 raw (fields_of raw).
Proof.
  intros G bs raw silent Hp Hn. rewrite decode_eq, (find_sub_head _ _ Hp).
  cbv zeta. change (skipn 0 raw) with raw. rewrite Hn, firstn_all. reflexivity.
Qed.

(* a frame F (ending in SOH) followed by nothing or by the start of the next frame is cut at |F| *)
Lemma decode_cut : forall G bs F' P silent,
  prefixb MARK (F' ++ [1]) = true -> (5 <= length F')%nat -> find_sub MARK (skipn 5 (F' ++ [1])) = None ->
  P = [] \/ prefixb MARK P = true ->
  decode G bs ((F' ++ [1]) ++ P) silent =
  decode_fields G bs silent (zlen ((F' ++ [1]) ++ P)) 0 (F' ++ [1]) (fields_of (F' ++ [1])).
Proof.
  intros G bs F' P silent Hp Hl Hn HP.
  rewrite decode_eq, (find_sub_head _ _ (prefixb_app_r _ _ P Hp)).
  cbv zeta. change (skipn 0 ((F' ++ [1]) ++ P)) with ((F' ++ [1]) ++ P).
  assert (Hcut : match find_sub MARK (skipn 5 ((F' ++ [1]) ++ P)) with
                 | Some k => (k + 5)%nat | None => length ((F' ++ [1]) ++ P) end = length (F' ++ [1])).
  { rewrite (skipn_app_le 5 F' [1] Hl) in Hn.
    rewrite <- app_assoc. rewrite (skipn_app_le 5 F' ([1] ++ P) Hl). cbn [app].
    pose proof (find_sub_none_prefix _ _ _ Hn) as Hn'.
    rewrite (find_sub_sep 1 MARK _ P MARK_soh_free MARK_nonempty Hn').
    rewrite !app_length, skipn_length. cbn [length].
    destruct HP as [HP|HP].
    - subst P. cbn. lia.
    - rewrite (find_sub_head _ _ HP). cbn [option_map]. lia. }
  rewrite Hcut, firstn_exact. reflexivity.
Qed.

(* the field list of a frame made of SOH-free fields, each followed by SOH *)
Lemma fields_of_flat : forall fs, Forall (cfree 1) fs -> fields_of (flat fs) = fs.
Proof.
  intros fs H. unfold fields_of. rewrite (split_on_flat fs H), rev_app_distr. cbn [rev app].
  apply rev_involutive.
Qed.
