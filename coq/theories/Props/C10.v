(* C10 - the decoder is total, makes progress and never accepts a corrupted frame.
   Theorems only (proofs in AF.Lemmas.DecodeTotalL / StrA).  All statements are about the
   validated model `decode G bs raw true` (Codec.decode in silent mode) on ARBITRARY text `raw`,
   for every group table G and expected BeginString bs; witnesses use the table and BeginString
   regenerated from /repo (TBL, BS) and are replayable byte strings (| = SOH in the comments).
   After the round-9 and round-10 repairs the decoder part of the property holds at full
   strength: decode never raises, 0 <= consumed <= len, what is consumed is exactly the junk
   before the marker plus the frame candidate, the reader loop always terminates, and a message is
   returned only if its CheckSum field is the last field, spelled as three digits, and equal to the
   sum of all bytes before it.  What is still false: BodyLength is not compared with the body
   (pinned by a test of the repository), so a NUL inserted in a frame is not noticed; a marker
   inside a field value destroys the frame (D5); a candidate with an oversize BodyLength holds
   back what follows it. *)
From Coq Require Import ZArith NArith List Bool.
From AF Require Import Base.Sx Py.Str Fix.Codec Fix.Framing Lemmas.StrA Lemmas.DecodeTotalL.
Import ListNotations.
Open Scope N_scope.

(* ---------------------------------------------------------------- (a) totality *)

(* full strength: silent decode returns a triple for every input (no exception of any kind) *)
Theorem C10_no_raise : forall G bs raw, exists m n r, decode G bs raw true = Ok (m, n, r).
Proof. exact decode_total. Qed.
Print Assumptions C10_no_raise.

(* the former witnesses of ValueError (BodyLength, CheckSum), FIXMessageError (tag) and
   AttributeError (root tag repeated after a closed group): rejected and consumed alone; with a
   correct checksum the last one is returned with tag 70 marked as repeated *)
Theorem C10_no_raise_examples :
  dec_summary w_blen = Some (false, zlen w_blen, false)
  /\ dec_summary w_cks = Some (false, zlen w_cks, false)
  /\ dec_summary w_tag = Some (false, zlen w_tag, false)
  /\ dec_summary w_dup = Some (false, zlen w_dup, false)
  /\ exists m, dec w_dup_ok = Ok (Some m, zlen w_dup_ok, Some w_dup_ok)
       /\ ct_get [55; 48] (msg_tags m) = Some VErr.
Proof. exact no_raise_examples. Qed.
Print Assumptions C10_no_raise_examples.

(* ---------------------------------------------------------------- (b) consumed length *)

(* full strength: the consumed length is always within the buffer *)
Theorem C10_consumed_bounds : forall G bs raw m n r,
  decode G bs raw true = Ok (m, n, r) -> (0 <= n <= zlen raw)%Z.
Proof. exact decode_consumed_bounds. Qed.
Print Assumptions C10_consumed_bounds.

(* exactly: len minus the partial-marker tail (no marker); or, with the marker at offset i, either
   i (decode waits: fewer than three fields and no further marker, or the declared length exceeds
   the buffer) or i + the length of the frame candidate *)
Theorem C10_consumed_shape : forall G bs raw m n r,
  decode G bs raw true = Ok (m, n, r) ->
  (find_sub MARK raw = None /\ m = None /\ n = (zlen raw - Z.of_nat (marker_tail raw))%Z) \/
  exists i, find_sub MARK raw = Some i /\
    ((m = None /\ n = Z.of_nat i /\ wait_case i raw)
     \/ n = (Z.of_nat i + zlen (dec_encoded i raw))%Z).
Proof. exact decode_consumed_shape. Qed.
Print Assumptions C10_consumed_shape.

(* what is consumed beyond the junk prefix is exactly the candidate: nothing that follows it in
   the buffer is lost - a rejected frame is dropped alone (D8-bad-frame-drops-buffer repaired) *)
Theorem C10_consumes_candidate : forall G bs raw m n r i,
  decode G bs raw true = Ok (m, n, r) -> find_sub MARK raw = Some i ->
  (m = None /\ n = Z.of_nat i /\ wait_case i raw)
  \/ (n = (Z.of_nat i + zlen (dec_encoded i raw))%Z
      /\ raw = firstn i raw ++ dec_encoded i raw ++ skipn (Z.to_nat n) raw).
Proof. exact decode_consumes_candidate. Qed.
Print Assumptions C10_consumes_candidate.

(* the former witnesses of a negative consumed length (-975) and of consumed > len (47 of 37) *)
Theorem C10_consumed_examples :
  dec_summary w_neg = Some (false, zlen w_neg, false)
  /\ dec_summary w_negbad = Some (false, zlen w_negbad, false)
  /\ dec_summary w_over = Some (false, 10%Z, false) /\ zlen w_over = 37%Z.
Proof. exact consumed_examples. Qed.
Print Assumptions C10_consumed_examples.

(* no marker in the buffer: everything is dropped except the longest proper marker prefix (at most
   5 bytes) the buffer ends with *)
Theorem C10_no_marker_keeps_tail : forall G bs raw,
  find_sub MARK raw = None ->
  exists t, (t <= 5)%nat /\ (t <= length raw)%nat
    /\ decode G bs raw true = Ok (None, (zlen raw - Z.of_nat t)%Z, None)
    /\ skipn (length raw - t) raw = firstn t MARK.
Proof. exact decode_no_marker_tail. Qed.
Print Assumptions C10_no_marker_keeps_tail.

Theorem C10_marker_tail_examples :
  dec_summary [97; 98; 99; 56; 61; 70] = Some (false, 3%Z, false)
  /\ dec_summary [56; 61; 70; 73; 88] = Some (false, 0%Z, false)
  /\ dec_summary [97; 98; 99] = Some (false, 3%Z, false)
  /\ length (delivered (reader_run TBL BS [] [w_good ++ [56; 61; 70]; skipn 3 w_good])) = 2%nat.
Proof. exact marker_tail_examples. Qed.
Print Assumptions C10_marker_tail_examples.

(* the exact zero-consumption cases: no message, and either the buffer is a proper prefix of the
   marker (at most 5 bytes), or a candidate starts the buffer and decode waits for its completion;
   in particular a fragment followed by another marker is consumed (D8-fragment-stalls repaired) *)
Theorem C10_zero_consumption_cases : forall G bs raw m r,
  decode G bs raw true = Ok (m, 0%Z, r) ->
  m = None /\
  ((find_sub MARK raw = None /\ (length raw <= 5)%nat /\ raw = firstn (length raw) MARK)
   \/ (find_sub MARK raw = Some 0%nat /\ wait_case 0 raw)).
Proof. exact decode_zero_cases. Qed.
Print Assumptions C10_zero_consumption_cases.

(* ---------------------------------------------------------------- (c) acceptance *)

(* Every returned message (full strength): its raw text is the slice of the input that starts at
   the marker and the consumed length is the junk before the marker plus that text; BeginString is
   the expected one; the second field is a BodyLength that is a length and fits the buffer; the
   CheckSum field is the LAST field and the only one with tag "10", and its value is exactly
   "%0.3i" of the sum of ALL bytes before "10=" modulo 256; the text is those bytes, "10=ddd" and
   at most one SOH. *)
Theorem C10_accept_sound : forall G bs raw m n r,
  decode G bs raw true = Ok (Some m, n, r) ->
  exists i, find_sub MARK raw = Some i /\ r = Some (dec_encoded i raw)
    /\ n = (Z.of_nat i + zlen (dec_encoded i raw))%Z /\
    let fs := dec_fields i raw in
    let before := join SOHs (removelast fs) ++ SOHs in
    let ddd := fmt03 (sum_codes before mod 256) in
    (3 <= length fs)%nat
    /\ (exists t0 v1 bl, nth 0 fs [] = field t0 bs /\ nth 1 fs [] = field T9 v1 /\ py_int v1 = Some bl
          /\ (0 <= bl)%Z /\ (zlen (nth 0 fs []) + zlen (nth 1 fs []) + 9 + bl <= zlen raw - Z.of_nat i)%Z)
    /\ fs = removelast fs ++ [field T10 ddd]
    /\ Forall (fun f => field_tag f <> Some T10) (removelast fs)
    /\ exists tail, (tail = [] \/ tail = SOHs) /\ dec_encoded i raw = before ++ field T10 ddd ++ tail.
Proof. exact decode_accept_sound. Qed.
Print Assumptions C10_accept_sound.

Theorem C10_accept_nonvacuous :
  dec_summary w_nested = Some (true, 130%Z, true) /\ dec_summary w_good = Some (true, 26%Z, true).
Proof. exact accept_nonvacuous. Qed.
Print Assumptions C10_accept_nonvacuous.

(* the former witnesses of the lenient CheckSum spellings ("10= 32", "10=+32") are rejected *)
Theorem C10_checksum_strict_examples :
  dec_summary w_lz = Some (true, 34%Z, true)
  /\ dec_summary w_lenient = Some (false, 34%Z, false)
  /\ dec_summary w_lenient_plus = Some (false, 34%Z, false).
Proof. exact checksum_strict_examples. Qed.
Print Assumptions C10_checksum_strict_examples.

(* the former witness of "a field after CheckSum is returned in the message" *)
Theorem C10_fields_after_checksum_fixed :
  dec_summary w_trailing = Some (false, 31%Z, false) /\ zlen w_trailing = 38%Z
  /\ last (frame_fields w_trailing) [] = field T10 [49; 57; 48].
Proof. exact trailing_field_fixed. Qed.
Print Assumptions C10_fields_after_checksum_fixed.

(* one byte of one field replaced, the list of fields otherwise unchanged (the change neither
   creates nor destroys a SOH, a marker or the CheckSum separator): never returned as a message.
   Covers every position - tags, "=", values, BeginString, BodyLength and the CheckSum field. *)
Theorem C10_subst_detected : forall G bs raw raw' pre a x y c post,
  frame_fields raw = pre ++ (a ++ x :: c) :: post ->
  frame_fields raw' = pre ++ (a ++ y :: c) :: post ->
  x <> y -> x < 256 -> y < 256 ->
  (exists m n r, decode G bs raw true = Ok (Some m, n, r)) ->
  forall m' n' r', decode G bs raw' true <> Ok (Some m', n', r').
Proof. exact decode_subst_detected. Qed.
Print Assumptions C10_subst_detected.

Theorem C10_subst_nonvacuous :
  let pre := [field T8 BS; field T9 [49; 50]; field T35 [48]] in
  frame_fields w_lz = pre ++ ([53; 56; 61; 50; 57] ++ 57 :: []) :: [field T10 [48; 51; 50]]
  /\ frame_fields w_lz_subst = pre ++ ([53; 56; 61; 50; 57] ++ 56 :: []) :: [field T10 [48; 51; 50]]
  /\ frame_fields w_lz = (pre ++ [field [53; 56] [50; 57; 57]]) ++ ([49; 48; 61; 48; 51] ++ 50 :: []) :: []
  /\ frame_fields w_lz_ck = (pre ++ [field [53; 56] [50; 57; 57]]) ++ ([49; 48; 61; 48; 51] ++ 51 :: []) :: []
  /\ dec_summary w_lz = Some (true, 34%Z, true)
  /\ dec_summary w_lz_subst = Some (false, 34%Z, false)
  /\ dec_summary w_lz_ck = Some (false, 34%Z, false).
Proof. exact subst_example. Qed.
Print Assumptions C10_subst_nonvacuous.

(* still false: "BodyLength consistent with the bytes" (pinned by
   tests/test_codec.py::test_decode_custom_msg_type) - BodyLength 2 for a body of 14 is returned *)
Theorem C10_bodylength_unchecked_refuted :
  exists raw m n, decode TBL BS raw true = Ok (Some m, n, Some raw)
    /\ frame_blen raw = Some 2%Z /\ well_framedb raw = false.
Proof. exact bodylength_unchecked_refuted. Qed.
Print Assumptions C10_bodylength_unchecked_refuted.

(* ... hence still false: "no single-byte corruption is returned" - a NUL inserted in a value
   keeps the byte sum and is returned as part of the value (D8-nul-keeps-checksum) *)
Theorem C10_nul_keeps_checksum_refuted :
  exists a b m m' n n', w_lz = a ++ b /\ w_nul = a ++ 0 :: b
    /\ decode TBL BS w_lz true = Ok (Some m, n, Some w_lz)
    /\ decode TBL BS w_nul true = Ok (Some m', n', Some w_nul)
    /\ well_framedb w_lz = true /\ well_framedb w_nul = false
    /\ ct_get [53; 56] (msg_tags m) = Some (VStr [50; 57; 57])
    /\ ct_get [53; 56] (msg_tags m') = Some (VStr [50; 0; 57; 57]).
Proof. exact nul_keeps_checksum_refuted. Qed.
Print Assumptions C10_nul_keeps_checksum_refuted.

(* still false (D5): a well-formed frame whose value contains "8=FIX." is not returned *)
Theorem C10_marker_in_field_refuted :
  well_framedb w_d5 = true /\ dec_summary w_d5 = Some (false, 23%Z, false) /\ zlen w_d5 = 38%Z.
Proof. exact marker_in_field_refuted. Qed.
Print Assumptions C10_marker_in_field_refuted.

(* ---------------------------------------------------------------- (d) progress *)

(* full strength: for every buffer and chunk the inner loop of socket_read_task ends within
   len + 1 iterations, without an exception (status 1) and without exhausting the fuel (status 2) *)
Theorem C10_reader_terminates : forall G bs buf chunk, status (reader_step G bs buf chunk) = 0.
Proof. exact reader_step_terminates. Qed.
Print Assumptions C10_reader_terminates.

(* every iteration that goes on - a delivery, or a rejection with a positive consumed length -
   strictly shortens the buffer; a delivery always has a positive consumed length *)
Theorem C10_reader_iteration_shrinks : forall G bs buf m n r,
  decode G bs buf true = Ok (m, n, r) -> (m <> None \/ 0 < n)%Z ->
  (0 < n)%Z /\ (length (skipn (Z.to_nat n) buf) < length buf)%nat.
Proof. exact reader_iteration_shrinks. Qed.
Print Assumptions C10_reader_iteration_shrinks.

(* a rejected frame does not take its successor with it and the successor does not wait for
   another read (repair R10i): if the head of the buffer is rejected with a positive consumed
   length and what follows it decodes to a message, that message is the first delivery of the
   SAME reader step *)
Theorem C10_rejected_frame_does_not_block : forall G bs buf chunk n r m n2 r2,
  decode G bs (buf ++ chunk) true = Ok (None, n, r) -> (0 < n)%Z ->
  decode G bs (skipn (Z.to_nat n) (buf ++ chunk)) true = Ok (Some m, n2, Some r2) ->
  exists more, delivered (reader_step G bs buf chunk) = (m, r2) :: more
               /\ status (reader_step G bs buf chunk) = 0.
Proof. exact reader_bad_then_good. Qed.
Print Assumptions C10_rejected_frame_does_not_block.

(* the former blocking frames (negative BodyLength with wrong / correct checksum, the raising
   frames, the fragment, the wrong BeginString, ...) followed by two good frames: both delivered *)
Theorem C10_no_blocking_examples :
  Forall (fun first => residual (run2 first) = [] /\ length (delivered (run2 first)) = 2%nat
                       /\ snd (run2 first) = [0; 0])
         [w_negbad; w_neg; w_blen; w_cks; w_tag; w_dup; w_frag; w_badbs; w_lenient; w_trailing].
Proof. exact no_blocking_examples. Qed.
Print Assumptions C10_no_blocking_examples.

Theorem C10_bad_then_good_example :
  dec_summary (w_badbs ++ w_good) = Some (false, zlen w_badbs, false)
  /\ dec_summary (w_frag ++ w_good) = Some (false, zlen w_frag, false)
  /\ exists m, dec w_good = Ok (Some m, zlen w_good, Some w_good)
       /\ delivered (reader_run TBL BS [] [w_badbs ++ w_good; w_good]) = [(m, w_good); (m, w_good)].
Proof. exact bad_then_good_example. Qed.
Print Assumptions C10_bad_then_good_example.

(* the former witnesses of "one rejected candidate per read": a good frame behind one, or behind
   several, rejected candidates in ONE read is delivered by that read and the buffer is empty *)
Theorem C10_same_read_examples :
  (let '(b, out, sts) := reader_run TBL BS [] [w_badbs ++ w_good] in (b, length out, sts)) = ([], 1%nat, [0])
  /\ (let '(b, out, sts) := reader_run TBL BS [] [w_d5 ++ w_good] in (b, length out, sts)) = ([], 1%nat, [0])
  /\ (let '(b, out, sts) := reader_run TBL BS [] [w_blen ++ w_negbad ++ w_frag ++ w_good ++ w_tag ++ w_good] in
      (b, length out, sts)) = ([], 2%nat, [0]).
Proof. exact same_read_examples. Qed.
Print Assumptions C10_same_read_examples.

(* still false (D8-oversize-bodylength-waits): a candidate whose declared BodyLength exceeds what
   the buffer holds makes decode wait although complete frames follow it *)
Theorem C10_oversize_bodylength_waits_refuted :
  dec_summary (w_oversize ++ w_good) = Some (false, 0%Z, false)
  /\ frame_blen (w_oversize ++ w_good) = Some 500%Z
  /\ run2 w_oversize = (w_oversize ++ w_good ++ w_good, [], [0; 0]).
Proof. exact oversize_bodylength_waits_refuted. Qed.
Print Assumptions C10_oversize_bodylength_waits_refuted.
