(* C14 - concurrent senders never corrupt the outbound sequence.
   Theorems only (proofs in AF.Lemmas.SchedL); the model is AF.Fix.Sched: asyncio's scheduling rule
   (run-to-next-suspension, one task at a time) over the suspension points of asyncfix/connection.py
   (writer.drain() at the end of send_msg; the awaited hooks on_state_change / should_replay / on_message /
   on_logon).  A schedule is ANY list of task indices (`run_sched c sched` resumes them in that
   order; choosing a finished or non-existent task is a no-op), so every statement below is over all
   interleavings, every number of tasks, every message list, unbounded schedule length - and, since the
   conclusion is stated for the configuration after ANY schedule, it holds after every prefix, not only
   when the tasks have finished.

   The model describes the code after the repairs D12 / R3c / R5 / R6 (ResendRequest service) and R8a
   (send_msg journals BEFORE it writes to the transport: allocation + journal + write is one stretch
   without an await) and R8c (outbound gate in LOGON_INITIAL_RECV).  With R8a NO clause needs an
   assumption on the order in which drain waiters are woken: the stored-counter clause, which needed
   FIFO wake-up before (former C14_lifo_counter_refuted), is now an invariant of every schedule
   (C14_lifo_counter_example shows the former witness).  The theorems cover the whole domain of the
   property; no known-finding class is left for C14.  `new` below = the new messages on the wire
   (not PossDupFlag=Y, not SequenceReset), `retx_ok` = a legitimate retransmission frame. *)
From Coq Require Import ZArith List Bool.
From AF Require Import Fix.Sched Lemmas.SchedL Lemmas.SchedGapL.
Import ListNotations.
Open Scope Z_scope.

(* Application tasks only.  w0: any world with an empty observed wire, journal rows keyed by their own
   number below next_num_out and stored counter = next_num_out - 1 (init_ok); any connection state / role.
   mss: the messages of each task, all of them new (not SequenceReset, not PossDupFlag=Y). *)
Theorem C14_senders_safe : forall (w0 : world) (mss : list (list msg)) (sched : list nat),
  init_ok w0 -> Forall (fun ms => forallb is_new ms = true) mss ->
  let c := run_sched (mkC w0 (map sender_task mss)) sched in
  let w := c_w c in
  let new := newf (wire_of w) in
  (* wire order = number order, consecutive from the first free number: strictly increasing, distinct *)
  map f_seq new = zseq (nout w0) (length new)
  /\ nout w = nout w0 + Z.of_nat (length new)
  (* anything else on the wire is a retransmission under its own number: the PossDup copy of a journaled
     message, or a gap fill b -> n with b < n <= next_num_out *)
  /\ Forall (fun g => is_newf g = true \/ retx_ok (rows w) (nout w) g) (wire_of w)
  (* no DuplicateSeqNoError, neither returned to a caller nor swallowed *)
  /\ no_dup_error (c_ts c)
  (* every new frame on the wire IS journaled under its number (already while its sender is in drain) *)
  /\ (forall f, In f new -> row_at (f_seq f) (rows w) = Some f)
  (* no other row appears, older rows are untouched *)
  /\ (forall k f, nout w0 <= k -> row_at k (rows w) = Some f -> In f new /\ f_seq f = k)
  /\ (forall k, k < nout w0 -> row_at k (rows w) = row_at k (rows w0))
  (* stored counter = highest number sent = next_num_out - 1: at every point of every schedule *)
  /\ sout w = nout w - 1.
Proof. exact senders_safe. Qed.
Print Assumptions C14_senders_safe.

(* Same with the reader task suspended anywhere inside the acceptor's Logon handling
   (_state_set(LOGON_INITIAL_RECV) hook ; role ; Logon reply with its drain ; _state_set(ACTIVE) hook ;
   on_logon hook) and the heartbeat task's probe running concurrently. *)
Theorem C14_logon_window : forall (w0 : world) (mss : list (list msg)) (sched : list nat),
  init_ok w0 -> Forall (fun ms => forallb is_new ms = true) mss ->
  safe_outcome w0 (run_sched (mkC w0 (reader_logon :: heartbeat_task :: map sender_task mss)) sched).
Proof. exact logon_window_safe. Qed.
Print Assumptions C14_logon_window.

(* The reader's other sending handlers: Heartbeat reply to a TestRequest, ResendRequest on a gap
   (+ _state_set(RESENDREQ_AWAITING) hook), on_message hook. *)
Theorem C14_reader_replies_safe : forall (w0 : world) (r : task) (mss : list (list msg)) (sched : list nat),
  init_ok w0 -> In r [reader_testreq; reader_gap; reader_app] ->
  Forall (fun ms => forallb is_new ms = true) mss ->
  safe_outcome w0 (run_sched (mkC w0 (r :: heartbeat_task :: map sender_task mss)) sched).
Proof. exact reader_replies_safe. Qed.
Print Assumptions C14_reader_replies_safe.

(* The reader task servicing ANY ResendRequest (any BeginSeqNo, EndSeqNo, any should_replay answers, any
   journal content) while the heartbeat probe and any number of application tasks send: sends that start
   or are in progress inside the service window get fresh consecutive numbers, every PossDup frame is the
   copy of the journaled message of that number, nothing is journaled twice, the counter is right. *)
Theorem C14_resend_window : forall (w0 : world) (b e : Z) (d : list Z) (mss : list (list msg)) (sched : list nat),
  init_ok w0 -> Forall (fun ms => forallb is_new ms = true) mss ->
  safe_outcome w0 (run_sched (mkC w0 (reader_resend b e d :: heartbeat_task :: map sender_task mss)) sched).
Proof. exact resend_window_safe. Qed.
Print Assumptions C14_resend_window.

(* The general form: ANY set of tasks whose code is any mix of send_msg of new messages,
   send_test_req, _state_set hooks, plain hooks, role assignments and ResendRequest services (IResend,
   which unfolds into should_replay hooks, PossDup replays and gap fills; IFinally, the state-restoring
   finally clause around it, including its hook on the exception path).  safe_outcome is the
   eight-clause conjunction above. *)
Theorem C14_safe_tasks : forall (w0 : world) (ts : list task) (sched : list nat),
  init_ok w0 -> Forall fresh_task ts ->
  safe_outcome w0 (run_sched (mkC w0 ts) sched).
Proof. exact safe_tasks_safe. Qed.
Print Assumptions C14_safe_tasks.

(* Non-vacuity: state ACTIVE, two tasks x two messages, a FIFO schedule: 1..4 go out interleaved,
   all journaled, stored counter 4. *)
Example C14_nonvacuous :
  init_ok active0 /\ fifo_sched ex_cfg ex_sched = true /\ all_done (run_sched ex_cfg ex_sched) = true
  /\ map f_seq (wire_of (c_w (run_sched ex_cfg ex_sched))) = [1; 2; 3; 4]
  /\ map f_id (wire_of (c_w (run_sched ex_cfg ex_sched))) = [1; 3; 2; 4]
  /\ sout (c_w (run_sched ex_cfg ex_sched)) = 4
  /\ map fst (rows (c_w (run_sched ex_cfg ex_sched))) = [1; 2; 3; 4].
Proof. exact ex_nonvacuous. Qed.
Print Assumptions C14_nonvacuous.

(* The three schedules that broke the property before the repair of D12, as examples of C14_resend_window
   (pre-history: three application messages 1,2,3; reader servicing ResendRequest(1,0); one application
   task sending id 9).  Schedule [R;R;S;R;S;R;R;R;R;R;R]: the send starts right after the replay began
   and gets number 4; 1,2,3 are retransmitted; rows 1..4, counters 4 / 5, state ACTIVE again. *)
Example C14_resend_window_example :
  let c := run_sched rw_cfg rw_sched in
  init_ok (c_w rw_cfg) /\ fifo_sched rw_cfg rw_sched = true /\ valid_sched rw_cfg rw_sched = true /\ all_done c = true
  /\ wire_view (c_w c) = [(4, false, 9); (1, true, 1); (2, true, 2); (3, true, 3)]
  /\ map fst (rows (c_w c)) = [1; 2; 3; 4] /\ sout (c_w c) = 4 /\ nout (c_w c) = 5 /\ st (c_w c) = S_ACTIVE.
Proof. exact resend_window_example. Qed.
Print Assumptions C14_resend_window_example.

(* [R;R;R;R; S;S; R;R;R;R;R]: the send starts after message 1 was replayed; the caller gets no error. *)
Example C14_resend_window_caller_example :
  let c := run_sched rw_cfg rw_sched2 in
  fifo_sched rw_cfg rw_sched2 = true /\ valid_sched rw_cfg rw_sched2 = true /\ all_done c = true
  /\ wire_view (c_w c) = [(1, true, 1); (4, false, 9); (2, true, 2); (3, true, 3)]
  /\ (exists t, nth_error (c_ts c) 1 = Some t /\ t_out t = [OOk])
  /\ map fst (rows (c_w c)) = [1; 2; 3; 4] /\ sout (c_w c) = 4 /\ nout (c_w c) = 5.
Proof. exact resend_window_caller_example. Qed.
Print Assumptions C14_resend_window_caller_example.

(* The heartbeat probe already suspended in drain (number 3, not journaled yet) when ResendRequest(1,0)
   arrives: 1,2 retransmitted, tail gap fill 3 -> 4, the probe is journaled under 3, no error. *)
Example C14_heartbeat_inflight_example :
  let c := run_sched hb_cfg hb_sched in
  fifo_sched hb_cfg hb_sched = true /\ valid_sched hb_cfg hb_sched = true /\ all_done c = true
  /\ map (fun f => (f_seq f, f_ty f, f_pd f)) (wire_of (c_w c))
     = [(3, T_TESTREQ, false); (1, 68, true); (2, 68, true); (3, T_SEQRESET, false)]
  /\ map t_out (c_ts c) = [[OOk; OOk; OOk]; [OOk]] /\ map t_exc (c_ts c) = [None; None]
  /\ map fst (rows (c_w c)) = [1; 2; 3] /\ sout (c_w c) = 3 /\ nout (c_w c) = 4 /\ st (c_w c) = S_ACTIVE.
Proof. exact heartbeat_inflight_example. Qed.
Print Assumptions C14_heartbeat_inflight_example.

(* A request that cannot be served (BeginSeqNo 7 with 2 messages sent): AssertionError swallowed by the reader
   after the finally clause around _process_resend restored state ACTIVE (its on_state_change hook is one more
   suspension point, schedule [R;R;S;R;S]); the concurrent send gets number 3. *)
Example C14_resend_unservable_example :
  let c := run_sched un_cfg un_sched in
  fifo_sched un_cfg un_sched = true /\ valid_sched un_cfg un_sched = true /\ all_done c = true
  /\ map t_exc (c_ts c) = [Some EAssert; None] /\ wire_view (c_w c) = [(3, false, 9)]
  /\ st (c_w c) = S_ACTIVE /\ sout (c_w c) = 3 /\ nout (c_w c) = 4.
Proof. exact resend_unservable_example. Qed.
Print Assumptions C14_resend_unservable_example.

(* The former witness of "the counter clause needs FIFO wake-up": two senders, LIFO wake-up [0;1;1;0].
   With the journal write before the transport write the stored counter is 2 = highest number sent. *)
Example C14_lifo_counter_example :
  let c := run_sched lifo_cfg lifo_sched in
  fifo_sched lifo_cfg lifo_sched = false /\ valid_sched lifo_cfg lifo_sched = true /\ all_done c = true
  /\ map f_seq (wire_of (c_w c)) = [1; 2] /\ map fst (rows (c_w c)) = [1; 2] /\ sout (c_w c) = 2 /\ nout (c_w c) = 3.
Proof. exact lifo_counter_example. Qed.
Print Assumptions C14_lifo_counter_example.

(* The reply to a ResendRequest is fixed when the request arrives (resend_code reads the journal and next_num_out once):
   every SequenceReset-GapFill it contains has NewSeqNo <= that counter - for any BeginSeqNo / EndSeqNo / should_replay
   answers / journal.  Together with C14_senders_safe (whatever other tasks send while the reader is suspended in
   should_replay or drain is numbered FROM that counter on) no gap fill can tell the peer to skip a message that was sent
   while the request was being serviced.  (Moving the counter snapshot behind the replay loop - seeded changes C06-a /
   C07-a - makes the tail gap fill cover such a message: the peer loses it for good.) *)
Theorem C14_gapfill_stops_at_arrival_counter : forall (b e : Z) (d : list Z) (w : world),
  ent_ok w -> Forall (gf_le (nout w)) (resend_code b e d w).
Proof. exact resend_gapfill_bound. Qed.
Print Assumptions C14_gapfill_stops_at_arrival_counter.

(* journal 1, 2 (application), 3 (Heartbeat); ResendRequest(1, 0) serviced while another task sends: its message gets
   number 4 in the middle of the reply, the tail gap fill is 3 -> 4, message 4 is not skipped *)
Example C14_gapfill_window_example :
  let c := run_sched gp_cfg gp_sched in
  init_ok (c_w gp_cfg) /\ fifo_sched gp_cfg gp_sched = true /\ valid_sched gp_cfg gp_sched = true /\ all_done c = true
  /\ map (fun f => (f_seq f, f_ty f, f_pd f, f_id f, f_gf f)) (wire_of (c_w c))
     = [(1, 68, true, 1, false); (4, 68, false, 9, false); (2, 68, true, 2, false); (3, T_SEQRESET, false, 4, true)]
  /\ nout (c_w c) = 5 /\ map fst (rows (c_w c)) = [1; 2; 3; 4]
  /\ Forall (gf_le (nout (c_w gp_cfg))) (resend_code 1 0 [] (c_w gp_cfg)).
Proof. exact gapfill_window_example. Qed.
Print Assumptions C14_gapfill_window_example.
