(* A raising on_message is invisible to the session: process_message_h = process_message. *)
From Coq Require Import ZArith NArith List Bool.
From AF Require Import Base.Sx Py.Str Fix.Session Fix.SessionHooks.
Import ListNotations.
Open Scope Z_scope.

(* the try block swallows the callback's exception; the events and the world stay, and what follows the block does
   not look at the block's value *)
Lemma try_on_message_h : forall hr m (k : M unit) w,
  (try_ (on_message_h hr m) ;;; k) w = (try_ (emit (App m)) ;;; k) w.
Proof.
  intros hr m k w. unfold on_message_h, bind, try_, emit, raise, ret.
  destruct (hr m) as [x|]; cbn; reflexivity.
Qed.

Lemma try_dispatch_h : forall hr c m valid (k : M unit) w,
  (try_ (dispatch_h hr c m valid) ;;; k) w = (try_ (dispatch c m valid) ;;; k) w.
Proof.
  intros hr c m valid k w. unfold dispatch_h, dispatch.
  destruct (mkind m); try reflexivity;
  (destruct valid; [|reflexivity];
   unfold bind, try_, getw; cbn [rv rw re];
   destruct (get_int T34 m) as [n|e]; [|reflexivity];
   destruct (n =? nin w); [|reflexivity];
   unfold on_message_h, bind, emit, raise, ret;
   destruct (hr m) as [x|]; cbn; reflexivity).
Qed.

Lemma after_part1_h_eq : forall hr c m now r1 w,
  after_part1_h hr c m now r1 w = after_part1 c m now r1 w.
Proof.
  intros hr c m now r1 w. unfold after_part1_h, after_part1.
  destruct r1 as [[[|]|]|]; try reflexivity; apply try_dispatch_h.
Qed.

Theorem process_message_h_eq : forall hr c m now w,
  process_message_h hr c m now w = process_message c m now w.
Proof.
  intros hr c m now w. unfold process_message_h, process_message.
  destruct (validate_integrity c m w); try reflexivity.
  unfold bind. destruct (rv (try_ (part1 c m) w)) as [r1|x]; [|reflexivity].
  rewrite after_part1_h_eq. reflexivity.
Qed.

Theorem step_h_eq : forall hr c o w, step_h hr c o w = step c o w.
Proof. intros hr c o w. destruct o; try reflexivity. apply process_message_h_eq. Qed.

Theorem run_h_eq : forall hr c h w, run_h hr c w h = run c w h.
Proof.
  intros hr c h. induction h as [|o h IH]; intro w; [reflexivity|].
  cbn [run_h run]. rewrite step_h_eq, IH. reflexivity.
Qed.

(* ------------------------------------------------------------------ consequences for C04 *)
From AF Require Import Lemmas.SessionL Lemmas.SessionC04L.
From Coq Require Import Sorting.Sorted.

Lemma run_h_deliver_exact : forall hr c h w,
  Forall (fun s => delivered s = [] \/
                   (delivered s = [nin (s_before s)] /\ nin (s_after s) = nin (s_before s) + 1)) (run_h hr c w h).
Proof. intros. rewrite run_h_eq. apply run_deliver_exact. Qed.

Lemma run_h_inorder : forall hr c h w,
  Forall (fun s => ~ D11_step c s) (run_h hr c w h) ->
  Forall (fun n => nin w <= n) (flat_map delivered (run_h hr c w h))
  /\ StronglySorted Z.lt (flat_map delivered (run_h hr c w h))
  /\ Forall (fun s => forall n, In n (delivered s) ->
                      n = nin (s_before s) /\ nin (s_after s) = n + 1 /\ delivered s = [n]) (run_h hr c w h).
Proof. intros hr c h w. rewrite run_h_eq. apply run_inorder. Qed.

(* every callback of the history fails: Logon(1), 2, 3, 4 - each message is still counted and journaled, handed over
   once, no ResendRequest is written *)
Definition always_fails : hook := fun _ => Some XValue.
Definition h_fail : list op := [i_logon 1; i_app 2; i_app 3; i_app 4].

Lemma failing_callbacks_example :
  let r := run_h always_fails cfg0 w_acceptor h_fail in
  flat_map delivered r = [2; 3; 4]
  /\ length (failed_callbacks always_fails (trace r)) = 3%nat
  /\ resends (trace r) = []
  /\ nin (final cfg0 w_acceptor h_fail) = 5
  /\ j_in (jr (final cfg0 w_acceptor h_fail)) = [1; 2; 3; 4]
  /\ st (final cfg0 w_acceptor h_fail) = ST_ACTIVE.
Proof. vm_compute. repeat split; reflexivity. Qed.
