(* Model of asyncfix/fix_tester.py : class FIXTester (C20) - the message fabrication part.

   fix_exec_report_msg follows the Python assertion chain line by line.  It is a total function
       scale -> tester state -> order fields -> arguments -> Ok message state' | AssertionFailed state'
   (the id counters are advanced before most assertions are evaluated, so the state after a failed
   assertion is part of the result).  The code modelled is fix_tester.py WITH fixes/R12a (CREATED refused),
   R12b (one OrderID per root ClOrdID), R12d (finite numbers, plain notation: no effect on exact rationals)
   and R12e (reply() gate: session part, not modelled) applied.

   Numbers.  A quantity / price z stands for the exact rational z / u, where the scale u > 0 is an
   argument of the model (the harness uses u = 4096: binary fractions on which Python float
   arithmetic, comparison, float(str) and str(float) are exact and in plain notation).  Every
   comparison the helper makes is scale invariant except `round(x, 3) == 0`, which on exact
   rationals is |x| <= 1/2000 (round-half-even sends the tie to 0.000), i.e. 2000 * |z| <= u.
   `nan` (omitted argument) is None.  ExecType / OrdStatus are the one-character wire codes
   (N code points, constants of OrderStatus.v); every other text is a code point list.

   A message is the ordered list of (tag, value) the helper sets; VS = text, VQ = number (printed
   by Python's str(float), which the model does not render: trusted base).

   The order object is an input snapshot (the fields the helper reads).  process_execution_report
   below is the part of FIXNewOrderSingle.process_execution_report that C20 needs (which fields a
   report overwrites, which exception classes it can raise); the full order model is Fix/Order.v (C17).

   No proofs in this file. *)
From Coq Require Import ZArith NArith List Bool.
From AF Require Import Base.Sx Py.Str Fix.OrderStatus.
From AF Require Fix.Order.   (* clord_root: C17's model of FIXNewOrderSingle.clord_root (regex ^(.+)--(\d+)$) *)
Import ListNotations.
Open Scope Z_scope.

Inductive val := VS (s : str) | VQ (z : Z).
Definition msg := list (N * val).

Record order := mkOrder {
  o_clord : str;            (* order.clord_id *)
  o_orig : option str;      (* order.orig_clord_id *)
  o_oid : option str;       (* order.order_id (None until a report was processed) *)
  o_qty : Z; o_cum : Z; o_leaves : Z; o_price : Z;
  o_side : str; o_ticker : str; o_account : str;
  o_status : N }.

Record eargs := mkArgs {
  a_clord : option str;     (* clord_id (None / "" are falsy) *)
  a_exec : N;               (* exec_type *)
  a_status : N;             (* ord_status *)
  a_cum : option Z; a_leaves : option Z; a_last : option Z;
  a_price : option Z; a_oqty : option Z;
  a_orig : option str;      (* orig_clord_id *)
  a_avg : Z }.

(* self._order_id, self._exec_id, keys of self.registered_orders, self._order_ids (root ClOrdID -> OrderID,
   in insertion order; added by fixes/R12b) *)
Record tstate := mkT { t_oid : Z; t_eid : Z; t_reg : list str; t_oids : list (str * Z) }.
Definition t_init : tstate := mkT 0 10000 [] [].

Fixpoint lookup (k : str) (l : list (str * Z)) : option Z :=
  match l with
  | [] => None
  | (k', v) :: r => if str_eqb k' k then Some v else lookup k r
  end.
(* order.clord_id_root *)
Definition root_of (o : order) : str := Order.clord_root (o_clord o).

Inductive res (A : Type) := Ok (a : A) (t : tstate) | AssertionFailed (t : tstate).
Arguments Ok {A} a t.
Arguments AssertionFailed {A} t.

Definition X_TRADE : N := 70.           (* FExecType.TRADE = "F" *)
Definition X_PENDING_CANCEL : N := 54.  (* FExecType.PENDING_CANCEL = "6" *)

Definition T_Account : N := 1.   Definition T_AvgPx : N := 6.     Definition T_ClOrdID : N := 11.
Definition T_CumQty : N := 14.   Definition T_ExecID : N := 17.   Definition T_LastQty : N := 32.
Definition T_OrderID : N := 37.  Definition T_OrderQty : N := 38. Definition T_OrdStatus : N := 39.
Definition T_OrigClOrdID : N := 41. Definition T_Price : N := 44. Definition T_Side : N := 54.
Definition T_Symbol : N := 55.   Definition T_ExecType : N := 150. Definition T_LeavesQty : N := 151.
Definition T_CxlRejResponseTo : N := 434.

Definition truthy (o : option str) : bool :=
  match o with Some (_ :: _) => true | _ => false end.

Definition finished (st : N) : bool := mem st [FILLED; CANCELED; REJECTED; EXPIRED].

(* round(z/u, 3) == 0 *)
Definition round3_zero (u z : Z) : bool := 2000 * Z.abs z <=? u.

(* _next_order_id / _next_exec_id *)
Definition next_order_id (t : tstate) : Z * tstate :=
  (t_oid t + 1, mkT (t_oid t + 1) (t_eid t) (t_reg t) (t_oids t)).
Definition next_exec_id (t : tstate) : Z * tstate :=
  (t_eid t + 1, mkT (t_oid t) (t_eid t + 1) (t_reg t) (t_oids t)).

(*  root = order.clord_id_root
    if root not in self._order_ids: self._order_ids[root] = self._next_order_id()
    order_id = self._order_ids[root] *)
Definition order_id_for (t : tstate) (root : str) : Z * tstate :=
  match lookup root (t_oids t) with
  | Some v => (v, t)
  | None =>
      let '(n, t') := next_order_id t in
      (n, mkT (t_oid t') (t_eid t') (t_reg t') (t_oids t' ++ [(root, n)]))
  end.

(* order_register_single; fix_cxl_request / fix_rep_request register the order under the ClOrdID
   it has after the request was built *)
Definition register (t : tstate) (key : str) : tstate :=
  mkT (t_oid t) (t_eid t) (if existsb (str_eqb key) (t_reg t) then t_reg t else t_reg t ++ [key]) (t_oids t).
Definition registered (t : tstate) (key : str) : bool := existsb (str_eqb key) (t_reg t).

(* ---- the three quantities: isnan defaults and their assertions, then the sum assertion ---- *)

(*  if isnan(order_qty): order_qty = order.qty
    else: assert exec_type == REPLACED; assert order_qty > 0 *)
Definition resolve_order_qty (o : order) (a : eargs) : option Z :=
  match a_oqty a with
  | None => Some (o_qty o)
  | Some q => if (a_exec a =? X_REPLACED)%N && (0 <? q) then Some q else None
  end.

(*  if isnan(cum_qty): cum_qty = order.cum_qty
    else: assert cum_qty <= order.qty; assert cum_qty >= 0 *)
Definition resolve_cum (o : order) (a : eargs) : option Z :=
  match a_cum a with
  | None => Some (o_cum o)
  | Some c => if (c <=? o_qty o) && (0 <=? c) then Some c else None
  end.

(*  if isnan(leaves_qty): leaves_qty = order.leaves_qty
    else: assert leaves_qty >= 0; assert leaves_qty <= order_qty *)
Definition resolve_leaves (o : order) (a : eargs) (order_qty : Z) : option Z :=
  match a_leaves a with
  | None => Some (o_leaves o)
  | Some l => if (0 <=? l) && (l <=? order_qty) then Some l else None
  end.

(* (order_qty, cum_qty, leaves_qty) after  assert cum_qty + leaves_qty <= order_qty *)
Definition resolve_qtys (o : order) (a : eargs) : option (Z * Z * Z) :=
  match resolve_order_qty o a with
  | None => None
  | Some oq =>
    match resolve_cum o a with
    | None => None
    | Some cum =>
      match resolve_leaves o a oq with
      | None => None
      | Some leaves => if cum + leaves <=? oq then Some (oq, cum, leaves) else None
      end
    end
  end.

(*  if not isnan(last_qty):
        assert not isnan(leaves_qty); assert not isnan(cum_qty)     (locals: already defaulted)
        assert exec_type == TRADE; assert last_qty > 0; m[LastQty] = last_qty
        assert round(last_qty - (cum_qty - order.cum_qty), 3) == 0
    else: assert exec_type != TRADE
   returns the LastQty field (or none) *)
Definition trade_fields (u : Z) (o : order) (a : eargs) (cum : Z) : option msg :=
  match a_last a with
  | Some l =>
      if (a_exec a =? X_TRADE)%N && (0 <? l) && round3_zero u (l - (cum - o_cum o))
      then Some [(T_LastQty, VQ l)] else None
  | None => if (a_exec a =? X_TRADE)%N then None else Some []
  end.

(*  if not isnan(price): assert exec_type == REPLACED   else: price = order.price *)
Definition resolve_price (o : order) (a : eargs) : option Z :=
  match a_price a with
  | Some p => if (a_exec a =? X_REPLACED)%N then Some p else None
  | None => Some (o_price o)
  end.

(*  if exec_type == PENDING_CANCEL and ord_status == PENDING_CANCEL:
        assert order.orig_clord_id; assert order.clord_id
        assert order.clord_id != order.orig_clord_id
        assert order.cum_qty == cum_qty; assert order.leaves_qty == leaves_qty *)
Definition pending_cancel_ok (o : order) (a : eargs) (cum leaves : Z) : bool :=
  if (a_exec a =? X_PENDING_CANCEL)%N && (a_status a =? PENDING_CANCEL)%N then
    match o_orig o, o_clord o with
    | Some (oc :: og), _ :: _ =>
        negb (str_eqb (o_clord o) (oc :: og)) && (o_cum o =? cum) && (o_leaves o =? leaves)
    | _, _ => false
    end
  else true.

(*  if ord_status in (FILLED, CANCELED, REJECTED, EXPIRED): assert leaves_qty == 0 *)
Definition finished_ok (a : eargs) (leaves : Z) : bool :=
  if finished (a_status a) then leaves =? 0 else true.

Definition opt_field (tag : N) (o : option str) : msg :=
  match o with Some (c :: s) => [(tag, VS (c :: s))] | _ => [] end.

Definition fix_exec_report_msg (u : Z) (t : tstate) (o : order) (a : eargs) : res msg :=
  (* assert order.clord_id in self.registered_orders *)
  if negb (registered t (o_clord o)) then AssertionFailed t else
  (* assert clord_id *)
  match a_clord a with
  | None | Some [] => AssertionFailed t
  | Some (c :: cs) =>
    (* assert ord_status != FOrdStatus.CREATED          (fixes/R12a) *)
    if (a_status a =? CREATED)%N then AssertionFailed t else
    let clord := c :: cs in
    (* order_id = self._order_ids[root] (drawn once per root) if order.order_id is None else order.order_id *)
    let '(order_id, t1) :=
      match o_oid o with
      | None => let '(n, t') := order_id_for t (root_of o) in (z_to_dec n, t')
      | Some s => (s, t)
      end in
    (* m[ExecID] = self._next_exec_id() *)
    let '(eid, t2) := next_exec_id t1 in
    let head := [(T_ClOrdID, VS clord); (T_OrderID, VS order_id); (T_ExecID, VS (z_to_dec eid))]
                ++ opt_field T_OrigClOrdID (a_orig a)
                ++ [(T_ExecType, VS [a_exec a]); (T_OrdStatus, VS [a_status a]); (T_Side, VS (o_side o))] in
    match resolve_qtys o a with
    | None => AssertionFailed t2
    | Some (oq, cum, leaves) =>
      match trade_fields u o a cum with
      | None => AssertionFailed t2
      | Some last =>
        match resolve_price o a with
        | None => AssertionFailed t2
        | Some price =>
          (* set_instrument, set_price_qty, AvgPx, set_account *)
          let m := head ++ [(T_CumQty, VQ cum); (T_LeavesQty, VQ leaves)] ++ last
                   ++ [(T_Symbol, VS (o_ticker o)); (T_Price, VQ price); (T_OrderQty, VQ oq);
                       (T_AvgPx, VQ (a_avg a)); (T_Account, VS (o_account o))] in
          if pending_cancel_ok o a cum leaves && finished_ok a leaves
          then Ok m t2 else AssertionFailed t2
        end
      end
    end
  end.

(* ------------------------------------------------------------------ fix_cxlrep_reject_msg *)

Inductive rres := ROk (m : msg) | RTagNotFound | RAssertion.

(* cxl_req is given by its msg_type and its tags 11 / 41 (None: tag absent -> TagNotFoundError) *)
Definition fix_cxlrep_reject_msg (mt : str) (clord orig : option str) (status : N) : rres :=
  match clord with
  | None => RTagNotFound
  | Some c =>
    match orig with
    | None => RTagNotFound
    | Some og =>
      let m := [(T_OrderID, VS [48%N]); (T_ClOrdID, VS c); (T_OrigClOrdID, VS og);
                (T_OrdStatus, VS [status])] in
      (* assert ord_status != FOrdStatus.CREATED        (fixes/R12a) *)
      if (status =? CREATED)%N then RAssertion else
      if str_eqb mt [K_ORDERCANCELREQUEST] then ROk (m ++ [(T_CxlRejResponseTo, VS [49%N])])
      else if str_eqb mt [K_ORDERCANCELREPLACEREQUEST] then ROk (m ++ [(T_CxlRejResponseTo, VS [50%N])])
      else RAssertion
    end
  end.

(* ------------------------------------------------------------------ session message factories *)

Definition has_tag (tag : N) (m : msg) : bool := existsb (fun f => (fst f =? tag)%N) m.

(* each returns (MsgType, fields).  msg_logon(tags): tags is a dict with distinct integer keys *)
Definition msg_logon (tags : list (N * str)) : str * msg :=
  let m := map (fun f => (fst f, VS (snd f))) tags in
  let m := if has_tag 98 m then m else m ++ [(98%N, VS [48%N])] in
  let m := if has_tag 108 m then m else m ++ [(108%N, VS [51%N; 48%N])] in
  ([65%N], m).
Definition msg_logout : str * msg := ([53%N], []).
Definition msg_heartbeat (test_req_id : option str) : str * msg :=
  ([48%N], match test_req_id with Some s => [(112%N, VS s)] | None => [] end).
Definition msg_test_request (test_req_id : str) : str * msg := ([49%N], [(112%N, VS test_req_id)]).
Definition msg_sequence_reset (msg_seq_num new_seq_no : Z) (gap_fill : bool) : str * msg :=
  ([52%N], [(34%N, VS (z_to_dec msg_seq_num)); (123%N, VS [if gap_fill then 89%N else 78%N]);
            (36%N, VS (z_to_dec new_seq_no))]).
Definition msg_resend_request (begin_seq_no end_seq_no : Z) : str * msg :=
  ([50%N], [(7%N, VS (z_to_dec begin_seq_no)); (16%N, VS (z_to_dec end_seq_no))]).

(* ------------------------------------------------------------------ the order object's side *)

Fixpoint get (tag : N) (m : msg) : option val :=
  match m with
  | [] => None
  | (t, v) :: m' => if (t =? tag)%N then Some v else get tag m'
  end.
Definition get_s (tag : N) (m : msg) : option str :=
  match get tag m with Some (VS s) => Some s | _ => None end.
Definition get_q (tag : N) (m : msg) : option Z :=
  match get tag m with Some (VQ z) => Some z | _ => None end.
Definition code_of (s : str) : N := match s with [c] => c | _ => 0%N end.

Inductive outcome := RetTrue | RetFalse | RaisedFIXError | RaisedValueError | RaisedTagNotFound.

(* FIXNewOrderSingle.process_execution_report on a fabricated EXECUTIONREPORT: the new field values
   and the return value / exception class.  The object is unchanged when FIXError is raised; it is
   already updated (all but the status) when FOrdStatus(new_status) raises ValueError. *)
Definition process_execution_report (o : order) (m : msg) : order * outcome :=
  match get_s T_ClOrdID m, get_q T_CumQty m, get_s T_OrdStatus m, get_s T_ExecType m,
        get_q T_LeavesQty m, get_s T_OrderID m, get_q T_AvgPx m with
  | Some clord, Some cum, Some st, Some ex, Some leaves, Some oid, Some _ =>
      let is_orig := match o_orig o with Some og => str_eqb clord og | None => false end in
      if negb (str_eqb clord (o_clord o)) && negb is_orig then (o, RaisedFIXError) else
      let stc := code_of st in let exc := code_of ex in
      let r := change_status (o_status o) K_EXECUTIONREPORT exc stc false in
      let replaced := (exc =? X_REPLACED)%N in
      let price := if replaced then match get_q T_Price m with Some p => p | None => o_price o end
                   else o_price o in
      let qty := if replaced then match get_q T_OrderQty m with Some q => q | None => o_qty o end
                 else o_qty o in
      let orig := if replaced then None else o_orig o in
      let o' := mkOrder (o_clord o) orig (Some oid) qty cum leaves price
                        (o_side o) (o_ticker o) (o_account o) (o_status o) in
      if (r =? T)%N then
        if mem stc all_statuses
        then (mkOrder (o_clord o) orig (Some oid) qty cum leaves price
                      (o_side o) (o_ticker o) (o_account o) stc, RetTrue)
        else (o', RaisedValueError)
      else (o', RetFalse)
  | _, _, _, _, _, _, _ => (o, RaisedTagNotFound)
  end.

(* ------------------------------------------------------------------ histories *)

(* the helper's public methods that fabricate no execution report: none of them touches the id counters, the
   registered orders or the root -> OrderID map *)
Inductive book :=
| BResetMessages                          (* reset_messages(): clears initiator_sent / acceptor_rcv_que / acceptor_sent *)
| BSetNextNum (num_in num_out : option Z) (* set_next_num(): the simulated acceptor's session counters *)
| BQuery                                  (* acceptor_sent_query / initiator_sent_query *)
| BFactory                                (* msg_logon / msg_logout / msg_heartbeat / msg_test_request /
                                             msg_sequence_reset / msg_resend_request *)
| BCancelReject                           (* fix_cxlrep_reject_msg *)
| BAcceptor.                              (* process_msg_acceptor / reply: session traffic of the simulated acceptor *)

Definition bookkeeping (t : tstate) (b : book) : tstate := t.

(* any sequence of helper calls on one tester: registrations (order_register_single, fix_cxl_request,
   fix_rep_request), fabrications for arbitrary orders, and the bookkeeping methods *)
Inductive op := OpRegister (key : str) | OpExec (o : order) (a : eargs) | OpBook (b : book).

Definition step (u : Z) (t : tstate) (p : op) : tstate * option msg :=
  match p with
  | OpRegister key => (register t key, None)
  | OpBook b => (bookkeeping t b, None)
  | OpExec o a =>
      match fix_exec_report_msg u t o a with
      | Ok m t' => (t', Some m)
      | AssertionFailed t' => (t', None)
      end
  end.

Fixpoint run_ops (u : Z) (t : tstate) (ops : list op) : tstate * list msg :=
  match ops with
  | [] => (t, [])
  | p :: ops' =>
      let '(t1, r) := step u t p in
      let '(t2, ms) := run_ops u t1 ops' in
      (t2, match r with Some m => m :: ms | None => ms end)
  end.

(* closed loop on one order: every fabricated report is handed to the order object before the next
   one is fabricated (the way the helper is meant to be used) *)
Fixpoint drive (u : Z) (t : tstate) (o : order) (calls : list eargs) : list msg :=
  match calls with
  | [] => []
  | a :: calls' =>
      match fix_exec_report_msg u t o a with
      | Ok m t' => m :: drive u t' (fst (process_execution_report o m)) calls'
      | AssertionFailed t' => drive u t' o calls'
      end
  end.
