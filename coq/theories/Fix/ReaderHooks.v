(* The decode loop of socket_read_task with a dispatcher that may RAISE.

   Fix/Codec.v:reader_loop hands every decoded message to a dispatcher that always returns.  The real
   `_process_message` can raise outside its own try block (`_validate_integrity` on a repeated CompID tag, a journal
   failure in `_finalize_message`): the reader task logs the exception and goes back to `read()`.  Because the buffer is
   advanced BEFORE the message is dispatched, the failing frame is consumed and what was buffered behind it is decoded by
   the next pass.  `raises k` = the dispatch of the k-th message of this pass (counting from `done`) raises. *)
From Coq Require Import ZArith NArith List Bool.
From AF Require Import Base.Sx Py.Str Fix.Container Fix.Codec.
Import ListNotations.
Open Scope N_scope.

Fixpoint reader_loop_h (raises : nat -> bool) (G : group_table) (bs : str) (fuel : nat) (buf : str)
  (acc : list (message * str)) : str * list (message * str) * N :=
  match fuel with
  | O => (buf, rev acc, 2)
  | S f =>
      match decode G bs buf true with
      | Exc _ => (buf, rev acc, 1)
      | Ok (m, n, raw) =>
          let buf' := if (0 <? n)%Z then skipn (Z.to_nat n) buf else buf in
          match m with
          | Some m =>
              let r := match raw with Some r => r | None => [] end in
              if raises (length acc) then (buf', rev ((m, r) :: acc), 1)      (* logged; back to read() *)
              else reader_loop_h raises G bs f buf' ((m, r) :: acc)
          | None => if (0 <? n)%Z then reader_loop_h raises G bs f buf' acc else (buf', rev acc, 0)
          end
      end
  end.

(* one read and the fold over the reads, as reader_step / reader_run of Fix/Codec.v; `done` = deliveries so far on this
   connection, `raises i` = the dispatch of delivery number i (0-based, over the whole connection) raises *)
Definition reader_step_h (raises : nat -> bool) (G : group_table) (bs : str) (done : nat) (buf chunk : str)
  : str * list (message * str) * N :=
  let b := buf ++ chunk in reader_loop_h (fun k => raises (done + k)%nat) G bs (S (length b)) b [].

Fixpoint reader_run_h (raises : nat -> bool) (G : group_table) (bs : str) (done : nat) (buf : str) (chunks : list str)
  : str * list (message * str) * list N :=
  match chunks with
  | [] => (buf, [], [])
  | c :: cs =>
      let '(buf1, out1, st1) := reader_step_h raises G bs done buf c in
      let '(buf2, out2, sts) := reader_run_h raises G bs (done + length out1)%nat buf1 cs in
      (buf2, out1 ++ out2, st1 :: sts)
  end.
