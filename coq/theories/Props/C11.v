(* C11 - nothing passes to or from the application outside an established session.
   Theorems only (proofs in AF.Lemmas.SessionL / SessionC04L / SessionC11L) about the model
   Fix/Session.v of asyncfix/connection.py (send_msg, _process_message, _validate_integrity,
   disconnect, _process_logon, _process_logout).

   No theorem of this file excludes a known-finding class any more:
     D15 (inbound traffic accepted in LOGON_INITIAL_SENT) and D25 (the same, and outbound traffic, in
     LOGON_INITIAL_RECV, where an acceptor stays when its Logon handling raised) are repaired in the code
     (R8b, R8c): C11_no_app_before_logon holds over ALL histories, C11_logon_exchange_gate gives the exact
     result, the former witnesses are C11_*_dropped.
     (D27 - a non-numeric MsgSeqNum raised ValueError out of _process_message - was repaired earlier:
      C11_garbled_seqnum_rejected)
   C11_integrity_* assume `sendable w`: the Logout can be written and journaled (writer present, no outbound
   journal row numbered next_num_out, number within SQLite's range); ledger D20 breaks that
   (Out_inv of C05 implies it): since R8a the Logout is then not even written (journal first), send_msg
   raises inside disconnect and the connection stays up - harness class D20-app-raw-seqnum. *)
From Coq Require Import ZArith NArith List Bool.
From AF Require Import Base.Sx Py.Str Fix.Session Lemmas.SessionL Lemmas.SessionC04L Lemmas.SessionC11L Lemmas.SessionC05L.
From Coq Require String.
Import String.StringSyntax.
Import ListNotations.
Open Scope Z_scope.

Example C11_enums_tied : enums_ok = true.
Proof. exact enums_tied. Qed.
Print Assumptions C11_enums_tied.

(* from a pre-Logon state (disconnected, NETWORK_CONN_ESTABLISHED, LOGON_INITIAL_SENT / _RECV), for EVERY
   history of inbound messages, send attempts, timer calls and disconnects:
   every on_message call is preceded by an on_logon call (the Logon exchange has completed) *)
Theorem C11_no_app_before_logon : forall c h w,
  prelogon w ->
  forall pre m post, trace (run c w h) = pre ++ App m :: post -> logons pre <> [].
Proof. exact run_no_app_before_logon. Qed.
Print Assumptions C11_no_app_before_logon.

(* ... and a connection that has left the pre-Logon states (ACTIVE, RESENDREQ_HANDLING, RESENDREQ_AWAITING)
   has reported on_logon: no history makes it established without the peer's Logon *)
Theorem C11_established_needs_logon : forall c h w,
  prelogon w -> ~ prelogon (final c w h) -> logons (trace (run c w h)) <> [].
Proof. exact run_established_needs_logon. Qed.
Print Assumptions C11_established_needs_logon.

(* one operation from a pre-Logon state delivers nothing and leaves the pre-Logon states only with on_logon *)
Theorem C11_prelogon_step : forall c o w,
  prelogon w ->
  apps (re (step c o w)) = [] /\ (prelogon (rw (step c o w)) \/ logons (re (step c o w)) <> []).
Proof. exact step_prelogon. Qed.
Print Assumptions C11_prelogon_step.

(* first inbound message is not a Logon (either role): the connection is dropped without any frame;
   counters, journal and role are untouched *)
Theorem C11_first_must_be_logon : forall c m now w,
  st w = ST_NCE -> validate_integrity c m w = VOk -> mkind m <> KLogon ->
  process_message c m now w = mkR (inl tt) (dropped ST_DISC_BROKEN w) [State ST_DISC_BROKEN; OnDisconnect].
Proof. exact first_must_be_logon. Qed.
Print Assumptions C11_first_must_be_logon.

(* R8b: while the Logon exchange is in progress (LOGON_INITIAL_SENT: our Logon is out, no reply yet;
   LOGON_INITIAL_RECV: the peer's Logon arrived, ours is not out) a message that passes the integrity check
   and is neither Logon nor Logout drops the connection: no Logout, nothing counted, journaled or delivered *)
Theorem C11_logon_exchange_gate : forall c m now w,
  st w = ST_LOGON_SENT \/ st w = ST_LOGON_RECV -> validate_integrity c m w = VOk ->
  mkind m <> KLogon -> mkind m <> KLogout ->
  process_message c m now w = mkR (inl tt) (dropped ST_DISC_BROKEN w) [State ST_DISC_BROKEN; OnDisconnect].
Proof. exact logon_exchange_gate. Qed.
Print Assumptions C11_logon_exchange_gate.

(* send gates (gate_refuses): below NETWORK_CONN_ESTABLISHED; at NETWORK_CONN_ESTABLISHED unless Logon / Logout;
   initiator in LOGON_INITIAL_SENT unless Logout; (R8c) non-initiator in LOGON_INITIAL_RECV unless Logon / Logout
   -> FIXConnectionError, the world (counters, journal, state, role) and the trace unchanged *)
Theorem C11_send_gate : forall c m w,
  gate_refuses m w = true -> send_msg c m w = mkR (inr XConn) w [].
Proof. exact send_gate_theorem. Qed.
Print Assumptions C11_send_gate.

(* R13c - the TestRequest gate (treq_refuses): a TestRequest is refused - FIXConnectionError, world and trace
   unchanged - unless a probe is pending AND the message carries exactly that probe's id (str(_test_req_id)):
   only send_test_req() can put a TestRequest on the wire, and only one at a time *)
Theorem C11_testrequest_gate : forall c m w,
  treq_refuses m w = true -> send_msg c m w = mkR (inr XConn) w [].
Proof. exact testrequest_gate. Qed.
Print Assumptions C11_testrequest_gate.

Theorem C11_testrequest_needs_pending_id : forall c m w,
  mkind m = KTestReq ->
  (treq w = None \/ (exists t, treq w = Some t /\ get T112 (mtags m) <> Some (z_to_dec t))) ->
  send_msg c m w = mkR (inr XConn) w [].
Proof. exact testrequest_needs_pending_id. Qed.
Print Assumptions C11_testrequest_needs_pending_id.

(* the FIXConnectionError refusals of send_msg are EXACTLY the state / role gates and the TestRequest gate *)
Theorem C11_refusals_exact : forall c m w,
  rv (send_msg c m w) = inr XConn <-> gate_refuses m w = true \/ treq_refuses m w = true.
Proof. exact send_msg_conn_iff. Qed.
Print Assumptions C11_refusals_exact.

(* and conversely every send refused with FIXConnectionError (incl. the TestRequest gate) is free *)
Theorem C11_refused_send_is_free : forall c m w,
  rv (send_msg c m w) = inr XConn -> send_msg c m w = mkR (inr XConn) w [].
Proof. exact send_msg_conn_free. Qed.
Print Assumptions C11_refused_send_is_free.

(* what _validate_integrity answers, by cases on BeginString / CompIDs / MsgSeqNum *)
Theorem C11_integrity_cases : forall c m w,
  match validate_integrity c m w with
  | VExc x => get T8 (mtags m) = None /\ x = XTagNotFound
  | VTrue => get T49 (mtags m) = None \/ get T56 (mtags m) = None
  | VStr code =>
      code <> [] /\
      ((exists b, get T8 (mtags m) = Some b /\ b <> c_begin c)
       \/ (exists s t, get T49 (mtags m) = Some s /\ get T56 (mtags m) = Some t
                       /\ (~ (c_sender c = t /\ c_target c = s)
                           \/ get T34 (mtags m) = None
                           \/ (exists v, get T34 (mtags m) = Some v /\ py_int v = None)
                           \/ exists n, get_int T34 m = inl n /\ n < nin w
                                        /\ mkind m <> KSeqReset /\ st w <> ST_AWAITING)))
  | VOk => exists s t n, get T49 (mtags m) = Some s /\ get T56 (mtags m) = Some t
                         /\ c_sender c = t /\ c_target c = s /\ get_int T34 m = inl n
                         /\ (nin w <= n \/ mkind m = KSeqReset \/ st w = ST_AWAITING)
  end.
Proof. exact validate_cases. Qed.
Print Assumptions C11_integrity_cases.

(* wrong CompIDs / missing, non-numeric or too-low MsgSeqNum with both CompIDs present: exactly one Logout carrying
   the reason, then dropped; no on_message, next_num_in and the inbound journal unchanged *)
Theorem C11_integrity_logout : forall c m now w code,
  validate_integrity c m w = VStr code -> ST_NCE <= st w -> sendable w ->
  process_message c m now w =
  mkR (inl tt) (logged_out c w code)
      ((if st w =? ST_NCE then [State ST_LOGON_SENT] else [])
       ++ [Wire (logout_msg c w code); State ST_DISC_BROKEN; OnDisconnect])
  /\ nin (logged_out c w code) = nin w /\ st (logged_out c w code) = ST_DISC_BROKEN
  /\ wr (logged_out c w code) = false /\ j_in (jr (logged_out c w code)) = j_in (jr w)
  /\ get T58 (mtags (logout_msg c w code)) = Some code /\ code <> [].
Proof. exact integrity_logout. Qed.
Print Assumptions C11_integrity_logout.

(* a CompID field is missing (counterparty not identifiable): dropped without any frame *)
Theorem C11_integrity_silent : forall c m now w,
  validate_integrity c m w = VTrue -> ~ dead w ->
  process_message c m now w = mkR (inl tt) (dropped ST_DISC_BROKEN w) [State ST_DISC_BROKEN; OnDisconnect].
Proof. exact integrity_silent. Qed.
Print Assumptions C11_integrity_silent.

(* a disconnected connection: _process_message emits nothing and changes nothing *)
Theorem C11_dead_is_silent : forall c m now w,
  dead w -> rw (process_message c m now w) = w /\ re (process_message c m now w) = [].
Proof. exact process_message_dead. Qed.
Print Assumptions C11_dead_is_silent.

(* every operation (inbound message, send, TestRequest probe, disconnect call): at most one on_disconnect,
   only from a live connection, which is dead afterwards; a dead connection stays dead ... *)
Theorem C11_disconnect_step : forall c h w, Forall disc_ok (run c w h).
Proof. exact run_disc_ok. Qed.
Print Assumptions C11_disconnect_step.

(* ... hence on_disconnect is reported at most once per connection epoch, never by a dead connection *)
Theorem C11_disconnect_once : forall c h w,
  (dead w -> discs (trace (run c w h)) = []) /\ (length (discs (trace (run c w h))) <= 1)%nat.
Proof. exact run_discs_once. Qed.
Print Assumptions C11_disconnect_once.

(* the library only ever sets ten of the nineteen ConnectionState values: the others are unreachable *)
Theorem C11_reachable_states : forall c h w,
  okstate w -> Forall op_ok h -> Forall (fun s => okstate (s_before s) /\ okstate (s_after s)) (run c w h).
Proof. exact run_okstate. Qed.
Print Assumptions C11_reachable_states.

(* since the repair R3c RESENDREQ_HANDLING is transient: no operation of any history ends in it (a ResendRequest
   that cannot be served - unparsable, beyond the last sent number, a journaled row carrying tag 43 - leaves the
   connection ACTIVE, not stuck) *)
Theorem C11_no_stuck_handling : forall c h w,
  st w <> ST_HANDLING -> Forall (fun s => st (s_after s) <> ST_HANDLING) (run c w h).
Proof. exact run_no_stuck_handling. Qed.
Print Assumptions C11_no_stuck_handling.

Example C11_unserved_resend_not_stuck :
  st (final cfg0 w_acceptor [i_logon 1; OIn (inbound (S "2") 2 [(T7, S "9"); (T16, S "0")]) 0]) = ST_ACTIVE.
Proof. exact unserved_resend_not_stuck. Qed.
Print Assumptions C11_unserved_resend_not_stuck.

(* regression for the amended repair R3b: the peer's Logout is processed (on_logout, one on_disconnect, dead)
   even when journaling it raises: duplicate inbound key after SequenceReset(34=2,36=2); MsgSeqNum "2"+NEL *)
Example C11_logout_always_processed :
  (let h := [i_logon 1; i_reset 2 2; i_logout 2] in
   dead (final cfg0 w_acceptor h) /\ logouts_seen (trace (run cfg0 w_acceptor h)) = 1%nat
   /\ length (discs (trace (run cfg0 w_acceptor h))) = 1%nat)
  /\ (let h := [i_logon 1; i_logout_text [50%N; 133%N]] in
      dead (final cfg0 w_acceptor h) /\ logouts_seen (trace (run cfg0 w_acceptor h)) = 1%nat
      /\ length (discs (trace (run cfg0 w_acceptor h))) = 1%nat).
Proof. exact logout_always_processed. Qed.
Print Assumptions C11_logout_always_processed.

(* the R8c gate spelled out: an acceptor between the peer's Logon and its own may send Logon / Logout only *)
Theorem C11_acceptor_send_gate : forall c m w,
  st w = ST_LOGON_RECV -> role w <> ROLE_INITIATOR -> mkind m <> KLogon -> mkind m <> KLogout ->
  send_msg c m w = mkR (inr XConn) w [].
Proof. exact acceptor_send_gate. Qed.
Print Assumptions C11_acceptor_send_gate.

(* LOGON_INITIAL_RECV is only ever set together with the ACCEPTOR role and the role changes only with the state:
   the invariant "LOGON_INITIAL_RECV -> role ACCEPTOR" holds before and after every operation of every history *)
Theorem C11_logon_recv_is_acceptor : forall c h w,
  recv_acc w -> Forall (fun s => recv_acc (s_before s) /\ recv_acc (s_after s)) (run c w h).
Proof. exact run_recv_is_acceptor. Qed.
Print Assumptions C11_logon_recv_is_acceptor.

(* ... so on every connection the library itself brought into LOGON_INITIAL_RECV the R8c gate applies *)
Theorem C11_logon_recv_send_gate : forall c m w,
  recv_acc w -> st w = ST_LOGON_RECV -> mkind m <> KLogon -> mkind m <> KLogout ->
  send_msg c m w = mkR (inr XConn) w [].
Proof. exact logon_recv_send_gate. Qed.
Print Assumptions C11_logon_recv_send_gate.

(* former D15 witness, repaired: initiator, Logon sent, no reply yet, an application message arrives:
   dropped without Logout, nothing delivered, next_num_in unchanged *)
Example C11_initiator_app_before_logon_dropped :
  let t := trace (run cfg0 w_initiator [o_logon; i_app 1]) in
  let w := final cfg0 w_initiator [o_logon; i_app 1] in
  apps t = [] /\ logons t = [] /\ length (discs t) = 1%nat /\ map mtype (wires t) = [MT_LOGON]
  /\ st w = ST_DISC_BROKEN /\ nin w = 1.
Proof. exact initiator_app_before_logon_dropped. Qed.
Print Assumptions C11_initiator_app_before_logon_dropped.

(* former D15 witness, repaired: a ResendRequest instead: not served, never ACTIVE *)
Example C11_initiator_resend_before_logon_dropped :
  let t := trace (run cfg0 w_initiator [o_logon; i_resend 1 1 0]) in
  let w := final cfg0 w_initiator [o_logon; i_resend 1 1 0] in
  logons t = [] /\ map mtype (wires t) = [MT_LOGON] /\ st w = ST_DISC_BROKEN /\ nin w = 1.
Proof. exact initiator_resend_before_logon_dropped. Qed.
Print Assumptions C11_initiator_resend_before_logon_dropped.

(* former D25 witness, repaired: acceptor, Logon without EncryptMethod: no reply, no on_logon, LOGON_INITIAL_RECV;
   an application send is refused without effect; the next application message drops the connection *)
Example C11_acceptor_stuck_logon_dropped :
  let w1 := final cfg0 w_acceptor [i_logon_no98 1] in
  let t := trace (run cfg0 w_acceptor [i_logon_no98 1; i_app 1]) in
  st w1 = ST_LOGON_RECV
  /\ step cfg0 (OSend (mkMsg (S "D") [(S "11", S "X")])) w1 = mkR (inr XConn) w1 []
  /\ apps t = [] /\ logons t = [] /\ wires t = [] /\ length (discs t) = 1%nat
  /\ st (final cfg0 w_acceptor [i_logon_no98 1; i_app 1]) = ST_DISC_BROKEN.
Proof. exact acceptor_stuck_logon_dropped. Qed.
Print Assumptions C11_acceptor_stuck_logon_dropped.

(* D27 is repaired in the code: a non-numeric MsgSeqNum (BeginString and CompIDs correct) is an integrity failure
   with a reason, so C11_integrity_logout applies to it: one Logout(58 = reason), dropped, nothing delivered,
   next_num_in unchanged *)
Theorem C11_garbled_seqnum_rejected : forall c m w v,
  get T8 (mtags m) = Some (c_begin c) -> get T49 (mtags m) = Some (c_target c) ->
  get T56 (mtags m) = Some (c_sender c) -> get T34 (mtags m) = Some v -> py_int v = None ->
  validate_integrity c m w = VStr R_GARBLED.
Proof. exact garbled_seqnum_rejected. Qed.
Print Assumptions C11_garbled_seqnum_rejected.

(* the former D27 witness, computed *)
Example C11_garbled_seqnum_logout :
  let w := final cfg0 w_acceptor [i_logon 1] in
  let r := process_message cfg0 m_garbled 0 w in
  st w = ST_ACTIVE /\ rv r = inl tt /\ st (rw r) = ST_DISC_BROKEN /\ nin (rw r) = nin w
  /\ apps (re r) = [] /\ length (discs (re r)) = 1%nat
  /\ map (fun wm => (mtype wm, get T58 (mtags wm))) (wires (re r)) = [(MT_LOGOUT, Some R_GARBLED)].
Proof. exact garbled_seqnum_logout. Qed.
Print Assumptions C11_garbled_seqnum_logout.

Example C11_nonvacuous :
  prelogon w_acceptor
  /\ length (apps (trace (run cfg0 w_acceptor h_session))) = 2%nat
  /\ length (discs (trace (run cfg0 w_acceptor h_session))) = 1%nat
  /\ okstate w_acceptor.
Proof. exact session_in_scope. Qed.
Print Assumptions C11_nonvacuous.
