(* Generic line driver for an extracted model: every byte of the input line becomes a Coq N,
   Model.entry (parser, model step, printer: all extracted Coq) maps it to output bytes. *)
open Model
let rec pos_of_int n =
  if n = 1 then XH else if n land 1 = 0 then XO (pos_of_int (n lsr 1)) else XI (pos_of_int (n lsr 1))
let n_of_int n = if n = 0 then N0 else Npos (pos_of_int n)
let rec int_of_pos = function XH -> 1 | XO p -> 2 * int_of_pos p | XI p -> 2 * int_of_pos p + 1
let int_of_n = function N0 -> 0 | Npos p -> int_of_pos p
let () =
  let b = Buffer.create 4096 in
  try
    while true do
      let line = input_line stdin in
      let l = List.init (String.length line) (fun i -> n_of_int (Char.code line.[i])) in
      let out = Model.entry l in
      Buffer.clear b;
      List.iter (fun c -> Buffer.add_char b (Char.chr (int_of_n c land 255))) out;
      print_string (Buffer.contents b); print_char '\n'; flush stdout
    done
  with End_of_file -> ()
