(* Proofs about the two-endpoint model Fix/Net.v (C07). *)
From Coq Require Import ZArith NArith List Bool Lia.
From AF Require Import Base.Sx Py.Str Fix.Session Fix.Net.
From AFGen Require Import GenEnums GenGroups.
Import ListNotations.
Open Scope Z_scope.

Definition sched_double_break : list action :=
  [AReconnect; ADeliver SB; ADeliver SA; ASend SA; ABreak;
   AReconnect; ADeliver SB; ADeliver SA; ADeliver SA; ABreak].

Lemma double_break_refuted :
  let n := settle 80 (run net0 sched_double_break) in
  sa n = [payload 1] /\ gb n = [] /\ quiescent n = true
  /\ st (wa n) = ST_HANDLING /\ st (wb n) = ST_AWAITING /\ nout (wa n) = 2 /\ nin (wb n) = 2.
Proof. vm_compute. repeat split. Qed.
