"""C04 - inbound application messages are delivered in order, once, never past a gap.

Theorems (Props/C04.v) are about coq/theories/Fix/Session.v; this harness ties that model to
asyncfix/connection.py by running real connection objects and the extracted model on the same
session-aware inbound histories (projection after every message: callbacks, written frames,
exception class, state, live and stored counters, journal keys) and runs an independent reference
monitor of the property on the implementation's observable behaviour."""
import itertools
import json
import random

from harness import session_common as sc

META = {
    "level": "proof",
    "tables": ["GenEnums"],
    "files": ["asyncfix/connection.py", "asyncfix/session.py", "asyncfix/journaler.py", "asyncfix/codec.py"],
    "rule": "session-aware inbound histories: message class (app, heartbeat, test request, resend request, gap fill, reset, logon, "
            "logout) x number (below / at / +1 / far above the expected one, beyond int64) x PossDupFlag x missing or garbled fields; "
            "exhaustive to length 2 over the full alphabet and length 3 over the core alphabet from ACTIVE, RESENDREQ_AWAITING, "
            "RESENDREQ_HANDLING and RECV_SEQNUM_TOO_HIGH in both roles over a journal with sent messages, random to length 40. "
            "A case is one history; non-trivial when something was delivered and a gap was detected or a SequenceReset processed; "
            "distinct by start state + concrete frames",
    "trusted_base": [
        "message-level abstraction: the codec is outside the model (frames are decoded by the real Codec before the model sees them; "
        "written frames are decoded by the real Codec before comparison); flat messages only (no repeating groups, no repeated tags)",
        "application hooks (on_message, on_logon, on_logout, on_disconnect, on_state_change, should_replay) are modelled as "
        "non-raising, non-sending functions that only record an event",
        "atomic semantics: no task interleaving inside a handler (C14 covers interleavings); asyncio.CancelledError not modelled",
        "abstract journal (keyed rows + stored counters, DuplicateSeqNoError on an existing key, set_seq_num deletes rows >= the new "
        "numbers); the exception class of an INSERT with a number outside int64 is OverflowError or a stale IntegrityError "
        "(CPython sqlite3 statement cache) and the two are identified",
        "harness/session_common.py (implementation driver over fake stream writer, frame builder, generators) and the oracle below",
    ],
    "assumptions": ["CompIDs, BeginString and timestamps are fixed ASCII strings", "Logout Text(58) compared as present/absent"],
}

MOD = "harness.c04"
APPT = {"D", "8"}

# ------------------------------------------------------------------------------------------
# alphabets
# ------------------------------------------------------------------------------------------

CORE = (
    [{"cls": "app", "rel": r} for r in ("below", "at", "plus1", "far")]
    + [{"cls": "hb", "rel": "at", "id": "none"}, {"cls": "hb", "rel": "plus1", "id": "none"}]
    + [{"cls": "tr", "rel": "at"}, {"cls": "tr", "rel": "below"}]
    + [{"cls": "rr", "rel": "at", "b": "mid", "e": "inf"}, {"cls": "rr", "rel": "plus1", "b": "first", "e": "same"}]
    + [{"cls": "gf", "rel": "at", "new": "fwd3"}, {"cls": "gf", "rel": "plus1", "new": "fwd"},
       {"cls": "gf", "rel": "below", "new": "cur"}, {"cls": "gf", "rel": "at", "new": "back"}]
    + [{"cls": "rs", "rel": "at", "new": "fwd3"}, {"cls": "rs", "rel": "far", "new": "back2"}]
    + [{"cls": "logon", "rel": "at"}, {"cls": "logon", "rel": "plus1"}]
    + [{"cls": "logout", "rel": "at"}]
)

FULL = CORE + (
    [{"cls": "app", "rel": r, "pd": True} for r in ("below", "at", "plus1")]
    + [{"cls": "app", "rel": "huge"}, {"cls": "app", "rel": -2}]
    + [{"cls": "hb", "rel": "at", "id": "match"}, {"cls": "hb", "rel": "at", "id": "wrong"}, {"cls": "hb", "rel": "below", "id": "none"}]
    + [{"cls": "tr", "rel": "plus1"}, {"cls": "tr", "rel": "at", "id": "none"}]
    + [{"cls": "rr", "rel": "at", "b": "first", "e": "inf"}, {"cls": "rr", "rel": "at", "b": "last", "e": "next"},
       {"cls": "rr", "rel": "at", "b": "beyond", "e": "inf"}, {"cls": "rr", "rel": "at", "b": "zero", "e": "inf"},
       {"cls": "rr", "rel": "below", "b": "first", "e": "inf"}, {"cls": "rr", "rel": "at", "b": "garbled", "e": "inf"}]
    + [{"cls": "gf", "rel": "at", "new": "fwd", "pd": True}, {"cls": "gf", "rel": "far", "new": "fwd3"},
       {"cls": "gf", "rel": "at", "new": "missing"}, {"cls": "gf", "rel": "at", "new": "garbled"},
       {"cls": "gf", "rel": "at", "new": "zero"}, {"cls": "gf", "rel": "at", "new": "cur"}, {"cls": "gf", "rel": "below", "new": "fwd3"}]
    + [{"cls": "rs", "rel": "at", "new": "back"}, {"cls": "rs", "rel": "plus1", "new": "fwd"}, {"cls": "rs", "rel": "at", "new": "one"}]
    + [{"cls": "logon", "rel": "below"}, {"cls": "logon", "rel": "at", "d98": "missing"}, {"cls": "logout", "rel": "plus1"},
       {"cls": "logout", "rel": "below"}]
    + [{"cls": "app", "rel": "at", "defect": d} for d in ("bad49", "no34")]
    + [{"cls": "app", "rel": "at", "defect": "g34", "g34": " 5"}]
)

PRELUDE = ([("set", {"st": 17}), ("op", [1, ["A", [["98", "0"], ["108", "30"]]]])]
           + [("op", [1, ["D", [["11", "P%d" % j], ["55", "SYM"]]]]) for j in range(4)]
           + [("op", [1, ["0", []]]), ("op", [1, ["D", [["11", "P9"], ["55", "SYM"]]]])])


def start_list():
    sl = []
    for role in (2, 1):
        for st, maxres in ((17, 0), (12, 7), (10, 0), (11, 0)):
            sl.append({"role": role, "st": st, "nin": 5, "maxres": maxres, "treq": None, "wasact": True, "prelude": PRELUDE})
    return sl


def rand_sym(rng):
    s = {"cls": rng.choice(["app", "app", "app", "hb", "tr", "rr", "gf", "rs", "logon", "logout"]),
         "rel": rng.choice(["below", "at", "at", "at", "at", "plus1", "far", "huge"] if rng.random() < 0.25 else ["at", "at", "at", "plus1"]),
         "pd": rng.random() < 0.15}
    if rng.random() < 0.05:
        s["rel"] = rng.choice([-3, -2, 2, 3, 9])
    c = s["cls"]
    if c == "hb":
        s["id"] = rng.choice(["none", "none", "match", "wrong", "garbled"])
    elif c == "tr":
        s["id"] = rng.choice(["x", "x", "none"])
    elif c == "rr":
        s["b"] = rng.choice(["first", "mid", "last", "next", "beyond", "zero", "neg", "huge", "garbled", "missing", "first", "mid"])
        s["e"] = rng.choice(["inf", "inf", "same", "next", "beyond", "garbled", "missing", "huge"])
    elif c in ("gf", "rs"):
        s["new"] = rng.choice(["fwd", "fwd", "fwd3", "fwd3", "cur", "back", "back2", "zero", "one", "garbled", "missing", "huge"])
    elif c == "logon":
        s["d98"] = rng.choice([None, None, None, "missing"])
        s["d108"] = rng.choice([None, None, None, "missing"])
    elif c == "logout":
        s["text"] = rng.random() < 0.5
        if rng.random() < 0.7:
            s["cls"] = "app"       # keep Logout rare: it ends the history
    if rng.random() < 0.04:
        s["defect"] = rng.choice(["no49", "no56", "bad49", "bad56", "swap", "no34", "g34", "no35", "bad8"])
        if s["defect"] == "g34":
            s["g34"] = rng.choice(["abc", " 5", "5_0", "+5", "", "5\x85", "1e3"])
    return s


def make_jobs(spec):
    kind = spec[0]
    sl = start_list()
    if kind == "exh":
        _, alpha_name, length, sidx, lo, hi = spec
        alpha = CORE if alpha_name == "core" else FULL
        jobs = []
        combos = itertools.islice(itertools.product(sidx, *[range(len(alpha))] * length), lo, hi)
        for c in combos:
            jobs.append((sl[c[0]], [("in", alpha[i]) for i in c[1:]]))
        return jobs
    if kind == "rand":
        _, seed, n, maxlen = spec
        rng = random.Random(seed)
        jobs = []
        for _ in range(n):
            st = dict(rng.choice(sl))
            st["nin"] = rng.choice([1, 2, 5, 5, 30])
            if st["st"] == 12:
                st["maxres"] = st["nin"] + rng.choice([0, 1, 2, 4])
            if rng.random() < 0.3:
                st["treq"] = sc.NOW0 - 5
            if rng.random() < 0.25:
                # the application's on_message fails for some (or all) delivered numbers: invisible to the session
                st["raising"] = ["all"] if rng.random() < 0.4 else sorted(rng.sample(range(st["nin"], st["nin"] + 6), 3))
            ln = rng.randrange(1, maxlen + 1)
            items = [("in", rand_sym(rng)) for _ in range(ln)]
            decl = [rng.randrange(1, 8)] if rng.random() < 0.3 else []
            jobs.append((st, items, decl))
        return jobs
    if kind == "cases":
        return [(dict(c["start"], prelude=[tuple(x) for x in c.get("prelude", [])]),
                 [("op", op, bytes.fromhex(fr) if fr else None) for op, fr in zip(c["ops"], c["frames"])],
                 c.get("declined", [])) for c in spec[1]]
    if kind == "cases_ext":
        # a disagreeing history often shows the damage only in what FOLLOWS it (a counter that did not advance, a journal
        # row under the wrong number): every case is continued with in-sequence / next / replayed traffic relative to the
        # implementation's own expected number
        app = {"cls": "app", "rel": "at", "pd": False}
        conts = [[app, app], [app, dict(app, rel="plus1"), dict(app, rel="below", pd=True), app],
                 [dict(app, rel="plus1"), dict(app, rel="below", pd=True), app], [{"cls": "hb", "rel": "at", "id": "none"}, app, app]]
        jobs = []
        for c in spec[1]:
            base = [("op", op, bytes.fromhex(fr) if fr else None) for op, fr in zip(c["ops"], c["frames"])]
            for cont in conts:
                jobs.append((dict(c["start"], prelude=[tuple(x) for x in c.get("prelude", [])]),
                             base + [("in", dict(x)) for x in cont], c.get("declined", [])))
        return jobs
    raise ValueError(spec)


# ------------------------------------------------------------------------------------------
# property oracle: an independent monitor of C04 written from the property text
# ------------------------------------------------------------------------------------------

LOGGED_ON = {10, 11, 12, 17}


def _int(v):
    try:
        return int(v)
    except (TypeError, ValueError):
        return None


def _tag(msg, t):
    for k, v in msg[1]:
        if k == t:
            return v
    return None


def oracle(h):
    """Returns [(step index, what, class)] - at most a few per history.  Observes only: the inbound frames,
    the callbacks, the frames written, the expected inbound number and (to know the scope) the connection state."""
    fails = []
    w0 = h.worlds[0]
    exp = w0["nin"]                      # the monitor's expected number
    awaiting = w0["st"] == 12            # a ResendRequest is outstanding ...
    mark = w0["maxres"] if awaiting else None   # ... for everything up to this number
    last_delivered = None
    tainted = None                       # a known-class step earlier in the history explains later duplicates
    tainted24 = False                    # a Logon was received while a resend was awaited (initiator)
    tainted11 = False                    # a class-D11 SequenceReset moved the expected number: the watermark is off
    for i, (op, step) in enumerate(zip(h.ops, h.steps)):
        before, after = h.worlds[i], h.worlds[i + 1]
        if op[0] != 0:
            continue
        msg = op[1]
        mtype = msg[0]
        seq = _int(_tag(msg, "34"))
        apps = [sc.msg_uncodes(e[1]) for e in step[1] if e[0] == 1]
        rreqs = [sc.msg_uncodes(e[1]) for e in step[1] if e[0] == 0 and sc.uncodes(e[1][0]) == "2"]
        in_scope = before["st"] in LOGGED_ON
        if before["st"] <= 3:
            if apps or rreqs:
                fails.append((i, "disconnected connection delivered / requested", None))
            continue
        if not in_scope:
            exp = after["nin"]
            continue
        if exp != before["nin"]:
            exp = before["nin"]          # resynchronise after a reported step
        newseq = _int(_tag(msg, "36")) if mtype == "4" else None
        if any(x is not None and not (-sc.I64 - 1 <= x <= sc.I64 - 1) for x in (seq, newseq, exp)):
            break                        # numbers beyond SQLite's INTEGER range: outside the property's domain
        # ---- class predicates (decided on this concrete step) ----
        cls_d11 = mtype == "4" and seq is not None and (seq != exp or (newseq is not None and newseq < exp))
        cls_d24 = before["st"] == 12 and mtype == "A" and before["role"] == 1
        cls_d26 = mtype == "A" and before["role"] == 2
        if cls_d11:
            tainted = "D11-seqreset-any"     # the expected number may have moved backwards: later re-deliveries follow
            tainted11 = True
        if cls_d24:
            tainted24 = True
        # ---- deliveries ----
        for a in apps:
            aseq = _int(_tag(a, "34"))
            if aseq != exp:
                fails.append((i, "delivered MsgSeqNum %r while %r was expected" % (aseq, exp), None))
            elif last_delivered is not None and aseq <= last_delivered:
                fails.append((i, "MsgSeqNum %r delivered again (last delivered %r)" % (aseq, last_delivered), tainted))
            if aseq is not None:
                last_delivered = aseq if last_delivered is None else max(last_delivered, aseq)
        if len(apps) > 1:
            fails.append((i, "one inbound message delivered %d times" % len(apps), None))
        # ---- how the expected number moved ----
        new_exp = after["nin"]
        ok_moves = {exp}
        if seq == exp and mtype != "4":
            ok_moves.add(exp + 1)
        if mtype == "4" and seq == exp and newseq is not None and newseq >= exp:
            ok_moves.add(newseq)
        if new_exp not in ok_moves:
            fails.append((i, "expected number moved %r -> %r on %s(34=%r%s)" % (
                exp, new_exp, mtype, seq, "" if newseq is None else ",36=%r" % newseq), "D11-seqreset-any" if cls_d11 else None))
        # ---- ResendRequest discipline ----
        alive = after["st"] > 3
        gap = seq is not None and seq > exp
        if len(rreqs) > 1:
            fails.append((i, "%d ResendRequests for one message" % len(rreqs), None))
        for r in rreqs:
            if awaiting:
                fails.append((i, "ResendRequest written although one is outstanding (up to %r)" % mark,
                              "D24-logon-while-awaiting" if (cls_d24 or tainted24) else
                              ("D11-seqreset-any" if tainted11 else None)))
            elif not gap:
                fails.append((i, "ResendRequest without a gap (34=%r, expected %r)" % (seq, exp),
                              "D11-seqreset-any" if cls_d11 else None))
            if _tag(r, "7") != str(new_exp) or _tag(r, "16") != "0":
                fails.append((i, "ResendRequest(7=%r,16=%r) does not start at the expected number %r" % (
                    _tag(r, "7"), _tag(r, "16"), new_exp), "D11-seqreset-any" if cls_d11 else None))
        if gap and not awaiting and not rreqs and alive:
            fails.append((i, "message numbered %r above the expected %r triggered no ResendRequest" % (seq, exp),
                          "D11-seqreset-any" if (cls_d11 or tainted11) else
                          ("D26-acceptor-relogon-ignored" if cls_d26 else None)))
        if rreqs and not awaiting:
            awaiting, mark = True, seq
        exp = new_exp
        if awaiting and mark is not None and exp > mark:
            awaiting, mark = False, None
        if not alive:
            awaiting, mark = False, None
        if cls_d11 or cls_d24 or cls_d26:
            # a step of a known class: take the receiver's own view of the outstanding request from here on
            awaiting = after["st"] == 12
            mark = after["maxres"] if awaiting else None
        if len(fails) >= 3:
            break
    return fails


def nontrivial(h):
    delivered = any(e[0] == 1 for s in h.steps for e in s[1])
    gap = any(e[0] == 0 and e[1][0] == [50] for s in h.steps for e in s[1])
    reset = any(o[0] == 0 and o[1][0] == "4" for o in h.ops)
    return delivered and (gap or reset)


def distribution(h):
    keys = ["start_state_%d" % h.world0["st"], "role_%d" % h.world0["role"], "len_%d" % min(len(h.ops), 40)]
    for o in h.ops:
        if o[0] == 0:
            keys.append("in_type_" + (o[1][0] if o[1][0] in sc.SESSION_TYPES else "app"))
    for s in h.steps:
        if s[0] != 0:
            keys.append("exc_%s" % (s[0],))
        keys.append("state_after_%d" % s[2][0])
    return keys


# ------------------------------------------------------------------------------------------
# entry points
# ------------------------------------------------------------------------------------------

def _chunks(total, n):
    step = max(1, (total + n - 1) // n)
    return [(lo, min(total, lo + step)) for lo in range(0, total, step)]


def specs_for(ctx):
    """start_list(): 0-3 acceptor ACTIVE / AWAITING / HANDLING / TOO_HIGH, 4-7 the same for the initiator."""
    allst = list(range(len(start_list())))
    specs = []
    if ctx.tier == "thorough":
        s2, s3 = allst, allst
    else:
        s2, s3 = [0, 1, 2, 3, 4, 5], [0, 1, 4, 5]
    full2 = len(s2) * len(FULL) ** 2
    core3 = len(s3) * len(CORE) ** 3
    for lo, hi in _chunks(full2, 12):
        specs.append(("exh", "full", 2, s2, lo, hi))
    for lo, hi in _chunks(core3, 48 if ctx.tier == "thorough" else 16):
        specs.append(("exh", "core", 3, s3, lo, hi))
    if ctx.tier == "thorough":
        full3 = len(allst) * len(FULL) ** 3
        sample = random.Random(ctx.seed + 7)
        for _ in range(16):
            lo = sample.randrange(0, full3 - 4000)
            specs.append(("exh", "full", 3, allst, lo, lo + 4000))
    nrand = ctx.scale(1600, 30000)
    for k in range(16):
        specs.append(("rand", ctx.rng.randrange(1 << 30), nrand // 16, 40))
    return specs


def corpus():
    import glob
    import os
    out = []
    for f in sorted(glob.glob(os.path.join(os.path.dirname(__file__), "..", "corpus", "C04", "*.json"))):
        out.append(json.load(open(f)))
    return out


def run(ctx):
    specs = specs_for(ctx)
    cp = corpus()
    if cp:
        specs = [("cases", cp)] + specs
    tot = sc.run_specs(ctx, MOD, specs, timeout=ctx.scale(400, 3000))
    ctx.extra["histories"] = tot["n"]
    ctx.extra["messages"] = tot["steps"]
    ctx.extra["cpu_impl_s"] = round(tot["impl_s"], 1)
    ctx.extra["cpu_model_s"] = round(tot["model_s"], 1)


def search(ctx, cases):
    """A proof or the correspondence broke: feed the disagreeing cases, then a time-boxed generator run,
    to the oracle alone."""
    saved, ctx.model = ctx.model, None
    try:
        specs = []
        if cases:
            specs.append(("cases", [c for c in cases if c and "ops" in c]))
            specs.append(("cases_ext", [c for c in cases if c and "ops" in c][:40]))
        rng = random.Random(ctx.seed + 1)
        specs += [("rand", rng.randrange(1 << 30), ctx.scale(300, 3000), 40) for _ in range(16)]
        sc.run_specs(ctx, MOD, specs, timeout=ctx.scale(120, 600))
    finally:
        ctx.model = saved


def replay(path):
    rec = json.load(open(path))
    case = rec.get("input")
    if not case or "ops" not in case:
        print("replay: no concrete input; broken:", rec.get("broken"))
        return 1
    h = sc.replay_case(case)
    fails = oracle(h)
    for i, (op, st) in enumerate(zip(h.ops, h.steps)):
        ev = [[e[0], sc.uncodes(e[1][0]), [tv for tv in sc.msg_uncodes(e[1])[1] if tv[0] in ("34", "7", "16", "36", "43")]] if e[0] in (0, 1) else e for e in st[1]]
        print("step %d %s -> exc=%s events=%s state=%s nin=%s nout=%s" % (
            i, [op[0], op[1][0], [tv for tv in op[1][1] if tv[0] in ("34", "36", "7", "16", "43", "123")]] if op[0] == 0 else op,
            st[0], ev, st[2][0], st[2][2], st[2][3]))
    for i, what, cls in fails:
        print("property oracle: step %d: %s [class %s]" % (i, what, cls))
    return 1 if fails else 0
