(* Extraction of the resend model (C06).  ExtrOcamlBasic only; Z/N/positive/nat stay Coq datatypes.
   The path is relative to coq/, where make and coqc are run. *)
From Coq Require Extraction.
From Coq Require Import ExtrOcamlBasic.
From AF Require Import Fix.ResendRun.
Extraction Language OCaml.
Extraction "../ocaml/build/C06/model.ml" entry.
