(* C05 - outbound messages are numbered consecutively and journaled under that number.
   Theorems only (proofs in AF.Lemmas.SessionC05L) about send_msg and everything that sends through it
   in the model Fix/Session.v (asyncfix/connection.py:send_msg, Codec.encode's number selection,
   Journaler.persist_msg / set_seq_num as the abstract journal of the model).

   Out_inv w      stored outbound counter + 1 = next_num_out, every journaled outbound number is below
                  next_num_out, a connection that is up has its writer.
   OutStep w r    what a computation started in w did: the frames it wrote carry next_num_out, +1, +2, ...
                  (their MsgSeqNum field says so), exactly these (number, frame) pairs were appended to the
                  journal, next_num_out advanced by their count, Out_inv holds again.
   `new` message  raw_seq m = false: not a SequenceReset and without PossDupFlag=Y (the codec allocates).

   Known-finding classes excluded by the `_partial` theorem:
     D12_step  an inbound ResendRequest (servicing rewinds / truncates / rewrites the outbound journal)
     D20_step  an application send of a SequenceReset / PossDupFlag=Y message (numbered by the message itself)
   Numbers are assumed inside SQLite's INTEGER range (in_i64 / in_range hypotheses). *)
From Coq Require Import ZArith NArith List Bool.
From AF Require Import Base.Sx Py.Str Fix.Session Lemmas.SessionL Lemmas.SessionC04L Lemmas.SessionC11L Lemmas.SessionC05L.
From Coq Require String.
Import String.StringSyntax.
Import ListNotations.
Open Scope Z_scope.

Example C05_enums_tied : enums_ok = true.
Proof. exact enums_tied. Qed.
Print Assumptions C05_enums_tied.

(* send_msg of a new message preserves the invariant, whether accepted or refused *)
Theorem C05_send_preserves : forall c m,
  raw_seq m = false -> forall w, Out_inv w -> in_range w (send_msg c m w) -> OutStep w (send_msg c m w).
Proof. exact send_msg_new_outok. Qed.
Print Assumptions C05_send_preserves.

(* ... and there are exactly two outcomes: refused with FIXConnectionError and nothing changed; or written
   once with MsgSeqNum = next_num_out, that number consumed, the frame readable from the journal under that
   number, stored counter = that number *)
Theorem C05_send_new_cases : forall c m w,
  raw_seq m = false -> Out_inv w -> in_i64 (nout w) = true ->
  send_msg c m w = mkR (inr XConn) w []
  \/ exists w' pre,
       let wm := mkMsg (mtype m) (wire_tags c (nout w) m) in
       send_msg c m w = mkR (inl tt) w' (pre ++ [Wire wm]) /\ wires pre = []
       /\ get T34 (mtags wm) = Some (z_to_dec (nout w))
       /\ nout w' = nout w + 1 /\ j_sout (jr w') = nout w
       /\ lookup (nout w) (j_out (jr w')) = Some wm
       /\ j_out (jr w') = j_out (jr w) ++ [(nout w, wm)] /\ Out_inv w'.
Proof. exact send_msg_new_cases. Qed.
Print Assumptions C05_send_new_cases.

(* a send refused with FIXConnectionError (any message, any state): no number, no journal row, no frame *)
Theorem C05_refused_is_free : forall c m w,
  rv (send_msg c m w) = inr XConn -> send_msg c m w = mkR (inr XConn) w [].
Proof. exact send_msg_conn_free. Qed.
Print Assumptions C05_refused_is_free.

(* every history of inbound messages, sends, probes and disconnects outside D12 / D20: each step is an
   OutStep (consecutive numbers from next_num_out, journaled under them) and the invariant holds at the end *)
Theorem C05_history_partial : forall c h w,
  Out_inv w -> I64MIN <= nout w -> nout (final c w h) <= I64MAX + 1 ->
  Forall (fun s => ~ D12_step s /\ ~ D20_step s) (run c w h) ->
  Forall (fun s => OutStep (s_before s) (s_res s)) (run c w h) /\ Out_inv (final c w h).
Proof. exact run_out_inv. Qed.
Print Assumptions C05_history_partial.

(* D12: a second ResendRequest over an already replayed range aborts and leaves next_num_out rewound:
   the next new message reuses number 2 *)
Theorem C05_resend_abort_refuted :
  exists c w h,
    Out_inv w /\ in_i64 (nout (final c w h)) = true
    /\ (exists s, In s (run c w h) /\ nout (s_after s) < nout (s_before s))
    /\ new_numbers (trace (run c w h)) = [S "1"; S "2"; S "3"; S "2"].
Proof. exact resend_abort_refuted. Qed.
Print Assumptions C05_resend_abort_refuted.

(* D20: an application-sent SequenceReset(34 = next_num_out) is journaled under that number without consuming
   it; the next new message carries the same number and its journal write raises DuplicateSeqNoError after
   the frame was written *)
Theorem C05_app_seqreset_refuted :
  exists c w h,
    Out_inv w
    /\ map (fun wm => get T34 (mtags wm)) (wires (trace (run c w h))) = [Some (S "1"); Some (S "2"); Some (S "2")]
    /\ (exists s, In s (run c w h) /\ rv (s_res s) = inr XDupSeq /\ wires (s_events s) <> [])
    /\ (exists s, In s (run c w h) /\ Out_inv (s_before s) /\ ~ Out_inv (s_after s)).
Proof. exact app_seqreset_refuted. Qed.
Print Assumptions C05_app_seqreset_refuted.

Example C05_nonvacuous :
  Out_inv w_acceptor /\ I64MIN <= nout w_acceptor /\ nout (final cfgS w_acceptor h_c05_good) <= I64MAX + 1
  /\ Forall (fun s => ~ D12_step s /\ ~ D20_step s) (run cfgS w_acceptor h_c05_good)
  /\ new_numbers (trace (run cfgS w_acceptor h_c05_good)) = [S "1"; S "2"; S "3"; S "4"; S "5"; S "6"]
  /\ j_sout (jr (final cfgS w_acceptor h_c05_good)) = 6.
Proof. exact c05_good_in_scope. Qed.
Print Assumptions C05_nonvacuous.
