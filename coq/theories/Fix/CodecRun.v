(* Sx front end of the codec model (C01, C02, C03, C10).  The group table and BeginString are
   the ones regenerated from /repo (AFGen.GenGroups). *)
From Coq Require Import ZArith NArith List Bool.
From AF Require Import Base.Sx Py.Str Fix.Codec Fix.ReaderHooks.
From AFGen Require Import GenGroups.
Import ListNotations.
Open Scope Z_scope.

Fixpoint sx_value (v : value) : sx :=
  match v with
  | VStr s => SL [SI 0; sx_of_str s]
  | VErr => SL [SI 2]
  | VGrp items =>
      SL [SI 1; SL (map (fun it => SL (map (fun p => SL [sx_of_str (fst p); sx_value (snd p)]) it)) items)]
  end.
Definition sx_container (c : container) : sx := SL (map (fun p => SL [sx_of_str (fst p); sx_value (snd p)]) c).
Definition sx_message (m : message) : sx := SL [sx_of_str (msg_type m); sx_container (msg_tags m)].

Definition exc_code (e : exc) : Z :=
  match e with
  | EEncoding => 1 | ETagNotFound => 2 | ERepeatingTag => 3 | EFIXMessage => 4
  | EValue => 5 | EAttribute => 6 | EAssertion => 7 | EDuplicatedTag => 8
  end.

(* parsing a message: fuel-free structural recursion over the sx tree *)
Fixpoint get_value (s : sx) : option value :=
  match s with
  | SL [SI 0; t] => option_map VStr (get_str t)
  | SL [SI 2] => Some VErr
  | SL [SI 1; SL items] =>
      option_map VGrp
        (opt_all (map (fun it =>
           match it with
           | SL fs => opt_all (map (fun f =>
                         match f with
                         | SL [t; v] => match get_str t, get_value v with
                                        | Some t, Some v => Some (t, v) | _, _ => None end
                         | _ => None
                         end) fs)
           | _ => None
           end) items))
  | _ => None
  end.

Definition get_container (s : sx) : option container :=
  match s with
  | SL fs => opt_all (map (fun f =>
               match f with
               | SL [t; v] => match get_str t, get_value v with
                              | Some t, Some v => Some (t, v) | _, _ => None end
               | _ => None
               end) fs)
  | _ => None
  end.

Definition get_message (s : sx) : option message :=
  match s with
  | SL [t; c] => match get_str t, get_container c with
                 | Some t, Some c => Some (mkMsg t c) | _, _ => None end
  | _ => None
  end.

Definition sx_dres (r : result dres) : sx :=
  match r with
  | Exc e => SL [SI 1; SI (exc_code e)]
  | Ok (m, n, raw) => SL [SI 0; sx_of_opt sx_message m; SI n; sx_of_opt sx_of_str raw]
  end.

Definition run (req : sx) : sx :=
  match req with
  | SL [SI 1; m; sd; tg; SI nout; tm; rawseq] =>
      match get_message m, get_str sd, get_str tg, get_str tm, get_bool rawseq with
      | Some m, Some sd, Some tg, Some tm, Some rs =>
          match encode beginstring m (mkSession sd tg nout) tm rs with
          | Ok (bytes, sess') => SL [SI 0; sx_of_str bytes; SI (next_out sess')]
          | Exc e => SL [SI 1; SI (exc_code e)]
          end
      | _, _, _, _, _ => err_sx 1
      end
  | SL [SI 2; b; silent] =>
      match get_str b, get_bool silent with
      | Some b, Some sl => sx_dres (decode table beginstring b sl)
      | _, _ => err_sx 1
      end
  | SL [SI 3; chunks] =>
      match get_list get_str chunks with
      | Some cs =>
          let '(buf, out, sts) := reader_run table beginstring [] cs in
          SL [sx_of_str buf; SL (map (fun p => SL [sx_message (fst p); sx_of_str (snd p)]) out);
              SL (map sx_of_N sts)]
      | None => err_sx 1
      end
  | SL [SI 6; chunks; SL failing] =>
      (* the reader with a dispatcher that raises at the given (1-based) delivery numbers: Fix/ReaderHooks.v *)
      match get_list get_str chunks with
      | Some cs =>
          let nums := flat_map (fun x => match x with SI z => [Z.to_nat z] | _ => [] end) failing in
          let raises := fun i => existsb (Nat.eqb (S i)) nums in
          let '(buf, out, sts) := reader_run_h raises table beginstring O [] cs in
          SL [sx_of_str buf; SL (map (fun p => SL [sx_message (fst p); sx_of_str (snd p)]) out);
              SL (map sx_of_N sts)]
      | None => err_sx 1
      end
  | SL [SI 4; s] => match get_str s with Some s => sx_of_opt SI (py_int s) | None => err_sx 1 end
  | SL [SI 5; s] => match get_str s with Some s => sx_of_opt SI (py_int_bytes s) | None => err_sx 1 end
  | _ => err_sx 2
  end.

Definition entry (line : str) : str := run_line run line.
