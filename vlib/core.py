"""Shared machinery of the asyncfix verification checks (see DESIGN.md sections 2-4).

One run of a property check:
  regenerate coq/gen from /repo -> make (full .vo) -> re-check Props/<P>.v and read its
  Print Assumptions -> build the extracted OCaml runner -> property harness (correspondence
  of model vs implementation + property oracle on the implementation) -> verdict + evidence.
"""
from __future__ import annotations

import fcntl
import glob
import hashlib
import json
import os
import random
import re
import subprocess
import sys
import time

ROOT = os.path.dirname(os.path.dirname(os.path.abspath(__file__)))
REPO = os.environ.get("VERIF_REPO", "/repo")
COQ = os.path.join(ROOT, "coq")
PY = "/venv/bin/python"
GUARD = "ASYNCFIX_VERIF"
NPROC = 16

HYGIENE_RE = re.compile(
    r"\b(Admitted|admit|Axiom|Axioms|Parameter|Parameters|Conjecture|Hypothesis|Variable)\b"
    r"|Unset\s+Guard|bypass_check|type-in-type|impredicative-set|Admit\s+Obligations|native_compute"
)


def child_env():
    env = dict(os.environ)
    env["PYTHONPATH"] = REPO + os.pathsep + ROOT
    env["PYTHONHASHSEED"] = "0"
    env[GUARD] = "1"
    env["VERIF_REPO"] = REPO
    env["PYTHONDONTWRITEBYTECODE"] = "1"
    return env


def sh(cmd, timeout=600, cwd=ROOT, env=None, inp=None):
    """Run a shell command, return (rc, stdout+stderr)."""
    try:
        p = subprocess.run(
            cmd, shell=isinstance(cmd, str), cwd=cwd, env=env or child_env(), input=inp,
            stdout=subprocess.PIPE, stderr=subprocess.STDOUT, timeout=timeout, text=True,
        )
        return p.returncode, p.stdout
    except subprocess.TimeoutExpired as e:
        out = e.stdout.decode() if isinstance(e.stdout, bytes) else (e.stdout or "")
        return 124, out + "\n[timeout after %ss]" % timeout


class Lock:
    def __enter__(self):
        os.makedirs(COQ, exist_ok=True)
        self.f = open(os.path.join(COQ, ".lock"), "w")
        fcntl.flock(self.f, fcntl.LOCK_EX)
        return self

    def __exit__(self, *a):
        fcntl.flock(self.f, fcntl.LOCK_UN)
        self.f.close()


def sha_file(path):
    h = hashlib.sha256()
    with open(path, "rb") as f:
        h.update(f.read())
    return h.hexdigest()


def write_if_changed(path, text):
    try:
        with open(path) as f:
            if f.read() == text:
                return False
    except FileNotFoundError:
        pass
    os.makedirs(os.path.dirname(path), exist_ok=True)
    tmp = path + ".tmp"
    with open(tmp, "w") as f:
        f.write(text)
    os.replace(tmp, path)
    return True


# ----------------------------------------------------------------------------------------
# Build pipeline
# ----------------------------------------------------------------------------------------

def regenerate():
    """Run every translator in a child interpreter that imports asyncfix from REPO.

    Returns {gen_name: {"ok": bool, "error": str, "sources": {file: sha}}}.
    A translator that fails leaves its previous output in place and is reported."""
    rc, out = sh([PY, "-m", "translator.main"], timeout=300)
    status = {}
    for line in out.splitlines():
        if line.startswith("GEN "):
            try:
                rec = json.loads(line[4:])
                status[rec["name"]] = rec
            except Exception:
                pass
    if rc != 0 and not status:
        status["__all__"] = {"ok": False, "error": out[-2000:], "sources": {}}
    return status


def coqproject():
    files = []
    for d in ("theories", "gen", "extract"):
        files += sorted(glob.glob(os.path.join(COQ, d, "**", "*.v"), recursive=True))
    rel = [os.path.relpath(f, COQ) for f in files]
    text = "-R theories AF\n-R gen AFGen\n-R extract AFExtract\n" + "\n".join(rel) + "\n"
    changed = write_if_changed(os.path.join(COQ, "_CoqProject"), text)
    if changed or not os.path.exists(os.path.join(COQ, "Makefile")):
        sh("coq_makefile -f _CoqProject -o Makefile", cwd=COQ, timeout=120)
    return rel


def make(targets=None, timeout=3000):
    """Full .vo build (never -vos); -k so that one broken file does not hide the others."""
    coqproject()
    os.makedirs(os.path.join(ROOT, "ocaml", "build"), exist_ok=True)
    for f in glob.glob(os.path.join(COQ, "extract", "Extract*.v")):
        # the extraction files write to ../ocaml/build/<Cxx>/model.ml: the directory must exist
        os.makedirs(os.path.join(ROOT, "ocaml", "build", os.path.basename(f)[len("Extract"):-2]), exist_ok=True)
    tgt = " ".join(targets) if targets else ""
    cmd = "ulimit -s unlimited 2>/dev/null; make -k -j%d COQC='timeout 1500 coqc' %s" % (NPROC, tgt)
    return sh(cmd, cwd=COQ, timeout=timeout)


def targets_for(pid):
    """make targets of one property: its theorem file and its extraction file (deps follow)."""
    t = []
    for rel in ("theories/Props/%s.v" % pid, "extract/Extract%s.v" % pid):
        if os.path.exists(os.path.join(COQ, rel)):
            t.append(rel[:-2] + ".vo")
    return t


def dep_cone(pid):
    """Transitive .v dependencies (inside coq/) of the property's targets, from coq/.Makefile.d."""
    deps = {}
    mk = os.path.join(COQ, ".Makefile.d")
    if os.path.exists(mk):
        for line in open(mk):
            if ":" not in line:
                continue
            lhs, rhs = line.split(":", 1)
            outs = [x for x in lhs.split() if x.endswith(".vo")]
            ins = [x[:-3] + ".v" for x in rhs.split() if x.endswith(".vo") and not x.startswith("/")]
            for o in outs:
                deps.setdefault(o[:-3] + ".v", set()).update(ins)
    todo = [t[:-3] + ".v" for t in targets_for(pid)]
    seen = set()
    while todo:
        f = todo.pop()
        if f in seen:
            continue
        seen.add(f)
        todo.extend(deps.get(f, ()))
    return sorted(seen)


def vo_fresh(rel_v):
    """True when rel_v (relative to coq/) has an up-to-date .vo."""
    v = os.path.join(COQ, rel_v)
    vo = v[:-2] + ".vo"
    return os.path.exists(vo) and os.path.getmtime(vo) >= os.path.getmtime(v)


def hygiene(pid=None):
    """Forbidden vocabulary (comments stripped): in the whole development, or, for one property,
    in every file its theorems and extracted model depend on."""
    hits = []
    files = glob.glob(os.path.join(COQ, "**", "*.v"), recursive=True)
    if pid:
        cone = dep_cone(pid)
        if cone:
            files = [os.path.join(COQ, f) for f in cone if os.path.exists(os.path.join(COQ, f))]
    for f in files:
        txt = open(f).read()
        txt = strip_comments(txt)
        for i, line in enumerate(txt.splitlines(), 1):
            m = HYGIENE_RE.search(line)
            if m:
                # Section-local Variable/Hypothesis are allowed; flag them only outside sections.
                if m.group(1) in ("Hypothesis", "Variable") and in_section(txt, i):
                    continue
                hits.append("%s:%d: %s" % (os.path.relpath(f, COQ), i, line.strip()[:120]))
    return hits


def strip_comments(txt):
    out, depth, i = [], 0, 0
    while i < len(txt):
        if txt.startswith("(*", i):
            depth += 1
            i += 2
        elif txt.startswith("*)", i) and depth:
            depth -= 1
            i += 2
        else:
            if depth == 0:
                out.append(txt[i])
            elif txt[i] == "\n":
                out.append("\n")
            i += 1
    return "".join(out)


def in_section(txt, lineno):
    depth = 0
    for i, line in enumerate(txt.splitlines(), 1):
        if i >= lineno:
            break
        if re.match(r"\s*Section\s+\w+", line):
            depth += 1
        elif re.match(r"\s*End\s+\w+", line) and depth:
            depth -= 1
    return depth > 0


def check_props(pid):
    """Re-run coqc on Props/<pid>.v and read what it proves.

    obligations = Theorem/Lemma/Example/Corollary statements in the file,
    discharged  = those for which this compile printed an assumptions report."""
    rel = "theories/Props/%s.v" % pid
    path = os.path.join(COQ, rel)
    res = {"file": rel, "obligations": 0, "discharged": 0, "assumptions": {}, "ok": False,
           "log": "", "theorems": []}
    if not os.path.exists(path):
        res["log"] = "missing " + rel
        return res
    src = strip_comments(open(path).read())
    names = re.findall(r"^\s*(?:Theorem|Lemma|Example|Corollary|Fact|Proposition)\s+(\w+)", src, re.M)
    res["theorems"] = names
    res["obligations"] = len(names)
    cmd = "ulimit -s unlimited 2>/dev/null; timeout 900 coqc -q -R theories AF -R gen AFGen -R extract AFExtract %s" % rel
    rc, out = sh(cmd, cwd=COQ, timeout=1000)
    res["log"] = out[-4000:]
    if rc != 0:
        return res
    # Print Assumptions output: either "Closed under the global context" or "Axioms:\n name : type"
    # We pair reports with the `Print Assumptions X.` commands in order.
    printed = re.findall(r"Print\s+Assumptions\s+(\w+)\s*\.", src)
    reports = re.split(r"(?=Closed under the global context|Axioms:)", out)
    reports = [r for r in reports if r.startswith("Closed") or r.startswith("Axioms:")]
    for name, rep in zip(printed, reports):
        rep = rep.strip()
        res["assumptions"][name] = "closed" if rep.startswith("Closed") else rep[:600]
    res["discharged"] = sum(1 for n in names if n in res["assumptions"])
    res["ok"] = res["obligations"] > 0 and res["discharged"] == res["obligations"]
    return res


def build_runner(pid):
    """Compile ocaml/build/<pid>/model.ml (written by extract/Extract<pid>.v) with the driver."""
    d = os.path.join(ROOT, "ocaml", "build", pid)
    ml = os.path.join(d, "model.ml")
    if not os.path.exists(ml):
        return None, "no extracted model for %s" % pid
    exe = os.path.join(d, "runner")
    drv = os.path.join(ROOT, "ocaml", "driver.ml")
    if os.path.exists(exe) and os.path.getmtime(exe) >= max(os.path.getmtime(ml), os.path.getmtime(drv)):
        return exe, ""
    mli = os.path.join(d, "model.mli")
    srcs = ("model.mli model.ml" if os.path.exists(mli) else "model.ml")
    cmd = "cp %s driver.ml && ocamlfind ocamlopt -O3 -w -a %s driver.ml -o runner 2>&1 || ocamlfind ocamlopt -w -a %s driver.ml -o runner" % (drv, srcs, srcs)
    rc, out = sh(cmd, cwd=d, timeout=300)
    if rc != 0:
        return None, out[-2000:]
    return exe, ""


# ----------------------------------------------------------------------------------------
# Sx encoding (mirror of coq/theories/Base/Sx.v)
# ----------------------------------------------------------------------------------------

def sx(v):
    """Python value -> Sx text: int, bool, bytes (as #hex), str (code point list), list/tuple, None -> []."""
    if v is True:
        return "1"
    if v is False:
        return "0"
    if v is None:
        return "[]"
    if isinstance(v, int):
        return str(v)
    if isinstance(v, (bytes, bytearray)):
        return "#" + bytes(v).hex() if v else "[]"
    if isinstance(v, str):
        if all(ord(c) < 256 for c in v):
            return "#" + v.encode("latin-1").hex() if v else "[]"
        return "[" + ",".join(str(ord(c)) for c in v) + "]"
    if isinstance(v, (list, tuple)):
        return "[" + ",".join(sx(x) for x in v) + "]"
    raise TypeError("sx: %r" % (v,))


def unsx_str(v):
    return "".join(chr(c) for c in v)


def unsx_bytes(v):
    return bytes(v)


class Model:
    """Extracted model runner: batch evaluation of Sx request lines."""

    def __init__(self, exe):
        self.exe = exe
        self.calls = 0

    def batch(self, lines, timeout=600):
        if not lines:
            return []
        data = "\n".join(lines) + "\n"
        p = subprocess.run(["/bin/sh", "-c", "ulimit -s unlimited 2>/dev/null; exec " + self.exe],
                           input=data.encode(), stdout=subprocess.PIPE, stderr=subprocess.PIPE, timeout=timeout)
        outs = p.stdout.decode().splitlines()
        self.calls += len(lines)
        if len(outs) != len(lines):
            raise RuntimeError("model runner returned %d lines for %d requests (rc=%s): %s" % (
                len(outs), len(lines), p.returncode, p.stderr.decode()[-500:]))
        return [json.loads(o) for o in outs]

    def call(self, line):
        return self.batch([line])[0]


# ----------------------------------------------------------------------------------------
# Known findings
# ----------------------------------------------------------------------------------------

def load_findings(pid):
    paths = [os.path.join(ROOT, "known_findings.jsonl")]
    extra = os.environ.get("VERIF_EXTRA_FINDINGS")   # development aid only (never set by MANIFEST commands)
    if extra:
        paths.append(os.path.join(ROOT, extra) if not os.path.isabs(extra) else extra)
    known, fixed = [], []
    for path in paths:
        if not os.path.exists(path):
            continue
        for line in open(path):
            line = line.strip()
            if not line or line.startswith("#"):
                continue
            rec = json.loads(line)
            if pid not in rec.get("properties", [rec.get("property")]):
                continue
            (fixed if rec.get("kind") == "fixed" else known).append(rec)
    return known, fixed


# ----------------------------------------------------------------------------------------
# Check context and verdict
# ----------------------------------------------------------------------------------------

class Ctx:
    """Handed to harness/<pid>.py:run(ctx).  Collects what the run covered and found."""

    def __init__(self, pid, tier, seed):
        self.pid, self.tier, self.seed = pid, tier, seed
        self.rng = random.Random(seed)
        self.model = None
        self.model_error = ""
        self.evaluations = 0
        self.nontrivial = set()
        self.samples = []
        self.disagreements = []   # model vs implementation
        self.failures = []        # property oracle on the implementation: dict(case, what, cls)
        self.traces = 0
        self.dist = {}
        self.notes = []
        self.extra = {}
        self.t0 = time.time()
        self.known, self.fixed = load_findings(pid)
        self.known_hits = {}

    # --- budget -------------------------------------------------------------------------
    def scale(self, quick, thorough):
        return thorough if self.tier == "thorough" else quick

    # --- bookkeeping --------------------------------------------------------------------
    def count(self, key, n=1):
        self.dist[key] = self.dist.get(key, 0) + n

    def case(self, canon, nontrivial=True, sample=None):
        """Register one evaluated case; canon must be hashable/serialisable."""
        self.evaluations += 1
        if nontrivial:
            self.nontrivial.add(hashlib.md5(repr(canon).encode()).digest()[:8])
        if sample is not None and len(self.samples) < 6:
            self.samples.append(sample)

    def disagree(self, case, impl, model, projection=""):
        self.disagreements.append({"case": case, "impl": impl, "model": model, "projection": projection})

    def fail(self, case, what, cls=None):
        """The implementation breaks the property on `case`.  cls = name of a known-finding class
        the harness's class predicate accepted for this case (None: no listed class applies)."""
        if cls is not None and any(k.get("class") == cls for k in self.known):
            self.known_hits[cls] = self.known_hits.get(cls, 0) + 1
            if cls not in self.extra.setdefault("known_witnesses", {}):
                self.extra["known_witnesses"][cls] = {"case": case, "what": what}
            return
        self.failures.append({"case": case, "what": what, "class": cls})


def write_replay(pid, payload):
    os.makedirs(os.path.join(ROOT, "replays"), exist_ok=True)
    blob = json.dumps(payload, sort_keys=True, default=repr)
    name = "%s-%s.json" % (pid, hashlib.sha256(blob.encode()).hexdigest()[:8])
    path = os.path.join(ROOT, "replays", name)
    with open(path, "w") as f:
        json.dump(payload, f, indent=1, sort_keys=True, default=repr)
    return path


def write_evidence(pid, ev):
    # development runs against a scratch worktree (VERIF_REPO) must not overwrite the evidence of /repo runs
    sub = "evidence" if os.path.realpath(REPO) == "/repo" else "evidence_dev"
    os.makedirs(os.path.join(ROOT, sub), exist_ok=True)
    path = os.path.join(ROOT, sub, "%s.json" % pid)
    with open(path, "w") as f:
        json.dump(ev, f, indent=1, sort_keys=True, default=repr)
    return path


def anchored_hashes(files):
    out = {}
    for rel in files:
        p = os.path.join(REPO, rel)
        if os.path.exists(p):
            out[rel] = sha_file(p)[:16]
    return out


def ddmin(items, still_fails, max_tests=400):
    """Delta debugging: a smaller sublist of `items` for which still_fails(sublist) holds."""
    items = list(items)
    n, tests = 2, 0
    while len(items) >= 2 and tests < max_tests:
        chunk = max(1, len(items) // n)
        reduced = False
        for i in range(0, len(items), chunk):
            cand = items[:i] + items[i + chunk:]
            tests += 1
            if cand and still_fails(cand):
                items, n, reduced = cand, max(n - 1, 2), True
                break
        if not reduced:
            if chunk == 1:
                break
            n = min(len(items), n * 2)
    return items


def coqchk(pid, timeout=1500):
    """Independent re-check of the property's compiled theorems and everything they depend on (thorough tier).
    Returns the CONTEXT SUMMARY (axioms, type-in-type, unsafe fixpoints, assumed positivity)."""
    cmd = "ulimit -s unlimited 2>/dev/null; timeout %d coqchk -o -silent -R theories AF -R gen AFGen -R extract AFExtract AF.Props.%s" % (timeout, pid)
    rc, out = sh(cmd, cwd=COQ, timeout=timeout + 60)
    i = out.find("CONTEXT SUMMARY")
    return rc, (out[i:] if i >= 0 else out[-1500:]).strip()
