(* C14 - concurrent senders never corrupt the outbound sequence.
   Theorems only (proofs in AF.Lemmas.SchedL); the model is AF.Fix.Sched: asyncio's scheduling rule
   (run-to-next-suspension, one task at a time) over the suspension points of asyncfix/connection.py
   (writer.drain() in send_msg; the awaited hooks on_state_change / should_replay / on_message /
   on_logon).  A schedule is ANY list of task indices (`run_sched c sched` resumes them in that
   order; choosing a finished or non-existent task is a no-op), so every statement below is over all
   interleavings, every number of tasks, every message list, unbounded schedule length.
   `fifo_sched c sched = true` says the schedule obeys the drain wake-up rule "the drain waiter that
   suspended first resumes first"; it is a hypothesis of the stored-counter clause ONLY
   (C14_lifo_counter_refuted shows it is needed), everything else holds for every schedule.

   Tiling of the property's domain:
     no ResendRequest being serviced  -> C14_safe_tasks and its instances C14_senders_safe,
                                         C14_logon_window, C14_reader_replies_safe (full property)
     a ResendRequest being serviced while another task sends a new message (known finding
     send_overlaps_resend_service, D12) -> C14_resend_window_refuted, .._caller_refuted,
                                         C14_heartbeat_inflight_refuted. *)
From Coq Require Import ZArith List Bool.
From AF Require Import Fix.Sched Lemmas.SchedL.
Import ListNotations.
Open Scope Z_scope.

(* Application tasks only.  w0: any world with an empty observed wire, journal rows only below
   next_num_out and stored counter = next_num_out - 1 (init_ok); any connection state / role.
   mss: the messages of each task, all of them new (not SequenceReset, not PossDupFlag=Y). *)
Theorem C14_senders_safe : forall (w0 : world) (mss : list (list msg)) (sched : list nat),
  init_ok w0 -> Forall (fun ms => forallb is_new ms = true) mss ->
  let c0 := mkC w0 (map sender_task mss) in
  let c := run_sched c0 sched in
  let w := c_w c in
  (* wire order = number order, consecutive from the first free number: strictly increasing, distinct *)
  map f_seq (wire_of w) = zseq (nout w0) (length (wire_of w))
  /\ nout w = nout w0 + Z.of_nat (length (wire_of w))
  (* nothing but new messages went out *)
  /\ Forall (fun f => f_pd f = false /\ f_ty f <> T_SEQRESET) (wire_of w)
  (* no DuplicateSeqNoError, neither returned to a caller nor swallowed *)
  /\ no_dup_error (c_ts c)
  (* every frame is journaled under its number, or its sender is still suspended in drain *)
  /\ (forall f, In f (wire_of w) -> row_at (f_seq f) (rows w) = Some f \/ in_drain (c_ts c) f)
  (* no other row appears, older rows are untouched *)
  /\ (forall k f, nout w0 <= k -> row_at k (rows w) = Some f -> In f (wire_of w) /\ f_seq f = k)
  /\ (forall k, k < nout w0 -> row_at k (rows w) = row_at k (rows w0))
  (* when all tasks have finished every frame is journaled ... *)
  /\ (all_done c = true -> forall f, In f (wire_of w) -> row_at (f_seq f) (rows w) = Some f)
  (* ... and, under FIFO drain wake-up, stored counter = highest number sent = next_num_out - 1 *)
  /\ (fifo_sched c0 sched = true -> all_done c = true -> sout w = nout w - 1).
Proof. exact senders_safe. Qed.
Print Assumptions C14_senders_safe.

(* Same with the reader task suspended anywhere inside the acceptor's Logon handling
   (_state_set(LOGON_INITIAL_RECV) hook ; role ; Logon reply with its drain ; _state_set(ACTIVE) hook ;
   on_logon hook) and the heartbeat task's probe running concurrently. *)
Theorem C14_logon_window : forall (w0 : world) (mss : list (list msg)) (sched : list nat),
  init_ok w0 -> Forall (fun ms => forallb is_new ms = true) mss ->
  let c0 := mkC w0 (reader_logon :: heartbeat_task :: map sender_task mss) in
  safe_outcome w0 (run_sched c0 sched) (fifo_sched c0 sched).
Proof. exact logon_window_safe. Qed.
Print Assumptions C14_logon_window.

(* The reader's other sending handlers: Heartbeat reply to a TestRequest, ResendRequest on a gap
   (+ _state_set(RESENDREQ_AWAITING) hook), on_message hook. *)
Theorem C14_reader_replies_safe : forall (w0 : world) (r : task) (mss : list (list msg)) (sched : list nat),
  init_ok w0 -> In r [reader_testreq; reader_gap; reader_app] ->
  Forall (fun ms => forallb is_new ms = true) mss ->
  let c0 := mkC w0 (r :: heartbeat_task :: map sender_task mss) in
  safe_outcome w0 (run_sched c0 sched) (fifo_sched c0 sched).
Proof. exact reader_replies_safe. Qed.
Print Assumptions C14_reader_replies_safe.

(* The general form: ANY set of tasks whose code is any mix of send_msg of new messages,
   send_test_req, _state_set hooks, plain hooks and role assignments - i.e. everything except the
   ResendRequest service (IResend / IRestore).  safe_outcome is the nine-clause conjunction above. *)
Theorem C14_safe_tasks : forall (w0 : world) (ts : list task) (sched : list nat),
  init_ok w0 -> Forall fresh_task ts ->
  safe_outcome w0 (run_sched (mkC w0 ts) sched) (fifo_sched (mkC w0 ts) sched).
Proof. exact safe_tasks_safe. Qed.
Print Assumptions C14_safe_tasks.

(* Non-vacuity: state ACTIVE, two tasks x two messages, a FIFO schedule: 1..4 go out interleaved,
   all journaled, stored counter 4. *)
Example C14_nonvacuous :
  init_ok active0 /\ fifo_sched ex_cfg ex_sched = true /\ all_done (run_sched ex_cfg ex_sched) = true
  /\ map f_seq (wire_of (c_w (run_sched ex_cfg ex_sched))) = [1; 2; 3; 4]
  /\ map f_id (wire_of (c_w (run_sched ex_cfg ex_sched))) = [1; 3; 2; 4]
  /\ sout (c_w (run_sched ex_cfg ex_sched)) = 4
  /\ map fst (rows (c_w (run_sched ex_cfg ex_sched))) = [1; 2; 3; 4].
Proof. exact ex_nonvacuous. Qed.
Print Assumptions C14_nonvacuous.

(* REFUTED inside the ResendRequest service (D12).  Reader servicing ResendRequest(1,0) over three
   journaled application messages + one application task sending one message; FIFO schedule
   [R; R; S; R; S; R]: the send starts after the rewind, takes number 1 again (a second, different new
   message numbered 1 on the wire), its journal write succeeds, the replay's journal write raises
   DuplicateSeqNoError inside the reader, the handler aborts: next_num_out = 2 and stored counter = 1
   although 3 was the highest number sent. *)
Theorem C14_resend_window_refuted :
  let c := run_sched rw_cfg rw_sched in
  fifo_sched rw_cfg rw_sched = true /\ valid_sched rw_cfg rw_sched = true /\ all_done c = true
  /\ dup_number_on_wire (c_w c) /\ some_dup_error (c_ts c)
  /\ sout (c_w c) = 1 /\ nout (c_w c) = 2 /\ highest (c_w c) = 3.
Proof. exact resend_window_refuted. Qed.
Print Assumptions C14_resend_window_refuted.

(* Same tasks, schedule [R;R;R;R; S;S; R;R;R;R;R]: the send starts after message 1 was replayed and
   journaled again: DuplicateSeqNoError goes to the application caller, number 1 is used twice. *)
Theorem C14_resend_window_caller_refuted :
  let c := run_sched rw_cfg rw_sched2 in
  fifo_sched rw_cfg rw_sched2 = true /\ valid_sched rw_cfg rw_sched2 = true /\ all_done c = true
  /\ (exists t, nth_error (c_ts c) 1 = Some t /\ t_out t = [OExc EDupSeq])
  /\ dup_number_on_wire (c_w c).
Proof. exact resend_window_caller_refuted. Qed.
Print Assumptions C14_resend_window_caller_refuted.

(* The heartbeat task.  Its probe cannot START inside the window (heartbeat_timer_task probes only in
   state ACTIVE) but one that is suspended in drain when the ResendRequest arrives is enough:
   TestRequest 3 and the tail gap fill SequenceReset 3->4 both carry number 3, the gap fill's journal
   write raises DuplicateSeqNoError, the handler aborts with next_num_out = 1, state RESENDREQ_HANDLING. *)
Theorem C14_heartbeat_inflight_refuted :
  let c := run_sched hb_cfg hb_sched in
  fifo_sched hb_cfg hb_sched = true /\ valid_sched hb_cfg hb_sched = true /\ all_done c = true
  /\ some_dup_error (c_ts c)
  /\ (exists f g, In f (wire_of (c_w c)) /\ In g (wire_of (c_w c)) /\ f_seq f = 3 /\ f_seq g = 3
                  /\ f_ty f = T_TESTREQ /\ f_ty g = T_SEQRESET)
  /\ nout (c_w c) = 1 /\ highest (c_w c) = 3 /\ st (c_w c) = S_HANDLING.
Proof. exact heartbeat_inflight_refuted. Qed.
Print Assumptions C14_heartbeat_inflight_refuted.

(* The wake-up rule is needed for the counter clause: two senders, LIFO wake-up [0;1;1;0]:
   wire 1,2 both journaled, stored counter 1, next_num_out 3.  (Not a library defect: asyncio wakes
   drain waiters in arrival order; this delimits the trusted base.) *)
Theorem C14_lifo_counter_refuted :
  let c := run_sched lifo_cfg lifo_sched in
  fifo_sched lifo_cfg lifo_sched = false /\ valid_sched lifo_cfg lifo_sched = true /\ all_done c = true
  /\ map f_seq (wire_of (c_w c)) = [1; 2] /\ sout (c_w c) = 1 /\ nout (c_w c) = 3.
Proof. exact lifo_counter_refuted. Qed.
Print Assumptions C14_lifo_counter_refuted.
