(* Proofs about the scheduling model Fix/Sched.v (C14).

   Part 1: list / journal facts.
   Part 2: what one run-to-next-suspension of a task with SAFE code does (safe = any mix of
           send_msg of new messages, send_test_req, _state_set hooks, plain hooks, role
           assignment: everything the library runs outside the ResendRequest service).
   Part 3: the invariant Inv (every schedule) and InvF (schedules obeying FIFO drain wake-up),
           preserved by sched_step, lifted over run_sched by induction on the schedule.
   Part 4: the statements exported by Props/C14.v.
   Part 5: witnesses (vm_compute) for the schedules that break the property. *)
From Coq Require Import ZArith List Bool Lia.
From AF Require Import Fix.Sched.
Import ListNotations.
Open Scope Z_scope.

(* ================================================================== 1. lists, journal *)

Lemma nth_upd_eq {A} : forall (l : list A) i x y, nth_error l i = Some y -> nth_error (upd i x l) i = Some x.
Proof.
  induction l as [|a l IH]; intros [|i] x y H; simpl in *; try discriminate; auto.
  eapply IH; eauto.
Qed.

Lemma nth_upd_neq {A} : forall (l : list A) i j x, j <> i -> nth_error (upd i x l) j = nth_error l j.
Proof.
  induction l as [|a l IH]; intros [|i] [|j] x H; simpl in *; auto; try congruence.
Qed.

Lemma row_at_insert : forall l n f k, row_at n l = None ->
  row_at k (insert_row n f l) = if k =? n then Some f else row_at k l.
Proof.
  induction l as [|[a g] l IH]; intros n f k H; simpl in *.
  - rewrite (Z.eqb_sym n k). reflexivity.
  - destruct (a =? n) eqn:Ean; [discriminate|].
    destruct (n <? a) eqn:Elt; simpl.
    + rewrite (Z.eqb_sym n k). destruct (k =? n) eqn:Ekn; auto.
    + rewrite IH by assumption.
      destruct (a =? k) eqn:Eak; auto.
      destruct (k =? n) eqn:Ekn; auto.
      apply Z.eqb_eq in Eak, Ekn. apply Z.eqb_neq in Ean. lia.
Qed.

Fixpoint consec (l : list frame) (hi : Z) : Prop :=
  match l with
  | [] => True
  | f :: l' => f_seq f = hi - 1 /\ consec l' (hi - 1)
  end.

Lemma consec_in : forall l hi f, consec l hi -> In f l -> hi - Z.of_nat (length l) <= f_seq f < hi.
Proof.
  induction l as [|a l IH]; intros hi f Hc Hin; simpl in *; [contradiction|].
  destruct Hc as [Ha Hc]. destruct Hin as [->|Hin].
  - lia.
  - specialize (IH _ _ Hc Hin). lia.
Qed.

Lemma consec_inj : forall l hi f g, consec l hi -> In f l -> In g l -> f_seq f = f_seq g -> f = g.
Proof.
  induction l as [|a l IH]; intros hi f g Hc Hf Hg He; simpl in *; [contradiction|].
  destruct Hc as [Ha Hc].
  destruct Hf as [->|Hf]; destruct Hg as [->|Hg]; auto.
  - pose proof (consec_in _ _ _ Hc Hg). lia.
  - pose proof (consec_in _ _ _ Hc Hf). lia.
  - eapply IH; eauto.
Qed.

Fixpoint zseq (a : Z) (n : nat) : list Z :=
  match n with O => [] | S k => a :: zseq (a + 1) k end.

Lemma zseq_snoc : forall n a, zseq a (S n) = zseq a n ++ [a + Z.of_nat n].
Proof.
  induction n as [|n IH]; intros a.
  - simpl. f_equal. lia.
  - change (zseq a (S (S n))) with (a :: zseq (a + 1) (S n)). rewrite IH.
    simpl. do 2 f_equal. f_equal. lia.
Qed.

Lemma consec_zseq : forall l hi, consec l hi ->
  map f_seq (rev l) = zseq (hi - Z.of_nat (length l)) (length l).
Proof.
  induction l as [|a l IH]; intros hi Hc.
  - reflexivity.
  - destruct Hc as [Ha Hc]. cbn [rev]. rewrite map_app, (IH _ Hc).
    cbn [length map]. rewrite zseq_snoc. f_equal.
    + f_equal. lia.
    + f_equal. lia.
Qed.

(* ================================================================== 2. one segment of safe code *)

Definition is_new (m : msg) : bool := negb (m_ty m =? T_SEQRESET) && negb (m_pd m).

Definition safe_instr (i : instr) : bool :=
  match i with
  | ISend m | ISendRest m => is_new m
  | ITestReq | IStateHook _ _ | IHook | ISetRole _ => true
  | IResend _ _ _ | IRestore _ | IRaise _ => false
  end.

Definition safe_code (c : list instr) : bool := forallb safe_instr c.

Definition clean (out : list outcome) : Prop := ~ In (OExc EDupSeq) out.

Definition same_seq (w w' : world) : Prop :=
  nout w' = nout w /\ sout w' = sout w /\ rows w' = rows w /\ rwire w' = rwire w /\ tick w' = tick w.

Lemma same_seq_refl : forall w, same_seq w w.
Proof. intros; repeat split. Qed.

Lemma same_seq_trans : forall a b c, same_seq a b -> same_seq b c -> same_seq a c.
Proof. unfold same_seq; intros a b c (?&?&?&?&?) (?&?&?&?&?); repeat split; congruence. Qed.

(* what the segment did to the sequence state: nothing, or exactly one new frame numbered nout *)
Inductive exec_post (w : world) (t' : task) (w' : world) : Prop :=
| EP_quiet : same_seq w w' -> (t_wait t' = WHook \/ t_wait t' = WDone) -> exec_post w t' w'
| EP_sent : forall f, t_wait t' = WDrain f (tick w) -> f_seq f = nout w -> f_pd f = false -> f_ty f <> T_SEQRESET ->
    nout w' = nout w + 1 -> rwire w' = f :: rwire w -> tick w' = tick w + 1 -> sout w' = sout w -> rows w' = rows w ->
    exec_post w t' w'.

Lemma exec_post_same : forall w0 w t' w', same_seq w0 w -> exec_post w t' w' -> exec_post w0 t' w'.
Proof.
  intros w0 w t' w' Hs [Hq Hw|f Hw H1 H2 H3 H4 H5 H6 H7 H8].
  - apply EP_quiet; auto. eapply same_seq_trans; eauto.
  - destruct Hs as (?&?&?&?&?). eapply EP_sent with (f := f); congruence.
Qed.

Definition good (abort : bool) (w : world) (r : res) : Prop :=
  exists t' w', r = RDone t' w' /\ safe_code (t_code t') = true /\ clean (t_out t') /\
                t_exc t' <> Some EDupSeq /\ t_abort t' = abort /\ exec_post w t' w'.

Definition kgood (abort : bool) (k : list outcome -> world -> res) : Prop :=
  forall out w, clean out -> good abort w (k out w).

Lemma good_same : forall abort w0 w r, same_seq w0 w -> good abort w r -> good abort w0 r.
Proof.
  intros abort w0 w r Hs (t'&w'&?&?&?&?&?&Hp). exists t', w'. repeat split; auto.
  eapply exec_post_same; eauto.
Qed.

Lemma clean_cons : forall e out, e <> EDupSeq -> clean out -> clean (OExc e :: out).
Proof. unfold clean; intros e out He Hc [H|H]; [inversion H; congruence|auto]. Qed.

Lemma clean_ok : forall out, clean out -> clean (OOk :: out).
Proof. unfold clean; intros out Hc [H|H]; [discriminate|auto]. Qed.

Lemma good_raise : forall abort e b out w k, e <> EDupSeq -> clean out -> kgood abort k ->
  good abort w (raise_ abort e b out w k).
Proof.
  intros abort e b out w k He Hc Hk. unfold raise_. destruct abort.
  - exists (mkT [] WDone (if b then OExc e :: out else out) (Some e) true), w.
    repeat split; simpl; auto.
    + destruct b; auto using clean_cons.
    + congruence.
    + apply EP_quiet; [apply same_seq_refl|auto].
  - apply Hk. apply clean_cons; auto.
Qed.

Lemma good_send_tail : forall abort m rest out w k, is_new m = true -> safe_code rest = true -> clean out ->
  kgood abort k -> good abort w (send_tail abort m rest out w k).
Proof.
  intros abort m rest out w k Hn Hs Hc Hk. unfold send_tail.
  destruct ((m_ty m =? T_TESTREQ) && negb (treq w)).
  - apply good_raise; auto; discriminate.
  - unfold is_new in Hn. apply andb_true_iff in Hn. destruct Hn as [Hty Hpd].
    apply negb_true_iff in Hty, Hpd. unfold number. rewrite Hty, Hpd.
    eexists _, _. split; [reflexivity|]. simpl. repeat split; auto; try discriminate.
    eapply EP_sent; simpl; try reflexivity.
    apply Z.eqb_neq; auto.
Qed.

Lemma good_send_head : forall abort m rest out w k, is_new m = true -> safe_code rest = true -> clean out ->
  kgood abort k -> good abort w (send_head abort m rest out w k).
Proof.
  intros abort m rest out w k Hn Hs Hc Hk. unfold send_head. destruct (gate m w) as [e| |] eqn:Eg.
  - assert (e = EConn) as ->.
    { unfold gate in Eg. repeat match type of Eg with (if ?c then _ else _) = _ => destruct c end; congruence. }
    apply good_raise; auto; discriminate.
  - eexists _, _. split; [reflexivity|]. simpl. rewrite Hn, Hs. repeat split; auto; try discriminate.
    apply EP_quiet; [repeat split|auto].
  - apply good_send_tail; auto.
Qed.

Lemma exec_safe : forall abort code, safe_code code = true -> kgood abort (exec abort code).
Proof.
  intros abort code. induction code as [|i rest IH]; intros Hs out w Hc.
  - eexists _, _. split; [reflexivity|]. simpl. repeat split; auto; try discriminate.
    apply EP_quiet; [apply same_seq_refl|auto].
  - simpl in Hs. apply andb_true_iff in Hs. destruct Hs as [Hi Hs]. specialize (IH Hs).
    destruct i; simpl in Hi; try discriminate; cbn [exec].
    + apply good_send_head; auto.
    + apply good_same with (w := set_role R_INITIATOR w); [repeat split|].
      apply good_send_tail; auto.
    + destruct (treq w).
      * apply good_raise; auto; discriminate.
      * apply good_same with (w := set_treq true w); [repeat split|].
        apply good_send_head; auto.
    + destruct (unless_awaiting && (st w =? S_AWAITING)).
      * apply IH; auto.
      * eexists _, _. split; [reflexivity|]. simpl. repeat split; auto; try discriminate.
        apply EP_quiet; [repeat split|auto].
    + eexists _, _. split; [reflexivity|]. simpl. repeat split; auto; try discriminate.
      apply EP_quiet; [apply same_seq_refl|auto].
    + apply good_same with (w := set_role r w); [repeat split|]. apply IH; auto.
Qed.

Lemma drive_done : forall fuel abort t w, drive fuel abort (RDone t w) = (t, w).
Proof. destruct fuel; reflexivity. Qed.

Definition task_ok (t : task) : Prop :=
  safe_code (t_code t) = true /\ clean (t_out t) /\ t_exc t <> Some EDupSeq.

Lemma resume_idle : forall t w, (t_wait t = WStart \/ t_wait t = WHook) -> task_ok t ->
  exists t' w', resume t w = (t', w') /\ task_ok t' /\ exec_post w t' w'.
Proof.
  intros t w Hw (Hs & Hc & _).
  destruct (exec_safe (t_abort t) (t_code t) Hs (t_out t) w Hc) as (t'&w'&He&?&?&?&?&?).
  exists t', w'. split; [|split; [repeat split|]; auto].
  unfold resume. destruct Hw as [-> | ->]; rewrite He; apply drive_done.
Qed.

(* world after Journaler.persist_msg stored frame f *)
Definition persisted (f : frame) (w : world) : world :=
  mkW (nout w) (f_seq f) (insert_row (f_seq f) f (rows w)) (rwire w) (st w) (role w) (treq w) (tick w).

Lemma resume_drain : forall t w f tk, t_wait t = WDrain f tk -> row_at (f_seq f) (rows w) = None -> task_ok t ->
  exists t' w', resume t w = (t', w') /\ task_ok t' /\ exec_post (persisted f w) t' w'.
Proof.
  intros t w f tk Hw Hr (Hs & Hc & _).
  destruct (exec_safe (t_abort t) (t_code t) Hs (OOk :: t_out t) (persisted f w) (clean_ok _ Hc))
    as (t'&w'&He&?&?&?&?&?).
  exists t', w'. split; [|split; [repeat split|]; auto].
  unfold resume, persist. rewrite Hw, Hr. fold (persisted f w). rewrite He. apply drive_done.
Qed.

(* ================================================================== 3. invariants *)

Definition pmap := nat -> option (frame * Z).

Definition pw (t : task) : option (frame * Z) :=
  match t_wait t with WDrain f tk => Some (f, tk) | _ => None end.

(* the frame (and drain ticket) task j still has to journal *)
Definition pend (ts : list task) : pmap :=
  fun j => match nth_error ts j with Some t => pw t | None => None end.

Definition Pupd (P : pmap) (i : nat) (v : option (frame * Z)) : pmap :=
  fun j => if Nat.eqb j i then v else P j.

Lemma pend_upd : forall ts i t t' j, nth_error ts i = Some t ->
  pend (upd i t' ts) j = Pupd (pend ts) i (pw t') j.
Proof.
  intros ts i t t' j H. unfold pend, Pupd. destruct (Nat.eqb_spec j i) as [->|Hn].
  - rewrite (nth_upd_eq _ _ _ _ H). reflexivity.
  - rewrite nth_upd_neq by assumption. reflexivity.
Qed.

Record Inv (n0 : Z) (rows0 : list (Z * frame)) (w : world) (P : pmap) : Prop := mkInv {
  i_consec : consec (rwire w) (nout w);
  i_len : nout w = n0 + Z.of_nat (length (rwire w));
  i_new : Forall (fun f => f_pd f = false /\ f_ty f <> T_SEQRESET) (rwire w);
  i_low : forall k, k < n0 -> row_at k (rows w) = row_at k rows0;
  i_rows : forall k f, n0 <= k -> row_at k (rows w) = Some f -> In f (rwire w) /\ f_seq f = k;
  i_cover : forall f, In f (rwire w) -> row_at (f_seq f) (rows w) = Some f \/ exists j tk, P j = Some (f, tk);
  i_pend : forall j f tk, P j = Some (f, tk) -> In f (rwire w) /\ row_at (f_seq f) (rows w) = None /\ tk < tick w;
  i_dist : forall j j' f f' tk tk', P j = Some (f, tk) -> P j' = Some (f', tk') -> j <> j' ->
           f_seq f <> f_seq f' /\ tk <> tk'
}.

Lemma inv_range : forall n0 r0 w P f, Inv n0 r0 w P -> In f (rwire w) -> n0 <= f_seq f < nout w.
Proof.
  intros n0 r0 w P f HI Hin. pose proof (consec_in _ _ _ (i_consec _ _ _ _ HI) Hin).
  pose proof (i_len _ _ _ _ HI). lia.
Qed.

Lemma inv_ext : forall n0 r0 w w' P P', Inv n0 r0 w P -> same_seq w w' -> (forall j, P' j = P j) -> Inv n0 r0 w' P'.
Proof.
  intros n0 r0 w w' P P' HI (Hn&_&Hr&Hw&Ht) HP. destruct HI.
  constructor; rewrite ?Hn, ?Hr, ?Hw, ?Ht; auto.
  - intros f Hf. destruct (i_cover0 f Hf) as [|(j&tk&Hj)]; auto. right. exists j, tk. rewrite HP; auto.
  - intros j f tk Hj. rewrite HP in Hj. eauto.
  - intros j j' f f' tk tk' Hj Hj'. rewrite HP in Hj, Hj'. eauto.
Qed.

Lemma inv_persist : forall n0 r0 w P i f tk, Inv n0 r0 w P -> P i = Some (f, tk) ->
  Inv n0 r0 (persisted f w) (Pupd P i None).
Proof.
  intros n0 r0 w P i f tk HI Hi.
  destruct (i_pend _ _ _ _ HI _ _ _ Hi) as (Hin & Hnone & Htk).
  pose proof (inv_range _ _ _ _ _ HI Hin) as Hrange.
  constructor; simpl.
  - apply (i_consec _ _ _ _ HI).
  - apply (i_len _ _ _ _ HI).
  - apply (i_new _ _ _ _ HI).
  - intros k Hk. rewrite row_at_insert by assumption.
    destruct (k =? f_seq f) eqn:E; [apply Z.eqb_eq in E; lia|]. apply (i_low _ _ _ _ HI); auto.
  - intros k g Hk Hg. rewrite row_at_insert in Hg by assumption.
    destruct (k =? f_seq f) eqn:E.
    + apply Z.eqb_eq in E. inversion Hg; subst. auto.
    + apply (i_rows _ _ _ _ HI); auto.
  - intros g Hg. rewrite row_at_insert by assumption.
    destruct (f_seq g =? f_seq f) eqn:E.
    + apply Z.eqb_eq in E. left. f_equal. symmetry.
      eapply consec_inj; eauto using (i_consec _ _ _ _ HI).
    + destruct (i_cover _ _ _ _ HI g Hg) as [|(j&tk'&Hj)]; auto.
      right. exists j, tk'. unfold Pupd. destruct (Nat.eqb_spec j i) as [->|]; auto.
      rewrite Hi in Hj. inversion Hj; subst. rewrite Z.eqb_refl in E. discriminate.
  - intros j g tk' Hj. unfold Pupd in Hj. destruct (Nat.eqb_spec j i) as [->|Hn]; [discriminate|].
    destruct (i_pend _ _ _ _ HI _ _ _ Hj) as (Hing & Hnoneg & Htkg).
    destruct (i_dist _ _ _ _ HI _ _ _ _ _ _ Hj Hi Hn) as [Hd _].
    repeat split; auto. rewrite row_at_insert by assumption.
    destruct (f_seq g =? f_seq f) eqn:E; auto. apply Z.eqb_eq in E. contradiction.
  - intros j j' g g' tk1 tk2 Hj Hj' Hn. unfold Pupd in Hj, Hj'.
    destruct (Nat.eqb_spec j i); [discriminate|]. destruct (Nat.eqb_spec j' i); [discriminate|].
    eapply (i_dist _ _ _ _ HI); eauto.
Qed.

Lemma inv_sent : forall n0 r0 w w' P i f, Inv n0 r0 w P -> P i = None ->
  f_seq f = nout w -> f_pd f = false -> f_ty f <> T_SEQRESET ->
  nout w' = nout w + 1 -> rwire w' = f :: rwire w -> tick w' = tick w + 1 -> rows w' = rows w ->
  Inv n0 r0 w' (Pupd P i (Some (f, tick w))).
Proof.
  intros n0 r0 w w' P i f HI Hi Hseq Hpd Hty Hn Hw Ht Hr.
  assert (Hfree : row_at (nout w) (rows w) = None).
  { destruct (row_at (nout w) (rows w)) as [g|] eqn:E; auto.
    pose proof (i_len _ _ _ _ HI).
    destruct (i_rows _ _ _ _ HI (nout w) g ltac:(lia) E) as [Hin Hs].
    pose proof (inv_range _ _ _ _ _ HI Hin). lia. }
  constructor; rewrite ?Hn, ?Hw, ?Ht, ?Hr.
  - simpl. split; [lia|]. replace (nout w + 1 - 1) with (nout w) by lia. apply (i_consec _ _ _ _ HI).
  - simpl length. rewrite Nat2Z.inj_succ. pose proof (i_len _ _ _ _ HI). lia.
  - constructor; auto. apply (i_new _ _ _ _ HI).
  - apply (i_low _ _ _ _ HI).
  - intros k g Hk Hg. destruct (i_rows _ _ _ _ HI k g Hk Hg). split; auto. right; auto.
  - intros g [<-|Hg].
    + right. exists i, (tick w). unfold Pupd. rewrite Nat.eqb_refl. reflexivity.
    + destruct (i_cover _ _ _ _ HI g Hg) as [|(j&tk&Hj)]; auto.
      right. exists j, tk. unfold Pupd. destruct (Nat.eqb_spec j i) as [->|]; auto. congruence.
  - intros j g tk Hj. unfold Pupd in Hj. destruct (Nat.eqb_spec j i) as [->|Hne].
    + inversion Hj; subst. repeat split; [left; auto| rewrite Hseq; auto | lia].
    + destruct (i_pend _ _ _ _ HI _ _ _ Hj) as (?&?&?). repeat split; [right; auto | auto | lia].
  - intros j j' g g' tk1 tk2 Hj Hj' Hne. unfold Pupd in Hj, Hj'.
    destruct (Nat.eqb_spec j i) as [->|Hn1]; destruct (Nat.eqb_spec j' i) as [->|Hn2].
    + contradiction.
    + inversion Hj; subst. destruct (i_pend _ _ _ _ HI _ _ _ Hj') as (Hin&_&?).
      pose proof (inv_range _ _ _ _ _ HI Hin). lia.
    + inversion Hj'; subst. destruct (i_pend _ _ _ _ HI _ _ _ Hj) as (Hin&_&?).
      pose proof (inv_range _ _ _ _ _ HI Hin). lia.
    + eapply (i_dist _ _ _ _ HI); eauto.
Qed.

Lemma inv_after_exec : forall n0 r0 w w' P i t', Inv n0 r0 w P -> P i = None -> exec_post w t' w' ->
  Inv n0 r0 w' (Pupd P i (pw t')).
Proof.
  intros n0 r0 w w' P i t' HI Hi [Hs Hw|f Hw H1 H2 H3 H4 H5 H6 H7 H8].
  - eapply inv_ext; eauto. intros j. unfold Pupd, pw.
    destruct (Nat.eqb_spec j i) as [->|]; auto. destruct Hw as [-> | ->]; auto.
  - unfold pw. rewrite Hw. eapply inv_sent; eauto.
Qed.

(* the part that needs FIFO wake-up: the stored counter trails the live one by the drain queue *)
Record InvF (w : world) (P : pmap) : Prop := mkInvF {
  f_lt : sout w < nout w;
  f_cover : forall n, sout w < n < nout w -> exists j f tk, P j = Some (f, tk) /\ f_seq f = n;
  f_above : forall j f tk, P j = Some (f, tk) -> sout w < f_seq f;
  f_order : forall j j' f f' tk tk', P j = Some (f, tk) -> P j' = Some (f', tk') -> tk < tk' -> f_seq f < f_seq f'
}.

Lemma invF_ext : forall w w' P P', InvF w P -> same_seq w w' -> (forall j, P' j = P j) -> InvF w' P'.
Proof.
  intros w w' P P' HF (Hn&Hs&_) HP. destruct HF.
  constructor; rewrite ?Hn, ?Hs; auto.
  - intros n Hn'. destruct (f_cover0 n Hn') as (j&f&tk&?&?). exists j, f, tk. rewrite HP. auto.
  - intros j f tk Hj. rewrite HP in Hj. eauto.
  - intros j j' f f' tk tk' Hj Hj'. rewrite HP in Hj, Hj'. eauto.
Qed.

Lemma invF_persist : forall n0 r0 w P i f tk, Inv n0 r0 w P -> InvF w P -> P i = Some (f, tk) ->
  (forall j f' tk', P j = Some (f', tk') -> tk <= tk') ->
  InvF (persisted f w) (Pupd P i None).
Proof.
  intros n0 r0 w P i f tk HI HF Hi Hfifo.
  destruct (i_pend _ _ _ _ HI _ _ _ Hi) as (Hin & _ & _).
  pose proof (inv_range _ _ _ _ _ HI Hin) as Hrange.
  pose proof (f_above _ _ HF _ _ _ Hi) as Habove.
  constructor; simpl.
  - lia.
  - intros n Hn. destruct (f_cover _ _ HF n ltac:(lia)) as (j&g&tk'&Hj&Hg).
    exists j, g, tk'. split; auto. unfold Pupd. destruct (Nat.eqb_spec j i) as [->|]; auto.
    rewrite Hi in Hj. inversion Hj; subst. lia.
  - intros j g tk' Hj. unfold Pupd in Hj. destruct (Nat.eqb_spec j i) as [->|Hn]; [discriminate|].
    destruct (i_dist _ _ _ _ HI _ _ _ _ _ _ Hj Hi Hn) as [_ Hd].
    pose proof (Hfifo _ _ _ Hj).
    apply (f_order _ _ HF _ _ _ _ _ _ Hi Hj). lia.
  - intros j j' g g' tk1 tk2 Hj Hj'. unfold Pupd in Hj, Hj'.
    destruct (Nat.eqb_spec j i); [discriminate|]. destruct (Nat.eqb_spec j' i); [discriminate|].
    eapply (f_order _ _ HF); eauto.
Qed.

Lemma invF_after_exec : forall n0 r0 w w' P i t', Inv n0 r0 w P -> InvF w P -> P i = None -> exec_post w t' w' ->
  InvF w' (Pupd P i (pw t')).
Proof.
  intros n0 r0 w w' P i t' HI HF Hi [Hs Hw|f Hw H1 H2 H3 H4 H5 H6 H7 H8].
  - eapply invF_ext; eauto. intros j. unfold Pupd, pw.
    destruct (Nat.eqb_spec j i) as [->|]; auto. destruct Hw as [-> | ->]; auto.
  - unfold pw. rewrite Hw. pose proof (f_lt _ _ HF).
    constructor; rewrite ?H4, ?H7.
    + lia.
    + intros n Hn. destruct (Z.eq_dec n (nout w)) as [->|Hne].
      * exists i, f, (tick w). unfold Pupd. rewrite Nat.eqb_refl. auto.
      * destruct (f_cover _ _ HF n ltac:(lia)) as (j&g&tk&Hj&Hg). exists j, g, tk. split; auto.
        unfold Pupd. destruct (Nat.eqb_spec j i) as [->|]; auto. congruence.
    + intros j g tk Hj. unfold Pupd in Hj. destruct (Nat.eqb_spec j i) as [->|].
      * inversion Hj; subst. lia.
      * eapply (f_above _ _ HF); eauto.
    + intros j j' g g' tk1 tk2 Hj Hj' Hlt. unfold Pupd in Hj, Hj'.
      destruct (Nat.eqb_spec j i) as [->|Hn1]; destruct (Nat.eqb_spec j' i) as [->|Hn2].
      * inversion Hj; inversion Hj'; subst. lia.
      * inversion Hj; subst. destruct (i_pend _ _ _ _ HI _ _ _ Hj') as (_&_&?). lia.
      * inversion Hj'; subst. destruct (i_pend _ _ _ _ HI _ _ _ Hj) as (Hin&_&_).
        pose proof (inv_range _ _ _ _ _ HI Hin). lia.
      * eapply (f_order _ _ HF); eauto.
Qed.

(* ---------------------------------------------------------------- configurations *)

Definition CInv (n0 : Z) (r0 : list (Z * frame)) (c : config) : Prop :=
  Inv n0 r0 (c_w c) (pend (c_ts c)) /\ (forall j t, nth_error (c_ts c) j = Some t -> task_ok t).

Lemma pupd_twice : forall P i v v' j, Pupd (Pupd P i v) i v' j = Pupd P i v' j.
Proof. intros. unfold Pupd. destruct (Nat.eqb j i); auto. Qed.

Lemma tasks_ok_upd : forall ts i t', (forall j t, nth_error ts j = Some t -> task_ok t) -> task_ok t' ->
  forall j t, nth_error (upd i t' ts) j = Some t -> task_ok t.
Proof.
  intros ts i t' Hall Ht' j t Hj. destruct (Nat.eq_dec j i) as [->|Hn].
  - destruct (nth_error ts i) as [t0|] eqn:E.
    + rewrite (nth_upd_eq _ _ _ _ E) in Hj. inversion Hj; subst; auto.
    + assert (nth_error (upd i t' ts) i = None).
      { clear -E. revert i E. induction ts as [|a ts IH]; intros [|i] E; simpl in *; auto; discriminate. }
      congruence.
  - rewrite nth_upd_neq in Hj by assumption. eauto.
Qed.

(* one scheduler step, any choice *)
Lemma step_shape : forall n0 r0 c i t, CInv n0 r0 c -> nth_error (c_ts c) i = Some t ->
  t_wait t = WDone \/
  (exists t' w', (t_wait t = WStart \/ t_wait t = WHook) /\ resume t (c_w c) = (t', w') /\ task_ok t' /\
                 exec_post (c_w c) t' w') \/
  (exists f tk t' w', t_wait t = WDrain f tk /\ resume t (c_w c) = (t', w') /\ task_ok t' /\
                      exec_post (persisted f (c_w c)) t' w').
Proof.
  intros n0 r0 c i t [HI Hok] Hi. specialize (Hok _ _ Hi).
  destruct (t_wait t) as [| |f tk|] eqn:Hw.
  - right; left. destruct (resume_idle t (c_w c) (or_introl Hw) Hok) as (t'&w'&?&?&?). exists t', w'. auto.
  - right; left. destruct (resume_idle t (c_w c) (or_intror Hw) Hok) as (t'&w'&?&?&?). exists t', w'. auto.
  - right; right.
    assert (Hp : pend (c_ts c) i = Some (f, tk)) by (unfold pend, pw; rewrite Hi, Hw; auto).
    destruct (i_pend _ _ _ _ HI _ _ _ Hp) as (_&Hnone&_).
    destruct (resume_drain t (c_w c) f tk Hw Hnone Hok) as (t'&w'&?&?&?). exists f, tk, t', w'. auto.
  - left; auto.
Qed.

Lemma sched_step_done : forall c i t, nth_error (c_ts c) i = Some t -> t_wait t = WDone -> sched_step c i = c.
Proof.
  intros [w ts] i t Hi Hw. unfold sched_step. simpl in *. rewrite Hi. unfold resume. rewrite Hw.
  f_equal. clear -Hi. revert i Hi. induction ts as [|a ts IH]; intros [|i] Hi; simpl in *; try discriminate.
  - inversion Hi; auto.
  - f_equal; auto.
Qed.

Lemma step_inv : forall n0 r0 c i, CInv n0 r0 c -> CInv n0 r0 (sched_step c i).
Proof.
  intros n0 r0 c i HC. destruct (nth_error (c_ts c) i) as [t|] eqn:Hi.
  2:{ unfold sched_step. rewrite Hi. auto. }
  destruct (step_shape _ _ _ _ _ HC Hi) as [Hd|[(t'&w'&Hw&Hr&Hok&Hp)|(f&tk&t'&w'&Hw&Hr&Hok&Hp)]].
  - rewrite (sched_step_done _ _ _ Hi Hd). auto.
  - destruct HC as [HI Hall]. unfold sched_step. rewrite Hi, Hr. split; simpl.
    + assert (Hnone : pend (c_ts c) i = None) by (unfold pend, pw; rewrite Hi; destruct Hw as [-> | ->]; auto).
      eapply inv_ext; [eapply inv_after_exec; eauto | apply same_seq_refl |].
      intros j. eapply pend_upd; eauto.
    + apply tasks_ok_upd; auto.
  - destruct HC as [HI Hall]. unfold sched_step. rewrite Hi, Hr. split; simpl.
    + assert (Hp' : pend (c_ts c) i = Some (f, tk)) by (unfold pend, pw; rewrite Hi, Hw; auto).
      pose proof (inv_persist _ _ _ _ _ _ _ HI Hp') as HI1.
      assert (Hn1 : Pupd (pend (c_ts c)) i None i = None) by (unfold Pupd; rewrite Nat.eqb_refl; auto).
      pose proof (inv_after_exec _ _ _ _ _ _ _ HI1 Hn1 Hp) as HI2.
      eapply inv_ext; [exact HI2 | apply same_seq_refl |].
      intros j. rewrite pupd_twice. eapply pend_upd; eauto.
    + apply tasks_ok_upd; auto.
Qed.

Lemma fifo_ok_spec : forall c i t f tk, nth_error (c_ts c) i = Some t -> t_wait t = WDrain f tk ->
  fifo_ok c i = true -> forall j f' tk', pend (c_ts c) j = Some (f', tk') -> tk <= tk'.
Proof.
  intros c i t f tk Hi Hw Hf j f' tk' Hj. unfold fifo_ok in Hf. rewrite Hi, Hw in Hf.
  rewrite forallb_forall in Hf. unfold pend in Hj.
  destruct (nth_error (c_ts c) j) as [t2|] eqn:E; [|discriminate].
  specialize (Hf _ (nth_error_In _ _ E)). unfold ticket_le in Hf. unfold pw in Hj.
  destruct (t_wait t2); try discriminate. inversion Hj; subst. apply Z.leb_le; auto.
Qed.

Lemma step_invF : forall n0 r0 c i, CInv n0 r0 c -> InvF (c_w c) (pend (c_ts c)) -> fifo_ok c i = true ->
  InvF (c_w (sched_step c i)) (pend (c_ts (sched_step c i))).
Proof.
  intros n0 r0 c i HC HF Hfifo. destruct (nth_error (c_ts c) i) as [t|] eqn:Hi.
  2:{ unfold sched_step. rewrite Hi. auto. }
  destruct (step_shape _ _ _ _ _ HC Hi) as [Hd|[(t'&w'&Hw&Hr&Hok&Hp)|(f&tk&t'&w'&Hw&Hr&Hok&Hp)]].
  - rewrite (sched_step_done _ _ _ Hi Hd). auto.
  - destruct HC as [HI Hall]. unfold sched_step. rewrite Hi, Hr. simpl.
    assert (Hnone : pend (c_ts c) i = None) by (unfold pend, pw; rewrite Hi; destruct Hw as [-> | ->]; auto).
    eapply invF_ext; [eapply invF_after_exec; eauto | apply same_seq_refl |].
    intros j. eapply pend_upd; eauto.
  - destruct HC as [HI Hall]. unfold sched_step. rewrite Hi, Hr. simpl.
    assert (Hp' : pend (c_ts c) i = Some (f, tk)) by (unfold pend, pw; rewrite Hi, Hw; auto).
    pose proof (inv_persist _ _ _ _ _ _ _ HI Hp') as HI1.
    pose proof (invF_persist _ _ _ _ _ _ _ HI HF Hp' (fifo_ok_spec _ _ _ _ _ Hi Hw Hfifo)) as HF1.
    assert (Hn1 : Pupd (pend (c_ts c)) i None i = None) by (unfold Pupd; rewrite Nat.eqb_refl; auto).
    pose proof (invF_after_exec _ _ _ _ _ _ _ HI1 HF1 Hn1 Hp) as HF2.
    eapply invF_ext; [exact HF2 | apply same_seq_refl |].
    intros j. rewrite pupd_twice. eapply pend_upd; eauto.
Qed.

Lemma run_inv : forall n0 r0 sched c, CInv n0 r0 c -> CInv n0 r0 (run_sched c sched).
Proof.
  intros n0 r0 sched. induction sched as [|i s IH]; intros c HC; simpl; auto.
  apply IH. apply step_inv; auto.
Qed.

Lemma run_invF : forall n0 r0 sched c, CInv n0 r0 c -> InvF (c_w c) (pend (c_ts c)) -> fifo_sched c sched = true ->
  InvF (c_w (run_sched c sched)) (pend (c_ts (run_sched c sched))).
Proof.
  intros n0 r0 sched. induction sched as [|i s IH]; intros c HC HF Hs; simpl in *; auto.
  apply andb_true_iff in Hs. destruct Hs as [H1 H2].
  apply IH; auto.
  - apply step_inv; auto.
  - eapply step_invF; eauto.
Qed.

(* ================================================================== 4. exported statements *)

(* the world the scenario starts from: nothing on the (observed) wire yet, journal rows only below
   the live counter, stored counter = live counter - 1 (what create_or_load / a quiescent session has) *)
Definition init_ok (w : world) : Prop :=
  rwire w = [] /\ (forall k, nout w <= k -> row_at k (rows w) = None) /\ sout w = nout w - 1.

Definition fresh_task (t : task) : Prop :=
  t_wait t = WStart /\ safe_code (t_code t) = true /\ t_out t = [] /\ t_exc t = None.

Definition in_drain (ts : list task) (f : frame) : Prop :=
  exists j t tk, nth_error ts j = Some t /\ t_wait t = WDrain f tk.

Definition no_dup_error (ts : list task) : Prop :=
  forall j t, nth_error ts j = Some t -> ~ In (OExc EDupSeq) (t_out t) /\ t_exc t <> Some EDupSeq.

(* the full property on the final configuration c reached from world w0 *)
Definition safe_outcome (w0 : world) (c : config) (fifo : bool) : Prop :=
  let w := c_w c in
  map f_seq (wire_of w) = zseq (nout w0) (length (wire_of w))
  /\ nout w = nout w0 + Z.of_nat (length (wire_of w))
  /\ Forall (fun f => f_pd f = false /\ f_ty f <> T_SEQRESET) (wire_of w)
  /\ no_dup_error (c_ts c)
  /\ (forall f, In f (wire_of w) -> row_at (f_seq f) (rows w) = Some f \/ in_drain (c_ts c) f)
  /\ (forall k f, nout w0 <= k -> row_at k (rows w) = Some f -> In f (wire_of w) /\ f_seq f = k)
  /\ (forall k, k < nout w0 -> row_at k (rows w) = row_at k (rows w0))
  /\ (all_done c = true -> forall f, In f (wire_of w) -> row_at (f_seq f) (rows w) = Some f)
  /\ (fifo = true -> all_done c = true -> sout w = nout w - 1).

Lemma init_cinv : forall w0 ts, init_ok w0 -> Forall fresh_task ts -> CInv (nout w0) (rows w0) (mkC w0 ts).
Proof.
  intros w0 ts (Hw & Hr & Hs) Hts.
  assert (Hp : forall j, pend ts j = None).
  { intros j. unfold pend. destruct (nth_error ts j) as [t|] eqn:E; auto.
    rewrite Forall_forall in Hts. destruct (Hts _ (nth_error_In _ _ E)) as (Hwt&_). unfold pw. rewrite Hwt. auto. }
  split; simpl.
  - constructor; rewrite ?Hw; simpl; auto; try contradiction.
    + lia.
    + intros k f Hk Hf. rewrite Hr in Hf by assumption. discriminate.
    + intros j f tk Hj. rewrite Hp in Hj. discriminate.
    + intros j j' f f' tk tk' Hj. rewrite Hp in Hj. discriminate.
  - intros j t Hj. rewrite Forall_forall in Hts. destruct (Hts _ (nth_error_In _ _ Hj)) as (_&Hc&Ho&He).
    repeat split; auto; [rewrite Ho; intros []|rewrite He; discriminate].
Qed.

Lemma init_invF : forall w0 ts, init_ok w0 -> Forall fresh_task ts -> InvF w0 (pend ts).
Proof.
  intros w0 ts (Hw & Hr & Hs) Hts.
  assert (Hp : forall j, pend ts j = None).
  { intros j. unfold pend. destruct (nth_error ts j) as [t|] eqn:E; auto.
    rewrite Forall_forall in Hts. destruct (Hts _ (nth_error_In _ _ E)) as (Hwt&_). unfold pw. rewrite Hwt. auto. }
  constructor.
  - lia.
  - intros n Hn. lia.
  - intros j f tk Hj. rewrite Hp in Hj. discriminate.
  - intros j j' f f' tk tk' Hj. rewrite Hp in Hj. discriminate.
Qed.

Lemma all_done_pend : forall c, all_done c = true -> forall j, pend (c_ts c) j = None.
Proof.
  intros c Hd j. unfold pend. destruct (nth_error (c_ts c) j) as [t|] eqn:E; auto.
  unfold all_done in Hd. rewrite forallb_forall in Hd. specialize (Hd _ (nth_error_In _ _ E)).
  unfold is_done in Hd. unfold pw. destruct (t_wait t); auto; discriminate.
Qed.

Theorem safe_tasks_safe : forall (w0 : world) (ts : list task) (sched : list nat),
  init_ok w0 -> Forall fresh_task ts ->
  safe_outcome w0 (run_sched (mkC w0 ts) sched) (fifo_sched (mkC w0 ts) sched).
Proof.
  intros w0 ts sched Hw Hts.
  pose proof (run_inv _ _ sched _ (init_cinv _ _ Hw Hts)) as [HI Hok].
  set (c := run_sched (mkC w0 ts) sched) in *.
  unfold safe_outcome. unfold wire_of.
  pose proof (i_len _ _ _ _ HI) as Hlen.
  repeat split.
  - rewrite (consec_zseq _ _ (i_consec _ _ _ _ HI)), rev_length. f_equal. lia.
  - rewrite rev_length. lia.
  - apply Forall_rev. apply (i_new _ _ _ _ HI).
  - destruct (Hok _ _ H) as (_&Hc&_). exact Hc.
  - destruct (Hok _ _ H) as (_&_&He). exact He.
  - intros f Hf. apply in_rev in Hf. destruct (i_cover _ _ _ _ HI f Hf) as [|(j&tk&Hj)]; auto.
    right. unfold pend in Hj. destruct (nth_error (c_ts c) j) as [t|] eqn:E; [|discriminate].
    exists j, t, tk. split; auto. unfold pw in Hj. destruct (t_wait t); try discriminate. inversion Hj; auto.
  - rewrite <- in_rev. destruct (i_rows _ _ _ _ HI k f H H0); auto.
  - destruct (i_rows _ _ _ _ HI k f H H0); auto.
  - apply (i_low _ _ _ _ HI).
  - intros Hd f Hf. apply in_rev in Hf. destruct (i_cover _ _ _ _ HI f Hf) as [|(j&tk&Hj)]; auto.
    rewrite (all_done_pend _ Hd) in Hj. discriminate.
  - intros Hf Hd.
    pose proof (run_invF _ _ sched _ (init_cinv _ _ Hw Hts) (init_invF _ _ Hw Hts) Hf) as HF.
    fold c in HF. pose proof (f_lt _ _ HF).
    destruct (Z_lt_ge_dec (sout (c_w c)) (nout (c_w c) - 1)) as [Hlt|]; [|lia].
    destruct (f_cover _ _ HF (nout (c_w c) - 1) ltac:(lia)) as (j&f&tk&Hj&_).
    rewrite (all_done_pend _ Hd) in Hj. discriminate.
Qed.

Lemma sender_fresh : forall ms, forallb is_new ms = true -> fresh_task (sender_task ms).
Proof.
  intros ms H. repeat split; simpl; auto. unfold safe_code. rewrite forallb_forall in *.
  intros i Hi. apply in_map_iff in Hi. destruct Hi as (m&<-&Hm). simpl. auto.
Qed.

Theorem senders_safe : forall (w0 : world) (mss : list (list msg)) (sched : list nat),
  init_ok w0 -> Forall (fun ms => forallb is_new ms = true) mss ->
  let c0 := mkC w0 (map sender_task mss) in
  safe_outcome w0 (run_sched c0 sched) (fifo_sched c0 sched).
Proof.
  intros w0 mss sched Hw Hm. apply safe_tasks_safe; auto.
  apply Forall_forall. intros t Ht. apply in_map_iff in Ht. destruct Ht as (ms&<-&Hin).
  rewrite Forall_forall in Hm. apply sender_fresh; auto.
Qed.

(* the reader inside the acceptor's Logon handling (3 hooks, 1 send) plus the heartbeat probe plus
   any number of application senders; whatever the connection state is when a task is resumed *)
Theorem logon_window_safe : forall (w0 : world) (mss : list (list msg)) (sched : list nat),
  init_ok w0 -> Forall (fun ms => forallb is_new ms = true) mss ->
  let c0 := mkC w0 (reader_logon :: heartbeat_task :: map sender_task mss) in
  safe_outcome w0 (run_sched c0 sched) (fifo_sched c0 sched).
Proof.
  intros w0 mss sched Hw Hm. apply safe_tasks_safe; auto.
  constructor; [repeat split; reflexivity|]. constructor; [repeat split; reflexivity|].
  apply Forall_forall. intros t Ht. apply in_map_iff in Ht. destruct Ht as (ms&<-&Hin).
  rewrite Forall_forall in Hm. apply sender_fresh; auto.
Qed.

(* the other handlers of the reader task that send: TestRequest reply, gap ResendRequest, on_message *)
Theorem reader_replies_safe : forall (w0 : world) (r : task) (mss : list (list msg)) (sched : list nat),
  init_ok w0 -> In r [reader_testreq; reader_gap; reader_app] ->
  Forall (fun ms => forallb is_new ms = true) mss ->
  let c0 := mkC w0 (r :: heartbeat_task :: map sender_task mss) in
  safe_outcome w0 (run_sched c0 sched) (fifo_sched c0 sched).
Proof.
  intros w0 r mss sched Hw Hr Hm. apply safe_tasks_safe; auto.
  constructor.
  { simpl in Hr. destruct Hr as [<-|[<-|[<-|[]]]]; repeat split; reflexivity. }
  constructor; [repeat split; reflexivity|].
  apply Forall_forall. intros t Ht. apply in_map_iff in Ht. destruct Ht as (ms&<-&Hin).
  rewrite Forall_forall in Hm. apply sender_fresh; auto.
Qed.

(* ================================================================== 5. witnesses *)

Definition app (i : Z) : msg := mkMsg 68 i None false.
Definition active0 : world := mkW 1 0 [] [] S_ACTIVE R_INITIATOR false 0.

(* non-vacuity: two senders x two messages in state ACTIVE, a FIFO schedule; all four go out 1..4,
   all journaled, counter 4 *)
Definition ex_cfg : config := mkC active0 [sender_task [app 1; app 2]; sender_task [app 3; app 4]].
Definition ex_sched : list nat := [0; 1; 0; 1; 0; 1]%nat.

Lemma ex_nonvacuous :
  init_ok active0 /\ fifo_sched ex_cfg ex_sched = true /\ all_done (run_sched ex_cfg ex_sched) = true
  /\ map f_seq (wire_of (c_w (run_sched ex_cfg ex_sched))) = [1; 2; 3; 4]
  /\ map f_id (wire_of (c_w (run_sched ex_cfg ex_sched))) = [1; 3; 2; 4]
  /\ sout (c_w (run_sched ex_cfg ex_sched)) = 4
  /\ map fst (rows (c_w (run_sched ex_cfg ex_sched))) = [1; 2; 3; 4].
Proof. split; [repeat split; auto|]. vm_compute. repeat split; reflexivity. Qed.

(* the world after pre-history ms was sent by one task alone from a fresh session *)
Fixpoint run_alone (fuel : nat) (c : config) : config :=
  match fuel with O => c | S f => if all_done c then c else run_alone f (sched_step c 0%nat) end.
Definition after (pre : list msg) : world :=
  c_w (run_alone (2 * length pre + 2) (mkC active0 [sender_task pre])).

Definition dup_number_on_wire (w : world) : Prop :=
  exists f g, In f (wire_of w) /\ In g (wire_of w) /\ f_seq f = f_seq g /\ f_pd f = false /\ f_pd g = false
              /\ f_ty f <> T_SEQRESET /\ f_ty g <> T_SEQRESET /\ f_id f <> f_id g.

Definition some_dup_error (ts : list task) : Prop :=
  exists j t, nth_error ts j = Some t /\ (In (OExc EDupSeq) (t_out t) \/ t_exc t = Some EDupSeq).

(* highest MsgSeqNum of a new message on the wire *)
Definition highest (w : world) : Z :=
  fold_left Z.max (map f_seq (filter (fun f => negb (f_pd f) && negb (f_ty f =? T_SEQRESET)) (wire_of w))) 0.

(* D12 as seen by C14: an application send STARTS while a ResendRequest is being serviced
   (pre-history: 3 application messages; ResendRequest 1..0).  FIFO schedule, every task ends. *)
Definition rw_cfg : config := mkC (after [app 1; app 2; app 3]) [reader_resend 1 0 []; sender_task [app 9]].
Definition rw_sched : list nat := [0; 0; 1; 0; 1; 0]%nat.

Lemma resend_window_refuted :
  let c := run_sched rw_cfg rw_sched in
  fifo_sched rw_cfg rw_sched = true /\ valid_sched rw_cfg rw_sched = true /\ all_done c = true
  /\ dup_number_on_wire (c_w c) /\ some_dup_error (c_ts c)
  /\ sout (c_w c) = 1 /\ nout (c_w c) = 2 /\ highest (c_w c) = 3.
Proof.
  cbv zeta. repeat split; try (vm_compute; reflexivity).
  - exists (mkF 1 68 false 1), (mkF 1 68 false 9). vm_compute.
    repeat split; auto 12; try discriminate.
  - exists 0%nat. eexists. split; [vm_compute; reflexivity|]. right. reflexivity.
Qed.

(* same window, the DuplicateSeqNoError goes to the application caller this time *)
Definition rw_sched2 : list nat := [0; 0; 0; 0; 1; 1; 0; 0; 0; 0; 0]%nat.

Lemma resend_window_caller_refuted :
  let c := run_sched rw_cfg rw_sched2 in
  fifo_sched rw_cfg rw_sched2 = true /\ valid_sched rw_cfg rw_sched2 = true /\ all_done c = true
  /\ (exists t, nth_error (c_ts c) 1 = Some t /\ t_out t = [OExc EDupSeq])
  /\ dup_number_on_wire (c_w c).
Proof.
  cbv zeta. repeat split; try (vm_compute; reflexivity).
  - eexists. split; vm_compute; reflexivity.
  - exists (mkF 1 68 false 1), (mkF 1 68 false 9). vm_compute.
    repeat split; auto 12; try discriminate.
Qed.

(* the heartbeat task's TestRequest: heartbeat_timer_task only probes in state ACTIVE, so it cannot
   START inside the window - but a probe already suspended in drain when the ResendRequest arrives is
   enough: its number is given out again to the tail gap fill, whose journal write fails, the handler
   aborts and the counter stays rewound.  (pre-history 2 application messages; probe numbered 3) *)
Definition hb_cfg : config := mkC (after [app 1; app 2]) [reader_resend 1 0 []; heartbeat_task].
Definition hb_sched : list nat := [1; 0; 0; 0; 1; 0; 0; 0; 0]%nat.

Lemma heartbeat_inflight_refuted :
  let c := run_sched hb_cfg hb_sched in
  fifo_sched hb_cfg hb_sched = true /\ valid_sched hb_cfg hb_sched = true /\ all_done c = true
  /\ some_dup_error (c_ts c)
  /\ (exists f g, In f (wire_of (c_w c)) /\ In g (wire_of (c_w c)) /\ f_seq f = 3 /\ f_seq g = 3
                  /\ f_ty f = T_TESTREQ /\ f_ty g = T_SEQRESET)
  /\ nout (c_w c) = 1 /\ highest (c_w c) = 3 /\ st (c_w c) = S_HANDLING.
Proof.
  cbv zeta. repeat split; try (vm_compute; reflexivity).
  - exists 0%nat. eexists. split; [vm_compute; reflexivity|]. right. reflexivity.
  - exists (mkF 3 49 false 0), (mkF 3 52 false 4). vm_compute. repeat split; auto 10.
Qed.

(* why the wake-up rule is a hypothesis of the counter clause: LIFO wake-up of two drain waiters
   leaves the stored counter below the highest number sent (everything else still holds) *)
Definition lifo_cfg : config := mkC active0 [sender_task [app 1]; sender_task [app 2]].
Definition lifo_sched : list nat := [0; 1; 1; 0]%nat.

Lemma lifo_counter_refuted :
  let c := run_sched lifo_cfg lifo_sched in
  fifo_sched lifo_cfg lifo_sched = false /\ valid_sched lifo_cfg lifo_sched = true /\ all_done c = true
  /\ map f_seq (wire_of (c_w c)) = [1; 2] /\ sout (c_w c) = 1 /\ nout (c_w c) = 3.
Proof. vm_compute. repeat split; reflexivity. Qed.
