(* LexL: proofs relating the model Fix/ValidateValue.v (patched SchemaField.validate_value) to the specification
   Fix/Lex.v (FIX 4.4 lexical spaces) - C19. *)
From Coq Require Import ZArith NArith List Bool Lia ZifyBool.
From AF Require Import Base.Sx Py.Str Fix.Lex Fix.ValidateValue.
Import ListNotations.
Open Scope N_scope.

(* ================================================================ generic list / string facts *)

Lemma str_eqb_eq : forall a b, str_eqb a b = true <-> a = b.
Proof.
  unfold str_eqb. induction a as [|x a IH]; destruct b as [|y b]; split; intro H; try reflexivity; try discriminate.
  - apply andb_prop in H. destruct H as [H1 H2]. apply N.eqb_eq in H1. apply IH in H2. subst. reflexivity.
  - inversion H; subst. rewrite N.eqb_refl. simpl. apply IH. reflexivity.
Qed.

Lemma str_eqb_refl : forall a, str_eqb a a = true.
Proof. intro a. apply str_eqb_eq. reflexivity. Qed.

Lemma mem_str_In : forall s l, mem_str s l = true <-> In s l.
Proof.
  intros s l. unfold mem_str. rewrite existsb_exists. split.
  - intros [x [Hin He]]. apply str_eqb_eq in He. subst. exact Hin.
  - intro Hin. exists s. split; [exact Hin | apply str_eqb_refl].
Qed.

Lemma code_eqb_eq : forall a b, code_eqb a b = true <-> a = b.
Proof.
  unfold code_eqb. induction a as [|x a IH]; destruct b as [|y b]; split; intro H; try reflexivity; try discriminate.
  - simpl in H. apply andb_prop in H. destruct H as [Hl H]. apply andb_prop in H. destruct H as [H1 H2].
    simpl in H1. apply N.eqb_eq in H1. subst.
    f_equal. apply IH. rewrite Hl. exact H2.
  - inversion H; subst. simpl. rewrite Nat.eqb_refl, N.eqb_refl. simpl.
    assert (E : b = b) by reflexivity. apply IH in E. rewrite Nat.eqb_refl in E. exact E.
Qed.

Lemma forallb_rev : forall (A : Type) (f : A -> bool) l, forallb f (rev l) = forallb f l.
Proof.
  intros A f l. destruct (forallb f l) eqn:E.
  - apply forallb_forall. intros x Hx. apply in_rev in Hx. rewrite forallb_forall in E. auto.
  - destruct (forallb f (rev l)) eqn:E2; [|reflexivity].
    rewrite <- E. symmetry. apply forallb_forall. intros x Hx. rewrite forallb_forall in E2. apply E2.
    apply in_rev. rewrite rev_involutive. exact Hx.
Qed.

Lemma filter_all : forall (A : Type) (f : A -> bool) l, forallb f l = true -> filter f l = l.
Proof.
  induction l as [|x l IH]; simpl; intro H; [reflexivity|].
  apply andb_prop in H. destruct H as [H1 H2]. rewrite H1. f_equal. auto.
Qed.

(* characters *)
Lemma dig_bounds : forall c, dig c = true <-> 48 <= c <= 57.
Proof. intro c. unfold dig. lia. Qed.

Lemma dig_not_ws : forall c, dig c = true -> ws_str c = false.
Proof. intros c H. unfold dig in H. unfold ws_str. lia. Qed.

(* deciding whether a code point is a given small constant by looking at its bits *)
Ltac bits c := destruct c as [|c]; [|do 7 (try destruct c as [c|c|])].

(* ================================================================ int(): py_int on strings of the layout -?[0-9]+ *)

Lemma lstrip_nonws : forall ws s, forallb (fun c => negb (ws c)) s = true -> lstrip ws s = s.
Proof.
  intros ws s H. destruct s as [|c s]; [reflexivity|]. simpl in *.
  apply andb_prop in H. destruct H as [H _]. apply negb_true_iff in H. rewrite H. reflexivity.
Qed.

Lemma strip_nonws : forall ws s, forallb (fun c => negb (ws c)) s = true -> strip ws s = s.
Proof.
  intros ws s H. unfold strip. rewrite (lstrip_nonws ws s H).
  rewrite lstrip_nonws; [apply rev_involutive|]. rewrite forallb_rev. exact H.
Qed.

Lemma digits_us_digits : forall s acc, forallb dig s = true ->
  digits_us s acc false = Some (fold_left (fun a c => 10 * a + (c - 48)) s acc).
Proof.
  induction s as [|c s IH]; intros acc H; [reflexivity|].
  simpl in H. apply andb_prop in H. destruct H as [H1 H2].
  cbn [digits_us fold_left]. change (is_digit c) with (dig c). rewrite H1. apply IH. exact H2.
Qed.

(* int() of an ASCII digit string, possibly after a minus sign *)
Lemma py_int_unsigned : forall b, b <> [] -> forallb dig b = true ->
  py_int b = if 4300 <? N.of_nat (length b) then None else Some (Z.of_N (num b)).
Proof.
  intros b Hne Hd. unfold py_int, py_int_gen.
  rewrite strip_nonws.
  2:{ apply forallb_forall. intros x Hx. rewrite forallb_forall in Hd. rewrite (dig_not_ws x (Hd x Hx)). reflexivity. }
  destruct b as [|c r]; [congruence|].
  assert (Hc : dig c = true) by (simpl in Hd; apply andb_prop in Hd; tauto).
  assert (Hf : filter is_digit (c :: r) = c :: r) by (apply filter_all; exact Hd).
  assert (Hu : digits_us (c :: r) 0 false = Some (num (c :: r))) by (apply digits_us_digits; exact Hd).
  apply dig_bounds in Hc.
  assert (Hcases : c = 48 \/ c = 49 \/ c = 50 \/ c = 51 \/ c = 52 \/ c = 53 \/ c = 54 \/ c = 55 \/ c = 56 \/ c = 57) by lia.
  clear Hc Hd Hne.
  repeat (destruct Hcases as [Hcases | Hcases]; [subst c; cbv beta iota; rewrite Hf, Hu; reflexivity|]).
  subst c; cbv beta iota; rewrite Hf, Hu; reflexivity.
Qed.

Lemma py_int_minus : forall b, b <> [] -> forallb dig b = true ->
  py_int (45 :: b) = if 4300 <? N.of_nat (length b) then None else Some (- Z.of_N (num b))%Z.
Proof.
  intros b Hne Hd. unfold py_int, py_int_gen.
  rewrite strip_nonws.
  2:{ simpl. apply forallb_forall. intros x Hx. rewrite forallb_forall in Hd. rewrite (dig_not_ws x (Hd x Hx)). reflexivity. }
  cbv beta iota.
  destruct b as [|c r]; [congruence|].
  assert (Hc : dig c = true) by (simpl in Hd; apply andb_prop in Hd; tauto).
  rewrite (filter_all _ is_digit (c :: r) Hd).
  rewrite (digits_us_digits (c :: r) 0 Hd).
  change (is_digit c) with (dig c). rewrite Hc. reflexivity.
Qed.

(* ================================================================ the int family *)

Lemma opt_minus_cases : forall s,
  (exists r, s = 45 :: r /\ opt_minus s = r /\ is_neg s = true)
  \/ (opt_minus s = s /\ is_neg s = false /\ forall r, s <> 45 :: r).
Proof.
  destruct s as [|c r].
  - right. repeat split. intros r H. discriminate.
  - bits c;
    first [ left; eexists; repeat split; reflexivity
          | right; repeat split; intros r' H'; discriminate ].
Qed.

Lemma layout_int_lex : forall s, layout_int s = lex_int s.
Proof.
  intro s. unfold layout_int, lex_int, digs. change (unsigned s) with (opt_minus s).
  destruct (opt_minus s); reflexivity.
Qed.

Definition int_ok (nz nn : bool) (rg : option (Z * Z)) (v : Z) : bool :=
  negb (nz && (v =? 0)%Z) && negb (nn && (v <? 0)%Z)
  && match rg with Some (lo, hi) => (lo <=? v)%Z && (v <=? hi)%Z | None => true end.

Lemma validate_int_spec : forall nz nn rg s,
  validate_int nz nn rg s = negb (lex_int s && negb (too_many_digits s) && int_ok nz nn rg (int_value s)).
Proof.
  intros nz nn rg s. destruct (lex_int s) eqn:L.
  - assert (HL : layout_int s = true) by (rewrite layout_int_lex; exact L).
    unfold lex_int, digs in L. change (unsigned s) with (opt_minus s) in L.
    apply andb_prop in L. destruct L as [Hne Hd].
    unfold validate_int, too_many_digits, int_value. change (unsigned s) with (opt_minus s). rewrite HL.
    destruct (opt_minus_cases s) as [[r [Hs [Hu Hn]]] | [Hu [Hn _]]]; rewrite Hu in *; rewrite Hn.
    + subst s. rewrite py_int_minus; [| destruct r; [discriminate | congruence] | exact Hd].
      cbn [filter]. change (dig 45) with false. cbv iota. rewrite (filter_all _ dig r Hd).
      destruct (4300 <? N.of_nat (length r)); [reflexivity|].
      unfold int_ok. match goal with |- context [(?x =? 0)%Z] => set (v := x) end.
      destruct nz, nn, rg as [[lo hi]|]; cbn [negb andb];
        destruct (v =? 0)%Z; destruct (v <? 0)%Z; try destruct (lo <=? v)%Z; try destruct (v <=? hi)%Z; reflexivity.
    + rewrite py_int_unsigned; [| destruct s; [discriminate | congruence] | exact Hd].
      rewrite (filter_all _ dig s Hd).
      destruct (4300 <? N.of_nat (length s)); [reflexivity|].
      unfold int_ok. match goal with |- context [(?x =? 0)%Z] => set (v := x) end.
      destruct nz, nn, rg as [[lo hi]|]; cbn [negb andb];
        destruct (v =? 0)%Z; destruct (v <? 0)%Z; try destruct (lo <=? v)%Z; try destruct (v <=? hi)%Z; reflexivity.
  - cbn [andb negb]. unfold validate_int. rewrite layout_int_lex, L.
    destruct (py_int s); [|reflexivity].
    repeat match goal with |- context [if ?b then _ else _] => destruct b end; reflexivity.
Qed.
