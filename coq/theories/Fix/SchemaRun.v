(* Sx front end of the schema-validation model (C15).

   request  [dict, msg_type, entries, verdicts]
     dict      0 = tests/FIX44.xml, 1 = tests/TT-FIX44.xml (the regenerated AFGen.GenSchema dumps)
     msg_type  text
     entries   [entry, ...]   entry = [tag, 0, text]  |  [tag, 1, [item, ...]]   item = [entry, ...]
     verdicts  [[tag, text, code], ...]  what the REAL SchemaField.validate_value did for the field
               with that tag on that text: 0 returned, 1 FIXMessageError, 2 AssertionError,
               n >= 3 another exception class (numbered by the harness)
   answer    0 validate returned | 1 FIXMessageError | 2 AssertionError | n other class
             | [-1, k] malformed request.
   A (tag, text) pair the harness did not supply counts as exception class 99, so that a value
   check the model performs and the harness did not foresee shows up as a disagreement. *)
From Coq Require Import ZArith NArith List Bool.
From AF Require Import Base.Sx Py.Str Fix.SchemaModel.
From AFGen Require Import GenSchema.
Import ListNotations.
Open Scope Z_scope.

Fixpoint parse_entry (fuel : nat) (s : sx) : option (str * value) :=
  match fuel with
  | O => None
  | S fuel' =>
      match s with
      | SL [t; SI k; body] =>
          match get_str t with
          | None => None
          | Some tag =>
              if k =? 0 then option_map (fun v => (tag, VStr v)) (get_str body)
              else
                match body with
                | SL items =>
                    option_map (fun its => (tag, VGrp its))
                      (opt_all (map (fun it => match it with
                                               | SL es => opt_all (map (parse_entry fuel') es)
                                               | _ => None
                                               end) items))
                | _ => None
                end
          end
      | _ => None
      end
  end.

Definition parse_entries (s : sx) : option container :=
  match s with
  | SL es => opt_all (map (parse_entry 64) es)
  | _ => None
  end.

Definition exc_of_code (n : N) : option exc :=
  if N.eqb n 0 then None else if N.eqb n 1 then Some EFIXMessage
  else if N.eqb n 2 then Some EAssertion else Some (EOther n).

Definition parse_verdict (s : sx) : option (str * str * N) :=
  match s with
  | SL [t; v; c] =>
      match get_str t, get_str v, get_N c with
      | Some t', Some v', Some c' => Some (t', v', c')
      | _, _, _ => None
      end
  | _ => None
  end.

Definition check_from (tbl : list (str * str * N)) (f : field) (s : str) : option exc :=
  match find (fun r => str_eqb (fst (fst r)) (f_tag f) && str_eqb (snd (fst r)) s) tbl with
  | Some r => exc_of_code (snd r)
  | None => Some (EOther 99)
  end.

Definition sx_res (r : res) : sx :=
  match r with
  | Ok => SI 0
  | Exc EFIXMessage => SI 1
  | Exc EAssertion => SI 2
  | Exc (EOther n) => SI (Z.of_N n)
  end.

Definition dict (d : Z) : option schema :=
  if d =? 0 then Some FIX44.schema else if d =? 1 then Some TT.schema else None.

Definition run (s : sx) : sx :=
  match s with
  | SL [SI d; mt; es; vs] =>
      match dict d, get_str mt, parse_entries es, get_list parse_verdict vs with
      | Some Sc, Some mt', Some es', Some tbl => sx_res (validate (check_from tbl) Sc (mkMsg mt' es'))
      | None, _, _, _ => err_sx 1
      | _, None, _, _ => err_sx 2
      | _, _, None, _ => err_sx 3
      | _, _, _, None => err_sx 4
      end
  | _ => err_sx 5
  end.

Definition entry (line : str) : str := run_line run line.
