"""C06 - a ResendRequest is answered completely, in order and without side effects.

Theorems (Props/C06.v) are about coq/theories/Fix/Resend.v, a message-level model of
AsyncFIXConnection._process_resend and its call site in _process_message (repairs D12, R3c, R5a, R5b, R6a, R6b) with what they call (Journaler.recover_messages / set_seq_num /
persist_msg, send_msg, the codec's sequence-number selection).  This harness ties the model to the
code: a real AsyncFIXDummyServer over a real SQLite Journaler (no sockets: fake writer, dummy
reader) sends a journal of messages, optionally answers earlier ResendRequests and
loses rows (holes), then receives one ResendRequest frame.  The extracted model is run on the
observed pre-state and must reproduce the reply frames, the journal, the counters, the state and
the swallowed exception class; an independent oracle written from the property text decides the
property on the implementation's behaviour.

A case (JSON):
  {"slots": [...], "begin": "2" | null, "end": "0" | null, "state": "ACTIVE" | "AWAITING"}
slot k (1-based) describes outbound number k:  <type><flags>
  type  A Logon (slot 1 is always the real Logon reply)  0 Heartbeat  1 TestRequest  2 ResendRequest
        4 SequenceReset  5 Logout  D NewOrderSingle  J AllocationInstruction (repeating group)
        8 ExecutionReport
        E B K Q Y W Z X  application messages of type AE AB A1 0Q 1A 2Z 4B 5X (a session-level MsgType value is
        a proper prefix of theirs)
  flags d  the application's replay filter declines this number
        l  the number was already covered by an earlier, complete ResendRequest
           (maximal runs of l-slots are re-requested right after their last message was sent;
           since the D12 repair this leaves the journal as it was)
        p  (type D) the message was sent with PossDupFlag=N in the middle of its body
        q  (type D) the message was sent with OrigSendingTime as the first tag of its body
        h  the row is missing from the journal (deleted after everything else)
state AWAITING: the connection itself awaits a resend (a too-high inbound message made it send a
ResendRequest, which occupies one more outbound number after the slots).
"""
import asyncio
import faulthandler
import json
import logging
import os
import sys
import time

from vlib.core import sx

META = {
    "level": "proof",
    "tables": ["GenEnums", "GenConst"],
    "files": ["asyncfix/connection.py", "asyncfix/journaler.py", "asyncfix/codec.py", "asyncfix/session.py"],
    "rule": "exhaustive journals up to length 2 over the slot alphabet, random journals up to length 8 (thorough 12) with "
            "slots in {3 application types, 8 application types whose MsgType has a session type value as proper prefix, 6 session types, declined, hole, already resent once, sent with tag 43 / 122} x ALL (Begin, End) "
            "in [-1, len+2]^2 incl. End=0 x {ACTIVE, RESENDREQ_AWAITING}, plus a malformed stream (missing / non-numeric / "
            "lenient / 64-bit-overflowing BeginSeqNo, EndSeqNo); a case is one (journal, request, start state); non-trivial "
            "when the request is well formed with Begin < next_num_out (something is replayed or gap-filled); distinct by "
            "canonical case",
    "trusted_base": [
        "message-level abstraction of Fix/Resend.v: a journal row is (number, MsgType, SendingTime, flat body fields); "
        "Codec.decode/encode of codec-produced frames is taken to be the identity on that view (validated on every case here; C01)",
        "the set of names in noreply_msgs is hand-copied into Fix/Resend.v (no GenConst translator yet); their FMsg values and the "
        "ConnectionState numbers are read from the regenerated GenEnums; every session message type is a journal slot here, so a "
        "changed set surfaces as a disagreement",
        "SQLite journal modelled as a keyed row list with a stored counter (C13 validates the byte-level journal)",
    ],
    "assumptions": [
        "journal rows are frames produced by this codec (canonical 34, body tags canonical decimal and distinct from the header tags), "
        "unique per number, all below next_num_out, stored counter = next_num_out - 1 (C05/C13 invariants; hypotheses journal_ok / NoDup)",
        "single task: nothing else sends while the request is handled (C14 covers interleavings)",
        "acceptor role (AsyncFIXDummyServer); the send gates of an initiator are not reachable from the resend handler",
    ],
}

SESSION_TYPES = ["A", "0", "1", "2", "4", "5"]
APP_TYPES = ["D", "J", "8"]
# application message types whose MsgType value has the value of a session-level type as a proper prefix
# (standard two-letter types AE TradeCaptureReport, AB NewOrderMultileg and custom types): slot letter -> MsgType.
# The session-level test must compare the whole value of tag 35, never a prefix of it / of the raw frame.
PREFIX_TYPES = {"E": "AE", "B": "AB", "K": "A1", "Q": "0Q", "Y": "1A", "W": "2Z", "Z": "4B", "X": "5X"}
ST = {"ACTIVE": 17, "AWAITING": 12, "HANDLING": 10}
EXC_CODES = {
    None: 0, "AssertionError": 1, "DuplicatedTagError": 2, "TagNotFoundError": 3, "ValueError": 4,
    "DuplicateSeqNoError": 5, "FIXConnectionError": 6, "OverflowError": 7, "EncodingError": 8,
}
INT64_MAX = 2 ** 63 - 1


# =========================================================================================
# Implementation driver.  All private-name access of asyncfix lives in class Adapter.
# =========================================================================================

class Adapter:
    """The only place that touches private names of asyncfix."""

    @staticmethod
    async def accept(conn, reader, writer):
        await conn._handle_accept(reader, writer)

    @staticmethod
    async def deliver(conn, msg, raw):
        await conn._process_message(msg, raw)

    @staticmethod
    def session(conn):
        return conn._session

    @staticmethod
    def codec(conn):
        return conn._codec

    @staticmethod
    def pending_test_req_id(conn):
        return None if conn._test_req_id is None else str(conn._test_req_id)


class FakeWriter:
    def __init__(self):
        self.frames = []
        self.closed = False

    def write(self, data):
        self.frames.append(bytes(data))

    async def drain(self):
        return None

    def close(self):
        self.closed = True

    async def wait_closed(self):
        return None

    def get_extra_info(self, name, default=None):
        return ("harness", 0)


class DummyReader:
    def __bool__(self):
        return True

    async def read(self, n=-1):
        await asyncio.sleep(3600)
        return b""


class ExcCatcher(logging.Handler):
    """Records the class of exceptions the library swallows and logs with log.exception."""

    def __init__(self):
        super().__init__(level=logging.ERROR)
        self.classes = []

    def emit(self, record):
        if record.exc_info and record.exc_info[0] is not None:
            self.classes.append(record.exc_info[0].__name__)


class Clock:
    """Codec.current_datetime replacement: T<k>, one tick per encoded frame of the connection under test."""

    def __init__(self):
        self.t = 0

    def __call__(self):
        self.t += 1
        return "T%d" % self.t


def split_frame(raw):
    """Flat (tag, value) list of a frame, independent of the codec."""
    parts = raw.decode("latin-1").split("\x01")
    assert parts[-1] == "", raw
    out = []
    for p in parts[:-1]:
        t, _, v = p.partition("=")
        out.append((t, v))
    return out


def row_of_frame(raw, key=None):
    """(seq, type, time, body) view of a codec-produced frame; body = fields after 52 up to 10."""
    f = split_frame(raw)
    tags = [t for t, _ in f[:7]]
    if tags != ["8", "9", "35", "49", "56", "34", "52"] or f[-1][0] != "10":
        raise ValueError("unexpected frame layout %r" % (raw,))
    seq = int(f[5][1])
    if key is not None and key != seq:
        raise ValueError("row key %r differs from its MsgSeqNum %r" % (key, seq))
    return [seq, f[2][1], f[6][1], [[t, v] for t, v in f[7:-1]]]


class Env:
    """One real connection + journal + peer."""

    def __init__(self, declined=()):
        from asyncfix import FIXMessage, FMsg, FTag  # noqa: F401
        from asyncfix.codec import Codec
        from asyncfix.connection_server import AsyncFIXDummyServer
        from asyncfix.journaler import Journaler
        from asyncfix.protocol import FIXProtocol44
        from asyncfix.session import FIXSession

        self.declined = set(declined)
        self.replay_calls = []
        self.app_msgs = []
        self.state_changes = []
        env = self

        class Server(AsyncFIXDummyServer):
            async def should_replay(self, historical_replay_msg):
                n = int(historical_replay_msg[FTag.MsgSeqNum])
                env.replay_calls.append(n)
                return n not in env.declined

            async def on_connect(self):
                pass

            async def on_message(self, msg):
                env.app_msgs.append(msg)

            async def on_state_change(self, connection_state):
                env.state_changes.append(int(connection_state))

        class PeerCodec(Codec):
            @staticmethod
            def current_datetime():
                return "P"

        self.clock = Clock()
        self._orig_dt = Codec.current_datetime
        Codec.current_datetime = staticmethod(self.clock)
        self.Codec = Codec
        self.catcher = ExcCatcher()
        self.log = logging.getLogger("c06.%d" % id(self))
        self.log.propagate = False
        self.log.setLevel(logging.ERROR)
        self.log.addHandler(self.catcher)
        self.journaler = Journaler(None)
        self.conn = Server(FIXProtocol44(), "SRV", "CLI", self.journaler, "localhost", 0, 30, self.log)
        self.peer_codec = PeerCodec(FIXProtocol44())
        self.peer = FIXSession(99, "SRV", "CLI")   # the peer sends 49=CLI 56=SRV
        self.peer.next_num_out = 1
        self.peer.next_num_in = 1
        self.writer = FakeWriter()

    def close(self):
        self.Codec.current_datetime = self._orig_dt
        self.log.removeHandler(self.catcher)

    # ---- peer side
    async def peer_send(self, msg, seq=None):
        """Encode a real frame on the peer's session and hand it to the dispatcher."""
        from asyncfix import FTag
        if seq is not None:
            self.peer.next_num_out = seq
        raw = self.peer_codec.encode(msg, self.peer).encode("latin-1")
        dec, n, rawmsg = self.peer_codec.decode(raw, silent=False)
        assert n == len(raw)
        await Adapter.deliver(self.conn, dec, rawmsg)

    # ---- observation
    def sess(self):
        return Adapter.session(self.conn)

    def rows(self):
        from asyncfix.message import MessageDirection
        out = []
        for seq, raw, direction, sid in self.journaler.get_all_msgs(direction=MessageDirection.OUTBOUND):
            out.append(row_of_frame(raw, seq))
        return out                      # rowid order

    def inbound_keys(self):
        from asyncfix.message import MessageDirection
        return sorted(r[0] for r in self.journaler.get_all_msgs(direction=MessageDirection.INBOUND))

    def stored(self):
        s = list(self.journaler.sessions().values())
        assert len(s) == 1
        return s[0].next_num_out - 1, s[0].next_num_in - 1

    def snapshot(self):
        so, si = self.stored()
        return {"state": int(self.conn.connection_state), "nout": self.sess().next_num_out, "sout": so,
                "nin": self.sess().next_num_in, "sin": si, "clock": self.clock.t, "rows": self.rows(),
                "testreq": Adapter.pending_test_req_id(self.conn),
                "inbound": self.inbound_keys()}


def parse_slot(s):
    return s[0], set(s[1:])


async def build(env, slots, state):
    """Send the journal of a case for real; returns the number of outbound numbers used."""
    from asyncfix import FIXMessage, FMsg, FTag
    from asyncfix.connection import ConnectionState
    from asyncfix.message import MessageDirection

    conn, j = env.conn, env.journaler
    await Adapter.accept(conn, DummyReader(), env.writer)
    # real logon: the peer's Logon makes the acceptor reply (outbound number 1) and go ACTIVE
    await env.peer_send(FIXMessage(FMsg.LOGON, {FTag.EncryptMethod: 0, FTag.HeartBtInt: 30}))
    assert conn.connection_state == ConnectionState.ACTIVE, conn.connection_state
    assert parse_slot(slots[0])[0] == "A"
    run_start = None
    for k, s in enumerate(slots, start=1):
        typ, flags = parse_slot(s)
        sess = env.sess()
        assert sess.next_num_out == (k if k > 1 else 2), (k, sess.next_num_out)
        if k == 1:
            pass
        elif typ == "D" and "p" in flags:
            await conn.send_msg(FIXMessage(FMsg.NEWORDERSINGLE, {11: "c%d" % k, 43: "N", 55: "SYM"}))
        elif typ == "D" and "q" in flags:
            await conn.send_msg(FIXMessage(FMsg.NEWORDERSINGLE, {122: "X%d" % k, 11: "c%d" % k}))
        elif typ == "D":
            await conn.send_msg(FIXMessage(FMsg.NEWORDERSINGLE, {11: "c%d" % k, 55: "SYM", 54: 1, 38: 10 * k}))
        elif typ == "J":
            await conn.send_msg(FIXMessage("J", {70: "a%d" % k, 78: [{79: "x", 80: 1}, {79: "y", 80: 2, 467: "i"}], 58: "t=%d" % k}))
        elif typ in PREFIX_TYPES:
            await conn.send_msg(FIXMessage(PREFIX_TYPES[typ], {11: "c%d" % k, 58: "type %s" % PREFIX_TYPES[typ]}))
        elif typ == "8":
            await conn.send_msg(FIXMessage(FMsg.EXECUTIONREPORT, {37: "o%d" % k, 17: "e%d" % k, 150: "0", 39: "0"}))
        elif typ == "A":
            await conn.send_msg(FIXMessage(FMsg.LOGON, {FTag.EncryptMethod: 0, FTag.HeartBtInt: 30}))
        elif typ == "0":
            await conn.send_msg(FIXMessage(FMsg.HEARTBEAT))
        elif typ == "1":
            await conn.send_test_req()
            # the peer answers, which clears the pending TestReqID
            req_id = split_dict(env.writer.frames[-1])["112"]
            await env.peer_send(FIXMessage(FMsg.HEARTBEAT, {FTag.TestReqID: req_id}))
        elif typ == "2":
            await conn.send_msg(FIXMessage(FMsg.RESENDREQUEST, {FTag.BeginSeqNo: 1, FTag.EndSeqNo: 0}))
        elif typ == "4":
            await conn.send_msg(FIXMessage(FMsg.SEQUENCERESET, {FTag.MsgSeqNum: k, FTag.NewSeqNo: k + 1}))
            j.set_seq_num(sess, next_num_out=k + 1)     # the application moves its own counter past the reset
        elif typ == "5":
            # Logout through send_msg would be fine in ACTIVE, but disconnect() is the only sender of it
            # and closes the session: journal an encoded Logout directly.
            raw = Adapter.codec(conn).encode(FIXMessage(FMsg.LOGOUT, {58: "bye"}), sess).encode("utf-8")
            j.persist_msg(raw, sess, MessageDirection.OUTBOUND)
        else:
            raise ValueError("slot %r" % s)
        assert env.sess().next_num_out == k + 1, (s, env.sess().next_num_out)
        if "l" in flags and run_start is None:
            run_start = k
        nxt_l = k < len(slots) and "l" in parse_slot(slots[k])[1]
        if run_start is not None and not nxt_l:
            await env.peer_send(FIXMessage(FMsg.RESENDREQUEST, {FTag.BeginSeqNo: run_start, FTag.EndSeqNo: 0}))
            assert conn.connection_state == ConnectionState.ACTIVE and env.sess().next_num_out == k + 1, \
                "earlier resend did not complete: %r" % (slots,)
            run_start = None
    for k, s in enumerate(slots, start=1):
        if "h" in parse_slot(s)[1]:
            j.conn.execute("DELETE FROM message WHERE seqNo = ? AND direction = ?", (k, MessageDirection.OUTBOUND.value))
            j.conn.commit()
    n = len(slots)
    if state == "AWAITING":
        # a too-high application message: the connection sends its own ResendRequest and awaits
        await env.peer_send(FIXMessage(FMsg.NEWORDERSINGLE, {11: "gap"}), seq=env.peer.next_num_out + 2)
        assert conn.connection_state == ConnectionState.RESENDREQ_AWAITING
        n += 1
    env.writer.frames.clear()
    env.replay_calls.clear()
    env.state_changes.clear()
    env.catcher.classes.clear()
    return n


def split_dict(raw):
    return dict(split_frame(raw))


def declined_of(slots):
    return [k for k, s in enumerate(slots, start=1) if "d" in parse_slot(s)[1]]


async def run_case_async(case):
    from asyncfix import FIXMessage, FMsg
    env = Env(declined_of(case["slots"]))
    try:
        await build(env, case["slots"], case["state"])
        pre = env.snapshot()
        tags = {}
        if case["begin"] is not None:
            tags[7] = case["begin"]
        if case["end"] is not None:
            tags[16] = case["end"]
        escaped = None
        try:
            await env.peer_send(FIXMessage(FMsg.RESENDREQUEST, tags))
        except Exception as e:       # nothing may escape the dispatcher
            escaped = type(e).__name__
        post = env.snapshot()
        wire = []
        codec = Adapter.codec(env.conn)
        for fr in env.writer.frames:
            dec, used, raw = codec.decode(fr, silent=True)
            ok = dec is not None and used == len(fr)
            wire.append(row_of_frame(fr) + [1 if ok else 0])
        swallowed = env.catcher.classes[:]
        return {"pre": pre, "post": post, "wire": wire, "calls": env.replay_calls[:],
                "swallowed": swallowed, "escaped": escaped, "states": env.state_changes[:], "declined": declined_of(case["slots"])}
    finally:
        env.close()


def run_case(case, timeout=20):
    return asyncio.run(asyncio.wait_for(run_case_async(case), timeout))


# =========================================================================================
# Model request / projections
# =========================================================================================

def by_seq(rows):
    return sorted(rows, key=lambda r: r[0])


def sx_rows(rows):
    return "[" + ",".join("[%d,%s,%s,[%s]]" % (r[0], sx(r[1]), sx(r[2]), ",".join("[%s,%s]" % (sx(t), sx(v)) for t, v in r[3]))
                          for r in rows) + "]"


def sx_optstr(v):
    return "[]" if v is None else "[%s]" % sx(v)


def model_request(case, obs):
    pre = obs["pre"]
    return "[%d,0,%s,%d,%d,%d,%s,%s,%s,%s]" % (
        pre["state"], sx_optstr(pre["testreq"]), pre["nout"], pre["sout"], pre["clock"], sx_rows(pre["rows"]),
        sx_optstr(case["begin"]), sx_optstr(case["end"]), sx(obs["declined"]))


def txt(v):
    return "".join(chr(c) for c in v)


def unsx_rows(v):
    return [[r[0], txt(r[1]), txt(r[2]), [[txt(t), txt(x)] for t, x in r[3]]] for r in v]


def model_projection(res):
    if not (isinstance(res, list) and len(res) == 9):
        return {"model_error": res}
    return {"exc": res[0], "state": res[1], "nout": res[2], "sout": res[3], "clock": res[4],
            "rows": by_seq(unsx_rows(res[5])), "wire": unsx_rows(res[6]), "calls": res[7], "states": res[8]}


def impl_projection(obs):
    post = obs["post"]
    sw = obs["swallowed"]
    exc = 0 if not sw else (EXC_CODES.get(sw[0], [99, sw[0]]) if len(sw) == 1 else [98, sw])
    return {"exc": exc, "state": post["state"], "nout": post["nout"], "sout": post["sout"], "clock": post["clock"],
            "rows": by_seq(post["rows"]), "wire": [w[:4] for w in obs["wire"]], "calls": obs["calls"],
            "states": obs["states"]}


# =========================================================================================
# Property oracle (independent of the model: written from the property text)
# =========================================================================================

def req_int(v):
    if v is None:
        return None
    try:
        return int(v)
    except ValueError:
        return None


def reference_reply(pre, b, e, declined):
    """Expected chain for ResendRequest(b, e) over the pre-state journal, as
    ('R', n) retransmission of number n | ('G', first, new_seq_no)."""
    last = pre["nout"] - 1
    if b is not None:
        b = max(b, 1)             # a BeginSeqNo below 1 is read as "from the first message" (accepted repair)
    if b is None or e is None or (e != 0 and e < b):
        return [], None           # invalid request: nothing is retransmitted
    hi = last if e == 0 else min(e, last)
    J = {r[0]: r for r in pre["rows"]}
    out, gap = [], None
    for n in range(b, hi + 1):
        r = J.get(n)
        if r is not None and r[1] not in SESSION_TYPES and n not in declined:
            if gap is not None:
                out.append(("G", gap, n))
                gap = None
            out.append(("R", n))
        elif gap is None:
            gap = n
    if gap is not None:
        out.append(("G", gap, hi + 1))
    return out, (b, hi)


def upsert(fields, tag, value):
    out, done = [], False
    for t, v in fields:
        if t == tag and not done:
            out.append([tag, value])
            done = True
        else:
            out.append([t, v])
    if not done:
        out.append([tag, value])
    return out


def check_property(case, obs):
    """List of breaches of the property text by the observed behaviour (empty: property holds)."""
    pre, post = obs["pre"], obs["post"]
    bad = []
    b, e = req_int(case["begin"]), req_int(case["end"])
    want, rng = reference_reply(pre, b, e, set(obs["declined"]))
    J = {r[0]: r for r in pre["rows"]}
    got = obs["wire"]
    if obs["escaped"]:
        bad.append("exception %s escaped the dispatcher" % obs["escaped"])
    # ---- the reply
    if len(got) != len(want):
        bad.append("reply has %d frame(s) %s, expected %d %s" % (
            len(got), [(w[1], w[0], dict(map(tuple, w[3])).get("36")) for w in got], len(want), want))
    else:
        for w, x in zip(got, want):
            f = dict(map(tuple, w[3]))
            if not w[4]:
                bad.append("frame %d does not decode" % w[0])
            if x[0] == "R":
                orig = J[x[1]]
                # "otherwise identical body": the journaled body with PossDupFlag = Y and OrigSendingTime = the
                # journaled SendingTime; a tag the message already carried keeps its position, a new one is appended
                want_body = upsert(upsert(orig[3], "43", "Y"), "122", orig[2])
                if w[0] != x[1] or w[1] != orig[1] or w[3] != want_body:
                    bad.append("frame for %d is not the retransmission of the journaled message: %r" % (x[1], w[:4]))
                if w[1] in SESSION_TYPES:
                    bad.append("session-level message %d retransmitted" % w[0])
            else:
                if w[1] != "4" or w[0] != x[1] or f.get("123") != "Y" or f.get("36") != str(x[2]):
                    bad.append("expected GapFill(%d -> %d), got %r" % (x[1], x[2], w[:4]))
    # ---- no side effects
    if post["nout"] != pre["nout"]:
        bad.append("next outbound number %d -> %d" % (pre["nout"], post["nout"]))
    if post["sout"] != pre["sout"]:
        bad.append("stored outbound counter %d -> %d" % (pre["sout"], post["sout"]))
    if post["state"] != pre["state"]:
        bad.append("connection state %d -> %d" % (pre["state"], post["state"]))
    P = {r[0]: r for r in post["rows"]}
    changed = [n for n in sorted(set(J) | set(P)) if J.get(n) != P.get(n)]
    if changed:
        inside = [n for n in changed if rng is not None and rng[0] <= n <= rng[1]]
        bad.append("journaled messages changed: %s (%d of them inside the requested range)" % (
            [(n, "deleted" if n not in P else "rewritten") for n in changed], len(inside)))
    # inbound side: only the request itself may have been counted
    counted = pre["state"] == ST["ACTIVE"]
    if post["nin"] != pre["nin"] + (1 if counted else 0) or post["sin"] != (pre["nin"] if counted else pre["sin"]) \
            or post["inbound"] != pre["inbound"] + ([pre["nin"]] if counted else []):
        bad.append("inbound side changed: nin %d->%d stored %d->%d rows %s->%s" % (
            pre["nin"], post["nin"], pre["sin"], post["sin"], pre["inbound"], post["inbound"]))
    return bad


# ---- known-finding class predicates: decidable from the request, the filter and the pre-state journal

def classify(case, obs):
    """Known-finding classes accepting this case: none is left for C06."""
    return []


def in_theorem_domain(case, obs):
    """Hypotheses of C06_reply_chain_partial: every request (readable or not) outside the classes."""
    return not classify(case, obs)


# =========================================================================================
# Generators
# =========================================================================================

def slot_alphabet(first=False):
    if first:
        return ["A", "Al", "Ah"]
    out = []
    for t in APP_TYPES:
        out += [t, t + "d", t + "l", t + "h", t + "dl"]
    out += ["Dp", "Dpd", "Dq"]
    for t in PREFIX_TYPES:
        out += [t, t + "d"]
    for t in SESSION_TYPES:
        out += [t, t + "l", t + "h"]
    return out


def requests_for(n_out):
    """all (Begin, End) in [-1, len+2]^2; n_out = outbound numbers used (next_num_out - 1)."""
    vals = [str(v) for v in range(-1, n_out + 3)]
    return [(b, e) for b in vals for e in vals]


def cases_for_journal(slots):
    out = []
    for state in ("ACTIVE", "AWAITING"):
        n = len(slots) + (1 if state == "AWAITING" else 0)
        for b, e in requests_for(n):
            out.append({"slots": slots, "begin": b, "end": e, "state": state})
    return out


def random_journal(rng, n):
    alpha = slot_alphabet()
    weights = [(4 if len(a) == 1 and a in APP_TYPES else 2 if len(a) == 1 else 1) for a in alpha]   # prefix types: 2
    return [rng.choice(slot_alphabet(True)) if k == 0 and rng.random() < 0.3 else ("A" if k == 0 else rng.choices(alpha, weights)[0])
            for k in range(n)]


SHOWCASE = [
    ["A", "E", "0", "B", "K", "Q", "1", "Y", "W", "Zd", "X", "D"],    # application types AE AB A1 0Q 1A 2Z 4B 5X among session rows
    ["A", "D", "0", "J", "8d", "1", "2", "4", "5", "D"],          # every message type once
    ["A", "D", "0", "0", "8"],                                     # pristine
    ["A", "Dl", "0l", "0l", "8"],                                  # second request over a replayed range
    ["A", "D", "Dh", "D", "D"],                                    # hole between application rows (D21)
    ["A", "D", "D", "D", "Dh", "Dh"],                              # missing suffix
    ["A", "0l", "0l", "D"],                                        # gap-filled once already, then an application message
    ["A", "D", "Dp", "0", "Dq", "D"],                              # application messages journaled with tag 43 / 122 in their body
]

MALFORMED_VALUES = [None, "", "x", "1x", " 2", "+2", "2_0", "0x2", "2.0", "-", "9223372036854775807", "9223372036854775808",
                    "-9223372036854775809", "00002", "\xb2", "2 "]


def malformed_cases(rng, n):
    out = []
    js = [["A", "D", "0", "8"], ["A", "D", "J"], ["A"]]
    for _ in range(n):
        slots = rng.choice(js)
        b = rng.choice(MALFORMED_VALUES + ["1", "2"])
        e = rng.choice(MALFORMED_VALUES + ["0", "3"])
        out.append({"slots": slots, "begin": b, "end": e, "state": rng.choice(["ACTIVE", "AWAITING"])})
    return out


def generate(ctx):
    cases = []
    for j in SHOWCASE:
        cases += cases_for_journal(j)
    # exhaustive: every journal of length <= 2 over the slot alphabet
    for first in slot_alphabet(True):
        cases += cases_for_journal([first])
        for second in slot_alphabet():
            cases += cases_for_journal([first, second])
    maxlen = ctx.scale(8, 12)
    for _ in range(ctx.scale(12, 120)):
        cases += cases_for_journal(random_journal(ctx.rng, ctx.rng.randrange(3, maxlen + 1)))
    cases += malformed_cases(ctx.rng, ctx.scale(300, 3000))
    # one LONG journal (more than a thousand rows in one recover_messages range): paging / batching inside the journal or
    # the replay loop does not show on a dozen rows
    big = ["A"] + ["D"] * 1100 + ["0", "0", "0"] + ["D"] * 100
    for b, e in (("1", "0"), ("500", "1010"), ("1000", "1001"), ("2", "1204"), ("1102", "0")):
        cases.append({"slots": big, "begin": b, "end": e, "state": "ACTIVE"})
    return cases


# =========================================================================================
# Running
# =========================================================================================

def _worker(chunk):
    faulthandler.dump_traceback_later(120, exit=True)
    logging.getLogger().addHandler(logging.NullHandler())   # the library logs decode problems on the root logger
    out = []
    for case in chunk:
        try:
            o = run_case(case)
            # the oracle and the class predicates are evaluated here too (in parallel)
            o["breaches"] = check_property(case, o)
            o["classes"] = classify(case, o)
            o["in_domain"] = in_theorem_domain(case, o)
            o["request"] = model_request(case, o)
            o["projection"] = impl_projection(o)
            out.append(o)
        except Exception as e:      # a harness-side problem: reported as a broken case, never hidden
            out.append({"harness_error": "%s: %s" % (type(e).__name__, e)})
    faulthandler.cancel_dump_traceback_later()
    return out


def run_impl(cases, procs=8):
    """Run the implementation on all cases, in parallel worker processes, each under a watchdog."""
    if len(cases) < 64:
        return _worker(cases)
    import multiprocessing as mp
    size = 128
    chunks = [cases[i:i + size] for i in range(0, len(cases), size)]
    with mp.get_context("fork").Pool(procs) as pool:
        res = pool.map_async(_worker, chunks).get(timeout=900)
    return [o for r in res for o in r]


def canon(case):
    return (tuple(case["slots"]), case["begin"], case["end"], case["state"])


def evaluate(ctx, cases, use_model=True):
    t0 = time.time()
    obs = run_impl(cases)
    t1 = time.time()
    model_out = [None] * len(cases)
    good = [i for i, o in enumerate(obs) if "harness_error" not in o]
    if use_model and ctx.model:
        res = ctx.model.batch([obs[i]["request"] for i in good])
        for i, r in zip(good, res):
            model_out[i] = r
    t2 = time.time()
    ctx.extra.setdefault("timing_s", {"implementation": 0.0, "model": 0.0})
    ctx.extra["timing_s"]["implementation"] += round(t1 - t0, 2)
    ctx.extra["timing_s"]["model"] += round(t2 - t1, 2)
    for case, o, m in zip(cases, obs, model_out):
        if "harness_error" in o:
            ctx.disagree(case, o, None, "harness-could-not-build-case")
            continue
        b = req_int(case["begin"])
        nontriv = b is not None and req_int(case["end"]) is not None and b < o["pre"]["nout"]   # something sent is asked for
        ip = o["projection"]
        ctx.case(canon(case), nontriv,
                 sample={"case": case, "reply": [(w[1], w[0]) for w in o["wire"]], "state_after": o["post"]["state"],
                         "nout_after": o["post"]["nout"]} if (nontriv and len(ctx.samples) < 6 and len(case["slots"]) > 3 and ctx.rng.random() < 0.02) else None)
        ctx.traces += 1
        cls = o["classes"]
        ctx.count("state=" + case["state"])
        ctx.count("len=%d" % len(case["slots"]))
        ctx.count("class=" + (cls[0] if cls else ("theorem-domain" if o["in_domain"] else "invalid-harmless")))
        for s in case["slots"]:
            ctx.count("slot=" + s)
        if m is not None:
            mp_ = model_projection(m)
            if mp_ != ip:
                keys = [k for k in ip if mp_.get(k) != ip[k]] if "model_error" not in mp_ else ["model_error"]
                ctx.disagree(case, {k: ip[k] for k in keys}, {k: mp_.get(k) for k in keys}, "resend:" + ",".join(keys))
        bad = o["breaches"]
        if bad:
            ctx.fail(case, "; ".join(bad), cls[0] if cls else None)
        elif o["in_domain"]:
            ctx.count("theorem-domain-ok")


# the witnesses of the *_refuted theorems of Props/C06.v, in the harness's case syntax
WITNESSES = {}     # no refuted theorem is left for C06
# positive witnesses: must satisfy the property on the implementation
POSITIVE = {
    "C06_second_request_ok": {"slots": ["A", "Dl", "Dl"], "begin": "2", "end": "0", "state": "ACTIVE"},
    "C06_begin_nonpositive_example": {"slots": ["A", "D"], "begin": "-3", "end": "0", "state": "ACTIVE"},
    "C06_unanswerable_requests_ok/beyond": {"slots": ["A", "D"], "begin": "5", "end": "0", "state": "ACTIVE"},
    "C06_unanswerable_requests_ok/not-a-number": {"slots": ["A", "D"], "begin": "x", "end": "0", "state": "ACTIVE"},
    "C06_unanswerable_requests_ok/tag-absent": {"slots": ["A", "D"], "begin": None, "end": "0", "state": "ACTIVE"},
    "C06_bounded_end_ok/1": {"slots": ["A", "D", "D", "D"], "begin": "2", "end": "2", "state": "ACTIVE"},
    "C06_bounded_end_ok/2": {"slots": ["A", "D", "0", "D"], "begin": "2", "end": "3", "state": "ACTIVE"},
    "C06_prefix_types_ok": {"slots": ["A", "E", "X", "0", "Y"], "begin": "1", "end": "0", "state": "ACTIVE"},
    "C06_hole_ok": {"slots": ["A", "D", "Dh", "D", "D"], "begin": "2", "end": "0", "state": "ACTIVE"},
    "C06_possdup_tags_ok/43": {"slots": ["A", "Dp"], "begin": "2", "end": "0", "state": "ACTIVE"},
    "C06_possdup_tags_ok/122": {"slots": ["A", "Dq"], "begin": "2", "end": "0", "state": "ACTIVE"},
    "C06_end_beyond_64_ok": {"slots": ["A", "D"], "begin": "2", "end": "9223372036854775808", "state": "ACTIVE"},
    "C06_holes_and_bounded_end_ok/1": {"slots": ["A", "D", "Dh", "Dh", "D", "0", "Dh", "Dh", "Dd", "D", "Dh", "Dh"], "begin": "2", "end": "10", "state": "ACTIVE"},
    "C06_holes_and_bounded_end_ok/2": {"slots": ["A", "D", "Dh", "Dh", "D", "0", "Dh", "Dh", "Dd", "D", "Dh", "Dh"], "begin": "3", "end": "8", "state": "ACTIVE"},
}


def confirm_witnesses(ctx):
    """Replay the witness of every refuted theorem on the implementation: it must break the property and fall
    into exactly the class the theorem names."""
    out = {}
    for thm, (case, cls) in WITNESSES.items():
        o = run_case(case)
        bad = check_property(case, o)
        got = classify(case, o)
        out[thm] = {"case": case, "class": cls, "classes_accepting": got, "breach": "; ".join(bad)[:300],
                    "confirmed": bool(bad) and got == [cls]}
        if not bad:
            ctx.notes.append("note: known finding %s (%s) no longer reproduces on the implementation" % (cls, thm))
        elif got != [cls]:
            ctx.disagree(case, got, [cls], "witness-class:" + thm)
    ctx.extra["refuted_witnesses_on_implementation"] = out
    pos = {}
    for thm, case in POSITIVE.items():
        o = run_case(case)
        bad = check_property(case, o)
        pos[thm] = {"case": case, "reply": [(w[1], w[0]) for w in o["wire"]], "holds": not bad, "breach": "; ".join(bad)[:300],
                    "swallowed": o["swallowed"], "state_changes": o["states"]}
        if bad:
            ctx.disagree(case, "; ".join(bad), "property holds (theorem %s)" % thm, "positive-witness:" + thm)
    ctx.extra["positive_witnesses_on_implementation"] = pos


AUDITED = {"_process_resend", "send_msg", "set_seq_num", "persist_msg", "recover_messages", "should_replay"}


def coverage_audit(ctx, cases):
    """Thorough tier: which lines of the anchored functions did the correspondence cases execute (information only)."""
    import dis
    import inspect
    from asyncfix.connection import AsyncFIXConnection
    from asyncfix.journaler import Journaler
    funcs = [AsyncFIXConnection._process_resend, AsyncFIXConnection.send_msg, Journaler.set_seq_num,
             Journaler.persist_msg, Journaler.recover_messages]
    want = {}
    for fn in funcs:
        code = fn.__code__
        lines = {ln for _, ln in dis.findlinestarts(code) if ln is not None and ln != code.co_firstlineno}
        want[(os.path.basename(code.co_filename), code.co_name)] = lines
    seen = {k: set() for k in want}

    def tracer(frame, event, arg):
        key = (os.path.basename(frame.f_code.co_filename), frame.f_code.co_name)
        if key not in seen:
            return None

        def local(fr, ev, a):
            if ev == "line":
                seen[key].add(fr.f_lineno)
            return local
        return local

    sys.settrace(tracer)
    try:
        for case in cases:
            try:
                run_case(case)
            except Exception:
                pass
    finally:
        sys.settrace(None)
    ctx.extra["anchored_lines_unexecuted"] = {"%s:%s" % k: sorted(want[k] - seen[k]) for k in want}
    ctx.extra["anchored_lines_executed"] = {"%s:%s" % k: len(want[k] & seen[k]) for k in want}


def run(ctx):
    confirm_witnesses(ctx)
    cases = [w[0] for w in WITNESSES.values()] + list(POSITIVE.values()) + generate(ctx)
    evaluate(ctx, cases)
    if ctx.tier == "thorough":
        coverage_audit(ctx, [w[0] for w in WITNESSES.values()] + cases_for_journal(SHOWCASE[0])[::7]
                       + cases_for_journal(SHOWCASE[2])[::5] + malformed_cases(ctx.rng, 60))


def search(ctx, cases):
    """A proof or the correspondence broke: look for an input on which the implementation itself breaks the property
    outside the known classes (the oracle runs on the disagreeing cases, their neighbours and a fresh generator run)."""
    import random
    rng = random.Random(ctx.seed + 1)
    todo = []
    for c in cases:
        if isinstance(c, dict) and "slots" in c:
            todo.append(c)
            todo += [dict(c, begin=str(v), end="0") for v in range(1, len(c["slots"]) + 2)]
    for _ in range(ctx.scale(10, 60)):
        todo += cases_for_journal(random_journal(rng, rng.randrange(2, 9)))
    evaluate(ctx, todo, use_model=False)


def replay(path):
    rec = json.load(open(path))
    case = rec.get("input")
    if not case:
        print("replay: no concrete input; broken:", rec.get("broken"))
        return 1
    o = run_case(case)
    print("case:", json.dumps(case))
    print("pre-state: state=%d next_num_out=%d stored=%d" % (o["pre"]["state"], o["pre"]["nout"], o["pre"]["sout"]))
    for r in o["pre"]["rows"]:
        print("   journal", r)
    for w in o["wire"]:
        print("   reply  ", w[:4])
    print("post-state: state=%d next_num_out=%d stored=%d swallowed=%s" % (
        o["post"]["state"], o["post"]["nout"], o["post"]["sout"], o["swallowed"]))
    for r in o["post"]["rows"]:
        print("   journal", r)
    bad = check_property(case, o)
    print("classes:", classify(case, o))
    for x in bad:
        print("BREACH:", x)
    return 1 if bad else 0
