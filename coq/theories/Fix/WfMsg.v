(* Computable well-formedness predicates for the codec round trip (C01) and the reader (C03).
   Definitions only; proofs are in Lemmas/RoundTripL.v and Lemmas/ReaderL.v. *)
From Coq Require Import ZArith NArith List Bool.
From AF Require Import Base.Sx Py.Str Fix.Codec.
Import ListNotations.
Open Scope N_scope.

(* ------------------------------------------------------------------ text *)

Definition soh_free (s : str) : bool := forallb (fun x => negb (x =? 1)) s.
Definition eq_free (s : str) : bool := forallb (fun x => negb (x =? 61)) s.
Definition has_int (t : str) : bool := match py_int t with Some _ => true | None => false end.

(* a tag the decoder can store: no SOH, no '=', accepted by int() *)
Definition tag_ok (t : str) : bool := soh_free t && eq_free t && has_int t.

Definition FIXDOT : str := [70; 73; 88; 46].      (* "FIX." *)
Definition wf_bs (bs : str) : bool := prefixb FIXDOT bs && soh_free bs.
Definition wf_session (s : session) : bool := soh_free (sender s) && soh_free (target s).

(* ------------------------------------------------------------------ group table *)

Definition is_key (G : group_table) (t : str) : bool :=
  match lookup_group G t with Some _ => true | None => false end.

(* tags written by the encoder itself: never body tags *)
Definition hdr_tags : list str := [T8; T9; T35; T10].

(* what the round trip needs of the table: no framing tag opens a group, and CheckSum / MsgType
   are not members of any group (the decoder gives them a meaning wherever they occur) *)
Definition wf_table (G : group_table) : bool :=
  forallb (fun t => negb (is_key G t)) (hdr_tags ++ skip_tags)
  && forallb (fun e => negb (mem_str T10 (snd e)) && negb (mem_str T35 (snd e))) G.

(* ------------------------------------------------------------------ messages *)

Fixpoint last_entry {A} (l : list A) : option A :=
  match l with
  | [] => None
  | [x] => Some x
  | _ :: l' => last_entry l'
  end.

(* member lists of the group contexts the decoder still has open after the fields of (t, v),
   innermost first: the group itself, the last group of its last item, and so on *)
Fixpoint open_members (G : group_table) (t : str) (v : value) {struct v} : list (list str) :=
  match v with
  | VGrp items =>
      (fix last_item (its : list (list (str * value))) : list (list str) :=
         match its with
         | [] => []
         | it :: its' =>
             match its' with
             | [] =>
                 (fix last_ent (it : list (str * value)) : list (list str) :=
                    match it with
                    | [] => []
                    | (t', v') :: it' =>
                        match it' with
                        | [] => open_members G t' v'
                        | _ :: _ => last_ent it'
                        end
                    end) it
             | _ :: _ => last_item its'
             end
         end) items
      ++ [match lookup_group G t with Some ms => ms | None => [] end]
  | _ => []
  end.

Definition last_open (G : group_table) (c : container) : list (list str) :=
  match last_entry c with
  | Some (t, v) => open_members G t v
  | None => []
  end.

(* x is not a member of any of the open groups *)
Definition free_of (x : str) (oms : list (list str)) : bool :=
  forallb (fun ms => negb (mem_str x ms)) oms.

Fixpoint nodupb (l : list str) : bool :=
  match l with
  | [] => true
  | x :: r => negb (mem_str x r) && nodupb r
  end.

(* a tag that follows a group is not a member of any group still open at that point *)
Fixpoint followers_ok (G : group_table) (c : container) : bool :=
  match c with
  | [] => true
  | (t1, v1) :: c' =>
      match c' with
      | [] => true
      | (t2, _) :: _ => free_of t2 (open_members G t1 v1) && followers_ok G c'
      end
  end.

Definition is_nil {A} (l : list A) : bool := match l with [] => true | _ => false end.

(* one item: non-empty, distinct tags, unambiguous followers *)
Definition item_shape (G : group_table) (it : container) : bool :=
  negb (is_nil it) && nodupb (map fst it) && followers_ok G it.

(* the first tag of an item after the first is a plain tag that occurs in the previous item
   (the decoder starts a new item only there) and is not absorbed by a group still open *)
Definition item_head_ok (G : group_table) (prev it : container) : bool :=
  match it with
  | (t, VStr _) :: _ => mem_str t (map fst prev) && free_of t (last_open G prev)
  | _ => false
  end.

Fixpoint items_chain_ok (G : group_table) (items : list container) : bool :=
  match items with
  | [] => true
  | it1 :: rest =>
      match rest with
      | [] => true
      | it2 :: _ => item_head_ok G it1 it2 && items_chain_ok G rest
      end
  end.

(* value v under tag t: plain text under a tag that opens no group, or a group of the table whose
   items use member tags only (recursively) *)
Fixpoint wf_value (G : group_table) (t : str) (v : value) {struct v} : bool :=
  match v with
  | VStr s => negb (is_key G t) && soh_free s
  | VErr => false
  | VGrp items =>
      match lookup_group G t with
      | None => false
      | Some ms =>
          (fix wf_items (its : list (list (str * value))) : bool :=
             match its with
             | [] => true
             | it :: its' =>
                 (fix wf_entries (it : list (str * value)) : bool :=
                    match it with
                    | [] => true
                    | (t', v') :: it' =>
                        tag_ok t' && mem_str t' ms && wf_value G t' v' && wf_entries it'
                    end) it
                 && item_shape G it && wf_items its'
             end) items
          && negb (is_nil items) && items_chain_ok G items
      end
  end.

(* the tags the encoder renders: everything but the four it writes itself *)
Definition body_of (m : message) : container :=
  filter (fun tv => negb (mem_str (fst tv) skip_tags)) (msg_tags m).

Definition wf_root_entry (G : group_table) (tv : str * value) : bool :=
  tag_ok (fst tv) && negb (mem_str (fst tv) hdr_tags) && wf_value G (fst tv) (snd tv).

Definition wf_msg (G : group_table) (m : message) : bool :=
  soh_free (msg_type m)
  && forallb (wf_root_entry G) (body_of m)
  && nodupb (map fst (body_of m))
  && followers_ok G (body_of m).

(* Stage 1: a flat body *)
Definition is_plain (tv : str * value) : bool := match snd tv with VStr _ => true | _ => false end.
Definition flat_msg (m : message) : bool := forallb is_plain (body_of m).

(* one level of groups: every item of every group is flat *)
Definition depth1_value (v : value) : bool :=
  match v with
  | VStr _ => true
  | VGrp items => forallb (forallb is_plain) items
  | VErr => false
  end.
Definition depth1_msg (m : message) : bool := forallb (fun tv => depth1_value (snd tv)) (body_of m).

(* ------------------------------------------------------------------ the frame and its decoding *)

(* D5: the frame-start marker occurs in the frame at offset 0 only *)
Definition no_marker (frame : str) : bool :=
  match find_sub MARK (skipn 5 frame) with None => true | Some _ => false end.

(* a per-field sufficient condition: no field after the first contains the marker *)
Definition no_marker_in_fields (fields : list str) : bool :=
  forallb (fun f => negb (contains_sub MARK f)) fields.

(* int() refuses more than 4300 digits: BodyLength must stay below 10^4300 *)
Definition small_frame (frame : str) : Prop := (N.of_nat (length frame) < 10 ^ 4300)%N.

Definition render_total (c : container) : list str :=
  match render_body c with Ok fs => fs | Exc _ => [] end.

(* the fields between BodyLength and CheckSum *)
Definition enc_fields (m : message) (sess : session) (seq time : str) : list str :=
  field T35 (msg_type m) :: field T49 (sender sess) :: field T56 (target sess)
  :: field T34 seq :: field T52 time :: render_total (msg_tags m).

Definition fields_len (fs : list str) : nat := length (concat (map (fun f => f ++ SOHs) fs)).

Definition enc_blen (m : message) (sess : session) (seq time : str) : N :=
  N.of_nat (fields_len (enc_fields m sess seq time)).

Definition enc_ck (bs : str) (m : message) (sess : session) (seq time : str) : N :=
  checksum (concat (map (fun f => f ++ SOHs)
    (field T8 bs :: field T9 (n_to_dec (enc_blen m sess seq time)) :: enc_fields m sess seq time))).

(* all fields of the frame, in order; the frame is their concatenation, each followed by SOH *)
Definition frame_fields (bs : str) (m : message) (sess : session) (seq time : str) : list str :=
  field T8 bs :: field T9 (n_to_dec (enc_blen m sess seq time)) :: enc_fields m sess seq time
  ++ [field T10 (fmt03 (enc_ck bs m sess seq time))].

(* D5 as a predicate on the rendered fields: no field after the first contains "8=FIX.", and the
   first field ("8=<BeginString>") does not contain it from offset 5 on *)
Definition no_marker_fields_b (bs : str) (m : message) (sess : session) (seq time : str) : bool :=
  negb (contains_sub MARK (skipn 5 (field T8 bs)))
  && no_marker_in_fields (tl (frame_fields bs m sess seq time)).

(* what the decoder returns for the frame of m: header, then the body of m unchanged
   (order, values, group nesting, item count and order), then CheckSum *)
Definition decoded_of (bs : str) (m : message) (sess : session) (seq time : str) : message :=
  mkMsg (msg_type m)
    ([(T8, VStr bs); (T9, VStr (n_to_dec (enc_blen m sess seq time))); (T35, VStr (msg_type m));
      (T49, VStr (sender sess)); (T56, VStr (target sess)); (T34, VStr seq); (T52, VStr time)]
     ++ body_of m
     ++ [(T10, VStr (fmt03 (enc_ck bs m sess seq time)))]).

(* does the encoder take a fresh number from the session? *)
Definition allocates (m : message) (raw_seq_num : bool) : bool :=
  if raw_seq_num then false
  else if str_eqb (msg_type m) MT_SEQRESET then false
  else match ct_get T43 (msg_tags m) with
       | Some (VStr s) => negb (str_eqb s Y)
       | _ => true
       end.

(* ------------------------------------------------------------------ streams (C03) *)

(* a frame produced by the encoder under the hypotheses of the round-trip theorem, paired with the
   message the decoder returns for it *)
Definition encoder_frame (G : group_table) (bs : str) (fm : str * message) : Prop :=
  exists m sess time raw sess' seq,
    wf_bs bs = true /\ wf_session sess = true /\ soh_free time = true /\ wf_msg G m = true
    /\ no_marker (fst fm) = true /\ small_frame (fst fm)
    /\ encode bs m sess time raw = Ok (fst fm, sess') /\ select_seq m sess raw = Ok (seq, sess')
    /\ snd fm = decoded_of bs m sess seq time.

(* (frame, message) as the reader hands it over: (message, raw frame) *)
Definition delivered (fm : str * message) : message * str := (snd fm, fst fm).

(* a stream: each frame preceded by marker-free junk (possibly empty), and junk after the last frame *)
Definition seg := (str * (str * message))%type.
Definition seg_bytes (s : seg) : str := fst s ++ fst (snd s).
Definition stream_of (segs : list seg) (tail : str) : str := concat (map seg_bytes segs) ++ tail.

Definition no_mark (s : str) : Prop := find_sub MARK s = None.

Definition enc_seg (G : group_table) (bs : str) (s : seg) : Prop :=
  no_mark (fst s) /\ encoder_frame G bs (snd s).

(* a proper prefix of the frame-start marker (0 .. 5 bytes) *)
Definition marker_prefix (s : str) : Prop := exists k, (k <= 5)%nat /\ s = firstn k MARK.
