(* C04 - inbound in-order / exactly-once / never past a gap: one-step lemmas about
   _process_message and their lifting over histories. *)
From Coq Require Import ZArith NArith List Bool Lia ZifyBool Sorting.Sorted.
From AF Require Import Base.Sx Py.Str Fix.Session Lemmas.SessionL.
Import ListNotations.
Open Scope Z_scope.

(* ------------------------------------------------------------------ invariants kept by a computation *)

Definition keeps {A} (I : world -> Prop) (c : M A) : Prop := forall w, I w -> I (rw (c w)).

Lemma keeps_ret {A} I (a : A) : keeps I (ret a).
Proof. intros w H; exact H. Qed.
Lemma keeps_raise {A} I x : keeps I (@raise A x).
Proof. intros w H; exact H. Qed.
Lemma keeps_getw I : keeps I getw.
Proof. intros w H; exact H. Qed.
Lemma keeps_emit I e : keeps I (emit e).
Proof. intros w H; exact H. Qed.
Lemma keeps_lift {A} I (v : A + exn) : keeps I (lift v).
Proof. destruct v; intros w H; exact H. Qed.
Lemma keeps_modw (I : world -> Prop) g : (forall w, I w -> I (g w)) -> keeps I (modw g).
Proof. intros H w Hw. apply H, Hw. Qed.
Lemma keeps_bind {A B} I (c : M A) (k : A -> M B) :
  keeps I c -> (forall a, keeps I (k a)) -> keeps I (bind c k).
Proof.
  intros Hc Hk w Hw. rewrite bind_unfold. destruct (rv (c w)); cbn; [apply Hk|]; apply Hc, Hw.
Qed.
Lemma keeps_finally {A} I (c : M A) (g : M unit) : keeps I c -> keeps I g -> keeps I (finally_ c g).
Proof. intros Hc Hg w Hw. unfold finally_. destruct (rv (g (rw (c w)))); cbn [rw]; apply Hg, Hc, Hw. Qed.
Lemma keeps_try {A} I (c : M A) : keeps I c -> keeps I (try_ c).
Proof. intros H w Hw. unfold try_. destruct (rv (c w)); cbn; apply H, Hw. Qed.
(* a projection that is preserved keeps every invariant stated through it *)
Lemma keeps_pres {A X} (f : world -> X) (Q : X -> Prop) (c : M A) :
  pres f c -> keeps (fun w => Q (f w)) c.
Proof. intros H w Hw. now rewrite H. Qed.

(* reading the world: the continuation runs in the world it was given *)
Lemma keeps_bind_getw {B} (I : world -> Prop) (k : world -> M B) :
  (forall w0, I w0 -> forall w, w = w0 -> I (rw (k w0 w))) -> keeps I (bind getw k).
Proof. intros H w Hw. rewrite bind_unfold. cbn. apply (H w Hw w eq_refl). Qed.

Ltac keeps_step :=
  match goal with
  | |- keeps _ (bind _ _) => apply keeps_bind; [|intros ?]
  | |- keeps _ (ret _) => apply keeps_ret
  | |- keeps _ (raise _) => apply keeps_raise
  | |- keeps _ getw => apply keeps_getw
  | |- keeps _ (emit _) => apply keeps_emit
  | |- keeps _ (lift _) => apply keeps_lift
  | |- keeps _ (try_ _) => apply keeps_try
  | |- keeps _ (if ?c then _ else _) => destruct c
  | |- keeps _ (match ?x with _ => _ end) => destruct x
  end.
Ltac keeps_tac := repeat keeps_step.

(* ------------------------------------------------------------------ small facts *)

Lemma kind_resend_noreply t : is_resend (mkMsg t []) = true -> is_noreply t = true.
Proof. unfold is_resend, is_noreply, mkind. cbn. destruct (kind_of t); congruence. Qed.

Lemma is_resend_tags t tags tags' : is_resend (mkMsg t tags) = is_resend (mkMsg t tags').
Proof. reflexivity. Qed.

Lemma noreply_not_resend t tags : is_noreply t = false -> is_resend (mkMsg t tags) = false.
Proof. unfold is_resend, is_noreply, mkind. cbn. destruct (kind_of t); congruence. Qed.

(* ------------------------------------------------------------------ states *)

Definition dead (w : world) : Prop := st w <= ST_DISC_BROKEN.

Lemma state_set_st s w : st (rw (state_set s w)) = s.
Proof. unfold state_set. cbn. destruct (s =? ST_ACTIVE); reflexivity. Qed.

(* send_msg changes the state only from NETWORK_CONN_ESTABLISHED (to LOGON_INITIAL_SENT) *)
Lemma send_gate_st m w :
  st (rw (send_gate m w w)) = st w \/ (st w = ST_NCE /\ st (rw (send_gate m w w)) = ST_LOGON_SENT).
Proof.
  unfold send_gate.
  destruct (st w <? ST_NCE) eqn:E1; [left; reflexivity|].
  destruct (st w =? ST_NCE) eqn:E2.
  - destruct (mkind m); try (left; reflexivity); right; (split; [lia | reflexivity]).
  - destruct (_ && _ && _); [left; reflexivity|]. destruct (_ && _ && _); left; reflexivity.
Qed.

Lemma send_msg_st c m w :
  st (rw (send_msg c m w)) = st w \/ (st w = ST_NCE /\ st (rw (send_msg c m w)) = ST_LOGON_SENT).
Proof.
  assert (Ht : forall w0, pres st (send_tail c m w0)) by (intros; apply send_tail_pres; ins_solve).
  unfold send_msg. rewrite bind_unfold. cbn [getw rv rw re]. rewrite bind_unfold.
  destruct (rv (send_gate m w w)); cbn [rv rw]; [rewrite Ht|]; apply send_gate_st.
Qed.

Lemma send_msg_keeps_st c m (Q : Z -> Prop) :
  (Q ST_NCE -> Q ST_LOGON_SENT) -> keeps (fun w => Q (st w)) (send_msg c m).
Proof.
  intros H w Hw. destruct (send_msg_st c m w) as [E|[E1 E2]]; [now rewrite E|].
  rewrite E2. apply H. now rewrite <- E1.
Qed.

Definition aw_or_dead (w : world) : Prop := st w = ST_AWAITING \/ dead w.

Lemma send_msg_keeps_aw c m : keeps aw_or_dead (send_msg c m).
Proof.
  apply (send_msg_keeps_st c m (fun s => s = ST_AWAITING \/ s <= ST_DISC_BROKEN)).
  unfold ST_NCE, ST_AWAITING, ST_DISC_BROKEN. lia.
Qed.

Lemma state_set_keeps_dead_target (I : world -> Prop) s :
  (forall w, I (set_st s w)) -> (forall w v, I w -> I (set_wasact v w)) -> keeps I (state_set s).
Proof.
  intros H1 H2 w Hw. unfold state_set. cbn. destruct (s =? ST_ACTIVE); auto.
Qed.

Lemma disconnect_keeps_aw c ds lm : ds <= ST_DISC_BROKEN -> keeps aw_or_dead (disconnect c ds lm).
Proof.
  intros Hds. unfold disconnect. keeps_step; [keeps_tac|].
  destruct (st a <=? ST_DISC_BROKEN); [keeps_tac|].
  keeps_step; [keeps_tac|]. keeps_step; [apply keeps_modw; intros w H; exact H|].
  keeps_step. { destruct lm; [apply send_msg_keeps_aw | keeps_tac]. }
  keeps_step; [apply keeps_modw; intros w H; exact H|].
  keeps_step; [|keeps_tac].
  intros w _. right. unfold dead. now rewrite state_set_st.
Qed.

(* after disconnect the connection is dead, unless the Logout could not be sent *)
Lemma disconnect_dead c ds lm w :
  ds <= ST_DISC_BROKEN -> rv (disconnect c ds lm w) = inl tt -> dead (rw (disconnect c ds lm w)).
Proof.
  intros Hds. unfold disconnect. rewrite bind_unfold. cbn [getw rv rw re].
  destruct (st w <=? ST_DISC_BROKEN) eqn:E; [intros _; cbn; unfold dead; lia|].
  destruct (ds <=? ST_DISC_BROKEN) eqn:E2; [|lia].
  destruct lm as [s|].
  - rewrite bind_unfold. cbn [ret rv rw re]. rewrite bind_unfold. cbn [modw rv rw re].
    rewrite bind_unfold.
    destruct (rv (send_msg c _ _)); [|discriminate].
    cbn [rv rw re]. intros _. unfold dead. cbn. destruct (ds =? ST_ACTIVE); cbn; exact Hds.
  - intros _. cbn. unfold dead. destruct (ds =? ST_ACTIVE); cbn; exact Hds.
Qed.

Lemma disconnect_none_dead c ds w : ds <= ST_DISC_BROKEN -> dead (rw (disconnect c ds None w)).
Proof.
  intros Hds. unfold disconnect. rewrite bind_unfold. cbn [getw rv rw re].
  destruct (st w <=? ST_DISC_BROKEN) eqn:E; [cbn; unfold dead; lia|].
  destruct (ds <=? ST_DISC_BROKEN) eqn:E2; [|lia].
  cbn. unfold dead. destruct (ds =? ST_ACTIVE); cbn; exact Hds.
Qed.

Lemma process_logout_dead c m w : dead (rw (process_logout c m w)).
Proof.
  unfold process_logout. rewrite !bind_unfold. cbn [getw emit rv rw re].
  destruct (wasact w); apply disconnect_none_dead; unfold ST_DISC_WCONN, ST_DISC_BROKEN; lia.
Qed.

(* ------------------------------------------------------------------ check_gaps *)

Lemma get_T7_wire c seq v tags :
  get T7 (wire_tags c seq (mkMsg MT_RESENDREQUEST [(T7, v); (T16, tags)])) = Some v.
Proof. reflexivity. Qed.

Lemma get_T16_wire c seq v tags :
  get T16 (wire_tags c seq (mkMsg MT_RESENDREQUEST [(T7, v); (T16, tags)])) = Some tags.
Proof. reflexivity. Qed.

(* the Wire events of send_msg: none, or exactly the encoded message *)
Lemma journal_tail_no_wire (m : msg) (n : Z) (wm : msg) w :
  wires (re ((if skip_journal m then ret tt else persist_out n wm) w)) = [].
Proof.
  destruct (skip_journal m); [reflexivity|]. apply wires_nil. apply persist_out_allev.
Qed.

Lemma encode_result c m w n wm :
  rv (encode c m w) = inl (n, wm) -> wm = mkMsg (mtype m) (wire_tags c n m).
Proof.
  unfold encode. destruct (raw_seq m).
  - destruct (get T34 (mtags m)); [|discriminate]. destruct (py_int s); [|discriminate]. cbn. now inversion 1.
  - cbn. now inversion 1.
Qed.

Lemma encode_no_events c m w : re (encode c m w) = [].
Proof.
  unfold encode. destruct (raw_seq m); [|reflexivity].
  destruct (get T34 (mtags m)); [|reflexivity]. destruct (py_int s); reflexivity.
Qed.

Lemma journal_step_no_events (m : msg) (n : Z) (wm : msg) w :
  re ((if skip_journal m then ret tt else persist_out n wm) w) = [].
Proof.
  destruct (skip_journal m); [reflexivity|]. unfold persist_out.
  destruct (negb _); [reflexivity|]. destruct (has_key _ _); reflexivity.
Qed.

Lemma send_write_wires c m w :
  wires (re (send_write c m w)) = [] \/
  exists seq, wires (re (send_write c m w)) = [mkMsg (mtype m) (wire_tags c seq m)].
Proof.
  unfold send_write. rewrite bind_unfold.
  pose proof (encode_result c m w) as Hr. pose proof (encode_no_events c m w) as He.
  destruct (encode c m w) as [r we ee]. cbn [rv rw re] in *. subst ee.
  destruct r as [[n wm]|x]; cbn [rv rw re app]; [|left; reflexivity].
  specialize (Hr n wm eq_refl). subst wm. cbn [fst snd].
  rewrite bind_unfold. rewrite journal_step_no_events.
  destruct (rv ((if skip_journal m then ret tt else persist_out n _) we)); cbn [rv rw re app]; [|left; reflexivity].
  msimp. destruct (wr _); msimp; [|left; reflexivity].
  right. exists n. reflexivity.
Qed.

(* the TestRequest gate of send_msg (R13c: a TestRequest goes out only when it carries the id of the pending probe) *)
Definition treq_gate (m : msg) (w0 : world) : M unit :=
  match mkind m, treq w0 with
  | KTestReq, None => raise XConn
  | KTestReq, Some t =>
      match get T112 (mtags m) with
      | Some v => if str_eqb v (z_to_dec t) then ret tt else raise XConn
      | None => raise XConn
      end
  | _, _ => ret tt
  end.

Lemma send_tail_unfold c m w0 : send_tail c m w0 = (treq_gate m w0 ;;; send_write c m).
Proof. reflexivity. Qed.

Lemma treq_gate_cases m w0 w :
  (treq_gate m w0 w = mkR (inr XConn) w [] /\ mkind m = KTestReq) \/ treq_gate m w0 w = mkR (inl tt) w [].
Proof.
  unfold treq_gate. destruct (mkind m), (treq w0); auto.
  destruct (get T112 (mtags m)) as [v|]; [destruct (str_eqb v _)|]; auto.
Qed.

Lemma treq_gate_pass m w0 w : mkind m <> KTestReq -> treq_gate m w0 w = mkR (inl tt) w [].
Proof. intros H. destruct (treq_gate_cases m w0 w) as [[_ Hk]|Hg]; [congruence|exact Hg]. Qed.

(* the exact refusal condition of the TestRequest gate *)
Definition treq_refuses (m : msg) (w : world) : bool :=
  match mkind m with
  | KTestReq => match treq w with
                | None => true
                | Some t => match get T112 (mtags m) with Some v => negb (str_eqb v (z_to_dec t)) | None => true end
                end
  | _ => false
  end.

Lemma treq_gate_spec m w0 w :
  treq_gate m w0 w = if treq_refuses m w0 then mkR (inr XConn) w [] else mkR (inl tt) w [].
Proof.
  unfold treq_gate, treq_refuses. destruct (mkind m), (treq w0); try reflexivity.
  destruct (get T112 (mtags m)) as [v|]; [destruct (str_eqb v _)|]; reflexivity.
Qed.

Lemma send_tail_wires c m w0 w :
  wires (re (send_tail c m w0 w)) = [] \/
  exists seq, wires (re (send_tail c m w0 w)) = [mkMsg (mtype m) (wire_tags c seq m)].
Proof.
  rewrite send_tail_unfold, bind_unfold.
  destruct (treq_gate_cases m w0 w) as [[Hg _]|Hg]; rewrite Hg; cbn [rv rw re app]; [left; reflexivity|].
  apply send_write_wires.
Qed.

Lemma send_msg_wires c m w :
  wires (re (send_msg c m w)) = [] \/
  exists seq, wires (re (send_msg c m w)) = [mkMsg (mtype m) (wire_tags c seq m)].
Proof.
  unfold send_msg. rewrite bind_unfold. cbn [getw rv rw re app]. rewrite bind_unfold.
  assert (Hg : wires (re (send_gate m w w)) = []).
  { apply wires_nil. apply send_gate_allev. exact I. }
  destruct (rv (send_gate m w w)); cbn [rv rw re]; [|left; exact Hg].
  rewrite wires_app, Hg. cbn [app]. apply send_tail_wires.
Qed.

Record cg_spec (c : cfg) (n : Z) (w : world) (r : res bool) : Prop := mkCG {
  cg_true : rv r = inl true -> n <= nin w /\ rw r = w /\ re r = [];
  cg_false : rv r = inl false -> nin w < n;
  cg_resend : resends (re r) = [] \/
              (exists rr, resends (re r) = [rr] /\ st w <> ST_AWAITING /\ nin w < n
                          /\ get T7 (mtags rr) = Some (z_to_dec (nin w)) /\ get T16 (mtags rr) = Some S_0
                          /\ maxres (rw r) = n);
  cg_state : rv r = inl false -> st (rw r) = ST_AWAITING
}.

Lemma check_gaps_spec c n w : cg_spec c n w (check_gaps c n w).
Proof.
  unfold check_gaps. rewrite bind_unfold. cbn [getw rv rw re app].
  destruct (nin w <? n) eqn:E.
  2:{ cbn. constructor; cbn; try discriminate; auto. intros _. split; [lia|auto]. }
  rewrite bind_unfold.
  destruct (st w =? ST_AWAITING) eqn:Es; cbn [negb].
  { cbn. constructor; cbn; try discriminate; auto; intros _; lia. }
  set (m := mkMsg MT_RESENDREQUEST [(T7, z_to_dec (nin w)); (T16, S_0)]).
  rewrite !bind_unfold. cbn [modw rv rw re app].
  set (w1 := set_maxres n w).
  assert (Hm : maxres (rw (send_msg c m w1)) = n).
  { assert (Hp : pres maxres (send_msg c m)) by (apply send_msg_pres; ins_solve). now rewrite Hp. }
  pose proof (send_msg_wires c m w1) as Hw.
  destruct (send_msg c m w1) as [r ws es]. cbn [rv rw re] in *.
  assert (Hr : resends es = [] \/ exists rr, resends es = [rr] /\ get T7 (mtags rr) = Some (z_to_dec (nin w))
                                            /\ get T16 (mtags rr) = Some S_0).
  { unfold resends. destruct Hw as [Hw|[seq Hw]]; rewrite Hw; cbn; [left; reflexivity|].
    right. eexists. split; [reflexivity|]. split; reflexivity. }
  destruct r; cbn.
  - constructor; cbn [rv rw re]; try discriminate.
    + intros _. lia.
    + rewrite !resends_app. unfold resends at 2 3. cbn. rewrite !app_nil_r.
      destruct Hr as [Hr|[rr [Hr [H7 H16]]]]; [left; exact Hr|].
      right. exists rr. repeat split; auto; try lia.
    + intros _. reflexivity.
  - constructor; cbn [rv rw re]; try discriminate.
    destruct Hr as [Hr|[rr [Hr [H7 H16]]]]; [left; exact Hr|].
    right. exists rr. repeat split; auto; lia.
Qed.

(* ------------------------------------------------------------------ pre_handlers *)

Lemma get_int_inv t m n : get_int t m = inl n ->
  exists v, get t (mtags m) = Some v /\ py_int v = Some n.
Proof.
  unfold get_int. destruct (get t (mtags m)) as [v|]; [|discriminate].
  destruct (py_int v) eqn:E; [|discriminate]. intros H. inversion H. subst. eauto.
Qed.

Lemma logon_not_resend tags : is_resend (mkMsg MT_LOGON tags) = false. Proof. reflexivity. Qed.
Lemma logout_not_resend tags : is_resend (mkMsg MT_LOGOUT tags) = false. Proof. reflexivity. Qed.
Lemma heartbeat_not_resend tags : is_resend (mkMsg MT_HEARTBEAT tags) = false. Proof. reflexivity. Qed.
Lemma seqreset_not_resend tags : is_resend (mkMsg MT_SEQUENCERESET tags) = false. Proof. reflexivity. Qed.

Lemma pre_handlers_not_app c m w0 : allev not_app (pre_handlers c m w0).
Proof.
  unfold pre_handlers. allev_step.
  { destruct (st w0 =? ST_NCE); [|allev_tac]. allev_step; [apply state_set_allev; exact I|allev_tac]. }
  destruct (mkind m); try solve [allev_tac].
  - apply process_logon_allev; cbn; auto.
  - apply process_seqreset_allev.
  - apply logout_counted_allev; cbn; auto.
Qed.

Lemma pre_handlers_not_resend c m w0 : allev not_resend (pre_handlers c m w0).
Proof.
  unfold pre_handlers. allev_step.
  { destruct (st w0 =? ST_NCE); [|allev_tac]. allev_step; [apply state_set_allev; exact I|allev_tac]. }
  destruct (mkind m); try solve [allev_tac].
  - apply process_logon_allev; cbn; auto.
  - apply process_seqreset_allev.
  - apply logout_counted_allev; cbn; auto.
Qed.

Lemma pre_handlers_nin c m w0 : mkind m <> KSeqReset -> mkind m <> KLogout -> pres nin (pre_handlers c m w0).
Proof.
  intros Hk Hl. unfold pre_handlers. pres_step.
  { destruct (st w0 =? ST_NCE); [|pres_tac]. pres_step; [apply state_set_pres; ins_solve|pres_tac]. }
  destruct (mkind m); try solve [pres_tac]; try congruence.
  apply process_logon_pres; ins_solve.
Qed.

(* the peer's Logout: after it returned the connection is dead; it counts the Logout when it is in sequence *)
(* the counting step of the peer's Logout: it never raises (its exceptions are logged), keeps the state, and
   advances next_num_in by one exactly when the Logout carries the expected number *)
Definition logout_count (m : msg) (n : Z) : M unit := fun w =>
  (if n =? nin w then try_ (set_next_num_in m ;;; persist_in m) ;;; ret tt else ret tt) w.

Lemma logout_count_ok m n w : rv (logout_count m n w) = inl tt.
Proof.
  unfold logout_count. destruct (n =? nin w); [|reflexivity]. rewrite bind_unfold. unfold try_.
  destruct (rv ((set_next_num_in m;;; persist_in m) w)); reflexivity.
Qed.

Lemma logout_count_pres {X} (f : world -> X) m n : ins_all f [FNin; FJsin; FJin] -> pres f (logout_count m n).
Proof.
  intros H w. unfold logout_count. destruct (n =? nin w); [|reflexivity].
  assert (Hp : pres f (try_ (set_next_num_in m;;; persist_in m);;; ret tt)); [|apply Hp].
  cbn in H. destruct H as [H1 [H2 [H3 _]]].
  pres_step; [|pres_tac]. apply pres_try. pres_step; [apply set_next_num_in_pres; ins_auto|apply persist_in_pres; ins_auto].
Qed.

Lemma logout_count_nin m n w :
  mkind m <> KSeqReset -> get_int T34 m = inl n ->
  nin (rw (logout_count m n w)) = if n =? nin w then nin w + 1 else nin w.
Proof.
  intros Hk En. unfold logout_count. destruct (n =? nin w) eqn:E; [|reflexivity].
  assert (n = nin w) by lia. subst n.
  assert (Hp : pres nin (persist_in m)) by (apply persist_in_pres; ins_solve).
  apply get_int_inv in En. destruct En as [v [Hg Hv]].
  assert (Hset : set_next_num_in m w = mkR (inl (nin w)) (set_nin (nin w + 1) w) []).
  { unfold set_next_num_in. destruct (mkind m) eqn:Ek; try congruence; rewrite Hg, Hv; msimp; rewrite Z.eqb_refl; reflexivity. }
  rewrite bind_unfold. unfold try_. rewrite bind_unfold. rewrite Hset. cbn [rv rw re].
  destruct (rv (persist_in m (set_nin (nin w + 1) w))); cbn [ret rv rw re]; rewrite Hp; reflexivity.
Qed.

Lemma logout_counted_unfold c m w :
  logout_counted c m w =
  match get_int T34 m with
  | inl n => let r := logout_count m n w in
             mkR (rv (process_logout c m (rw r))) (rw (process_logout c m (rw r))) (re r ++ re (process_logout c m (rw r)))
  | inr x => mkR (inr x) w []
  end.
Proof.
  unfold logout_counted. rewrite bind_unfold. destruct (get_int T34 m) as [n|x]; cbn [lift ret raise rv rw re app]; [|reflexivity].
  rewrite bind_unfold. cbn [getw rv rw re app]. rewrite bind_unfold.
  change ((if n =? nin w then try_ (set_next_num_in m;;; persist_in m);;; ret tt else ret tt) w) with (logout_count m n w).
  rewrite (logout_count_ok m n w). reflexivity.
Qed.

(* the peer's Logout: after it returned the connection is dead; it counts the Logout when it is in sequence *)
Lemma logout_counted_dead c m w : rv (logout_counted c m w) = inl tt -> dead (rw (logout_counted c m w)).
Proof.
  rewrite logout_counted_unfold. destruct (get_int T34 m); cbn [rv rw]; [|discriminate].
  intros _. apply process_logout_dead.
Qed.

Lemma logout_counted_nin c m w :
  mkind m <> KSeqReset ->
  nin (rw (logout_counted c m w)) = nin w
  \/ (get_int T34 m = inl (nin w) /\ nin (rw (logout_counted c m w)) = nin w + 1).
Proof.
  intros Hnk.
  assert (Hl : pres nin (process_logout c m)) by (apply process_logout_pres; ins_solve).
  rewrite logout_counted_unfold. destruct (get_int T34 m) as [n|x] eqn:En; cbn [rv rw]; [|left; reflexivity].
  rewrite Hl, (logout_count_nin m n w Hnk En). destruct (n =? nin w) eqn:E; [|left; reflexivity].
  right. assert (n = nin w) by lia. subst n. auto.
Qed.

Lemma logout_counted_aw c m : keeps aw_or_dead (logout_counted c m).
Proof.
  intros w Hw. rewrite logout_counted_unfold. destruct (get_int T34 m); cbn [rw].
  - right. apply process_logout_dead.
  - exact Hw.
Qed.

Lemma pre_handlers_aw c m w0 :
  st w0 <> ST_NCE -> mkind m <> KLogon -> keeps aw_or_dead (pre_handlers c m w0).
Proof.
  intros H6 Hk. unfold pre_handlers. keeps_step.
  { destruct (st w0 =? ST_NCE) eqn:E; [lia|keeps_tac]. }
  destruct (mkind m); try solve [keeps_tac]; try congruence.
  - apply (keeps_pres st (fun s => s = ST_AWAITING \/ s <= ST_DISC_BROKEN)).
    apply process_seqreset_pres; ins_solve.
  - apply logout_counted_aw.
Qed.

Lemma pre_handlers_prefix_ok w0 w :
  let A := (if st w0 =? ST_NCE then state_set ST_LOGON_RECV ;;; modw (set_role ROLE_ACCEPTOR) else ret tt) w in
  rv A = inl tt /\ nin (rw A) = nin w.
Proof. cbn zeta. destruct (st w0 =? ST_NCE); split; reflexivity. Qed.

Lemma pre_handlers_logout_dead c m w0 w :
  mkind m = KLogout -> rv (pre_handlers c m w0 w) = inl tt -> dead (rw (pre_handlers c m w0 w)).
Proof.
  intros Hk. unfold pre_handlers. rewrite bind_unfold. rewrite Hk.
  destruct (pre_handlers_prefix_ok w0 w) as [HA _]. cbn zeta in HA. rewrite HA. cbn [rv rw re].
  apply logout_counted_dead.
Qed.

Lemma pre_handlers_logout_nin c m w0 w :
  mkind m = KLogout ->
  nin (rw (pre_handlers c m w0 w)) = nin w
  \/ (get_int T34 m = inl (nin w) /\ nin (rw (pre_handlers c m w0 w)) = nin w + 1).
Proof.
  intros Hk. unfold pre_handlers. rewrite bind_unfold. rewrite Hk.
  destruct (pre_handlers_prefix_ok w0 w) as [HA HN]. cbn zeta in HA, HN. rewrite HA. cbn [rv rw re].
  rewrite <- HN. apply logout_counted_nin. congruence.
Qed.

(* ------------------------------------------------------------------ gap_check *)

Record gc_spec (c : cfg) (m : msg) (w : world) (r : res (option bool)) : Prop := mkGC {
  gc_true : rv r = inl (Some true) ->
            exists n, get_int T34 m = inl n /\ n <= nin w /\ rw r = w /\ re r = [] /\ ~ dead w;
  gc_false : rv r = inl (Some false) -> st (rw r) = ST_AWAITING;
  gc_resend : resends (re r) = [] \/
              (exists rr, resends (re r) = [rr] /\ st w <> ST_AWAITING
                          /\ get T7 (mtags rr) = Some (z_to_dec (nin w)) /\ get T16 (mtags rr) = Some S_0
                          /\ rv r <> inl (Some true) /\ ~ dead w);
  gc_nin : nin (rw r) = nin w;
  gc_apps : apps (re r) = [];
  gc_aw : aw_or_dead w -> aw_or_dead (rw r)
}.

Lemma check_gaps_nin c n : pres nin (check_gaps c n).
Proof. apply check_gaps_pres; ins_solve. Qed.

Lemma check_gaps_not_app c n : allev not_app (check_gaps c n).
Proof. apply check_gaps_allev; cbn; auto. Qed.

Lemma check_gaps_aw c n : keeps aw_or_dead (check_gaps c n).
Proof.
  unfold check_gaps. keeps_step; [keeps_tac|]. destruct (nin a <? n); [|keeps_tac].
  keeps_step; [|keeps_tac]. destruct (negb _); [|keeps_tac].
  keeps_step; [apply keeps_modw; intros w H; exact H|].
  keeps_step; [apply send_msg_keeps_aw|].
  intros w _. left. apply state_set_st.
Qed.

Lemma gap_check_spec c m w : gc_spec c m w (gap_check c m w).
Proof.
  unfold gap_check. rewrite bind_unfold. cbn [getw rv rw re app].
  destruct (st w <=? ST_DISC_BROKEN) eqn:Ed.
  { cbn. constructor; cbn; try discriminate; auto. }
  rewrite bind_unfold. destruct (get_int T34 m) as [n|x] eqn:En; cbn [lift ret raise rv rw re app].
  2:{ constructor; cbn; try discriminate; auto. }
  rewrite bind_unfold.
  pose proof (check_gaps_spec c n w) as [Ht Hf Hr Hs].
  pose proof (check_gaps_nin c n w) as Hn.
  pose proof (apps_nil _ (check_gaps_not_app c n w)) as Ha.
  pose proof (check_gaps_aw c n w) as Haw.
  destruct (check_gaps c n w) as [rb wb eb]. cbn [rv rw re] in *.
  destruct rb as [b|x]; cbn [ret rv rw re].
  - rewrite app_nil_r. constructor; cbn [rv rw re]; auto.
    + intros Hb. assert (b = true) by congruence. subst b.
      destruct (Ht eq_refl) as [H1 [H2 H3]]. exists n. repeat split; auto. unfold dead. lia.
    + intros Hb. assert (b = false) by congruence. subst b. auto.
    + destruct Hr as [Hr|[rr [Hr [H1 [H2 [H3 [H4 H5]]]]]]]; [left; exact Hr|].
      right. exists rr. repeat split; auto; [|unfold dead; lia]. intros Hb.
      assert (b = true) by congruence. subst b. destruct (Ht eq_refl) as [_ [_ He]].
      subst eb. discriminate.
  - constructor; cbn [rv rw re]; auto; try discriminate.
    destruct Hr as [Hr|[rr [Hr [H1 [H2 [H3 [H4 H5]]]]]]]; [left; exact Hr|].
    right. exists rr. repeat split; auto; [discriminate|unfold dead; lia].
Qed.

(* ------------------------------------------------------------------ part1 *)

Record p1_spec (c : cfg) (m : msg) (w : world) (r : res (option bool)) : Prop := mkP1 {
  p1_true : rv r = inl (Some true) ->
            exists n, get_int T34 m = inl n /\ n <= nin (rw r) /\ mkind m <> KLogout /\ ST_NCE <= st w /\ ~ dead (rw r);
  p1_resend : resends (re r) = [] \/
              (exists rr, resends (re r) = [rr] /\ (st w <> ST_AWAITING \/ mkind m = KLogon)
                          /\ get T7 (mtags rr) = Some (z_to_dec (nin (rw r))) /\ get T16 (mtags rr) = Some S_0
                          /\ rv r <> inl (Some true));
  p1_nin : mkind m <> KSeqReset -> mkind m <> KLogout -> nin (rw r) = nin w;
  p1_apps : apps (re r) = [];
  p1_aw : st w = ST_AWAITING -> mkind m <> KLogon -> aw_or_dead (rw r);
  p1_false : rv r = inl (Some false) -> st (rw r) = ST_AWAITING;
  (* the peer's Logout: never reaches the dispatcher; counted (+1) exactly when it carries the expected number *)
  p1_logout : mkind m = KLogout ->
              (forall b, rv r <> inl (Some b))
              /\ (nin (rw r) = nin w \/ (get_int T34 m = inl (nin w) /\ nin (rw r) = nin w + 1))
}.

Lemma gap_check_dead c m w : dead w -> gap_check c m w = mkR (inl None) w [].
Proof.
  intros H. unfold dead in H. unfold gap_check. rewrite bind_unfold. cbn [getw rv rw re].
  destruct (st w <=? ST_DISC_BROKEN) eqn:E; [reflexivity|lia].
Qed.

Lemma early_drop_states m w :
  early_drop m w = true -> st w = ST_NCE \/ st w = ST_LOGON_SENT \/ st w = ST_LOGON_RECV.
Proof.
  unfold early_drop. intros H. apply orb_true_iff in H. destruct H as [H|H]; apply andb_true_iff in H; destruct H as [H _].
  - left. lia.
  - right. apply orb_true_iff in H. destruct H; [left|right]; lia.
Qed.

Lemma part1_spec c m w : p1_spec c m w (part1 c m w).
Proof.
  unfold part1. rewrite bind_unfold. cbn [getw rv rw re app].
  destruct (st w <? ST_NCE) eqn:E6.
  { cbn. constructor; cbn; try discriminate; auto. intros H. left. exact H. intros _. split; [discriminate|auto]. }
  destruct (early_drop m w) eqn:Enl.
  { (* not acceptable before the Logon exchange has completed *)
    apply early_drop_states in Enl.
    rewrite bind_unfold.
    assert (Hd : allev (fun e => not_app e /\ not_resend e) (disconnect c ST_DISC_BROKEN None))
      by (apply disconnect_none_allev; cbn; auto).
    assert (Hn : pres nin (disconnect c ST_DISC_BROKEN None)) by (apply disconnect_pres; ins_solve).
    specialize (Hd w). specialize (Hn w).
    assert (Ha : apps (re (disconnect c ST_DISC_BROKEN None w)) = []).
    { apply apps_nil. eapply Forall_impl; [|exact Hd]. cbn. tauto. }
    assert (Hr : resends (re (disconnect c ST_DISC_BROKEN None w)) = []).
    { apply resends_nil. eapply Forall_impl; [|exact Hd]. cbn. tauto. }
    destruct (disconnect c ST_DISC_BROKEN None w) as [rd wd ed]. cbn [rv rw re] in *.
    destruct rd; cbn [ret rv rw re]; rewrite ?app_nil_r; constructor; cbn [rv rw re]; auto; try discriminate.
    - intros Hs. stlia.
    - intros _. split; [discriminate|auto].
    - intros Hs. stlia.
    - intros _. split; [discriminate|auto]. }
  rewrite bind_unfold.
  pose proof (pre_handlers_not_app c m w w) as Hpa. apply apps_nil in Hpa.
  pose proof (pre_handlers_not_resend c m w w) as Hpr. apply resends_nil in Hpr.
  pose proof (fun Hk Hl => pre_handlers_nin c m w Hk Hl w) as Hpn.
  pose proof (fun a b H => pre_handlers_aw c m w a b w H) as Hpw.
  pose proof (pre_handlers_logout_dead c m w w) as Hlo.
  pose proof (pre_handlers_logout_nin c m w w) as Hln.
  destruct (pre_handlers c m w w) as [rp wp ep] eqn:Ep. cbn [rv rw re] in *.
  destruct rp as [[]|x]; cbn [rv rw re].
  2:{ constructor; cbn [rv rw re]; auto; try discriminate.
      - intros Hs Hk. apply Hpw; auto; [stlia|]. left. exact Hs.
      - intros Hk. split; [discriminate|auto]. }
  pose proof (gap_check_spec c m wp) as [Gt Gf Gr Gn Ga Gw].
  pose proof (gap_check_dead c m wp) as Hgd.
  destruct (gap_check c m wp) as [rg wg eg]. cbn [rv rw re] in *.
  constructor; cbn [rv rw re].
  - intros Hs. destruct (Gt Hs) as [n [H1 [H2 [H3 [H4 H5]]]]]. exists n. subst wg. repeat split; auto; try lia.
  - rewrite resends_app, Hpr. cbn [app].
    destruct Gr as [Gr|[rr [Gr [H1 [H2 [H3 [H4 H5]]]]]]]; [left; exact Gr|].
    right. exists rr. repeat split; auto; [|now rewrite Gn].
    destruct (Z.eq_dec (st w) ST_AWAITING) as [Es|Es]; [|left; exact Es].
    right. destruct (mkind m) eqn:Ek; auto; exfalso;
      (assert (Haw : aw_or_dead wp) by (apply Hpw; [stlia | congruence | left; exact Es]));
      destruct Haw as [Haw|Haw]; auto.
  - intros Hk Hl. rewrite Gn. apply (Hpn Hk Hl).
  - rewrite apps_app, Hpa, Ga. reflexivity.
  - intros Hs Hk. apply Gw. apply Hpw; auto; [stlia|]. left. exact Hs.
  - exact Gf.
  - intros Hk. specialize (Hgd (Hlo Hk eq_refl)). inversion Hgd. subst. split; [discriminate|]. apply Hln. exact Hk.
Qed.

(* ------------------------------------------------------------------ dispatch *)

Lemma restore_handling_allev (P : event -> Prop) : P (State ST_ACTIVE) -> allev P restore_handling.
Proof.
  intros H. unfold restore_handling. allev_step; [allev_tac|]. destruct (st a =? ST_HANDLING); [|allev_tac].
  apply state_set_allev. exact H.
Qed.

Lemma resend_served_allev c m (P : event -> Prop) :
  P (State ST_LOGON_SENT) -> (forall tags, P (Wire (mkMsg MT_SEQUENCERESET tags))) ->
  (forall t tags, is_noreply t = false -> P (Wire (mkMsg t tags))) ->
  P (State ST_HANDLING) -> P (State ST_ACTIVE) ->
  allev P (finally_ (process_resend c m) restore_handling).
Proof.
  intros. apply allev_finally; [apply process_resend_allev; auto|apply restore_handling_allev; auto].
Qed.

Definition delivers (m : msg) : bool :=
  match mkind m with KApp | KLogout => true | _ => false end.

(* the message carries exactly the number expected now *)
Definition seq_is_expected (m : msg) (w : world) : bool :=
  match get_int T34 m with inl n => n =? nin w | inr _ => false end.

(* the final `else` of the dispatcher: on_message only for a valid number that IS the expected number *)
Lemma deliver_branch_unfold (m : msg) (v : bool) (w : world) :
  (if v then (w0 <- getw ;; match get_int T34 m with
                           | inl n => if n =? nin w0 then emit (App m) else ret tt
                           | inr _ => ret tt end)
   else @ret unit tt) w
  = mkR (inl tt) w (if v && seq_is_expected m w then [App m] else []).
Proof.
  unfold seq_is_expected. destruct v; [|reflexivity]. rewrite bind_unfold. cbn [getw rv rw re app andb].
  destruct (get_int T34 m) as [n|x]; [|reflexivity]. destruct (n =? nin w); reflexivity.
Qed.

Lemma dispatch_apps c m v w :
  apps (re (dispatch c m v w)) = if v && delivers m && seq_is_expected m w then [m] else [].
Proof.
  unfold dispatch, delivers. destruct (mkind m) eqn:Ek; rewrite ?andb_false_r; cbn [ret re apps andb];
    try reflexivity.
  - rewrite deliver_branch_unfold. cbn [re]. rewrite andb_true_r. destruct (v && seq_is_expected m w); reflexivity.
  - apply apps_nil. apply resend_served_allev; cbn; auto.
  - apply apps_nil. apply process_testrequest_allev; cbn; auto.
  - apply apps_nil. apply process_heartbeat_allev; cbn; auto.
  - rewrite deliver_branch_unfold. cbn [re]. rewrite andb_true_r. destruct (v && seq_is_expected m w); reflexivity.
Qed.

Lemma dispatch_not_resend c m v : allev not_resend (dispatch c m v).
Proof.
  unfold dispatch. destruct (mkind m); try solve [allev_tac].
  - apply resend_served_allev; cbn; auto. intros t tags Ht. now apply noreply_not_resend.
  - apply process_testrequest_allev; cbn; auto.
  - apply process_heartbeat_allev; cbn; auto.
Qed.

Lemma dispatch_nin c m v : pres nin (dispatch c m v).
Proof. apply dispatch_pres. ins_solve. Qed.

Lemma set_seq_num_st o i : pres st (set_seq_num o i).
Proof. apply set_seq_num_pres; try ins_solve; intros _; cbn; reflexivity. Qed.

Lemma replay_loop_aw c rows : forall a b, keeps aw_or_dead (replay_loop c rows a b).
Proof.
  induction rows as [|r rows IH]; intros a b; cbn [replay_loop]; cbv zeta; [keeps_tac|].
  keeps_step; [keeps_tac|]. keeps_step; [keeps_tac|].
  destruct (_ || _); [apply IH|].
  cbv zeta. keeps_step; [destruct (_ <? _); [apply send_msg_keeps_aw|keeps_tac]|].
  keeps_step; [keeps_tac|]. keeps_step; [keeps_tac|].
  keeps_step; [apply send_msg_keeps_aw|apply IH].
Qed.

(* process_resend entered in RESENDREQ_AWAITING leaves the state alone *)
Definition awaiting (w : world) : Prop := st w = ST_AWAITING.

Lemma send_msg_keeps_awaiting c m : keeps awaiting (send_msg c m).
Proof. apply (send_msg_keeps_st c m (fun s => s = ST_AWAITING)). stlia. Qed.

Lemma replay_loop_awaiting c rows : forall a b, keeps awaiting (replay_loop c rows a b).
Proof.
  induction rows as [|r rows IH]; intros a b; cbn [replay_loop]; cbv zeta; [keeps_tac|].
  keeps_step; [keeps_tac|]. keeps_step; [keeps_tac|].
  destruct (_ || _); [apply IH|].
  cbv zeta. keeps_step; [destruct (_ <? _); [apply send_msg_keeps_awaiting|keeps_tac]|].
  keeps_step; [keeps_tac|]. keeps_step; [keeps_tac|].
  keeps_step; [apply send_msg_keeps_awaiting|apply IH].
Qed.

Lemma process_resend_awaiting c m : keeps awaiting (process_resend c m).
Proof.
  assert (Hq : forall o i, keeps awaiting (set_seq_num o i)).
  { intros. apply (keeps_pres st (fun s => s = ST_AWAITING)). apply set_seq_num_st. }
  assert (Hr : forall a b, keeps awaiting (recover_out a b)).
  { intros. apply (keeps_pres st (fun s => s = ST_AWAITING)). apply recover_out_pres. }
  unfold process_resend. apply keeps_bind_getw. intros w0 H0 w ->.
  match goal with |- awaiting (rw (?k w0)) => assert (Hk : keeps awaiting k); [|apply Hk; exact H0] end.
  unfold awaiting in H0.
  keeps_step. { rewrite H0. cbn. keeps_tac. }
  keeps_step; [keeps_tac|]. keeps_step; [keeps_tac|]. keeps_step; [apply Hr|].
  keeps_step; [keeps_tac|]. keeps_step; [apply replay_loop_awaiting|].
  keeps_step; [keeps_tac|]. cbv zeta.
  keeps_step; [destruct (_ <? _); [apply send_msg_keeps_awaiting|keeps_tac]|].
  apply keeps_bind_getw. intros w2 H2 w ->. unfold awaiting in H2. rewrite H2. cbn. exact H2.
Qed.

Lemma dispatch_aw c m v w : awaiting w -> aw_or_dead (rw (dispatch c m v w)).
Proof.
  intros Hw. unfold dispatch. destruct (mkind m); try (left; exact Hw).
  - rewrite deliver_branch_unfold. left. exact Hw.
  - left. assert (keeps awaiting (finally_ (process_resend c m) restore_handling)) as H; [|apply H; exact Hw].
    apply keeps_finally; [apply process_resend_awaiting|].
    unfold restore_handling. apply keeps_bind_getw. intros w0 H0 w1 ->. unfold awaiting in H0.
    destruct (st w0 =? ST_HANDLING) eqn:E; [stlia|exact H0].
  - apply send_msg_keeps_aw. left. exact Hw.
  - assert (Hd : forall lm, keeps aw_or_dead (disconnect c ST_DISC_BROKEN lm))
      by (intros; apply disconnect_keeps_aw; stlia).
    assert (keeps aw_or_dead (process_heartbeat c m)) as H; [|apply H; left; exact Hw].
    unfold process_heartbeat. keeps_step; [keeps_tac|]. destruct (treq a); [|keeps_tac].
    destruct (get T112 (mtags m)); [|keeps_tac]. destruct (negb _); [apply Hd|].
    apply keeps_modw. intros w1 H1. exact H1.
  - rewrite deliver_branch_unfold. left. exact Hw.
Qed.

(* dispatch is only reached on a live connection; still, a dead one stays dead except through
   process_resend (which sets RESENDREQ_HANDLING unconditionally) *)
Lemma dispatch_dead c m v w : dead w -> mkind m <> KResend -> dead (rw (dispatch c m v w)).
Proof.
  intros Hw Hk. unfold dispatch. destruct (mkind m); try congruence; try exact Hw.
  - rewrite deliver_branch_unfold. exact Hw.
  - apply (send_msg_keeps_st c _ (fun s => s <= ST_DISC_BROKEN)); [stlia|exact Hw].
  - assert (keeps dead (process_heartbeat c m)) as H; [|apply H; exact Hw].
    unfold process_heartbeat. keeps_step; [keeps_tac|]. destruct (treq a); [|keeps_tac].
    destruct (get T112 (mtags m)); [|keeps_tac]. destruct (negb _).
    + intros w0 H0. unfold disconnect. rewrite bind_unfold. cbn [getw rv rw re].
      unfold dead in H0. destruct (st w0 <=? ST_DISC_BROKEN) eqn:E; [exact H0|lia].
    + apply keeps_modw. intros w1 H1. exact H1.
  - rewrite deliver_branch_unfold. exact Hw.
Qed.

(* ------------------------------------------------------------------ finalize *)

Lemma finalize_not_app m now : allev not_app (finalize m now).
Proof. apply finalize_allev. exact I. Qed.
Lemma finalize_not_resend m now : allev not_resend (finalize m now).
Proof. apply finalize_allev. exact I. Qed.


Lemma finalize_tail_nin m now r : pres nin (finalize_tail m now r).
Proof. apply finalize_tail_pres. ins_solve. Qed.

(* a message that is not a SequenceReset advances the expected number by one exactly when it carries it *)
Lemma finalize_nin m now w n :
  mkind m <> KSeqReset -> get_int T34 m = inl n ->
  nin (rw (finalize m now w)) = if n =? nin w then n + 1 else nin w.
Proof.
  intros Hk Hn. apply get_int_inv in Hn. destruct Hn as [v [Hg Hp]].
  unfold finalize. rewrite bind_unfold.
  assert (Hs : set_next_num_in m w =
               if negb (n =? nin w) then mkR (inl (-1)) w [] else mkR (inl n) (set_nin (n + 1) w) []).
  { unfold set_next_num_in. destruct (mkind m); try congruence; rewrite Hg, Hp; msimp;
      destruct (negb (n =? nin w)); reflexivity. }
  rewrite Hs. destruct (n =? nin w) eqn:E; cbn [negb rv rw re]; [|reflexivity].
  destruct (n <=? 0); [reflexivity|]. rewrite finalize_tail_nin. reflexivity.
Qed.

Definition closed_or (w : world) : Prop :=
  st w = ST_AWAITING \/ dead w \/ (st w = ST_ACTIVE /\ maxres w = 0).

Lemma finalize_aw m now w : aw_or_dead w -> closed_or (rw (finalize m now w)).
Proof.
  intros Hw.
  assert (Hn : keeps aw_or_dead (set_next_num_in m)).
  { apply (keeps_pres st (fun s => s = ST_AWAITING \/ s <= ST_DISC_BROKEN)).
    apply set_next_num_in_pres. ins_solve. }
  unfold finalize. rewrite bind_unfold. specialize (Hn w Hw).
  destruct (set_next_num_in m w) as [r1 w1 e1]. cbn [rv rw re] in *.
  assert (Hc : closed_or w1) by (destruct Hn as [H|H]; [left|right; left]; exact H).
  destruct r1 as [r|x]; cbn [rv rw re]; [|exact Hc].
  destruct (r <=? 0); [exact Hc|].
  unfold finalize_tail. rewrite bind_unfold. cbn [getw rv rw re]. rewrite bind_unfold.
  assert (Hp : pres st (modw (set_lastt now) ;;; persist_in m)).
  { pres_step; [pres_tac|]. apply persist_in_pres. ins_solve. }
  assert (Hpm : pres maxres (modw (set_lastt now) ;;; persist_in m)).
  { pres_step; [pres_tac|]. apply persist_in_pres. ins_solve. }
  set (T := modw (set_lastt now) ;;; persist_in m) in *. clearbody T.
  destruct (st w1 =? ST_AWAITING) eqn:Es.
  - destruct (negb (0 <? maxres w1)); [cbn; exact Hc|].
    destruct (maxres w1 <=? r).
    + cbn. right. right. rewrite Hp, Hpm. cbn. split; reflexivity.
    + cbn. unfold closed_or, dead. rewrite Hp, Hpm. exact Hc.
  - cbn. unfold closed_or, dead. rewrite Hp, Hpm. exact Hc.
Qed.

(* ------------------------------------------------------------------ _validate_integrity *)

Lemma validate_ok_low c m w n :
  validate_integrity c m w = VOk -> get_int T34 m = inl n -> n < nin w -> mkind m <> KSeqReset ->
  st w = ST_AWAITING.
Proof.
  intros V Hn Hlt Hk. apply get_int_inv in Hn. destruct Hn as [v [Hg Hp]].
  unfold validate_integrity in V.
  destruct (get T8 (mtags m)); [|discriminate]. destruct (negb _); [discriminate|].
  destruct (get T49 (mtags m)); [|discriminate]. destruct (get T56 (mtags m)); [|discriminate].
  destruct (negb _); [discriminate|]. rewrite Hg, Hp in V.
  destruct ((n <? nin w) && negb match mkind m with KSeqReset => true | _ => false end
            && negb (st w =? ST_AWAITING)) eqn:E; [discriminate|].
  destruct (mkind m); try congruence; cbn in E; lia.
Qed.

(* ------------------------------------------------------------------ one step of _process_message *)

Record pm_spec (c : cfg) (m : msg) (w : world) (r : res unit) : Prop := mkPM {
  pm_apps : apps (re r) = [] \/
            (apps (re r) = [m] /\ mkind m = KApp /\ validate_integrity c m w = VOk /\
             get_int T34 m = inl (nin w) /\ nin (rw r) = nin w + 1);
  pm_nin : mkind m <> KSeqReset ->
           nin (rw r) = nin w \/
           (get_int T34 m = inl (nin w) /\ nin (rw r) = nin w + 1 /\ validate_integrity c m w = VOk);
  pm_resend : resends (re r) = [] \/
              (exists rr, resends (re r) = [rr] /\ (st w <> ST_AWAITING \/ mkind m = KLogon)
                          /\ get T7 (mtags rr) = Some (z_to_dec (nin (rw r))) /\ get T16 (mtags rr) = Some S_0);
  pm_aw : st w = ST_AWAITING -> mkind m <> KLogon -> closed_or (rw r)
}.

Lemma aw_closed w : aw_or_dead w -> closed_or w.
Proof. intros [H|H]; [left|right; left]; exact H. Qed.

Lemma pm_disconnect c m w lm :
  pm_spec c m w (disconnect c ST_DISC_BROKEN lm w).
Proof.
  assert (Hd : allev (fun e => not_app e /\ not_resend e) (disconnect c ST_DISC_BROKEN lm))
    by (apply disconnect_allev; cbn; auto).
  assert (Hn : pres nin (disconnect c ST_DISC_BROKEN lm)) by (apply disconnect_pres; ins_solve).
  specialize (Hd w). specialize (Hn w).
  assert (Ha : apps (re (disconnect c ST_DISC_BROKEN lm w)) = []).
  { apply apps_nil. eapply Forall_impl; [|exact Hd]. cbn. tauto. }
  assert (Hr : resends (re (disconnect c ST_DISC_BROKEN lm w)) = []).
  { apply resends_nil. eapply Forall_impl; [|exact Hd]. cbn. tauto. }
  constructor; auto.
  intros Hs _. apply aw_closed. apply disconnect_keeps_aw; [stlia|]. left. exact Hs.
Qed.

Lemma process_message_spec c m now w : pm_spec c m w (process_message c m now w).
Proof.
  unfold process_message. destruct (validate_integrity c m w) eqn:V.
  2: apply pm_disconnect. 2: apply pm_disconnect.
  2:{ cbn. constructor; cbn; auto. intros Hs _. left. exact Hs. }
  rewrite bind_unfold. unfold try_ at 1 2 3 4 5 6.
  pose proof (part1_spec c m w) as [Pt Pr Pn0 Pa Pw Pf Pl].
  destruct (part1 c m w) as [r1 w1 e1]. cbn [rv rw re] in *.
  assert (Pr' : resends e1 = [] \/
                (exists rr, resends e1 = [rr] /\ (st w <> ST_AWAITING \/ mkind m = KLogon)
                            /\ get T7 (mtags rr) = Some (z_to_dec (nin w1)) /\ get T16 (mtags rr) = Some S_0)).
  { destruct Pr as [Pr|[rr [? [? [? [? ?]]]]]]; [left; auto|right; exists rr; auto]. }
  (* how the expected number stands after the try body, whatever the kind *)
  assert (Pnin : mkind m <> KSeqReset ->
                 nin w1 = nin w \/ (get_int T34 m = inl (nin w) /\ nin w1 = nin w + 1 /\ mkind m = KLogout)).
  { intros Hk. destruct (mkind m) eqn:Ek; try (left; apply Pn0; congruence).
    destruct (Pl eq_refl) as [_ [H|[H1 H2]]]; [left; exact H|right; auto]. }
  (* when the dispatcher is reached the message is not a Logout *)
  assert (Pnl : forall b, r1 = inl (Some b) -> mkind m <> KLogout).
  { intros b Hb Hk. destruct (Pl Hk) as [Hn _]. apply (Hn b). exact Hb. }
  destruct r1 as [[[|]|]|x]; cbn [rv rw re after_part1].
  - (* is_valid_msg_num = True *)
    destruct (Pt eq_refl) as [n [Hn [Hle [Hlo [H6 Hnd]]]]].
    assert (Pn : mkind m <> KSeqReset -> nin w1 = nin w) by (intros Hk; apply Pn0; auto).
    rewrite bind_unfold. unfold try_.
    pose proof (dispatch_apps c m true w1) as Da.
    pose proof (resends_nil _ (dispatch_not_resend c m true w1)) as Dr.
    pose proof (dispatch_nin c m true w1) as Dn.
    pose proof (dispatch_aw c m true w1) as Dw.
    destruct (dispatch c m true w1) as [r2 w2 e2]. cbn [rv rw re] in *.
    pose proof (apps_nil _ (finalize_not_app m now w2)) as Fa.
    pose proof (resends_nil _ (finalize_not_resend m now w2)) as Fr.
    pose proof (finalize_aw m now w2) as Fw.
    destruct r2; cbn [rv rw re]; (constructor; cbn [rv rw re]).
    1,5: (rewrite !apps_app, Pa, Da, Fa; cbn [andb app]; unfold delivers;
      destruct (mkind m) eqn:Ek; cbn [app andb]; auto; try congruence;
      destruct (seq_is_expected m w1) eqn:Es; cbn [app]; auto;
      right; unfold seq_is_expected in Es; rewrite Hn in Es;
      assert (Hk : KApp <> KSeqReset) by discriminate;
      assert (n = nin w) by (rewrite <- (Pn Hk); lia); subst n;
      repeat split; auto;
      rewrite (finalize_nin m now w2 (nin w)); [|congruence|exact Hn]; rewrite Dn, (Pn Hk), Z.eqb_refl; reflexivity).
    1,4: (intros Hk; rewrite (finalize_nin m now w2 n Hk Hn), Dn, (Pn Hk);
      destruct (n =? nin w) eqn:E; [|left; reflexivity];
      right; assert (n = nin w) by lia; subst n; auto).
    1,3: (rewrite !resends_app, Dr, Fr, !app_nil_r;
      destruct Pr as [Pr|[rr [Pr [H1 [H2 [H3 H4]]]]]]; [left; exact Pr|]; congruence).
    1,2: (intros Hs Hk; apply Fw; specialize (Pw Hs Hk); destruct Pw as [Pw|Pw];
      [apply Dw; exact Pw | contradiction]).
  - (* is_valid_msg_num = False *)
    assert (Pn : mkind m <> KSeqReset -> nin w1 = nin w)
      by (intros Hk; apply Pn0; [exact Hk|apply (Pnl false); reflexivity]).
    rewrite bind_unfold. unfold try_.
    pose proof (dispatch_apps c m false w1) as Da.
    pose proof (resends_nil _ (dispatch_not_resend c m false w1)) as Dr.
    pose proof (dispatch_nin c m false w1) as Dn.
    pose proof (dispatch_aw c m false w1) as Dw.
    destruct (dispatch c m false w1) as [r2 w2 e2]. cbn [rv rw re] in *.
    destruct r2; cbn [ret rv rw re]; rewrite ?app_nil_r; (constructor; cbn [rv rw re]).
    1,5: (rewrite !apps_app, Pa, Da; cbn [andb app]; left; reflexivity).
    1,4: (intros Hk; rewrite Dn, (Pn Hk); left; reflexivity).
    1,3: (rewrite !resends_app, Dr, !app_nil_r, Dn; exact Pr').
    1,2: (intros Hs Hk; apply aw_closed; apply Dw; apply Pf; reflexivity).
  - (* early return *)
    cbn [ret rv rw re]. rewrite app_nil_r.
    constructor; cbn [rv rw re]; auto.
    + intros Hk. destruct (Pnin Hk) as [H|[H1 [H2 _]]]; [left; exact H|right; auto].
    + intros Hs Hk. apply aw_closed. auto.
  - (* exception swallowed *)
    cbn [ret rv rw re]. rewrite app_nil_r.
    constructor; cbn [rv rw re]; auto.
    + intros Hk. destruct (Pnin Hk) as [H|[H1 [H2 _]]]; [left; exact H|right; auto].
    + intros Hs Hk. apply aw_closed. auto.
Qed.

(* ------------------------------------------------------------------ SequenceReset: where the expected number can go *)

Lemma keeps_bind_lift {A B} (I : world -> Prop) (v : A + exn) (k : A -> M B) :
  (forall a, v = inl a -> keeps I (k a)) -> keeps I (bind (lift v) k).
Proof.
  intros H w Hw. rewrite bind_unfold. destruct v as [a|x]; cbn; [apply H; auto | exact Hw].
Qed.

Definition nin_target (m : msg) (n0 a x : Z) : Prop :=
  x = n0 \/ x = a \/ exists b, get_int T36 m = inl b /\ x = b.

Lemma set_seq_num_in_keeps (Q : Z -> Prop) v : Q v -> keeps (fun w => Q (nin w)) (set_seq_num None (Some v)).
Proof.
  intros Hv. unfold set_seq_num. keeps_step; [keeps_tac|].
  keeps_step. { destruct (v <=? 0); [keeps_tac|]. apply keeps_modw. intros w _. exact Hv. }
  keeps_step; [keeps_tac|]. destruct (negb _); [keeps_tac|].
  keeps_step; [apply keeps_modw; intros w H; exact H|].
  keeps_step; [keeps_tac|].
  keeps_step; [apply keeps_modw; intros w H; exact H|].
  keeps_step; [keeps_tac|].
  apply keeps_modw; intros w H; exact H.
Qed.

Lemma gap_check_nin c m : pres nin (gap_check c m).
Proof.
  assert (H : forall n, pres nin (check_gaps c n)) by (intros; apply check_gaps_nin).
  unfold gap_check. pres_tac; auto.
Qed.

Section SeqReset.
  Context (c : cfg) (m : msg) (now n0 a : Z).
  Hypothesis Hk : mkind m = KSeqReset.
  Hypothesis Ha : get_int T34 m = inl a.
  Let I := fun w => nin_target m n0 a (nin w).

  Lemma keepsI_pres {A} (k : M A) : pres nin k -> keeps I k.
  Proof. intros H. apply (keeps_pres nin (nin_target m n0 a)). exact H. Qed.

  Lemma process_seqreset_keepsI : keeps I (process_seqreset c m).
  Proof.
    unfold process_seqreset. apply keeps_bind_lift. intros a' Ha'.
    assert (a' = a) by congruence. subst a'.
    keeps_step. { apply (set_seq_num_in_keeps (nin_target m n0 a)). right. left. reflexivity. }
    apply keeps_bind_lift. intros b Hb.
    apply (set_seq_num_in_keeps (nin_target m n0 a)). right. right. exists b. auto.
  Qed.

  Lemma part1_keepsI : keeps I (part1 c m).
  Proof.
    unfold part1. keeps_step; [keeps_tac|]. destruct (st a0 <? ST_NCE); [keeps_tac|].
    destruct (early_drop m a0).
    { keeps_step; [|keeps_tac]. apply keepsI_pres. apply disconnect_pres. ins_solve. }
    keeps_step; [|apply keepsI_pres, gap_check_nin].
    unfold pre_handlers. keeps_step.
    { destruct (st a0 =? ST_NCE); [|keeps_tac]. apply keepsI_pres.
      pres_step; [apply state_set_pres; ins_solve|pres_tac]. }
    rewrite Hk. apply process_seqreset_keepsI.
  Qed.

  Lemma finalize_keepsI : keeps I (finalize m now).
  Proof.
    unfold finalize. keeps_step.
    - unfold set_next_num_in. rewrite Hk. destruct (get T36 (mtags m)) as [v|] eqn:Eg; [|keeps_tac].
      destruct (py_int v) as [b|] eqn:Ep; [|keeps_tac].
      keeps_step; [|keeps_tac]. apply keeps_modw. intros w _. unfold I. cbn.
      right. right. exists b. split; [|reflexivity]. unfold get_int. now rewrite Eg, Ep.
    - destruct (a0 <=? 0); [keeps_tac|]. apply keepsI_pres, finalize_tail_nin.
  Qed.

  Lemma process_message_keepsI : keeps I (process_message c m now).
  Proof.
    intros w Hw. unfold process_message. destruct (validate_integrity c m w).
    - revert w Hw. change (keeps I (r1 <- try_ (part1 c m) ;; after_part1 c m now r1)).
      keeps_step; [apply keeps_try, part1_keepsI|].
      assert (Hd : forall v, keeps I (dispatch c m v)) by (intros; apply keepsI_pres, dispatch_nin).
      unfold after_part1. destruct a0 as [[[|]|]|]; try solve [keeps_tac].
      + keeps_step; [apply keeps_try, Hd|]. apply finalize_keepsI.
      + keeps_step; [apply keeps_try, Hd|]. keeps_tac.
    - apply (keepsI_pres (disconnect c ST_DISC_BROKEN None)); [apply disconnect_pres; ins_solve|exact Hw].
    - apply (keepsI_pres (disconnect c ST_DISC_BROKEN (Some code))); [apply disconnect_pres; ins_solve|exact Hw].
    - exact Hw.
  Qed.
End SeqReset.

Lemma pm_seqreset c m now w a :
  mkind m = KSeqReset -> get_int T34 m = inl a ->
  nin_target m (nin w) a (nin (rw (process_message c m now w))).
Proof.
  intros Hk Ha. apply (process_message_keepsI c m now (nin w) a Hk Ha w). left. reflexivity.
Qed.

Lemma validate_ok_seq c m w : validate_integrity c m w = VOk -> exists n, get_int T34 m = inl n.
Proof.
  unfold validate_integrity, get_int.
  destruct (get T8 (mtags m)); [|discriminate]. destruct (negb _); [discriminate|].
  destruct (get T49 (mtags m)); [|discriminate]. destruct (get T56 (mtags m)); [|discriminate].
  destruct (negb _); [discriminate|]. destruct (get T34 (mtags m)); [|discriminate].
  destruct (py_int s2); [|discriminate]. eauto.
Qed.

(* without a passing integrity check the expected number does not move *)
Lemma pm_not_ok_nin c m now w :
  validate_integrity c m w <> VOk -> nin (rw (process_message c m now w)) = nin w.
Proof.
  intros V. unfold process_message. destruct (validate_integrity c m w); try congruence; try reflexivity;
    apply disconnect_pres; ins_solve.
Qed.

(* ------------------------------------------------------------------ histories *)

Definition seqnum (m : msg) : option Z := match get_int T34 m with inl n => Some n | inr _ => None end.

(* MsgSeqNum values handed to the application by one step, in order *)
Definition delivered (s : srec) : list Z :=
  flat_map (fun m => match seqnum m with Some n => [n] | None => [] end) (apps (s_events s)).

(* a SequenceReset the property allows to be honoured: own number = expected, NewSeqNo not backwards *)
Definition ok_seqreset (w : world) (m : msg) : Prop :=
  get_int T34 m = inl (nin w) /\ (forall b, get_int T36 m = inl b -> nin w <= b).

(* known-finding class D11: any other SequenceReset that passes the integrity check *)
Definition D11_step (c : cfg) (s : srec) : Prop :=
  exists m now, s_op s = OIn m now /\ mkind m = KSeqReset
                /\ validate_integrity c m (s_before s) = VOk /\ ~ ok_seqreset (s_before s) m.

Lemma ok_seqreset_dec w m : ok_seqreset w m \/ ~ ok_seqreset w m.
Proof.
  unfold ok_seqreset. destruct (get_int T34 m) as [a|x].
  2:{ right. intros [H _]. discriminate. }
  destruct (Z.eq_dec a (nin w)) as [->|Hne].
  2:{ right. intros [H _]. congruence. }
  destruct (get_int T36 m) as [b|x].
  2:{ left. split; auto. intros b Hb. discriminate. }
  destruct (Z_le_gt_dec (nin w) b).
  - left. split; auto. intros b' Hb. inversion Hb. subst. assumption.
  - right. intros [_ H]. specialize (H b eq_refl). lia.
Qed.

Lemma not_D11_ok c m now w r :
  ~ D11_step c (mkS w (OIn m now) r) -> mkind m = KSeqReset -> validate_integrity c m w = VOk ->
  ok_seqreset w m.
Proof.
  intros H Hk V. destruct (ok_seqreset_dec w m) as [Hok|Hno]; [exact Hok|].
  exfalso. apply H. exists m, now. cbn. auto.
Qed.

Lemma run_cons c w o h : run c w (o :: h) = mkS w o (step c o w) :: run c (rw (step c o w)) h.
Proof. reflexivity. Qed.

(* operations other than inbound messages neither deliver nor move the expected number *)
Lemma step_other c o w :
  (forall m now, o <> OIn m now) ->
  apps (re (step c o w)) = [] /\ nin (rw (step c o w)) = nin w.
Proof.
  intros Ho. destruct o as [m now|m|now|ds lm]; [exfalso; eapply Ho; eauto| | |]; cbn [step].
  - split; [apply apps_nil, send_msg_allev; cbn; auto | apply send_msg_pres; ins_solve].
  - split; [apply apps_nil, send_test_req_allev; cbn; auto | apply send_test_req_pres; ins_solve].
  - split; [apply apps_nil, disconnect_allev; cbn; auto | apply disconnect_pres; ins_solve].
Qed.

Ltac other_case c w :=
  match goal with
  | |- context [step c ?o w] => destruct (step_other c o w) as [Ha Hn]; [intros; discriminate|]
  end.

(* one step, every start world: a delivery carries exactly the expected number, is the only one of the step, and
   the expected number afterwards is that number + 1 *)
Lemma step_deliver_exact c o w :
  let s := mkS w o (step c o w) in
  delivered s = [] \/ (delivered s = [nin w] /\ nin (s_after s) = nin w + 1).
Proof.
  intros s. subst s. unfold delivered, s_after, s_events. cbn [s_res s_before s_op].
  destruct o as [m now|m|now|ds lm].
  2-4: (other_case c w; rewrite Ha; cbn; left; reflexivity).
  cbn [step]. destruct (pm_apps _ _ _ _ (process_message_spec c m now w)) as [Ha|[Ha [Hk [V [Hs Hn]]]]];
    rewrite Ha; cbn; [left; reflexivity|].
  right. unfold seqnum. rewrite Hs. cbn. auto.
Qed.

(* C04_deliver_at_most_expected, one step *)
Lemma step_deliver_le c o w n :
  In n (delivered (mkS w o (step c o w))) -> n <= nin w.
Proof.
  destruct (step_deliver_exact c o w) as [H|[H _]]; rewrite H; cbn; [tauto|]. intros [<-|[]]. lia.
Qed.

(* C04_no_redelivery, one step: an inbound message numbered below the expected number is never delivered *)
Lemma step_no_redelivery c m now w n :
  get_int T34 m = inl n -> n < nin w -> apps (re (process_message c m now w)) = [].
Proof.
  intros Hn Hlt. destruct (pm_apps _ _ _ _ (process_message_spec c m now w)) as [Ha|[_ [_ [_ [Hs _]]]]]; [exact Ha|].
  rewrite Hs in Hn. inversion Hn. lia.
Qed.

(* one step outside class D11: the expected number does not decrease *)
Lemma step_nin_mono c o w :
  ~ D11_step c (mkS w o (step c o w)) -> nin w <= nin (rw (step c o w)).
Proof.
  intros H11.
  destruct o as [m now|m|now|ds lm].
  2-4: (other_case c w; rewrite Hn; lia).
  cbn [step]. pose proof (process_message_spec c m now w) as [_ Pn _ _].
  destruct (mkind m) eqn:Ek.
  2:{ (* SequenceReset *)
    destruct (validate_integrity c m w) eqn:V.
    2-4: (rewrite pm_not_ok_nin; [lia|congruence]).
    pose proof (not_D11_ok c m now w _ H11 Ek V) as Hok.
    destruct Hok as [Hok1 Hok2].
    destruct (pm_seqreset c m now w (nin w) Ek Hok1) as [H|[H|[b [Hb H]]]]; try lia.
    specialize (Hok2 b Hb). lia. }
  all: (destruct Pn as [Pn|[_ [Pn _]]]; [congruence| |]; lia).
Qed.

(* the per-step facts lifted over a history *)
Lemma run_deliver_exact c h : forall w,
  Forall (fun s => delivered s = [] \/
                   (delivered s = [nin (s_before s)] /\ nin (s_after s) = nin (s_before s) + 1)) (run c w h).
Proof.
  induction h as [|o h IH]; intros w; cbn [run]; constructor; [|apply IH].
  cbn [s_before]. apply step_deliver_exact.
Qed.

Lemma run_deliver_le c h : forall w,
  Forall (fun s => forall n, In n (delivered s) -> n <= nin (s_before s)) (run c w h).
Proof.
  induction h as [|o h IH]; intros w; cbn [run]; constructor; [|apply IH].
  cbn [s_before]. intros n. apply step_deliver_le.
Qed.

Lemma run_no_redelivery c h : forall w,
  Forall (fun s => forall m now n, s_op s = OIn m now -> get_int T34 m = inl n -> n < nin (s_before s) ->
                                   apps (s_events s) = []) (run c w h).
Proof.
  induction h as [|o h IH]; intros w; cbn [run]; constructor; [|apply IH].
  unfold s_events. cbn [s_before s_op s_res]. intros m now n Ho Hn Hlt. subst o. cbn [step].
  eapply step_no_redelivery; eauto.
Qed.

Lemma run_inorder c h : forall w,
  Forall (fun s => ~ D11_step c s) (run c w h) ->
  Forall (fun n => nin w <= n) (flat_map delivered (run c w h))
  /\ StronglySorted Z.lt (flat_map delivered (run c w h))
  /\ Forall (fun s => forall n, In n (delivered s) ->
                      n = nin (s_before s) /\ nin (s_after s) = n + 1 /\ delivered s = [n]) (run c w h).
Proof.
  induction h as [|o h IH]; intros w Hc; cbn [run flat_map].
  { repeat split; constructor. }
  cbn [run] in Hc. inversion Hc as [|s l H11 Hrest]; subst.
  destruct (IH _ Hrest) as [Ilb [Isort Iall]].
  pose proof (step_deliver_exact c o w) as Hd. pose proof (step_nin_mono c o w H11) as Hmono.
  unfold s_after in *. cbn [s_res] in *.
  assert (Hlb' : Forall (fun n => nin w <= n) (flat_map delivered (run c (rw (step c o w)) h))).
  { eapply Forall_impl; [|exact Ilb]. cbn. intros. lia. }
  destruct Hd as [Hd|[Hd Hn]]; rewrite Hd; cbn [app].
  - repeat split; auto. constructor; auto. cbn [s_before]. rewrite Hd. cbn. tauto.
  - repeat split.
    + constructor; [lia|exact Hlb'].
    + constructor; [exact Isort|]. eapply Forall_impl; [|exact Ilb]. cbn. intros. lia.
    + constructor; auto. unfold s_after. cbn [s_before s_res]. rewrite Hd. cbn. intros n [<-|[]]. auto.
Qed.

(* ---- single ResendRequest per gap ---- *)

Definition resend_ok (s : srec) : Prop :=
  forall m now, s_op s = OIn m now ->
    (resends (s_events s) = [] \/
     exists rr, resends (s_events s) = [rr]
                /\ (st (s_before s) <> ST_AWAITING \/ mkind m = KLogon)
                /\ get T7 (mtags rr) = Some (z_to_dec (nin (s_after s)))
                /\ get T16 (mtags rr) = Some S_0)
    /\ (st (s_before s) = ST_AWAITING -> mkind m <> KLogon ->
        resends (s_events s) = [] /\ closed_or (s_after s)).

Lemma step_resend_ok c o w : resend_ok (mkS w o (step c o w)).
Proof.
  intros m now Ho. cbn [s_op] in Ho. subst o. unfold s_events, s_after. cbn [s_res s_before step].
  pose proof (process_message_spec c m now w) as [_ _ Pr Pw]. split; [exact Pr|].
  intros Hs Hk. split; [|auto].
  destruct Pr as [Pr|[rr [_ [[H|H] _]]]]; [exact Pr| |]; contradiction.
Qed.

Lemma run_resend_ok c h : forall w, Forall resend_ok (run c w h).
Proof. induction h as [|o h IH]; intros w; cbn [run]; constructor; [apply step_resend_ok|apply IH]. Qed.

(* ---- how the expected number moves ---- *)

Definition counter_moves (c : cfg) (s : srec) : Prop :=
  nin (s_after s) = nin (s_before s)
  \/ (exists m now, s_op s = OIn m now /\ mkind m <> KSeqReset /\ validate_integrity c m (s_before s) = VOk
                    /\ get_int T34 m = inl (nin (s_before s)) /\ nin (s_after s) = nin (s_before s) + 1)
  \/ (exists m now a, s_op s = OIn m now /\ mkind m = KSeqReset /\ validate_integrity c m (s_before s) = VOk
                      /\ get_int T34 m = inl a
                      /\ (nin (s_after s) = a \/ exists b, get_int T36 m = inl b /\ nin (s_after s) = b)).

Lemma step_counter_moves c o w : counter_moves c (mkS w o (step c o w)).
Proof.
  unfold counter_moves, s_after. cbn [s_res s_before s_op].
  destruct o as [m now|m|now|ds lm].
  2-4: (other_case c w; left; exact Hn).
  cbn [step]. destruct (mkind m) eqn:Ek.
  2:{ destruct (validate_integrity c m w) eqn:V.
      2-4: (left; apply pm_not_ok_nin; congruence).
      destruct (validate_ok_seq c m w V) as [a Ha].
      destruct (pm_seqreset c m now w a Ek Ha) as [H|H]; [left; exact H|].
      right. right. exists m, now, a. repeat split; auto. }
  all: (pose proof (process_message_spec c m now w) as [_ Pn _ _];
        destruct Pn as [Pn|[P1 [P2 P3]]]; [congruence|left; exact Pn|];
        right; left; exists m, now; repeat split; auto; congruence).
Qed.

Lemma run_counter_moves c h : forall w, Forall (counter_moves c) (run c w h).
Proof. induction h as [|o h IH]; intros w; cbn [run]; constructor; [apply step_counter_moves|apply IH]. Qed.

(* outside class D11 the expected number never decreases, and a SequenceReset moves it to NewSeqNo only *)
Lemma run_counter_forward c h : forall w,
  Forall (fun s => ~ D11_step c s) (run c w h) ->
  Forall (fun s => nin (s_after s) = nin (s_before s)
                   \/ nin (s_after s) = nin (s_before s) + 1
                   \/ exists m now b, s_op s = OIn m now /\ mkind m = KSeqReset
                                      /\ get_int T36 m = inl b /\ nin (s_before s) <= b /\ nin (s_after s) = b)
         (run c w h).
Proof.
  induction h as [|o h IH]; intros w Hc; cbn [run] in *; constructor.
  2:{ apply IH. now inversion Hc. }
  inversion Hc as [|s l H11 _]; subst. clear Hc IH.
  destruct (step_counter_moves c o w) as [H|[[m [now [Ho [Hk [V [Hs Hn]]]]]]|[m [now [a [Ho [Hk [V [Ha Hn]]]]]]]]];
    cbn [s_op s_before] in *; auto.
  subst o. pose proof (not_D11_ok c m now w _ H11 Hk V) as Hok.
  destruct Hok as [Hok1 Hok2]. assert (a = nin w) by congruence. subst a.
  destruct Hn as [Hn|[b [Hb Hn]]]; [left; exact Hn|].
  right. right. exists m, now, b. repeat split; auto.
Qed.

(* ------------------------------------------------------------------ boolean class predicates *)

Definition is_vok (v : vres) : bool := match v with VOk => true | _ => false end.
Definition kind_eqb (a b : kind) : bool :=
  match a, b with
  | KLogon, KLogon | KSeqReset, KSeqReset | KLogout, KLogout | KResend, KResend
  | KTestReq, KTestReq | KHeartbeat, KHeartbeat | KApp, KApp => true
  | _, _ => false
  end.

Definition ok_seqresetb (w : world) (m : msg) : bool :=
  match get_int T34 m with
  | inl a => (a =? nin w) && match get_int T36 m with inl b => nin w <=? b | inr _ => true end
  | inr _ => false
  end.

Definition D11_stepb (c : cfg) (s : srec) : bool :=
  match s_op s with
  | OIn m _ =>
      kind_eqb (mkind m) KSeqReset && is_vok (validate_integrity c m (s_before s))
      && negb (ok_seqresetb (s_before s) m)
  | _ => false
  end.

Lemma ok_seqresetb_sound w m : ok_seqresetb w m = true -> ok_seqreset w m.
Proof.
  unfold ok_seqresetb, ok_seqreset. destruct (get_int T34 m) as [a|]; [|discriminate].
  intros H. apply andb_true_iff in H. destruct H as [H1 H2]. assert (a = nin w) by lia. subst a.
  split; auto. intros b Hb. rewrite Hb in H2. lia.
Qed.

Lemma D11_stepb_complete c s : D11_step c s -> D11_stepb c s = true.
Proof.
  intros [m [now [Ho [Hk [V Hno]]]]]. unfold D11_stepb. rewrite Ho, Hk, V. cbn.
  destruct (ok_seqresetb (s_before s) m) eqn:E; [|reflexivity].
  exfalso. apply Hno. now apply ok_seqresetb_sound.
Qed.

Lemma classes_forallb c l :
  forallb (fun s => negb (D11_stepb c s)) l = true -> Forall (fun s => ~ D11_step c s) l.
Proof.
  intros H. rewrite forallb_forall in H. apply Forall_forall. intros s Hs. specialize (H s Hs).
  intros Hd. apply (D11_stepb_complete c) in Hd. rewrite Hd in H. discriminate.
Qed.

(* ------------------------------------------------------------------ concrete witnesses *)

From Coq Require String Ascii.
Import String.StringSyntax.
Delimit Scope string_scope with string.
From AFGen Require Import GenEnums.
Open Scope Z_scope.

Definition S (s : String.string) : str := map Ascii.N_of_ascii (String.list_ascii_of_string s).
Arguments S s%string.

Definition cfg0 : cfg := mkCfg (S "FIX.4.4") (S "CLI") (S "SRV") (S "20230101-10:00:00.000") sys_maxsize (fun _ => true).

(* a freshly connected acceptor / initiator over an empty journal *)
Definition w_acceptor : world := mkW ST_NCE ROLE_ACCEPTOR 1 1 0 None false 0 true (mkJ 0 0 [] []).
Definition w_initiator : world := mkW ST_NCE ROLE_INITIATOR 1 1 0 None false 0 true (mkJ 0 0 [] []).

(* what Codec.decode returns for a frame of the peer *)
Definition inbound (t : str) (seq : Z) (body : list tagv) : msg :=
  mkMsg t
    ([(T8, S "FIX.4.4"); (T9, S "100"); (T35, t); (T49, S "SRV"); (T56, S "CLI");
      (T34, z_to_dec seq); (T52, S "20230101-10:00:00.000")]
     ++ body ++ [(T10, S "000")]).

Definition i_logon (seq : Z) := OIn (inbound (S "A") seq [(T98, S "0"); (T108, S "30")]) 0.
Definition i_app (seq : Z) := OIn (inbound (S "D") seq [(S "11", S "ORD"); (S "55", S "SYM")]) 0.
Definition i_gapfill (seq new : Z) := OIn (mkMsg (S "4")
    [(T8, S "FIX.4.4"); (T9, S "100"); (T35, S "4"); (T49, S "SRV"); (T56, S "CLI");
     (T34, z_to_dec seq); (T52, S "20230101-10:00:00.000"); (T123, S "Y"); (T36, z_to_dec new); (T10, S "000")]) 0.
Definition i_reset (seq new : Z) := OIn (mkMsg (S "4")
    [(T8, S "FIX.4.4"); (T9, S "100"); (T35, S "4"); (T49, S "SRV"); (T56, S "CLI");
     (T34, z_to_dec seq); (T52, S "20230101-10:00:00.000"); (T36, z_to_dec new); (T10, S "000")]) 0.
Definition o_logon := OSend (mkMsg (S "A") [(T98, S "0"); (T108, S "30")]).

(* the former D10 witness (repaired in the code): Logon, 2, then 4 (gap: ResendRequest, RESENDREQ_AWAITING),
   then 2 again - tolerated by the integrity check while a resend is awaited, but no longer delivered *)
Definition h_dup := [i_logon 1; i_app 2; i_app 4; i_app 2].
Lemma dup_not_redelivered :
  flat_map delivered (run cfg0 w_acceptor h_dup) = [2]
  /\ st (final cfg0 w_acceptor h_dup) = ST_AWAITING /\ nin (final cfg0 w_acceptor h_dup) = 3.
Proof. repeat split; vm_compute; reflexivity. Qed.

(* D11: a gap fill numbered 5 while 2 is expected moves the expected number to 7: 2, 3, 4 are skipped and
   never asked for *)
Definition h_highfill := [i_logon 1; i_gapfill 5 7].
Lemma high_gapfill_refuted :
  exists c w h s m now n,
    In s (run c w h) /\ s_op s = OIn m now /\ get_int T34 m = inl n /\ nin (s_before s) < n
    /\ nin (s_before s) < nin (s_after s) /\ resends (trace (run c w h)) = [] /\ flat_map delivered (run c w h) = [].
Proof.
  exists cfg0, w_acceptor, h_highfill.
  eexists (nth 1 (run cfg0 w_acceptor h_highfill) (mkS w_acceptor (i_logon 1) (step cfg0 (i_logon 1) w_acceptor))).
  eexists. exists 0, 5.
  split; [right; left; reflexivity|].
  split; [reflexivity|].
  split; [vm_compute; reflexivity|].
  split; [vm_compute; reflexivity|].
  split; [vm_compute; reflexivity|].
  split; vm_compute; reflexivity.
Qed.

(* D11: a SequenceReset with NewSeqNo below the expected number is honoured: old numbers are delivered again *)
Definition h_backreset := [i_logon 1; i_app 2; i_app 3; i_reset 4 2; i_app 2].
Lemma backward_reset_refuted :
  exists c w h, ~ StronglySorted Z.lt (flat_map delivered (run c w h))
                /\ exists s, In s (run c w h) /\ nin (s_after s) < nin (s_before s).
Proof.
  exists cfg0, w_acceptor, h_backreset. split.
  - assert (E : flat_map delivered (run cfg0 w_acceptor h_backreset) = [2; 3; 2]) by (vm_compute; reflexivity).
    rewrite E. intros H. inversion H as [|a l Hs Hf]; subst.
    inversion Hf as [|b l' _ Hf2]; subst. inversion Hf2 as [|b2 l2 Hlt _]; subst. lia.
  - eexists (nth 3 (run cfg0 w_acceptor h_backreset) (mkS w_acceptor (i_logon 1) (step cfg0 (i_logon 1) w_acceptor))).
    split; [right; right; right; left; reflexivity|]. vm_compute. reflexivity.
Qed.

(* new finding D24: a Logon received by the initiator while RESENDREQ_AWAITING resets the state, and
   its number (above the expected one) triggers a second ResendRequest for the same gap *)
Definition h_logon_dup := [o_logon; i_logon 1; i_app 3; i_logon 5].
Lemma logon_dup_resend_refuted :
  exists c w h rr1 rr2,
    resends (trace (run c w h)) = [rr1; rr2]
    /\ get T7 (mtags rr1) = get T7 (mtags rr2)
    /\ exists s, In s (run c w h) /\ st (s_before s) = ST_AWAITING /\ resends (s_events s) = [rr2].
Proof.
  exists cfg0, w_initiator, h_logon_dup. do 2 eexists. split; [vm_compute; reflexivity|]. split; [reflexivity|].
  eexists (nth 3 (run cfg0 w_initiator h_logon_dup) (mkS w_initiator o_logon (step cfg0 o_logon w_initiator))).
  split; [right; right; right; left; reflexivity|]. split; vm_compute; reflexivity.
Qed.

(* non-vacuity: a history with a real gap, a resend, a gap fill that closes the gap, satisfying the
   hypotheses of the partial theorems and delivering 2, 3, 4, 7 *)
Definition h_good := [i_logon 1; i_app 2; i_app 5; i_app 3; i_app 4; i_gapfill 5 7; i_app 7].
Lemma good_history_in_scope :
  Forall (fun s => ~ D11_step cfg0 s) (run cfg0 w_acceptor h_good)
  /\ flat_map delivered (run cfg0 w_acceptor h_good) = [2; 3; 4; 7]
  /\ length (resends (trace (run cfg0 w_acceptor h_good))) = 1%nat
  /\ st (final cfg0 w_acceptor h_good) = ST_ACTIVE.
Proof.
  split; [apply classes_forallb; vm_compute; reflexivity|]. repeat split; vm_compute; reflexivity.
Qed.

(* the model's constants are the enum numbers / values of the code (regenerated every run) *)
Fixpoint assoc_n (k : str) (l : list (str * N)) : option N :=
  match l with [] => None | (a, b) :: r => if str_eqb a k then Some b else assoc_n k r end.
Fixpoint assoc_s (k : str) (l : list (str * str)) : option str :=
  match l with [] => None | (a, b) :: r => if str_eqb a k then Some b else assoc_s k r end.

Definition stn (name : String.string) (z : Z) : bool :=
  match assoc_n (S name) conn_state with Some n => Z.of_N n =? z | None => false end.
Definition rl (name : String.string) (z : Z) : bool :=
  match assoc_n (S name) conn_role with Some n => Z.of_N n =? z | None => false end.
Definition mt (name : String.string) (v : str) : bool :=
  match assoc_s (S name) fmsg with Some x => str_eqb x v | None => false end.
Definition tg (name : String.string) (v : str) : bool :=
  match assoc_s (S name) ftag with Some x => str_eqb x v | None => false end.
Arguments stn name%string z%Z.
Arguments rl name%string z%Z.
Arguments mt name%string v.
Arguments tg name%string v.

Definition enums_ok : bool :=
  stn "DISCONNECTED_WCONN_TODAY" ST_DISC_WCONN && stn "DISCONNECTED_BROKEN_CONN" ST_DISC_BROKEN
  && stn "DISCONNECTED_NOCONN_TODAY" 1
  && stn "NETWORK_CONN_ESTABLISHED" ST_NCE && stn "LOGON_INITIAL_SENT" ST_LOGON_SENT
  && stn "LOGON_INITIAL_RECV" ST_LOGON_RECV && stn "RESENDREQ_HANDLING" ST_HANDLING
  && stn "RECV_SEQNUM_TOO_HIGH" ST_TOO_HIGH && stn "RESENDREQ_AWAITING" ST_AWAITING && stn "ACTIVE" ST_ACTIVE
  && rl "INITIATOR" ROLE_INITIATOR && rl "ACCEPTOR" ROLE_ACCEPTOR
  && mt "HEARTBEAT" MT_HEARTBEAT && mt "TESTREQUEST" MT_TESTREQUEST && mt "RESENDREQUEST" MT_RESENDREQUEST
  && mt "SEQUENCERESET" MT_SEQUENCERESET && mt "LOGOUT" MT_LOGOUT && mt "LOGON" MT_LOGON
  && tg "BeginSeqNo" T7 && tg "BeginString" T8 && tg "BodyLength" T9 && tg "CheckSum" T10 && tg "EndSeqNo" T16
  && tg "MsgSeqNum" T34 && tg "MsgType" T35 && tg "NewSeqNo" T36 && tg "PossDupFlag" T43
  && tg "SenderCompID" T49 && tg "SendingTime" T52 && tg "TargetCompID" T56 && tg "Text" T58
  && tg "EncryptMethod" T98 && tg "HeartBtInt" T108 && tg "TestReqID" T112 && tg "OrigSendingTime" T122
  && tg "GapFillFlag" T123
  && (sys_maxsize =? I64MAX).

Lemma enums_tied : enums_ok = true.
Proof. vm_compute. reflexivity. Qed.

(* new finding D26: an acceptor ignores a Logon received after the first one (swallowed assertion): a
   Logon numbered above the expected number reveals a gap for which nothing is requested *)
Definition h_relogon := [i_logon 1; i_logon 5].
Lemma acceptor_relogon_refuted :
  exists c w h s m now n,
    In s (run c w h) /\ s_op s = OIn m now /\ get_int T34 m = inl n
    /\ st (s_before s) = ST_ACTIVE /\ nin (s_before s) < n /\ validate_integrity c m (s_before s) = VOk
    /\ s_events s = [] /\ s_after s = s_before s.
Proof.
  exists cfg0, w_acceptor, h_relogon.
  eexists (nth 1 (run cfg0 w_acceptor h_relogon) (mkS w_acceptor (i_logon 1) (step cfg0 (i_logon 1) w_acceptor))).
  eexists. exists 0, 5.
  split; [right; left; reflexivity|].
  split; [reflexivity|].
  split; [vm_compute; reflexivity|].
  split; [vm_compute; reflexivity|].
  split; [vm_compute; reflexivity|].
  split; [vm_compute; reflexivity|].
  split; vm_compute; reflexivity.
Qed.

(* the peer's Logout is counted (repair of D22): Logon 1, D 2, Logout 3 -> next_num_in 4, inbound journal 1 2 3,
   stored inbound counter 3, session closed, the Logout itself is not handed to on_message *)
Definition i_logout (seq : Z) := OIn (inbound (S "5") seq []) 0.
Lemma logout_counted_example :
  let w := final cfg0 w_acceptor [i_logon 1; i_app 2; i_logout 3] in
  nin w = 4 /\ j_in (jr w) = [1; 2; 3] /\ j_sin (jr w) = 3 /\ st w = ST_DISC_WCONN
  /\ flat_map delivered (run cfg0 w_acceptor [i_logon 1; i_app 2; i_logout 3]) = [2].
Proof. cbn zeta. repeat split; vm_compute; reflexivity. Qed.

(* a Logout above the expected number is not counted (and no ResendRequest is written: the session ends) *)
Lemma logout_gap_not_counted :
  let w := final cfg0 w_acceptor [i_logon 1; i_logout 5] in
  nin w = 2 /\ j_in (jr w) = [1] /\ st w = ST_DISC_WCONN.
Proof. cbn zeta. repeat split; vm_compute; reflexivity. Qed.
