(* Extraction of the journal model for C08 (same entry point as C13: request [1, ops, budget] is the
   crash run).  ExtrOcamlBasic only; Z/N/positive/nat stay Coq datatypes.
   The path is relative to coq/, where make and coqc are run. *)
From Coq Require Extraction.
From Coq Require Import ExtrOcamlBasic.
From AF Require Import Fix.JournalRun.
Extraction Language OCaml.
Extraction "../ocaml/build/C08/model.ml" entry.
