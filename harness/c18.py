"""C18 - message containers behave as ordered tag maps with strict duplicate rules.

Theorems (Props/C18.v) are about coq/theories/Fix/Container.v.  This harness ties that model to
asyncfix/message.py by running the real FIXContainer / FIXMessage and the extracted model on the
same operation sequences over a pool of container variables, and runs an independent reference
(ordered dict of str(tag) -> str | list of nested references) as the property oracle.

Case syntax (JSON, symbolic so that a case replays):
  tag   ["i", n] | ["s", text] | ["f", FTag member name] | ["o"] (None) | ["x", kind, n] (an object == int n: float, bool, Decimal ...)
  value ["s", text] | ["i", n] | ["fl", repr] | ["e", enum class, member] | ["b", bool] | ["n"]
        | ["c", class name] | ["v", j] (copy of variable j passed as a plain value) | ["j", literal]
  dict  [[tag, value | ["L", [item, ...]]], ...]      item ["D", dict] | ["V", j] | ["B", literal]
  op    ["new", i, mt|null, dict]  ["set", i, tag, value, replace, via]  ["get", i, tag, dflt, via]
        ["del", i, tag] ["in", i, tag] ["isg", i, tag] ["addg", i, tag, item, idx|null]
        ["setg", i, tag, [item]] ["glist", i, tag] ["gtag", i, tag, gtag, gvalue, dst|null]
        ["gidx", i, tag, idx, dst|null] ["query", i, [tag]] ["eq", i, j] ["eqd", i, [[tag, value]]]
        ["str", i] ["repr", i] ["smt", i, mt] ["items", i]
        ["at", i, [step, ...], lop]   a method called on the item reached from variable i through the accessors:
              step ["idx", tag, n] .get_group_by_index | ["tag", tag, gtag, gvalue] .get_group_by_tag | ["list", tag, n] .get_group_list(tag)[n]
              lop  ["set", tag, value, replace, via] | ["del", tag] | ["addg", tag, item, idx|null] | ["setg", tag, [item]] | ["smt", mt] | ["get", tag, dflt, via]
A container handed to a group method or stored into a variable by gtag/gidx is deep-copied at that
boundary: aliasing between *variables* is outside the model.  Aliasing between a container and its
own items is modelled: "at" changes the item in place through the accessors, and the model
(ContainerRun.OAt / Container.at_path) updates the container functionally."""
import copy
import glob
import json
import os
import pickle

from vlib.core import sx

NVARS = 4

META = {
    "level": "proof",
    "tables": ["GenEnums"],
    "files": ["asyncfix/message.py", "asyncfix/fixtags.py", "asyncfix/msgtype.py", "asyncfix/errors.py"],
    "rule": "adaptive random operation sequences (<= 25 ops quick) over 4 container variables (FIXContainer and FIXMessage), "
            "9 tag numbers x 3 spellings (int, str, FTag) plus odd spellings (' 5', '+5', '05', '5_0', 'x', '', '1.0', None ...), "
            "values str/int/float/enum/bool/None/class/nested dict lists/containers, nesting <= 3, twin-variable, "
            "text-collision, msg_type-of-item and error-marker scenarios for equality, in-place changes of nested items "
            "reached through get_group_by_index / get_group_by_tag / get_group_list (depth 1-3), sandwich histories "
            "(== ; one in-place change at depth 0-3 ; == both ways ; same change on the twin ; ==) and eq-change-eq chains; a case is one sequence, non-trivial when it mutates a container at least "
            "3 times, reads at least once and reaches a refusal; distinct by canonical op list; pickle round trip is "
            "checked differentially on every variable at the end of each sequence",
    "trusted_base": ["str() of values, floats and enum members is computed by Python and handed to the model",
                     "Py/Str.py_int as the model of int(str) on latin-1 text"],
    "assumptions": ["tags are int / latin-1 str / FTag member / None; int tags have fewer than 4300 digits",
                    "aliasing between two variables (a container passed to add_group/set_group is stored itself; an item kept in a "
                    "variable) is outside the model: copied at that boundary; an item changed through the accessors is modelled (OAt)",
                    "class-valued tags (set(tag, SomeClass)) are compared with the model but not judged by the oracle"],
}

FRAMING = {"8", "9", "10", "35"}
DELIMS = set("|=>[], ")
EXC_CODE = {"FIXMessageError": 1, "DuplicatedTagError": 2, "TagNotFoundError": 3, "RepeatingTagError": 4,
            "UnmappedRepeatedGrpError": 5, "KeyError": 6, "AttributeError": 7, "IndexError": 8,
            "ValueError": 9, "TypeError": 10}
MUTATING = {"new", "set", "del", "addg", "setg", "smt", "at"}
LOP_CODE = {"set": 0, "del": 1, "addg": 2, "setg": 3, "smt": 4, "get": 5}


def inner_op(op):
    """The operation an "at" applies to the reached item, in the syntax of the top-level operations."""
    return [op[3][0], op[1]] + list(op[3][1:])


def step_sx(st):
    if st[0] == "idx":
        return [0, tag_sx(st[1]), st[2]]
    if st[0] == "tag":
        return [1, tag_sx(st[1]), tag_sx(st[2]), st[3]]
    return [2, tag_sx(st[1]), st[2]]

_lib = {}


def lib():
    """asyncfix names, imported late (PYTHONPATH points at the repository under test)."""
    if not _lib:
        from asyncfix import FMsg, FTag, FIXMessage
        from asyncfix import errors
        from asyncfix.message import FIXContainer
        from asyncfix.protocol.common import FExecType, FOrdSide, FOrdStatus, FOrdType
        _lib.update(FMsg=FMsg, FTag=FTag, FIXMessage=FIXMessage, FIXContainer=FIXContainer, errors=errors,
                    enums={"FOrdStatus": FOrdStatus, "FOrdSide": FOrdSide, "FOrdType": FOrdType,
                           "FExecType": FExecType, "FMsg": FMsg, "FTag": FTag},
                    classes={"TagNotFoundError": (errors.TagNotFoundError, 0),
                             "RepeatingTagError": (errors.RepeatingTagError, 1),
                             "DuplicatedTagError": (errors.DuplicatedTagError, 2),
                             "ValueError": (ValueError, 2), "int": (int, 3), "FIXContainer": (FIXContainer, 3)},
                    exc={n: getattr(errors, n) for n in ("FIXMessageError", "DuplicatedTagError", "TagNotFoundError",
                                                          "RepeatingTagError", "UnmappedRepeatedGrpError")})
        _lib["exc"].update(KeyError=KeyError, AttributeError=AttributeError, IndexError=IndexError,
                           ValueError=ValueError, TypeError=TypeError, Exception=Exception)
    return _lib


def codes(s):
    return [ord(c) for c in s]


# ------------------------------------------------------------------------------------------
# materialising a symbolic case: Python objects for the implementation, Sx terms for the model
# ------------------------------------------------------------------------------------------

def obj_tag(ts):
    """["x", kind, n]: a tag given as a non-int, non-str object that COMPARES EQUAL to (and hashes like) the int n -
    float n.0, bool, Decimal, Fraction, complex.  The library uses str(tag) only, so the model sees the string spelling
    str(obj): "5.0", "True", "(5+0j)" are refused, Decimal(5) / Fraction(5) are the tag "5"."""
    import decimal
    import fractions
    kind, n = ts[1], ts[2]
    if kind == "float":
        return float(n)
    if kind == "bool":
        return bool(n)
    if kind == "dec":
        return decimal.Decimal(n)
    if kind == "dec1":
        return decimal.Decimal("%d.0" % n)
    if kind == "frac":
        return fractions.Fraction(n)
    if kind == "cplx":
        return complex(n, 0)
    raise ValueError(ts)


def mk_tag(ts):
    k = ts[0]
    if k in ("i", "s"):
        return ts[1]
    if k == "x":
        return obj_tag(ts)
    if k == "f":
        return lib()["FTag"][ts[1]]
    return None


def tag_sx(ts):
    k = ts[0]
    if k == "i":
        return [0, ts[1]]
    if k == "s":
        return [1, ts[1]]
    if k == "f":
        return [2, ts[1]]
    if k == "x":
        return [1, str(obj_tag(ts))]
    return [3, "None"]


def mk_val(vs, pool):
    k = vs[0]
    if k in ("s", "i", "b", "j"):
        return vs[1]
    if k == "fl":
        return float(vs[1])
    if k == "e":
        return lib()["enums"][vs[1]][vs[2]]
    if k == "n":
        return None
    if k == "c":
        return lib()["classes"][vs[1]][0]
    if k == "v":
        return copy.deepcopy(pool[vs[1]])
    raise ValueError(vs)


def val_sx(vs, v):
    if vs[0] == "c":
        return [1, lib()["classes"][vs[1]][1], str(v)]
    return [0, str(v)]


def mk_mt(ms):
    if ms is None:
        return None
    return lib()["FMsg"][ms[1]] if ms[0] == "m" else ms[1]


def mk_item(it, pool):
    k = it[0]
    if k == "D":
        d, m = mk_dict(it[1], pool)
        return d, [0, m]
    if k == "V":
        return copy.deepcopy(pool[it[1]]), [1, it[1]]
    return it[1], [2]


def mk_dict(ds, pool):
    """-> (python dict, model entries); an entry whose key object is already present is skipped."""
    d, m = {}, []
    for ts, vs in ds:
        key = mk_tag(ts)
        if key in d:
            continue
        if vs[0] == "L":
            objs, ms = [], []
            for it in vs[1]:
                o, mo = mk_item(it, pool)
                objs.append(o)
                ms.append(mo)
            d[key] = objs
            m.append([tag_sx(ts), [1, ms]])
        else:
            v = mk_val(vs, pool)
            d[key] = v
            m.append([tag_sx(ts), [0, val_sx(vs, v)]])
    return d, m


def mk_pairs(ps, pool):
    d, m = {}, []
    for ts, vs in ps:
        key = mk_tag(ts)
        if key in d:
            continue
        v = mk_val(vs, pool)
        d[key] = v
        m.append([tag_sx(ts), str(v)])
    return d, m


# ------------------------------------------------------------------------------------------
# implementation driver
# ------------------------------------------------------------------------------------------

def new_pool():
    return [lib()["FIXContainer"]() for _ in range(NVARS)]


def opt(x):
    return [] if x is None else [x]


def apply_impl(pool, op, target=None):
    """Run one operation on the real objects.  -> (raw outcome, model op term)
    raw outcome: ("ok", python value) | ("exc", exception class).
    target: the object to call the method on instead of variable op[1] (an item reached by "at")."""
    L = lib()
    k, i = op[0], op[1]
    c = pool[i] if target is None else target
    mop = None
    try:
        if k == "at":
            inner = inner_op(op)
            # the model term of the inner call (values materialised) does not depend on where it is applied
            _, imop = apply_impl(pool, inner, target=L["FIXContainer"]())
            mop = [18, i, [step_sx(st) for st in op[2]], [LOP_CODE[inner[0]]] + imop[2:]]
            cur = c
            for st in op[2]:
                t = mk_tag(st[1])
                if st[0] == "idx":
                    cur = cur.get_group_by_index(t, st[2])
                elif st[0] == "tag":
                    cur = cur.get_group_by_tag(t, mk_tag(st[2]), st[3])
                else:
                    cur = cur.get_group_list(t)[st[2]]
            raw, _ = apply_impl(pool, inner, target=cur)
            return raw, mop
        if k == "new":
            d, m = mk_dict(op[3], pool)
            mt = mk_mt(op[2])
            mop = [0, i, opt(None if op[2] is None else format(mt, "")), m]
            obj = L["FIXContainer"](d) if op[2] is None else L["FIXMessage"](mt, d)
            pool[i] = obj
            r = None
        elif k == "set":
            t, v = mk_tag(op[2]), mk_val(op[3], pool)
            mop = [1, i, tag_sx(op[2]), val_sx(op[3], v), bool(op[4])]
            if op[5] == "setitem":
                c[t] = v
                r = None
            elif op[4]:
                r = c.set(t, v, replace=True)
            else:
                r = c.set(t, v)
        elif k == "get":
            t, d = mk_tag(op[2]), op[3]
            mop = [2, i, tag_sx(op[2]), [0] if d[0] == "raise" else [1] if d[0] == "none" else [2, d[1]]]
            if d[0] == "raise":
                r = c[t] if op[4] == "getitem" else c.get(t)
            else:
                r = c.get(t, None if d[0] == "none" else d[1])
        elif k == "del":
            mop = [3, i, tag_sx(op[2])]
            del c[mk_tag(op[2])]
            r = None
        elif k == "in":
            mop = [4, i, tag_sx(op[2])]
            r = mk_tag(op[2]) in c
        elif k == "isg":
            mop = [5, i, tag_sx(op[2])]
            r = c.is_group(mk_tag(op[2]))
        elif k == "addg":
            o, mo = mk_item(op[3], pool)
            mop = [6, i, tag_sx(op[2]), mo, -1 if op[4] is None else op[4]]
            r = c.add_group(mk_tag(op[2]), o) if op[4] is None else c.add_group(mk_tag(op[2]), o, op[4])
        elif k == "setg":
            objs, ms = [], []
            for it in op[3]:
                o, mo = mk_item(it, pool)
                objs.append(o)
                ms.append(mo)
            mop = [7, i, tag_sx(op[2]), ms]
            r = c.set_group(mk_tag(op[2]), objs)
        elif k == "glist":
            mop = [8, i, tag_sx(op[2])]
            r = list(c.get_group_list(mk_tag(op[2])))
        elif k == "gtag":
            mop = [9, i, tag_sx(op[2]), tag_sx(op[3]), op[4], opt(op[5])]
            r = c.get_group_by_tag(mk_tag(op[2]), mk_tag(op[3]), op[4])
            if op[5] is not None:
                pool[op[5]] = copy.deepcopy(r)
        elif k == "gidx":
            mop = [10, i, tag_sx(op[2]), op[3], opt(op[4])]
            r = c.get_group_by_index(mk_tag(op[2]), op[3])
            if op[4] is not None:
                pool[op[4]] = copy.deepcopy(r)
        elif k == "query":
            mop = [11, i, [tag_sx(t) for t in op[2]]]
            r = c.query(*[mk_tag(t) for t in op[2]])
        elif k == "eq":
            mop = [12, i, op[2]]
            r = (c == pool[op[2]])
        elif k == "eqd":
            d, m = mk_pairs(op[2], pool)
            mop = [13, i, m]
            r = (c == d)
        elif k == "str":
            mop = [14, i]
            r = str(c)
        elif k == "repr":
            mop = [15, i]
            r = repr(c)
        elif k == "smt":
            mt = mk_mt(op[2])
            mop = [16, i, format(mt, "")]
            if isinstance(c, L["FIXMessage"]):
                c.msg_type = mt
            r = None
        elif k == "items":
            mop = [17, i]
            r = list(c.items())
        else:
            raise RuntimeError("unknown op %r" % (op,))
        return ("ok", r), mop
    except RuntimeError:
        raise
    except Exception as e:  # noqa: BLE001 - the exception class is the observation
        if mop is None:
            raise
        return ("exc", type(e)), mop


def enc_rval(v):
    if v is None:
        return [0]
    if isinstance(v, str):
        return [1, codes(v)]
    if isinstance(v, type):
        kind = 0 if v is lib()["errors"].TagNotFoundError else 1 if v is lib()["errors"].RepeatingTagError else \
            2 if issubclass(v, Exception) else 3
        return [2, kind, codes(str(v))]
    return [9, codes(repr(v))]


def enc_outcome(op, raw):
    """The projection compared with the model (mirror of ContainerRun.sx_outcome)."""
    if op[0] == "at":
        op = inner_op(op)
    if raw[0] == "exc":
        return [1, EXC_CODE.get(raw[1].__name__, 99)]
    k, r = op[0], raw[1]
    if k in ("new", "set", "del", "addg", "setg", "smt"):
        return [0, [] if r is None else [9]]
    if k == "get":
        return [0, enc_rval(r)]
    if k in ("in", "eq", "eqd"):
        return [0, 1 if r is True else 0 if r is False else 9]
    if k == "isg":
        return [0, [] if r is None else [1] if r is True else [0] if r is False else [9]]
    if k == "glist":
        return [0, [codes(repr(x)) for x in r]]
    if k in ("gtag", "gidx", "str", "repr"):
        return [0, codes(r if isinstance(r, str) else repr(r))]
    if k == "query":
        return [0, [[codes(str(kk)), enc_rval(v)] for kk, v in r.items()]]
    if k == "items":
        return [0, [[codes(kk), codes(str(v))] for kk, v in r]]
    raise RuntimeError(k)


# ------------------------------------------------------------------------------------------
# the independent reference (property oracle)
# ------------------------------------------------------------------------------------------

class RefExc(Exception):
    """The reference expects the call to be refused with (a subclass of) one of `names`."""

    def __init__(self, names, why=""):
        super().__init__(why)
        self.names, self.why = list(names), why


class Unjudged(Exception):
    """Outside the property's domain (class-valued tags, non-canonical spellings in query)."""


class RC:
    """Reference container: msg type (None for a plain container) + ordered map key -> str | [RC]."""

    def __init__(self, mt=None):
        self.mt = mt
        self.d = {}

    def clone(self):
        r = RC(self.mt)
        r.d = {k: (v if isinstance(v, str) else [x.clone() for x in v]) for k, v in self.d.items()}
        return r

    def content(self):
        return [[k, v if isinstance(v, str) else [[x.mt, x.content()] for x in v]] for k, v in self.d.items()]

    def tv_content(self):
        """Tag/value content as the property means it for ==: ordered tags, values, nested groups;
        the msg_type of the container and of group items is not a tag."""
        return [[k, v if isinstance(v, str) else [x.tv_content() for x in v]] for k, v in self.d.items()]


def is_int_key(k):
    try:
        int(k)
        return True
    except ValueError:
        return False


def canonical(k):
    try:
        return str(int(k)) == k
    except ValueError:
        return False


def ref_value(vs, rpool):
    """str of the written value, from the case syntax (independent of the implementation objects)."""
    k = vs[0]
    if k == "c":
        raise Unjudged("class value")
    if k == "v":
        raise Unjudged("container passed as a plain value")      # its text is rendering, not content
    return str(mk_val(vs, None))


def ref_key(ts):
    return str(mk_tag(ts))


class Ref:
    def __init__(self):
        self.pool = [RC() for _ in range(NVARS)]

    # --- building containers from argument literals --------------------------------------
    def item(self, it):
        if it[0] == "D":
            return self.build(None, it[1])
        if it[0] == "V":
            return self.pool[it[1]].clone()
        raise RefExc(["FIXMessageError"], "group item is neither dict nor container")

    def items(self, its):
        return [self.item(it) for it in its]

    def build(self, mt, ds):
        c = RC(mt)
        seen = []
        for ts, vs in ds:
            key = mk_tag(ts)
            if any(key == s and hash(key) == hash(s) for s in seen):
                continue                                   # same dict key: skipped by mk_dict too
            seen.append(key)
            if vs[0] == "L":
                self.set_group(c, ts, vs[1])
            else:
                self.set(c, ts, ref_value(vs, self.pool), False)
        return c

    # --- the rules of the property -----------------------------------------------------
    def set(self, c, ts, text, replace):
        k = ref_key(ts)
        if not is_int_key(k):
            raise RefExc(["FIXMessageError"], "non-integer tag")
        if k in c.d and not replace:
            raise RefExc(["DuplicatedTagError"], "tag exists")
        c.d[k] = text                                   # existing key keeps its place, new key at the end

    def group_tag_check(self, k):
        if not is_int_key(k):
            raise RefExc(["FIXMessageError"], "non-integer group tag")

    def set_group(self, c, ts, its):
        k = ref_key(ts)
        errs = []
        if k in c.d:
            errs.append("DuplicatedTagError")
        try:
            self.group_tag_check(k)
        except RefExc as e:
            errs += e.names
        g = None
        try:
            g = self.items(its)
        except RefExc as e:
            errs += e.names
        if errs:
            raise RefExc(errs, "set_group refused")
        c.d[k] = g

    def add_group(self, c, ts, it, idx):
        k = ref_key(ts)
        errs = []
        x = None
        try:
            x = self.item(it)
        except RefExc as e:
            errs += e.names
        if k in c.d and isinstance(c.d[k], str):
            errs.append("FIXMessageError")              # a plain tag is not a group: a documented library error
        try:
            self.group_tag_check(k)
        except RefExc as e:
            errs += e.names
        if errs:
            raise RefExc(errs, "add_group refused")
        g = c.d.setdefault(k, [])
        if idx is None or idx == -1:
            g.append(x)
        else:
            n = len(g)
            pos = min(idx, n) if idx >= 0 else max(0, n + idx)
            g[pos:pos] = [x]

    def group(self, c, ts):
        k = ref_key(ts)
        if k not in c.d:
            raise RefExc(["TagNotFoundError"], "missing")
        if isinstance(c.d[k], str):
            raise RefExc(["UnmappedRepeatedGrpError"], "plain tag")
        return c.d[k]

    # --- one operation: -> ("ok", expected value) ; raises RefExc / Unjudged ---------------
    def nav(self, cur, st):
        """The item one accessor call reaches (the object itself: the reference has real aliasing)."""
        g = self.group(cur, st[1])
        if st[0] == "idx":
            if st[2] >= len(g) or st[2] < -len(g):
                raise RefExc(["TagNotFoundError"], "index out of range")
            return g[st[2]]
        if st[0] == "list":
            if st[2] >= len(g) or st[2] < -len(g):
                raise RefExc(["IndexError"], "list index out of range")
            return g[st[2]]
        gk = ref_key(st[2])
        for x in g:
            if gk in x.d:
                if not isinstance(x.d[gk], str):
                    raise RefExc(["FIXMessageError"], "inner tag is a group")
                if x.d[gk] == st[3]:
                    return x
        raise RefExc(["TagNotFoundError"], "no item matches")

    def apply(self, op, target=None):
        k, i = op[0], op[1]
        c = self.pool[i] if target is None else target
        if k == "at":
            cur = c
            for st in op[2]:
                cur = self.nav(cur, st)
            return self.apply(inner_op(op), target=cur)
        if k == "new":
            mt = None if op[2] is None else format(mk_mt(op[2]), "")
            self.pool[i] = self.build(mt, op[3])
            return None
        if k == "set":
            self.set(c, op[2], ref_value(op[3], self.pool), bool(op[4]))
            return None
        if k == "get":
            key = ref_key(op[2])
            if key not in c.d:
                if op[3][0] == "raise":
                    raise RefExc(["TagNotFoundError"], "missing")
                return None if op[3][0] == "none" else op[3][1]
            if not isinstance(c.d[key], str):
                raise RefExc(["FIXMessageError"], "group read as a plain tag")
            return c.d[key]
        if k == "del":
            key = ref_key(op[2])
            if key not in c.d:
                raise RefExc(["KeyError", "TagNotFoundError"], "missing")
            del c.d[key]
            return None
        if k == "in":
            return ref_key(op[2]) in c.d
        if k == "isg":
            key = ref_key(op[2])
            return None if key not in c.d else not isinstance(c.d[key], str)
        if k == "addg":
            self.add_group(c, op[2], op[3], op[4])
            return None
        if k == "setg":
            self.set_group(c, op[2], op[3])
            return None
        if k == "glist":
            return [[x.mt, x.content()] for x in self.group(c, op[2])]
        if k == "gtag":
            g = self.group(c, op[2])
            gk = ref_key(op[3])
            for x in g:
                if gk in x.d:
                    if not isinstance(x.d[gk], str):
                        raise RefExc(["FIXMessageError"], "inner tag is a group")
                    if x.d[gk] == op[4]:
                        if op[5] is not None:
                            self.pool[op[5]] = x.clone()
                        return [x.mt, x.content()]
            raise RefExc(["TagNotFoundError"], "no item matches")
        if k == "gidx":
            g = self.group(c, op[2])
            idx = op[3]
            if idx >= len(g) or idx < -len(g):
                raise RefExc(["TagNotFoundError"], "index out of range")
            x = g[idx]
            if op[4] is not None:
                self.pool[op[4]] = x.clone()
            return [x.mt, x.content()]
        if k == "query":
            keys = [ref_key(t) for t in op[2]] if op[2] else list(c.d)
            if any(is_int_key(kk) and not canonical(kk) for kk in keys):
                raise Unjudged("non-canonical spelling in query")
            out = {}
            for kk in keys:
                if not is_int_key(kk):
                    raise RefExc(["Exception"], "non-integer tag in query")
                if kk in c.d and not isinstance(c.d[kk], str):
                    raise RefExc(["FIXMessageError"], "group read as a plain tag")
                out[kk] = c.d.get(kk)
            return [[kk, v] for kk, v in out.items()]
        if k == "eq":
            return c.tv_content() == self.pool[op[2]].tv_content()
        if k == "eqd":
            other = {}
            seen = []
            for ts, vs in op[2]:
                key = mk_tag(ts)
                if any(key == s_ and hash(key) == hash(s_) for s_ in seen):
                    continue                               # same dict key (78 == Decimal('78.0')): skipped by mk_pairs too
                seen.append(key)
                kk = ref_key(ts)
                if kk in other:
                    raise Unjudged("dict with two spellings of one tag")
                other[kk] = ref_value(vs, self.pool)
            mine = [kk for kk in c.d if kk not in FRAMING]
            theirs = [kk for kk in other if kk not in FRAMING]
            if set(mine) != set(theirs):
                return False
            grp = [kk for kk in theirs if not isinstance(c.d[kk], str)]
            same = all(c.d[kk] == other[kk] for kk in theirs if kk not in grp)
            if grp:
                # documented: group comparison is not supported (FIXMessageError); False is also
                # acceptable when a plain tag already differs
                raise RefExc(["FIXMessageError"], "group compared with a dict") if same else RefEither(False, ["FIXMessageError"])
            return same
        if k in ("str", "repr"):
            raise Unjudged("text rendering is not part of the property")
        if k == "smt":
            if c.mt is not None:
                c.mt = format(mk_mt(op[2]), "")
            return None
        if k == "items":
            return [[kk, v if isinstance(v, str) else None] for kk, v in c.d.items()]
        raise RuntimeError(k)


class RefEither(Exception):
    def __init__(self, value, names):
        super().__init__("either")
        self.value, self.names = value, names


def impl_content(c):
    """Tag/value content of a real container, read through the public API only."""
    out = []
    FIXMessage = lib()["FIXMessage"]
    for k, v in c.items():
        if c.is_group(k):
            out.append([k, [[format(x.msg_type, "") if isinstance(x, FIXMessage) else None, impl_content(x)]
                            for x in c.get_group_list(k)]])
        else:
            out.append([k, v if isinstance(v, str) else ["<class>", str(v)]])
    return out


def impl_view(op, raw):
    """The implementation's result in the reference's terms."""
    if op[0] == "at":
        op = inner_op(op)
    k, r = op[0], raw[1]
    FIXMessage = lib()["FIXMessage"]

    def cont(x):
        return [format(x.msg_type, "") if isinstance(x, FIXMessage) else None, impl_content(x)]
    if k == "glist":
        return [cont(x) for x in r]
    if k in ("gtag", "gidx"):
        return cont(r)
    if k == "query":
        return [[str(kk), v] for kk, v in r.items()]
    if k == "items":
        return [[kk, v if isinstance(v, str) else None] for kk, v in r]
    return r


def matches(names, cls):
    E = lib()["exc"]
    return any(issubclass(cls, E[n]) for n in names)


class Oracle:
    """Judges one sequence step by step; keeps the reference in step with the implementation."""

    def __init__(self):
        self.ref = Ref()
        self.judging = True
        self.skipped = {}

    def step(self, op, raw, pool_after):
        """-> None (fine / unjudged) or (what, known class or None)."""
        if not self.judging:
            return None
        k = op[0]
        before = copy.deepcopy(self.ref.pool) if k in MUTATING or k in ("gtag", "gidx") else None
        verdict = self.judge(op, raw, before)
        if verdict is None and self.judging and k in MUTATING | {"gtag", "gidx"}:
            for j, (rc, ic) in enumerate(zip(self.ref.pool, pool_after)):
                if rc.content() != impl_content(ic):
                    self.judging = False
                    return ("after %s variable %d holds %r, the reference map holds %r"
                            % (k, j, impl_content(ic), rc.content()), None)
        return verdict

    def expect(self, op):
        try:
            return ("ok", self.ref.apply(op))
        except RefExc as e:
            return ("exc", e.names, e.why)
        except RefEither as e:
            return ("either", e.value, e.names)

    def judge(self, op, raw, before):
        k = op[0]
        try:
            exp = self.expect(op)
        except Unjudged as u:
            why = str(u)
            self.skipped[why] = self.skipped.get(why, 0) + 1
            if k in MUTATING:
                self.judging = False           # the reference cannot follow: stop judging this sequence
            return None
        if exp[0] == "exc" and before is not None:
            self.ref.pool = before              # a refused call must change nothing
        ok = False
        if exp[0] == "ok":
            ok = raw[0] == "ok" and impl_view(op, raw) == exp[1]
        elif exp[0] == "exc":
            ok = raw[0] == "exc" and matches(exp[1], raw[1])
        else:
            ok = (raw[0] == "ok" and raw[1] == exp[1]) or (raw[0] == "exc" and matches(exp[2], raw[1]))
        if ok:
            return None
        seen = ("returned %r" % (impl_view(op, raw),)) if raw[0] == "ok" else "raised " + raw[1].__name__
        want = ("%r" % (exp[1],)) if exp[0] == "ok" else ("%s (%s)" % ("/".join(exp[1]), exp[2])) if exp[0] == "exc" \
            else "%r or %s" % (exp[1], "/".join(exp[2]))
        what = "%s %s, the property requires %s" % (k, seen, want)
        cls = None          # no known-finding class is left for C18: every deviation is a violation
        if cls is None:
            self.judging = False
        return (what, cls)


# ------------------------------------------------------------------------------------------
# generators
# ------------------------------------------------------------------------------------------

NUMS = [1, 11, 78, 5000, 35, 5]
RARE = [8, 9, 10, 55]
ODD_OK = [" 5", "+5", "05", "5_0", "5 ", "-5", "\t5", "5\n", "0", "-0", "00"]
ODD_BAD = ["x", "", "1.0", "1e3", "0x5", "5__0", "_5", "5_", " ", "+", "--5", "+ 5", "5a", "None", "msg_type"]
STRS = ["a", "b", "abc", "", "0", "1", "D", "x y", "a|2=b", "1=>[]", "0=>[]", "#err#", "a=b", "[1, 2]", "a, b", ">", "]",
        "é", "€5", "msg_type=D", "8=FIX.4.4", "NEW", "\x01"]
FLOATS = ["1.5", "0.0", "-0.0", "1e16", "1e-05", "123456789.125", "nan", "inf", "2.0"]
ENUMV = [("FOrdStatus", "NEW"), ("FOrdStatus", "FILLED"), ("FOrdSide", "BUY"), ("FOrdType", "LIMIT"),
         ("FExecType", "TRADE"), ("FMsg", "LOGON"), ("FTag", "Account")]
CLSV = ["TagNotFoundError", "RepeatingTagError", "DuplicatedTagError", "ValueError", "int"]
MTS = [["s", "D"], ["s", "8"], ["m", "LOGON"], ["m", "NEWORDERSINGLE"], ["s", "a|b"], ["s", ""]]

_ftag_by_value = {}


def ftag_name(n):
    if not _ftag_by_value:
        for m in lib()["FTag"]:
            _ftag_by_value[str(m.value)] = m.name
    return _ftag_by_value.get(str(n))


def spell(rng, key):
    """A random spelling of the key string `key`."""
    if canonical(key):
        n = int(key)
        opts = [["i", n], ["s", key]]
        if ftag_name(n):
            opts.append(["f", ftag_name(n)])
        if rng.random() < 0.12:
            # an object that is == the int tag (1 == 1.0 == True == Decimal(1)): same hash, different str()
            kinds = ["float", "dec", "dec1", "frac", "cplx"] + (["bool"] * 3 if n in (0, 1) else [])
            return ["x", rng.choice(kinds), n]
        return rng.choice(opts)
    return ["s", key]


def gen_tag(rng, c=None, p_existing=0.6):
    if c is not None and c.d and rng.random() < p_existing:
        return spell(rng, rng.choice(list(c.d)))
    x = rng.random()
    if x < 0.72:
        return spell(rng, str(rng.choice(NUMS)))
    if x < 0.82:
        return spell(rng, str(rng.choice(RARE)))
    if x < 0.91:
        return ["s", rng.choice(ODD_OK)]
    if x < 0.98:
        return ["s", rng.choice(ODD_BAD)]
    if x < 0.99:
        return ["i", rng.choice([-5, 0, 10 ** 20, 50])]
    return ["o"]


def gen_val(rng, allow_cls=True, allow_list=False):
    x = rng.random()
    if x < 0.45:
        return ["s", rng.choice(STRS)]
    if x < 0.62:
        return ["i", rng.choice([0, 1, 7, -3, 42, 10 ** 20])]
    if x < 0.74:
        return ["fl", rng.choice(FLOATS)]
    if x < 0.86:
        e = rng.choice(ENUMV)
        return ["e", e[0], e[1]]
    if x < 0.89:
        return ["b", rng.random() < 0.5]
    if x < 0.91:
        return ["n"]
    if x < 0.93:
        return ["j", rng.choice([[1, 2], {"a": 1}, []] if allow_list else [{"a": 1}, {}])]   # a list in a dict literal is a group
    if x < 0.95:
        return ["v", rng.randrange(NVARS)]
    if x < 0.975 and allow_cls:
        return ["c", rng.choice(CLSV)]
    return ["s", "".join(rng.choice("ab|=>[], 01") for _ in range(rng.randrange(0, 6)))]


def gen_item(rng, depth):
    x = rng.random()
    if x < 0.68 or depth >= 3:
        return ["D", gen_dict(rng, depth + 1)] if x < 0.9 else ["B", rng.choice([5, "txt", None])]
    if x < 0.9:
        return ["V", rng.randrange(NVARS)]
    return ["B", rng.choice([5, "txt", None, [1]])]


def gen_dict(rng, depth=0, nmax=4):
    out = []
    for _ in range(rng.randrange(0, nmax + 1)):
        t = gen_tag(rng, None)
        if rng.random() < 0.22 and depth < 3:
            out.append([t, ["L", [gen_item(rng, depth) for _ in range(rng.randrange(0, 4))]]])
        else:
            out.append([t, gen_val(rng, allow_cls=rng.random() < 0.3)])
    return out


def gen_step(rng, ref, cur):
    """One accessor step from the reference item cur -> (step, reached reference item or None)."""
    gk = [k for k in group_keys(cur) if cur.d[k]] or group_keys(cur)
    if not gk or rng.random() < 0.04:
        st = [rng.choice(["idx", "list"]), gen_tag(rng, cur, 0.7), rng.randrange(-2, 3)]
    else:
        k = rng.choice(gk)
        g = cur.d[k]
        n = len(g)
        kind = rng.choice(["idx", "idx", "list", "tag"])
        if kind == "tag":
            cands = [(ik, v) for x in g for ik, v in x.d.items() if isinstance(v, str)]
            if cands and rng.random() < 0.9:
                ik, v = rng.choice(cands)
                st = ["tag", spell(rng, k), spell(rng, ik), v]
            else:
                st = ["tag", spell(rng, k), gen_tag(rng), rng.choice(STRS)]
        else:
            idx = rng.randrange(-n, n) if n and rng.random() < 0.9 else rng.choice([n, -n - 1, n + 3])
            st = [kind, spell(rng, k), idx]
    try:
        return st, ref.nav(cur, st)
    except RefExc:
        return st, None


def gen_path(rng, ref, c, depth=None):
    """A path of 1..3 accessor steps from the reference container c (exactly `depth` steps when it can be done)."""
    want = depth if depth is not None else rng.choice([1, 1, 1, 2, 2, 3])
    path, cur = [], c
    while len(path) < want and cur is not None:
        st, cur = gen_step(rng, ref, cur)
        path.append(st)
        if cur is not None and depth is None and not group_keys(cur):
            break
    return path, cur


def gen_lop(rng, x):
    """A method call on the reached reference item x (None: the path fails, any call will do)."""
    x = x if x is not None else RC()
    k = rng.choice(["set"] * 7 + ["del"] * 3 + ["addg"] * 5 + ["setg"] * 2 + ["smt"] + ["get"] * 2)
    gk = group_keys(x)
    if k == "set":
        repl = rng.random() < 0.5
        return ["set", gen_tag(rng, x, 0.6), gen_val(rng, allow_cls=rng.random() < 0.2, allow_list=True), repl,
                "setitem" if not repl and rng.random() < 0.3 else "set"]
    if k == "del":
        return ["del", gen_tag(rng, x, 0.85)]
    if k == "addg":
        t = spell(rng, rng.choice(gk)) if gk and rng.random() < 0.7 else gen_tag(rng, x, 0.2)
        n = len(x.d.get(ref_key(t), [])) if isinstance(x.d.get(ref_key(t)), list) else 0
        return ["addg", t, gen_item(rng, 2), rng.choice([None, None, -1, 0, 1, n, -2, -n - 1, 5])]
    if k == "setg":
        return ["setg", gen_tag(rng, x, 0.2), [gen_item(rng, 2) for _ in range(rng.randrange(0, 3))]]
    if k == "smt":
        return ["smt", rng.choice(MTS)]
    d = rng.choice([["raise"], ["none"], ["s", "dflt"]])
    return ["get", gen_tag(rng, x, 0.8), d, "getitem" if d[0] == "raise" and rng.random() < 0.4 else "get"]


OPW = [("at", 10), ("set", 22), ("get", 10), ("del", 6), ("in", 4), ("isg", 4), ("addg", 11), ("setg", 6), ("glist", 4),
       ("gtag", 5), ("gidx", 7), ("query", 5), ("eq", 6), ("eqd", 7), ("str", 1), ("repr", 1), ("smt", 1),
       ("items", 2), ("new", 4)]
OPS_FLAT = [k for k, w in OPW for _ in range(w)]


def like_item(rng, x):
    """A dict literal sharing the plain entries of the reference item x, plus sometimes one more entry:
    several items then answer the same get_group_by_tag question and only index order tells them apart."""
    d = [[spell(rng, k), ["s", v]] for k, v in x.d.items() if isinstance(v, str) and is_int_key(k)]
    rng.shuffle(d)
    d = d[:rng.randrange(1, 3)]
    if rng.random() < 0.7:
        d.append([spell(rng, str(rng.choice([5000, 55, 9]))), ["s", rng.choice(["p", "q", "r"])]])
    return ["D", d]


def sibling_items(rng):
    """Items of a new group that share one (tag, value) pair."""
    base = [spell(rng, str(rng.choice(NUMS))), ["s", rng.choice(["a", "b", "0"])]]
    out = []
    for _ in range(rng.randrange(2, 5)):
        d = [list(base)] if rng.random() < 0.8 else []
        if rng.random() < 0.7:
            d.append([spell(rng, str(rng.choice([55, 9, 10]))), ["s", rng.choice(["p", "q", "r"])]])
        rng.shuffle(d)
        out.append(["D", d])
    return out


def group_keys(c):
    return [k for k, v in c.d.items() if not isinstance(v, str)]


def gen_op(rng, ref):
    """One operation, chosen with a view of the reference state so that most calls are meaningful."""
    k = rng.choice(OPS_FLAT)
    i = rng.randrange(NVARS)
    c = ref.pool[i]
    gk = group_keys(c)
    if k == "at":
        withg = [j for j in range(NVARS) if any(ref.pool[j].d[g] for g in group_keys(ref.pool[j]))]
        if withg and rng.random() < 0.95:
            i = rng.choice(withg)
            c = ref.pool[i]
        elif rng.random() < 0.7:
            k = "addg"          # nothing to reach yet: build a group instead
        if k == "at":
            path, x = gen_path(rng, ref, c)
            return ["at", i, path, gen_lop(rng, x)]
    if k == "new":
        mt = rng.choice(MTS) if rng.random() < 0.4 else None
        return ["new", i, mt, gen_dict(rng)]
    if k == "set":
        repl = rng.random() < 0.3
        via = "setitem" if (not repl and rng.random() < 0.3) else "set"
        return ["set", i, gen_tag(rng, c, 0.45), gen_val(rng, allow_list=True), repl, via]
    if k == "get":
        d = rng.choice([["raise"], ["raise"], ["none"], ["s", "dflt"]])
        return ["get", i, gen_tag(rng, c, 0.7), d, "getitem" if d[0] == "raise" and rng.random() < 0.4 else "get"]
    if k in ("del", "in", "isg", "glist"):
        if k == "glist" and gk and rng.random() < 0.7:
            return [k, i, spell(rng, rng.choice(gk))]
        return [k, i, gen_tag(rng, c, 0.7)]
    if k == "addg":
        t = spell(rng, rng.choice(gk)) if gk and rng.random() < 0.6 else gen_tag(rng, c, 0.25)
        n = len(c.d.get(ref_key(t), [])) if isinstance(c.d.get(ref_key(t)), list) else 0
        idx = rng.choice([None, None, -1, 0, 1, n, n + 1, -2, -n, -n - 1, n - 1, 5, -7])
        if n and rng.random() < 0.3:
            return ["addg", i, t, like_item(rng, rng.choice(c.d[ref_key(t)])), idx]
        return ["addg", i, t, gen_item(rng, 1), idx]
    if k == "setg":
        if rng.random() < 0.35:
            return ["setg", i, gen_tag(rng, c, 0.2), sibling_items(rng)]
        return ["setg", i, gen_tag(rng, c, 0.3), [gen_item(rng, 1) for _ in range(rng.randrange(0, 4))]]
    if k == "gtag":
        dst = rng.randrange(NVARS) if rng.random() < 0.3 else None
        if gk and rng.random() < 0.8:
            g = rng.choice(gk)
            items = [x for x in c.d[g] if x.d]
            if items and rng.random() < 0.8:
                x = rng.choice(items)
                ik = rng.choice(list(x.d))
                v = x.d[ik] if isinstance(x.d[ik], str) and rng.random() < 0.8 else rng.choice(STRS)
                return ["gtag", i, spell(rng, g), spell(rng, ik), v, dst]
            return ["gtag", i, spell(rng, g), gen_tag(rng), rng.choice(STRS), dst]
        return ["gtag", i, gen_tag(rng, c, 0.7), gen_tag(rng), rng.choice(STRS), dst]
    if k == "gidx":
        dst = rng.randrange(NVARS) if rng.random() < 0.3 else None
        if gk and rng.random() < 0.85:
            g = rng.choice(gk)
            n = len(c.d[g])
            return ["gidx", i, spell(rng, g), rng.randrange(-n - 2, n + 2), dst]
        return ["gidx", i, gen_tag(rng, c, 0.7), rng.randrange(-3, 3), dst]
    if k == "query":
        if rng.random() < 0.3:
            return ["query", i, []]
        # query() is the one accessor that converts the tag OBJECT (int(t)), not its str(): object spellings are left
        # to the other operations, whose contract is stated on str(tag)
        ts = [gen_tag(rng, c, 0.6) for _ in range(rng.randrange(1, 5))]
        return ["query", i, [["i", t[2]] if t[0] == "x" else t for t in ts]]
    if k == "eq":
        return ["eq", i, rng.randrange(NVARS)]
    if k == "eqd":
        pairs = []
        for kk, v in c.d.items():
            if rng.random() < 0.93:
                pairs.append([spell(rng, kk), ["s", v] if isinstance(v, str) else ["j", [1]]])
        x = rng.random()
        if x < 0.25 and pairs:
            j = rng.randrange(len(pairs))
            pairs[j] = [pairs[j][0], gen_val(rng, False)]
        elif x < 0.4:
            pairs.append([gen_tag(rng, None), gen_val(rng, False)])
        elif x < 0.65:
            pairs.insert(rng.randrange(len(pairs) + 1), [spell(rng, rng.choice(sorted(FRAMING))), ["s", rng.choice(["D", "8", "FIX.4.4", "0"])]])
        if rng.random() < 0.2:
            rng.shuffle(pairs)
        return ["eqd", i, pairs]
    if k == "smt":
        return ["smt", i, rng.choice(MTS)]
    return [k, i]


def collision_prefix(rng):
    """Two variables whose content differs but whose text may coincide (the former D18), or whose
    content is the same although the text differs (msg_type of a group item), or error markers."""
    k1, k2 = rng.sample(NUMS, 2)
    v1, v2 = rng.choice(["a", "b", "0", ""]), rng.choice(["x", "y", "1"])
    x = rng.random()
    if x < 0.15:
        # a FIXMessage and a FIXContainer with the same tags as group items: same content
        d = [[["i", k2], ["s", v2]]]
        return [["new", 2, rng.choice(MTS), d], ["new", 3, None, d],
                ["new", 0, None, [[["i", k1], ["L", [["V", 2]]]]]], ["new", 1, None, [[["i", k1], ["L", [["V", 3]]]]]],
                ["eq", 0, 1], ["eq", 2, 3], ["str", 0], ["str", 1]]
    if x < 0.3:
        # error markers: one token whatever the class; not the string "#err#"; other classes are themselves
        c1, c2 = rng.choice([("TagNotFoundError", "RepeatingTagError"), ("ValueError", "DuplicatedTagError"),
                             ("int", "int"), ("int", "FIXContainer"), ("int", "ValueError")])
        return [["set", 0, ["i", k1], ["c", c1], False, "set"], ["set", 1, ["i", k1], ["c", c2], False, "set"],
                ["set", 2, ["i", k1], ["s", "#err#"], False, "set"], ["eq", 0, 1], ["eq", 0, 2], ["eq", 1, 2]]
    if x < 0.5:
        a = [[["i", k1], ["s", "%s|%d=%s" % (v1, k2, v2)]]]
        b = [[["i", k1], ["s", v1]], [["i", k2], ["s", v2]]]
    elif x < 0.7:
        a = [[["i", k1], ["s", "1=>[]"]]]
        b = [[["i", k1], ["L", [["D", []]]]]]
    else:
        a = [[["i", k1], ["s", v1]], [["i", k2], ["s", v2]]]
        b = [[["i", k2], ["s", v2]], [["i", k1], ["s", v1]]]      # same tags, other order: must differ
    return [["new", 0, None, a], ["new", 1, rng.choice([None, ["s", "D"]]), b], ["eq", 0, 1], ["eq", 1, 0]]


def deep_dict(rng):
    """A dict literal with groups nested three deep, so that every depth 0..3 can be reached."""
    lvl3 = ["L", [["D", [[["i", 545], ["s", rng.choice(["s1", "s2"])]]]], ["D", [[["i", 545], ["s", "s3"]]]]]]
    lvl2 = ["L", [["D", [[["i", 524], ["s", "p1"]], [["i", 804], lvl3]]], ["D", [[["i", 524], ["s", "p2"]]]]]]
    lvl1 = ["L", [["D", [[["i", 79], ["s", "a1"]], [["i", 80], ["s", rng.choice(["10", "1"])]], [["i", 539], lvl2]]],
                  ["D", [[["i", 79], ["s", "a2"]], [["i", 80], ["s", "20"]]]],
                  ["D", [[["i", 79], ["s", "a3"]]]]]]
    d = [[["i", 11], ["s", "ord"]], [["i", 55], ["s", rng.choice(["ABC", "X"])]], [["i", 78], lvl1]]
    if rng.random() < 0.5:
        d.append([["i", 1], ["s", "acct"]])
    return d


def sandwich(rng, r, nmut):
    """History class: == ; one in-place change of variable 0 (every mutating method, at every depth 0..3,
    reached through every accessor) ; == both ways ; the same change on variable 1 ; == .
    Equality has to follow the current content each time."""
    d = deep_dict(rng)
    r.do(["new", 0, rng.choice([None, None, ["s", "D"]]), d])
    r.do(["new", 1, rng.choice([None, None, ["s", "D"], ["m", "LOGON"]]), d])
    ref = r.oracle.ref
    for _ in range(nmut):
        depth = rng.choice([0, 1, 1, 2, 2, 3, 3])
        r.do(["eq", 0, 1])
        if rng.random() < 0.5:
            r.do(["eq", 1, 0])
        if depth == 0:
            x = ref.pool[0]
            lop = gen_lop(rng, x)
            if rng.random() < 0.1:
                ops = [["new", v, None, deep_dict(rng)] for v in (0, 1)]
                ops[1][3] = ops[0][3]
            else:
                ops = [[lop[0], v] + lop[1:] for v in (0, 1)]
        else:
            path, x = gen_path(rng, ref, ref.pool[0], depth)
            lop = gen_lop(rng, x)
            path1 = path
            if rng.random() < 0.5:                       # reach the same item another way on the twin
                path1, y = gen_path(rng, ref, ref.pool[1], depth)
                if rng.random() < 0.7:
                    path1 = path
            ops = [["at", 0, path, lop], ["at", 1, path1, lop]]
        r.do(ops[0])
        r.do(["eq", 0, 1])
        r.do(["eq", 1, 0])
        if rng.random() < 0.9:
            r.do(json.loads(json.dumps(ops[1])))
            r.do(["eq", 0, 1])


class Runner:
    """Generates (or replays) one sequence on the implementation and the reference."""

    def __init__(self):
        self.pool = new_pool()
        self.oracle = Oracle()
        self.ops, self.impl, self.mops = [], [], []
        self.findings = []            # (step index, what, cls)

    def do(self, op):
        raw, mop = apply_impl(self.pool, op)
        self.ops.append(op)
        self.mops.append(mop)
        self.impl.append([enc_outcome(op, raw), codes(str(self.pool[op[1]]))])
        v = self.oracle.step(op, raw, self.pool)
        if v is not None:
            self.findings.append((len(self.ops) - 1, v[0], v[1]))
        return raw

    def pickle_check(self):
        out = []
        for j, c in enumerate(self.pool):
            try:
                p = pickle.loads(pickle.dumps(c))
                ok = (p == c) and (c == p) and str(p) == str(c) and repr(p) == repr(c) and type(p) is type(c) \
                    and impl_content(p) == impl_content(c)
                if not ok:
                    out.append("pickle round trip of variable %d changed it: %r -> %r" % (j, c, p))
            except Exception as e:  # noqa: BLE001
                out.append("pickle round trip of variable %d raised %s" % (j, type(e).__name__))
        return out

    def model_line(self):
        return "[%d,%s]" % (NVARS, sx(self.mops))


def gen_sequence(rng, nops):
    r = Runner()
    mode = rng.random()
    if mode < 0.12:
        for op in collision_prefix(rng):
            r.do(op)
    twin = 0.12 <= mode < 0.45
    if 0.45 <= mode < 0.6:
        sandwich(rng, r, max(2, nops // 6))
    partner = {}
    while len(r.ops) < nops:
        op = gen_op(rng, r.oracle.ref)
        chain = op[0] in MUTATING and rng.random() < 0.3
        if chain:
            # eq-after-mutation chain: compare, change in place, compare again with the same partner
            i = op[1]
            j = partner.get(i, rng.randrange(NVARS))
            r.do(["eq", i, j] if rng.random() < 0.7 else ["eq", j, i])
        r.do(op)
        if op[0] == "eq":
            partner[op[1]], partner[op[2]] = op[2], op[1]
        if twin and op[0] in MUTATING and op[1] == 0 and rng.random() < 0.85 and len(r.ops) < nops:
            op2 = json.loads(json.dumps(op))
            op2[1] = 1
            r.do(op2)
        if chain:
            r.do(["eq", i, j] if rng.random() < 0.7 else ["eq", j, i])
    return r


def replay_sequence(ops):
    r = Runner()
    for op in ops:
        r.do(op)
    return r


# the witness of the refuted theorem and the former D18 witnesses (repaired by fixes/C18-*.patch), run first on every run
WITNESSES = [
    [["new", 0, None, [[["i", 1], ["s", "a|2=b"]]]], ["new", 1, None, [[["i", 1], ["s", "a"]], [["i", 2], ["s", "b"]]]], ["eq", 0, 1]],
    [["new", 0, ["s", "D"], [[["i", 1], ["s", "a"]]]], ["eqd", 0, [[["i", 35], ["s", "D"]], [["i", 1], ["s", "a"]]]]],
    [["new", 0, ["s", "D"], [[["i", 35], ["s", "D"]], [["i", 1], ["s", "a"]]]], ["eqd", 0, [[["i", 35], ["s", "X"]], [["i", 1], ["s", "a"]]]]],
    [["set", 0, ["i", 1], ["s", "a"], False, "set"], ["addg", 0, ["i", 1], ["D", []], None]],
    [["setg", 0, ["i", 78], [["D", []], ["D", []]]], ["gidx", 0, ["i", 78], -3, None], ["gidx", 0, ["i", 78], -2, None], ["gidx", 0, ["i", 78], 2, None]],
    [["setg", 0, ["s", "x"], []], ["addg", 0, ["s", ""], ["D", []], None], ["query", 0, []]],
]


def nontrivial(r):
    muts = sum(1 for o, x in zip(r.ops, r.impl) if o[0] in MUTATING and x[0][0] == 0)
    reads = sum(1 for o in r.ops if o[0] not in MUTATING)
    refusals = sum(1 for x in r.impl if x[0][0] == 1)
    return muts >= 3 and reads >= 1 and refusals >= 1


def account(ctx, r, model_res):
    ctx.case(r.ops, nontrivial(r),
             sample={"ops": r.ops[:6], "impl": [[x[0], "".join(map(chr, x[1]))] for x in r.impl[:6]]}
             if len(ctx.samples) < 3 and len(r.ops) > 5 else None)
    ctx.traces += 1
    for o, x in zip(r.ops, r.impl):
        ctx.count("op:" + o[0])
        if o[0] == "at":
            ctx.count("at:%s:depth%d" % (o[3][0], len(o[2])))
            ctx.count("at:via:" + "/".join(sorted({st[0] for st in o[2]})))
        if x[0][0] == 1:
            ctx.count("exc:%s:%s" % (o[0], next((n for n, c in EXC_CODE.items() if c == x[0][1]), "other")))
        if o[0] in ("set", "addg", "setg") and x[0][0] == 0 and is_int_key(ref_key(o[2])) and not canonical(ref_key(o[2])):
            ctx.count("noncanonical_tag_accepted")
        if o[0] in ("set", "get", "del", "in", "isg", "addg", "setg", "glist", "gtag", "gidx"):
            ctx.count("tagspelling:" + o[2][0])
    for why, n in r.oracle.skipped.items():
        ctx.count("oracle_unjudged:" + why, n)
    for (i, what, cls) in r.findings:
        ops = r.ops[:i + 1]
        if not any(k.get("class") == cls for k in ctx.known) and not ctx.failures:
            ops, i, what = shrink(ops, cls, what)
        ctx.fail({"ops": ops}, "step %d: %s" % (i, what), cls)
    for what in r.pickle_check():
        ctx.fail({"ops": r.ops}, what, None)
    if model_res is not None and r.impl != model_res:
        i = next((i for i, (a, b) in enumerate(zip(r.impl, model_res)) if a != b), min(len(r.impl), len(model_res)))
        ctx.disagree({"ops": r.ops[:i + 1]}, r.impl[i] if i < len(r.impl) else None,
                     model_res[i] if i < len(model_res) else None,
                     "container-op-results" if (i < len(r.impl) and i < len(model_res) and r.impl[i][0] != model_res[i][0])
                     else "container-text-after-op")


def shrink(ops, cls, what):
    """Delta-debug a failing sequence: a shorter one on which the oracle still reports a failure of the same class."""
    from vlib.core import ddmin

    def still(sub):
        try:
            return any(c == cls for (_, _, c) in replay_sequence(sub).findings)
        except Exception:  # noqa: BLE001
            return False
    small = ddmin(ops, still, max_tests=300)
    r = replay_sequence(small)
    hit = next(((i, w) for (i, w, c) in r.findings if c == cls), None)
    if hit is None:
        return ops, len(ops) - 1, what
    return small[:hit[0] + 1], hit[0], hit[1]


def corpus():
    out = []
    for f in sorted(glob.glob(os.path.join(os.path.dirname(__file__), "..", "corpus", "C18", "*.json"))):
        out.append(json.load(open(f))["ops"])
    return out


def run(ctx):
    n = ctx.scale(3200, 60000)
    maxops = ctx.scale(30, 40)
    runs = [replay_sequence(ops) for ops in WITNESSES + corpus()]
    for _ in range(n):
        runs.append(gen_sequence(ctx.rng, ctx.rng.randrange(3, maxops + 1)))
    model_out = [None] * len(runs)
    if ctx.model:
        model_out = ctx.model.batch([r.model_line() for r in runs])
    for r, mr in zip(runs, model_out):
        account(ctx, r, mr)


def search(ctx, cases):
    """A proof or the correspondence broke: look for an input on which the implementation itself breaks the property."""
    import random
    import time
    rng = random.Random(ctx.seed + 1)
    for c in cases:
        account(ctx, replay_sequence(c["ops"]), None)
        if ctx.failures:
            return
    t0 = time.time()
    box = ctx.scale(30, 300)
    while time.time() - t0 < box:
        account(ctx, gen_sequence(rng, rng.randrange(3, 26)), None)
        if ctx.failures:
            return


def replay(path):
    rec = json.load(open(path))
    case = rec.get("input")
    if not case:
        print("replay: no concrete input; broken:", rec.get("broken"))
        return 1
    r = replay_sequence(case["ops"])
    for i, (o, x) in enumerate(zip(r.ops, r.impl)):
        print("step %d %s -> %r  |  %s" % (i, json.dumps(o), x[0], "".join(map(chr, x[1]))))
    for (i, what, cls) in r.findings:
        print("ORACLE step %d: %s [class %s]" % (i, what, cls))
    from vlib.core import load_findings
    listed = {k.get("class") for k in load_findings("C18")[0]}
    for w in r.pickle_check():
        print("ORACLE " + w)
    bad = [f for f in r.findings if f[2] not in listed] + r.pickle_check()
    print("replay: %s" % ("still fails" if bad else "no failure outside the known classes"))
    return 1 if bad else 0
