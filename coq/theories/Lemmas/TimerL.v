(* Proofs about the watchdog model Fix/Timer.v (C12). *)
From Coq Require Import ZArith NArith List Bool Lia.
From AF Require Import Base.Sx Py.Str Fix.Timer.
From AFGen Require Import GenTimer.
Import ListNotations.
Open Scope Z_scope.

(* ------------------------------------------------------------------ regenerated constants *)
(* These equalities are re-checked against the regenerated GenTimer on every run: an edit of a
   threshold, of the sleep period or of the state numbering breaks them (and what follows). *)
Lemma thr_probe_eq : forall hb, thr thr_probe hb = (hb - 1) * 1000.
Proof. intro; unfold thr, thr_probe; cbn [fst snd]; lia. Qed.
Lemma thr_dead_eq : forall hb, thr thr_dead hb = 2 * hb * 1000.
Proof. intro; unfold thr, thr_dead; cbn [fst snd]; lia. Qed.
Lemma thr_treq_eq : forall hb, thr thr_treq hb = 2 * hb * 1000.
Proof. intro; unfold thr, thr_treq; cbn [fst snd]; lia. Qed.
Lemma tick_ms_eq : tick_ms = 1000. Proof. reflexivity. Qed.
Lemma st_order : ST_DISCONNECTED_BROKEN_CONN < ST_NETWORK_CONN_ESTABLISHED <= ST_ACTIVE.
Proof. unfold ST_DISCONNECTED_BROKEN_CONN, ST_NETWORK_CONN_ESTABLISHED, ST_ACTIVE; lia. Qed.

(* ------------------------------------------------------------------ vocabulary *)
Definition live (s : st) : Prop := s_conn s = true /\ s_state s = ST_ACTIVE.
Definition dead_st (hb : Z) : st := mkSt ST_DISCONNECTED_BROKEN_CONN hb 0 None false 0.

Lemma div1000 : forall t, 0 <= t - t / 1000 * 1000 < 1000.
Proof. intro t. pose proof (Z.div_mod t 1000). pose proof (Z.mod_pos_bound t 1000). lia. Qed.
Lemma div1000_pos : forall t, 1000 <= t -> 1 <= t / 1000.
Proof. intros t H. pose proof (div1000 t). lia. Qed.

Ltac bool_lia :=
  repeat match goal with
         | H : (_ <? _) = true |- _ => apply Z.ltb_lt in H
         | H : (_ <? _) = false |- _ => apply Z.ltb_ge in H
         | H : (_ <=? _) = true |- _ => apply Z.leb_le in H
         | H : (_ <=? _) = false |- _ => apply Z.leb_gt in H
         | H : (_ =? _) = true |- _ => apply Z.eqb_eq in H
         | H : (_ =? _) = false |- _ => apply Z.eqb_neq in H
         end.

Ltac bool_split :=
  repeat match goal with
         | H : _ && _ = true |- _ => apply andb_true_iff in H; destruct H
         | H : _ && _ = false |- _ => apply andb_false_iff in H; destruct H
         | H : _ || _ = true |- _ => apply orb_true_iff in H; destruct H
         | H : _ || _ = false |- _ => apply orb_false_iff in H; destruct H
         | H : negb _ = true |- _ => apply negb_true_iff in H
         | H : negb _ = false |- _ => apply negb_false_iff in H
         end.

Ltac unfold_states :=
  unfold ST_ACTIVE, ST_RESENDREQ_AWAITING, ST_DISCONNECTED_BROKEN_CONN, ST_NETWORK_CONN_ESTABLISHED in *.

Definition is_testreq (o : out) : bool :=
  match o with OWire KTestRequest _ => true | _ => false end.

Ltac crush_one :=
  match goal with
  | |- context [match ?x with _ => _ end] => is_var x; destruct x eqn:?
  | |- context [if ?c then _ else _] =>
      lazymatch c with
      | context [match _ with _ => _ end] => fail
      | _ => first [ let v := eval vm_compute in c in
                     lazymatch v with
                     | true => change c with true
                     | false => change c with false
                     end
                   | destruct c eqn:? ]
      end
  end.

Ltac crush_cbn :=
  cbn [s_state s_hb s_mlt s_id s_conn s_gap fst snd negb andb orb app existsb is_testreq] in *.

Ltac step_crush :=
  unfold step, tick, recv, app_probe, app_raw, check_gap, dispatch, finalize, session_up, disconnect,
         set_mlt, set_id, set_state, truthy, testreq_frame, thr, thr_probe, thr_dead, thr_treq, thr_treq_silence in *;
  crush_cbn; repeat (crush_one; crush_cbn).

(* logged on: ACTIVE, or RESENDREQ_AWAITING (a ResendRequest is out) - the states in which the watchdog probes *)
Definition up (s : st) : Prop := s_conn s = true /\ session_up s = true.

Lemma live_up : forall s, live s -> up s.
Proof. intros s [Hc Hs]. split; [assumption|]. unfold session_up. rewrite Hs, Z.eqb_refl. reflexivity. Qed.

(* closed form of one watchdog iteration on a logged-on session *)
Definition tick_spec (now : Z) (s : st) : st * list out :=
  let hb := s_hb s in
  match s_id s with
  | None =>
      if (hb - 1) * 1000 <? now - s_mlt s then
        (mkSt (s_state s) hb now (Some (now / 1000)) true (s_gap s), [testreq_frame (now / 1000)])
      else (s, [])
  | Some n =>
      if (2 * hb * 1000 <? now - s_mlt s) && (negb (s_mlt s =? 0) || (2 * hb * 1000 <? now - n * 1000))
      then (dead_st hb, [ODisconnect])
      else (s, [])
  end.

Lemma tick_up : forall now s, up s -> 0 <= s_hb s -> s_id s <> Some 0 -> tick now s = tick_spec now s.
Proof.
  intros now [stt hb mlt id conn g] [Hc Hs] Hhb Hid. unfold session_up in Hs. cbn in Hc, Hs, Hhb, Hid. subst conn.
  unfold tick_spec, dead_st. step_crush; try reflexivity; exfalso;
    try (cbn in Hs; discriminate Hs); try congruence;
    bool_split; bool_lia; subst; try congruence; unfold_states; lia.
Qed.

(* ------------------------------------------------------------------ single iterations *)
Definition idle_up (s : st) (hb t0 : Z) : Prop :=
  up s /\ s_hb s = hb /\ s_id s = None /\ s_mlt s = t0.
Definition idle_at (s : st) (hb t0 : Z) : Prop :=
  live s /\ s_hb s = hb /\ s_id s = None /\ s_mlt s = t0 /\ s_gap s = 0.

Lemma idle_at_up : forall s hb t0, idle_at s hb t0 -> idle_up s hb t0.
Proof. intros s hb t0 (L & Hh & Hi & Hm & _). repeat split; try assumption; apply live_up; assumption. Qed.

Lemma tick_idle : forall now s hb t0,
  idle_up s hb t0 -> 0 <= hb -> now - t0 <= (hb - 1) * 1000 -> tick now s = (s, []).
Proof.
  intros now s hb t0 (L & Hh & Hi & Hm) Hhb Hle.
  rewrite tick_up; [| assumption | lia | congruence].
  unfold tick_spec. rewrite Hi, Hh, Hm.
  replace ((hb - 1) * 1000 <? now - t0) with false by (symmetry; apply Z.ltb_ge; lia). reflexivity.
Qed.

Definition probing_of (s : st) (now : Z) : st :=
  mkSt (s_state s) (s_hb s) now (Some (now / 1000)) true (s_gap s).

Lemma tick_probe : forall now s hb t0,
  idle_up s hb t0 -> 0 <= hb -> (hb - 1) * 1000 < now - t0 ->
  tick now s = (probing_of s now, [testreq_frame (now / 1000)]).
Proof.
  intros now s hb t0 (L & Hh & Hi & Hm) Hhb Hgt.
  rewrite tick_up; [| assumption | lia | congruence].
  unfold tick_spec, probing_of. rewrite Hi, Hm. rewrite Hh at 1.
  replace ((hb - 1) * 1000 <? now - t0) with true by (symmetry; apply Z.ltb_lt; lia).
  reflexivity.
Qed.

(* a probe is outstanding and the clock (probe time or last valid message) is at most 2 hb s old: nothing happens *)
Lemma tick_waiting : forall now s n,
  up s -> s_id s = Some n -> n <> 0 -> 0 <= s_hb s -> now - s_mlt s <= 2 * s_hb s * 1000 ->
  tick now s = (s, []).
Proof.
  intros now s n L Hi Hn Hhb Hle.
  rewrite tick_up; [| assumption | lia | congruence].
  unfold tick_spec. rewrite Hi.
  replace (2 * s_hb s * 1000 <? now - s_mlt s) with false by (symmetry; apply Z.ltb_ge; lia).
  reflexivity.
Qed.

(* ... and the first iteration that finds it older disconnects *)
Lemma tick_timeout : forall now s n,
  up s -> s_id s = Some n -> n <> 0 -> 0 <= s_hb s -> s_mlt s <> 0 -> 2 * s_hb s * 1000 < now - s_mlt s ->
  tick now s = (dead_st (s_hb s), [ODisconnect]).
Proof.
  intros now s n L Hi Hn Hhb Hm Hlt.
  rewrite tick_up; [| assumption | lia | congruence].
  unfold tick_spec. rewrite Hi.
  replace (2 * s_hb s * 1000 <? now - s_mlt s) with true by (symmetry; apply Z.ltb_lt; lia).
  replace (s_mlt s =? 0) with false by (symmetry; apply Z.eqb_neq; assumption).
  reflexivity.
Qed.

(* ------------------------------------------------------------------ runs *)
Definition outs (s : st) (evs : list ev) : list (list out) := map r_out (trace s evs).

(* k iterations one sleep period apart, the first at time p *)
Fixpoint ticks (p : Z) (k : nat) : list ev :=
  match k with
  | O => []
  | S k' => Tick p :: ticks (p + tick_ms) k'
  end.

Lemma trace_app : forall a s b, trace s (a ++ b) = trace s a ++ trace (final s a) b.
Proof.
  induction a as [|e a IH]; intros s b; [reflexivity|].
  cbn [app trace]. unfold final. cbn [fold_left]. destruct (step s e) as [s' o] eqn:E. cbn [fst].
  rewrite IH. reflexivity.
Qed.

Lemma final_app : forall a s b, final s (a ++ b) = final (final s a) b.
Proof. intros; unfold final; apply fold_left_app. Qed.

Lemma outs_app : forall a s b, outs s (a ++ b) = outs s a ++ outs (final s a) b.
Proof. intros; unfold outs; rewrite trace_app, map_app; reflexivity. Qed.

Lemma trace_ev : forall evs s, map r_ev (trace s evs) = evs.
Proof.
  induction evs as [|e evs IH]; intro s; [reflexivity|].
  cbn [trace]. destruct (step s e) as [s' o]. cbn [map r_ev]. rewrite IH. reflexivity.
Qed.

Lemma ticks_app : forall a p b, ticks p (a + b) = ticks p a ++ ticks (p + Z.of_nat a * 1000) b.
Proof.
  induction a as [|a IH]; intros p b.
  - cbn. f_equal. lia.
  - cbn [Nat.add ticks app]. rewrite IH, tick_ms_eq. do 3 f_equal. lia.
Qed.

Lemma outs_cons : forall s e r, outs s (e :: r) = snd (step s e) :: outs (fst (step s e)) r.
Proof. intros; unfold outs; cbn [trace]; destruct (step s e); reflexivity. Qed.

Lemma final_cons : forall s e r, final s (e :: r) = final (fst (step s e)) r.
Proof. reflexivity. Qed.

(* silence not yet long enough: k iterations change nothing and emit nothing *)
Lemma quiet_ticks : forall k p s hb t0,
  idle_up s hb t0 -> 0 <= hb -> p + (Z.of_nat k - 1) * 1000 - t0 <= (hb - 1) * 1000 ->
  outs s (ticks p k) = repeat [] k /\ final s (ticks p k) = s.
Proof.
  induction k as [|k IH]; intros p s hb t0 I Hhb Hle; [split; reflexivity|].
  cbn [ticks repeat]. rewrite outs_cons, final_cons. cbn [step].
  rewrite (tick_idle p s hb t0 I Hhb) by lia. cbn [fst snd].
  destruct (IH (p + tick_ms) s hb t0 I Hhb) as [A B]; [rewrite tick_ms_eq; lia|].
  rewrite A, B. split; reflexivity.
Qed.

(* a probe is outstanding: until the clock is 2 hb s old nothing is emitted (no second probe, no disconnect) *)
Lemma waiting_ticks : forall k p s n,
  up s -> s_id s = Some n -> n <> 0 -> 0 <= s_hb s ->
  p + (Z.of_nat k - 1) * 1000 - s_mlt s <= 2 * s_hb s * 1000 ->
  outs s (ticks p k) = repeat [] k /\ final s (ticks p k) = s.
Proof.
  induction k as [|k IH]; intros p s n L Hi Hn Hhb Hle; [split; reflexivity|].
  cbn [ticks repeat]. rewrite outs_cons, final_cons. cbn [step].
  rewrite (tick_waiting p s n L Hi Hn Hhb) by lia. cbn [fst snd].
  destruct (IH (p + tick_ms) s n L Hi Hn Hhb) as [A B]; [rewrite tick_ms_eq; lia|].
  rewrite A, B. split; reflexivity.
Qed.

(* ------------------------------------------------------------------ C12_probe, C12_dead_peer *)
Lemma probe_run : forall hb s t0 p (k : nat),
  1 <= hb -> idle_up s hb t0 ->
  let tp := p + Z.of_nat k * 1000 in
  tp - 1000 - t0 <= (hb - 1) * 1000 < tp - t0 ->
  outs s (ticks p (k + 1)) = repeat [] k ++ [[testreq_frame (tp / 1000)]]
  /\ final s (ticks p (k + 1)) = probing_of s tp
  /\ t0 + (hb - 1) * 1000 < tp <= t0 + hb * 1000.
Proof.
  intros hb s t0 p k Hhb I tp [Hprev Hfire].
  rewrite ticks_app, outs_app, final_app.
  destruct (quiet_ticks k p s hb t0 I) as [A B]; [lia | subst tp; lia |].
  rewrite A, B. cbn [ticks]. rewrite outs_cons, final_cons. cbn [step].
  fold tp. rewrite (tick_probe tp s hb t0 I) by lia.
  cbn [fst snd outs trace map final fold_left]. repeat split; lia.
Qed.

Lemma probing_up : forall s t, up s -> up (probing_of s t).
Proof. intros s t [Hc Hs]. split; [reflexivity | exact Hs]. Qed.

(* the peer stays silent: exactly 2 hb quiet iterations follow the probe and the next one disconnects *)
Lemma dead_peer_run : forall hb s t0 p (k m : nat),
  1 <= hb -> idle_up s hb t0 -> 1000 <= p ->
  let tp := p + Z.of_nat k * 1000 in
  let td := tp + (2 * hb + 1) * 1000 in
  tp - 1000 - t0 <= (hb - 1) * 1000 < tp - t0 ->
  Z.of_nat m = 2 * hb ->
  outs s (ticks p (k + 1 + (m + 1))) =
    repeat [] k ++ [[testreq_frame (tp / 1000)]] ++ repeat [] m ++ [[ODisconnect]]
  /\ final s (ticks p (k + 1 + (m + 1))) = dead_st hb
  /\ t0 + 3 * hb * 1000 < td <= t0 + (3 * hb + 1) * 1000.
Proof.
  intros hb s t0 p k m Hhb I Hp tp td Hk Hm.
  destruct (probe_run hb s t0 p k Hhb I Hk) as (A & B & C). fold tp in A, B, C.
  rewrite (ticks_app (k + 1)), outs_app, final_app, A, B.
  replace (p + Z.of_nat (k + 1) * 1000) with (tp + 1000) by (subst tp; lia).
  rewrite (ticks_app m), outs_app, final_app.
  destruct I as (U & Hh & Hi & Hmlt).
  assert (Hn : tp / 1000 <> 0) by (pose proof (div1000_pos tp); subst tp; lia).
  destruct (waiting_ticks m (tp + 1000) (probing_of s tp) (tp / 1000) (probing_up s tp U)) as [W F];
    [reflexivity | assumption | cbn [probing_of s_hb]; lia | cbn [probing_of s_hb s_mlt]; lia |].
  rewrite W, F. cbn [ticks]. rewrite outs_cons, final_cons. cbn [step].
  rewrite (tick_timeout _ _ (tp / 1000));
    [| apply probing_up; assumption | reflexivity | assumption | cbn [probing_of s_hb]; lia
     | cbn [probing_of s_mlt]; subst tp; lia | cbn [probing_of s_hb s_mlt]; lia ].
  cbn [fst snd outs trace map final fold_left probing_of s_hb].
  rewrite <- !app_assoc. cbn [app]. rewrite Hh.
  repeat split; subst td; lia.
Qed.

(* ------------------------------------------------------------------ facts about one step *)
Definition writes_testreq (r : row) : bool := existsb is_testreq (r_out r).
Definition is_tick (e : ev) : bool := match e with Tick _ => true | _ => false end.
Definition is_raw (e : ev) : bool := match e with AppRaw _ _ => true | _ => false end.

Lemma str_eqb_true : forall a b, str_eqb a b = true -> a = b.
Proof.
  unfold str_eqb. induction a as [|x a IH]; intros [|y b] H; try discriminate; [reflexivity|].
  apply andb_true_iff in H. destruct H as [H1 H2]. apply N.eqb_eq in H1. subst y. f_equal. apply IH. exact H2.
Qed.

Ltac no_frame :=
  let f := fresh "f" in let Hf := fresh "Hf" in let Hq := fresh "Hq" in
  intros f Hf Hq; cbn in Hf; repeat (destruct Hf as [Hf | Hf]; [subst f; discriminate Hq|]); destruct Hf.

(* while id n is outstanding every TestRequest frame that is written carries n (send_msg lets only the pending id
   through); the id survives unless a Heartbeat echoing it arrives (in sequence or behind a gap) or the connection
   is dropped *)
Lemma pending_step : forall s e n s' o,
  s_id s = Some n -> n <> 0 -> step s e = (s', o) ->
  (forall f, In f o -> is_testreq f = true -> f = testreq_frame n) /\
  (s_id s' = Some n \/ s_conn s' = false \/
   exists ta da v, e = Recv ta da (MHeartbeat (Some v)) /\ parse_id v = n).
Proof.
  intros [stt hb mlt id conn g] e n s' o Hi Hn E. cbn in Hi. subst id.
  apply Z.eqb_neq in Hn.
  destruct e as [t | t d m | t | t rid]; [| destruct m as [rid | rid | | nw] | |].
  7: { (* send_msg(TestRequest): only the pending id passes the gate *)
    cbn [step] in E. unfold app_raw in E. cbn [s_conn s_state s_id] in E.
    destruct (negb conn || (stt <? ST_NETWORK_CONN_ESTABLISHED)); [inversion E; subst; split; [no_frame | auto]|].
    destruct (session_up _); [| inversion E; subst; split; [no_frame | auto]].
    destruct (str_eqb rid (z_to_dec n)) eqn:Q; inversion E; subst; (split; [| auto]).
    - intros f [Hf | []] _. subst f. apply str_eqb_true in Q. subst rid. reflexivity.
    - no_frame. }
  all: revert E; step_crush; intro E; inversion E; subst; cbn; try rewrite Hn in *; try discriminate;
    (split; [intros f Hf Hq; cbn in Hf; repeat (destruct Hf as [Hf | Hf]; [subst f; try discriminate Hq|]); try destruct Hf |]);
    auto.
  all: try (right; right; bool_lia; eauto).
Qed.

(* a dropped connection stays dropped and writes nothing *)
Lemma dead_step : forall s e s' o,
  s_conn s = false -> step s e = (s', o) -> existsb is_testreq o = false /\ s_conn s' = false.
Proof.
  intros [stt hb mlt id conn g] e s' o Hc E. cbn in Hc. subst conn.
  destruct e as [t | t d m | t | t rid]; revert E; step_crush; intro E; inversion E; subst; cbn; auto.
Qed.

(* a TestRequest frame that is written carries the id that is outstanding afterwards *)
Lemma frame_step : forall s e s' o f,
  step s e = (s', o) -> In f o -> is_testreq f = true ->
  exists n, f = testreq_frame n /\ (s_id s' = Some n \/ s_conn s' = false).
Proof.
  intros [stt hb mlt id conn g] e s' o f E Hf Hq.
  destruct e as [t | t d m | t | t rid]; [| destruct m as [rid | rid | | nw] | |].
  7: { cbn [step] in E. unfold app_raw in E. cbn [s_conn s_state s_id] in E.
    destruct (negb conn || (stt <? ST_NETWORK_CONN_ESTABLISHED)); [inversion E; subst; destruct Hf as [Hf | []]; subst f; discriminate|].
    destruct (session_up _); [| inversion E; subst; destruct Hf as [Hf | []]; subst f; discriminate].
    destruct id as [n|]; [| inversion E; subst; destruct Hf as [Hf | []]; subst f; discriminate].
    destruct (str_eqb rid (z_to_dec n)) eqn:Q; inversion E; subst; destruct Hf as [Hf | []]; subst f; try discriminate.
    apply str_eqb_true in Q. subst rid. exists n. split; [reflexivity | left; reflexivity]. }
  all: revert E; step_crush; intro E; inversion E; subst; cbn in Hf;
    repeat (destruct Hf as [Hf | Hf]; [subst f; try discriminate Hq|]); try destruct Hf;
    eexists; (split; [reflexivity|]); cbn; auto.
Qed.

Lemma id_nonzero_step : forall s e s' o,
  s_id s <> Some 0 -> 1000 <= ev_time e -> step s e = (s', o) -> s_id s' <> Some 0.
Proof.
  intros [stt hb mlt id conn g] e s' o Hi Ht E. cbn in Hi.
  pose proof (div1000_pos (ev_time e) Ht) as Hd.
  destruct e as [t | t d m | t | t rid]; [| destruct m as [rid | rid | | nw] | |];
    revert E; step_crush; intro E; inversion E; subst; cbn in *; try assumption; try discriminate;
    try (intro X; inversion X; lia).
Qed.

(* hb is never changed; a connected session is ACTIVE or awaiting a resend (other states are not entered by
   the modelled events) *)
Definition ok (hb : Z) (s : st) : Prop := s_hb s = hb /\ (s_conn s = true -> session_up s = true).

Lemma ok_step : forall hb s e s' o, ok hb s -> step s e = (s', o) -> ok hb s'.
Proof.
  intros hb [stt h mlt id conn g] e s' o [Hh Hs] E. cbn in Hh, Hs. subst h. unfold session_up in Hs. cbn in Hs.
  destruct e as [t | t d m | t | t rid]; [| destruct m as [rid | rid | | nw] | |];
    revert E; step_crush; intro E; inversion E; subst; split; cbn; auto; try discriminate;
    unfold session_up; cbn; intros; try reflexivity; try (rewrite Z.eqb_refl; reflexivity);
    try (rewrite Z.eqb_refl, orb_true_r; reflexivity); auto.
  all: try (apply Hs; assumption).
  all: repeat match goal with H : (_ =? _) = _ |- _ => rewrite H in * end; cbn in *;
       auto using orb_true_r; try (apply Hs; assumption).
  all: try (specialize (Hs H); discriminate Hs).
Qed.

Lemma conn_step : forall s e s' o, step s e = (s', o) -> s_conn s' = true -> s_conn s = true.
Proof.
  intros s e s' o E H. destruct (s_conn s) eqn:C; [reflexivity|].
  destruct (dead_step s e s' o C E) as [_ X]. congruence.
Qed.

(* the time at which the watchdog wrote a probe in this row *)
Definition probe_row (r : row) : option Z :=
  match r_ev r with
  | Tick t => if writes_testreq r then Some t else None
  | _ => None
  end.

Definition is_app_probe (e : ev) : bool := match e with AppProbe _ => true | _ => false end.

(* where an outstanding id comes from: it was there before, or the watchdog wrote the probe in this very step and
   restarted the clock *)
Lemma id_origin_step : forall hb s e s' o n,
  ok hb s -> is_app_probe e = false -> step s e = (s', o) -> s_conn s' = true -> s_id s' = Some n ->
  (s_id s = Some n /\ (s_mlt s' = s_mlt s \/ s_mlt s' = ev_time e))
  \/ exists t, probe_row (mkRow e o s') = Some t /\ n = t / 1000 /\ s_mlt s' = t.
Proof.
  intros hb0 [stt hb mlt id conn g] e s' o n [_ Hs] Ha E. unfold session_up in Hs. cbn in Hs.
  destruct e as [t | t d m | t | t rid]; [| destruct m as [rid | rid | | nw] | discriminate Ha |];
    revert E; step_crush; intro E; inversion E; subst; cbn; intros C I; try discriminate; auto;
    try (inversion I; subst; right; eexists; split; [reflexivity | split; reflexivity]).
Qed.

(* a Heartbeat echoing the outstanding id clears it - in sequence or BEHIND A GAP *)
Lemma answer_clears : forall s ta d v s' o,
  s_conn s = true -> session_up s = true -> 0 <= d -> s_id s = Some (parse_id v) ->
  step s (Recv ta d (MHeartbeat (Some v))) = (s', o) -> s_id s' = None.
Proof.
  intros [stt hb mlt id conn g] ta d v s' o Hc Hs Hd Hi. unfold session_up in Hs. cbn in Hc, Hs, Hi. subst.
  intro E. revert E. step_crush; intro E; inversion E; subst; cbn; try reflexivity;
    bool_lia; try lia; try congruence;
    try (rewrite Hs in *; discriminate).
  all: apply orb_true_iff in Hs; destruct Hs as [Hs | Hs]; bool_lia;
       unfold ST_ACTIVE, ST_RESENDREQ_AWAITING, ST_DISCONNECTED_BROKEN_CONN in *; lia.
Qed.

(* when the watchdog drops a logged-on session a probe is outstanding and the clock - the time of the last valid
   message, or of the probe if that is later - is more than 2 hb s old *)
Lemma wd_step : forall hb s t s' o,
  0 <= hb -> ok hb s -> s_id s <> Some 0 -> tick t s = (s', o) -> In ODisconnect o ->
  exists n, s_id s = Some n /\ 2 * hb * 1000 < t - s_mlt s.
Proof.
  intros hb s t s' o Hhb [Hh Hs] Hi E D.
  destruct (s_conn s) eqn:C.
  - rewrite tick_up in E; [| split; auto | lia | assumption].
    unfold tick_spec in E. rewrite Hh in E.
    destruct (s_id s) as [n|] eqn:I.
    + exists n. split; [reflexivity|].
      destruct (2 * hb * 1000 <? t - s_mlt s) eqn:T; [bool_lia; lia|].
      cbn [andb] in E. inversion E; subst o. destruct D.
    + destruct ((hb - 1) * 1000 <? t - s_mlt s); inversion E; subst o; cbn in D; intuition discriminate.
  - unfold tick in E. rewrite C in E. cbn in E. inversion E; subst o. destruct D.
Qed.

(* the last-message clock only ever moves to the time of the current event (or to 0 on disconnect) *)
Lemma mlt_step : forall s e s' o, step s e = (s', o) ->
  s_mlt s' = s_mlt s \/ s_mlt s' = ev_time e \/ s_mlt s' = 0.
Proof.
  intros [stt hb mlt id conn g] e s' o E.
  destruct e as [t | t d m | t | t rid]; [| destruct m as [rid | rid | | nw] | |];
    revert E; step_crush; intro E; inversion E; subst; cbn; auto.
Qed.

(* ------------------------------------------------------------------ C12_live_peer *)
Fixpoint sorted (evs : list ev) : Prop :=
  match evs with
  | [] => True
  | e :: r => (forall e', In e' r -> ev_time e <= ev_time e') /\ sorted r
  end.

Definition wd_disconnect (r : row) : Prop := is_tick (r_ev r) = true /\ In ODisconnect (r_out r).

(* (A) the clock form.  The clock is restarted by every message that is finalized (in sequence; a SequenceReset
   counts when NewSeqNo moves forward) and by every TestRequest the watchdog writes.  A peer for which no watchdog
   iteration finds the clock more than 2 hb s old is never dropped - whether or not it answers TestRequests. *)
Definition refresh (e : ev) : bool :=
  match e with
  | Recv _ d m => (d =? 0) && match m with MGapFill nw => 1 <=? nw | _ => true end
  | _ => false
  end.

Definition new_clock (e : ev) (o : list out) (last : Z) : Z :=
  match e with
  | Tick t => if existsb is_testreq o then t else last
  | Recv t _ _ => if refresh e then t else last
  | _ => last
  end.

Fixpoint clock_ok (hb last : Z) (tr : list row) : Prop :=
  match tr with
  | [] => True
  | r :: rest =>
      match r_ev r with Tick t => t - last <= 2 * hb * 1000 | _ => True end
      /\ clock_ok hb (new_clock (r_ev r) (r_out r) last) rest
  end.

Lemma clock_step : forall hb s e s' o last,
  ok hb s -> step s e = (s', o) -> (s_conn s = true -> last <= s_mlt s) ->
  s_conn s' = true -> new_clock e o last <= s_mlt s'.
Proof.
  intros hb0 [stt hb mlt id conn g] e s' o last [_ Hs] E. unfold session_up in Hs. cbn in Hs.
  destruct e as [t | t d m | t | t rid]; [| destruct m as [rid | rid | | nw] | |];
    revert E; unfold new_clock, refresh; step_crush; intro E; inversion E; subst; cbn; intros P C;
    try discriminate; try (specialize (P eq_refl)); try lia; try (apply P; reflexivity);
    try (subst; specialize (Hs eq_refl)); bool_split; bool_lia; subst; unfold_states; try lia; try congruence.
Qed.

Lemma clock_no_wd : forall hb evs s last,
  0 <= hb -> ok hb s -> s_id s <> Some 0 -> Forall (fun e => 1000 <= ev_time e) evs ->
  (s_conn s = true -> last <= s_mlt s) -> clock_ok hb last (trace s evs) ->
  Forall (fun r => ~ wd_disconnect r) (trace s evs).
Proof.
  intros hb evs. induction evs as [|e evs IH]; intros s last Hhb Hok Hid Hti HP HC; [constructor|].
  cbn [trace] in *. destruct (step s e) as [s' o] eqn:E.
  inversion Hti as [|? ? Ht Hti']; subst. cbn [clock_ok r_ev r_out] in HC. destruct HC as [H0 HC].
  constructor.
  - intros [Htick Hdisc]. cbn [r_ev r_out] in Htick, Hdisc.
    destruct e as [t | | |]; try discriminate Htick. cbn [step] in E.
    destruct (wd_step hb s t s' o Hhb Hok Hid E Hdisc) as [n [Hn Hold]].
    assert (Hc : s_conn s = true).
    { destruct (s_conn s) eqn:C; [reflexivity|]. unfold tick in E. rewrite C in E. cbn in E.
      inversion E; subst o. destruct Hdisc. }
    specialize (HP Hc). lia.
  - apply (IH s' (new_clock e o last)); try assumption.
    + eapply ok_step; eassumption.
    + eapply id_nonzero_step; eassumption.
    + intro Hc'. eapply clock_step; eassumption.
Qed.

(* (B) the answering form.  Every TestRequest the watchdog writes at time t (id t/1000) is answered later in the run
   by a Heartbeat echoing the id - numbered in sequence or behind a gap - that arrives no later than t + 2 hb s. *)
Definition is_answer (hb n dl : Z) (r : row) : Prop :=
  exists ta da v, r_ev r = Recv ta da (MHeartbeat (Some v)) /\ 0 <= da /\ parse_id v = n
                  /\ ta <= dl + 2 * hb * 1000.

Fixpoint answers (hb : Z) (tr : list row) : Prop :=
  match tr with
  | [] => True
  | r :: rest =>
      (forall t, probe_row r = Some t -> exists r', In r' rest /\ is_answer hb (t / 1000) t r')
      /\ answers hb rest
  end.

Definition pending_ok (hb : Z) (s : st) (tr : list row) : Prop :=
  s_conn s = true -> forall n, s_id s = Some n -> exists r, In r tr /\ is_answer hb n (s_mlt s) r.

Lemma in_trace_ev : forall s evs r, In r (trace s evs) -> In (r_ev r) evs.
Proof. intros s evs r H. rewrite <- (trace_ev evs s). apply in_map. assumption. Qed.

Lemma answering_no_wd : forall hb evs s,
  0 <= hb -> ok hb s -> s_id s <> Some 0 -> sorted evs -> Forall (fun e => 1000 <= ev_time e) evs ->
  Forall (fun e => is_app_probe e = false) evs -> Forall (fun e => s_mlt s <= ev_time e) evs ->
  answers hb (trace s evs) -> pending_ok hb s (trace s evs) ->
  Forall (fun r => ~ wd_disconnect r) (trace s evs).
Proof.
  intros hb evs. induction evs as [|e evs IH]; intros s Hhb Hok Hid Hso Hti Hna Hml Han Hpe; [constructor|].
  cbn [trace] in *. destruct (step s e) as [s' o] eqn:E.
  destruct Hso as [Hhd Hso]. inversion Hti as [|? ? Ht Hti']; subst.
  inversion Hna as [|? ? Ha Hna']; subst. inversion Hml as [|? ? Hm0 Hml']; subst.
  cbn [answers] in Han. destruct Han as [Hprobe Han].
  pose proof (ok_step hb s e s' o Hok E) as Hok'.
  pose proof (id_nonzero_step s e s' o Hid Ht E) as Hid'.
  constructor.
  - (* the head row is not a watchdog disconnect *)
    intros [Htick Hdisc]. cbn [r_ev r_out] in Htick, Hdisc.
    destruct e as [t | | |]; try discriminate Htick. cbn [step] in E. cbn [ev_time] in Ht.
    assert (Hc : s_conn s = true).
    { destruct (s_conn s) eqn:C; [reflexivity|]. unfold tick in E. rewrite C in E. cbn in E.
      inversion E; subst o. destruct Hdisc. }
    destruct (wd_step hb s t s' o Hhb Hok Hid E Hdisc) as [n [Hn Hlate]].
    destruct (Hpe Hc n Hn) as [r [[Hr | Hr] (ta & da & v & Hev & Hda & Hpar & Hdl)]].
    + subst r. cbn [r_ev] in Hev. discriminate Hev.
    + apply in_trace_ev in Hr. specialize (Hhd _ Hr). rewrite Hev in Hhd. cbn [ev_time] in Hhd. lia.
  - apply IH; try assumption.
    + (* the clock stays at or before every later event *)
      apply Forall_forall. intros e' He'.
      rewrite Forall_forall in Hml'. specialize (Hml' e' He'). specialize (Hhd e' He').
      rewrite Forall_forall in Hti'. specialize (Hti' e' He').
      destruct (mlt_step s e s' o E) as [Q | [Q | Q]]; rewrite Q; lia.
    + (* the invariant for the remaining run *)
      intros Hc' n Hn.
      pose proof (conn_step s e s' o E Hc') as Hc.
      destruct (id_origin_step hb s e s' o n Hok Ha E Hc' Hn) as [[Hold Hmv] | [t [Hp [Hnt Hmt]]]].
      * destruct (Hpe Hc n Hold) as [r [[Hr | Hr] Hans]].
        -- (* the answer would be this very step: then the id is cleared *)
           exfalso. subst r. destruct Hans as (ta & da & v & Hev & Hda & Hpar & _). cbn [r_ev] in Hev. subst e.
           rewrite <- Hpar in Hold.
           pose proof (answer_clears s ta da v s' o Hc (proj2 Hok Hc) Hda Hold E). congruence.
        -- exists r. split; [assumption|].
           destruct Hans as (ta & da & v & Hev & Hda & Hpar & Hdl). exists ta, da, v.
           repeat split; try assumption. destruct Hmv as [Q | Q]; rewrite Q; lia.
      * subst n. rewrite Hmt. apply Hprobe. assumption.
Qed.

Lemma live_peer_answers : forall hb evs s,
  1 <= hb -> ok hb s -> s_id s = None -> sorted evs -> Forall (fun e => 1000 <= ev_time e) evs ->
  Forall (fun e => is_app_probe e = false) evs -> Forall (fun e => s_mlt s <= ev_time e) evs ->
  answers hb (trace s evs) ->
  Forall (fun r => ~ wd_disconnect r) (trace s evs).
Proof.
  intros hb evs s Hhb Hok Hid So Hti Hna Hml An.
  apply (answering_no_wd hb evs s); try assumption; try lia.
  - congruence.
  - intros _ n Hn. congruence.
Qed.

Lemma live_peer_clock : forall hb evs s t0,
  1 <= hb -> ok hb s -> s_id s <> Some 0 -> s_mlt s = t0 -> Forall (fun e => 1000 <= ev_time e) evs ->
  clock_ok hb t0 (trace s evs) ->
  Forall (fun r => ~ wd_disconnect r) (trace s evs).
Proof.
  intros hb evs s t0 Hhb Hok Hid Hm Hti HC.
  apply (clock_no_wd hb evs s t0); try assumption; try lia.
Qed.

(* traffic at most hb - 1 s apart: the watchdog emits nothing at all *)
Definition plain (m : msg) : bool := match m with MGapFill _ => false | _ => true end.

Fixpoint fed (G last : Z) (evs : list ev) : Prop :=
  match evs with
  | [] => True
  | Tick t :: r => t - last <= G /\ fed G last r
  | Recv t d m :: r => d = 0 /\ plain m = true /\ fed G t r
  | AppProbe _ :: _ => False
  | AppRaw _ _ :: r => fed G last r
  end.

Lemma recv_idle : forall t m s hb t0, idle_at s hb t0 -> plain m = true ->
  exists o, recv t 0 m s = (set_mlt s t, o) /\ ~ In ODisconnect o /\ existsb is_testreq o = false.
Proof.
  intros t m s hb t0 ([Hc Hs] & Hh & Hi & Hm & Hg) Hp.
  destruct s as [stt h mlt id conn g]. cbn in Hc, Hs, Hh, Hi, Hm, Hg. subst.
  destruct m as [r | r | | nw]; [destruct r | | | discriminate Hp];
    eexists; (split; [reflexivity|]); cbn; intuition discriminate.
Qed.

Lemma fed_quiet : forall hb G evs s t0,
  0 <= hb -> G <= (hb - 1) * 1000 -> idle_at s hb t0 -> fed G t0 evs ->
  Forall (fun r => is_tick (r_ev r) = true -> r_out r = []) (trace s evs)
  /\ Forall (fun r => ~ In ODisconnect (r_out r) /\ writes_testreq r = false) (trace s evs).
Proof.
  intros hb G evs. induction evs as [|e evs IH]; intros s t0 Hhb HG I F; [split; constructor|].
  destruct e as [t | t d m | t | t rid]; cbn [fed] in F.
  - destruct F as [Fl F]. cbn [trace step]. rewrite (tick_idle t s hb t0 (idle_at_up _ _ _ I) Hhb) by lia.
    destruct (IH s t0 Hhb HG I F) as [A B].
    split; constructor; auto; cbn; try (split; [tauto | reflexivity]).
  - destruct F as (Hd & Hp & F). subst d. cbn [trace step].
    destruct (recv_idle t m s hb t0 I Hp) as [o [E [ND NT]]]. rewrite E.
    assert (I' : idle_at (set_mlt s t) hb t).
    { destruct I as (L & Hh & Hi & Hm & Hg). repeat split; try apply L; assumption. }
    destruct (IH (set_mlt s t) t Hhb HG I' F) as [A B].
    split; constructor; auto; cbn; try discriminate.
  - destruct F.
  - cbn [trace step].
    assert (E : app_raw t rid s = (s, [ORaise])).
    { destruct I as ([Hc Hs] & Hh & Hi & Hm & Hg). destruct s as [stt h mlt id conn g]. cbn in Hc, Hs, Hh, Hi, Hm, Hg. subst.
      reflexivity. }
    rewrite E. destruct (IH s t0 Hhb HG I F) as [A B].
    split; constructor; auto; cbn; try discriminate.
    split; [intuition discriminate | reflexivity].
Qed.

(* ------------------------------------------------------------------ C12_single_outstanding *)
Lemma dead_silent : forall evs s r,
  s_conn s = false -> In r (trace s evs) -> writes_testreq r = false.
Proof.
  induction evs as [|e evs IH]; intros s r Hc Hin; [destruct Hin|].
  cbn [trace] in Hin. destruct (step s e) as [s' o] eqn:E.
  destruct (dead_step s e s' o Hc E) as [W C].
  destruct Hin as [Hr | Hr]; [subst r; exact W | eapply IH; eassumption].
Qed.

Lemma writes_of_frame : forall r f, In f (r_out r) -> is_testreq f = true -> writes_testreq r = true.
Proof. intros r f Hf Hq. unfold writes_testreq. apply existsb_exists. exists f. split; assumption. Qed.

(* while id n is outstanding, a TestRequest frame carries n unless a Heartbeat echoing n came first *)
Lemma pending_blocks : forall evs s n k rk f,
  s_id s = Some n -> n <> 0 ->
  nth_error (trace s evs) k = Some rk -> In f (r_out rk) -> is_testreq f = true ->
  f = testreq_frame n \/
  exists j rj ta da v, (j < k)%nat /\ nth_error (trace s evs) j = Some rj
                       /\ r_ev rj = Recv ta da (MHeartbeat (Some v)) /\ parse_id v = n.
Proof.
  induction evs as [|e evs IH]; intros s n k rk f Hi Hn Hk Hf Hq; [destruct k; discriminate Hk|].
  cbn [trace] in *. destruct (step s e) as [s' o] eqn:E.
  destruct (pending_step s e n s' o Hi Hn E) as [Wo Hnext].
  destruct k as [|k].
  - cbn in Hk. inversion Hk; subst rk. left. apply Wo; assumption.
  - cbn [nth_error] in Hk.
    destruct Hnext as [Hsame | [Hdead | (ta & da & v & He & Hp)]].
    + destruct (IH s' n k rk f Hsame Hn Hk Hf Hq) as [Q | (j & rj & ta & da & v & Hj & Hnj & Hev & Hp)]; [left; exact Q|].
      right. exists (S j), rj, ta, da, v. repeat split; try assumption. lia.
    + pose proof (dead_silent evs s' rk Hdead (nth_error_In _ _ Hk)) as D.
      rewrite (writes_of_frame rk f Hf Hq) in D. discriminate D.
    + right. exists 0%nat, (mkRow e o s'), ta, da, v. repeat split; try assumption. lia.
Qed.

(* at most one TestReqID outstanding: of two TestRequest frames the later one repeats the id of the earlier one unless
   a Heartbeat echoing that id was received in between - application calls of send_msg included *)
Lemma single_outstanding : forall evs s i k ri rk fi fk,
  s_id s <> Some 0 -> Forall (fun e => 1000 <= ev_time e) evs ->
  (i < k)%nat ->
  nth_error (trace s evs) i = Some ri -> nth_error (trace s evs) k = Some rk ->
  In fi (r_out ri) -> is_testreq fi = true -> In fk (r_out rk) -> is_testreq fk = true ->
  exists n, fi = testreq_frame n /\
    (fk = fi \/
     exists j rj ta da v, (i < j < k)%nat /\ nth_error (trace s evs) j = Some rj
                          /\ r_ev rj = Recv ta da (MHeartbeat (Some v)) /\ parse_id v = n).
Proof.
  induction evs as [|e evs IH]; intros s i k ri rk fi fk Hid Hti Hik Hi Hk Hfi Hqi Hfk Hqk; [destruct i; discriminate Hi|].
  inversion Hti as [|? ? Ht Hti']; subst.
  cbn [trace] in *. destruct (step s e) as [s' o] eqn:E.
  destruct k as [|k]; [lia|]. cbn [nth_error] in Hk.
  pose proof (id_nonzero_step s e s' o Hid Ht E) as Hid'.
  destruct i as [|i].
  - cbn in Hi. inversion Hi; subst ri. cbn [r_out] in Hfi.
    destruct (frame_step s e s' o fi E Hfi Hqi) as [n [Hfn [Hnew | Hdead]]].
    + exists n. split; [assumption|].
      assert (Hn : n <> 0) by congruence.
      destruct (pending_blocks evs s' n k rk fk Hnew Hn Hk Hfk Hqk) as [Q | (j & rj & ta & da & v & Hj & Hnj & Hev & Hp)].
      * left. congruence.
      * right. exists (S j), rj, ta, da, v. repeat split; try assumption; lia.
    + pose proof (dead_silent evs s' rk Hdead (nth_error_In _ _ Hk)) as D.
      rewrite (writes_of_frame rk fk Hfk Hqk) in D. discriminate D.
  - cbn [nth_error] in Hi.
    destruct (IH s' i k ri rk fi fk Hid' Hti' ltac:(lia) Hi Hk Hfi Hqi Hfk Hqk) as [n [Hfn [Q | (j & rj & ta & da & v & Hj & Hnj & Hev & Hp)]]];
      exists n; (split; [assumption|]); [left; exact Q|].
    right. exists (S j), rj, ta, da, v. repeat split; try assumption; lia.
Qed.

(* ------------------------------------------------------------------ inbound TestRequest / Heartbeat *)
Lemma recv_live_eq : forall now m s, live s -> plain m = true ->
  recv now 0 m s = let '(s1, o) := dispatch m s in (set_mlt s1 now, o).
Proof.
  intros now m [stt hb mlt id conn g] [Hc Hs] Hp. cbn in Hc, Hs. subst.
  destruct m as [r | r | | nw]; [| | | discriminate Hp].
  - destruct id as [n|]; [destruct r as [v|] |]; try reflexivity.
    unfold recv, dispatch, check_gap. cbn [s_conn s_state s_id negb orb andb session_up].
    cbn. destruct (n =? parse_id v); reflexivity.
  - reflexivity.
  - reflexivity.
Qed.

Lemma testreq_answered : forall now rid s, live s ->
  recv now 0 (MTestRequest rid) s =
  (set_mlt s now, [OWire KHeartbeat (Some (match rid with Some v => v | None => [48%N] end))]).
Proof. intros now rid s L. rewrite recv_live_eq by (assumption || reflexivity). reflexivity. Qed.

Lemma wrong_id_logout : forall now v s n, live s -> s_id s = Some n -> parse_id v <> n ->
  recv now 0 (MHeartbeat (Some v)) s =
  (set_mlt (dead_st (s_hb s)) now, [OWire KLogout None; ODisconnect]).
Proof.
  intros now v s n L Hi Hne. rewrite recv_live_eq by (assumption || reflexivity). cbn [dispatch]. rewrite Hi.
  replace (n =? parse_id v) with false by (symmetry; apply Z.eqb_neq; congruence).
  destruct L as [Hc Hs]. unfold disconnect. rewrite Hs. reflexivity.
Qed.

Lemma matching_id_clears : forall now v s, live s -> s_id s = Some (parse_id v) ->
  recv now 0 (MHeartbeat (Some v)) s = (set_mlt (set_id s None) now, []).
Proof.
  intros now v s L Hi. rewrite recv_live_eq by (assumption || reflexivity). cbn [dispatch]. rewrite Hi, Z.eqb_refl. reflexivity.
Qed.

Lemma heartbeat_without_id_ignored : forall now s, live s ->
  recv now 0 (MHeartbeat None) s = (set_mlt s now, []).
Proof.
  intros now s L. rewrite recv_live_eq by (assumption || reflexivity). cbn [dispatch]. destruct (s_id s); reflexivity.
Qed.

Lemma unsolicited_id_ignored : forall now v s, live s -> s_id s = None ->
  recv now 0 (MHeartbeat (Some v)) s = (set_mlt s now, []).
Proof. intros now v s L Hi. rewrite recv_live_eq by (assumption || reflexivity). cbn [dispatch]. rewrite Hi. reflexivity. Qed.

(* ------------------------------------------------------------------ heartbeat protocol behind a sequence gap *)
Definition awaiting (s : st) : Prop := s_conn s = true /\ s_state s = ST_RESENDREQ_AWAITING.

(* a message numbered above the expected number: a ResendRequest is sent once and the state becomes
   RESENDREQ_AWAITING; the message is still dispatched; it is NOT finalized (last-message clock untouched) *)
Lemma recv_behind_gap_active : forall now d m s, live s -> 0 < d -> plain m = true ->
  recv now d m s =
  let '(s1, o) := dispatch m (set_state s ST_RESENDREQ_AWAITING d) in (s1, OWire KResendRequest None :: o).
Proof.
  intros now d m [stt hb mlt id conn g] [Hc Hs] Hd Hp. cbn in Hc, Hs. subst.
  unfold recv, check_gap, session_up. cbn [s_conn s_state negb orb].
  replace (ST_ACTIVE <=? ST_DISCONNECTED_BROKEN_CONN) with false by reflexivity.
  rewrite Z.eqb_refl. cbn [orb negb].
  replace (d <? 0) with false by (symmetry; apply Z.ltb_ge; lia).
  replace (0 <? d) with true by (symmetry; apply Z.ltb_lt; lia).
  replace (ST_ACTIVE =? ST_RESENDREQ_AWAITING) with false by reflexivity.
  destruct m as [r | r | | nw]; [| | | discriminate Hp];
    destruct (dispatch _ _) as [s1 o1]; reflexivity.
Qed.

Lemma recv_behind_gap_awaiting : forall now d m s, awaiting s -> 0 < d -> plain m = true ->
  recv now d m s = dispatch m s.
Proof.
  intros now d m [stt hb mlt id conn g] [Hc Hs] Hd Hp. cbn in Hc, Hs. subst.
  unfold recv, check_gap, session_up. cbn [s_conn s_state negb orb].
  replace (ST_RESENDREQ_AWAITING <=? ST_DISCONNECTED_BROKEN_CONN) with false by reflexivity.
  rewrite Z.eqb_refl. rewrite orb_true_r. cbn [orb negb].
  replace (d <? 0) with false by (symmetry; apply Z.ltb_ge; lia).
  replace (0 <? d) with true by (symmetry; apply Z.ltb_lt; lia).
  destruct m as [r | r | | nw]; [| | | discriminate Hp];
    destruct (dispatch _ _) as [s1 o1]; reflexivity.
Qed.

(* C12_answer_behind_gap_counts: the matching Heartbeat clears the outstanding probe although it is numbered
   above the expected number; the last-message clock is not refreshed *)
Lemma answer_behind_gap_counts : forall now d v s, 0 < d -> s_id s = Some (parse_id v) ->
  (live s -> recv now d (MHeartbeat (Some v)) s
             = (set_id (set_state s ST_RESENDREQ_AWAITING d) None, [OWire KResendRequest None]))
  /\ (awaiting s -> recv now d (MHeartbeat (Some v)) s = (set_id s None, [])).
Proof.
  intros now d v s Hd Hi. split; intro L.
  - rewrite recv_behind_gap_active by (assumption || reflexivity).
    cbn [dispatch set_state s_id]. rewrite Hi, Z.eqb_refl. reflexivity.
  - rewrite recv_behind_gap_awaiting by (assumption || reflexivity).
    cbn [dispatch]. rewrite Hi, Z.eqb_refl. reflexivity.
Qed.

Lemma testreq_behind_gap_answered : forall now d rid s, 0 < d ->
  let hbt := OWire KHeartbeat (Some (match rid with Some v => v | None => [48%N] end)) in
  (live s -> recv now d (MTestRequest rid) s
             = (set_state s ST_RESENDREQ_AWAITING d, [OWire KResendRequest None; hbt]))
  /\ (awaiting s -> recv now d (MTestRequest rid) s = (s, [hbt])).
Proof.
  intros now d rid s Hd hbt. split; intro L.
  - rewrite recv_behind_gap_active by (assumption || reflexivity). reflexivity.
  - rewrite recv_behind_gap_awaiting by (assumption || reflexivity). reflexivity.
Qed.

Lemma wrong_id_behind_gap_logout : forall now d v s n, 0 < d -> s_id s = Some n -> parse_id v <> n ->
  (live s -> recv now d (MHeartbeat (Some v)) s
             = (dead_st (s_hb s), [OWire KResendRequest None; OWire KLogout None; ODisconnect]))
  /\ (awaiting s -> recv now d (MHeartbeat (Some v)) s = (dead_st (s_hb s), [OWire KLogout None; ODisconnect])).
Proof.
  intros now d v s n Hd Hi Hne. split; intro L.
  - rewrite recv_behind_gap_active by (assumption || reflexivity).
    cbn [dispatch set_state s_id]. rewrite Hi.
    replace (n =? parse_id v) with false by (symmetry; apply Z.eqb_neq; congruence). reflexivity.
  - rewrite recv_behind_gap_awaiting by (assumption || reflexivity).
    cbn [dispatch]. rewrite Hi.
    replace (n =? parse_id v) with false by (symmetry; apply Z.eqb_neq; congruence).
    destruct L as [Hc Hs]. unfold disconnect. rewrite Hs. reflexivity.
Qed.

(* the gap is closed: an in-sequence message, or a gap fill, that reaches the number that opened the gap brings the
   session back to ACTIVE; in-sequence messages are finalized (clock refreshed) also while the resend is awaited *)
Lemma gap_closes : forall now m s, awaiting s -> plain m = true ->
  (forall n v, s_id s = Some n -> m = MHeartbeat (Some v) -> n = parse_id v) ->
  let '(s1, o) := dispatch m s in
  recv now 0 m s =
  ((if s_gap s <=? 0 then set_mlt (set_state s1 ST_ACTIVE 0) now
    else set_mlt (set_state s1 ST_RESENDREQ_AWAITING (s_gap s - 1)) now), o).
Proof.
  intros now m [stt hb mlt id conn g] [Hc Hs] Hp Hm. cbn in Hc, Hs. subst.
  assert (F : forall s1, s_state s1 = ST_RESENDREQ_AWAITING -> s_gap s1 = g ->
              finalize now 1 s1 = if g <=? 0 then set_mlt (set_state s1 ST_ACTIVE 0) now
                                  else set_mlt (set_state s1 ST_RESENDREQ_AWAITING (g - 1)) now).
  { intros s1 H1 H2. unfold finalize. rewrite H1, H2, Z.eqb_refl. change (1 - 1) with 0.
    destruct (g <=? 0); reflexivity. }
  destruct m as [r | r | | nw]; [| | | discriminate Hp].
  - destruct id as [n|]; [destruct r as [v|] |].
    + specialize (Hm n v eq_refl eq_refl). subst n. cbn [dispatch s_id]. rewrite Z.eqb_refl.
      cbn [s_gap]. rewrite <- F by reflexivity.
      unfold recv, check_gap, dispatch, session_up. cbn. rewrite Z.eqb_refl. reflexivity.
    + cbn [dispatch s_id s_gap]. rewrite <- F by reflexivity. reflexivity.
    + cbn [dispatch s_id s_gap]. rewrite <- F by reflexivity. reflexivity.
  - cbn [dispatch s_gap]. rewrite <- F by reflexivity. reflexivity.
  - cbn [dispatch s_gap]. rewrite <- F by reflexivity. reflexivity.
Qed.

Lemma gap_fill_closes : forall now nw s, awaiting s -> 1 <= nw ->
  recv now 0 (MGapFill nw) s =
  ((if s_gap s <=? nw - 1 then set_mlt (set_state s ST_ACTIVE 0) now
    else set_mlt (set_state s ST_RESENDREQ_AWAITING (s_gap s - nw)) now), []).
Proof.
  intros now nw [stt hb mlt id conn g] [Hc Hs] Hn. cbn in Hc, Hs. subst.
  unfold recv, session_up. cbn [s_conn s_state negb orb].
  replace (ST_RESENDREQ_AWAITING <=? ST_DISCONNECTED_BROKEN_CONN) with false by reflexivity.
  rewrite Z.eqb_refl, orb_true_r. cbn [negb orb Z.ltb Z.compare Z.eqb].
  replace (nw <? 1) with false by (symmetry; apply Z.ltb_ge; lia).
  unfold finalize. cbn [s_state s_gap]. rewrite Z.eqb_refl.
  destruct (g <=? nw - 1); reflexivity.
Qed.

(* the silence clock while a resend is awaited: traffic behind the gap does not restart it, and - since the repair -
   the watchdog probes in this state exactly as in ACTIVE (tick_idle / tick_probe / tick_waiting / tick_timeout are
   stated for `up`): awaiting, nothing outstanding, clock t0 more than hb - 1 s old => TestRequest *)
Lemma awaiting_up : forall s, awaiting s -> up s.
Proof.
  intros s [Hc Hs]. split; [assumption|]. unfold session_up. rewrite Hs, Z.eqb_refl. apply orb_true_r.
Qed.

Lemma awaiting_probed : forall now s hb t0,
  awaiting s -> s_hb s = hb -> s_id s = None -> s_mlt s = t0 -> 0 <= hb -> (hb - 1) * 1000 < now - t0 ->
  tick now s = (probing_of s now, [testreq_frame (now / 1000)]).
Proof.
  intros now s hb t0 A Hh Hi Hm Hhb Hgt.
  apply (tick_probe now s hb t0); try assumption. repeat split; try assumption; apply awaiting_up; assumption.
Qed.

Lemma behind_gap_keeps_clock : forall now d m s, awaiting s -> 0 < d -> plain m = true -> s_id s = None ->
  fst (recv now d m s) = s.
Proof.
  intros now d m s A Hd Hp Hi. rewrite recv_behind_gap_awaiting by assumption.
  destruct m as [r | r | | nw]; [| | | discriminate Hp]; cbn [dispatch]; try rewrite Hi; reflexivity.
Qed.

(* ------------------------------------------------------------------ other states *)
(* outside the logged-on states (handshake) only the last-message test applies: silence of more than 2 hb s drops
   the connection, and a connection on which nothing was ever received (last = 0.0) is never dropped *)
Lemma nonactive_tick : forall now s,
  s_conn s = true -> session_up s = false -> ST_DISCONNECTED_BROKEN_CONN < s_state s -> s_id s = None ->
  tick now s =
  if negb (s_mlt s =? 0) && (2 * s_hb s * 1000 <? now - s_mlt s)
  then (dead_st (s_hb s), [ODisconnect]) else (s, []).
Proof.
  intros now [stt hb mlt id conn g] Hc Hs Hb Hi. cbn in Hc, Hs, Hb, Hi. subst.
  unfold tick. cbn [s_conn negb]. rewrite Hs.
  cbn [andb s_mlt s_hb s_id]. rewrite thr_dead_eq.
  destruct (negb (mlt =? 0) && (2 * hb * 1000 <? now - mlt)); [|reflexivity].
  unfold disconnect. cbn [s_state]. apply Z.ltb_lt in Hb. rewrite Hb. reflexivity.
Qed.

(* int(time.time()) = 0 (the first second of the epoch) makes the id falsy but not None:
   the next due probe raises inside the loop before its sleep *)
Lemma epoch_spin : forall now s,
  up s -> s_id s = Some 0 -> (s_hb s - 1) * 1000 < now - s_mlt s -> tick now s = (s, [OSpin]).
Proof.
  intros now [stt hb mlt id conn g] [Hc Hs] Hi Hf. cbn in Hc, Hs, Hi, Hf. subst.
  unfold tick. cbn [s_conn negb]. rewrite Hs, thr_probe_eq. cbn [andb s_hb s_mlt s_id].
  replace ((hb - 1) * 1000 <? now - mlt) with true by (symmetry; apply Z.ltb_lt; lia).
  reflexivity.
Qed.

(* ------------------------------------------------------------------ witnesses and non-vacuity *)
(* merge of a tick train and a train of messages, time ordered, ticks first at equal times *)
Fixpoint merge_fuel (fuel : nat) (a b : list ev) : list ev :=
  match fuel with
  | O => []
  | S f =>
      match a, b with
      | [], _ => b
      | _, [] => a
      | x :: a', y :: b' =>
          if ev_time x <=? ev_time y then x :: merge_fuel f a' b else y :: merge_fuel f a b'
      end
  end.
Definition merge (a b : list ev) : list ev := merge_fuel (length a + length b) a b.

Fixpoint app_msgs (t period : Z) (k : nat) : list ev :=
  match k with O => [] | S k' => Recv t 0 MApp :: app_msgs (t + period) period k' end.

Definition active0 (hb t0 : Z) : st := mkSt ST_ACTIVE hb t0 None true 0.

Lemma active0_ok : forall hb t0, ok hb (active0 hb t0).
Proof. intros. split; [reflexivity | intros _; reflexivity]. Qed.

Fixpoint sortedb (evs : list ev) : bool :=
  match evs with
  | [] => true
  | e :: r => forallb (fun e' => ev_time e <=? ev_time e') r && sortedb r
  end.

Lemma sortedb_sorted : forall evs, sortedb evs = true -> sorted evs.
Proof.
  induction evs as [|e r IH]; intro H; [exact I|].
  cbn in H. apply andb_true_iff in H. destruct H as [A B]. split; [|auto].
  intros e' Hin. rewrite forallb_forall in A. specialize (A e' Hin). lia.
Qed.

Lemma forallb_Forall : forall (P : ev -> Prop) (b : ev -> bool) l,
  (forall e, b e = true -> P e) -> forallb b l = true -> Forall P l.
Proof.
  intros P b l H F. apply Forall_forall. intros e He. rewrite forallb_forall in F. apply H, F, He.
Qed.

Definition late_enough (e : ev) : bool := 1000 <=? ev_time e.
Lemma late_enough_ok : forall e, late_enough e = true -> 1000 <= ev_time e.
Proof. intros e H. unfold late_enough in H. lia. Qed.

(* maximal pause of valid inbound traffic before any event of the run (boolean form) *)
Fixpoint gap_le (G last : Z) (evs : list ev) : bool :=
  match evs with
  | [] => true
  | Recv t _ _ :: r => (t - last <=? G) && gap_le G t r
  | e :: r => (ev_time e - last <=? G) && gap_le G last r
  end.

Definition only_app (evs : list ev) : bool :=
  forallb (fun e => match e with Tick _ | Recv _ 0 MApp => true | _ => false end) evs.

Fixpoint clock_okb (hb last : Z) (tr : list row) : bool :=
  match tr with
  | [] => true
  | r :: rest =>
      match r_ev r with Tick t => t - last <=? 2 * hb * 1000 | _ => true end
      && clock_okb hb (new_clock (r_ev r) (r_out r) last) rest
  end.

Lemma clock_okb_ok : forall hb tr last, clock_okb hb last tr = true -> clock_ok hb last tr.
Proof.
  intros hb tr. induction tr as [|r rest IH]; intros last H; [exact I|].
  cbn [clock_okb] in H. apply andb_true_iff in H. destruct H as [A B]. cbn [clock_ok]. split; [|auto].
  destruct (r_ev r); try exact I. apply Z.leb_le. exact A.
Qed.

Fixpoint answersb (hb : Z) (tr : list row) : bool :=
  match tr with
  | [] => true
  | r :: rest =>
      match probe_row r with
      | Some t =>
          existsb (fun r' => match r_ev r' with
                             | Recv ta da (MHeartbeat (Some v)) =>
                                 (0 <=? da) && (parse_id v =? t / 1000) && (ta <=? t + 2 * hb * 1000)
                             | _ => false end) rest
      | None => true
      end && answersb hb rest
  end.

Lemma answersb_ok : forall hb tr, answersb hb tr = true -> answers hb tr.
Proof.
  induction tr as [|r rest IH]; intro H; [exact I|].
  cbn [answersb] in H. apply andb_true_iff in H. destruct H as [A B]. split; [|auto].
  intros t Ht. rewrite Ht in A. apply existsb_exists in A. destruct A as [r' [Hin Hr']].
  exists r'. split; [assumption|].
  destruct (r_ev r') as [| ta da [[v|] | | |] | |] eqn:Ev; try discriminate.
  apply andb_true_iff in Hr'. destruct Hr' as [P Q]. apply andb_true_iff in P. destruct P as [P0 P].
  bool_lia. exists ta, da, v.
  split; [exact Ev|]. repeat split; lia.
Qed.

Definition not_app_probe (e : ev) : bool := negb (is_app_probe e).
Lemma not_app_probe_ok : forall e, not_app_probe e = true -> is_app_probe e = false.
Proof. intros e H. unfold not_app_probe in H. apply negb_true_iff in H. exact H. Qed.

(* D19, hb = 30, repaired: application traffic every 29.5 s, never a pause above one interval; the probe written at
   +29.25 s is never answered - and the peer is NOT dropped, because the clock never gets 2 hb s old *)
Definition d19_evs : list ev := merge (ticks 1000000250 150) (app_msgs 1000029500 29500 5).

Example unanswered_probe_spared :
  sorted d19_evs /\ only_app d19_evs = true /\ gap_le (30 * 1000) 1000000000 d19_evs = true
  /\ clock_ok 30 1000000000 (trace (active0 30 1000000000) d19_evs)
  /\ (length (filter writes_testreq (trace (active0 30 1000000000) d19_evs)) = 1)%nat
  /\ Forall (fun r => ~ wd_disconnect r) (trace (active0 30 1000000000) d19_evs).
Proof.
  assert (C : clock_ok 30 1000000000 (trace (active0 30 1000000000) d19_evs))
    by (apply clock_okb_ok; vm_compute; reflexivity).
  split; [apply sortedb_sorted; vm_compute; reflexivity|].
  split; [vm_compute; reflexivity|]. split; [vm_compute; reflexivity|]. split; [exact C|].
  split; [vm_compute; reflexivity|].
  apply (live_peer_clock 30 d19_evs (active0 30 1000000000) 1000000000); try assumption; try lia; try reflexivity.
  - apply active0_ok.
  - discriminate.
  - apply (forallb_Forall _ late_enough); [exact late_enough_ok | vm_compute; reflexivity].
Qed.

(* hb = 1 (probe threshold 0): traffic every 0.5 s, probed at the first iteration, never answered, not dropped *)
Definition d19_hb1_evs : list ev := merge (ticks 1000000250 8) (app_msgs 1000000500 500 15).

Example unanswered_probe_hb1_spared :
  sorted d19_hb1_evs /\ only_app d19_hb1_evs = true /\ gap_le 500 1000000000 d19_hb1_evs = true
  /\ (length (filter writes_testreq (trace (active0 1 1000000000) d19_hb1_evs)) = 1)%nat
  /\ Forall (fun r => ~ wd_disconnect r) (trace (active0 1 1000000000) d19_hb1_evs).
Proof.
  split; [apply sortedb_sorted; vm_compute; reflexivity|].
  split; [vm_compute; reflexivity|]. split; [vm_compute; reflexivity|]. split; [vm_compute; reflexivity|].
  apply (live_peer_clock 1 d19_hb1_evs (active0 1 1000000000) 1000000000); try lia; try reflexivity.
  - apply active0_ok.
  - discriminate.
  - apply (forallb_Forall _ late_enough); [exact late_enough_ok | vm_compute; reflexivity].
  - apply clock_okb_ok; vm_compute; reflexivity.
Qed.

(* the TESTREQUEST gate of send_msg, repaired: while the watchdog's probe 1000005 is outstanding an application
   TestRequest with another id is refused; one repeating the pending id is let through *)
Definition raw_evs : list ev :=
  ticks 1000000000 6 ++ [AppRaw 1000006000 [88; 49]%N; AppRaw 1000006500 [49; 48; 48; 48; 48; 48; 53]%N].

Example raw_testrequest_refused :
  map r_out (skipn 5 (trace (active0 5 1000000000) raw_evs)) =
  [[testreq_frame 1000005]; [ORaise]; [testreq_frame 1000005]].
Proof. vm_compute. reflexivity. Qed.

(* hb = 30, first iteration at +0.25 s: k = 29 quiet iterations, probe at +29.25 s, m = 60 more, dropped at +90.25 s *)
Example dead_peer_instance :
  outs (active0 30 1000000000) (ticks 1000000250 (29 + 1 + (60 + 1))) =
    repeat [] 29 ++ [[testreq_frame 1000029]] ++ repeat [] 60 ++ [[ODisconnect]]
  /\ final (active0 30 1000000000) (ticks 1000000250 (29 + 1 + (60 + 1))) = dead_st 30.
Proof.
  pose proof (dead_peer_run 30 (active0 30 1000000000) 1000000000 1000000250 29 60
                ltac:(lia) ltac:(repeat split; reflexivity) ltac:(lia)
                ltac:(split; [vm_compute; discriminate | vm_compute; reflexivity])
                ltac:(reflexivity)) as (A & B & _).
  split; [exact A | exact B].
Qed.

(* a peer that answers: silent but for a Heartbeat echoing each probe 50 s after it (hb = 30, two probe cycles) *)
Definition answering_evs : list ev :=
  merge (ticks 1000000250 170)
        [Recv 1000079250 0 (MHeartbeat (Some [49;48;48;48;48;50;57]%N));
         Recv 1000158250 0 (MHeartbeat (Some [49;48;48;48;49;48;57]%N))].

Ltac live_answers_example evs :=
  apply (live_peer_answers 30 evs (active0 30 1000000000)); try assumption; try lia; try reflexivity;
  [ apply active0_ok
  | apply (forallb_Forall _ late_enough); [exact late_enough_ok | vm_compute; reflexivity]
  | apply (forallb_Forall _ not_app_probe); [exact not_app_probe_ok | vm_compute; reflexivity]
  | apply (forallb_Forall _ (fun e => 1000000000 <=? ev_time e)); [intros e H; cbn [active0 s_mlt]; lia | vm_compute; reflexivity] ].

Example live_peer_nonvacuous :
  sorted answering_evs /\ answers 30 (trace (active0 30 1000000000) answering_evs)
  /\ (length (filter writes_testreq (trace (active0 30 1000000000) answering_evs)) = 2)%nat
  /\ Forall (fun r => ~ wd_disconnect r) (trace (active0 30 1000000000) answering_evs).
Proof.
  assert (S : sorted answering_evs) by (apply sortedb_sorted; vm_compute; reflexivity).
  assert (A : answers 30 (trace (active0 30 1000000000) answering_evs)) by (apply answersb_ok; vm_compute; reflexivity).
  split; [exact S|]. split; [exact A|]. split; [vm_compute; reflexivity|].
  live_answers_example answering_evs.
Qed.

(* hb = 30: the probe written at +29.25 s is answered at +31 s by a Heartbeat numbered one above the expected
   number (the message before it was lost); the peer gap-fills at +33 s; the second probe (+62.25 s) is answered in
   sequence.  The answer behind the gap counts: the peer is never dropped. *)
Definition gap_answer_evs : list ev :=
  merge (ticks 1000000250 95)
        [Recv 1000031000 1 (MHeartbeat (Some [49;48;48;48;48;50;57]%N));
         Recv 1000033000 0 (MGapFill 2);
         Recv 1000070000 0 (MHeartbeat (Some [49;48;48;48;48;54;50]%N))].

Example answer_behind_gap_instance :
  sorted gap_answer_evs
  /\ answers 30 (trace (active0 30 1000000000) gap_answer_evs)
  /\ (2 <= length (filter writes_testreq (trace (active0 30 1000000000) gap_answer_evs)))%nat
  /\ Forall (fun r => ~ wd_disconnect r) (trace (active0 30 1000000000) gap_answer_evs).
Proof.
  assert (S : sorted gap_answer_evs) by (apply sortedb_sorted; vm_compute; reflexivity).
  assert (A : answers 30 (trace (active0 30 1000000000) gap_answer_evs)) by (apply answersb_ok; vm_compute; reflexivity).
  split; [exact S|]. split; [exact A|].
  split; [vm_compute; repeat constructor|].
  live_answers_example gap_answer_evs.
Qed.

(* "a peer whose traffic is all behind an unfilled gap IS probed and, if it answers the probes, not dropped":
   hb = 30, an application message numbered +1 at +5 s opens the gap, which is never filled; the watchdog probes at
   +29.25, +59.25 and +89.25 s although the state is RESENDREQ_AWAITING; each probe is answered 1.75 s later by a
   Heartbeat numbered behind the gap; the peer is never dropped. *)
Definition gap_all_evs : list ev :=
  merge (ticks 1000000250 100)
        [Recv 1000005000 1 MApp;
         Recv 1000031000 2 (MHeartbeat (Some [49;48;48;48;48;50;57]%N));
         Recv 1000061000 3 (MHeartbeat (Some [49;48;48;48;48;53;57]%N));
         Recv 1000091000 4 (MHeartbeat (Some [49;48;48;48;48;56;57]%N))].

Definition behind_gapb (e : ev) : bool :=
  match e with Tick _ => true | Recv _ d _ => 0 <? d | _ => false end.

Example unfilled_gap_probed_and_spared :
  sorted gap_all_evs /\ forallb behind_gapb gap_all_evs = true
  /\ answers 30 (trace (active0 30 1000000000) gap_all_evs)
  /\ (length (filter writes_testreq (trace (active0 30 1000000000) gap_all_evs)) = 3)%nat
  /\ s_state (final (active0 30 1000000000) gap_all_evs) = ST_RESENDREQ_AWAITING
  /\ Forall (fun r => ~ wd_disconnect r) (trace (active0 30 1000000000) gap_all_evs).
Proof.
  assert (S : sorted gap_all_evs) by (apply sortedb_sorted; vm_compute; reflexivity).
  assert (A : answers 30 (trace (active0 30 1000000000) gap_all_evs)) by (apply answersb_ok; vm_compute; reflexivity).
  split; [exact S|]. split; [vm_compute; reflexivity|]. split; [exact A|].
  split; [vm_compute; reflexivity|]. split; [vm_compute; reflexivity|].
  live_answers_example gap_all_evs.
Qed.

(* an answer within 2 hb s of the moment the probe was written is in time; so is any valid message *)
Lemma constants :
  (forall hb, thr thr_probe hb = (hb - 1) * 1000) /\ (forall hb, thr thr_dead hb = 2 * hb * 1000)
  /\ (forall hb, thr thr_treq hb = 2 * hb * 1000) /\ (forall hb, thr thr_treq_silence hb = 2 * hb * 1000)
  /\ tick_ms = 1000.
Proof.
  repeat split; auto using thr_probe_eq, thr_dead_eq, thr_treq_eq;
    try (intro; unfold thr, thr_treq_silence; cbn [fst snd]; lia).
Qed.

Example traffic_instance :
  let evs := merge (ticks 1000000250 12) (app_msgs 1000004000 4000 3) in
  fed ((5 - 1) * 1000) 1000000000 evs
  /\ Forall (fun r => is_tick (r_ev r) = true -> r_out r = []) (trace (active0 5 1000000000) evs).
Proof.
  intro evs.
  assert (F : fed ((5 - 1) * 1000) 1000000000 evs) by (vm_compute; repeat split; discriminate).
  split; [exact F|].
  destruct (fed_quiet 5 ((5 - 1) * 1000) evs (active0 5 1000000000) 1000000000) as [A _];
    [lia | lia | repeat split; reflexivity | exact F | exact A].
Qed.
