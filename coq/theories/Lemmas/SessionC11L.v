(* C11 - nothing passes to or from the application outside an established session. *)
From Coq Require Import ZArith NArith List Bool Lia ZifyBool.
From AF Require Import Base.Sx Py.Str Fix.Session Lemmas.SessionL Lemmas.SessionC04L.
From Coq Require String.
Import String.StringSyntax.
Import ListNotations.
Open Scope Z_scope.

(* ------------------------------------------------------------------ send gate *)

(* the three refusals by connection state / role (the TestRequest gate is separate) *)
Definition gate_refuses (m : msg) (w : world) : bool :=
  (st w <? ST_NCE)
  || ((st w =? ST_NCE) && negb (match mkind m with KLogon | KLogout => true | _ => false end))
  || ((role w =? ROLE_INITIATOR) && (st w =? ST_LOGON_SENT)
      && negb (match mkind m with KLogout => true | _ => false end))
  || (negb (role w =? ROLE_INITIATOR) && (st w =? ST_LOGON_RECV)
      && negb (match mkind m with KLogon | KLogout => true | _ => false end)).

Lemma send_gate_refused m w : gate_refuses m w = true -> send_gate m w w = mkR (inr XConn) w [].
Proof.
  unfold gate_refuses, send_gate. intros H.
  destruct (st w <? ST_NCE) eqn:E1; [reflexivity|].
  destruct (st w =? ST_NCE) eqn:E2.
  - destruct (mkind m); cbn in H; try discriminate; try reflexivity; exfalso;
      (apply orb_true_iff in H; destruct H as [H|H]; apply andb_true_iff in H; destruct H as [H _];
       apply andb_true_iff in H; destruct H as [_ H]; stlia).
  - destruct (_ && _ && _); [reflexivity|]. destruct (_ && _ && _); [reflexivity|]. cbn in H. discriminate.
Qed.

Lemma send_msg_refused c m w : gate_refuses m w = true -> send_msg c m w = mkR (inr XConn) w [].
Proof.
  intros H. unfold send_msg. rewrite bind_unfold. cbn [getw rv rw re]. rewrite bind_unfold.
  rewrite (send_gate_refused m w H). reflexivity.
Qed.

(* encode / persist never raise FIXConnectionError *)
Lemma persist_out_not_conn seq m w : rv (persist_out seq m w) <> inr XConn.
Proof.
  unfold persist_out. destruct (negb _); [discriminate|]. destruct (has_key _ _); discriminate.
Qed.

Lemma encode_not_conn c m w : rv (encode c m w) <> inr XConn.
Proof.
  unfold encode. destruct (raw_seq m).
  - destruct (get T34 (mtags m)); [|discriminate]. destruct (py_int s); discriminate.
  - cbn. discriminate.
Qed.

Lemma send_write_not_conn c m w : rv (send_write c m w) <> inr XConn.
Proof.
  unfold send_write. rewrite bind_unfold.
  pose proof (encode_not_conn c m w) as He.
  destruct (encode c m w) as [r we ee]. cbn [rv rw re] in *.
  destruct r as [[n wm]|x]; msimp; [|congruence].
  set (J := (if skip_journal m then ret tt else persist_out n wm) we).
  assert (HJ : rv J <> inr XConn) by (subst J; destruct (skip_journal m); [discriminate|apply persist_out_not_conn]).
  destruct (rv J); msimp; [|congruence]. destruct (wr (rw J)); msimp; discriminate.
Qed.

(* the gates: refuse (nothing changed), pass (nothing changed), or - from NETWORK_CONN_ESTABLISHED with a
   Logon / Logout - move to LOGON_INITIAL_SENT as initiator *)
Lemma send_gate_cases m w :
  send_gate m w w = mkR (inr XConn) w []
  \/ send_gate m w w = mkR (inl tt) w []
  \/ (st w = ST_NCE /\ (mkind m = KLogon \/ mkind m = KLogout)
      /\ send_gate m w w = mkR (inl tt) (set_role ROLE_INITIATOR (set_st ST_LOGON_SENT w)) [State ST_LOGON_SENT]).
Proof.
  unfold send_gate.
  destruct (st w <? ST_NCE); [left; reflexivity|].
  destruct (st w =? ST_NCE) eqn:E.
  - destruct (mkind m); try (left; reflexivity); right; right; (split; [lia|]); (split; [auto|reflexivity]).
  - destruct (_ && _ && _); [left; reflexivity|]. destruct (_ && _ && _); [left; reflexivity|right; left; reflexivity].
Qed.

Lemma send_tail_conn c m w0 w :
  rv (send_tail c m w0 w) = inr XConn ->
  mkind m = KTestReq /\ send_tail c m w0 w = mkR (inr XConn) w [].
Proof.
  rewrite send_tail_unfold, bind_unfold.
  pose proof (send_write_not_conn c m w) as Hn.
  destruct (treq_gate_cases m w0 w) as [[Hg Hk]|Hg]; rewrite Hg; cbn [rv rw re app].
  - intros _. auto.
  - intros H. exfalso. apply Hn. destruct (rv (send_write c m w)); [discriminate|]. cbn in H. exact H.
Qed.

(* every refusal with FIXConnectionError leaves the whole world and the trace untouched *)
Lemma send_msg_conn_free c m w :
  rv (send_msg c m w) = inr XConn -> send_msg c m w = mkR (inr XConn) w [].
Proof.
  unfold send_msg. rewrite bind_unfold. cbn [getw rv rw re app]. rewrite bind_unfold.
  destruct (send_gate_cases m w) as [H|[H|[H6 [Hk H]]]]; rewrite H; cbn [rv rw re app].
  - reflexivity.
  - intros Hc. destruct (send_tail_conn c m w w Hc) as [_ Ht]. rewrite Ht. reflexivity.
  - intros Hc. destruct (send_tail_conn c m w _ Hc) as [Hkind _]. destruct Hk; congruence.
Qed.

(* R13c - the TestRequest gate: a TestRequest is refused unless a probe is pending AND the message carries exactly
   that probe's id (str(_test_req_id)) - so only send_test_req() can put a TestRequest on the wire, one at a time *)
Lemma testrequest_gate c m w :
  treq_refuses m w = true -> send_msg c m w = mkR (inr XConn) w [].
Proof.
  intros Ht.
  assert (Hk : mkind m = KTestReq) by (unfold treq_refuses in Ht; destruct (mkind m); try discriminate; reflexivity).
  unfold send_msg. rewrite bind_unfold. cbn [getw rv rw re app]. rewrite bind_unfold.
  destruct (send_gate_cases m w) as [H|[H|[H6 [Hk' H]]]]; rewrite H; cbn [rv rw re app].
  - reflexivity.
  - rewrite send_tail_unfold, bind_unfold, treq_gate_spec, Ht. reflexivity.
  - destruct Hk'; congruence.
Qed.

(* a TestRequest built by the application is refused whatever its id when no probe is pending, and whenever its id
   is not the pending probe's *)
Lemma testrequest_needs_pending_id c m w :
  mkind m = KTestReq ->
  (treq w = None \/ (exists t, treq w = Some t /\ get T112 (mtags m) <> Some (z_to_dec t))) ->
  send_msg c m w = mkR (inr XConn) w [].
Proof.
  intros Hk H. apply testrequest_gate. unfold treq_refuses. rewrite Hk.
  destruct H as [H|[t [H Hn]]]; rewrite H; [reflexivity|].
  destruct (get T112 (mtags m)) as [v|]; [|reflexivity].
  destruct (str_eqb v (z_to_dec t)) eqn:E; [|reflexivity]. apply str_eqb_eq in E. congruence.
Qed.

(* refused sends: the world (counters, journal, state) and the trace are unchanged *)
Lemma send_gate_theorem c m w :
  gate_refuses m w = true -> send_msg c m w = mkR (inr XConn) w [].
Proof. apply send_msg_refused. Qed.

(* R8c spelled out: between the peer's Logon and its own an acceptor may send Logon / Logout only *)
Lemma acceptor_send_gate c m w :
  st w = ST_LOGON_RECV -> role w <> ROLE_INITIATOR -> mkind m <> KLogon -> mkind m <> KLogout ->
  send_msg c m w = mkR (inr XConn) w [].
Proof.
  intros Hs Hr Hk1 Hk2. apply send_msg_refused. unfold gate_refuses. rewrite Hs.
  destruct (role w =? ROLE_INITIATOR) eqn:E; [lia|]. destruct (mkind m); cbn; congruence.
Qed.

(* ------------------------------------------------------------------ a disconnected connection is silent *)

Lemma disconnect_dead_noop c ds lm w : dead w -> disconnect c ds lm w = mkR (inl tt) w [].
Proof.
  intros H. unfold dead in H. unfold disconnect. rewrite bind_unfold. cbn [getw rv rw re].
  destruct (st w <=? ST_DISC_BROKEN) eqn:E; [reflexivity|lia].
Qed.

Lemma part1_dead c m w : dead w -> part1 c m w = mkR (inr XAssertion) w [].
Proof.
  intros H. unfold dead in H. unfold part1. rewrite bind_unfold. cbn [getw rv rw re].
  destruct (st w <? ST_NCE) eqn:E; [reflexivity|stlia].
Qed.

(* _process_message on a disconnected connection: no event, no change (it may raise on a garbled frame) *)
Lemma process_message_dead c m now w :
  dead w -> rw (process_message c m now w) = w /\ re (process_message c m now w) = [].
Proof.
  intros H. unfold process_message. destruct (validate_integrity c m w).
  - rewrite bind_unfold. unfold try_. rewrite (part1_dead c m w H). cbn. auto.
  - rewrite (disconnect_dead_noop c _ _ w H). auto.
  - rewrite (disconnect_dead_noop c _ _ w H). auto.
  - cbn. auto.
Qed.

(* ------------------------------------------------------------------ first message must be Logon *)

Definition dropped (ds : Z) (w : world) : world :=
  set_st ds (set_wr false (set_maxres 0 (set_lastt 0 (set_treq None w)))).

Lemma disconnect_none_alive c ds w :
  ~ dead w -> ds <= ST_DISC_BROKEN ->
  disconnect c ds None w = mkR (inl tt) (dropped ds w) [State ds; OnDisconnect].
Proof.
  intros Ha Hds. unfold dead in Ha. unfold disconnect. rewrite bind_unfold. cbn [getw rv rw re].
  destruct (st w <=? ST_DISC_BROKEN) eqn:E; [lia|].
  destruct (ds <=? ST_DISC_BROKEN) eqn:E2; [|lia].
  unfold dropped. cbn. destruct (ds =? ST_ACTIVE) eqn:E3; [stlia|]. reflexivity.
Qed.

(* the early gate of _process_message: before the Logon exchange is complete, a message that passed the
   integrity check and is not part of the exchange drops the connection: no Logout, nothing counted,
   nothing delivered *)
Lemma early_dropped c m now w :
  ST_NCE <= st w -> validate_integrity c m w = VOk -> early_drop m w = true ->
  process_message c m now w = mkR (inl tt) (dropped ST_DISC_BROKEN w) [State ST_DISC_BROKEN; OnDisconnect].
Proof.
  intros Hs V Hk. unfold process_message. rewrite V. rewrite bind_unfold. unfold try_.
  assert (Hp : part1 c m w = mkR (inl None) (dropped ST_DISC_BROKEN w) [State ST_DISC_BROKEN; OnDisconnect]).
  { unfold part1. rewrite bind_unfold. cbn [getw rv rw re].
    destruct (st w <? ST_NCE) eqn:E; [stlia|]. rewrite Hk. rewrite bind_unfold.
    rewrite disconnect_none_alive; [reflexivity| unfold dead; stlia | stlia]. }
  rewrite Hp. reflexivity.
Qed.

Lemma first_must_be_logon c m now w :
  st w = ST_NCE -> validate_integrity c m w = VOk -> mkind m <> KLogon ->
  process_message c m now w = mkR (inl tt) (dropped ST_DISC_BROKEN w) [State ST_DISC_BROKEN; OnDisconnect].
Proof.
  intros Hs V Hk. apply early_dropped; [stlia|exact V|]. unfold early_drop. rewrite Hs.
  destruct (mkind m); cbn; congruence.
Qed.

(* R8b: while the Logon exchange is in progress (our Logon sent, or the peer's Logon received and ours not
   yet sent) only Logon and Logout are accepted *)
Lemma logon_exchange_gate c m now w :
  st w = ST_LOGON_SENT \/ st w = ST_LOGON_RECV -> validate_integrity c m w = VOk ->
  mkind m <> KLogon -> mkind m <> KLogout ->
  process_message c m now w = mkR (inl tt) (dropped ST_DISC_BROKEN w) [State ST_DISC_BROKEN; OnDisconnect].
Proof.
  intros Hs V Hk1 Hk2. apply early_dropped; [stlia|exact V|]. unfold early_drop.
  destruct Hs as [Hs|Hs]; rewrite Hs; destruct (mkind m); cbn; congruence.
Qed.

(* ------------------------------------------------------------------ integrity failures *)

(* what _validate_integrity answers, by cases on the header fields *)
Lemma validate_cases c m w :
  match validate_integrity c m w with
  | VExc x => get T8 (mtags m) = None /\ x = XTagNotFound
  | VTrue => get T49 (mtags m) = None \/ get T56 (mtags m) = None
  | VStr code =>
      code <> [] /\
      ((exists b, get T8 (mtags m) = Some b /\ b <> c_begin c)
       \/ (exists s t, get T49 (mtags m) = Some s /\ get T56 (mtags m) = Some t
                       /\ (~ (c_sender c = t /\ c_target c = s)
                           \/ get T34 (mtags m) = None
                           \/ (exists v, get T34 (mtags m) = Some v /\ py_int v = None)
                           \/ exists n, get_int T34 m = inl n /\ n < nin w
                                        /\ mkind m <> KSeqReset /\ st w <> ST_AWAITING)))
  | VOk => exists s t n, get T49 (mtags m) = Some s /\ get T56 (mtags m) = Some t
                         /\ c_sender c = t /\ c_target c = s /\ get_int T34 m = inl n
                         /\ (nin w <= n \/ mkind m = KSeqReset \/ st w = ST_AWAITING)
  end.
Proof.
  unfold validate_integrity, get_int.
  destruct (get T8 (mtags m)) as [b|]; [|auto].
  destruct (str_eqb b (c_begin c)) eqn:Eb; cbn [negb].
  2:{ split; [discriminate|]. left. exists b. split; auto. now apply str_eqb_neq. }
  destruct (get T49 (mtags m)) as [s|]; [|left; reflexivity].
  destruct (get T56 (mtags m)) as [t|]; [|right; reflexivity].
  destruct (str_eqb (c_sender c) t && str_eqb (c_target c) s) eqn:Ec; cbn [negb].
  2:{ split; [discriminate|]. right. exists s, t. repeat split; auto. left. intros [H1 H2].
      apply andb_false_iff in Ec. destruct Ec as [Ec|Ec]; apply str_eqb_neq in Ec; congruence. }
  apply andb_true_iff in Ec. destruct Ec as [E1 E2]. apply str_eqb_eq in E1, E2.
  destruct (get T34 (mtags m)) as [v|].
  2:{ split; [discriminate|]. right. exists s, t. repeat split; auto. }
  destruct (py_int v) as [n|] eqn:Ep.
  2:{ split; [discriminate|]. right. exists s, t. repeat split; auto. right. right. left. exists v. auto. }
  destruct ((n <? nin w) && negb match mkind m with KSeqReset => true | _ => false end && negb (st w =? ST_AWAITING)) eqn:El.
  - split; [discriminate|]. right. exists s, t. repeat split; auto. right. right. right. exists n.
    apply andb_true_iff in El. destruct El as [El E3]. apply andb_true_iff in El. destruct El as [E4 E5].
    repeat split; auto; try lia. destruct (mkind m); cbn in E5; congruence.
  - exists s, t, n. repeat split; auto.
    destruct (mkind m) eqn:Ek; auto; cbn in El; lia.
Qed.

(* a connection on which a new message can be written and journaled *)
Definition sendable (w : world) : Prop :=
  wr w = true /\ has_key (nout w) (j_out (jr w)) = false /\ in_i64 (nout w) = true.

Definition logout_msg (c : cfg) (w : world) (code : str) : msg :=
  mkMsg MT_LOGOUT [(T49, c_sender c); (T56, c_target c); (T34, z_to_dec (nout w)); (T52, c_time c); (T58, code)].

(* the world after a Logout numbered nout w went out and the connection was dropped *)
Definition logged_out (c : cfg) (w : world) (code : str) : world :=
  let w1 := if st w =? ST_NCE then set_role ROLE_INITIATOR (set_st ST_LOGON_SENT w) else w in
  let w2 := set_nout (nout w + 1) (set_maxres 0 (set_lastt 0 (set_treq None w1))) in
  let w3 := set_jsout (nout w) (set_jout (j_out (jr w) ++ [(nout w, logout_msg c w code)]) w2) in
  set_st ST_DISC_BROKEN (set_wr false w3).

Lemma disconnect_logout_alive c w code :
  ST_NCE <= st w -> sendable w -> code <> [] ->
  disconnect c ST_DISC_BROKEN (Some code) w =
  mkR (inl tt) (logged_out c w code)
      ((if st w =? ST_NCE then [State ST_LOGON_SENT] else [])
       ++ [Wire (logout_msg c w code); State ST_DISC_BROKEN; OnDisconnect]).
Proof.
  intros Hs [Hw [Hk Hi]] Hc. destruct code as [|c0 code']; [congruence|].
  unfold disconnect. rewrite bind_unfold. cbn [getw rv rw re].
  destruct (st w <=? ST_DISC_BROKEN) eqn:E; [stlia|].
  cbn [Z.leb Z.compare ST_DISC_BROKEN Pos.compare Pos.compare_cont].
  rewrite bind_unfold. cbn [ret rv rw re]. rewrite bind_unfold. cbn [modw rv rw re app].
  rewrite bind_unfold.
  set (w0 := set_maxres 0 (set_lastt 0 (set_treq None w))).
  match goal with |- context [send_msg c ?mm ?ww] => set (lm := mm); change ww with w0 end.
  assert (Hsend : send_msg c lm w0 =
                  mkR (inl tt)
                      (set_jsout (nout w) (set_jout (j_out (jr w) ++ [(nout w, logout_msg c w (c0 :: code'))])
                         (set_nout (nout w + 1)
                            (if st w =? ST_NCE then set_role ROLE_INITIATOR (set_st ST_LOGON_SENT w0) else w0))))
                      ((if st w =? ST_NCE then [State ST_LOGON_SENT] else [])
                       ++ [Wire (logout_msg c w (c0 :: code'))])).
  { unfold send_msg. rewrite bind_unfold. cbn [getw rv rw re app]. rewrite bind_unfold.
    unfold send_gate. cbn [st w0 set_maxres set_lastt set_treq role].
    destruct (st w <? ST_NCE) eqn:E6; [lia|].
    destruct (st w =? ST_NCE) eqn:E7.
    - cbn. unfold persist_out, bind. cbn. rewrite Hi, Hk. cbn. rewrite Hw. cbn. reflexivity.
    - assert (((role w =? ROLE_INITIATOR) && (st w =? ST_LOGON_SENT) && negb true) = false) as Hf
        by (rewrite andb_false_r; reflexivity).
      cbn [mkind mtype lm kind_of]. cbn. rewrite !andb_false_r. cbn.
      unfold persist_out, bind. cbn. rewrite Hi, Hk. cbn. rewrite Hw. cbn. reflexivity. }
  rewrite Hsend. cbn [rv rw re].
  unfold logged_out. fold w0.
  destruct (st w =? ST_NCE); cbn; reflexivity.
Qed.

(* an integrity failure with both CompIDs present (or a wrong BeginString): Logout with the reason, drop *)
Lemma integrity_logout c m now w code :
  validate_integrity c m w = VStr code -> ST_NCE <= st w -> sendable w ->
  process_message c m now w =
  mkR (inl tt) (logged_out c w code)
      ((if st w =? ST_NCE then [State ST_LOGON_SENT] else [])
       ++ [Wire (logout_msg c w code); State ST_DISC_BROKEN; OnDisconnect])
  /\ nin (logged_out c w code) = nin w /\ st (logged_out c w code) = ST_DISC_BROKEN
  /\ wr (logged_out c w code) = false /\ j_in (jr (logged_out c w code)) = j_in (jr w)
  /\ get T58 (mtags (logout_msg c w code)) = Some code /\ code <> [].
Proof.
  intros V Hs Hsend. pose proof (validate_cases c m w) as Hc. rewrite V in Hc. destruct Hc as [Hne _].
  unfold process_message. rewrite V. cbv iota beta.
  split; [apply disconnect_logout_alive; auto|].
  repeat split; auto; unfold logged_out; destruct (st w =? ST_NCE); reflexivity.
Qed.

(* a CompID field is missing: dropped without any frame *)
Lemma integrity_silent c m now w :
  validate_integrity c m w = VTrue -> ~ dead w ->
  process_message c m now w = mkR (inl tt) (dropped ST_DISC_BROKEN w) [State ST_DISC_BROKEN; OnDisconnect].
Proof.
  intros V Ha. unfold process_message. rewrite V. apply disconnect_none_alive; [exact Ha|stlia].
Qed.

(* ------------------------------------------------------------------ OnDisconnect at most once *)

Lemma disconnect_discs c ds lm w :
  ds <= ST_DISC_BROKEN ->
  discs (re (disconnect c ds lm w)) = [] \/
  (discs (re (disconnect c ds lm w)) = [tt] /\ ~ dead w /\ dead (rw (disconnect c ds lm w))
   /\ rv (disconnect c ds lm w) = inl tt).
Proof.
  intros Hds. unfold disconnect. rewrite bind_unfold. cbn [getw rv rw re app].
  destruct (st w <=? ST_DISC_BROKEN) eqn:E; [left; reflexivity|].
  destruct (ds <=? ST_DISC_BROKEN) eqn:E2; [|lia].
  rewrite bind_unfold. cbn [ret rv rw re app]. rewrite bind_unfold. cbn [modw rv rw re app].
  rewrite bind_unfold.
  set (w0 := set_maxres 0 (set_lastt 0 (set_treq None w))).
  set (S := match lm with Some s => send_msg c (mkMsg MT_LOGOUT match s with [] => [] | _ :: _ => [(T58, s)] end) | None => ret tt end w0).
  assert (HS : discs (re S) = []).
  { apply discs_nil. subst S. destruct lm; [apply send_msg_allev; cbn; auto|constructor]. }
  destruct (rv S); cbn [rv rw re]; [|left; exact HS].
  right. rewrite discs_app, HS. cbn. destruct (ds =? ST_ACTIVE); cbn; repeat split; auto; unfold dead; cbn; lia.
Qed.

Lemma discs_le1_cases (l : list unit) : l = [] \/ l = [tt] -> (length l <= 1)%nat.
Proof. intros [->| ->]; cbn; lia. Qed.

Lemma pre_handlers_not_disc_alive c m w0 :
  mkind m <> KLogout -> allev not_disc (pre_handlers c m w0).
Proof.
  intros Hk. unfold pre_handlers. allev_step.
  { destruct (st w0 =? ST_NCE); [|allev_tac]. allev_step; [apply state_set_allev; exact I|allev_tac]. }
  destruct (mkind m); try solve [allev_tac]; try congruence.
  - apply process_logon_allev; cbn; auto.
  - apply process_seqreset_allev.
Qed.

Lemma check_gaps_not_disc c n : allev not_disc (check_gaps c n).
Proof. apply check_gaps_allev; cbn; auto. Qed.

Lemma gap_check_not_disc c m : allev not_disc (gap_check c m).
Proof.
  assert (H : forall n, allev not_disc (check_gaps c n)) by (intros; apply check_gaps_not_disc).
  unfold gap_check. allev_tac; auto.
Qed.

Lemma logout_counted_discs c m w :
  discs (re (logout_counted c m w)) = []
  \/ (discs (re (logout_counted c m w)) = [tt] /\ ~ dead w /\ rv (logout_counted c m w) = inl tt).
Proof.
  rewrite logout_counted_unfold. destruct (get_int T34 m) as [n|x]; cbn [rv rw re]; [|left; reflexivity].
  set (X := logout_count m n w).
  assert (HX1 : discs (re X) = []).
  { subst X. unfold logout_count. destruct (n =? nin w); [|reflexivity]. apply discs_nil.
    assert (H : allev not_disc (try_ (set_next_num_in m;;; persist_in m);;; ret tt)); [|apply H].
    allev_step; [|allev_tac]. apply allev_try. allev_step; [apply set_next_num_in_allev|apply persist_in_allev]. }
  assert (HX2 : st (rw X) = st w) by (subst X; apply logout_count_pres; ins_solve).
  rewrite discs_app, HX1. cbn [app].
  unfold process_logout. rewrite bind_unfold. cbn [getw rv rw re app]. rewrite bind_unfold. cbn [emit rv rw re app discs].
  set (ds := if wasact (rw X) then ST_DISC_WCONN else ST_DISC_BROKEN).
  destruct (disconnect_discs c ds None (rw X)) as [H|[H [Ha [_ Hr]]]].
  - subst ds. destruct (wasact (rw X)); stlia.
  - left. exact H.
  - right. split; [exact H|]. split; [unfold dead in *; rewrite <- HX2; exact Ha|exact Hr].
Qed.

(* part1: at most one OnDisconnect; when there is one the connection is dead and dispatch is not reached *)
Lemma part1_discs c m w :
  discs (re (part1 c m w)) = [] \/
  (discs (re (part1 c m w)) = [tt] /\ ~ dead w /\ dead (rw (part1 c m w))
   /\ forall b, rv (part1 c m w) <> inl (Some b)).
Proof.
  unfold part1. rewrite bind_unfold. cbn [getw rv rw re app].
  destruct (st w <? ST_NCE); [left; reflexivity|].
  destruct (early_drop m w).
  { rewrite bind_unfold.
    destruct (disconnect_discs c ST_DISC_BROKEN None w) as [H|[H [Ha [Hd Hr]]]]; [stlia| |].
    - destruct (rv _); cbn [rv rw re ret]; rewrite ?discs_app, ?H; left; reflexivity.
    - rewrite Hr. cbn [rv rw re ret]. rewrite app_nil_r. right. repeat split; auto. discriminate. }
  rewrite bind_unfold.
  destruct (mkind m) eqn:Ek.
  3:{ (* Logout *)
    pose proof (pre_handlers_logout_dead c m w w Ek) as Hd.
    assert (Hp : discs (re (pre_handlers c m w w)) = [] \/
                 (discs (re (pre_handlers c m w w)) = [tt] /\ ~ dead w /\ rv (pre_handlers c m w w) = inl tt)).
    { unfold pre_handlers. rewrite bind_unfold. rewrite Ek.
      set (A := (if st w =? ST_NCE then state_set ST_LOGON_RECV ;;; modw (set_role ROLE_ACCEPTOR) else ret tt) w).
      assert (HA : rv A = inl tt /\ discs (re A) = [] /\ (dead w -> rw A = w)).
      { subst A. destruct (st w =? ST_NCE) eqn:E6; cbn; repeat split; auto. unfold dead. stlia. }
      destruct HA as [HA1 [HA2 HA3]]. rewrite HA1. cbn [rv rw re]. rewrite discs_app, HA2. cbn [app].
      destruct (logout_counted_discs c m (rw A)) as [H|[H [Ha Hr]]]; [left; exact H|].
      right. split; [exact H|]. split; [|exact Hr]. intros Hdw. apply Ha. rewrite (HA3 Hdw). exact Hdw. }
    destruct (pre_handlers c m w w) as [rp wp ep]. cbn [rv rw re] in *.
    destruct rp as [[]|x]; cbn [rv rw re].
    - rewrite (gap_check_dead c m wp (Hd eq_refl)). cbn [rv rw re]. rewrite app_nil_r.
      destruct Hp as [Hp|[Hp [Ha _]]]; [left; exact Hp|]. right.
      split; [exact Hp|]. split; [exact Ha|]. split; [apply Hd; reflexivity|discriminate].
    - (* an OnDisconnect was reported only if _process_logout ran to its end: then nothing raised *)
      destruct Hp as [Hp|[Hp [Ha Hr]]]; [left; exact Hp|discriminate]. }
  all: (assert (Hk : mkind m <> KLogout) by congruence;
        pose proof (discs_nil _ (pre_handlers_not_disc_alive c m w Hk w)) as Hp; rewrite Ek in *;
        destruct (pre_handlers c m w w) as [rp wp ep]; cbn [rv rw re] in *;
        destruct rp as [[]|x]; cbn [rv rw re]; [|left; exact Hp];
        rewrite discs_app, Hp, (discs_nil _ (gap_check_not_disc c m wp)); left; reflexivity).
Qed.

Lemma dispatch_discs c m v w :
  discs (re (dispatch c m v w)) = [] \/
  (discs (re (dispatch c m v w)) = [tt] /\ ~ dead w /\ dead (rw (dispatch c m v w))).
Proof.
  unfold dispatch. destruct (mkind m); try (left; reflexivity).
  - left. rewrite deliver_branch_unfold. cbn [re]. destruct (v && seq_is_expected m w); reflexivity.
  - left. apply discs_nil. apply resend_served_allev; cbn; auto.
  - left. apply discs_nil. apply process_testrequest_allev; cbn; auto.
  - unfold process_heartbeat. rewrite bind_unfold. cbn [getw rv rw re app].
    destruct (treq w); [|left; reflexivity]. destruct (get T112 (mtags m)); [|left; reflexivity].
    destruct (negb _); [|left; reflexivity].
    destruct (disconnect_discs c ST_DISC_BROKEN (Some R_TESTID) w) as [H|[H [Ha [Hd _]]]]; [stlia|left; exact H|].
    right. auto.
  - left. rewrite deliver_branch_unfold. cbn [re]. destruct (v && seq_is_expected m w); reflexivity.
Qed.

Lemma finalize_not_disc m now : allev not_disc (finalize m now).
Proof. apply finalize_allev. exact I. Qed.

Lemma finalize_keeps_dead m now : keeps dead (finalize m now).
Proof.
  intros w Hw. destruct (finalize_aw m now w) as [H|[H|[H _]]]; [right; exact Hw| | |].
  - exfalso. unfold dead in Hw.
    (* the state can only have been changed by state_set ACTIVE, which needs RESENDREQ_AWAITING *)
    assert (Hp : st (rw (finalize m now w)) = st w \/ st (rw (finalize m now w)) = ST_ACTIVE).
    { unfold finalize. rewrite bind_unfold.
      assert (Hn : pres st (set_next_num_in m)) by (apply set_next_num_in_pres; ins_solve).
      specialize (Hn w). destruct (set_next_num_in m w) as [r1 w1 e1]. cbn [rv rw re] in *.
      destruct r1 as [r|x]; cbn [rv rw re]; [|left; exact Hn].
      destruct (r <=? 0); [left; exact Hn|].
      unfold finalize_tail. rewrite bind_unfold. cbn [getw rv rw re]. rewrite bind_unfold.
      destruct (st w1 =? ST_AWAITING) eqn:E; [stlia|].
      cbn [ret rv rw re]. left. rewrite <- Hn.
      assert (Hp : pres st (modw (set_lastt now) ;;; persist_in m)).
      { pres_step; [pres_tac|]. apply persist_in_pres. ins_solve. }
      apply Hp. }
    destruct Hp as [Hp|Hp]; rewrite Hp in H; stlia.
  - exact H.
  - exfalso.
    assert (Hp : st (rw (finalize m now w)) = st w).
    { unfold finalize. rewrite bind_unfold.
      assert (Hn : pres st (set_next_num_in m)) by (apply set_next_num_in_pres; ins_solve).
      specialize (Hn w). destruct (set_next_num_in m w) as [r1 w1 e1]. cbn [rv rw re] in *.
      destruct r1 as [r|x]; cbn [rv rw re]; [|exact Hn].
      destruct (r <=? 0); [exact Hn|].
      unfold finalize_tail. rewrite bind_unfold. cbn [getw rv rw re]. rewrite bind_unfold.
      unfold dead in Hw. destruct (st w1 =? ST_AWAITING) eqn:E; [stlia|].
      cbn [ret rv rw re]. rewrite <- Hn.
      assert (Hp : pres st (modw (set_lastt now) ;;; persist_in m)).
      { pres_step; [pres_tac|]. apply persist_in_pres. ins_solve. }
      apply Hp. }
    unfold dead in Hw. rewrite Hp in H. stlia.
Qed.

(* one inbound message: at most one OnDisconnect, and then the connection was alive and is dead *)
Lemma disconnect_discs' c lm w :
  discs (re (disconnect c ST_DISC_BROKEN lm w)) = [] \/
  (discs (re (disconnect c ST_DISC_BROKEN lm w)) = [tt] /\ ~ dead w /\ dead (rw (disconnect c ST_DISC_BROKEN lm w))).
Proof.
  destruct (disconnect_discs c ST_DISC_BROKEN lm w) as [H|[H [Ha [Hd _]]]]; [stlia|left; exact H|right; auto].
Qed.

Lemma part1_ok_alive c m w o : rv (part1 c m w) = inl o -> ~ dead w.
Proof.
  unfold part1. rewrite bind_unfold. cbn [getw rv rw re].
  destruct (st w <? ST_NCE) eqn:E; [discriminate|]. intros _. unfold dead. stlia.
Qed.

Lemma process_message_discs c m now w :
  discs (re (process_message c m now w)) = [] \/
  (discs (re (process_message c m now w)) = [tt] /\ ~ dead w /\ dead (rw (process_message c m now w))).
Proof.
  unfold process_message. destruct (validate_integrity c m w);
    [|apply disconnect_discs'|apply disconnect_discs'|left; reflexivity].
  rewrite !bind_unfold. unfold after_part1, try_.
  pose proof (part1_discs c m w) as P.
  pose proof (part1_ok_alive c m w) as Pa.
  destruct (part1 c m w) as [r1 w1 e1]. cbn [rv rw re] in *.
  destruct r1 as [[[|]|]|x]; cbn [rv rw re].
  - (* valid *)
    destruct P as [P|[_ [_ [_ P]]]]; [|exfalso; eapply P; reflexivity].
    rewrite !bind_unfold.
    pose proof (dispatch_discs c m true w1) as D.
    destruct (dispatch c m true w1) as [r2 w2 e2]. cbn [rv rw re] in *.
    pose proof (discs_nil _ (finalize_not_disc m now w2)) as F.
    pose proof (finalize_keeps_dead m now w2) as Fd.
    destruct r2; cbn [rv rw re]; rewrite !discs_app, P, F, app_nil_r; cbn [app];
      (destruct D as [D|[D [Da Dd]]]; [left; exact D|]).
    all: right; split; [exact D|]; split; [eapply Pa; reflexivity|apply Fd; exact Dd].
  - destruct P as [P|[_ [_ [_ P]]]]; [|exfalso; eapply P; reflexivity].
    rewrite !bind_unfold.
    pose proof (dispatch_discs c m false w1) as D.
    destruct (dispatch c m false w1) as [r2 w2 e2]. cbn [rv rw re] in *.
    destruct r2; cbn [ret rv rw re]; rewrite !discs_app, P, ?app_nil_r; cbn [app discs];
      (destruct D as [D|[D [Da Dd]]]; [left; rewrite ?app_nil_r; exact D|]).
    all: right; rewrite ?app_nil_r; split; [exact D|]; split; [eapply Pa; reflexivity|exact Dd].
  - cbn [ret rv rw re]. rewrite app_nil_r.
    destruct P as [P|[P [Ha [Hd _]]]]; [left; exact P|right; auto].
  - cbn [ret rv rw re]. rewrite app_nil_r.
    destruct P as [P|[P [Ha [Hd _]]]]; [left; exact P|right; auto].
Qed.

(* every operation: at most one OnDisconnect; it needs a live connection and leaves a dead one;
   a dead connection stays dead *)
Definition disc_ok (s : srec) : Prop :=
  (discs (s_events s) = [] \/ (discs (s_events s) = [tt] /\ ~ dead (s_before s) /\ dead (s_after s)))
  /\ (dead (s_before s) -> dead (s_after s) /\ discs (s_events s) = []).

Lemma send_msg_keeps_dead c m : keeps dead (send_msg c m).
Proof. apply (send_msg_keeps_st c m (fun s => s <= ST_DISC_BROKEN)). stlia. Qed.

Lemma step_disc_ok c o w : disc_ok (mkS w o (step c o w)).
Proof.
  unfold disc_ok, s_events, s_after. cbn [s_res s_before].
  destruct o as [m now|m|now|ds lm]; cbn [step].
  - split; [apply process_message_discs|].
    intros Hd. destruct (process_message_dead c m now w Hd) as [H1 H2]. rewrite H1, H2. auto.
  - assert (Hn : discs (re (send_msg c m w)) = []) by (apply discs_nil, send_msg_allev; cbn; auto).
    split; [left; exact Hn|]. intros Hd. split; [apply send_msg_keeps_dead; exact Hd|exact Hn].
  - assert (Hn : discs (re (send_test_req c now w)) = []) by (apply discs_nil, send_test_req_allev; cbn; auto).
    split; [left; exact Hn|]. intros Hd. split; [|exact Hn].
    unfold send_test_req. rewrite bind_unfold. cbn [getw rv rw re].
    destruct (treq w); [exact Hd|]. rewrite bind_unfold. cbn [modw rv rw re].
    apply send_msg_keeps_dead. exact Hd.
  - destruct (Z_le_gt_dec ds ST_DISC_BROKEN) as [Hds|Hds].
    + split.
      * destruct (disconnect_discs c ds lm w Hds) as [H|[H [Ha [Hd _]]]]; [left; exact H|right; auto].
      * intros Hd. rewrite (disconnect_dead_noop c ds lm w Hd). auto.
    + (* the assertion on disconn_state fails before anything happens *)
      unfold disconnect. rewrite bind_unfold. cbn [getw rv rw re].
      destruct (st w <=? ST_DISC_BROKEN) eqn:E.
      * cbn. split; [left; reflexivity|auto].
      * destruct (ds <=? ST_DISC_BROKEN) eqn:E2; [lia|]. cbn. split; [left; reflexivity|auto].
Qed.

Lemma run_disc_ok c h : forall w, Forall disc_ok (run c w h).
Proof. induction h as [|o h IH]; intros w; cbn [run]; constructor; [apply step_disc_ok|apply IH]. Qed.

Lemma trace_cons c w o h :
  trace (run c w (o :: h)) = re (step c o w) ++ trace (run c (rw (step c o w)) h).
Proof. reflexivity. Qed.

(* a dead connection never reports a disconnect again; a live one reports at most one *)
Lemma run_discs_once c h : forall w,
  (dead w -> discs (trace (run c w h)) = []) /\ (length (discs (trace (run c w h))) <= 1)%nat.
Proof.
  induction h as [|o h IH]; intros w; [cbn; split; auto|].
  rewrite trace_cons, discs_app.
  destruct (step_disc_ok c o w) as [H1 H2]. unfold s_events, s_after in *. cbn [s_res s_before] in *.
  destruct (IH (rw (step c o w))) as [I1 I2].
  split.
  - intros Hd. destruct (H2 Hd) as [Hd' Hn]. rewrite Hn, (I1 Hd'). reflexivity.
  - destruct H1 as [H1|[H1 [Ha Hd]]]; rewrite H1; cbn [app length]; [exact I2|].
    rewrite (I1 Hd). cbn. lia.
Qed.

(* ------------------------------------------------------------------ nothing is delivered before the Logon *)

Definition prelogon (w : world) : Prop :=
  st w <= ST_DISC_BROKEN \/ st w = ST_NCE \/ st w = ST_LOGON_SENT \/ st w = ST_LOGON_RECV.

Definition prelogon_st (s : Z) : Prop :=
  s <= ST_DISC_BROKEN \/ s = ST_NCE \/ s = ST_LOGON_SENT \/ s = ST_LOGON_RECV.

Lemma send_msg_keeps_prelogon c m : keeps prelogon (send_msg c m).
Proof. apply (send_msg_keeps_st c m prelogon_st). unfold prelogon_st. stlia. Qed.

Lemma keeps_bind_raise {A B} (I : world -> Prop) x (k : A -> M B) : keeps I (bind (raise x) k).
Proof. intros w Hw. exact Hw. Qed.

Lemma disconnect_keeps_prelogon c ds lm : keeps prelogon (disconnect c ds lm).
Proof.
  unfold disconnect. keeps_step; [keeps_tac|]. destruct (st a <=? ST_DISC_BROKEN); [keeps_tac|].
  destruct (ds <=? ST_DISC_BROKEN) eqn:E; [|apply keeps_bind_raise].
  keeps_step; [keeps_tac|]. keeps_step; [apply keeps_modw; intros w H; exact H|].
  keeps_step. { destruct lm; [apply send_msg_keeps_prelogon|keeps_tac]. }
  keeps_step; [apply keeps_modw; intros w H; exact H|].
  keeps_step; [|keeps_tac].
  intros w _. left. rewrite state_set_st. lia.
Qed.

(* _process_logon from a pre-Logon state: it either raises (still pre-Logon) or reports on_logon *)
Lemma process_logon_pl c m w :
  prelogon w ->
  logons (re (process_logon c m w)) <> [] \/
  (prelogon (rw (process_logon c m w)) /\ exists x, rv (process_logon c m w) = inr x).
Proof.
  intros Hw. unfold process_logon. rewrite bind_unfold. cbn [getw rv rw re app].
  destruct (negb _); [right; cbn; eauto|].
  rewrite bind_unfold. destruct (get_int T34 m) as [n|x]; cbn [lift ret raise rv rw re app]; [|right; eauto].
  rewrite bind_unfold.
  set (A := (if role w =? ROLE_ACCEPTOR then _ else ret tt) w).
  assert (HA : prelogon (rw A)).
  { subst A. destruct (role w =? ROLE_ACCEPTOR); [|exact Hw].
    destruct (negb (st w =? ST_LOGON_RECV)); [exact Hw|]. destruct (nin w <=? n); [|exact Hw].
    rewrite bind_unfold. destruct (get_tag T98 m); cbn [lift ret raise rv rw re]; [|exact Hw].
    rewrite bind_unfold. destruct (get_tag T108 m); cbn [lift ret raise rv rw re]; [|exact Hw].
    apply send_msg_keeps_prelogon. exact Hw. }
  destruct (rv A) eqn:EA; cbn [rv rw re]; [|right; eauto].
  left. rewrite bind_unfold. cbn [getw rv rw re app]. rewrite bind_unfold.
  rewrite !logons_app.
  destruct (n =? nin (rw A)); cbn; intros H; apply app_eq_nil in H; destruct H as [_ H]; discriminate.
Qed.

Lemma logons_nonnil_app_l a b : logons a <> [] -> logons (a ++ b) <> [].
Proof. rewrite logons_app. destruct (logons a); [congruence|discriminate]. Qed.
Lemma logons_nonnil_app_r a b : logons b <> [] -> logons (a ++ b) <> [].
Proof. rewrite logons_app. destruct (logons b); [congruence|]. intros _ H. apply app_eq_nil in H. destruct H; discriminate. Qed.

(* part1 for a Logon from a pre-Logon state *)
Lemma part1_logon_pl c m w :
  prelogon w -> mkind m = KLogon ->
  logons (re (part1 c m w)) <> [] \/
  (prelogon (rw (part1 c m w)) /\ exists x, rv (part1 c m w) = inr x).
Proof.
  intros Hw Hk. unfold part1. rewrite bind_unfold. cbn [getw rv rw re app].
  destruct (st w <? ST_NCE); [right; cbn; eauto|].
  assert (early_drop m w = false) as -> by (unfold early_drop; rewrite Hk; cbn; rewrite !andb_false_r; reflexivity).
  rewrite bind_unfold.
  unfold pre_handlers. rewrite Hk. rewrite bind_unfold.
  set (A := (if st w =? ST_NCE then state_set ST_LOGON_RECV ;;; modw (set_role ROLE_ACCEPTOR) else ret tt) w).
  assert (HA : rv A = inl tt /\ prelogon (rw A)).
  { subst A. destruct (st w =? ST_NCE); cbn; split; auto. right. right. right. reflexivity. }
  destruct HA as [HA1 HA2]. rewrite HA1. cbn [rv rw re].
  destruct (process_logon_pl c m (rw A) HA2) as [H|[H [x Hx]]].
  - left. destruct (rv (process_logon c m (rw A))); cbn [rv rw re].
    + apply logons_nonnil_app_l. apply logons_nonnil_app_r. exact H.
    + apply logons_nonnil_app_r. exact H.
  - right. rewrite Hx. cbn [rv rw re]. eauto.
Qed.

(* the peer's Logout from a pre-Logon state: the connection stays pre-Logon (it is torn down) *)
Lemma logout_counted_prelogon c m : keeps prelogon (logout_counted c m).
Proof.
  intros w Hw. rewrite logout_counted_unfold. destruct (get_int T34 m); cbn [rw].
  - left. apply process_logout_dead.
  - exact Hw.
Qed.

Lemma part1_logout_pl c m w : prelogon w -> mkind m = KLogout -> prelogon (rw (part1 c m w)).
Proof.
  intros Hw Hk. unfold part1. rewrite bind_unfold. cbn [getw rv rw re app].
  destruct (st w <? ST_NCE); [exact Hw|].
  destruct (early_drop m w).
  { rewrite bind_unfold. pose proof (disconnect_keeps_prelogon c ST_DISC_BROKEN None w Hw) as H.
    destruct (disconnect c ST_DISC_BROKEN None w) as [r1 w1 e1]. cbn [rv rw re] in *. destruct r1; exact H. }
  rewrite bind_unfold.
  pose proof (pre_handlers_logout_dead c m w w Hk) as Hd.
  assert (Hp : prelogon (rw (pre_handlers c m w w))).
  { unfold pre_handlers. rewrite bind_unfold. rewrite Hk.
    set (A := (if st w =? ST_NCE then state_set ST_LOGON_RECV ;;; modw (set_role ROLE_ACCEPTOR) else ret tt) w).
    assert (HA : rv A = inl tt /\ prelogon (rw A)).
    { subst A. destruct (st w =? ST_NCE); cbn; split; auto. right. right. right. reflexivity. }
    destruct HA as [HA1 HA2]. rewrite HA1. cbn [rv rw re]. apply logout_counted_prelogon. exact HA2. }
  destruct (pre_handlers c m w w) as [rp wp ep]. cbn [rv rw re] in *.
  destruct rp as [[]|x]; cbn [rv rw re]; [|exact Hp].
  rewrite (gap_check_dead c m wp (Hd eq_refl)). exact Hp.
Qed.

Lemma kind_logon_dec m : mkind m = KLogon \/ mkind m <> KLogon.
Proof. destruct (mkind m); auto; right; discriminate. Qed.

Lemma kind_logout_dec m : mkind m = KLogout \/ mkind m <> KLogout.
Proof. destruct (mkind m); auto; right; discriminate. Qed.

Lemma vres_ok_dec v : v = VOk \/ v <> VOk.
Proof. destruct v; auto; right; discriminate. Qed.

(* one operation from a pre-Logon state (disconnected, NOT_CONNECTED, LOGON_INITIAL_SENT, LOGON_INITIAL_RECV):
   nothing is delivered, and the connection leaves the pre-Logon states only by reporting on_logon.
   Since R8b this holds for every operation: the classes D15 and D25 are gone *)
Lemma step_prelogon c o w :
  let s := mkS w o (step c o w) in
  prelogon w ->
  apps (s_events s) = [] /\ (prelogon (s_after s) \/ logons (s_events s) <> []).
Proof.
  intros s Hw. subst s. unfold s_events, s_after in *. cbn [s_res s_before s_op] in *.
  destruct o as [m now|m|now|ds lm]; cbn [step].
  2:{ split; [apply apps_nil, send_msg_allev; cbn; auto|]. left. apply send_msg_keeps_prelogon. exact Hw. }
  2:{ split; [apply apps_nil, send_test_req_allev; cbn; auto|]. left.
      unfold send_test_req. rewrite bind_unfold. cbn [getw rv rw re].
      destruct (treq w); [exact Hw|]. rewrite bind_unfold. cbn [modw rv rw re].
      apply send_msg_keeps_prelogon. exact Hw. }
  2:{ split; [apply apps_nil, disconnect_allev; cbn; auto|]. left. apply disconnect_keeps_prelogon. exact Hw. }
  destruct (vres_ok_dec (validate_integrity c m w)) as [V|V].
  2:{ unfold process_message. destruct (validate_integrity c m w); try congruence.
      - split; [apply apps_nil, disconnect_allev; cbn; auto|]. left. apply disconnect_keeps_prelogon. exact Hw.
      - split; [apply apps_nil, disconnect_allev; cbn; auto|]. left. apply disconnect_keeps_prelogon. exact Hw.
      - cbn. auto. }
  destruct Hw as [Hd|Hpre].
  { destruct (process_message_dead c m now w Hd) as [E1 E2]. rewrite E1, E2. split; auto. left. left. exact Hd. }
  assert (Hpl : prelogon w) by (right; exact Hpre).
  destruct (kind_logon_dec m) as [Hk|Hk].
  { split.
    + destruct (pm_apps _ _ _ _ (process_message_spec c m now w)) as [H|[_ [Hk' _]]]; [exact H|congruence].
    + unfold process_message. rewrite V. rewrite bind_unfold. unfold try_.
      destruct (part1_logon_pl c m w Hpl Hk) as [H|[H [x Hx]]].
      * right. destruct (rv (part1 c m w)); cbn [rv rw re]; apply logons_nonnil_app_l; exact H.
      * left. rewrite Hx. cbn. exact H. }
  destruct Hpre as [H6|H78].
  { rewrite (first_must_be_logon c m now w H6 V Hk). cbn. split; auto. left. left. cbn. stlia. }
  destruct (kind_logout_dec m) as [Hl|Hl].
  2:{ rewrite (logon_exchange_gate c m now w H78 V Hk Hl). cbn. split; auto. left. left. cbn. stlia. }
  split.
  + destruct (pm_apps _ _ _ _ (process_message_spec c m now w)) as [H|[_ [Hk' _]]]; [exact H|congruence].
  + left. unfold process_message. rewrite V. rewrite bind_unfold. unfold try_.
    destruct (p1_logout _ _ _ _ (part1_spec c m w) Hl) as [Hnb _].
    pose proof (part1_logout_pl c m w Hpl Hl) as Hp.
    destruct (part1 c m w) as [r1 w1 e1]. cbn [rv rw re] in *.
    destruct r1 as [[b|]|x]; cbn [rv rw re after_part1 ret]; [exfalso; apply (Hnb b); reflexivity|exact Hp|exact Hp].
Qed.

Lemma apps_nil_not_in l m : apps l = [] -> ~ In (App m) l.
Proof.
  induction l as [|[] l IH]; cbn; intros H; try (intros [Hx|Hx]; [discriminate|apply IH; auto]); auto.
  discriminate.
Qed.

(* every App event of the history is preceded by an OnLogon event - over ALL histories *)
Lemma run_no_app_before_logon c h : forall w,
  prelogon w ->
  forall pre m post, trace (run c w h) = pre ++ App m :: post -> logons pre <> [].
Proof.
  induction h as [|o h IH]; intros w Hw pre m post Ht.
  { cbn in Ht. destruct pre; discriminate. }
  rewrite trace_cons in Ht.
  destruct (step_prelogon c o w Hw) as [Ha Hp]. unfold s_events, s_after in *. cbn [s_res] in *.
  apply app_eq_app in Ht. destruct Ht as [l [[E1 E2]|[E1 E2]]].
  - destruct l as [|e l'].
    + rewrite app_nil_r in E1. cbn in E2. subst pre.
      destruct Hp as [Hp|Hp]; [|exact Hp].
      exfalso. apply (IH _ Hp [] m post); [rewrite <- E2; reflexivity|reflexivity].
    + exfalso. inversion E2; subst. apply (apps_nil_not_in _ m Ha). rewrite E1. apply in_or_app. right. left. reflexivity.
  - subst pre. destruct Hp as [Hp|Hp]; [|apply logons_nonnil_app_l; exact Hp].
    apply logons_nonnil_app_r. eapply (IH _ Hp l m post). exact E2.
Qed.

(* a connection that started before the Logon exchange and is now in an established state
   (ACTIVE, RESENDREQ_HANDLING, RESENDREQ_AWAITING) has reported on_logon *)
Lemma run_established_needs_logon c h : forall w,
  prelogon w -> ~ prelogon (final c w h) -> logons (trace (run c w h)) <> [].
Proof.
  induction h as [|o h IH]; intros w Hw Hf.
  { exfalso. apply Hf. exact Hw. }
  rewrite trace_cons.
  destruct (step_prelogon c o w Hw) as [_ Hp]. unfold s_events, s_after in *. cbn [s_res] in *.
  destruct Hp as [Hp|Hp]; [|apply logons_nonnil_app_l; exact Hp].
  apply logons_nonnil_app_r. apply IH; [exact Hp|exact Hf].
Qed.

(* ------------------------------------------------------------------ the states the library ever sets *)

Definition okst (s : Z) : Prop := In s [1; 2; 3; 6; 7; 8; 10; 11; 12; 17].
Definition okstate (w : world) : Prop := okst (st w).

Lemma keeps_okstate_pres {A} (k : M A) : pres st k -> keeps okstate k.
Proof. intros H. apply (keeps_pres st okst). exact H. Qed.

Lemma state_set_okstate s : okst s -> keeps okstate (state_set s).
Proof. intros Hs w _. unfold okstate. rewrite state_set_st. exact Hs. Qed.

Lemma send_msg_okstate c m : keeps okstate (send_msg c m).
Proof. apply (send_msg_keeps_st c m okst). intros _. unfold okst. cbn. tauto. Qed.

Ltac okst_solve := unfold okst; cbn; tauto.

Ltac kst :=
  repeat first
    [ keeps_step
    | match goal with
      | |- keeps _ (modw _) => apply keeps_modw; intros ? ?; assumption
      | |- keeps okstate (state_set _) => apply state_set_okstate; okst_solve
      | |- keeps okstate (send_msg _ _) => apply send_msg_okstate
      | |- keeps okstate (set_seq_num _ _) => apply keeps_okstate_pres, set_seq_num_st
      | |- keeps okstate (recover_out _ _) => apply keeps_okstate_pres, recover_out_pres
      | |- keeps okstate (persist_in _) => apply keeps_okstate_pres, persist_in_pres; ins_solve
      | |- keeps okstate (set_next_num_in _) => apply keeps_okstate_pres, set_next_num_in_pres; ins_solve
      end ].

Lemma disconnect_okstate c ds lm : okst ds -> keeps okstate (disconnect c ds lm).
Proof.
  intros Hds. unfold disconnect. keeps_step; [keeps_tac|]. destruct (st a <=? ST_DISC_BROKEN); [keeps_tac|].
  destruct (ds <=? ST_DISC_BROKEN); [|apply keeps_bind_raise].
  keeps_step; [keeps_tac|]. keeps_step; [kst|].
  keeps_step; [destruct lm; kst|]. keeps_step; [kst|]. keeps_step; [|keeps_tac].
  apply state_set_okstate. exact Hds.
Qed.

Lemma replay_loop_okstate c rows : forall a b, keeps okstate (replay_loop c rows a b).
Proof.
  induction rows as [|r rows IH]; intros a b; cbn [replay_loop]; cbv zeta; [keeps_tac|].
  keeps_step; [keeps_tac|]. keeps_step; [keeps_tac|]. destruct (_ || _); [apply IH|].
  keeps_step; [kst|]. keeps_step; [keeps_tac|]. keeps_step; [keeps_tac|].
  keeps_step; [kst|apply IH].
Qed.

Lemma process_message_okstate c m now : keeps okstate (process_message c m now).
Proof.
  assert (Hd : forall lm, keeps okstate (disconnect c ST_DISC_BROKEN lm)) by (intros; apply disconnect_okstate; okst_solve).
  assert (Hd2 : keeps okstate (disconnect c ST_DISC_WCONN None)) by (apply disconnect_okstate; okst_solve).
  intros w Hw. unfold process_message. destruct (validate_integrity c m w); try (apply Hd; exact Hw); [|exact Hw].
  revert w Hw. change (keeps okstate (r1 <- try_ (part1 c m) ;; after_part1 c m now r1)).
  keeps_step.
  - apply keeps_try. unfold part1. keeps_step; [keeps_tac|]. destruct (st a <? ST_NCE); [keeps_tac|].
    destruct (early_drop m a); [keeps_step; [apply Hd|keeps_tac]|].
    keeps_step.
    + unfold pre_handlers. keeps_step; [kst|].
      destruct (mkind m); try solve [keeps_tac].
      * unfold process_logon. kst.
      * unfold process_seqreset. kst.
      * unfold logout_counted. keeps_step; [keeps_tac|]. keeps_step; [keeps_tac|].
        keeps_step; [kst|].
        unfold process_logout. keeps_step; [keeps_tac|]. keeps_step; [keeps_tac|].
        destruct (wasact a4); [apply Hd2|apply Hd].
    + unfold gap_check. keeps_step; [keeps_tac|]. destruct (st a1 <=? ST_DISC_BROKEN); [keeps_tac|].
      keeps_step; [keeps_tac|]. keeps_step; [|keeps_tac]. unfold check_gaps. kst.
  - assert (Hdis : forall v, keeps okstate (dispatch c m v)).
    { intros v. unfold dispatch. destruct (mkind m); try solve [keeps_tac].
      - apply keeps_finally; [|unfold restore_handling; kst].
        unfold process_resend.
        assert (Hl : forall rows a b, keeps okstate (replay_loop c rows a b)) by apply replay_loop_okstate.
        keeps_step; [keeps_tac|]. keeps_step; [kst|]. keeps_step; [keeps_tac|]. keeps_step; [keeps_tac|].
        keeps_step; [kst|]. keeps_step; [keeps_tac|]. keeps_step; [apply Hl|].
        kst.
      - unfold process_testrequest. kst.
      - unfold process_heartbeat. keeps_step; [keeps_tac|]. destruct (treq a0); [|keeps_tac].
        destruct (get T112 (mtags m)); [|keeps_tac]. destruct (negb _); [apply Hd|kst]. }
    assert (Hfin : keeps okstate (finalize m now)).
    { unfold finalize, finalize_tail. kst. }
    unfold after_part1. destruct a as [[[|]|]|]; try solve [keeps_tac].
    + keeps_step; [apply keeps_try, Hdis|apply Hfin].
    + keeps_step; [apply keeps_try, Hdis|keeps_tac].
Qed.

Definition op_ok (o : op) : Prop := match o with ODisc ds _ => okst ds | _ => True end.

Lemma step_okstate c o : op_ok o -> keeps okstate (step c o).
Proof.
  intros Ho. destruct o as [m now|m|now|ds lm]; cbn [step].
  - apply process_message_okstate.
  - apply send_msg_okstate.
  - unfold send_test_req. kst.
  - apply disconnect_okstate. exact Ho.
Qed.

Lemma run_okstate c h : forall w,
  okstate w -> Forall op_ok h -> Forall (fun s => okstate (s_before s) /\ okstate (s_after s)) (run c w h).
Proof.
  induction h as [|o h IH]; intros w Hw Ho; cbn [run]; constructor.
  - inversion Ho; subst. split; [exact Hw|]. unfold s_after. cbn. apply step_okstate; assumption.
  - inversion Ho; subst. apply IH; [apply step_okstate; assumption|assumption].
Qed.

(* ------------------------------------------------------------------ RESENDREQ_HANDLING is transient *)

(* since the repair R3c a ResendRequest that cannot be served no longer leaves the connection in
   RESENDREQ_HANDLING: no operation ends in that state unless it started there *)
Definition nh (w : world) : Prop := st w <> ST_HANDLING.

Lemma keeps_nh_pres {A} (k : M A) : pres st k -> keeps nh k.
Proof. intros H. apply (keeps_pres st (fun s => s <> ST_HANDLING)). exact H. Qed.

Lemma state_set_nh s : s <> ST_HANDLING -> keeps nh (state_set s).
Proof. intros Hs w _. unfold nh. rewrite state_set_st. exact Hs. Qed.

Lemma send_msg_nh c m : keeps nh (send_msg c m).
Proof. apply (send_msg_keeps_st c m (fun s => s <> ST_HANDLING)). intros _. stlia. Qed.

Ltac knh :=
  repeat first
    [ keeps_step
    | match goal with
      | |- keeps _ (modw _) => apply keeps_modw; intros ? ?; assumption
      | |- keeps nh (state_set _) => apply state_set_nh; stlia
      | |- keeps nh (send_msg _ _) => apply send_msg_nh
      | |- keeps nh (set_seq_num _ _) => apply keeps_nh_pres, set_seq_num_st
      | |- keeps nh (recover_out _ _) => apply keeps_nh_pres, recover_out_pres
      | |- keeps nh (persist_in _) => apply keeps_nh_pres, persist_in_pres; ins_solve
      | |- keeps nh (set_next_num_in _) => apply keeps_nh_pres, set_next_num_in_pres; ins_solve
      end ].

Lemma disconnect_nh c ds lm : keeps nh (disconnect c ds lm).
Proof.
  unfold disconnect. keeps_step; [keeps_tac|]. destruct (st a <=? ST_DISC_BROKEN); [keeps_tac|].
  destruct (ds <=? ST_DISC_BROKEN) eqn:E; [|apply keeps_bind_raise].
  keeps_step; [keeps_tac|]. keeps_step; [knh|].
  keeps_step; [destruct lm; knh|]. keeps_step; [knh|]. keeps_step; [|keeps_tac].
  apply state_set_nh. stlia.
Qed.

Lemma restore_handling_nh w : nh (rw (restore_handling w)).
Proof.
  unfold restore_handling, nh. rewrite bind_unfold. cbn [getw rv rw re].
  destruct (st w =? ST_HANDLING) eqn:E; [rewrite state_set_st; stlia|cbn; lia].
Qed.

Lemma dispatch_nh c m v : keeps nh (dispatch c m v).
Proof.
  unfold dispatch. destruct (mkind m); try solve [keeps_tac].
  - intros w _. unfold finally_. destruct (rv (restore_handling (rw (process_resend c m w)))); cbn [rw]; apply restore_handling_nh.
  - unfold process_testrequest. knh.
  - unfold process_heartbeat. keeps_step; [keeps_tac|]. destruct (treq a); [|keeps_tac].
    destruct (get T112 (mtags m)); [|keeps_tac]. destruct (negb _); [apply disconnect_nh|knh].
Qed.

Lemma process_message_nh c m now : keeps nh (process_message c m now).
Proof.
  intros w Hw. unfold process_message. destruct (validate_integrity c m w); try (apply disconnect_nh; exact Hw); [|exact Hw].
  revert w Hw. change (keeps nh (r1 <- try_ (part1 c m) ;; after_part1 c m now r1)).
  keeps_step.
  - apply keeps_try. unfold part1. keeps_step; [keeps_tac|]. destruct (st a <? ST_NCE); [keeps_tac|].
    destruct (early_drop m a); [keeps_step; [apply disconnect_nh|keeps_tac]|].
    keeps_step.
    + unfold pre_handlers. keeps_step; [knh|].
      destruct (mkind m); try solve [keeps_tac].
      * unfold process_logon. knh.
      * unfold process_seqreset. knh.
      * unfold logout_counted. keeps_step; [keeps_tac|]. keeps_step; [keeps_tac|].
        keeps_step; [knh|].
        unfold process_logout. keeps_step; [keeps_tac|]. keeps_step; [keeps_tac|]. apply disconnect_nh.
    + unfold gap_check. keeps_step; [keeps_tac|]. destruct (st a1 <=? ST_DISC_BROKEN); [keeps_tac|].
      keeps_step; [keeps_tac|]. keeps_step; [|keeps_tac]. unfold check_gaps. knh.
  - assert (Hfin : keeps nh (finalize m now)).
    { unfold finalize, finalize_tail. knh. }
    unfold after_part1. destruct a as [[[|]|]|]; try solve [keeps_tac].
    + keeps_step; [apply keeps_try, dispatch_nh|apply Hfin].
    + keeps_step; [apply keeps_try, dispatch_nh|keeps_tac].
Qed.

Lemma step_nh c o : keeps nh (step c o).
Proof.
  destruct o as [m now|m|now|ds lm]; cbn [step].
  - apply process_message_nh.
  - apply send_msg_nh.
  - unfold send_test_req. knh.
  - apply disconnect_nh.
Qed.

Lemma run_no_stuck_handling c h : forall w,
  st w <> ST_HANDLING -> Forall (fun s => st (s_after s) <> ST_HANDLING) (run c w h).
Proof.
  induction h as [|o h IH]; intros w Hw; cbn [run]; constructor.
  - unfold s_after. cbn. apply (step_nh c o w Hw).
  - apply IH. apply (step_nh c o w Hw).
Qed.

(* the former stuck case: BeginSeqNo beyond the last sent number: nothing can be served, the state is ACTIVE again *)
Lemma unserved_resend_not_stuck :
  st (final cfg0 w_acceptor [i_logon 1; OIn (inbound (S "2") 2 [(T7, S "9"); (T16, S "0")]) 0]) = ST_ACTIVE.
Proof. vm_compute. reflexivity. Qed.

(* ------------------------------------------------------------------ LOGON_INITIAL_RECV belongs to the acceptor *)

(* the state LOGON_INITIAL_RECV is only ever set together with the ACCEPTOR role, and the role changes only
   together with a state change: the R8c send gate (role <> INITIATOR) therefore covers every connection that
   the library itself brought into LOGON_INITIAL_RECV *)
Definition recv_acc (w : world) : Prop := st w = ST_LOGON_RECV -> role w = ROLE_ACCEPTOR.

Lemma keeps_ra_pres {A} (k : M A) : pres st k -> pres role k -> keeps recv_acc k.
Proof. intros H1 H2 w Hw. unfold recv_acc. rewrite (H1 w), (H2 w). exact Hw. Qed.

Lemma state_set_ra s : s <> ST_LOGON_RECV -> keeps recv_acc (state_set s).
Proof. intros Hs w _. unfold recv_acc. rewrite state_set_st. intros H. congruence. Qed.

Lemma send_msg_ra c m : keeps recv_acc (send_msg c m).
Proof.
  intros w Hw.
  assert (Hr : st (rw (send_msg c m w)) = st w -> role (rw (send_msg c m w)) = role w).
  { unfold send_msg. rewrite bind_unfold. cbn [getw rv rw re]. rewrite bind_unfold.
    assert (Ht : forall w0, pres st (send_tail c m w0)) by (intros; apply send_tail_pres; ins_solve).
    assert (Hq : forall w0, pres role (send_tail c m w0)) by (intros; apply send_tail_pres; ins_solve).
    unfold send_gate.
    destruct (st w <? ST_NCE) eqn:E1; [reflexivity|].
    destruct (st w =? ST_NCE) eqn:E2.
    - destruct (mkind m); try reflexivity; cbn [rv rw re bind]; cbn; rewrite ?Ht, ?Hq; cbn; intros H; exfalso; stlia.
    - destruct (_ && _ && _); [reflexivity|]. destruct (_ && _ && _); [reflexivity|].
      cbn [ret rv rw re]. rewrite Hq. reflexivity. }
  destruct (send_msg_st c m w) as [E|[E1 E2]]; unfold recv_acc.
  - rewrite E, (Hr E). exact Hw.
  - rewrite E2. intros H. exfalso. stlia.
Qed.

Ltac kra :=
  repeat first
    [ keeps_step
    | match goal with
      | |- keeps _ (modw _) => apply keeps_modw; intros ? ?; assumption
      | |- keeps recv_acc (state_set _) => apply state_set_ra; stlia
      | |- keeps recv_acc (send_msg _ _) => apply send_msg_ra
      | |- keeps recv_acc (set_seq_num _ _) => apply keeps_ra_pres; [apply set_seq_num_st|apply set_seq_num_pres; [ins_solve|intros _; cbn; intros; reflexivity|intros _; cbn; intros; reflexivity]]
      | |- keeps recv_acc (recover_out _ _) => apply keeps_ra_pres; apply recover_out_pres
      | |- keeps recv_acc (persist_in _) => apply keeps_ra_pres; apply persist_in_pres; ins_solve
      | |- keeps recv_acc (set_next_num_in _) => apply keeps_ra_pres; apply set_next_num_in_pres; ins_solve
      end ].

Lemma disconnect_ra c ds lm : keeps recv_acc (disconnect c ds lm).
Proof.
  unfold disconnect. keeps_step; [keeps_tac|]. destruct (st a <=? ST_DISC_BROKEN); [keeps_tac|].
  destruct (ds <=? ST_DISC_BROKEN) eqn:E; [|apply keeps_bind_raise].
  keeps_step; [keeps_tac|]. keeps_step; [kra|].
  keeps_step; [destruct lm; kra|]. keeps_step; [kra|]. keeps_step; [|keeps_tac].
  apply state_set_ra. stlia.
Qed.

Lemma replay_loop_ra c rows : forall a b, keeps recv_acc (replay_loop c rows a b).
Proof.
  induction rows as [|r rows IH]; intros a b; cbn [replay_loop]; cbv zeta; [keeps_tac|].
  keeps_step; [keeps_tac|]. keeps_step; [keeps_tac|]. destruct (_ || _); [apply IH|].
  keeps_step; [kra|]. keeps_step; [keeps_tac|]. keeps_step; [keeps_tac|].
  keeps_step; [kra|apply IH].
Qed.

Lemma restore_handling_ra : keeps recv_acc restore_handling.
Proof. unfold restore_handling. kra. Qed.

Lemma process_message_ra c m now : keeps recv_acc (process_message c m now).
Proof.
  intros w Hw. unfold process_message. destruct (validate_integrity c m w); try (apply disconnect_ra; exact Hw); [|exact Hw].
  revert w Hw. change (keeps recv_acc (r1 <- try_ (part1 c m) ;; after_part1 c m now r1)).
  keeps_step.
  - apply keeps_try. unfold part1. keeps_step; [keeps_tac|]. destruct (st a <? ST_NCE); [keeps_tac|].
    destruct (early_drop m a); [keeps_step; [apply disconnect_ra|keeps_tac]|].
    keeps_step.
    + unfold pre_handlers. keeps_step.
      { destruct (st a =? ST_NCE); [|keeps_tac]. intros w _. unfold recv_acc. cbn. reflexivity. }
      destruct (mkind m); try solve [keeps_tac].
      * unfold process_logon. kra.
      * unfold process_seqreset. kra.
      * unfold logout_counted. keeps_step; [keeps_tac|]. keeps_step; [keeps_tac|].
        keeps_step; [kra|].
        unfold process_logout. keeps_step; [keeps_tac|]. keeps_step; [keeps_tac|]. apply disconnect_ra.
    + unfold gap_check. keeps_step; [keeps_tac|]. destruct (st a1 <=? ST_DISC_BROKEN); [keeps_tac|].
      keeps_step; [keeps_tac|]. keeps_step; [|keeps_tac]. unfold check_gaps. kra.
  - assert (Hdis : forall v, keeps recv_acc (dispatch c m v)).
    { intros v. unfold dispatch. destruct (mkind m); try solve [keeps_tac].
      - apply keeps_finally; [|apply restore_handling_ra].
        unfold process_resend.
        assert (Hl : forall rows a b, keeps recv_acc (replay_loop c rows a b)) by apply replay_loop_ra.
        keeps_step; [keeps_tac|]. keeps_step; [kra|]. keeps_step; [keeps_tac|]. keeps_step; [keeps_tac|].
        keeps_step; [kra|]. keeps_step; [keeps_tac|]. keeps_step; [apply Hl|].
        kra.
      - unfold process_testrequest. kra.
      - unfold process_heartbeat. keeps_step; [keeps_tac|]. destruct (treq a0); [|keeps_tac].
        destruct (get T112 (mtags m)); [|keeps_tac]. destruct (negb _); [apply disconnect_ra|kra]. }
    assert (Hfin : keeps recv_acc (finalize m now)).
    { unfold finalize, finalize_tail. kra. }
    unfold after_part1. destruct a as [[[|]|]|]; try solve [keeps_tac].
    + keeps_step; [apply keeps_try, Hdis|apply Hfin].
    + keeps_step; [apply keeps_try, Hdis|keeps_tac].
Qed.

Lemma step_ra c o : keeps recv_acc (step c o).
Proof.
  destruct o as [m now|m|now|ds lm]; cbn [step].
  - apply process_message_ra.
  - apply send_msg_ra.
  - unfold send_test_req. kra.
  - apply disconnect_ra.
Qed.

Lemma run_recv_is_acceptor c h : forall w,
  recv_acc w -> Forall (fun s => recv_acc (s_before s) /\ recv_acc (s_after s)) (run c w h).
Proof.
  induction h as [|o h IH]; intros w Hw; cbn [run]; constructor.
  - split; [exact Hw|]. unfold s_after. cbn. apply (step_ra c o w Hw).
  - apply IH. apply (step_ra c o w Hw).
Qed.

(* hence, on every connection the library brought into LOGON_INITIAL_RECV, only Logon / Logout can be sent *)
Lemma logon_recv_send_gate c m w :
  recv_acc w -> st w = ST_LOGON_RECV -> mkind m <> KLogon -> mkind m <> KLogout ->
  send_msg c m w = mkR (inr XConn) w [].
Proof.
  intros Hw Hs Hk1 Hk2. apply acceptor_send_gate; auto. rewrite (Hw Hs). discriminate.
Qed.

(* ------------------------------------------------------------------ boolean class predicates, witnesses *)

Definition i_resend (seq b e : Z) := OIn (inbound (S "2") seq [(T7, z_to_dec b); (T16, z_to_dec e)]) 0.
Definition i_logon_no98 (seq : Z) := OIn (inbound (S "A") seq [(T108, S "30")]) 0.
Definition i_app_garbled := OIn (mkMsg (S "D")
    [(T8, S "FIX.4.4"); (T9, S "100"); (T35, S "D"); (T49, S "SRV"); (T56, S "CLI");
     (T34, S "abc"); (T52, S "20230101-10:00:00.000"); (T10, S "000")]) 0.

(* former D15 witnesses (repaired by R8b): the initiator has sent its Logon and waits for the reply;
   an application message arrives: dropped, nothing delivered, no Logout, next_num_in unchanged *)
Lemma initiator_app_before_logon_dropped :
  let t := trace (run cfg0 w_initiator [o_logon; i_app 1]) in
  let w := final cfg0 w_initiator [o_logon; i_app 1] in
  apps t = [] /\ logons t = [] /\ length (discs t) = 1%nat /\ map mtype (wires t) = [MT_LOGON]
  /\ st w = ST_DISC_BROKEN /\ nin w = 1.
Proof. cbn zeta. repeat split; vm_compute; reflexivity. Qed.

(* ... or a ResendRequest: it is not served and the connection does not become ACTIVE *)
Lemma initiator_resend_before_logon_dropped :
  let t := trace (run cfg0 w_initiator [o_logon; i_resend 1 1 0]) in
  let w := final cfg0 w_initiator [o_logon; i_resend 1 1 0] in
  logons t = [] /\ map mtype (wires t) = [MT_LOGON] /\ st w = ST_DISC_BROKEN /\ nin w = 1.
Proof. cbn zeta. repeat split; vm_compute; reflexivity. Qed.

(* former D25 witness (repaired by R8b, R8c): a Logon without EncryptMethod leaves the acceptor in
   LOGON_INITIAL_RECV (no reply, no on_logon); the next application message is dropped, and until then
   the application cannot send anything but Logon/Logout *)
Lemma acceptor_stuck_logon_dropped :
  let w1 := final cfg0 w_acceptor [i_logon_no98 1] in
  let t := trace (run cfg0 w_acceptor [i_logon_no98 1; i_app 1]) in
  st w1 = ST_LOGON_RECV
  /\ step cfg0 (OSend (mkMsg (S "D") [(S "11", S "X")])) w1 = mkR (inr XConn) w1 []
  /\ apps t = [] /\ logons t = [] /\ wires t = [] /\ length (discs t) = 1%nat
  /\ st (final cfg0 w_acceptor [i_logon_no98 1; i_app 1]) = ST_DISC_BROKEN.
Proof. cbn zeta. repeat split; vm_compute; reflexivity. Qed.

(* D27 is repaired in the code: a MsgSeqNum that int() rejects is an integrity failure like a missing one *)
Lemma garbled_seqnum_rejected c m w v :
  get T8 (mtags m) = Some (c_begin c) -> get T49 (mtags m) = Some (c_target c) ->
  get T56 (mtags m) = Some (c_sender c) -> get T34 (mtags m) = Some v -> py_int v = None ->
  validate_integrity c m w = VStr R_GARBLED.
Proof.
  intros H8 H49 H56 H34 Hv. unfold validate_integrity. rewrite H8, H49, H56, H34, Hv, !str_eqb_refl. reflexivity.
Qed.

(* the former D27 witness: ACTIVE acceptor, D(49, 56 correct, 34 = abc): Logout with a reason, dropped,
   nothing delivered, next_num_in unchanged *)
Definition m_garbled : msg :=
  mkMsg (S "D") [(T8, S "FIX.4.4"); (T9, S "100"); (T35, S "D"); (T49, S "SRV"); (T56, S "CLI");
                 (T34, S "abc"); (T52, S "20230101-10:00:00.000"); (T10, S "000")].
Lemma garbled_seqnum_logout :
  let w := final cfg0 w_acceptor [i_logon 1] in
  let r := process_message cfg0 m_garbled 0 w in
  st w = ST_ACTIVE /\ rv r = inl tt /\ st (rw r) = ST_DISC_BROKEN /\ nin (rw r) = nin w
  /\ apps (re r) = [] /\ length (discs (re r)) = 1%nat
  /\ map (fun wm => (mtype wm, get T58 (mtags wm))) (wires (re r)) = [(MT_LOGOUT, Some R_GARBLED)].
Proof. cbn zeta. repeat split; vm_compute; reflexivity. Qed.

(* non-vacuity: a normal acceptor session delivers after its Logon and ends with one disconnect *)
Definition h_session := [i_logon 1; i_app 2; i_app 3; OSend (mkMsg (S "D") [(S "11", S "X")]); OIn (inbound (S "5") 4 []) 0; i_app 5].
Lemma session_in_scope :
  prelogon w_acceptor
  /\ length (apps (trace (run cfg0 w_acceptor h_session))) = 2%nat
  /\ length (discs (trace (run cfg0 w_acceptor h_session))) = 1%nat
  /\ okstate w_acceptor.
Proof.
  split; [right; left; reflexivity|].
  split; [vm_compute; reflexivity|]. split; [vm_compute; reflexivity|]. unfold okstate, okst. cbn. tauto.
Qed.

(* regression (amended R3b): the peer's Logout is processed even when its journaling raises -
   (a) its number is already in the inbound journal (after SequenceReset(34=2,36=2));
   (b) its MsgSeqNum text parses as str but not as bytes ("2" + NEL) *)
Definition logouts_seen (l : list event) : nat := length (filter (fun e => match e with OnLogout => true | _ => false end) l).
Definition i_logout_text (v : str) := OIn (mkMsg (S "5")
    [(T8, S "FIX.4.4"); (T9, S "100"); (T35, S "5"); (T49, S "SRV"); (T56, S "CLI");
     (T34, v); (T52, S "20230101-10:00:00.000"); (T10, S "000")]) 0.
Lemma logout_always_processed :
  (let h := [i_logon 1; i_reset 2 2; i_logout 2] in
   dead (final cfg0 w_acceptor h) /\ logouts_seen (trace (run cfg0 w_acceptor h)) = 1%nat
   /\ length (discs (trace (run cfg0 w_acceptor h))) = 1%nat)
  /\ (let h := [i_logon 1; i_logout_text [50%N; 133%N]] in
      dead (final cfg0 w_acceptor h) /\ logouts_seen (trace (run cfg0 w_acceptor h)) = 1%nat
      /\ length (discs (trace (run cfg0 w_acceptor h))) = 1%nat).
Proof. cbn zeta. unfold dead. repeat split; vm_compute; congruence. Qed.
