(* Lemmas about the journal model: refinement to a map (sid, dir, n) -> bytes + counters. *)
From Coq Require Import ZArith NArith List Bool Lia Sorting.Sorted Permutation.
From AF Require Import Base.Sx Py.Str Fix.Journal.
Import ListNotations.
Open Scope Z_scope.

(* ------------------------------------------------------------------ abstract view *)

Definition mkey (r : mrow) : Z * Z * Z := (m_seq r, m_sid r, m_dir r).

Definition lookup (t : tables) (sid dir n : Z) : option str :=
  option_map m_msg (find (fun r => key_eqb r n sid dir) (t_messages t)).

Definition counter (t : tables) (sid : Z) : option (Z * Z) :=
  option_map (fun r => (s_out r, s_in r)) (find (fun r => s_id r =? sid) (t_sessions t)).

(* well-formed tables: primary key of message unique; session ids are 1..n in row order;
   (target, sender) unique *)
Fixpoint ids_from (k : Z) (l : list srow) : Prop :=
  match l with
  | [] => True
  | r :: l' => s_id r = k /\ ids_from (k + 1) l'
  end.

Definition comp_key (r : srow) : str * str := (s_target r, s_sender r).

Record wf (t : tables) : Prop := mkWf {
  wf_keys : NoDup (map mkey (t_messages t));
  wf_ids : ids_from 1 (t_sessions t);
  wf_comp : NoDup (map comp_key (t_sessions t))
}.

(* ------------------------------------------------------------------ basic facts *)

Lemma key_eqb_true r n sid dir : key_eqb r n sid dir = true <-> mkey r = (n, sid, dir).
Proof.
  unfold key_eqb, mkey. rewrite !andb_true_iff, !Z.eqb_eq. split.
  - intros [[A B] C]. congruence.
  - intros H. inversion H. auto.
Qed.

Lemma key_eqb_false r n sid dir : key_eqb r n sid dir = false <-> mkey r <> (n, sid, dir).
Proof.
  rewrite <- key_eqb_true. destruct (key_eqb r n sid dir); split; congruence.
Qed.

Lemma str_eqb_eq a b : str_eqb a b = true <-> a = b.
Proof.
  revert b. induction a as [|x a IH]; destruct b as [|y b]; cbn; split; try congruence; auto.
  - rewrite andb_true_iff, N.eqb_eq. intros [-> H]. apply IH in H. now subst.
  - intros H. inversion H. subst. rewrite andb_true_iff, N.eqb_eq. split; auto. now apply IH.
Qed.

Lemma find_app {A} (f : A -> bool) l x :
  find f (l ++ [x]) = match find f l with Some y => Some y | None => if f x then Some x else None end.
Proof. induction l as [|a l IH]; cbn; [destruct (f x); reflexivity|]. destruct (f a); auto. Qed.

Lemma find_none_iff {A} (f : A -> bool) l : find f l = None <-> forall x, In x l -> f x = false.
Proof.
  split; [apply find_none|]. induction l as [|a l IH]; cbn; auto.
  intros H. rewrite (H a (or_introl eq_refl)). apply IH. intros x Hx. apply H. now right.
Qed.

Lemma has_msg_lookup t n sid dir : has_msg t n sid dir = false <-> lookup t sid dir n = None.
Proof.
  unfold has_msg, lookup. split.
  - intros H. destruct (find _ _) eqn:E; [|reflexivity].
    apply find_some in E. destruct E as [Hin Hk].
    assert (existsb (fun r => key_eqb r n sid dir) (t_messages t) = true)
      by (apply existsb_exists; eauto). congruence.
  - intros H. destruct (find _ _) eqn:E; [discriminate|].
    destruct (existsb _ _) eqn:E2; [|reflexivity].
    apply existsb_exists in E2. destruct E2 as [x [Hin Hk]].
    rewrite find_none_iff in E. rewrite (E x Hin) in Hk. discriminate.
Qed.

(* lookup through a filter, when keys are unique *)
Lemma find_key_filter (p : mrow -> bool) l n sid dir :
  NoDup (map mkey l) ->
  find (fun r => key_eqb r n sid dir) (filter p l) =
  match find (fun r => key_eqb r n sid dir) l with
  | Some r => if p r then Some r else None
  | None => None
  end.
Proof.
  induction l as [|x l IH]; cbn; [reflexivity|]. intros ND. inversion ND as [|? ? Hnotin ND']. subst.
  destruct (key_eqb x n sid dir) eqn:K.
  - destruct (p x) eqn:P; cbn; [now rewrite K|].
    rewrite IH by assumption.
    destruct (find _ l) eqn:F; [|reflexivity].
    apply find_some in F. destruct F as [Hin Hk].
    apply key_eqb_true in K. apply key_eqb_true in Hk.
    exfalso. apply Hnotin. rewrite K, <- Hk. now apply in_map.
  - destruct (p x) eqn:P; cbn; [rewrite K|]; now apply IH.
Qed.

Lemma filter_keys_nodup (p : mrow -> bool) l : NoDup (map mkey l) -> NoDup (map mkey (filter p l)).
Proof.
  induction l as [|x l IH]; cbn; auto. intros ND. inversion ND as [|? ? Hn ND']. subst.
  destruct (p x); cbn; [constructor|]; auto.
  intros Hin. apply Hn. apply in_map_iff in Hin. destruct Hin as [y [E Hy]].
  apply filter_In in Hy. rewrite <- E. apply in_map. tauto.
Qed.

Lemma NoDup_snoc {A} (l : list A) x : NoDup l -> ~ In x l -> NoDup (l ++ [x]).
Proof.
  induction l as [|a l IH]; cbn; intros ND Hn; [repeat constructor; intros []|].
  inversion ND as [|? ? Ha ND']. subst. constructor.
  - rewrite in_app_iff. intros [H|[H|[]]]; [auto|subst; apply Hn; now left].
  - apply IH; auto.
Qed.

(* ------------------------------------------------------------------ persist_msg *)

Definition ctr_dir (dir : Z) (c : Z * Z) : Z := if dir =? OUTBOUND then fst c else snd c.

Lemma find_map_upd (f : srow -> srow) sid sid' l :
  (forall r, s_id (f r) = s_id r) ->
  find (fun r => s_id r =? sid') (map (fun r => if s_id r =? sid then f r else r) l) =
  option_map (fun r => if s_id r =? sid then f r else r) (find (fun r => s_id r =? sid') l).
Proof.
  intros Hf. induction l as [|x l IH]; cbn; [reflexivity|].
  destruct (s_id x =? sid) eqn:E.
  - rewrite Hf. destruct (s_id x =? sid') eqn:E2; cbn; [now rewrite E|]. apply IH.
  - destruct (s_id x =? sid') eqn:E2; cbn; [now rewrite E|]. apply IH.
Qed.

Lemma upd_sessions_messages f sid t : t_messages (upd_sessions f sid t) = t_messages t.
Proof. reflexivity. Qed.

Lemma upd_sessions_wf f sid t :
  (forall r, s_id (f r) = s_id r /\ comp_key (f r) = comp_key r) -> wf t -> wf (upd_sessions f sid t).
Proof.
  intros Hf [K I C]. constructor; cbn; auto.
  - clear K C. revert I. generalize 1. induction (t_sessions t) as [|x l IH]; cbn; auto.
    intros k [E R]. split; [destruct (s_id x =? sid); [rewrite (proj1 (Hf x))|]; assumption|]. now apply IH.
  - replace (map comp_key (map _ (t_sessions t))) with (map comp_key (t_sessions t)); auto.
    rewrite map_map. apply map_ext. intros r. destruct (s_id r =? sid); [now rewrite (proj2 (Hf r))|reflexivity].
Qed.

(* result of a successful persist on the tables *)
Definition persist_tables (t : tables) (n sid dir : Z) (msg : str) : tables :=
  let t1 := mkT (t_sessions t) (t_messages t ++ [mkM n sid dir msg]) in
  if dir =? OUTBOUND
  then upd_sessions (fun r => mkS (s_id r) (s_target r) (s_sender r) n (s_in r)) sid t1
  else upd_sessions (fun r => mkS (s_id r) (s_target r) (s_sender r) (s_out r) n) sid t1.

Lemma persist_new d msg s dir n :
  find_seq_no msg = Some n -> lookup (cur d) (key s) dir n = None ->
  persist_msg msg s dir d =
  (mkDb (persist_tables (cur d) n (key s) dir msg) (persist_tables (cur d) n (key s) dir msg) false, None).
Proof.
  intros F L. unfold persist_msg. rewrite F. unfold persist_prims.
  apply has_msg_lookup in L. cbn [exec_prims exec_prim apply_stmt].
  rewrite L. unfold persist_tables.
  destruct (dir =? OUTBOUND); cbn; reflexivity.
Qed.

Lemma persist_dup d msg s dir n old :
  find_seq_no msg = Some n -> lookup (cur d) (key s) dir n = Some old ->
  persist_msg msg s dir d = (mkDb (committed d) (cur d) true, Some EDuplicateSeqNo).
Proof.
  intros F L. unfold persist_msg. rewrite F. unfold persist_prims.
  assert (H : has_msg (cur d) n (key s) dir = true).
  { destruct (has_msg (cur d) n (key s) dir) eqn:E; [reflexivity|]. apply has_msg_lookup in E. congruence. }
  cbn [exec_prims exec_prim apply_stmt]. rewrite H. reflexivity.
Qed.

Lemma persist_malformed d msg s dir :
  find_seq_no msg = None -> persist_msg msg s dir d = (d, Some EFIXMessage).
Proof. intros F. unfold persist_msg. now rewrite F. Qed.

Lemma lookup_persist_tables t n sid dir msg sid' dir' n' :
  lookup t sid dir n = None ->
  lookup (persist_tables t n sid dir msg) sid' dir' n' =
  if (n' =? n) && (sid' =? sid) && (dir' =? dir) then Some msg else lookup t sid' dir' n'.
Proof.
  intros L. unfold lookup, persist_tables.
  assert (M : forall f g, t_messages (if dir =? OUTBOUND
             then upd_sessions f sid (mkT (t_sessions t) (t_messages t ++ [mkM n sid dir msg]))
             else upd_sessions g sid (mkT (t_sessions t) (t_messages t ++ [mkM n sid dir msg])))
             = t_messages t ++ [mkM n sid dir msg]) by (intros; destruct (dir =? OUTBOUND); reflexivity).
  rewrite M. rewrite find_app. unfold key_eqb at 2. cbn [m_seq m_sid m_dir].
  rewrite (Z.eqb_sym n n'), (Z.eqb_sym sid sid'), (Z.eqb_sym dir dir').
  destruct ((n' =? n) && (sid' =? sid) && (dir' =? dir)) eqn:E.
  - apply andb_prop in E. destruct E as [E E3]. apply andb_prop in E. destruct E as [E1 E2].
    apply Z.eqb_eq in E1, E2, E3. subst.
    unfold lookup in L. destruct (find _ (t_messages t)); [discriminate|reflexivity].
  - destruct (find _ (t_messages t)); reflexivity.
Qed.

Lemma counter_persist_tables t n sid dir msg sid' :
  counter (persist_tables t n sid dir msg) sid' =
  option_map (fun c => if sid' =? sid
                       then (if dir =? OUTBOUND then (n, snd c) else (fst c, n)) else c)
             (counter t sid').
Proof.
  unfold counter, persist_tables.
  destruct (dir =? OUTBOUND); unfold upd_sessions; cbn [t_sessions];
    (rewrite find_map_upd by reflexivity);
    destruct (find (fun r => s_id r =? sid') (t_sessions t)) eqn:F; cbn; try reflexivity;
    apply find_some in F; destruct F as [_ F]; apply Z.eqb_eq in F; subst;
    destruct (s_id s =? sid); reflexivity.
Qed.

Lemma persist_tables_wf t n sid dir msg : wf t -> lookup t sid dir n = None -> wf (persist_tables t n sid dir msg).
Proof.
  intros W L. unfold persist_tables.
  assert (W1 : wf (mkT (t_sessions t) (t_messages t ++ [mkM n sid dir msg]))).
  { destruct W as [K I C]. constructor; cbn; auto.
    rewrite map_app. cbn. apply NoDup_snoc; auto.
    intros Hin. apply in_map_iff in Hin. destruct Hin as [r [E Hr]].
    unfold lookup in L. destruct (find _ (t_messages t)) eqn:F; [discriminate|].
    rewrite find_none_iff in F. specialize (F r Hr). apply key_eqb_false in F. apply F.
    rewrite E. reflexivity. }
  destruct (dir =? OUTBOUND); apply upd_sessions_wf; auto; intros r; split; reflexivity.
Qed.

(* ------------------------------------------------------------------ set_seq_num *)

Definition del_from (sid from dir : Z) (l : list mrow) : list mrow :=
  filter (fun r => negb ((m_sid r =? sid) && (from <=? m_seq r) && (m_dir r =? dir))) l.

Definition set_tables (t : tables) (sid o i : Z) : tables :=
  mkT (map (fun r => if s_id r =? sid then mkS (s_id r) (s_target r) (s_sender r) (o - 1) (i - 1) else r) (t_sessions t))
      (del_from sid o OUTBOUND (del_from sid i INBOUND (t_messages t))).

Lemma exec_set_prims d s o i :
  exec_prims (set_seq_num_prims s o i) d =
  (mkDb (set_tables (cur d) (key s) o i) (set_tables (cur d) (key s) o i) false, true).
Proof. reflexivity. Qed.

Lemma set_seq_num_both d s o i :
  0 < o -> 0 < i ->
  set_seq_num s (Some o) (Some i) d =
  (mkDb (set_tables (cur d) (key s) o i) (set_tables (cur d) (key s) o i) false,
   mkSess (key s) (target s) (sender s) o i, None).
Proof.
  intros Ho Hi. unfold set_seq_num.
  destruct (o <=? 0) eqn:E1; [apply Z.leb_le in E1; lia|].
  destruct (i <=? 0) eqn:E2; [apply Z.leb_le in E2; lia|].
  rewrite exec_set_prims. reflexivity.
Qed.

Lemma set_seq_num_refused_out d s o i : o <= 0 -> set_seq_num s (Some o) i d = (d, s, Some EAssertion).
Proof. intros H. unfold set_seq_num. apply Z.leb_le in H. now rewrite H. Qed.

Lemma lookup_set_tables t sid o i sid' dir' n :
  wf t ->
  lookup (set_tables t sid o i) sid' dir' n =
  if (sid' =? sid) && (((dir' =? INBOUND) && (i <=? n)) || ((dir' =? OUTBOUND) && (o <=? n)))
  then None else lookup t sid' dir' n.
Proof.
  intros [K _ _]. unfold lookup, set_tables. cbn [t_messages]. unfold del_from.
  rewrite find_key_filter by (apply filter_keys_nodup; exact K).
  rewrite find_key_filter by exact K.
  destruct (find (fun r => key_eqb r n sid' dir') (t_messages t)) eqn:F.
  - apply find_some in F. destruct F as [_ F]. apply key_eqb_true in F.
    destruct m as [a b c e]. unfold mkey in F. cbn in F. inversion F. subst. cbn.
    unfold INBOUND, OUTBOUND.
    repeat (match goal with
            | |- context [Z.eqb ?a ?b] => destruct (Z.eqb_spec a b)
            | |- context [Z.leb ?a ?b] => destruct (Z.leb_spec a b)
            end; cbn); try reflexivity; lia.
  - destruct (_ && _); reflexivity.
Qed.

Lemma counter_set_tables t sid o i sid' :
  counter (set_tables t sid o i) sid' =
  option_map (fun c => if sid' =? sid then (o - 1, i - 1) else c) (counter t sid').
Proof.
  unfold counter, set_tables. cbn [t_sessions].
  rewrite (find_map_upd (fun r => mkS (s_id r) (s_target r) (s_sender r) (o - 1) (i - 1))) by reflexivity.
  destruct (find (fun r => s_id r =? sid') (t_sessions t)) eqn:F; cbn; [|reflexivity].
  apply find_some in F. destruct F as [_ F]. apply Z.eqb_eq in F. subst.
  destruct (s_id s =? sid); reflexivity.
Qed.

Lemma set_tables_wf t sid o i : wf t -> wf (set_tables t sid o i).
Proof.
  intros W.
  assert (W1 : wf (mkT (t_sessions t) (del_from sid o OUTBOUND (del_from sid i INBOUND (t_messages t))))).
  { destruct W as [K I C]. constructor; cbn; auto. unfold del_from. now do 2 apply filter_keys_nodup. }
  apply (upd_sessions_wf (fun r => mkS (s_id r) (s_target r) (s_sender r) (o - 1) (i - 1)) sid) in W1.
  - exact W1.
  - intros r. split; reflexivity.
Qed.

(* ------------------------------------------------------------------ range queries *)

Definition seq_le (a b : mrow) : Prop := m_seq a <= m_seq b.
Definition seq_lt (a b : mrow) : Prop := m_seq a < m_seq b.

Lemma insert_perm r l : Permutation (insert_by_seq r l) (r :: l).
Proof.
  induction l as [|x l IH]; cbn; [reflexivity|]. destruct (m_seq r <=? m_seq x); [reflexivity|].
  rewrite IH. apply perm_swap.
Qed.

Lemma sort_perm l : Permutation (sort_by_seq l) l.
Proof.
  induction l as [|x l IH]; cbn; [reflexivity|]. rewrite insert_perm. now constructor.
Qed.

Lemma insert_sorted r l : StronglySorted seq_le l -> StronglySorted seq_le (insert_by_seq r l).
Proof.
  induction l as [|x l IH]; cbn; intros S; [repeat constructor|].
  inversion S as [|? ? S' F]. subst.
  destruct (m_seq r <=? m_seq x) eqn:E.
  - apply Z.leb_le in E. constructor; auto. constructor; [exact E|].
    rewrite Forall_forall in *. intros y Hy. specialize (F y Hy). unfold seq_le in *. lia.
  - apply Z.leb_gt in E. constructor; [now apply IH|].
    rewrite Forall_forall in *. intros y Hy.
    apply (Permutation_in _ (insert_perm r l)) in Hy. destruct Hy as [<-|Hy]; [unfold seq_le; lia|auto].
Qed.

Lemma sort_sorted l : StronglySorted seq_le (sort_by_seq l).
Proof. induction l as [|x l IH]; cbn; [constructor|now apply insert_sorted]. Qed.

Definition in_range (sid dir lo hi : Z) (r : mrow) : bool :=
  (m_sid r =? sid) && (m_dir r =? dir) && (lo <=? m_seq r) && (m_seq r <=? hi).

Lemma select_range_in t sid dir lo hi r :
  In r (select_range t sid dir lo hi) <-> In r (t_messages t) /\ in_range sid dir lo hi r = true.
Proof.
  unfold select_range. rewrite <- filter_In. split; intros H.
  - eapply Permutation_in; [apply sort_perm|exact H].
  - eapply Permutation_in; [symmetry; apply sort_perm|exact H].
Qed.

Lemma sorted_strict l :
  StronglySorted seq_le l -> NoDup (map m_seq l) -> StronglySorted seq_lt l.
Proof.
  induction l as [|x l IH]; intros S ND; [constructor|].
  inversion S as [|? ? S' F]. inversion ND as [|? ? Hn ND']. subst. constructor; [auto|].
  rewrite Forall_forall in *. intros y Hy. specialize (F y Hy). unfold seq_le, seq_lt in *.
  assert (m_seq y <> m_seq x) by (intros E; apply Hn; rewrite <- E; now apply in_map). lia.
Qed.

Lemma select_range_strict t sid dir lo hi :
  wf t -> StronglySorted seq_lt (select_range t sid dir lo hi).
Proof.
  intros [K _ _]. apply sorted_strict; [apply sort_sorted|]. unfold select_range.
  apply (Permutation_NoDup (l := map m_seq (filter (in_range sid dir lo hi) (t_messages t)))).
  { apply Permutation_map. symmetry. apply sort_perm. }
  fold (in_range sid dir lo hi).
  induction (t_messages t) as [|x l IH]; cbn; [constructor|].
  inversion K as [|? ? Hn K']. subst. destruct (in_range sid dir lo hi x) eqn:E; [|auto].
  cbn. constructor; [|auto]. intros Hin. apply in_map_iff in Hin. destruct Hin as [y [Ey Hy]].
  apply filter_In in Hy. destruct Hy as [Hy Ry]. apply Hn.
  unfold in_range in *. rewrite !andb_true_iff, !Z.eqb_eq in *.
  replace (mkey x) with (mkey y); [now apply in_map|]. unfold mkey. f_equal; [f_equal|]; lia.
Qed.

Lemma lookup_in t sid dir n m :
  wf t -> (lookup t sid dir n = Some m <-> In (mkM n sid dir m) (t_messages t)).
Proof.
  intros [K _ _]. unfold lookup. split.
  - destruct (find _ _) eqn:F; [|discriminate]. cbn. intros [= <-].
    apply find_some in F. destruct F as [Hin Hk]. apply key_eqb_true in Hk.
    unfold mkey in Hk. inversion Hk. subst. now destruct m0.
  - intros Hin. induction (t_messages t) as [|x l IH]; [destruct Hin|].
    inversion K as [|? ? Hn K']. subst. cbn. destruct Hin as [->|Hin].
    + unfold key_eqb. cbn. now rewrite !Z.eqb_refl.
    + destruct (key_eqb x n sid dir) eqn:E; [|auto].
      apply key_eqb_true in E. exfalso. apply Hn. rewrite E.
      change (n, sid, dir) with (mkey (mkM n sid dir m)). now apply in_map.
Qed.

(* the range query returns exactly the stored entries of that session and direction in [lo, hi] *)
Lemma recover_messages_spec s dir lo hi d :
  wf (cur d) ->
  let rows := select_range (cur d) (key s) dir lo hi in
  recover_messages s dir lo hi d = map m_msg rows
  /\ StronglySorted seq_lt rows
  /\ (forall r, In r rows -> lo <= m_seq r <= hi /\ lookup (cur d) (key s) dir (m_seq r) = Some (m_msg r))
  /\ (forall n m, lo <= n <= hi -> lookup (cur d) (key s) dir n = Some m -> In (mkM n (key s) dir m) rows).
Proof.
  intros W rows. split; [reflexivity|]. split; [now apply select_range_strict|]. split.
  - intros r Hr. apply select_range_in in Hr. destruct Hr as [Hin R].
    unfold in_range in R. rewrite !andb_true_iff, !Z.eqb_eq, !Z.leb_le in R.
    split; [lia|]. apply lookup_in; [exact W|]. destruct r as [a b c e]. cbn in *.
    destruct R as [[[-> ->] _] _]. exact Hin.
  - intros n m Hn L. apply select_range_in. split; [now apply lookup_in|].
    unfold in_range. cbn. rewrite !Z.eqb_refl. cbn. apply andb_true_iff. split; apply Z.leb_le; lia.
Qed.

(* ------------------------------------------------------------------ sessions / create_or_load *)

Definition session_of_row (r : srow) : session :=
  mkSess (s_id r) (s_target r) (s_sender r) (s_out r + 1) (s_in r + 1).

Lemma sessions_is_map d : sessions d = map session_of_row (t_sessions (cur d)).
Proof. reflexivity. Qed.

Lemma has_session_lookup t tg sd :
  has_session t tg sd = true -> exists r, lookup_session t tg sd = Some r /\ In r (t_sessions t)
                                         /\ s_target r = tg /\ s_sender r = sd.
Proof.
  unfold has_session, lookup_session. intros H.
  destruct (find _ _) eqn:F.
  - exists s. apply find_some in F. destruct F as [Hin Hk]. apply andb_prop in Hk.
    destruct Hk as [A B]. apply str_eqb_eq in A, B. auto.
  - apply existsb_exists in H. destruct H as [x [Hin Hk]].
    rewrite find_none_iff in F. rewrite (F x Hin) in Hk. discriminate.
Qed.

(* loading an existing session reports exactly what listing all sessions reports *)
Lemma create_or_load_existing d tg sd :
  has_session (cur d) tg sd = true ->
  exists r, In r (t_sessions (cur d)) /\ s_target r = tg /\ s_sender r = sd
            /\ create_or_load tg sd d = (mkDb (committed d) (cur d) true, Some (session_of_row r))
            /\ In (session_of_row r) (sessions d).
Proof.
  intros H. destruct (has_session_lookup _ _ _ H) as [r [L [Hin [A B]]]].
  exists r. repeat split; auto.
  - unfold create_or_load, create_or_load_prims. cbn [exec_prims exec_prim apply_stmt].
    rewrite H. cbn [cur]. rewrite L. reflexivity.
  - rewrite sessions_is_map. now apply in_map.
Qed.

Lemma create_or_load_new d tg sd :
  has_session (cur d) tg sd = false ->
  let t' := mkT (t_sessions (cur d) ++ [mkS (next_sid (cur d)) tg sd 0 0]) (t_messages (cur d)) in
  create_or_load tg sd d = (mkDb t' t' false, Some (mkSess (next_sid (cur d)) tg sd 1 1))
  /\ In (mkSess (next_sid (cur d)) tg sd 1 1) (sessions (mkDb t' t' false)).
Proof.
  intros H t'. split.
  - unfold create_or_load, create_or_load_prims. cbn [exec_prims exec_prim apply_stmt].
    rewrite H. cbn. unfold next_sid. rewrite app_length. cbn.
    repeat f_equal. lia.
  - rewrite sessions_is_map. cbn. rewrite map_app, in_app_iff. right. left. reflexivity.
Qed.

Lemma ids_from_app k l r : ids_from k l -> s_id r = k + Z.of_nat (length l) -> ids_from k (l ++ [r]).
Proof.
  revert k. induction l as [|x l IH]; cbn; intros k H E.
  - split; [lia|exact I].
  - destruct H as [H1 H2]. split; [exact H1|]. apply IH; [exact H2|lia].
Qed.

Lemma create_new_wf t tg sd :
  wf t -> has_session t tg sd = false ->
  wf (mkT (t_sessions t ++ [mkS (next_sid t) tg sd 0 0]) (t_messages t)).
Proof.
  intros [K I C] H. constructor; cbn; auto.
  - apply ids_from_app; [exact I|]. cbn [s_id]. unfold next_sid. lia.
  - rewrite map_app. cbn. apply NoDup_snoc; [exact C|].
    intros Hin. apply in_map_iff in Hin. destruct Hin as [r [E Hr]]. unfold comp_key in E. inversion E.
    assert (has_session t tg sd = true); [|congruence].
    unfold has_session. apply existsb_exists. exists r. split; [exact Hr|].
    apply andb_true_iff. split; apply str_eqb_eq; assumption.
Qed.

(* mirror-image CompID pairs are different sessions *)
Lemma mirror_distinct t r1 r2 a b :
  wf t -> In r1 (t_sessions t) -> In r2 (t_sessions t) ->
  comp_key r1 = (a, b) -> comp_key r2 = (b, a) -> a <> b -> s_id r1 <> s_id r2.
Proof.
  intros [_ I _] H1 H2 E1 E2 Hab Eid.
  assert (G : forall l k w, ids_from k l -> In w l -> s_id w >= k).
  { induction l as [|u l IH]; cbn; intros k w Hi Hw; [destruct Hw|].
    destruct Hi as [Hu Hi]. destruct Hw as [->|Hw]; [lia|]. specialize (IH (k + 1) w Hi Hw). lia. }
  assert (U : forall l k x y, ids_from k l -> In x l -> In y l -> s_id x = s_id y -> x = y).
  { induction l as [|z l IH]; cbn; intros k x y Hi Hx Hy E; [destruct Hx|].
    destruct Hi as [Hz Hi].
    destruct Hx as [<-|Hx], Hy as [<-|Hy]; auto.
    - pose proof (G l (k + 1) y Hi Hy). lia.
    - pose proof (G l (k + 1) x Hi Hx). lia.
    - eapply IH; eauto. }
  assert (r1 = r2) by (eapply U; eauto). subst. rewrite E1 in E2. inversion E2. congruence.
Qed.

(* ------------------------------------------------------------------ reachable states *)

Lemma wf_empty : wf empty_tables.
Proof. constructor; cbn; auto; constructor. Qed.

Lemma exec_prim_cur_wf p d : wf (cur d) -> wf (committed d) -> 
  wf (cur (fst (exec_prim p d))) /\ wf (committed (fst (exec_prim p d))).
Proof.
  intros W Wc. destruct p as [tg sd|seq sid dir msg|seq sid|seq sid|inb outb sid|sid from dir|]; cbn [exec_prim].
  - cbn [apply_stmt]. destruct (has_session (cur d) tg sd) eqn:H; cbn; [auto|].
    split; [now apply create_new_wf|auto].
  - cbn [apply_stmt]. destruct (has_msg (cur d) seq sid dir) eqn:H; cbn; [auto|]. split; [|auto].
    destruct W as [K I C]. constructor; cbn; auto. rewrite map_app. cbn. apply NoDup_snoc; [exact K|].
    intros Hin. apply in_map_iff in Hin. destruct Hin as [r [E Hr]].
    assert (has_msg (cur d) seq sid dir = true); [|congruence].
    unfold has_msg. apply existsb_exists. exists r. split; [exact Hr|]. now apply key_eqb_true.
  - cbn. split; [|auto]. apply upd_sessions_wf; [intros r; split; reflexivity|exact W].
  - cbn. split; [|auto]. apply upd_sessions_wf; [intros r; split; reflexivity|exact W].
  - cbn. split; [|auto]. apply upd_sessions_wf; [intros r; split; reflexivity|exact W].
  - cbn. split; [|auto]. destruct W as [K I C]. constructor; cbn; auto. now apply filter_keys_nodup.
  - cbn. auto.
Qed.

Lemma exec_prims_wf ps d : wf (cur d) -> wf (committed d) ->
  wf (cur (fst (exec_prims ps d))) /\ wf (committed (fst (exec_prims ps d))).
Proof.
  revert d. induction ps as [|p ps IH]; cbn; intros d W Wc; [auto|].
  destruct (exec_prim p d) as [d' ok] eqn:E.
  pose proof (exec_prim_cur_wf p d W Wc) as H. rewrite E in H. cbn in H.
  destruct ok; [apply IH; tauto|cbn; tauto].
Qed.

Definition db_wf (d : db) : Prop := wf (cur d) /\ wf (committed d).

Lemma create_or_load_wf tg sd d : db_wf d -> db_wf (fst (create_or_load tg sd d)).
Proof.
  intros [W Wc]. unfold create_or_load.
  pose proof (exec_prims_wf (create_or_load_prims tg sd) d W Wc) as H.
  destruct (exec_prims _ d) as [d' ok]. cbn in H. destruct ok; [exact H|].
  destruct (lookup_session _ _ _); exact H.
Qed.

Lemma persist_msg_wf msg s dir d : db_wf d -> db_wf (fst (persist_msg msg s dir d)).
Proof.
  intros [W Wc]. unfold persist_msg. destruct (find_seq_no msg); [|split; assumption].
  pose proof (exec_prims_wf (persist_prims z s dir msg) d W Wc) as H.
  destruct (exec_prims _ d) as [d' ok]. exact H.
Qed.

Lemma set_seq_num_wf s o i d : db_wf d -> db_wf (fst (fst (set_seq_num s o i d))).
Proof.
  intros [W Wc]. unfold set_seq_num.
  destruct o as [v|], i as [w|]; repeat match goal with |- context [if ?b then _ else _] => destruct b end;
    cbn [fst]; try (split; assumption); apply exec_prims_wf; assumption.
Qed.

Lemma crash_wf d : db_wf d -> db_wf (crash d).
Proof. intros [_ Wc]. split; exact Wc. Qed.
